/-
  C02 helper: what a hook-driven subclass of `Basic_Player` SEES while a well-formed track is
  played.  The control machine (`Player.coreStep`) is run with the stack each hook call sees
  (`Player.hookStack`) recorded; by induction on the parsed forest the hook calls that are neither
  inside a repeated loop pass (`is_inside_loop()`) nor inside a call (`is_inside_jump()`) are exactly
  the events of the track, in source order, each once — the `LOOP_END` of a loop seen when the
  loop is finally left (by its end or, on the last pass, by its break).

  Success case only (the expansion of the forest is defined); the failure cases are C04's subject.
-/
import Ctrmml.Proofs.PlayerRefines
namespace Ctrmml.WTrace
open Ctrmml Player Tree Expand Refine

/-! ### visibility of a stack -/

/-- a frame that hides every hook call made while it is on the stack -/
def blocked (f : Frame) : Prop := (f.type = .loop ∧ f.loopCount ≠ 0) ∨ f.type = .jump

/-- the hook call is neither inside a repeated loop pass nor inside a call -/
def vis (st : List Frame) : Bool := !insideLoop st && !insideJump st

theorem insideJump_of_mem {st : List Frame} {f : Frame} (hm : f ∈ st) (hj : f.type = .jump) : insideJump st = true := by
  unfold insideJump
  have : f ∈ st.filter (·.type = .jump) := List.mem_filter.mpr ⟨hm, by simpa using hj⟩
  cases h : st.filter (·.type = .jump) with
  | nil => rw [h] at this; simp at this
  | cons a l => simp

theorem insideLoop_of_mem {st : List Frame} {f : Frame} (hm : f ∈ st) (hl : f.type = .loop) (hc : f.loopCount ≠ 0) :
    insideLoop st = true := by
  unfold insideLoop
  have hm' : f ∈ st.filter (·.type = .loop) := List.mem_filter.mpr ⟨hm, by simpa using hl⟩
  have h1 : (st.filter (·.type = .loop)).length ≠ 0 := by
    cases h : st.filter (·.type = .loop) with
    | nil => rw [h] at hm'; simp at hm'
    | cons a l => simp
  have h2 : ((st.filter (·.type = .loop)).filter (·.loopCount = 0)).length < (st.filter (·.type = .loop)).length :=
    List.length_filter_lt_length_iff_exists.mpr ⟨f, hm', by simpa using hc⟩
  simp only [h1, ne_eq, not_false_eq_true, decide_true, Bool.true_and, decide_eq_true_eq]
  omega

theorem vis_blocked {st : List Frame} {f : Frame} (hm : f ∈ st) (hb : blocked f) : vis st = false := by
  unfold vis
  rcases hb with ⟨hl, hc⟩ | hj
  · rw [insideLoop_of_mem hm hl hc]; rfl
  · rw [insideJump_of_mem hm hj]; simp

theorem vis_cons_fresh (fr : Frame) (σ : List Frame) (ht : fr.type = .loop) (hc : fr.loopCount = 0) :
    vis (fr :: σ) = vis σ := by
  have hj : insideJump (fr :: σ) = insideJump σ := by simp [insideJump, ht]
  have hl : insideLoop (fr :: σ) = insideLoop σ := by
    simp only [insideLoop, List.filter_cons, ht, decide_true, if_true, hc, List.length_cons]
    have hle := List.length_filter_le (fun f : Frame => decide (f.loopCount = 0)) (σ.filter (·.type = .loop))
    generalize (σ.filter (·.type = .loop)).length = n at *
    generalize ((σ.filter (·.type = .loop)).filter (·.loopCount = 0)).length = m at *
    by_cases hn : n = 0
    · subst hn
      have : m = 0 := by omega
      subst this
      simp
    · simp [hn]
  unfold vis
  rw [hj, hl]

section
variable (song : Song) (root : List Event)

/-! ### the machine with the hook's view recorded -/

abbrev Rec := Out × List Frame

/-- `k` control steps, recording what each reports and the stack its hook call sees -/
def stepsV : Nat → Core → Except PErr (Core × List Rec)
  | 0, c => .ok (c, [])
  | k + 1, c =>
    match coreStep song root c with
    | .error e => .error e
    | .ok (c', o) =>
      match stepsV k c' with
      | .error e => .error e
      | .ok (c'', rs) => .ok (c'', (o, hookStack c c' o) :: rs)

theorem stepsV_add (a b : Nat) (c : Core) :
    stepsV song root (a + b) c =
      match stepsV song root a c with
      | .error e => .error e
      | .ok (c', rs) =>
        match stepsV song root b c' with
        | .error e => .error e
        | .ok (c'', rs') => .ok (c'', rs ++ rs') := by
  induction a generalizing c with
  | zero =>
    simp only [Nat.zero_add, stepsV]
    cases stepsV song root b c with
    | error e => rfl
    | ok p => rfl
  | succ a ih =>
    have : a + 1 + b = (a + b) + 1 := by omega
    rw [this]
    simp only [stepsV]
    cases h : coreStep song root c with
    | error e => rfl
    | ok p =>
      obtain ⟨c', o⟩ := p
      simp only [ih]
      cases h2 : stepsV song root a c' with
      | error e => rfl
      | ok p2 =>
        obtain ⟨c2, os⟩ := p2
        simp only []
        cases h3 : stepsV song root b c2 with
        | error e => rfl
        | ok p3 => rfl

/-- the recording machine is the control machine -/
theorem stepsV_core : ∀ (k : Nat) (c c' : Core) (rs : List Rec), stepsV song root k c = .ok (c', rs) →
    stepsCore song root k c = .ok (c', rs.map (·.1))
  | 0, c, c', rs, h => by
    simp only [stepsV, Except.ok.injEq, Prod.mk.injEq] at h
    obtain ⟨rfl, rfl⟩ := h; rfl
  | k + 1, c, c', rs, h => by
    simp only [stepsV] at h
    cases h1 : coreStep song root c with
    | error e => rw [h1] at h; cases h
    | ok p =>
      obtain ⟨c1, o⟩ := p
      rw [h1] at h
      simp only at h
      cases h2 : stepsV song root k c1 with
      | error e => rw [h2] at h; cases h
      | ok p2 =>
        obtain ⟨c2, rs2⟩ := p2
        rw [h2] at h
        simp only [Except.ok.injEq, Prod.mk.injEq] at h
        obtain ⟨rfl, rfl⟩ := h
        simp [stepsCore, h1, stepsV_core k c1 c2 rs2 h2]

/-- `c` reaches `c'` reporting `rs`, none of which is a root `END` -/
def VRuns (c c' : Core) (rs : List Rec) : Prop :=
  ∃ k, stepsV song root k c = .ok (c', rs) ∧ ∀ r ∈ rs, isRoot r.1 = false

theorem VRuns.refl (c : Core) : VRuns song root c c [] := ⟨0, rfl, by simp⟩

theorem VRuns.trans {c1 c2 c3 : Core} {r1 r2 : List Rec}
    (h1 : VRuns song root c1 c2 r1) (h2 : VRuns song root c2 c3 r2) : VRuns song root c1 c3 (r1 ++ r2) := by
  obtain ⟨k1, h1, g1⟩ := h1; obtain ⟨k2, h2, g2⟩ := h2
  refine ⟨k1 + k2, by rw [stepsV_add, h1]; simp only [h2], ?_⟩
  intro o ho
  rcases List.mem_append.mp ho with h | h
  · exact g1 o h
  · exact g2 o h

theorem VRuns.one {c c' : Core} {o : Out} (h : coreStep song root c = .ok (c', o)) (ho : isRoot o = false) :
    VRuns song root c c' [(o, hookStack c c' o)] := ⟨1, by simp [stepsV, h], by simpa using ho⟩

theorem VRuns.runs {c c' : Core} {rs : List Rec} (h : VRuns song root c c' rs) : Runs song root c c' (rs.map (·.1)) := by
  obtain ⟨k, hk, hno⟩ := h
  refine ⟨k, stepsV_core song root k c c' rs hk, ?_⟩
  intro o ho
  obtain ⟨r, hr, rfl⟩ := List.mem_map.mp ho
  exact hno r hr

/-! ### what the hook is shown -/

/-- the `TraceItem` of a record (`Player.stepTrace`) -/
def itemOfRec (r : Rec) : Option TraceItem :=
  match r.1 with
  | .hook v f => some { ev := v, on := f.on, off := f.off, insideLoop := insideLoop r.2, insideJump := insideJump r.2 }
  | _ => none

def shown (it : TraceItem) : Bool := !it.insideLoop && !it.insideJump

/-- the hook calls that are neither inside a repeated loop pass nor inside a call -/
def visItems (rs : List Rec) : List TraceItem := (rs.filterMap itemOfRec).filter shown

theorem visItems_append (a b : List Rec) : visItems (a ++ b) = visItems a ++ visItems b := by
  simp [visItems, List.filterMap_append]

theorem visItems_nil : visItems [] = [] := rfl

/-- the item of a shown hook call -/
@[reducible] def tItem (v f : Event) : TraceItem := { ev := v, on := f.on, off := f.off, insideLoop := false, insideJump := false }

theorem visItems_hook (v f : Event) (st : List Frame) :
    visItems [(.hook v f, st)] = if vis st then [tItem v f] else [] := by
  unfold visItems vis
  simp only [List.filterMap_cons, itemOfRec, List.filterMap_nil, List.filter_cons, shown, List.filter_nil]
  cases h1 : insideLoop st <;> cases h2 : insideJump st <;> simp [tItem, h1, h2]

theorem visItems_ret (f : Event) (st : List Frame) : visItems [(.ret f, st)] = [] := by
  simp [visItems, itemOfRec]

/-- all recorded stacks extend `σ` -/
def Above (σ : List Frame) (rs : List Rec) : Prop := ∀ r ∈ rs, ∃ S, r.2 = S ++ σ

theorem Above.nil (σ : List Frame) : Above σ [] := by intro r hr; simp at hr

theorem Above.append {σ : List Frame} {a b : List Rec} (h1 : Above σ a) (h2 : Above σ b) : Above σ (a ++ b) := by
  intro r hr
  rcases List.mem_append.mp hr with h | h
  · exact h1 r h
  · exact h2 r h

theorem Above.weaken {σ : List Frame} {fr : Frame} {rs : List Rec} (h : Above (fr :: σ) rs) : Above σ rs := by
  intro r hr
  obtain ⟨S, hS⟩ := h r hr
  exact ⟨S ++ [fr], by rw [hS]; simp⟩

/-- under a blocking frame nothing is shown -/
theorem visItems_hidden {σ : List Frame} {fr : Frame} {rs : List Rec} (h : Above (fr :: σ) rs) (hb : blocked fr) :
    visItems rs = [] := by
  induction rs with
  | nil => rfl
  | cons r rs ih =>
    have h1 : visItems [r] = [] := by
      obtain ⟨S, hS⟩ := h r (by simp)
      obtain ⟨o, st⟩ := r
      simp only at hS
      cases o with
      | hook v f =>
        rw [visItems_hook, hS, vis_blocked (f := fr) (by simp) hb]; rfl
      | ret f => exact visItems_ret f st
      | rootEnd f => simp [visItems, itemOfRec]
    have : r :: rs = [r] ++ rs := rfl
    rw [this, visItems_append, h1, ih (fun r' hr' => h r' (List.mem_cons_of_mem _ hr'))]
    rfl

/-- the machine, started in `c` with stack `σ`, reaches `c'`; every hook call in between sees a
stack that extends `σ`, and what is shown is `its` when `σ` itself is visible, nothing otherwise -/
def VSim (σ : List Frame) (c c' : Core) (its : List TraceItem) : Prop :=
  ∃ rs, VRuns song root c c' rs ∧ Above σ rs ∧ visItems rs = if vis σ then its else []

theorem VSim.nil (σ : List Frame) (c : Core) : VSim song root σ c c [] :=
  ⟨[], VRuns.refl song root c, Above.nil σ, by simp [visItems_nil]⟩

theorem VSim.seq {σ : List Frame} {c1 c2 c3 : Core} {a b : List TraceItem}
    (h1 : VSim song root σ c1 c2 a) (h2 : VSim song root σ c2 c3 b) : VSim song root σ c1 c3 (a ++ b) := by
  obtain ⟨r1, v1, a1, e1⟩ := h1
  obtain ⟨r2, v2, a2, e2⟩ := h2
  refine ⟨r1 ++ r2, v1.trans song root v2, a1.append a2, ?_⟩
  rw [visItems_append, e1, e2]
  cases vis σ <;> simp

/-- a step whose hook sees the stack `σ` itself -/
theorem VSim.hook_here {σ : List Frame} {c c' : Core} {v f : Event}
    (h : coreStep song root c = .ok (c', .hook v f)) (hs : hookStack c c' (.hook v f) = σ) :
    VSim song root σ c c' [tItem v f] :=
  ⟨[(.hook v f, hookStack c c' (.hook v f))], VRuns.one song root h rfl,
    fun r hr => by simp at hr; subst hr; exact ⟨[], by simp [hs]⟩,
    by rw [visItems_hook, hs]⟩

/-- a step whose hook sees a stack `st` that extends `σ` and is exactly as visible as `σ` -/
theorem VSim.hook_at {σ st : List Frame} {c c' : Core} {v f : Event}
    (h : coreStep song root c = .ok (c', .hook v f)) (hs : hookStack c c' (.hook v f) = st)
    (ha : ∃ S, st = S ++ σ) (hv : vis st = vis σ) :
    VSim song root σ c c' [tItem v f] :=
  ⟨[(.hook v f, hookStack c c' (.hook v f))], VRuns.one song root h rfl,
    fun r hr => by simp at hr; subst hr; simpa [hs] using ha,
    by rw [visItems_hook, hs, hv]⟩

/-- a step whose hook sees a stack with a blocking frame above `σ` -/
theorem VSim.hook_blocked {σ : List Frame} {fr : Frame} {c c' : Core} {v f : Event}
    (h : coreStep song root c = .ok (c', .hook v f)) (hs : hookStack c c' (.hook v f) = fr :: σ) (hb : blocked fr) :
    VSim song root σ c c' [] :=
  ⟨[(.hook v f, hookStack c c' (.hook v f))], VRuns.one song root h rfl,
    fun r hr => by simp at hr; subst hr; exact ⟨[fr], by simp [hs]⟩,
    by rw [visItems_hook, hs, vis_blocked (f := fr) (by simp) hb]; simp⟩

theorem VSim.ret {σ : List Frame} {c c' : Core} {f : Event}
    (h : coreStep song root c = .ok (c', .ret f)) (hs : hookStack c c' (.ret f) = σ) :
    VSim song root σ c c' [] :=
  ⟨[(.ret f, hookStack c c' (.ret f))], VRuns.one song root h rfl,
    fun r hr => by simp at hr; subst hr; exact ⟨[], by simp [hs]⟩,
    by rw [visItems_ret]; simp⟩

/-- everything that happens under a blocking frame is hidden -/
theorem VSim.under_blocked {σ : List Frame} {fr : Frame} {c c' : Core} {its : List TraceItem}
    (h : VSim song root (fr :: σ) c c' its) (hb : blocked fr) : VSim song root σ c c' [] := by
  obtain ⟨rs, v, a, _⟩ := h
  exact ⟨rs, v, a.weaken, by rw [visItems_hidden a hb]; simp⟩

/-- a fresh loop frame (first pass) hides nothing -/
theorem VSim.under_fresh {σ : List Frame} {fr : Frame} {c c' : Core} {its : List TraceItem}
    (h : VSim song root (fr :: σ) c c' its) (ht : fr.type = .loop) (hc : fr.loopCount = 0) :
    VSim song root σ c c' its := by
  obtain ⟨rs, v, a, e⟩ := h
  exact ⟨rs, v, a.weaken, by rw [e, vis_cons_fresh fr σ ht hc]⟩

/-! ### what is shown of a forest -/

/-- the event fetched when the hook is shown the `LOOP_END` with which a loop is left: the
`LOOP_END` itself, or — a loop with a break that runs at least twice — its first break -/
def exitSrc (body : List Node) (le : Event) : Event :=
  if le.param.toNat ≤ 1 then le else if hasTopBreak body then topBreakEv body else le

mutual
def visN : Node → List TraceItem
  | .ev e => [tItem e e]
  | .brk e => [tItem e e]
  | .loop ls body le => tItem ls ls :: (visL body ++ [tItem le (exitSrc body le)])
  | .strayEnd _ => []
  | .openLoop _ _ => []
def visL : List Node → List TraceItem
  | [] => []
  | n :: ns => visN n ++ visL ns
end

/-- what a `JUMP` does, for a call semantics valid on stacks with `σ.length + k ≥ limit`: the hook
is shown the `JUMP` (before the push), the callee runs hidden, the machine comes back -/
def VCallSpec (call : Nat → Nat → Except SErr (List Item)) (k : Nat) : Prop :=
  ∀ (tr : TRef) (pre : List Event) (e : Event) (post : List Event) (σ : List Frame) (items : List Item),
    codeOf song root tr = pre ++ e :: post → e.kind = .jump → σ.length + k ≥ limit →
    call σ.length (trackIdOfParam e.param) = .ok items →
    VSim song root σ ⟨tr, pre.length, σ⟩ ⟨tr, pre.length + 1, σ⟩ [tItem e e]

theorem seq_ok {a b : Except SErr (List Item)} {items : List Item} (h : Expand.seq a b = .ok items) :
    ∃ x y, a = .ok x ∧ b = .ok y ∧ items = x ++ y := by
  cases a with
  | error e => simp [Expand.seq] at h
  | ok x =>
    cases b with
    | error e => simp [Expand.seq] at h
    | ok y => simp [Expand.seq] at h; exact ⟨x, y, rfl, rfl, h.symm⟩

/-- the remaining passes of a loop whose first pass is over: all hidden, except the hook call
with which the loop is left -/
theorem viter (tr : TRef) (P Q : Nat) (σ : List Frame) (le : Event) (hasB : Bool) (bev : Event)
    (hle : (codeOf song root tr)[Q]? = some le) (hlk : le.kind = .loopEnd)
    (hpass : ∀ fr : Frame, fr.type = .loop → (hasB = false ∨ fr.loopCount ≠ 1) → fr.loopCount ≠ 0 →
        VSim song root σ ⟨tr, P, fr :: σ⟩ ⟨tr, Q, fr :: σ⟩ [])
    (hlast : hasB = true → ∀ fr : Frame, fr.type = .loop → fr.loopCount = 1 → fr.endPosition = Q + 1 →
        VSim song root σ ⟨tr, P, fr :: σ⟩ ⟨tr, Q + 1, σ⟩ [tItem le bev]) :
    ∀ j : Nat, j ≥ 1 → ∀ fr : Frame, fr.type = .loop → fr.position = P → fr.endPosition = Q + 1 →
      fr.loopCount = (j : Int) →
      VSim song root σ ⟨tr, P, fr :: σ⟩ ⟨tr, Q + 1, σ⟩ [tItem le (if hasB then bev else le)] := by
  intro j
  induction j with
  | zero => intro h; omega
  | succ j ih =>
    intro _ fr hft hfp hfe hfc
    cases j with
    | zero =>
      have hc1 : fr.loopCount = 1 := by simpa using hfc
      cases hb : hasB with
      | true => simpa using hlast hb fr hft hc1 hfe
      | false =>
        have h1 := hpass fr hft (Or.inl hb) (by omega)
        have hs := step_loopEnd song root (tr := tr) (pos := Q) (fr := fr) (r := σ) hle hlk hft
        have hne : fr.loopCount ≠ 0 := by omega
        have h2 : coreStep song root ⟨tr, Q, fr :: σ⟩ = .ok (⟨tr, Q + 1, σ⟩, .hook le le) := by
          rw [hs]; simp [hne, hc1]
        have h3 := VSim.hook_at song root (σ := σ) (st := σ) h2 (by simp [hookStack, hlk]) ⟨[], rfl⟩ rfl
        simpa using VSim.seq song root h1 h3
    | succ j =>
      have hcj : fr.loopCount = (j : Int) + 2 := by omega
      have hne1 : fr.loopCount ≠ 1 := by omega
      have hne0 : fr.loopCount ≠ 0 := by omega
      have h1 := hpass fr hft (Or.inr hne1) hne0
      have hs := step_loopEnd song root (tr := tr) (pos := Q) (fr := fr) (r := σ) hle hlk hft
      have h2 : coreStep song root ⟨tr, Q, fr :: σ⟩
          = .ok (⟨tr, P, { fr with endPosition := Q + 1, loopCount := fr.loopCount - 1 } :: σ⟩, .hook le le) := by
        rw [hs]
        have a : ¬ (fr.loopCount < 0) := by omega
        have b : fr.loopCount - 1 > 0 := by omega
        simp [hne0, a, hfp]; omega
      have h2' := VSim.hook_blocked song root (σ := σ)
        (fr := { fr with endPosition := Q + 1, loopCount := fr.loopCount - 1 }) h2 (by simp [hookStack, hlk])
        (Or.inl ⟨hft, by show fr.loopCount - 1 ≠ 0; omega⟩)
      have h3 := ih (by omega) { fr with endPosition := Q + 1, loopCount := fr.loopCount - 1 }
        hft hfp rfl (by simp; omega)
      simpa using VSim.seq song root (VSim.seq song root h1 h2') h3

mutual
theorem vN (call : Nat → Nat → Except SErr (List Item)) (k : Nat) (hcall : VCallSpec song root call k) :
    ∀ (n : Node), Node.closed n → ∀ (pre post : List Event) (tr : TRef) (σ : List Frame) (inLoop : Bool) (items : List Item),
    codeOf song root tr = pre ++ flattenN n ++ post → TopOK inLoop [n] σ → σ.length + k ≥ limit →
    expN call σ.length inLoop n = .ok items →
    VSim song root σ ⟨tr, pre.length, σ⟩ ⟨tr, pre.length + (flattenN n).length, σ⟩ (visN n)
  | .ev e, hcl, pre, post, tr, σ, inLoop, items, hcode, htop, hbud, hexp => by
    have hc : (codeOf song root tr)[pre.length]? = some e := by
      rw [hcode]; simp [flattenN]
    rcases hcl with hk | hk | hk
    · have hs := step_other song root (σ := σ) hc (Or.inl hk)
      simpa [visN, flattenN] using VSim.hook_at song root (σ := σ) (st := σ) hs (by simp [hookStack, hk]) ⟨[], rfl⟩ rfl
    · simp only [expN, hk] at hexp
      obtain ⟨x, y, _, hy, _⟩ := seq_ok hexp
      simpa [visN, flattenN] using hcall tr pre e post σ y (by simpa [flattenN] using hcode) hk hbud hy
    · have hs := step_other song root (σ := σ) hc (Or.inr hk)
      simpa [visN, flattenN] using VSim.hook_at song root (σ := σ) (st := σ) hs (by simp [hookStack, hk]) ⟨[], rfl⟩ rfl
  | .brk e, hcl, pre, post, tr, σ, inLoop, items, hcode, htop, hbud, hexp => by
    have hc : (codeOf song root tr)[pre.length]? = some e := by
      rw [hcode]; simp [flattenN]
    have hk : e.kind = .loopBreak := hcl
    cases inLoop with
    | true =>
      obtain ⟨fr, r, rfl, hft, hcnt⟩ := htop
      have hne : fr.loopCount ≠ 1 := by
        rcases hcnt with h | h
        · simp [hasTopBreak] at h
        · exact h
      have hs := step_break_pass song root (r := r) hc hk hft hne
      simpa [visN, flattenN] using VSim.hook_at song root (σ := fr :: r) (st := fr :: r) hs (by simp [hookStack, hk]) ⟨[], rfl⟩ rfl
    | false => simp [expN] at hexp
  | .strayEnd e, hcl, _, _, _, _, _, _, _, _, _, _ => by exact absurd hcl (by simp [Node.closed])
  | .openLoop ls b, hcl, _, _, _, _, _, _, _, _, _, _ => by exact absurd hcl (by simp [Node.closed])
  | .loop ls b le, hcl, pre, post, tr, σ, inLoop, items, hcode, htop, hbud, hexp => by
    obtain ⟨hlsk, hbcl, hlek⟩ := hcl
    obtain ⟨P, hP⟩ : ∃ P, P = pre.length + 1 := ⟨_, rfl⟩
    obtain ⟨Q, hQ⟩ : ∃ Q, Q = P + (flattenL b).length := ⟨_, rfl⟩
    have hcode2 : codeOf song root tr = (pre ++ [ls]) ++ flattenL b ++ (le :: post) := by
      rw [hcode]; simp [flattenN, List.append_assoc]
    have hPl : (pre ++ [ls]).length = P := by simp [hP]
    have hcls : (codeOf song root tr)[pre.length]? = some ls := by
      rw [hcode]; simp [flattenN]
    have hcle : (codeOf song root tr)[Q]? = some le := by
      have : Q = ((pre ++ [ls]) ++ flattenL b).length := by simp [hQ, hP]; omega
      rw [this, hcode2]; exact get_mid _ _ _
    have hlen : pre.length + (flattenN (.loop ls b le)).length = Q + 1 := by
      simp [flattenN, hQ, hP]; omega
    rw [hlen]
    by_cases hfull : σ.length ≥ limit
    · simp [expN, hfull] at hexp
    have hlt : σ.length < limit := by omega
    simp only [expN, hfull, if_false] at hexp
    cases hfullR : expL call (σ.length + 1) true b with
    | error x => rw [hfullR] at hexp; simp at hexp
    | ok full =>
      rw [hfullR] at hexp
      simp only [] at hexp
      by_cases hneg : le.param < 0
      · simp [hneg] at hexp
      simp only [hneg, if_false] at hexp
      obtain ⟨fr0, hfr0⟩ : ∃ fr0 : Frame, fr0 = { type := .loop, track := tr, position := P, endPosition := 0, loopCount := 0 } := ⟨_, rfl⟩
      have hstep0 : coreStep song root ⟨tr, pre.length, σ⟩ = .ok (⟨tr, P, fr0 :: σ⟩, .hook ls ls) := by
        rw [step_loopStart song root hcls hlsk hlt, hfr0, hP]
      have hft0 : fr0.type = .loop := by simp [hfr0]
      have hfc0 : fr0.loopCount = 0 := by simp [hfr0]
      have hS0 := VSim.hook_at song root (σ := σ) (st := fr0 :: σ) hstep0 (by simp [hookStack, hlsk]) ⟨[fr0], rfl⟩
        (vis_cons_fresh fr0 σ hft0 hfc0)
      -- one pass of the body under any loop frame in pass mode
      have hpassG : ∀ fr : Frame, fr.type = .loop → (hasTopBreak b = false ∨ fr.loopCount ≠ 1) →
          VSim song root (fr :: σ) ⟨tr, P, fr :: σ⟩ ⟨tr, Q, fr :: σ⟩ (visL b) := by
        intro fr hft hc
        have := vL call k hcall b hbcl (pre ++ [ls]) (le :: post) tr (fr :: σ) true full hcode2
          ⟨fr, σ, rfl, hft, hc⟩ (by simp; omega) (by simpa using hfullR)
        simpa [hPl, hQ] using this
      have hfirst := (hpassG fr0 hft0 (Or.inr (by simp [hfr0]))).under_fresh song root hft0 hfc0
      have hsle := step_loopEnd song root (tr := tr) (pos := Q) (fr := fr0) (r := σ) hcle hlek hft0
      by_cases hn1 : le.param.toNat ≤ 1
      · -- count 0 or 1: the body is played once
        have : coreStep song root ⟨tr, Q, fr0 :: σ⟩ = .ok (⟨tr, Q + 1, σ⟩, .hook le le) := by
          rw [hsle]
          have : ¬ (le.param - 1 > 0) := by omega
          simp [hfc0, hneg, this] <;> omega
        have hE := VSim.hook_at song root (σ := σ) (st := σ) this (by simp [hookStack, hlek]) ⟨[], rfl⟩ rfl
        have := VSim.seq song root (VSim.seq song root hS0 hfirst) hE
        simpa [visN, exitSrc, hn1] using this
      · obtain ⟨n, hn⟩ : ∃ n : Nat, n = le.param.toNat := ⟨_, rfl⟩
        have hnp : le.param = (n : Int) := by omega
        obtain ⟨fr1, hfr1⟩ : ∃ fr1 : Frame, fr1 = { fr0 with endPosition := Q + 1, loopCount := le.param - 1 } := ⟨_, rfl⟩
        have hstepE : coreStep song root ⟨tr, Q, fr0 :: σ⟩ = .ok (⟨tr, P, fr1 :: σ⟩, .hook le le) := by
          rw [hsle]
          have : le.param - 1 > 0 := by omega
          simp [hfc0, hneg, this, hfr1, hfr0] <;> omega
        have hb1 : blocked fr1 := Or.inl ⟨by simp [hfr1, hfr0], by simp [hfr1]; omega⟩
        have hE := VSim.hook_blocked song root (σ := σ) hstepE (by simp [hookStack, hlek]) hb1
        have hpassF : ∀ fr : Frame, fr.type = .loop → (hasTopBreak b = false ∨ fr.loopCount ≠ 1) → fr.loopCount ≠ 0 →
            VSim song root σ ⟨tr, P, fr :: σ⟩ ⟨tr, Q, fr :: σ⟩ [] :=
          fun fr hft hc hc0 => (hpassG fr hft hc).under_blocked song root (Or.inl ⟨hft, hc0⟩)
        have hlast : hasTopBreak b = true → ∀ fr : Frame, fr.type = .loop → fr.loopCount = 1 →
            fr.endPosition = Q + 1 → VSim song root σ ⟨tr, P, fr :: σ⟩ ⟨tr, Q + 1, σ⟩ [tItem le (topBreakEv b)] := by
          intro hb fr hft hc he
          have hle' : (codeOf song root tr)[fr.endPosition - 1]? = some le := by
            rw [he]; simpa using hcle
          simp only [hn1, if_false, hb, if_true] at hexp
          cases hpre : expPre call (σ.length + 1) b with
          | error x => rw [hpre] at hexp; simp at hexp
          | ok pre' =>
            have := vLast call k hcall b hbcl hb (pre ++ [ls]) (le :: post) tr fr σ le pre' hcode2 hft hc hle'
              (by simp; omega) hpre
            simpa [hPl, he] using this
        have hiter := viter song root tr P Q σ le (hasTopBreak b) (topBreakEv b) hcle hlek hpassF hlast
          (n - 1) (by omega) fr1 (by simp [hfr1, hfr0]) (by simp [hfr1, hfr0]) (by simp [hfr1]) (by simp [hfr1]; omega)
        have := VSim.seq song root (VSim.seq song root (VSim.seq song root hS0 hfirst) hE) hiter
        simpa [visN, exitSrc, hn1] using this
theorem vL (call : Nat → Nat → Except SErr (List Item)) (k : Nat) (hcall : VCallSpec song root call k) :
    ∀ (f : List Node), closedL f → ∀ (pre post : List Event) (tr : TRef) (σ : List Frame) (inLoop : Bool) (items : List Item),
    codeOf song root tr = pre ++ flattenL f ++ post → TopOK inLoop f σ → σ.length + k ≥ limit →
    expL call σ.length inLoop f = .ok items →
    VSim song root σ ⟨tr, pre.length, σ⟩ ⟨tr, pre.length + (flattenL f).length, σ⟩ (visL f)
  | [], _, pre, post, tr, σ, inLoop, _, _, _, _, _ => by
    simpa [flattenL, visL] using VSim.nil song root σ ⟨tr, pre.length, σ⟩
  | n :: ns, hcl, pre, post, tr, σ, inLoop, items, hcode, htop, hbud, hexp => by
    rw [expL_cons] at hexp
    obtain ⟨x, y, hx, hy, _⟩ := seq_ok hexp
    have h1 := vN call k hcall n hcl.1 pre (flattenL ns ++ post) tr σ inLoop x
      (by rw [hcode]; simp [flattenL_cons, List.append_assoc]) htop.head hbud hx
    have h2 := vL call k hcall ns hcl.2 (pre ++ flattenN n) post tr σ inLoop y
      (by rw [hcode]; simp [flattenL_cons, List.append_assoc]) htop.tail hbud hy
    have := VSim.seq song root h1 (by simpa using h2)
    simpa [flattenL_cons, Nat.add_assoc, visL] using this
theorem vLast (call : Nat → Nat → Except SErr (List Item)) (k : Nat) (hcall : VCallSpec song root call k) :
    ∀ (f : List Node), closedL f → hasTopBreak f = true →
    ∀ (pre post : List Event) (tr : TRef) (fr : Frame) (r : List Frame) (le : Event) (items : List Item),
    codeOf song root tr = pre ++ flattenL f ++ post → fr.type = .loop → fr.loopCount = 1 →
    (codeOf song root tr)[fr.endPosition - 1]? = some le → (fr :: r).length + k ≥ limit →
    expPre call (r.length + 1) f = .ok items →
    VSim song root r ⟨tr, pre.length, fr :: r⟩ ⟨tr, fr.endPosition, r⟩ [tItem le (topBreakEv f)]
  | [], _, hb, _, _, _, _, _, _, _, _, _, _, _, _, _ => by simp [hasTopBreak] at hb
  | .brk e :: ns, hcl, _, pre, post, tr, fr, r, le, items, hcode, hft, hc, hle, _, _ => by
    have hcg : (codeOf song root tr)[pre.length]? = some e := by
      rw [hcode]; simp [flattenL_cons, flattenN]
    have hk : e.kind = .loopBreak := hcl.1
    have hs := step_break_last song root (r := r) hcg hk hft hc hle
    simpa [topBreakEv] using VSim.hook_at song root (σ := r) (st := r) hs (by simp [hookStack, hk]) ⟨[], rfl⟩ rfl
  | .ev e :: ns, hcl, hb, pre, post, tr, fr, r, le, items, hcode, hft, hc, hle, hbud, hexp => by
    simp only [expPre] at hexp
    obtain ⟨x, y, hx, hy, _⟩ := seq_ok hexp
    have h1 := vN call k hcall (.ev e) hcl.1 pre (flattenL ns ++ post) tr (fr :: r) true x
      (by rw [hcode]; simp [flattenL_cons, List.append_assoc])
      ⟨fr, r, rfl, hft, Or.inl (by simp [hasTopBreak])⟩ hbud (by simpa using hx)
    have h2 := vLast call k hcall ns hcl.2 (by simpa [hasTopBreak] using hb) (pre ++ flattenN (.ev e)) post tr fr r le y
      (by rw [hcode]; simp [flattenL_cons, List.append_assoc]) hft hc hle hbud hy
    have h1' := h1.under_blocked song root (Or.inl ⟨hft, by omega⟩)
    have := VSim.seq song root h1' (by simpa using h2)
    simpa [topBreakEv] using this
  | .loop ls b le' :: ns, hcl, hb, pre, post, tr, fr, r, le, items, hcode, hft, hc, hle, hbud, hexp => by
    simp only [expPre] at hexp
    obtain ⟨x, y, hx, hy, _⟩ := seq_ok hexp
    have h1 := vN call k hcall (.loop ls b le') hcl.1 pre (flattenL ns ++ post) tr (fr :: r) true x
      (by rw [hcode]; simp [flattenL_cons, List.append_assoc])
      ⟨fr, r, rfl, hft, Or.inl (by simp [hasTopBreak])⟩ hbud (by simpa using hx)
    have h2 := vLast call k hcall ns hcl.2 (by simpa [hasTopBreak] using hb) (pre ++ flattenN (.loop ls b le')) post tr fr r le y
      (by rw [hcode]; simp [flattenL_cons, List.append_assoc]) hft hc hle hbud hy
    have h1' := h1.under_blocked song root (Or.inl ⟨hft, by omega⟩)
    have := VSim.seq song root h1' (by simpa using h2)
    simpa [topBreakEv] using this
  | .strayEnd e :: ns, hcl, _, _, _, _, _, _, _, _, _, _, _, _, _, _ => by exact absurd hcl.1 (by simp [Node.closed])
  | .openLoop ls b :: ns, hcl, _, _, _, _, _, _, _, _, _, _, _, _, _, _ => by exact absurd hcl.1 (by simp [Node.closed])
end

/-! ### whole tracks -/

/-- a forest of the shape the matcher produces whose expansion is defined has no structural fault -/
theorem closed_of_ok (call : Nat → Nat → Except SErr (List Item)) {b : Bool} {f : List Node} (hs : Spine b f) :
    ∀ (d : Nat) (items : List Item), expL call d b f = .ok items → closedL f := by
  induction hs with
  | nil => intro _ _ _; trivial
  | @closed b n ns hn _ ih =>
    intro d items h
    rw [expL_cons] at h
    obtain ⟨_, y, _, hy, _⟩ := seq_ok h
    exact ⟨hn, ih d y hy⟩
  | @stray e ns hk => intro d items h; simp [expL, expN, Expand.seq] at h
  | @opened b ls body hk _ _ => intro d items h; simp [expL, expN, Expand.seq] at h

theorem vcallK_spec (hne : SongNoEnd song) : ∀ k, VCallSpec song root (callK song k) k
  | 0 => by
    intro tr pre e post σ items _ _ _ h
    simp [callK] at h
  | k + 1 => by
    intro tr pre e post σ items hcode hk hbud h
    have hc : (codeOf song root tr)[pre.length]? = some e := by rw [hcode]; simp
    by_cases hfull : σ.length ≥ limit
    · simp [callK, hfull] at h
    cases hm : song.track? (trackIdOfParam e.param) with
    | none => simp [callK, hfull, hm] at h
    | some evs =>
      have hlt : σ.length < limit := by omega
      have hstep := step_jump song root (σ := σ) hc hk hlt hm
      obtain ⟨frJ, hfrJ⟩ : ∃ frJ : Frame, frJ = { type := .jump, track := tr, position := pre.length + 1, endPosition := 0, loopCount := 0 } := ⟨_, rfl⟩
      rw [← hfrJ] at hstep
      have hx : expL (callK song k) (σ.length + 1) false (parse evs) = .ok items := by
        simpa [callK, hfull, hm] using h
      have hcl : closedL (parse evs) := closed_of_ok (callK song k) (spine_parse evs (hne _ _ hm)) _ _ hx
      have hcodeC : codeOf song root (.id (trackIdOfParam e.param)) = [] ++ flattenL (parse evs) ++ [] := by
        simp [codeOf, hm, flatten_parse]
      have hsp := vL song root (callK song k) k (vcallK_spec hne k) (parse evs) hcl [] [] (.id (trackIdOfParam e.param))
        (frJ :: σ) false items hcodeC (by intro fr r h; cases h; simp [hfrJ]) (by simp; omega) (by simpa using hx)
      have hlenC : (flattenL (parse evs)).length = evs.length := by rw [flatten_parse]
      rw [hlenC] at hsp
      have hnone : (codeOf song root (.id (trackIdOfParam e.param)))[evs.length]? = none := by
        simp [codeOf, hm]
      have hret := step_end_ret song root (tr := .id (trackIdOfParam e.param)) (pos := evs.length)
        (fr := frJ) (r := σ) hnone (by simp [hfrJ])
      have h1 := VSim.hook_at song root (σ := σ) (st := σ) hstep (by simp [hookStack, hk]) ⟨[], rfl⟩ rfl
      have h2 := hsp.under_blocked song root (Or.inr (by simp [hfrJ]))
      have h3 := VSim.ret song root (σ := σ) hret (by simp [hookStack])
      have hfp : frJ.position = pre.length + 1 := by simp [hfrJ]
      have hft : frJ.track = tr := by simp [hfrJ]
      rw [hfp, hft] at h3
      simpa using VSim.seq song root (VSim.seq song root h1 (by simpa using h2)) h3

/-- **what the writer is shown of a track**: stepping a well-formed track from its start to its end
shows the hook exactly `visL` of its forest -/
theorem vperf (hne : SongNoEnd song) (hr : NoEnd root) {items : List Item} (h : perf song root = .ok items) :
    ∃ rs, VRuns song root ⟨.root, 0, []⟩ ⟨.root, root.length, []⟩ rs ∧ visItems rs = visL (parse root) := by
  have hcl : closedL (parse root) := closed_of_ok (callK song limit) (spine_parse root hr) _ _ h
  have := vL song root (callK song limit) limit (vcallK_spec song root hne limit) (parse root) hcl [] [] .root [] false items
    (by simp [codeOf, flatten_parse]) (by intro fr r h; cases h) (by simp) (by simpa [perf] using h)
  obtain ⟨rs, v, _, e⟩ := this
  have hl : (flattenL (parse root)).length = root.length := by rw [flatten_parse]
  refine ⟨rs, by simpa [hl] using v, ?_⟩
  rw [e]; rfl

/-! ### the end of the track is reached only once -/

theorem coreStep_rootEnd : coreStep song root ⟨.root, root.length, []⟩ = .ok (⟨.root, root.length + 1, []⟩, .rootEnd endEvent) := by
  have hnone : (codeOf song root .root)[root.length]? = none := by simp [codeOf]
  have hfin : endEvent.kind = .fin := by decide
  unfold coreStep
  simp [fetch, hnone, hfin]

/-- two runs without a root `END` from the same state to the end of the root track are the same run -/
theorem runs_unique {c : Core} {o1 o2 : List Out} (h1 : Runs song root c ⟨.root, root.length, []⟩ o1)
    (h2 : Runs song root c ⟨.root, root.length, []⟩ o2) : o1 = o2 := by
  obtain ⟨k1, e1, n1⟩ := h1
  obtain ⟨k2, e2, n2⟩ := h2
  have key : ∀ (a b : Nat) (oa ob : List Out), stepsCore song root a c = .ok (⟨.root, root.length, []⟩, oa) →
      stepsCore song root (a + b) c = .ok (⟨.root, root.length, []⟩, ob) → (∀ o ∈ ob, isRoot o = false) → oa = ob := by
    intro a b oa ob ha hb hn
    rw [stepsCore_add, ha] at hb
    simp only at hb
    cases b with
    | zero => simp [stepsCore] at hb; exact hb
    | succ b =>
      simp only [stepsCore, coreStep_rootEnd] at hb
      cases h3 : stepsCore song root b ⟨.root, root.length + 1, []⟩ with
      | error e => rw [h3] at hb; cases hb
      | ok p =>
        rw [h3] at hb
        simp only [Except.ok.injEq, Prod.mk.injEq] at hb
        have : Out.rootEnd endEvent ∈ ob := by rw [← hb.2]; simp
        have := hn _ this
        simp [isRoot] at this
  rcases Nat.le_total k1 k2 with hle | hle
  · obtain ⟨b, rfl⟩ : ∃ b, k2 = k1 + b := ⟨k2 - k1, by omega⟩
    exact key k1 b o1 o2 e1 e2 n2
  · obtain ⟨b, rfl⟩ : ∃ b, k1 = k2 + b := ⟨k1 - k2, by omega⟩
    exact (key k2 b o2 o1 e2 e1 n1).symm

/-- the run of `vperf` calls the hook with exactly the items of the performance -/
theorem vperf_items (hne : SongNoEnd song) (hr : NoEnd root) {items : List Item} (h : perf song root = .ok items)
    {rs : List Rec} (hv : VRuns song root ⟨.root, 0, []⟩ ⟨.root, root.length, []⟩ rs) :
    itemsOf (rs.map (·.1)) = items := by
  have hsim := perf_sim song root hne hr
  rw [h] at hsim
  obtain ⟨outs, hruns, hitems⟩ := hsim
  rw [runs_unique song root (hv.runs song root) hruns, hitems]

/-! ### commands that take no time: the shown items are the events of the track -/

/-- loop ends and loop breaks carry no on/off time (the front end never gives them any) -/
def BracketsTimeless (l : List Event) : Prop :=
  ∀ e ∈ l, e.kind = .loopEnd ∨ e.kind = .loopBreak → e.on = 0 ∧ e.off = 0

theorem topBreakEv_mem : ∀ (f : List Node), hasTopBreak f = true → topBreakEv f ∈ flattenL f ∧ (topBreakEv f).kind = .loopBreak ∨
    ¬ closedL f
  | [], h => by simp [hasTopBreak] at h
  | .brk e :: ns, _ => by
    by_cases hc : closedL (.brk e :: ns)
    · left; exact ⟨by simp [topBreakEv, flattenL_cons, flattenN], hc.1⟩
    · right; exact hc
  | .ev e :: ns, h => by
    rcases topBreakEv_mem ns (by simpa [hasTopBreak] using h) with ⟨h1, h2⟩ | h1
    · left; exact ⟨by simp [topBreakEv, flattenL_cons, h1], by simpa [topBreakEv] using h2⟩
    · right; intro hc; exact h1 hc.2
  | .loop ls b le :: ns, h => by
    rcases topBreakEv_mem ns (by simpa [hasTopBreak] using h) with ⟨h1, h2⟩ | h1
    · left; exact ⟨by simp [topBreakEv, flattenL_cons, h1], by simpa [topBreakEv] using h2⟩
    · right; intro hc; exact h1 hc.2
  | .strayEnd e :: ns, _ => by right; intro hc; exact absurd hc.1 (by simp [Node.closed])
  | .openLoop ls b :: ns, _ => by right; intro hc; exact absurd hc.1 (by simp [Node.closed])

mutual
theorem visN_flat : ∀ (n : Node), Node.closed n → BracketsTimeless (flattenN n) →
    visN n = (flattenN n).map fun e => tItem e e
  | .ev e, _, _ => by simp [visN, flattenN]
  | .brk e, _, _ => by simp [visN, flattenN]
  | .strayEnd e, hc, _ => by exact absurd hc (by simp [Node.closed])
  | .openLoop ls b, hc, _ => by exact absurd hc (by simp [Node.closed])
  | .loop ls b le, hc, ht => by
    obtain ⟨_, hbcl, hlek⟩ := hc
    have htb : BracketsTimeless (flattenL b) := fun e he hk => ht e (by simp [flattenN, he]) hk
    have hle := ht le (by simp [flattenN]) (Or.inl hlek)
    have hx : tItem le (exitSrc b le) = tItem le le := by
      unfold exitSrc
      split
      · rfl
      · split
        · rename_i hb
          rcases topBreakEv_mem b hb with ⟨hm, hk⟩ | hn
          · have := ht (topBreakEv b) (by simp [flattenN, hm]) (Or.inr hk)
            simp [tItem, this.1, this.2, hle.1, hle.2]
          · exact absurd hbcl hn
        · rfl
    simp [visN, flattenN, visL_flat b hbcl htb, hx]
theorem visL_flat : ∀ (f : List Node), closedL f → BracketsTimeless (flattenL f) →
    visL f = (flattenL f).map fun e => tItem e e
  | [], _, _ => by simp [visL, flattenL]
  | n :: ns, hc, ht => by
    have h1 : BracketsTimeless (flattenN n) := fun e he hk => ht e (by simp [flattenL_cons, he]) hk
    have h2 : BracketsTimeless (flattenL ns) := fun e he hk => ht e (by simp [flattenL_cons, he]) hk
    simp [visL, flattenL_cons, visN_flat n hc.1 h1, visL_flat ns hc.2 h2]
end

/-- **writer_flat, player side**: a well-formed track whose brackets take no time shows the hook its
events, in order, each once -/
theorem vperf_flat (hne : SongNoEnd song) (hr : NoEnd root) (ht : BracketsTimeless root) {items : List Item}
    (h : perf song root = .ok items) :
    ∃ rs, VRuns song root ⟨.root, 0, []⟩ ⟨.root, root.length, []⟩ rs ∧
      visItems rs = root.map (fun e => tItem e e) ∧ itemsOf (rs.map (·.1)) = items := by
  obtain ⟨rs, hv, he⟩ := vperf song root hne hr h
  have hcl : closedL (parse root) := closed_of_ok (callK song limit) (spine_parse root hr) _ _ h
  refine ⟨rs, hv, ?_, vperf_items song root hne hr h hv⟩
  rw [he, visL_flat (parse root) hcl (by rw [flatten_parse]; exact ht), flatten_parse]

end
end Ctrmml.WTrace
