/-
  Towards whole chunks: (1) a compiled stream placed at ANY offset of a chunk, entered with any
  call stack, loop stack and register contents, plays its expansion and arrives at its `FINISH`
  with the stacks unchanged (obtained for free from prefix independence: the encoder started on
  `pre` emits the same bytes as started on nothing); (2) the call / return join point: a `PAT k`
  whose callee behaves like (1) plays the callee's ticks, and afterwards the interpreter's length
  registers are unknown — exactly what the encoder assumes (it forgets both at `PAT`).
-/
import Ctrmml.Proofs.CodecBreak
namespace Ctrmml.Codec
open Ctrmml.Mds Ctrmml.Seq Tables

/-- **a stream at an arbitrary offset** -/
theorem stream_at (nS nM : Nat) (ts : List Node) (hl : linL ts = true) :
    ∃ e', encL nS nM ts {} = .ok e' ∧
      ∀ (pre : List Nat) (seq : List Nat) (base mj : Nat) (s : St), callsOkL seq base mj ts →
        pre ++ e'.out ++ [mds_FINISH] <+: seq → s.pc = pre.length → s.drum = false →
        ∃ s1, Reach seq base mj s s1 ∧ Frame s s1 ∧ s1.pc = pre.length + e'.out.length ∧
          seq[s1.pc]? = some mds_FINISH ∧ s1.out = (expL nS nM ts).reverse ++ s.out := by
  obtain ⟨e', he', _, _, _⟩ := encL_total nS nM ts hl {}
  refine ⟨e', he', ?_⟩
  intro pre seq base mj s hc hp hpc hd
  obtain ⟨e0, he0⟩ : ∃ e0 : Enc, e0 = { out := pre } := ⟨_, rfl⟩
  have hsim : SimE {} e0 := by rw [he0]; exact ⟨rfl, rfl, rfl, fun hn => by simp [noteish, mds_REST, mds_TIE] at hn⟩
  obtain ⟨e0', h0', par⟩ := encL_par nS nM ts hl {} e0 e' hsim he'
  obtain ⟨B, hB1, hB2⟩ := par.app
  have ho : e0'.out = pre ++ e'.out := by rw [hB2, hB1, he0]; simp
  obtain ⟨x, hx, sem⟩ := encL_sim nS nM ts hl e0
  rw [h0'] at hx; injection hx with hx; subst hx
  have g0 : Good e0 s s.out := by
    rw [he0]
    exact ⟨fun h => absurd rfl h, fun h => absurd rfl h, hd, .inl ⟨by simp [needLenB, noteish, mds_REST, mds_TIE], hpc, rfl⟩⟩
  have hp' : e0'.out ++ [mds_FINISH] <+: seq := by rw [ho]; exact hp
  obtain ⟨s1, r1, f1, g1⟩ := sem seq base mj s s.out hc ((List.prefix_append _ _).trans hp') g0
  obtain ⟨s2, r2, f2, i2⟩ := resolve (base := base) (mj := mj) g1 (b := mds_FINISH) (by decide) hp'
  refine ⟨s2, r1.trans r2, f1.trans f2, ?_, ?_, i2.out⟩
  · rw [i2.pc, ho]; simp
  · rw [i2.pc]; exact rd_at hp'

/-- (1) gives (2)'s hypothesis for a compiled subroutine placed at offset `pre.length` -/
theorem stream_at_subPlays (nS nM : Nat) (ts : List Node) (hl : linL ts = true) :
    ∃ e', encL nS nM ts {} = .ok e' ∧
      ∀ (pre seq : List Nat) (base mj : Nat), callsOkL seq base mj ts → pre ++ e'.out ++ [mds_FINISH] <+: seq →
        SubPlays seq base mj pre.length (expL nS nM ts) := by
  obtain ⟨e', he', h⟩ := stream_at nS nM ts hl
  refine ⟨e', he', fun pre seq base mj hc hp s0 hpc hd => ?_⟩
  obtain ⟨s1, r1, f1, _, hfin, ho⟩ := h pre seq base mj s0 hc hp hpc hd
  exact ⟨s1, r1, f1, hfin, ho⟩

end Ctrmml.Codec
