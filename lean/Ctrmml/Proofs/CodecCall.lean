/-
  Towards whole chunks: (1) a compiled stream placed at ANY offset of a chunk, entered with any
  call stack, loop stack and register contents, plays its expansion and arrives at its `FINISH`
  with the stacks unchanged (obtained for free from prefix independence: the encoder started on
  `pre` emits the same bytes as started on nothing); (2) the call / return join point: a `PAT k`
  whose callee behaves like (1) plays the callee's ticks, and afterwards the interpreter's length
  registers are unknown — exactly what the encoder assumes (it forgets both at `PAT`).
-/
import Ctrmml.Proofs.CodecBreak
namespace Ctrmml.Codec
open Ctrmml.Mds Ctrmml.Seq Tables

/-- **a stream at an arbitrary offset** -/
theorem stream_at (nS nM : Nat) (ts : List Node) (hl : linL ts = true) :
    ∃ e', encL nS nM ts {} = .ok e' ∧
      ∀ (pre : List Nat) (seq : List Nat) (base mj : Nat) (s : St),
        pre ++ e'.out ++ [mds_FINISH] <+: seq → s.pc = pre.length → s.drum = false →
        ∃ s1, Reach seq base mj s s1 ∧ Frame s s1 ∧ s1.pc = pre.length + e'.out.length ∧
          seq[s1.pc]? = some mds_FINISH ∧ s1.out = (expL nS nM ts).reverse ++ s.out := by
  obtain ⟨e', he', _, _, _⟩ := encL_total nS nM ts hl {}
  refine ⟨e', he', ?_⟩
  intro pre seq base mj s hp hpc hd
  obtain ⟨e0, he0⟩ : ∃ e0 : Enc, e0 = { out := pre } := ⟨_, rfl⟩
  have hsim : SimE {} e0 := by rw [he0]; exact ⟨rfl, rfl, rfl, fun hn => by simp [noteish, mds_REST, mds_TIE] at hn⟩
  obtain ⟨e0', h0', par⟩ := encL_par nS nM ts hl {} e0 e' hsim he'
  obtain ⟨B, hB1, hB2⟩ := par.app
  have ho : e0'.out = pre ++ e'.out := by rw [hB2, hB1, he0]; simp
  obtain ⟨x, hx, sem⟩ := encL_sim nS nM ts hl e0
  rw [h0'] at hx; injection hx with hx; subst hx
  have g0 : Good e0 s s.out := by
    rw [he0]
    exact ⟨fun h => absurd rfl h, fun h => absurd rfl h, hd, .inl ⟨by simp [needLenB, noteish, mds_REST, mds_TIE], hpc, rfl⟩⟩
  have hp' : e0'.out ++ [mds_FINISH] <+: seq := by rw [ho]; exact hp
  obtain ⟨s1, r1, f1, g1⟩ := sem seq base mj s s.out ((List.prefix_append _ _).trans hp') g0
  obtain ⟨s2, r2, f2, i2⟩ := resolve (base := base) (mj := mj) g1 (b := mds_FINISH) (by decide) hp'
  refine ⟨s2, r1.trans r2, f1.trans f2, ?_, ?_, i2.out⟩
  · rw [i2.pc, ho]; simp
  · rw [i2.pc]; exact rd_at hp'

/-- what the caller needs to know about a subroutine stream starting at `t`: entered with any
state (drum mode off), it plays `T` and arrives at a `FINISH` with all stacks as on entry -/
def SubPlays (seq : List Nat) (base mj t : Nat) (T : List Tk) : Prop :=
  ∀ s0 : St, s0.pc = t → s0.drum = false →
    ∃ s1, Reach seq base mj s0 s1 ∧ Frame s0 s1 ∧ seq[s1.pc]? = some mds_FINISH ∧ s1.out = T.reverse ++ s0.out

/-- (1) gives (2)'s hypothesis for a compiled subroutine placed at offset `pre.length` -/
theorem stream_at_subPlays (nS nM : Nat) (ts : List Node) (hl : linL ts = true) :
    ∃ e', encL nS nM ts {} = .ok e' ∧
      ∀ (pre seq : List Nat) (base mj : Nat), pre ++ e'.out ++ [mds_FINISH] <+: seq →
        SubPlays seq base mj pre.length (expL nS nM ts) := by
  obtain ⟨e', he', h⟩ := stream_at nS nM ts hl
  refine ⟨e', he', fun pre seq base mj hp s0 hpc hd => ?_⟩
  obtain ⟨s1, r1, f1, _, hfin, ho⟩ := h pre seq base mj s0 hp hpc hd
  exact ⟨s1, r1, f1, hfin, ho⟩

theorem step_pat {seq : List Nat} {base mj : Nat} {s : St} {k t : Nat} (h : seq[s.pc]? = some mds_PAT)
    (h1 : seq[s.pc + 1]? = some k) (ht : slotTarget seq base k = some t) :
    step seq base mj s = .ok { s with pc := t, calls := (s.pc + 2, none) :: s.calls } := by
  simp [step, rd, h, h1, ht, mds_REST, mds_SLR, mds_FINISH, mds_DMFINISH, mds_JUMP, mds_LP, mds_LPF, mds_LPB, mds_LPBL,
    mds_PAT]

theorem step_return {seq : List Nat} {base mj : Nat} {s : St} {ret : Nat}
    {cs : List (Nat × Option (Nat × Option Nat × Option Nat))}
    (h : seq[s.pc]? = some mds_FINISH) (hc : s.calls = (ret, none) :: cs) :
    step seq base mj s = .ok { s with pc := ret, calls := cs, lastNote := none, lastRest := none } := by
  simp [step, rd, h, hc, mds_REST, mds_SLR, mds_FINISH]

/-- the encoder at a subroutine call: two bytes, both registers forgotten -/
def afterPAT (e : Enc) (arg : Nat) : Enc :=
  { e with out := e.out ++ [mds_PAT, arg % 256], lastRest := U16, lastNote := U16, lastType := mds_PAT }

theorem encEv_pat (nS nM : Nat) (e : Enc) (arg : Nat) : encEv nS nM e ⟨mds_PAT, arg⟩ = .ok (afterPAT e arg) := by
  have n1 : ¬ (mds_PAT = mds_SEGNO) := by decide
  have n2 : ¬ (mds_PAT = mds_SLR ∨ mds_PAT = mds_FINISH) := by decide
  have n3 : byteArgOps.contains mds_PAT = false := by decide
  have n4 : ¬ (mds_PAT = mds_MTAB) := by decide
  have n5 : ¬ (mds_PAT = mds_INS ∨ mds_PAT = mds_PCM) := by decide
  have n6 : ¬ (mds_PAT = mds_PEG) := by decide
  have n7 : wordArgOps.contains mds_PAT = false := by decide
  have n8 : ¬ (mds_PAT = mds_JUMP) := by decide
  have h : encOther nS nM e mds_PAT arg =
      .ok { e with out := e.out ++ [mds_PAT, arg % 256], lastRest := U16, lastNote := U16 } := by
    simp only [encOther, n1, n2, n3, n4, n5, n6, n7, n8, if_false, Bool.false_eq_true, if_true]
  exact encEv_other (by decide) h

/-- **the call / return join point** -/
theorem pat_good {seq : List Nat} {base mj : Nat} {e : Enc} {s : St} {O : List Tk} (g : Good e s O) (arg : Nat)
    (hp : (afterPAT e arg).out <+: seq) {t : Nat} (ht : slotTarget seq base (arg % 256) = some t) {T : List Tk}
    (hsub : SubPlays seq base mj t T) :
    ∃ s', Reach seq base mj s s' ∧ Frame s s' ∧ Good (afterPAT e arg) s' (T.reverse ++ O) := by
  have hp' : e.out ++ [mds_PAT, arg % 256] <+: seq := hp
  obtain ⟨s1, r1, f1, i1⟩ := resolve (base := base) (mj := mj) g (b := mds_PAT) (by decide) hp'
  have r0 : seq[s1.pc]? = some mds_PAT := by rw [i1.pc]; exact rd_at hp'
  have r1' : seq[s1.pc + 1]? = some (arg % 256) := by rw [i1.pc]; exact rd_at1 hp'
  have hs := step_pat (base := base) (mj := mj) r0 r1' ht
  obtain ⟨s2, hs2, hpc2, hca2, hlo2, hdr2, hju2, hou2⟩ : ∃ s2 : St, step seq base mj s1 = .ok s2 ∧ s2.pc = t ∧
      s2.calls = (s1.pc + 2, none) :: s1.calls ∧ s2.loops = s1.loops ∧ s2.drum = s1.drum ∧ s2.jumps = s1.jumps ∧
      s2.out = s1.out := ⟨_, hs, rfl, rfl, rfl, rfl, rfl, rfl⟩
  obtain ⟨s3, r3, f3, hfin, ho3⟩ := hsub s2 hpc2 (hdr2.trans i1.drum)
  have hret := step_return (base := base) (mj := mj) hfin (f3.calls.trans hca2)
  obtain ⟨s4, hs4, hpc4, hn4, hr4, hca4, hlo4, hdr4, hju4, hou4⟩ : ∃ s4 : St, step seq base mj s3 = .ok s4 ∧
      s4.pc = s1.pc + 2 ∧ s4.lastNote = none ∧ s4.lastRest = none ∧ s4.calls = s1.calls ∧ s4.loops = s3.loops ∧
      s4.drum = s3.drum ∧ s4.jumps = s3.jumps ∧ s4.out = s3.out := ⟨_, hret, rfl, rfl, rfl, rfl, rfl, rfl, rfl, rfl⟩
  refine ⟨s4, r1.trans (.head hs2 (by rw [hou2]; exact Nat.le_refl _) (r3.trans (.one hs4 (by rw [hou4]; exact Nat.le_refl _)))),
    ⟨?_, ?_, ?_, ?_⟩, ⟨fun h => absurd rfl h, fun h => absurd rfl h, ?_, .inl ⟨?_, ?_, ?_⟩⟩⟩
  · rw [hlo4, f3.loops, hlo2]; exact f1.loops
  · rw [hca4]; exact f1.calls
  · rw [hdr4, f3.drum, hdr2]; exact f1.drum
  · rw [hju4, f3.jumps, hju2]; exact f1.jumps
  · rw [hdr4, f3.drum, hdr2]; exact i1.drum
  · exact needLenB_cmd (show mds_PAT ≥ 0xe0 by decide)
  · rw [hpc4, i1.pc]; simp [afterPAT]
  · rw [hou4, ho3, hou2, i1.out]

end Ctrmml.Codec
