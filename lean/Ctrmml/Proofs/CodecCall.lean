/-
  Towards whole chunks: (1) a compiled stream placed at ANY offset of a chunk, entered with any
  call stack, loop stack and register contents, plays its expansion and arrives at its `FINISH`
  with the stacks unchanged (obtained for free from prefix independence: the encoder started on
  `pre` emits the same bytes as started on nothing); (2) the call / return join point: a `PAT k`
  whose callee behaves like (1) plays the callee's ticks, and afterwards the interpreter's length
  registers are unknown — exactly what the encoder assumes (it forgets both at `PAT`).
-/
import Ctrmml.Proofs.CodecBreak
namespace Ctrmml.Codec
open Ctrmml.Mds Ctrmml.Seq Tables

theorem afterL_eq_set (M : Mode) : ∀ ts : List Node, afterL M ts = M.set (afterL M ts).dm
  | [] => rfl
  | t :: ts => by
    simp only [afterL]
    have h := afterL_eq_set (t.after M) ts
    have ht : (t.after M).rt = M.rt := by
      cases t <;> simp only [Node.after] <;> try rfl
      unfold Mode.after; split <;> rfl
    rw [h]
    simp only [Mode.set, ht]

theorem afterL_of_dm {M : Mode} {ts : List Node} (h : (afterL M ts).dm = M.dm) : afterL M ts = M := by
  rw [afterL_eq_set, h]; rfl

/-- **a stream at an arbitrary offset**, entered in mode `M`; `top`: drum-mode switches allowed at
the top level (a channel track) -/
theorem stream_top_at (M : Mode) (top : Bool) (nS nM : Nat) (ts : List Node) (hl : linL ts = true)
    (hm : mokL M top ts = true) :
    ∃ e', encL nS nM ts {} = .ok e' ∧
      ∀ (pre : List Nat) (seq : List Nat) (base mj : Nat) (s : St) {b : Nat} {r : List Nat}, M.Sound seq base mj →
        callsOkL M seq base mj ts → b ≥ 0x80 →
        pre ++ e'.out ++ b :: r <+: seq → s.pc = pre.length → s.drum = M.dm →
        ∃ s1, Reach seq base mj s s1 ∧ FrameX s s1 ∧ s1.drum = (afterL M ts).dm ∧ s1.pc = pre.length + e'.out.length ∧
          s1.out = (expL M nS nM ts).reverse ++ s.out := by
  obtain ⟨e', he', _, _, _⟩ := encL_total nS nM ts hl {}
  refine ⟨e', he', ?_⟩
  intro pre seq base mj s b r hS hc hb hp hpc hd
  obtain ⟨e0, he0⟩ : ∃ e0 : Enc, e0 = { out := pre } := ⟨_, rfl⟩
  have hsim : SimE {} e0 := by rw [he0]; exact ⟨rfl, rfl, rfl, fun hn => by simp [noteish, mds_REST, mds_TIE] at hn⟩
  obtain ⟨e0', h0', par⟩ := encL_par nS nM ts hl {} e0 e' hsim he'
  obtain ⟨B, hB1, hB2⟩ := par.app
  have ho : e0'.out = pre ++ e'.out := by rw [hB2, hB1, he0]; simp
  obtain ⟨x, hx, sem⟩ := encL_sim M top nS nM ts hl hm e0
  rw [h0'] at hx; injection hx with hx; subst hx
  have g0 : Good M e0 s s.out := by
    rw [he0]
    exact ⟨fun h => absurd rfl h, fun h => absurd rfl h, hd, .inl ⟨by simp [needLenB, noteish, mds_REST, mds_TIE], hpc, rfl⟩⟩
  have hp' : e0'.out ++ b :: r <+: seq := by rw [ho]; exact hp
  obtain ⟨s1, r1, f1, g1⟩ := sem seq base mj s s.out hS hc ((List.prefix_append _ _).trans hp') g0
  obtain ⟨s2, r2, f2, i2⟩ := resolve (base := base) (mj := mj) (afterL_sound hS ts) g1 hb hp'
  refine ⟨s2, r1.trans r2, f1.trans f2.x, i2.drum, ?_, i2.out⟩
  rw [i2.pc, ho]; simp

/-- the same for a stream that does not change the mode (subroutines, drum routines) -/
theorem stream_at (M : Mode) (nS nM : Nat) (ts : List Node) (hl : linL ts = true) (hm : mokL M false ts = true) :
    ∃ e', encL nS nM ts {} = .ok e' ∧
      ∀ (pre : List Nat) (seq : List Nat) (base mj : Nat) (s : St) {b : Nat} {r : List Nat}, M.Sound seq base mj →
        callsOkL M seq base mj ts → b ≥ 0x80 →
        pre ++ e'.out ++ b :: r <+: seq → s.pc = pre.length → s.drum = M.dm →
        ∃ s1, Reach seq base mj s s1 ∧ Frame s s1 ∧ s1.pc = pre.length + e'.out.length ∧
          s1.out = (expL M nS nM ts).reverse ++ s.out := by
  obtain ⟨e', he', h⟩ := stream_top_at M false nS nM ts hl hm
  refine ⟨e', he', ?_⟩
  intro pre seq base mj s b r hS hc hb hp hpc hd
  obtain ⟨s1, r1, f1, hd1, hpc1, ho⟩ := h pre seq base mj s hS hc hb hp hpc hd
  rw [afterL_of_mok hm] at hd1
  exact ⟨s1, r1, f1.frame (hd1.trans hd.symm), hpc1, ho⟩

/-- (1) gives (2)'s hypothesis for a compiled subroutine placed at offset `pre.length` -/
theorem stream_at_subPlays (M : Mode) (nS nM : Nat) (ts : List Node) (hl : linL ts = true)
    (hm : mokL M false ts = true) :
    ∃ e', encL nS nM ts {} = .ok e' ∧
      ∀ (pre seq : List Nat) (base mj : Nat), M.Sound seq base mj → callsOkL M seq base mj ts →
        pre ++ e'.out ++ [mds_FINISH] <+: seq → SubPlays seq base mj M.dm pre.length (expL M nS nM ts) := by
  obtain ⟨e', he', h⟩ := stream_at M nS nM ts hl hm
  refine ⟨e', he', fun pre seq base mj hS hc hp s0 hpc hd => ?_⟩
  obtain ⟨s1, r1, f1, hpc1, ho⟩ := h pre seq base mj s0 hS hc (b := mds_FINISH) (by decide) hp hpc hd
  refine ⟨s1, r1, f1, ?_, ho⟩
  rw [hpc1]
  have : (pre ++ e'.out) ++ mds_FINISH :: [] <+: seq := hp
  simpa using rd_at this

/-- the mode of a drum routine's own commands: drum flag on, no routine known (a routine contains
no note before its first note) -/
def Mode.drum0 : Mode := ⟨true, fun _ => none⟩

theorem Mode.drum0_sound (seq : List Nat) (base mj : Nat) : Mode.drum0.Sound seq base mj := by
  intro j C k h; simp [Mode.drum0] at h

/-- **a drum routine at an arbitrary offset**: the commands before its first note, then `DMFINISH k` -/
theorem routine_at (nS nM : Nat) (ts : List Node) (hl : linL ts = true) (hm : mokL Mode.drum0 false ts = true) (k : Nat) :
    ∃ e', encL nS nM ts {} = .ok e' ∧
      ∀ (pre seq : List Nat) (base mj : Nat), callsOkL Mode.drum0 seq base mj ts →
        pre ++ e'.out ++ [mds_DMFINISH, k] <+: seq →
        DrumPlays seq base mj pre.length (expL Mode.drum0 nS nM ts) k := by
  obtain ⟨e', he', h⟩ := stream_at Mode.drum0 nS nM ts hl hm
  refine ⟨e', he', fun pre seq base mj hc hp s0 hpc hd => ?_⟩
  obtain ⟨s1, r1, f1, hpc1, ho⟩ := h pre seq base mj s0 (Mode.drum0_sound _ _ _) hc (b := mds_DMFINISH) (by decide)
    hp hpc hd
  have hp' : (pre ++ e'.out) ++ mds_DMFINISH :: k :: [] <+: seq := hp
  refine ⟨s1, r1, f1, ?_, ?_, ho⟩
  · rw [hpc1]; simpa using rd_at hp'
  · rw [hpc1]; simpa using rd_at1 hp'

end Ctrmml.Codec
