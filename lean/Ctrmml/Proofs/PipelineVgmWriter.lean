/-
  Helper theorems for Properties/C15: `DErr.vgm _` (a `VGM_Writer` fault) on the data `read_song`
  builds, through C08's `C08_full_for_built_banks`.
-/
import Ctrmml.Proofs.PipelineVgm
import Ctrmml.Properties.C08
namespace Ctrmml.Pipeline
open Ctrmml Ctrmml.MdDriver Tables Ctrmml.Pipeline.VgmTr

/-- every file the `pcm` tags can open is below 1 GiB (the size bound of C14's bank theorems) -/
def FilesSmall (files : List (String × Bytes)) : Prop :=
  ∀ n f, files.lookup n = some f → f.length < 1073741823

/-- the bank `waveMapOf` replays is a bank built by `add_sample(Tag)` calls on the new 2 MiB bank -/
theorem waveMapOf_built (files : List (String × Bytes)) (tags : List (String × List String)) (hf : FilesSmall files) :
    BankBuilt (waveMapOf files tags).1 := by
  unfold waveMapOf
  have hb : BankBuilt ((Wave.Bank.new Tables.mds_dataWaveRom 0, ([] : List (Nat × Nat))).1) := BankBuilt.new
  generalize (Wave.Bank.new Tables.mds_dataWaveRom 0, ([] : List (Nat × Nat))) = acc at hb ⊢
  induction tags generalizing acc with
  | nil => exact hb
  | cons kv tags ih =>
    simp only [List.foldl_cons]
    apply ih
    split
    · exact hb
    · rename_i id _
      split
      · exact hb
      · rename_i b idx hok
        refine BankBuilt.add _ _ idx hb ?_ hok
        intro f hfile
        split at hfile
        · rename_i n _ _
          exact hf n f hfile
        · cases hfile

/-- **no writer fault** for songs whose sample files are below 1 GiB — PARTIAL: the extra hypothesis is
`FilesSmall inp.files` (C08/C14 do not cover WAV files of 1 GiB … 2 GiB − 1). -/
theorem vgm_never_writer_fault_partial (inp : MdsFile.Input) (d : MdsFile.DState) (hf : FilesSmall inp.files)
    (tm : TagMap) (st : Stamps) (v : Vgm.Err) :
    exportSong (driverDataOf d inp.files inp.tags) inp.song tm st ≠ .error (.vgm v) := by
  intro h
  have hb : BankBuilt (driverDataOf d inp.files inp.tags).bank := waveMapOf_built inp.files inp.tags hf
  obtain ⟨h1, h2, _⟩ := Vgm.C08_full_for_built_banks (driverDataOf d inp.files inp.tags) inp.song tm st hb
  cases hops : exportOps (driverDataOf d inp.files inp.tags) inp.song (finalTags tm st) with
  | error e =>
    have he := h1 e hops
    rw [h] at he
    cases he
    exact exportOps_errIn (S := fun e => ∀ v, e ≠ .vgm v) (fun _ h => by cases h) (fun _ h => by cases h)
      (.inl (fun _ h => by cases h)) (fun _ h => by cases h) inp.song _ _ hops v rfl
  | ok ops =>
    obtain ⟨ha, hb'⟩ := h2 ops hops
    rcases Classical.em (∀ t ∈ (finalTags tm st).toList, Vgm.Decodable t) with hdec | hdec
    · obtain ⟨f, hf'⟩ := ha hdec
      rw [h] at hf'; cases hf'
    · have : ∃ t ∈ (finalTags tm st).toList, ¬ Vgm.Decodable t := by
        apply Classical.byContradiction
        intro hne
        apply hdec
        intro t ht
        apply Classical.byContradiction
        intro hnd
        exact hne ⟨t, ht, hnd⟩
      have := hb' this
      rw [h] at this; cases this

/-- the target statement, PARTIAL: extra hypotheses `PsgEnvsOK d`, `WaveMapOK d inp.files inp.tags`
(both only for `oob`) and `FilesSmall inp.files` (only for `vgm _`); `nonInteger` needs none. -/
theorem vgm_export_no_ub_partial (inp : MdsFile.Input) (d : MdsFile.DState)
    (hd : MdsFile.readSong MdsData.Arith.float inp.files inp.tags = .ok d)
    (hp : PsgEnvsOK d) (hw : WaveMapOK d inp.files inp.tags) (hf : FilesSmall inp.files)
    (tm : TagMap) (st : Stamps) :
    match exportSong (driverDataOf d inp.files inp.tags) inp.song tm st with
    | .error .oob | .error .nonInteger | .error (.vgm _) => False
    | _ => True := by
  split
  · rename_i h; exact vgm_never_oob_partial inp d hd hp hw tm st h
  · rename_i h; exact vgm_never_nonInteger _ _ _ _ h
  · rename_i v h; exact vgm_never_writer_fault_partial inp d hf tm st v h
  · trivial

def vgm_export_no_ub_full_statement : Prop :=
  ∀ (inp : MdsFile.Input) (d : MdsFile.DState),
    MdsFile.readSong MdsData.Arith.float inp.files inp.tags = .ok d → ∀ (tm : TagMap) (st : Stamps),
    match exportSong (driverDataOf d inp.files inp.tags) inp.song tm st with
    | .error .oob | .error .nonInteger | .error (.vgm _) => False
    | _ => True

def vgm_never_writer_fault_full_statement : Prop :=
  ∀ (inp : MdsFile.Input) (d : MdsFile.DState),
    MdsFile.readSong MdsData.Arith.float inp.files inp.tags = .ok d → ∀ (tm : TagMap) (st : Stamps) (v : Vgm.Err),
    exportSong (driverDataOf d inp.files inp.tags) inp.song tm st ≠ .error (.vgm v)

example : FilesSmall [("a.wav", [1, 2, 3])] := by
  intro n f h
  simp only [List.lookup] at h
  split at h
  · cases h; decide
  · cases h

end Ctrmml.Pipeline
