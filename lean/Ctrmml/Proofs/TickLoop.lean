/-
  Helper lemmas for C07 `tick_delivery` on EVERY pass of a track: the looping list machine.

  * `LX` — the list machine of Proofs/TickStream extended by what `Basic_Player` keeps about the
    loop point: the items after the last `SEGNO` that was read (`loop`), the time at which it was
    read (`loopT`), the time of the last jump back (`lastJump`), the play time `t`, and whether
    the track still plays.  When the items run out, the machine continues with the items of the
    loop section — unless no loop point was passed, or no time has passed since the loop point
    or since the last jump back (the repository rule: a loop section that takes no time ends the
    track); then it delivers `END` once and stops.
  * `SegTop` — every `SEGNO` the control machine reads, it reads in the channel's own track with
    an empty stack (not inside a loop, not inside a subroutine).  Only then is `loop_position`
    (an index without a track or a stack) a position from which the rest of the pass can be
    replayed.  Outside this condition the real player resumes somewhere else (known findings
    `segno-in-sub`, `segno-in-loop`).
  * `lx_sim_tick` / `lx_sim_run` — `ctTick` (`Player::play_tick` on `(Core, Acc)`) delivers exactly
    what the looping list machine delivers, tick after tick, forever.
-/
import Ctrmml.Proofs.TickStream
namespace Ctrmml.TickStream
open Ctrmml Player PlayerCh Refine Expand Tables Tree

/-! ### the looping list machine -/
structure LX where
  on : Nat := 0
  off : Nat := 0
  rest : List Item
  /-- items after the last loop point read so far -/
  loop : Option (List Item) := none
  /-- play time (ticks since the start of the track) -/
  t : Nat := 0
  /-- play time at the last loop point (-1: none) -/
  loopT : Int := -1
  /-- play time at the last jump back to the loop point (-1: none) -/
  lastJump : Int := -1
  enabled : Bool := true
  deriving Repr

/-- result of one pass of the fetch loop over a list of items -/
structure FP where
  /-- an item with a duration was found (otherwise the list ran out) -/
  found : Bool
  on : Nat
  off : Nat
  rest : List Item
  loop : Option (List Item)
  loopT : Int
  evs : List Event
  deriving Repr

/-- read items at time `t` until one has a duration; a `SEGNO` makes the items after it the loop
section -/
def fetchPass (t : Nat) : Option (List Item) → Int → List Item → FP
  | lp, lt, [] => ⟨false, 0, 0, [], lp, lt, []⟩
  | lp, lt, i :: is =>
    if i.src.on = 0 ∧ i.src.off = 0 then
      { fetchPass t (if i.src.kind = .segno then some is else lp) (if i.src.kind = .segno then (t : Int) else lt) is with
        evs := i.ev :: (fetchPass t (if i.src.kind = .segno then some is else lp) (if i.src.kind = .segno then (t : Int) else lt) is).evs }
    else ⟨true, i.src.on, i.src.off, is, if i.src.kind = .segno then some is else lp, if i.src.kind = .segno then (t : Int) else lt, [i.ev]⟩

/-- the track ends: `END` is delivered, nothing plays any more -/
def LX.finish (m : LX) (lp : Option (List Item)) (lt : Int) (lj : Int) : LX :=
  { m with on := 0, off := 0, rest := [], loop := lp, loopT := lt, lastJump := lj, enabled := false }

/-- the fetch loop of one tick (`on = off = 0`) -/
def lxFetch (m : LX) : LX × List Event :=
  let r1 := fetchPass m.t m.loop m.loopT m.rest
  if r1.found then
    ({ m with on := r1.on, off := r1.off, rest := r1.rest, loop := r1.loop, loopT := r1.loopT }, r1.evs)
  else
    match r1.loop with
    | some L =>
      if (m.t : Int) ≠ r1.loopT ∧ (m.t : Int) ≠ m.lastJump then
        let r2 := fetchPass m.t r1.loop r1.loopT L
        if r2.found then
          ({ m with on := r2.on, off := r2.off, rest := r2.rest, loop := r2.loop, loopT := r2.loopT, lastJump := m.t },
           r1.evs ++ r2.evs)
        else (m.finish r2.loop r2.loopT m.t, r1.evs ++ r2.evs ++ [endEvent])
      else (m.finish r1.loop r1.loopT m.lastJump, r1.evs ++ [endEvent])
    | none => (m.finish none r1.loopT m.lastJump, r1.evs ++ [endEvent])

/-- one tick of the looping list machine -/
def lxTick (m : LX) : LX × List Event :=
  if !m.enabled then (m, [])
  else if m.on > 0 then
    if m.on = 1 ∧ m.off = 0 then lxFetch { m with on := 0, t := m.t + 1 }
    else ({ m with on := m.on - 1, t := m.t + 1 }, if m.on = 1 then [restEvent] else [])
  else if m.off > 0 then
    if m.off = 1 then lxFetch { m with off := 0, t := m.t + 1 } else ({ m with off := m.off - 1, t := m.t + 1 }, [])
  else lxFetch m

def lxRun : Nat → LX → List (List Event)
  | 0, _ => []
  | n + 1, m => (lxTick m).2 :: lxRun n (lxTick m).1

def lxAfter : Nat → LX → LX
  | 0, m => m
  | n + 1, m => lxAfter n (lxTick m).1

theorem lxRun_add (a b : Nat) (m : LX) : lxRun (a + b) m = lxRun a m ++ lxRun b (lxAfter a m) := by
  induction a generalizing m with
  | zero => simp [lxRun, lxAfter]
  | succ a ih => rw [Nat.succ_add]; simp [lxRun, lxAfter, ih]

theorem lxAfter_add (a b : Nat) (m : LX) : lxAfter (a + b) m = lxAfter b (lxAfter a m) := by
  induction a generalizing m with
  | zero => simp [lxAfter]
  | succ a ih => rw [Nat.succ_add]; simp [lxAfter, ih]

theorem lxRun_length (n : Nat) (m : LX) : (lxRun n m).length = n := by
  induction n generalizing m with
  | zero => rfl
  | succ n ih => simp [lxRun, ih]

/-- the events the machine delivers at tick number `τ` (the `τ+1`-st call of `play_tick`) -/
def lxEvents (m0 : LX) (τ : Nat) : List Event := (lxTick (lxAfter τ m0)).2

theorem lxAfter_succ (T : Nat) (m0 : LX) : lxAfter (T + 1) m0 = (lxTick (lxAfter T m0)).1 := by
  rw [lxAfter_add]; rfl

theorem lxRun_after (n T : Nat) (m0 : LX) :
    lxRun n (lxAfter T m0) = (List.range n).map fun i => lxEvents m0 (T + i) := by
  induction n generalizing T with
  | zero => rfl
  | succ n ih =>
    simp only [lxRun]
    rw [← lxAfter_succ, ih (T + 1), List.range_succ_eq_map]
    simp only [List.map_cons, List.map_map, lxEvents, Nat.add_zero]
    congr 1
    apply List.map_congr_left
    intro i _
    simp only [Function.comp]
    congr 3
    omega

/-- an event is delivered in the ticks `T … T+n−1` -/
theorem mem_lxRun_after (n T : Nat) (m0 : LX) (e : Event) :
    e ∈ (lxRun n (lxAfter T m0)).flatten ↔ ∃ τ, T ≤ τ ∧ τ < T + n ∧ e ∈ lxEvents m0 τ := by
  rw [lxRun_after]
  simp only [List.mem_flatten, List.mem_map, List.mem_range]
  constructor
  · rintro ⟨l, ⟨i, hi, rfl⟩, he⟩
    exact ⟨T + i, by omega, by omega, he⟩
  · rintro ⟨τ, h1, h2, he⟩
    exact ⟨_, ⟨τ - T, by omega, rfl⟩, by rw [show T + (τ - T) = τ by omega]; exact he⟩

/-- a machine that has stopped delivers nothing -/
theorem lxRun_disabled (n : Nat) (m : LX) (h : m.enabled = false) : (lxRun n m).flatten = [] := by
  induction n with
  | zero => rfl
  | succ n ih =>
    have : lxTick m = (m, []) := by simp [lxTick, h]
    simp [lxRun, this, ih]

section
variable (song : Song) (root : List Event)

/-! ### where the loop point may stand -/
/-- in the next `k` control steps every `SEGNO` is read in the channel's own track with an empty
stack -/
def SegTop : Nat → Core → Prop
  | 0, _ => True
  | k + 1, c =>
    match coreStep song root c with
    | .ok (c', o) => (isSegnoHook o = true → c.track = .root ∧ c.stack = []) ∧ SegTop k c'
    | .error _ => True

/-- a hook that fetched a `SEGNO` only advanced the position -/
theorem coreStep_segno (c c' : Core) (v f : Event) (h : coreStep song root c = .ok (c', .hook v f))
    (hk : f.kind = .segno) : c' = { c with position := c.position + 1 } := by
  unfold coreStep at h
  simp only [] at h
  repeat' split at h
  all_goals first
    | (simp at h; done)
    | (simp only [Except.ok.injEq, Prod.mk.injEq, Out.hook.injEq] at h
       obtain ⟨rfl, _, rfl⟩ := h
       first
         | rfl
         | (exfalso; simp_all))

/-- what the player knows about the loop point, against the items of the loop section -/
def LoopRel (cEnd : Core) (B : Nat) : Option (List Item) → Int → Prop
  | none, p => p = -1
  | some L, p => ∃ (P k : Nat) (outs : List Out), p = (P : Int) ∧ CanRun song root cEnd ⟨.root, P, []⟩ k outs ∧
      SegTop song root k ⟨.root, P, []⟩ ∧ itemsOf outs = L ∧ k ≤ B

theorem ctSettle_step (f : Nat) (s s1 : PState) (em : Emit) (hu : unsettledP s = true)
    (hs : step song root true s = .ok (s1, em)) :
    ctSettle song root (f + 1) s = (ctSettle song root f s1).map fun r => (r.1, emitEvents em ++ r.2) := by
  simp [ctSettle, hu, hs]

/-- one pass of the fetch loop over the rest of the track follows `fetchPass` -/
theorem pass_sim (cEnd : Core) (B : Nat) : ∀ (k : Nat) (outs : List Out) (s : PState) (lp : Option (List Item)),
    CanRun song root cEnd s.core k outs → SegTop song root k s.core → unsettledP s = true →
    LoopRel song root cEnd B lp s.acc.loopPosition → k ≤ B →
    ∃ s' k', k' ≤ k ∧
      (∀ f, ctSettle song root (k' + f) s =
        (ctSettle song root f s').map fun x => (x.1, (fetchPass s.acc.playTime lp s.acc.loopPlayTime (itemsOf outs)).evs ++ x.2)) ∧
      s'.acc.playTime = s.acc.playTime ∧ s'.acc.enabled = true ∧ s'.acc.lastLoopJump = s.acc.lastLoopJump ∧
      s'.acc.loopPlayTime = (fetchPass s.acc.playTime lp s.acc.loopPlayTime (itemsOf outs)).loopT ∧
      LoopRel song root cEnd B (fetchPass s.acc.playTime lp s.acc.loopPlayTime (itemsOf outs)).loop s'.acc.loopPosition ∧
      (if (fetchPass s.acc.playTime lp s.acc.loopPlayTime (itemsOf outs)).found then
        unsettledP s' = false ∧ s'.acc.onTime = (fetchPass s.acc.playTime lp s.acc.loopPlayTime (itemsOf outs)).on ∧
        s'.acc.offTime = (fetchPass s.acc.playTime lp s.acc.loopPlayTime (itemsOf outs)).off ∧
        ∃ k2 outs2, CanRun song root cEnd s'.core k2 outs2 ∧ SegTop song root k2 s'.core ∧ k2 ≤ k ∧
          itemsOf outs2 = (fetchPass s.acc.playTime lp s.acc.loopPlayTime (itemsOf outs)).rest
       else s'.core = cEnd ∧ unsettledP s' = true ∧ s'.acc.onTime = 0 ∧ s'.acc.offTime = 0)
  | 0, outs, s, lp, hrun, _, hun, hlr, _ => by
    obtain ⟨h1, _, _⟩ := hrun
    simp only [stepsCore, Except.ok.injEq, Prod.mk.injEq] at h1
    obtain ⟨hc, rfl⟩ := h1
    have hon0 : s.acc.onTime = 0 := by
      simp only [unsettledP, Bool.and_eq_true, beq_iff_eq] at hun; exact hun.1.1
    have hoff0 : s.acc.offTime = 0 := by
      simp only [unsettledP, Bool.and_eq_true, beq_iff_eq] at hun; exact hun.1.2
    have hen : s.acc.enabled = true := by
      simp only [unsettledP, Bool.and_eq_true] at hun; exact hun.2
    refine ⟨s, 0, Nat.le_refl _, ?_, rfl, hen, rfl, ?_, ?_, ?_⟩
    · intro f
      simp only [Nat.zero_add, itemsOf, List.filterMap_nil, fetchPass, List.nil_append]
      cases ctSettle song root f s <;> rfl
    · simp [itemsOf, fetchPass]
    · simpa [itemsOf, fetchPass] using hlr
    · simp only [itemsOf, List.filterMap_nil, fetchPass, Bool.false_eq_true, if_false]
      exact ⟨hc, hun, hon0, hoff0⟩
  | k + 1, outs, s, lp, hrun, hseg, hun, hlr, hkB => by
    obtain ⟨h1, hno, hok⟩ := hrun
    simp only [stepsCore] at h1
    cases hs : coreStep song root s.core with
    | error e => rw [hs] at h1; simp at h1
    | ok p =>
      obtain ⟨c1, o⟩ := p
      rw [hs] at h1
      simp only [] at h1
      cases hs2 : stepsCore song root k c1 with
      | error e => rw [hs2] at h1; simp at h1
      | ok p2 =>
        obtain ⟨c2, os⟩ := p2
        rw [hs2] at h1
        simp only [Except.ok.injEq, Prod.mk.injEq] at h1
        obtain ⟨hc2, rfl⟩ := h1
        rw [hc2] at hs2
        have ho : isRoot o = false := hno o (by simp)
        have hoo : OutOK o := hok o (by simp)
        have hen : s.acc.enabled = true := by
          simp only [unsettledP, Bool.and_eq_true] at hun; exact hun.2
        have hon0 : s.acc.onTime = 0 := by
          simp only [unsettledP, Bool.and_eq_true, beq_iff_eq] at hun; exact hun.1.1
        have hoff0 : s.acc.offTime = 0 := by
          simp only [unsettledP, Bool.and_eq_true, beq_iff_eq] at hun; exact hun.1.2
        have hseg' : (isSegnoHook o = true → s.core.track = .root ∧ s.core.stack = []) ∧ SegTop song root k c1 := by
          simp only [SegTop, hs] at hseg; exact hseg
        have hrun' : CanRun song root cEnd c1 k os :=
          ⟨hs2, fun x hx => hno x (by simp [hx]), fun x hx => hok x (by simp [hx])⟩
        cases o with
        | rootEnd f => simp [isRoot] at ho
        | ret f =>
          have hf : f = endEvent := hoo
          subst hf
          -- the accumulators after the step
          obtain ⟨a1, ha1⟩ : ∃ a1 : Acc, a1 = { s.acc with
              playTime := s.acc.playTime + s.acc.onTime + s.acc.offTime,
              loopResetCount := if (s.core.position : Int) = s.acc.loopResetPosition then s.acc.loopCount else s.acc.loopResetCount,
              onTime := 0, offTime := 0 } := ⟨_, rfl⟩
          have hstep : step song root true s = .ok (⟨c1, a1⟩, .nothing) := by
            simp [step, hs, accStep, ha1, Out.fetched, endEvent]
          have hun1 : unsettledP ⟨c1, a1⟩ = true := by simp [unsettledP, ha1, hen]
          have hpt : a1.playTime = s.acc.playTime := by simp [ha1, hon0, hoff0]
          have hlp1 : a1.loopPlayTime = s.acc.loopPlayTime := by simp [ha1]
          have hlpos1 : a1.loopPosition = s.acc.loopPosition := by simp [ha1]
          have hlj1 : a1.lastLoopJump = s.acc.lastLoopJump := by simp [ha1]
          obtain ⟨s', k', hk', hset, e1, e2, e3, e4, e5, e6⟩ :=
            pass_sim cEnd B k os ⟨c1, a1⟩ lp hrun' hseg'.2 hun1 (by simpa [hlpos1] using hlr) (by omega)
          simp only [hpt, hlp1, hlj1] at hset e1 e3 e4 e5 e6
          rw [itemsOf_cons_ret]
          refine ⟨s', k' + 1, by omega, ?_, e1, e2, e3, e4, e5, ?_⟩
          · intro f
            have : k' + 1 + f = (k' + f) + 1 := by omega
            rw [this, ctSettle_step song root _ s _ _ hun hstep, hset f]
            cases ctSettle song root f s' <;> simp [emitEvents]
          · split
            · rename_i hf
              rw [if_pos hf] at e6
              obtain ⟨x1, x2, x3, k2, outs2, y1, y2, y3, y4⟩ := e6
              exact ⟨x1, x2, x3, k2, outs2, y1, y2, by omega, y4⟩
            · rename_i hf
              rw [if_neg hf] at e6
              exact e6
        | hook v fe =>
          rw [itemsOf_cons_hook]
          by_cases hsg : fe.kind = .segno
          · -- a loop point: the rest of the run is the loop section
            have htop := hseg'.1 (by simp [isSegnoHook, hsg])
            have hc1 : c1 = ⟨.root, s.core.position + 1, []⟩ := by
              rw [coreStep_segno song root _ _ _ _ hs hsg, ← htop.1, ← htop.2]
            obtain ⟨a1, ha1⟩ : ∃ a1 : Acc, a1 = { s.acc with
                playTime := s.acc.playTime + s.acc.onTime + s.acc.offTime,
                onTime := fe.on, offTime := fe.off, loopCount := 0, loopResetCount := 0,
                loopPosition := (s.core.position : Int) + 1, loopResetPosition := (s.core.position : Int) + 1,
                loopPlayTime := ((s.acc.playTime + s.acc.onTime + s.acc.offTime : Nat) : Int) } := ⟨_, rfl⟩
            have hstep : step song root true s = .ok (⟨c1, a1⟩, .event v) := by
              simp [step, hs, accStep, hsg, ha1, Out.fetched]
            have hpt : a1.playTime = s.acc.playTime := by simp [ha1, hon0, hoff0]
            have hlp1 : a1.loopPlayTime = (s.acc.playTime : Int) := by simp [ha1, hon0, hoff0]
            have hlj1 : a1.lastLoopJump = s.acc.lastLoopJump := by simp [ha1]
            have hlr1 : LoopRel song root cEnd B (some (itemsOf os)) a1.loopPosition := by
              refine ⟨s.core.position + 1, k, os, by simp [ha1], ?_, ?_, rfl, by omega⟩
              · rw [← hc1]; exact hrun'
              · rw [← hc1]; exact hseg'.2
            by_cases hz : fe.on = 0 ∧ fe.off = 0
            · have hun1 : unsettledP ⟨c1, a1⟩ = true := by simp [unsettledP, ha1, hen, hz.1, hz.2]
              obtain ⟨s', k', hk', hset, e1, e2, e3, e4, e5, e6⟩ :=
                pass_sim cEnd B k os ⟨c1, a1⟩ (some (itemsOf os)) hrun' hseg'.2 hun1 hlr1 (by omega)
              simp only [hpt, hlp1, hlj1] at hset e1 e3 e4 e5 e6
              have hfp : fetchPass s.acc.playTime lp s.acc.loopPlayTime ({ ev := v, src := fe } :: itemsOf os) =
                  { fetchPass s.acc.playTime (some (itemsOf os)) (s.acc.playTime : Int) (itemsOf os) with
                    evs := v :: (fetchPass s.acc.playTime (some (itemsOf os)) (s.acc.playTime : Int) (itemsOf os)).evs } := by
                simp [fetchPass, hz.1, hz.2, hsg]
              rw [hfp]
              refine ⟨s', k' + 1, by omega, ?_, e1, e2, e3, e4, e5, ?_⟩
              · intro f
                have : k' + 1 + f = (k' + f) + 1 := by omega
                rw [this, ctSettle_step song root _ s _ _ hun hstep, hset f]
                cases ctSettle song root f s' <;> simp [emitEvents]
              · simp only
                split
                · rename_i hf
                  rw [if_pos hf] at e6
                  obtain ⟨x1, x2, x3, k2, outs2, y1, y2, y3, y4⟩ := e6
                  exact ⟨x1, x2, x3, k2, outs2, y1, y2, by omega, y4⟩
                · rename_i hf
                  rw [if_neg hf] at e6
                  exact e6
            · have hfp : fetchPass s.acc.playTime lp s.acc.loopPlayTime ({ ev := v, src := fe } :: itemsOf os) =
                  ⟨true, fe.on, fe.off, itemsOf os, some (itemsOf os), (s.acc.playTime : Int), [v]⟩ := by
                simp [fetchPass, hz, hsg]
              rw [hfp]
              have hun1 : unsettledP ⟨c1, a1⟩ = false := by
                simp only [unsettledP, ha1]
                by_cases h0 : fe.on = 0
                · have : fe.off ≠ 0 := fun h => hz ⟨h0, h⟩
                  simp [h0, this]
                · simp [h0]
              refine ⟨⟨c1, a1⟩, 1, by omega, ?_, hpt, by simp [ha1, hen], hlj1, hlp1, hlr1, ?_⟩
              · intro f
                have : 1 + f = f + 1 := by omega
                rw [this, ctSettle_step song root _ s _ _ hun hstep]
                cases ctSettle song root f ⟨c1, a1⟩ <;> simp [emitEvents]
              · simp only [if_true]
                exact ⟨hun1, by simp [ha1], by simp [ha1], k, os, hrun', hseg'.2, by omega, rfl⟩
          · obtain ⟨a1, ha1⟩ : ∃ a1 : Acc, a1 = { s.acc with
                playTime := s.acc.playTime + s.acc.onTime + s.acc.offTime,
                loopResetCount := if (s.core.position : Int) = s.acc.loopResetPosition then s.acc.loopCount else s.acc.loopResetCount,
                onTime := fe.on, offTime := fe.off } := ⟨_, rfl⟩
            have hstep : step song root true s = .ok (⟨c1, a1⟩, .event v) := by
              simp [step, hs, accStep, hsg, ha1, Out.fetched]
            have hpt : a1.playTime = s.acc.playTime := by simp [ha1, hon0, hoff0]
            have hlp1 : a1.loopPlayTime = s.acc.loopPlayTime := by simp [ha1]
            have hlpos1 : a1.loopPosition = s.acc.loopPosition := by simp [ha1]
            have hlj1 : a1.lastLoopJump = s.acc.lastLoopJump := by simp [ha1]
            by_cases hz : fe.on = 0 ∧ fe.off = 0
            · have hun1 : unsettledP ⟨c1, a1⟩ = true := by simp [unsettledP, ha1, hen, hz.1, hz.2]
              obtain ⟨s', k', hk', hset, e1, e2, e3, e4, e5, e6⟩ :=
                pass_sim cEnd B k os ⟨c1, a1⟩ lp hrun' hseg'.2 hun1 (by simpa [hlpos1] using hlr) (by omega)
              simp only [hpt, hlp1, hlj1] at hset e1 e3 e4 e5 e6
              have hfp : fetchPass s.acc.playTime lp s.acc.loopPlayTime ({ ev := v, src := fe } :: itemsOf os) =
                  { fetchPass s.acc.playTime lp s.acc.loopPlayTime (itemsOf os) with
                    evs := v :: (fetchPass s.acc.playTime lp s.acc.loopPlayTime (itemsOf os)).evs } := by
                simp [fetchPass, hz.1, hz.2, hsg]
              rw [hfp]
              refine ⟨s', k' + 1, by omega, ?_, e1, e2, e3, e4, e5, ?_⟩
              · intro f
                have : k' + 1 + f = (k' + f) + 1 := by omega
                rw [this, ctSettle_step song root _ s _ _ hun hstep, hset f]
                cases ctSettle song root f s' <;> simp [emitEvents]
              · simp only
                split
                · rename_i hf
                  rw [if_pos hf] at e6
                  obtain ⟨x1, x2, x3, k2, outs2, y1, y2, y3, y4⟩ := e6
                  exact ⟨x1, x2, x3, k2, outs2, y1, y2, by omega, y4⟩
                · rename_i hf
                  rw [if_neg hf] at e6
                  exact e6
            · have hfp : fetchPass s.acc.playTime lp s.acc.loopPlayTime ({ ev := v, src := fe } :: itemsOf os) =
                  ⟨true, fe.on, fe.off, itemsOf os, lp, s.acc.loopPlayTime, [v]⟩ := by
                simp [fetchPass, hz, hsg]
              rw [hfp]
              have hun1 : unsettledP ⟨c1, a1⟩ = false := by
                simp only [unsettledP, ha1]
                by_cases h0 : fe.on = 0
                · have : fe.off ≠ 0 := fun h => hz ⟨h0, h⟩
                  simp [h0, this]
                · simp [h0]
              refine ⟨⟨c1, a1⟩, 1, by omega, ?_, hpt, by simp [ha1, hen], hlj1, hlp1, by simpa [hlpos1] using hlr, ?_⟩
              · intro f
                have : 1 + f = f + 1 := by omega
                rw [this, ctSettle_step song root _ s _ _ hun hstep]
                cases ctSettle song root f ⟨c1, a1⟩ <;> simp [emitEvents]
              · simp only [if_true]
                exact ⟨hun1, by simp [ha1], by simp [ha1], k, os, hrun', hseg'.2, by omega, rfl⟩

/-! ### the end of the track -/
/-- at `cEnd` the channel's track is over: the next control step is the root `END` -/
def EndOK (cEnd : Core) : Prop :=
  ∃ cE', coreStep song root cEnd = .ok (cE', .rootEnd endEvent) ∧ cE'.track = .root ∧ cE'.stack = []

theorem endOK_root : EndOK song root ⟨.root, root.length, []⟩ := by
  refine ⟨⟨.root, root.length + 1, []⟩, ?_, rfl, rfl⟩
  have hk : endEvent.kind = .fin := by decide
  simp [coreStep, fetch, codeOf, hk]

/-- the decision at the root `END`: jump back to the loop point … -/
theorem end_step_jump (cEnd : Core) (hend : EndOK song root cEnd) (s1 : PState) (hc : s1.core = cEnd)
    (hon : s1.acc.onTime = 0) (hoff : s1.acc.offTime = 0)
    (hj : s1.acc.loopPosition ≠ -1 ∧ (s1.acc.playTime : Int) ≠ s1.acc.loopPlayTime ∧ (s1.acc.playTime : Int) ≠ s1.acc.lastLoopJump) :
    ∃ s2, step song root true s1 = .ok (s2, .nothing) ∧ s2.core = ⟨.root, s1.acc.loopPosition.toNat, []⟩ ∧
      s2.acc.playTime = s1.acc.playTime ∧ s2.acc.onTime = 0 ∧ s2.acc.offTime = 0 ∧ s2.acc.enabled = s1.acc.enabled ∧
      s2.acc.lastLoopJump = (s1.acc.playTime : Int) ∧ s2.acc.loopPlayTime = s1.acc.loopPlayTime ∧
      s2.acc.loopPosition = s1.acc.loopPosition := by
  obtain ⟨cE', hs, ht, hst⟩ := hend
  obtain ⟨tr, pos, st⟩ := cE'
  simp only at ht hst
  subst ht hst
  have hcond : s1.acc.loopPosition ≠ -1 ∧ ((s1.acc.playTime + 0 + 0 : Nat) : Int) ≠ s1.acc.loopPlayTime ∧
      ((s1.acc.playTime + 0 + 0 : Nat) : Int) ≠ s1.acc.lastLoopJump ∧ True := ⟨hj.1, hj.2.1, hj.2.2, trivial⟩
  simp only [step, hc, hs, accStep, Out.fetched, hon, hoff, if_pos hcond]
  exact ⟨_, rfl, rfl, rfl, rfl, rfl, rfl, rfl, rfl, rfl⟩

/-- … or the end of the track -/
theorem end_step_finish (cEnd : Core) (hend : EndOK song root cEnd) (s1 : PState) (hc : s1.core = cEnd)
    (hon : s1.acc.onTime = 0) (hoff : s1.acc.offTime = 0)
    (hj : ¬ (s1.acc.loopPosition ≠ -1 ∧ (s1.acc.playTime : Int) ≠ s1.acc.loopPlayTime ∧ (s1.acc.playTime : Int) ≠ s1.acc.lastLoopJump)) :
    ∃ s2, step song root true s1 = .ok (s2, .finish) ∧
      s2.acc.playTime = s1.acc.playTime ∧ s2.acc.onTime = 0 ∧ s2.acc.offTime = 0 ∧ s2.acc.enabled = false ∧
      s2.acc.lastLoopJump = s1.acc.lastLoopJump ∧ s2.acc.loopPlayTime = s1.acc.loopPlayTime ∧
      s2.acc.loopPosition = s1.acc.loopPosition := by
  obtain ⟨cE', hs, ht, hst⟩ := hend
  have hcond : ¬ (s1.acc.loopPosition ≠ -1 ∧ ((s1.acc.playTime + 0 + 0 : Nat) : Int) ≠ s1.acc.loopPlayTime ∧
      ((s1.acc.playTime + 0 + 0 : Nat) : Int) ≠ s1.acc.lastLoopJump ∧ True) := fun h => hj ⟨h.1, h.2.1, h.2.2.1⟩
  simp only [step, hc, hs, accStep, Out.fetched, hon, hoff, if_neg hcond]
  exact ⟨_, rfl, rfl, rfl, rfl, rfl, rfl, rfl, rfl⟩

/-! ### the simulation relation over all passes -/
def RelX (cEnd : Core) (B : Nat) (s : PState) (m : LX) : Prop :=
  s.acc.enabled = m.enabled ∧ s.acc.onTime = m.on ∧ s.acc.offTime = m.off ∧ s.acc.playTime = m.t ∧
  s.acc.loopPlayTime = m.loopT ∧ s.acc.lastLoopJump = m.lastJump ∧ LoopRel song root cEnd B m.loop s.acc.loopPosition ∧
  (m.enabled = true → ∃ k outs, CanRun song root cEnd s.core k outs ∧ SegTop song root k s.core ∧ k ≤ B ∧ itemsOf outs = m.rest) ∧
  (m.enabled = false → m.on = 0 ∧ m.off = 0)

theorem loopRel_pos (cEnd : Core) (B : Nat) (lp : Option (List Item)) (p : Int) (h : LoopRel song root cEnd B lp p) :
    (p ≠ -1 ↔ lp.isSome = true) := by
  cases lp with
  | none => simp only [LoopRel] at h; simp [h]
  | some L =>
    obtain ⟨P, _, _, hp, _⟩ := h
    simp [hp]

theorem relX_finish (cEnd : Core) (B : Nat) (s2 : PState) (m : LX) (lp : Option (List Item)) (lt lj : Int)
    (f1 : s2.acc.playTime = m.t) (f2 : s2.acc.onTime = 0) (f3 : s2.acc.offTime = 0) (f4 : s2.acc.enabled = false)
    (f5 : s2.acc.lastLoopJump = lj) (f6 : s2.acc.loopPlayTime = lt) (f7 : LoopRel song root cEnd B lp s2.acc.loopPosition) :
    RelX song root cEnd B s2 (m.finish lp lt lj) :=
  ⟨f4, f2, f3, f1, f6, f5, f7, fun hh => by simp [LX.finish] at hh, fun _ => ⟨rfl, rfl⟩⟩

/-- the fetch loop of one tick, over the end of the track and the jump back -/
theorem lxFetch_sim (cEnd : Core) (B : Nat) (hend : EndOK song root cEnd) (F : Nat) (hB : 2 * B + 2 ≤ F)
    (s : PState) (m : LX) (h : RelX song root cEnd B s m) (hen : m.enabled = true) (hon : m.on = 0) (hoff : m.off = 0) :
    ∃ s', ctSettle song root F s = some (s', (lxFetch m).2) ∧ RelX song root cEnd B s' (lxFetch m).1 := by
  obtain ⟨e1, e2, e3, e4, e5, e6, e7, e8, _⟩ := h
  obtain ⟨k, outs, hrun, hseg, hkB, hit⟩ := e8 hen
  have hun : unsettledP s = true := by simp [unsettledP, e1, e2, e3, hen, hon, hoff]
  obtain ⟨s1, k1, hk1, hset1, p1, p2, p3, p4, p5, p6⟩ := pass_sim song root cEnd B k outs s m.loop hrun hseg hun e7 hkB
  rw [e4, e5, hit] at hset1 p4 p5 p6
  rw [e4] at p1
  rw [e6] at p3
  obtain ⟨r1, hr1⟩ : ∃ r1, r1 = fetchPass m.t m.loop m.loopT m.rest := ⟨_, rfl⟩
  rw [← hr1] at hset1 p4 p5 p6
  unfold lxFetch
  simp only [← hr1]
  by_cases hf : r1.found = true
  · rw [if_pos hf] at p6 ⊢
    obtain ⟨q1, q2, q3, k2, outs2, q4, q5, q6, q7⟩ := p6
    obtain ⟨f', hf'⟩ : ∃ f', F = k1 + f' := ⟨F - k1, by omega⟩
    refine ⟨s1, ?_, ?_⟩
    · rw [hf', hset1, ctSettle_fix song root _ _ q1]; simp
    · exact ⟨p2.trans hen.symm, q2, q3, p1, p4, p3, p5, fun _ => ⟨k2, outs2, q4, q5, by omega, q7⟩,
        fun hh => by rw [hen] at hh; cases hh⟩
  · rw [if_neg hf] at p6 ⊢
    obtain ⟨q1, q2, q3, q4⟩ := p6
    have hpos := loopRel_pos song root cEnd B r1.loop _ p5
    cases hl : r1.loop with
    | none =>
      rw [hl] at hpos p5
      simp only
      have hj : ¬ (s1.acc.loopPosition ≠ -1 ∧ (s1.acc.playTime : Int) ≠ s1.acc.loopPlayTime ∧ (s1.acc.playTime : Int) ≠ s1.acc.lastLoopJump) := by
        intro hh; have := hpos.mp hh.1; simp at this
      obtain ⟨s2, hst, f1, f2, f3, f4, f5, f6, f7⟩ := end_step_finish song root cEnd hend s1 q1 q3 q4 hj
      have hun2 : unsettledP s2 = false := by simp [unsettledP, f4]
      obtain ⟨f', hf'⟩ : ∃ f', F = k1 + (f' + 1) := ⟨F - k1 - 1, by omega⟩
      refine ⟨s2, ?_, ?_⟩
      · rw [hf', hset1, ctSettle_step song root _ s1 _ _ q2 hst, ctSettle_fix song root _ _ hun2]
        simp [emitEvents]
      · exact relX_finish song root cEnd B s2 m none r1.loopT m.lastJump (f1.trans p1) f2 f3 f4 (f5.trans p3) (f6.trans p4)
          (by rw [f7]; exact p5)
    | some L =>
      rw [hl] at hpos p5
      simp only
      by_cases hj : (m.t : Int) ≠ r1.loopT ∧ (m.t : Int) ≠ m.lastJump
      · rw [if_pos hj]
        have hj' : s1.acc.loopPosition ≠ -1 ∧ (s1.acc.playTime : Int) ≠ s1.acc.loopPlayTime ∧ (s1.acc.playTime : Int) ≠ s1.acc.lastLoopJump := by
          rw [p1, p4, p3]; exact ⟨hpos.mpr rfl, hj.1, hj.2⟩
        obtain ⟨s2, hst, g0, g1, g2, g3, g4, g5, g6, g7⟩ := end_step_jump song root cEnd hend s1 q1 q3 q4 hj'
        obtain ⟨P, kL, outsL, hP, hrunL, hsegL, hitL, hkL⟩ := p5
        have hcore2 : s2.core = ⟨.root, P, []⟩ := by rw [g0, hP]; simp
        have hun2 : unsettledP s2 = true := by simp [unsettledP, g2, g3, g4, p2]
        have hlr2 : LoopRel song root cEnd B (some L) s2.acc.loopPosition := by
          rw [g7]; exact ⟨P, kL, outsL, hP, hrunL, hsegL, hitL, hkL⟩
        obtain ⟨s3, k3, hk3, hset3, u1, u2, u3, u4, u5, u6⟩ :=
          pass_sim song root cEnd B kL outsL s2 (some L) (by rw [hcore2]; exact hrunL) (by rw [hcore2]; exact hsegL) hun2 hlr2 hkL
        rw [g1, p1, g6, p4, hitL] at hset3 u4 u5 u6
        rw [g1, p1] at u1
        rw [g5, p1] at u3
        obtain ⟨r2, hr2⟩ : ∃ r2, r2 = fetchPass m.t (some L) r1.loopT L := ⟨_, rfl⟩
        rw [← hr2] at hset3 u4 u5 u6
        simp only [← hr2]
        by_cases hf2 : r2.found = true
        · rw [if_pos hf2] at u6 ⊢
          obtain ⟨v1, v2, v3, k4, outs4, v4, v5, v6, v7⟩ := u6
          obtain ⟨f', hf'⟩ : ∃ f', F = k1 + ((k3 + f') + 1) := ⟨F - k1 - 1 - k3, by omega⟩
          refine ⟨s3, ?_, ?_⟩
          · rw [hf', hset1, ctSettle_step song root _ s1 _ _ q2 hst, hset3, ctSettle_fix song root _ _ v1]
            simp [emitEvents]
          · exact ⟨u2.trans hen.symm, v2, v3, u1, u4, u3, u5, fun _ => ⟨k4, outs4, v4, v5, by omega, v7⟩,
              fun hh => by rw [hen] at hh; cases hh⟩
        · rw [if_neg hf2] at u6 ⊢
          obtain ⟨v1, v2, v3, v4⟩ := u6
          have hj3 : ¬ (s3.acc.loopPosition ≠ -1 ∧ (s3.acc.playTime : Int) ≠ s3.acc.loopPlayTime ∧ (s3.acc.playTime : Int) ≠ s3.acc.lastLoopJump) := by
            intro hh; exact hh.2.2 (by rw [u1, u3])
          obtain ⟨s4, hst4, f1, f2, f3, f4, f5, f6, f7⟩ := end_step_finish song root cEnd hend s3 v1 v3 v4 hj3
          have hun4 : unsettledP s4 = false := by simp [unsettledP, f4]
          obtain ⟨f', hf'⟩ : ∃ f', F = k1 + ((k3 + (f' + 1)) + 1) := ⟨F - k1 - 1 - k3 - 1, by omega⟩
          refine ⟨s4, ?_, ?_⟩
          · rw [hf', hset1, ctSettle_step song root _ s1 _ _ q2 hst, hset3, ctSettle_step song root _ s3 _ _ v2 hst4,
              ctSettle_fix song root _ _ hun4]
            simp [emitEvents]
          · exact relX_finish song root cEnd B s4 m r2.loop r2.loopT m.t (f1.trans u1) f2 f3 f4 (f5.trans u3) (f6.trans u4)
              (by rw [f7]; exact u5)
      · rw [if_neg hj]
        have hj' : ¬ (s1.acc.loopPosition ≠ -1 ∧ (s1.acc.playTime : Int) ≠ s1.acc.loopPlayTime ∧ (s1.acc.playTime : Int) ≠ s1.acc.lastLoopJump) := by
          rw [p1, p4, p3]; intro hh; exact hj ⟨hh.2.1, hh.2.2⟩
        obtain ⟨s2, hst, f1, f2, f3, f4, f5, f6, f7⟩ := end_step_finish song root cEnd hend s1 q1 q3 q4 hj'
        have hun2 : unsettledP s2 = false := by simp [unsettledP, f4]
        obtain ⟨f', hf'⟩ : ∃ f', F = k1 + (f' + 1) := ⟨F - k1 - 1, by omega⟩
        refine ⟨s2, ?_, ?_⟩
        · rw [hf', hset1, ctSettle_step song root _ s1 _ _ q2 hst, ctSettle_fix song root _ _ hun2]
          simp [emitEvents]
        · exact relX_finish song root cEnd B s2 m (some L) r1.loopT m.lastJump (f1.trans p1) f2 f3 f4 (f5.trans p3) (f6.trans p4)
            (by rw [f7]; exact p5)

/-- **one tick, on any pass**: `ctTick` delivers what the looping list machine delivers and keeps
the relation -/
theorem lx_sim_tick (cEnd : Core) (B : Nat) (hend : EndOK song root cEnd) (hB : 2 * B + 2 ≤ settleFuel)
    (s : PState) (m : LX) (h : RelX song root cEnd B s m) :
    ∃ s', ctTick song root s = some (s', (lxTick m).2) ∧ RelX song root cEnd B s' (lxTick m).1 := by
  have h0 := h
  obtain ⟨e1, e2, e3, e4, e5, e6, e7, e8, e9⟩ := h
  unfold ctTick lxTick
  by_cases hen : ¬ m.enabled = true
  · have hen' : m.enabled = false := by simpa using hen
    obtain ⟨z1, z2⟩ := e9 hen'
    have hd : ctDec s = (s, []) := by simp [ctDec, e2, e3, z1, z2]
    have hun : unsettledP s = false := by simp [unsettledP, e1, hen']
    rw [hd, show (!m.enabled) = true by simp [hen']]
    simp only [if_true]
    rw [ctSettle_fix song root _ _ hun]
    exact ⟨s, by simp, h0⟩
  · have hen : m.enabled = true := by simpa using hen
    rw [show (!m.enabled) = false by simp [hen]]
    simp only [Bool.false_eq_true, if_false]
    -- the three ways into the fetch loop share this step
    have fetch : ∀ (s0 : PState) (m0 : LX), ctDec s = (s0, []) → RelX song root cEnd B s0 m0 → m0.enabled = true →
        m0.on = 0 → m0.off = 0 →
        ∃ s', (ctSettle song root settleFuel (ctDec s).1).map (fun r => (r.1, (ctDec s).2 ++ r.2)) = some (s', (lxFetch m0).2) ∧
          RelX song root cEnd B s' (lxFetch m0).1 := by
      intro s0 m0 hd hr h1 h2 h3
      obtain ⟨s', a, b⟩ := lxFetch_sim song root cEnd B hend settleFuel hB s0 m0 hr h1 h2 h3
      exact ⟨s', by rw [hd]; simp [a], b⟩
    by_cases h1 : m.on > 0
    · rw [if_pos h1]
      by_cases h2 : m.on = 1 ∧ m.off = 0
      · rw [if_pos h2]
        refine fetch (decOn s) _ (by simp [ctDec, e2, e3, h2.1, h2.2]) ?_ hen rfl h2.2
        refine ⟨by simpa using e1, by simp [e2, h2.1], by simpa using e3, by simp [e4], e5, e6, e7, fun _ => ?_, fun hh => ?_⟩
        · exact e8 hen
        · rw [hen] at hh; cases hh
      · rw [if_neg h2]
        have hd : ctDec s = (decOn s, if m.on = 1 then [restEvent] else []) := by
          simp only [ctDec, e2, e3, h1, if_true]
          congr 1
          by_cases h3 : m.on = 1
          · have : m.off > 0 := by
              rcases Nat.eq_zero_or_pos m.off with h0 | h0
              · exact absurd ⟨h3, h0⟩ h2
              · exact h0
            simp [h3, this]
          · have : ¬ (m.on - 1 = 0) := by omega
            simp [h3, this]
        rw [hd]
        have hun : unsettledP (decOn s) = false := by
          simp only [unsettledP, decOn_on, decOn_off, e2, e3]
          by_cases h0 : m.on - 1 = 0
          · have : m.off ≠ 0 := by omega
            simp [h0, this]
          · simp [h0]
        simp only
        rw [ctSettle_fix song root _ _ hun]
        refine ⟨decOn s, by simp, ⟨by simpa using e1, by simp [e2], by simpa using e3, by simp [e4], e5, e6, e7, fun _ => e8 hen,
          fun hh => ?_⟩⟩
        rw [hen] at hh; cases hh
    · rw [if_neg h1]
      have hon0 : m.on = 0 := by omega
      by_cases h2 : m.off > 0
      · rw [if_pos h2]
        by_cases h3 : m.off = 1
        · rw [if_pos h3]
          refine fetch (decOff s) _ (by simp [ctDec, e2, e3, hon0, h3]) ?_ hen hon0 rfl
          refine ⟨by simpa using e1, by simpa using e2, by simp [e3, h3], by simp [e4], e5, e6, e7, fun _ => ?_, fun hh => ?_⟩
          · exact e8 hen
          · rw [hen] at hh; cases hh
        · rw [if_neg h3]
          have hd : ctDec s = (decOff s, []) := by simp [ctDec, e2, e3, hon0, h2]
          rw [hd]
          have hun : unsettledP (decOff s) = false := by
            have : m.off - 1 ≠ 0 := by omega
            simp [unsettledP, e2, e3, hon0, this]
          simp only
          rw [ctSettle_fix song root _ _ hun]
          refine ⟨decOff s, by simp, ⟨by simpa using e1, by simpa using e2, by simp [e3], by simp [e4], e5, e6, e7, fun _ => e8 hen,
            fun hh => ?_⟩⟩
          rw [hen] at hh; cases hh
      · rw [if_neg h2]
        have hoff0 : m.off = 0 := by omega
        exact fetch s m (by simp [ctDec, e2, e3, hon0, hoff0]) h0 hen hon0 hoff0

/-- **n ticks, on any pass** -/
theorem lx_sim_run (cEnd : Core) (B : Nat) (hend : EndOK song root cEnd) (hB : 2 * B + 2 ≤ settleFuel) :
    ∀ (n : Nat) (s : PState) (m : LX), RelX song root cEnd B s m →
    ∃ s', ctRun song root n s = some (s', lxRun n m) ∧ RelX song root cEnd B s' (lxAfter n m)
  | 0, s, m, h => ⟨s, rfl, h⟩
  | n + 1, s, m, h => by
    obtain ⟨s1, ht, hr⟩ := lx_sim_tick song root cEnd B hend hB s m h
    obtain ⟨s2, hrun, hr2⟩ := lx_sim_run cEnd B hend hB n s1 (lxTick m).1 hr
    exact ⟨s2, by simp [ctRun, ht, hrun, lxRun], by simpa [lxAfter] using hr2⟩

/-- the looping list machine loaded with the performance of a track -/
def lxInit (items : List Item) : LX := { rest := items }

/-- the start of a track is related to the looping list machine loaded with `perf` -/
theorem relX_init (hs : SongNoEnd song) (hr : NoEnd root) (items : List Item) (hperf : perf song root = .ok items)
    (B : Nat) (hfuel : ∀ k outs, stepsCore song root k ⟨.root, 0, []⟩ = .ok (⟨.root, root.length, []⟩, outs) → k ≤ B)
    (hseg : ∀ k, SegTop song root k ⟨.root, 0, []⟩) :
    RelX song root ⟨.root, root.length, []⟩ B ⟨⟨.root, 0, []⟩, {}⟩ (lxInit items) := by
  have hsim := perf_sim song root hs hr
  rw [hperf] at hsim
  obtain ⟨outs, ⟨k, hk, hno⟩, hit⟩ := hsim
  refine ⟨rfl, rfl, rfl, rfl, rfl, rfl, rfl, fun _ => ⟨k, outs, ⟨hk, hno, ?_⟩, hseg k, hfuel k outs hk, hit⟩, fun hh => by simp [lxInit] at hh⟩
  exact stepsCore_outOK song root (codesNoEnd_of song root hs hr) k _ _ outs hk

/-! ### where `SegTop` comes from -/
theorem segTop_step (k : Nat) (c c' : Core) (o : Out) (h : coreStep song root c = .ok (c', o)) :
    SegTop song root (k + 1) c ↔ (isSegnoHook o = true → c.track = .root ∧ c.stack = []) ∧ SegTop song root k c' := by
  simp [SegTop, h]

/-- past the end of the channel's track nothing is read any more -/
theorem segTop_past : ∀ (k p : Nat), root.length ≤ p → SegTop song root k ⟨.root, p, []⟩
  | 0, _, _ => trivial
  | k + 1, p, hp => by
    have hk : endEvent.kind = .fin := by decide
    have hnone : root[p]? = none := by simp [hp]
    have hs : coreStep song root ⟨.root, p, []⟩ = .ok (⟨.root, p + 1, []⟩, .rootEnd endEvent) := by
      simp [coreStep, fetch, codeOf, hnone, hk]
    rw [segTop_step song root k _ _ _ hs]
    exact ⟨by simp [isSegnoHook], segTop_past k (p + 1) (by omega)⟩

/-- a run that reads no `SEGNO` -/
theorem segTop_noSeg : ∀ (k : Nat) (c c1 : Core) (os : List Out), stepsCore song root k c = .ok (c1, os) →
    (∀ o ∈ os, isSegnoHook o = false) → SegTop song root k c
  | 0, _, _, _, _, _ => trivial
  | k + 1, c, c1, os, h, hno => by
    simp only [stepsCore] at h
    cases hs : coreStep song root c with
    | error e => rw [hs] at h; simp at h
    | ok p =>
      obtain ⟨c', o⟩ := p
      rw [hs] at h
      simp only [] at h
      cases hs2 : stepsCore song root k c' with
      | error e => rw [hs2] at h; simp at h
      | ok p2 =>
        obtain ⟨c2, os2⟩ := p2
        rw [hs2] at h
        simp only [Except.ok.injEq, Prod.mk.injEq] at h
        obtain ⟨rfl, rfl⟩ := h
        rw [segTop_step song root k _ _ _ hs]
        refine ⟨fun hh => ?_, segTop_noSeg k c' c2 os2 hs2 (fun x hx => hno x (by simp [hx]))⟩
        rw [hno o (by simp)] at hh; cases hh

/-- a run followed by runs that satisfy `SegTop` for every length -/
theorem segTop_run : ∀ (k1 : Nat) (c c1 : Core) (os1 : List Out), stepsCore song root k1 c = .ok (c1, os1) →
    SegTop song root k1 c → (∀ k, SegTop song root k c1) → ∀ k, SegTop song root k c
  | 0, c, c1, os1, h, _, h2 => by
    simp only [stepsCore, Except.ok.injEq, Prod.mk.injEq] at h
    rw [h.1]; exact h2
  | k1 + 1, c, c1, os1, h, h1, h2 => by
    simp only [stepsCore] at h
    cases hs : coreStep song root c with
    | error e => rw [hs] at h; simp at h
    | ok p =>
      obtain ⟨c', o⟩ := p
      rw [hs] at h
      simp only [] at h
      cases hs2 : stepsCore song root k1 c' with
      | error e => rw [hs2] at h; simp at h
      | ok p2 =>
        obtain ⟨c2, os2⟩ := p2
        rw [hs2] at h
        simp only [Except.ok.injEq, Prod.mk.injEq] at h
        obtain ⟨rfl, rfl⟩ := h
        rw [segTop_step song root k1 _ _ _ hs] at h1
        have ih := segTop_run k1 c' c2 os2 hs2 h1.2 h2
        intro k
        cases k with
        | zero => trivial
        | succ k => rw [segTop_step song root k _ _ _ hs]; exact ⟨h1.1, ih k⟩

theorem noSeg_of_items (outs : List Out) (h : ∀ i ∈ itemsOf outs, i.src.kind ≠ .segno) :
    ∀ o ∈ outs, isSegnoHook o = false := by
  intro o ho
  cases o with
  | hook v f =>
    have : ({ ev := v, src := f } : Item) ∈ itemsOf outs := by
      simp only [itemsOf, List.mem_filterMap]
      exact ⟨_, ho, rfl⟩
    have := h _ this
    simp [isSegnoHook, this]
  | ret f => rfl
  | rootEnd f => rfl

/-- a parsed forest whose expansion succeeds has no fault -/
theorem closed_of_spine_ok (call : Nat → Nat → Except SErr (List Item)) (d : Nat) {b : Bool} {f : List Node}
    (hs : Spine b f) : ∀ items, expL call d b f = .ok items → closedL f := by
  induction hs with
  | nil => intro _ _; trivial
  | @closed b n ns hn _ ih =>
    intro items h
    rw [expL_cons] at h
    cases h1 : expN call d b n with
    | error x => rw [h1] at h; simp [Expand.seq] at h
    | ok a =>
      cases h2 : expL call d b ns with
      | error y => rw [h1, h2] at h; simp [Expand.seq] at h
      | ok c => exact ⟨hn, ih c h2⟩
  | @stray e ns hk => intro items h; simp [expL, expN, Expand.seq] at h
  | @opened b ls body hk _ ih => intro items h; simp [expL, expN, Expand.seq] at h

/-- **No loop point below the top level, one segment at a time.**  If the channel's track is
`done ++ seg ++ rest`, the machine stands in front of `seg` with an empty stack, `seg` is a
well-formed piece of track whose performance reads no `SEGNO`, and from behind `seg` on `SegTop`
holds, then it holds from here on. -/
theorem segTop_segment (hne : SongNoEnd song) (done seg rest : List Event) (hroot : root = done ++ seg ++ rest)
    (hseg : NoEnd seg) (is : List Item) (hperf : perf song seg = .ok is) (hno : ∀ i ∈ is, i.src.kind ≠ .segno)
    (hnext : ∀ k, SegTop song root k ⟨.root, (done ++ seg).length, []⟩) :
    ∀ k, SegTop song root k ⟨.root, done.length, []⟩ := by
  have hcl : closedL (parse seg) := closed_of_spine_ok _ 0 (spine_parse seg hseg) is hperf
  have hsim := simL song root (callK song limit) limit (callK_spec song root hne limit) (parse seg) hcl done rest .root [] false
    (by simp [codeOf, flatten_parse, hroot]) (by intro fr r h; cases h) (by simp)
  have hp : expL (callK song limit) ([] : List Frame).length false (parse seg) = .ok is := hperf
  rw [hp, flatten_parse] at hsim
  obtain ⟨outs, ⟨k1, hk1, _⟩, hit⟩ := hsim
  have hlen : done.length + seg.length = (done ++ seg).length := by simp
  rw [hlen] at hk1
  exact segTop_run song root k1 _ _ outs hk1
    (segTop_noSeg song root k1 _ _ outs hk1 (noSeg_of_items outs (by rw [hit]; exact hno))) hnext

/-- a loop point at the top level of the channel's track -/
theorem segTop_segno (done rest : List Event) (sg : Event) (hroot : root = done ++ sg :: rest) (hsg : sg.kind = .segno)
    (hnext : ∀ k, SegTop song root k ⟨.root, done.length + 1, []⟩) :
    ∀ k, SegTop song root k ⟨.root, done.length, []⟩ := by
  have hc : (codeOf song root .root)[done.length]? = some sg := by simp [codeOf, hroot]
  have hs := step_other song root (tr := .root) (pos := done.length) (σ := []) hc (Or.inl hsg)
  intro k
  cases k with
  | zero => trivial
  | succ k => rw [segTop_step song root k _ _ _ hs]; exact ⟨fun _ => ⟨rfl, rfl⟩, hnext k⟩

/-- a track whose performance reads no `SEGNO` at all -/
theorem segTop_of_noSegno (hne : SongNoEnd song) (hr : NoEnd root) (items : List Item) (hperf : perf song root = .ok items)
    (hno : ∀ i ∈ items, i.src.kind ≠ .segno) : ∀ k, SegTop song root k ⟨.root, 0, []⟩ := by
  have := segTop_segment song root hne [] root [] (by simp) hr items hperf hno
    (by intro k; simpa using segTop_past song root k root.length (Nat.le_refl _))
  simpa using this

/-- **One loop point at the top level** (the shape the MML front end produces for `L`):
`root = pre ++ SEGNO :: post`, `pre` and `post` well-formed pieces whose performances read no
further `SEGNO`. -/
theorem segTop_one_segno (hne : SongNoEnd song) (pre post : List Event) (sg : Event) (hroot : root = pre ++ sg :: post)
    (hr : NoEnd root) (hsg : sg.kind = .segno) (ip is : List Item)
    (hpre : perf song pre = .ok ip) (hpost : perf song post = .ok is)
    (hnp : ∀ i ∈ ip, i.src.kind ≠ .segno) (hns : ∀ i ∈ is, i.src.kind ≠ .segno) :
    ∀ k, SegTop song root k ⟨.root, 0, []⟩ := by
  have hpreE : NoEnd pre := fun e he => hr e (by rw [hroot]; simp [he])
  have hpostE : NoEnd post := fun e he => hr e (by rw [hroot]; simp [he])
  have h3 : ∀ k, SegTop song root k ⟨.root, (pre ++ [sg]).length, []⟩ := by
    have := segTop_segment song root hne (pre ++ [sg]) post [] (by simp [hroot]) hpostE is hpost hns
      (by intro k; exact segTop_past song root k _ (by simp [hroot]))
    exact this
  have h2 : ∀ k, SegTop song root k ⟨.root, pre.length, []⟩ :=
    segTop_segno song root pre post sg hroot hsg (by simpa using h3)
  have := segTop_segment song root hne [] pre (sg :: post) (by simp [hroot]) hpreE ip hpre hnp (by simpa using h2)
  simpa using this

/-! ### conditions on all tracks, from conditions on the lists of events -/
theorem lookup_mem {β : Type} : ∀ (l : List (Nat × β)) (n : Nat) (v : β), l.lookup n = some v → (n, v) ∈ l
  | [], _, _, h => by simp at h
  | (a, b) :: r, n, v, h => by
    simp only [List.lookup] at h
    split at h
    · rename_i heq
      simp only [beq_iff_eq] at heq
      cases h; subst heq; simp
    · exact List.mem_cons_of_mem _ (lookup_mem r n v h)

theorem mem_codeOf (tr : TRef) (e : Event) (h : e ∈ codeOf song root tr) :
    e ∈ root ∨ ∃ t ∈ song.tracks, e ∈ t.2 := by
  cases tr with
  | root => exact Or.inl h
  | id n =>
    simp only [codeOf, Song.track?] at h
    cases hl : song.tracks.lookup n with
    | none => rw [hl] at h; simp at h
    | some evs =>
      rw [hl] at h
      exact Or.inr ⟨(n, evs), lookup_mem _ _ _ hl, h⟩

/-- every event of the channel's track and of every track of the song -/
def allEvents : List Event := root ++ song.tracks.flatMap (·.2)

theorem of_allEvents (P : Event → Prop) (h : ∀ e ∈ allEvents song root, P e) :
    ∀ tr e, e ∈ codeOf song root tr → P e := by
  intro tr e he
  rcases mem_codeOf song root tr e he with h1 | ⟨t, ht, h2⟩
  · exact h e (by simp [allEvents, h1])
  · exact h e (by simp only [allEvents, List.mem_append, List.mem_flatMap]; exact Or.inr ⟨t, ht, h2⟩)

theorem songNoEnd_of_all (h : ∀ e ∈ allEvents song root, e.kind ≠ .fin) : SongNoEnd song ∧ NoEnd root := by
  constructor
  · intro id evs hid e he
    have : e ∈ codeOf song root (.id id) := by simp [codeOf, hid, he]
    exact of_allEvents song root (fun e => e.kind ≠ .fin) h _ e this
  · intro e he
    exact h e (by simp [allEvents, he])

/-- past the end of the channel's track the control machine only moves on -/
theorem steps_past_end : ∀ (j p : Nat), root.length ≤ p →
    stepsCore song root j ⟨.root, p, []⟩ = .ok (⟨.root, p + j, []⟩, List.replicate j (.rootEnd endEvent))
  | 0, _, _ => rfl
  | j + 1, p, hp => by
    have hk : endEvent.kind = .fin := by decide
    have hnone : root[p]? = none := by simp [hp]
    have hs : coreStep song root ⟨.root, p, []⟩ = .ok (⟨.root, p + 1, []⟩, .rootEnd endEvent) := by
      simp [coreStep, fetch, codeOf, hnone, hk]
    simp only [stepsCore, hs, steps_past_end j (p + 1) (by omega), List.replicate_succ]
    congr 3; omega

/-- the end of the track is reached after one number of steps only -/
theorem run_length_unique (k k' : Nat) (c : Core) (outs outs' : List Out)
    (h : stepsCore song root k c = .ok (⟨.root, root.length, []⟩, outs))
    (h' : stepsCore song root k' c = .ok (⟨.root, root.length, []⟩, outs')) : k = k' := by
  have key : ∀ a b (oa ob : List Out), a < b → stepsCore song root a c = .ok (⟨.root, root.length, []⟩, oa) →
      stepsCore song root b c = .ok (⟨.root, root.length, []⟩, ob) → False := by
    intro a b oa ob hab ha hb
    obtain ⟨j, rfl⟩ : ∃ j, b = a + (j + 1) := ⟨b - a - 1, by omega⟩
    rw [stepsCore_add, ha] at hb
    simp only [steps_past_end song root (j + 1) root.length (Nat.le_refl _)] at hb
    simp only [Except.ok.injEq, Prod.mk.injEq, Core.mk.injEq] at hb
    omega
  rcases Nat.lt_trichotomy k k' with h1 | h1 | h1
  · exact (key k k' outs outs' h1 h h').elim
  · exact h1
  · exact (key k' k outs' outs h1 h' h).elim

/-- the step budget: one concrete run to the end of the track bounds them all -/
theorem fuel_of_run (k0 : Nat) (outs0 : List Out) (F : Nat)
    (h0 : stepsCore song root k0 ⟨.root, 0, []⟩ = .ok (⟨.root, root.length, []⟩, outs0)) (hk : 2 * k0 + 2 ≤ F) :
    ∀ k outs, stepsCore song root k ⟨.root, 0, []⟩ = .ok (⟨.root, root.length, []⟩, outs) → 2 * k + 2 ≤ F := by
  intro k outs h
  rw [run_length_unique song root k k0 _ outs outs0 h h0]; exact hk

end
end Ctrmml.TickStream
