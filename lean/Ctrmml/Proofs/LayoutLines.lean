/-
  Helper lemmas for C06 (no property statements here): whole lines and lists of lines —
  the header (track list) of a line, the dispatch of a continuation line to the remembered
  command, `parse_mml` over the track list, on top of `parse_toks` (Proofs/LayoutLine).
-/
import Ctrmml.Proofs.LayoutLine
import Ctrmml.Spec.Layout
namespace Ctrmml.Mml
open Ctrmml.Tables Ctrmml.Lexer Ctrmml.TrackBuilder
open Ctrmml.MmlMeaning (Num Dur Acc Cmd)
open Ctrmml.Layout (Addr)

/-! ### a non-empty separator satisfies every look-ahead condition -/

/-- the rest of a line starts with a blank, a tab, `|`, `;`, or is empty -/
def SepHead (T : List Nat) : Prop := T = [] ∨ ∃ c r, T = c :: r ∧ (c = 32 ∨ c = 9 ∨ c = 124 ∨ c = 59)

theorem numEnd_sepHead (base : Nat) (hb : base ≤ 16) (T : List Nat) (h : SepHead T) : NumEnd base T := by
  rcases h with rfl | ⟨c, r, rfl, hc⟩
  · exact ⟨fun c hc => by simp at hc, fun _ c hc => by simp at hc⟩
  · refine ⟨?_, ?_⟩
    · intro x hx
      simp at hx; subst hx
      unfold digitVal
      have h1 : ¬ (48 ≤ c ∧ c ≤ 57) := by omega
      have h2 : ¬ (97 ≤ c ∧ c ≤ 122) := by omega
      have h3 : ¬ (65 ≤ c ∧ c ≤ 90) := by omega
      simp only [h1, h2, h3, if_false]
      have : ¬ 99 < base := by omega
      simp [this]
    · intro _ x hx
      simp at hx; omega

theorem sepHead_head (T : List Nat) (h : SepHead T) (v : Nat) (hv : v ≠ 32 ∧ v ≠ 9 ∧ v ≠ 124 ∧ v ≠ 59) : T.head? ≠ some v := by
  rcases h with rfl | ⟨c, r, rfl, hc⟩
  · simp
  · simp; omega

theorem toks_sepHead (ts : List Tok) (e : List Nat) (hok : ToksOk ts e) (he : EndOk e)
    (hts : ∀ c ts', ts ≠ Tok.cmd c :: ts') : SepHead (toksText ts e) := by
  cases ts with
  | nil =>
    rcases he with rfl | ⟨r, rfl⟩
    · exact Or.inl rfl
    · exact Or.inr ⟨59, r, rfl, by omega⟩
  | cons t ts =>
    cases t with
    | blank b => exact Or.inr ⟨b, toksText ts e, rfl, by have := hok.1; omega⟩
    | bar => exact Or.inr ⟨124, toksText ts e, rfl, by omega⟩
    | cmd c => exact absurd rfl (hts c ts)

/-- behind any non-empty separator (or at the end of the line) the look-ahead condition of every
command holds -/
theorem cmdTail_of_sep (t : Track) (cmd : Cmd) (hn : LCmdNums t cmd) (ts : List Tok) (e : List Nat) (hok : ToksOk ts e)
    (hcov : ∀ c ∈ cmdsOf ts, LCovered c) (he : EndOk e) (hts : ∀ c ts', ts ≠ Tok.cmd c :: ts') :
    LCmdTail cmd (toksText ts e) := by
  have hsh := toks_sepHead ts e hok he hts
  have hb : ∀ n : Num, numBase n ≤ 16 := fun n => by unfold numBase; split <;> omega
  have h46 : (toksText ts e).head? ≠ some 46 := sepHead_head _ hsh 46 (by omega)
  have hdur : ∀ d : Dur, DurTail d (toksText ts e) := by
    intro d
    cases d with
    | dflt k =>
      cases k with
      | zero =>
        obtain ⟨bl, rest, h1, h2, h3, h4⟩ := toks_shape ts e hok hcov he.stopEnd
        have hns := toks_numSpan ts e hok hcov he.stopEnd
        refine ⟨by rw [hns], ?_, sepHead_head _ hsh 58 (by omega)⟩
        rw [hns, h1, ← h2]
        simp only [List.drop_left]
        rcases h4 with rfl | ⟨c, r, rfl, hc⟩
        · simp
        · have := (stop_props c hc).2.2.2.2.2.2.1
          simp; exact this
      | succ k => exact h46
    | len n k =>
      cases k with
      | zero => exact ⟨numEnd_sepHead _ (hb n) _ hsh, h46⟩
      | succ k => exact h46
    | frames n k =>
      cases k with
      | zero => exact ⟨numEnd_sepHead _ (hb n) _ hsh, h46⟩
      | succ k => exact h46
  have hhead : ∀ d : Dur, DurNums d →
      (d.bytes ++ toksText ts e).head? ≠ some 43 ∧ (d.bytes ++ toksText ts e).head? ≠ some 45 ∧ (d.bytes ++ toksText ts e).head? ≠ some 61 := by
    intro d hd
    cases d with
    | dflt k =>
      cases k with
      | zero =>
        simp only [Dur.bytes, MmlMeaning.dotsBytes, List.replicate_zero, List.nil_append]
        exact ⟨sepHead_head _ hsh 43 (by omega), sepHead_head _ hsh 45 (by omega), sepHead_head _ hsh 61 (by omega)⟩
      | succ k => simp [Dur.bytes, MmlMeaning.dotsBytes, List.replicate_succ]
    | len n k =>
      obtain ⟨c, r, hcr, hc⟩ := num_bytes_head_nonneg n (by have := hd.2; omega)
      simp only [Dur.bytes, hcr, List.cons_append, List.head?_cons, ne_eq, Option.some.injEq]
      omega
    | frames n k => simp [Dur.bytes]
  cases cmd with
  | note l a d => exact ⟨hdur d, fun _ => hhead d hn⟩
  | rest d => exact hdur d
  | tie d => exact hdur d
  | length d => exact hdur d
  | octave n => exact numEnd_sepHead _ (hb n) _ hsh
  | quantize n => exact numEnd_sepHead _ (hb n) _ hsh
  | early n => exact numEnd_sepHead _ (hb n) _ hsh
  | measure n => exact numEnd_sepHead _ (hb n) _ hsh
  | shuffle n => exact numEnd_sepHead _ (hb n) _ hsh
  | drum n => exact numEnd_sepHead _ (hb n) _ hsh
  | revRest d => exact hdur d
  | grace l a d => exact ⟨hdur d, fun _ => hhead d hn.1⟩
  | simple sm n =>
    cases n with
    | some n => exact numEnd_sepHead _ (hb n) _ hsh
    | none =>
      have hns := toks_numSpan ts e hok hcov he.stopEnd
      cases sm <;> first | trivial | (show (numSpan (toksText ts e)).1 = none; rw [hns])
  | _ => trivial

/-! ### track addresses -/

def addrBytes : Addr → List Nat
  | .letter k => [65 + k]
  | .digit d => [48 + d]
  | .star n => 42 :: Num.bytes { v := (n : Int) }

/-- a letter `A`..`Z`, a digit, or `*n` with `n` an `int` -/
def AddrOk : Addr → Prop
  | .letter k => k < 26
  | .digit d => d < 10
  | .star n => n < 2147483648

/-- the value `get_track_id()` returns -/
def addrInt : Addr → Int
  | .letter k => k
  | .digit d => (d : Int) + 26
  | .star n => n

theorem wrapU16_addrInt (a : Addr) (h : AddrOk a) : wrapU16 (addrInt a) = a.id := by
  cases a with
  | letter k => simp only [addrInt, Addr.id, wrapU16]; have : k < 26 := h; omega
  | digit d => simp only [addrInt, Addr.id, wrapU16]; have : d < 10 := h; omega
  | star n => simp only [addrInt, Addr.id, wrapU16]; omega

theorem addrInt_ne (a : Addr) : addrInt a ≠ -1 := by
  cases a <;> simp only [addrInt] <;> omega

def headerBytes (as : List Addr) : List Nat := as.flatMap addrBytes

/-- every address is valid, and `*n` is not directly followed by a digit address (it would be read
as part of the number) -/
def HeaderOk : List Addr → Prop
  | [] => True
  | a :: as => AddrOk a ∧ (∀ n, a = .star n → ∀ d, as.head? ≠ some (.digit d)) ∧ HeaderOk as

theorem getTrackId_letter (s : MmlState) (k : Nat) (hk : k < 26) (r : List Nat) (h : suffix s = (65 + k) :: r) :
    getTrackId s = .ok (k : Int) (adv s 1) := by
  unfold getTrackId
  rw [bind_ok (getC_cons s _ r h), schar_small _ (by omega)]
  have : (decide ((65 : Int) ≤ ((65 + k : Nat) : Int)) && decide (((65 + k : Nat) : Int) ≤ 90)) = true := by
    simp; omega
  simp only [this, if_true]
  have e : (((65 + k : Nat) : Int) - 65) = (k : Int) := by omega
  rw [e]; rfl

theorem getTrackId_digit (s : MmlState) (d : Nat) (hd : d < 10) (r : List Nat) (h : suffix s = (48 + d) :: r) :
    getTrackId s = .ok ((d : Int) + 26) (adv s 1) := by
  unfold getTrackId
  rw [bind_ok (getC_cons s _ r h), schar_small _ (by omega)]
  have h65 : (decide ((65 : Int) ≤ ((48 + d : Nat) : Int)) && decide (((48 + d : Nat) : Int) ≤ 90)) = false := by
    simp; omega
  have hdg : isDigit ((48 + d : Nat) : Int) = true := by unfold isDigit; simp; omega
  simp only [h65, hdg, if_true, Bool.false_eq_true, if_false]
  have e : (((48 + d : Nat) : Int) - 48 + mmlDigitTrackBase) = (d : Int) + 26 := by
    have : mmlDigitTrackBase = 26 := by decide
    rw [this]; omega
  rw [e]; rfl

theorem getTrackId_star (s : MmlState) (hs : Sane s) (n : Nat) (hn : n < 2147483648) (r : List Nat)
    (h : suffix s = 42 :: (Num.bytes { v := (n : Int) } ++ r)) (hend : NumEnd 10 r) :
    getTrackId s = .ok (n : Int) (adv s (1 + (Num.bytes { v := (n : Int) }).length)) := by
  have hs1 : Sane (adv s 1) := sane_adv s hs 1 (by rw [h]; simp)
  have hsuf1 : suffix (adv s 1) = Num.bytes { v := (n : Int) } ++ r := by rw [suffix_adv, h]; rfl
  unfold getTrackId
  rw [bind_ok (getC_cons s 42 _ h)]
  have h42 : schar 42 = 42 := by decide
  rw [h42]
  simp only [show (decide ((65 : Int) ≤ 42) && decide ((42 : Int) ≤ 90)) = false by decide, show isDigit (42 : Int) = false by decide,
    show ((42 : Int) == 42) = true by decide, if_true, Bool.false_eq_true, if_false]
  rw [bind_ok (getNumC_spec (adv s 1) hs1), hsuf1,
    numSpan_render { v := (n : Int) } r (by simp only []; omega) (by simp only []; omega) (by simpa using hend)]
  simp only [adv_adv]
  rfl

/-- a byte that is no track address -/
def NotAddr (c : Nat) : Prop := ¬ (65 ≤ c ∧ c ≤ 90) ∧ ¬ (48 ≤ c ∧ c ≤ 57) ∧ c ≠ 42 ∧ c < 128

theorem getTrackId_none (s : MmlState) (hs : Sane s) (c : Nat) (r : List Nat) (h : suffix s = c :: r) (hc : NotAddr c) :
    getTrackId s = .ok (-1) s := by
  obtain ⟨h1, h2, h3, h4⟩ := hc
  unfold getTrackId
  rw [bind_ok (getC_cons s c r h)]
  have e := schar_small c h4
  have h65 : (decide ((65 : Int) ≤ schar c) && decide (schar c ≤ 90)) = false := by rw [e]; simp; omega
  have hdg : isDigit (schar c) = false := by rw [e]; unfold isDigit; simp; omega
  have h42 : (schar c == 42) = false := by rw [e]; simp; omega
  simp only [h65, hdg, h42, Bool.false_eq_true, if_false]
  rw [bind_ok (ungetC_same s hs.bytes c r h)]
  rfl

theorem getTrackId_eol (s : MmlState) (h : suffix s = []) : getTrackId s = .ok (-1) s := by
  unfold getTrackId
  rw [bind_ok (getC_nil s h)]
  simp only [show (decide ((65 : Int) ≤ 0) && decide ((0 : Int) ≤ 90)) = false by decide, show isDigit (0 : Int) = false by decide,
    show ((0 : Int) == 42) = false by decide, Bool.false_eq_true, if_false]
  rw [bind_ok (ungetC_zero s)]
  rfl

theorem addrBytes_head (a : Addr) (h : AddrOk a) : ∃ c r, addrBytes a = c :: r ∧ ((65 ≤ c ∧ c ≤ 90) ∨ (48 ≤ c ∧ c ≤ 57) ∨ c = 42) ∧
    ((48 ≤ c ∧ c ≤ 57) → ∃ d, a = .digit d) := by
  cases a with
  | letter k => exact ⟨65 + k, [], rfl, Or.inl (by have : k < 26 := h; omega), fun hh => by have : k < 26 := h; omega⟩
  | digit d => exact ⟨48 + d, [], rfl, Or.inr (Or.inl (by have : d < 10 := h; omega)), fun _ => ⟨d, rfl⟩⟩
  | star n => exact ⟨42, _, rfl, Or.inr (Or.inr rfl), fun hh => by omega⟩

theorem numEnd10_of_head (l : List Nat) (h : ∀ c, l.head? = some c → ¬ (48 ≤ c ∧ c ≤ 57)) : NumEnd 10 l := by
  refine ⟨?_, fun hb => by omega⟩
  intro c hc
  have := h c hc
  unfold digitVal
  simp only [this, if_false]
  split
  · have : ¬ c - 87 < 10 := by omega
    simp [this]
  · split
    · have : ¬ c - 55 < 10 := by omega
      simp [this]
    · simp

/-- one address of a header, whatever valid header (or a blank) follows -/
theorem getTrackId_addr (s : MmlState) (hs : Sane s) (a : Addr) (as : List Addr) (b : Nat) (r : List Nat)
    (hb : b = 32 ∨ b = 9) (hok : HeaderOk (a :: as)) (h : suffix s = addrBytes a ++ (headerBytes as ++ b :: r)) :
    getTrackId s = .ok (addrInt a) (adv s (addrBytes a).length) := by
  cases a with
  | letter k => exact getTrackId_letter s k hok.1 _ h
  | digit d => exact getTrackId_digit s d hok.1 _ h
  | star n =>
    have hend : NumEnd 10 (headerBytes as ++ b :: r) := by
      apply numEnd10_of_head
      intro c hc
      cases as with
      | nil => simp [headerBytes] at hc; omega
      | cons a2 as' =>
        obtain ⟨c2, r2, h2, _, hd⟩ := addrBytes_head a2 hok.2.2.1
        simp [headerBytes, h2] at hc
        subst hc
        intro hdig
        obtain ⟨d, hd'⟩ := hd hdig
        exact hok.2.1 n rfl d (by simp [hd'])
    have := getTrackId_star s hs n hok.1 _ (by simpa [addrBytes] using h) hend
    simpa [addrBytes, addrInt, Nat.add_comm] using this

theorem headerBytes_cons (a : Addr) (as : List Addr) : headerBytes (a :: as) = addrBytes a ++ headerBytes as := by
  simp [headerBytes]

theorem addrBytes_length (a : Addr) : 1 ≤ (addrBytes a).length := by
  cases a <;> simp [addrBytes]

theorem headerBytes_length (as : List Addr) : as.length ≤ (headerBytes as).length := by
  induction as with
  | nil => simp
  | cons a as ih => rw [headerBytes_cons]; have := addrBytes_length a; simp; omega

/-- the `do … while` loop over the rest of a header: every address read is appended -/
theorem trackListLoop_header : ∀ (as : List Addr) (fuel : Nat) (c : Int) (acc : List Nat) (s : MmlState), Sane s →
    ∀ (b : Nat) (r : List Nat), (b = 32 ∨ b = 9) → HeaderOk as → suffix s = headerBytes as ++ b :: r → as.length + 1 ≤ fuel →
    trackListLoop fuel c acc s = .ok (acc ++ [wrapU16 c] ++ as.map Addr.id) (adv s (headerBytes as).length) := by
  intro as
  induction as with
  | nil =>
    intro fuel c acc s hs b r hb _ hsuf hf
    obtain ⟨f', rfl⟩ : ∃ f', fuel = f' + 1 := ⟨fuel - 1, by omega⟩
    have hsuf' : suffix s = b :: r := by simpa [headerBytes] using hsuf
    unfold trackListLoop
    rw [bind_ok (getTrackId_none s hs b r hsuf' (by unfold NotAddr; omega))]
    simp [headerBytes, adv_zero]
    rfl
  | cons a as ih =>
    intro fuel c acc s hs b r hb hok hsuf hf
    obtain ⟨f', rfl⟩ : ∃ f', fuel = f' + 1 := ⟨fuel - 1, by omega⟩
    have hsuf' : suffix s = addrBytes a ++ (headerBytes as ++ b :: r) := by
      rw [hsuf, headerBytes_cons]; simp
    have hget := getTrackId_addr s hs a as b r hb hok hsuf'
    have hs1 : Sane (adv s (addrBytes a).length) := sane_adv s hs _ (by rw [hsuf']; simp)
    have hsuf1 : suffix (adv s (addrBytes a).length) = headerBytes as ++ b :: r := suffix_adv_append s _ _ hsuf'
    unfold trackListLoop
    rw [bind_ok hget]
    have hne : (addrInt a != -1) = true := by simpa using addrInt_ne a
    simp only [hne, if_true]
    rw [ih f' (addrInt a) (acc ++ [wrapU16 c]) _ hs1 b r hb hok.2.2 hsuf1 (by simp at hf; omega)]
    rw [wrapU16_addrInt a hok.1, adv_adv, headerBytes_cons]
    simp

/-! ### `parse_mml`: the body of a line, once per listed track -/

/-- track `a` of the song as `make_track(a)` would hand it out -/
def trackOf (a : Nat) (s : MmlState) : Track := (s.song.tracks.lookup a).getD (Track.new s.song.ppqn)

theorem trackOf_congr (a : Nat) (s s' : MmlState) (h1 : s'.song.tracks.lookup a = s.song.tracks.lookup a)
    (h2 : s'.song.ppqn = s.song.ppqn) : trackOf a s' = trackOf a s := by
  unfold trackOf; rw [h1, h2]

theorem makeTrack_lookup (sg : SongB) (id : Nat) :
    (sg.makeTrack id).tracks.lookup id = some ((sg.tracks.lookup id).getD (Track.new sg.ppqn)) ∧ (sg.makeTrack id).ppqn = sg.ppqn := by
  unfold SongB.makeTrack
  cases h : sg.tracks.lookup id with
  | some t => simp [h]
  | none => simp [lookup_insertTrack]

/-- what `parse_mml` leaves alone -/
structure LoopKeeps (s s' : MmlState) : Prop where
  trackList : s'.trackList = s.trackList
  lastCmd : s'.lastCmd = s.lastCmd
  ppqn : s'.song.ppqn = s.song.ppqn
  line : s'.inp.line = s.inp.line
  buf : s'.inp.lb.buf = s.inp.lb.buf

theorem LoopKeeps.refl (s : MmlState) : LoopKeeps s s := ⟨rfl, rfl, rfl, rfl, rfl⟩
theorem LoopKeeps.trans {a b c : MmlState} (h1 : LoopKeeps a b) (h2 : LoopKeeps b c) : LoopKeeps a c :=
  ⟨h2.trackList.trans h1.trackList, h2.lastCmd.trans h1.lastCmd, h2.ppqn.trans h1.ppqn, h2.line.trans h1.line, h2.buf.trans h1.buf⟩

/-- the `for` loop of `parse_mml` over distinct tracks, the column range holding a layout of a
covered command list: every listed track receives the builder calls of the list, no other track
changes -/
theorem parseMmlLoop_toks (ts : List Tok) (e : List Nat) (col : Nat) (he : EndOk e) (hok : ToksOk ts e) :
    ∀ (ids : List Nat) (i : Nat) (s : MmlState), Bytes s.inp.lb.buf → col ≤ s.inp.lb.buf.length →
    s.inp.lb.buf.drop col = toksText ts e → ids.Nodup → (∀ id ∈ ids, CmdsOk (trackOf id s).strip (cmdsOf ts)) →
    ∃ s', parseMmlLoop col i ids s = .ok () s' ∧ LoopKeeps s s' ∧
      (∀ id ∈ ids, (trackOf id s').strip = runCmds (trackOf id s).strip (cmdsOf ts)) ∧
      (∀ b, b ∉ ids → s'.song.tracks.lookup b = s.song.tracks.lookup b) := by
  intro ids
  induction ids with
  | nil => intro i s _ _ _ _ _; exact ⟨s, rfl, LoopKeeps.refl s, fun id h => by simp at h, fun _ _ => rfl⟩
  | cons id rest ih =>
    intro i s hbytes hcol hdrop hnd hcmds
    obtain ⟨s1, hs1⟩ : ∃ s1 : MmlState, s1 = { setLb s (s.inp.lb.seek col) with trackId := id, trackOffset := i % 65536, song := (setLb s (s.inp.lb.seek col)).song.makeTrack id, conditionalBlock := false } := ⟨_, rfl⟩
    have hsane1 : Sane s1 := by rw [hs1]; exact ⟨hbytes, hcol⟩
    have hsuf1 : suffix s1 = toksText ts e := by rw [hs1]; exact hdrop
    have hmk := makeTrack_lookup s.song id
    have hgt1 : getTrack s1 = trackOf id s := by
      rw [hs1]; unfold getTrack trackOf
      show (List.lookup id (s.song.makeTrack id).tracks).getD (Track.new (s.song.makeTrack id).ppqn) = _
      rw [hmk.1, hmk.2]; rfl
    have hfuel : (toksText ts e).length + 1 ≤ trackFuel s1 := by
      have h1 := suffix_length s1
      rw [hsuf1] at h1
      unfold trackFuel
      have := hsane1.inl
      omega
    obtain ⟨s2, hp, hmv, hres⟩ := parse_toks ts.length ts (Nat.le_refl _) e (trackFuel s1) s1 hsane1 he hsuf1 hok
      (by rw [hgt1]; exact hcmds id (by simp)) hfuel
    have hctl := hmv.ctl
    have hpt : parseMmlTrack s1 = .ok () s2 := by
      unfold parseMmlTrack; rw [bind_ok (getS_run s1)]; exact hp
    have hcond : s2.conditionalBlock = false := by rw [hctl.cond, hs1]
    have hid1 : s1.trackId = id := by rw [hs1]
    have hlk12 : ∀ b, b ≠ id → s2.song.tracks.lookup b = s.song.tracks.lookup b := by
      intro b hb
      rw [hctl.others b (by rw [hid1]; exact hb), hs1]
      exact lookup_makeTrack_ne b id s.song hb
    have hppqn2 : s2.song.ppqn = s.song.ppqn := by rw [hctl.ppqn, hs1]; exact hmk.2
    have hkeep2 : LoopKeeps s s2 := ⟨hctl.trackList.trans (by subst hs1; rfl), hctl.lastCmd.trans (by subst hs1; rfl), hppqn2,
      hctl.line.trans (by subst hs1; rfl), hctl.buf.trans (by subst hs1; rfl)⟩
    have hnd' := List.nodup_cons.mp hnd
    obtain ⟨s', hloop, hkeep, hall, hfr⟩ := ih (i + 1) s2 (by rw [hkeep2.buf]; exact hbytes) (by rw [hkeep2.buf]; exact hcol)
      (by rw [hkeep2.buf]; exact hdrop) hnd'.2
      (fun id' hid' => by
        have hne : id' ≠ id := fun e => hnd'.1 (e ▸ hid')
        rw [trackOf_congr id' s s2 (hlk12 id' hne) hppqn2]
        exact hcmds id' (by simp [hid']))
    refine ⟨s', ?_, hkeep2.trans hkeep, ?_, ?_⟩
    · rw [parseMmlLoop_cons, ← hs1, hpt]
      simp only [hcond, Bool.false_eq_true, if_false]
      exact hloop
    · intro x hx
      simp at hx
      rcases hx with rfl | hx
      · rw [trackOf_congr x s2 s' (hfr x hnd'.1) hkeep.ppqn]
        have : trackOf x s2 = getTrack s2 := by unfold trackOf getTrack; rw [hctl.trackId, hid1]
        rw [this, hres, hgt1]
      · have hne : x ≠ id := fun e => hnd'.1 (e ▸ hx)
        rw [hall x hx, trackOf_congr x s s2 (hlk12 x hne) hppqn2]
    · intro b hb
      simp at hb
      rw [hfr b hb.2, hlk12 b hb.1]

/-! ### the tail of `parse_line`: dispatch to the remembered command -/

/-- the last statement of `parse_line` (`if continue? …`) -/
def lineTail : P Unit := do
  let c ← getC
  if isBlank c then do
    let c ← getTokenC
    ungetC c
    if c == 0 then pure ()
    else runLastCmd

theorem countBlanks_shape (bl rest : List Nat) (hbl : ∀ b ∈ bl, b = 32 ∨ b = 9)
    (hr : rest = [] ∨ ∃ c r, rest = c :: r ∧ Stop c) : LineBuffer.countBlanks (bl ++ rest) = bl.length := by
  have hcb0 : LineBuffer.countBlanks rest = 0 := by
    rcases hr with rfl | ⟨c, r, rfl, hc⟩
    · rfl
    · simp [LineBuffer.countBlanks, not_blank_of_range c (stop_props c hc).1]
  rw [countBlanks_append bl rest (fun b hb => blank_isBlank b (hbl b hb)), hcb0]; rfl

/-- behind the header (or at the start of a continuation line) one blank is required; then the
blanks are skipped and, unless the line ends there, `parse_mml` runs from the first other byte -/
theorem lineTail_toks (s : MmlState) (hs : Sane s) (b : Nat) (hb : b = 32 ∨ b = 9) (ts : List Tok) (e : List Nat)
    (hok : ToksOk ts e) (hcov : ∀ c ∈ cmdsOf ts, LCovered c) (he : EndOk e)
    (hsuf : suffix s = b :: toksText ts e) (hl : s.lastCmd = .parseMml) :
    lineTail s =
      if toksText (ts.drop (leadBlanks ts)) e = [] then .ok () (adv s (1 + leadBlanks ts))
      else parseMmlLoop (s.inp.lb.column + (1 + leadBlanks ts)) 0 s.trackList (adv s (1 + leadBlanks ts)) := by
  obtain ⟨bl, rest, h1, h2, h3, h4⟩ := toks_shape ts e hok hcov he.stopEnd
  have hrest : toksText (ts.drop (leadBlanks ts)) e = rest := by
    rw [← (toks_drop_lead ts e (leadBlanks ts) (Nat.le_refl _)).1, h1, ← h2]; simp
  have hs1 : Sane (adv s 1) := sane_adv s hs 1 (by rw [hsuf]; simp)
  have hsuf1 : suffix (adv s 1) = bl ++ rest := by rw [suffix_adv, hsuf, ← h1]; rfl
  have hs2 : Sane (adv (adv s 1) bl.length) := sane_adv _ hs1 _ (by rw [hsuf1]; simp)
  have hsuf2 : suffix (adv (adv s 1) bl.length) = rest := suffix_adv_append _ _ _ hsuf1
  unfold lineTail
  rw [bind_ok (getC_cons s b _ hsuf)]
  simp only [blank_isBlank b hb, if_true]
  rw [bind_apply, getTokenC_eq, hsuf1, countBlanks_shape bl rest h3 h4, hrest, ← h2]
  rcases h4 with rfl | ⟨c, r, rfl, hc⟩
  · rw [getC_nil _ hsuf2]
    simp only []
    rw [bind_ok (ungetC_zero _)]
    simp only [adv_adv]
    rfl
  · have hrg := (stop_props c hc).1
    rw [getC_cons _ c r hsuf2]
    simp only []
    rw [bind_ok (ungetC_same _ hs2.bytes c r hsuf2), schar_small c hrg.2]
    have hc0 : ((c : Int) == 0) = false := by
      have : ¬ ((c : Int) = 0) := by omega
      simpa using this
    simp only [hc0, Bool.false_eq_true, if_false, reduceCtorEq]
    unfold runLastCmd
    rw [bind_ok (getS_run _)]
    simp only [adv_adv]
    have hl2 : (adv s (1 + bl.length)).lastCmd = .parseMml := hl
    simp only [hl2]
    rfl

/-! ### whole lines -/

/-- the result of a line (or of several) for the tracks `ids` and the command list `cmds` -/
structure LineRes (ids : List Nat) (cmds : List Cmd) (s s' : MmlState) : Prop where
  tracks : ∀ id ∈ ids, (trackOf id s').strip = runCmds (trackOf id s).strip cmds
  others : ∀ b, b ∉ ids → s'.song.tracks.lookup b = s.song.tracks.lookup b
  ppqn : s'.song.ppqn = s.song.ppqn

theorem LineRes.trans {ids : List Nat} {c1 c2 : List Cmd} {s1 s2 s3 : MmlState}
    (h1 : LineRes ids c1 s1 s2) (h2 : LineRes ids c2 s2 s3) : LineRes ids (c1 ++ c2) s1 s3 :=
  ⟨fun id hid => by rw [h2.tracks id hid, h1.tracks id hid, runCmds_append],
   fun b hb => (h2.others b hb).trans (h1.others b hb), h2.ppqn.trans h1.ppqn⟩

/-- the state a continuation line needs: the remembered track list and command -/
def Ready (ids : List Nat) (s : MmlState) : Prop := s.trackList = ids ∧ s.lastCmd = .parseMml

theorem toksText_nil_cmds (ts : List Tok) (e : List Nat) (h : toksText ts e = []) (hcov : ∀ c ∈ cmdsOf ts, LCovered c) :
    cmdsOf ts = [] := by
  cases ts with
  | nil => rfl
  | cons t ts =>
    cases t with
    | blank b => simp [toksText, Tok.bytes] at h
    | bar => simp [toksText, Tok.bytes] at h
    | cmd c =>
      obtain ⟨ch, r, hcr, _⟩ := lcovered_head c (hcov c (by simp [cmdsOf]))
      simp [toksText, Tok.bytes, hcr] at h

/-- from the blank behind the header (or at the start of a continuation line) to the end of the line -/
theorem lineTail_run (ids : List Nat) (s : MmlState) (hs : Sane s) (b : Nat) (hb : b = 32 ∨ b = 9) (ts : List Tok) (e : List Nat)
    (hok : ToksOk ts e) (he : EndOk e) (hsuf : suffix s = b :: toksText ts e) (hready : Ready ids s) (hnd : ids.Nodup)
    (hcmds : ∀ id ∈ ids, CmdsOk (trackOf id s).strip (cmdsOf ts)) (hne : ids ≠ []) :
    ∃ s', lineTail s = .ok () s' ∧ LineRes ids (cmdsOf ts) s s' ∧ Ready ids s' := by
  obtain ⟨id0, hid0⟩ : ∃ id0, id0 ∈ ids := by
    cases ids with
    | nil => exact absurd rfl hne
    | cons a _ => exact ⟨a, by simp⟩
  have hcov : ∀ c ∈ cmdsOf ts, LCovered c := cmdsOk_covered _ _ (hcmds id0 hid0)
  obtain ⟨hdrop, hcd⟩ := toks_drop_lead ts e (leadBlanks ts) (Nat.le_refl _)
  rw [lineTail_toks s hs b hb ts e hok hcov he hsuf hready.2]
  by_cases hnil : toksText (ts.drop (leadBlanks ts)) e = []
  · simp only [hnil, if_true]
    have hc0 : cmdsOf ts = [] := by rw [← hcd]; exact toksText_nil_cmds _ e hnil (by rw [hcd]; exact hcov)
    refine ⟨_, rfl, ⟨fun id _ => by rw [hc0]; rfl, fun _ _ => rfl, rfl⟩, hready⟩
  · simp only [hnil, if_false]
    have hle := leadBlanks_le ts e
    have hs4 : Sane (adv s (1 + leadBlanks ts)) := sane_adv s hs _ (by rw [hsuf]; simp; omega)
    have hsuf4 : suffix (adv s (1 + leadBlanks ts)) = toksText (ts.drop (leadBlanks ts)) e := by
      rw [suffix_adv, hsuf, ← hdrop, Nat.add_comm]; rfl
    obtain ⟨s', hp, hkeep, hall, hfr⟩ := parseMmlLoop_toks (ts.drop (leadBlanks ts)) e (s.inp.lb.column + (1 + leadBlanks ts)) he
      (toksOk_drop ts e hok _) s.trackList 0 (adv s (1 + leadBlanks ts)) hs4.bytes hs4.inl hsuf4
      (by rw [hready.1]; exact hnd) (by rw [hready.1, hcd]; exact hcmds)
    rw [hready.1, hcd] at hall
    rw [hready.1] at hfr
    exact ⟨s', hp, ⟨hall, hfr, hkeep.ppqn⟩, ⟨hkeep.trackList.trans hready.1, hkeep.lastCmd.trans hready.2⟩⟩

theorem parseLine_hdr (s0 : MmlState) (c : Int) (s1 : MmlState) (l : List Nat) (s2 : MmlState)
    (h1 : getTrackId s0 = .ok c s1) (hc : c ≠ -1) (h2 : trackListLoop (s1.inp.lb.buf.length + 2) c [] s1 = .ok l s2) :
    parseLine s0 = lineTail { s2 with trackList := l, lastCmd := .parseMml } := by
  have hc' : (c != -1) = true := by simpa using hc
  unfold parseLine
  rw [bind_ok h1]
  simp only [hc', if_true]
  rw [bind_ok (getS_run s1), bind_ok h2]
  rfl

theorem parseLine_cont (s0 : MmlState) (hs : Sane s0) (b : Nat) (r : List Nat) (hsuf : suffix s0 = b :: r) (hb : b = 32 ∨ b = 9) :
    parseLine s0 = lineTail s0 := by
  have hna : NotAddr b := by unfold NotAddr; omega
  have e := schar_small b (by omega)
  have h35 : (schar b == 35 || schar b == 64) = false := by rw [e]; simp; omega
  have h59 : (schar b == 59) = false := by rw [e]; simp; omega
  unfold parseLine
  rw [bind_ok (getTrackId_none s0 hs b r hsuf hna)]
  simp only [show (((-1 : Int)) != -1) = false by decide, Bool.false_eq_true, if_false]
  rw [bind_ok (getC_cons s0 b r hsuf)]
  simp only [h35, h59, blank_isBlank b hb, Bool.not_true, Bool.false_eq_true, if_false]
  rw [bind_ok (ungetC_same s0 hs.bytes b r hsuf)]
  rfl

/-- the lines of a layout -/
inductive LLine
  /-- track list, one blank, body -/
  | hdr (as : List Addr) (b : Nat) (ts : List Tok) (e : List Nat)
  /-- continuation line: starts with a blank -/
  | cont (b : Nat) (ts : List Tok) (e : List Nat)
  | empty
  /-- a line that starts with `;` -/
  | comment (r : List Nat)

def LLine.text : LLine → List Nat
  | .hdr as b ts e => headerBytes as ++ b :: toksText ts e
  | .cont b ts e => b :: toksText ts e
  | .empty => []
  | .comment r => 59 :: r

def LLine.cmds : LLine → List Cmd
  | .hdr _ _ ts _ => cmdsOf ts
  | .cont _ ts _ => cmdsOf ts
  | _ => []

def LLine.isHdr : LLine → Bool
  | .hdr .. => true
  | _ => false

def LLine.isCont : LLine → Bool
  | .cont .. => true
  | _ => false

/-- a well-formed line addressed to the tracks `ids` -/
def LineOk (ids : List Nat) : LLine → Prop
  | .hdr as b ts e => as ≠ [] ∧ HeaderOk as ∧ as.map Addr.id = ids ∧ (b = 32 ∨ b = 9) ∧ ToksOk ts e ∧ EndOk e ∧
      Bytes (headerBytes as ++ b :: toksText ts e)
  | .cont b ts e => (b = 32 ∨ b = 9) ∧ ToksOk ts e ∧ EndOk e ∧ Bytes (b :: toksText ts e)
  | .empty => True
  | .comment _ => True

theorem readLine_start (text : List Nat) (n : Nat) (s : MmlState) :
    readLine text n s = parseLine { s with inp := { lb := { buf := text, column := 0 }, line := n } } := rfl

theorem readLine_hdr (ids : List Nat) (as : List Addr) (b : Nat) (ts : List Tok) (e : List Nat) (n : Nat) (s : MmlState)
    (hok : LineOk ids (.hdr as b ts e)) (hnd : ids.Nodup) (hcmds : ∀ id ∈ ids, CmdsOk (trackOf id s).strip (cmdsOf ts)) :
    ∃ s', readLine (LLine.hdr as b ts e).text n s = .ok () s' ∧ LineRes ids (cmdsOf ts) s s' ∧ Ready ids s' := by
  obtain ⟨hne, hhdr, hids, hb, htoks, he, hbytes⟩ := hok
  obtain ⟨s0, hs0⟩ : ∃ s0 : MmlState, s0 = { s with inp := { lb := { buf := headerBytes as ++ b :: toksText ts e, column := 0 }, line := n } } := ⟨_, rfl⟩
  have hsane0 : Sane s0 := by rw [hs0]; exact ⟨hbytes, Nat.zero_le _⟩
  cases as with
  | nil => exact absurd rfl hne
  | cons a as' =>
    have hsuf0 : suffix s0 = addrBytes a ++ (headerBytes as' ++ b :: toksText ts e) := by
      rw [hs0, headerBytes_cons]; simp [suffix]
    have hget := getTrackId_addr s0 hsane0 a as' b _ hb hhdr hsuf0
    obtain ⟨s1, hs1⟩ : ∃ s1, s1 = adv s0 (addrBytes a).length := ⟨_, rfl⟩
    rw [← hs1] at hget
    have hsane1 : Sane s1 := by rw [hs1]; exact sane_adv s0 hsane0 _ (by rw [hsuf0]; simp)
    have hsuf1 : suffix s1 = headerBytes as' ++ b :: toksText ts e := by rw [hs1]; exact suffix_adv_append s0 _ _ hsuf0
    have hfuel : as'.length + 1 ≤ s1.inp.lb.buf.length + 2 := by
      have h1 := suffix_length s1
      rw [hsuf1] at h1
      have := headerBytes_length as'
      simp at h1; omega
    have hloop := trackListLoop_header as' (s1.inp.lb.buf.length + 2) (addrInt a) [] s1 hsane1 b _ hb hhdr.2.2 hsuf1 hfuel
    obtain ⟨s2, hs2⟩ : ∃ s2, s2 = adv s1 (headerBytes as').length := ⟨_, rfl⟩
    rw [← hs2] at hloop
    have hl : [] ++ [wrapU16 (addrInt a)] ++ as'.map Addr.id = ids := by
      rw [wrapU16_addrInt a hhdr.1, ← hids]; rfl
    rw [hl] at hloop
    obtain ⟨s3, hs3⟩ : ∃ s3 : MmlState, s3 = { s2 with trackList := ids, lastCmd := .parseMml } := ⟨_, rfl⟩
    have hpl : parseLine s0 = lineTail s3 := by rw [hs3]; exact parseLine_hdr s0 _ s1 ids s2 hget (addrInt_ne a) hloop
    have hsane2 : Sane s2 := by rw [hs2]; exact sane_adv s1 hsane1 _ (by rw [hsuf1]; simp)
    have hsuf2 : suffix s2 = b :: toksText ts e := by rw [hs2]; exact suffix_adv_append s1 _ _ hsuf1
    have hsane3 : Sane s3 := by rw [hs3]; exact ⟨hsane2.bytes, hsane2.inl⟩
    have hsuf3 : suffix s3 = b :: toksText ts e := by rw [hs3]; exact hsuf2
    have htr : ∀ id, trackOf id s3 = trackOf id s := by intro id; subst hs3 hs2 hs1 hs0; rfl
    have hne' : ids ≠ [] := by rw [← hids]; simp
    obtain ⟨s', hrun, hres, hready⟩ := lineTail_run ids s3 hsane3 b hb ts e htoks he hsuf3 (by rw [hs3]; exact ⟨rfl, rfl⟩) hnd
      (fun id hid => by rw [htr id]; exact hcmds id hid) hne'
    refine ⟨s', ?_, ⟨fun id hid => by rw [hres.tracks id hid, htr id], fun b' hb' => ?_, ?_⟩, hready⟩
    · show readLine (headerBytes (a :: as') ++ b :: toksText ts e) n s = _
      rw [readLine_start, ← hs0, hpl]; exact hrun
    · rw [hres.others b' hb']; subst hs3 hs2 hs1 hs0; rfl
    · rw [hres.ppqn]; subst hs3 hs2 hs1 hs0; rfl

theorem readLine_cont (ids : List Nat) (b : Nat) (ts : List Tok) (e : List Nat) (n : Nat) (s : MmlState)
    (hok : LineOk ids (.cont b ts e)) (hready : Ready ids s) (hnd : ids.Nodup) (hne : ids ≠ [])
    (hcmds : ∀ id ∈ ids, CmdsOk (trackOf id s).strip (cmdsOf ts)) :
    ∃ s', readLine (LLine.cont b ts e).text n s = .ok () s' ∧ LineRes ids (cmdsOf ts) s s' ∧ Ready ids s' := by
  obtain ⟨hb, htoks, he, hbytes⟩ := hok
  obtain ⟨s0, hs0⟩ : ∃ s0 : MmlState, s0 = { s with inp := { lb := { buf := b :: toksText ts e, column := 0 }, line := n } } := ⟨_, rfl⟩
  have hsane0 : Sane s0 := by rw [hs0]; exact ⟨hbytes, Nat.zero_le _⟩
  have hsuf0 : suffix s0 = b :: toksText ts e := by rw [hs0]; rfl
  have htr : ∀ id, trackOf id s0 = trackOf id s := by intro id; subst hs0; rfl
  obtain ⟨s', hrun, hres, hready'⟩ := lineTail_run ids s0 hsane0 b hb ts e htoks he hsuf0 (by rw [hs0]; exact hready) hnd
    (fun id hid => by rw [htr id]; exact hcmds id hid) hne
  refine ⟨s', ?_, ⟨fun id hid => by rw [hres.tracks id hid, htr id], fun b' hb' => ?_, ?_⟩, hready'⟩
  · show readLine (b :: toksText ts e) n s = _
    rw [readLine_start, ← hs0, parseLine_cont s0 hsane0 b _ hsuf0 hb]; exact hrun
  · rw [hres.others b' hb']; subst hs0; rfl
  · rw [hres.ppqn]; subst hs0; rfl

theorem readLine_empty (n : Nat) (s : MmlState) :
    readLine [] n s = .ok () { s with inp := { lb := { buf := [], column := 1 }, line := n } } := rfl

theorem readLine_comment (r : List Nat) (n : Nat) (s : MmlState) :
    readLine (59 :: r) n s = .ok () { s with inp := { lb := { buf := 59 :: r, column := 1 }, line := n } } := rfl

/-! ### lists of lines -/

/-- every line is well formed for `ids`, and a continuation line comes only when the track list
and the command are remembered (`r`: they are at the start) -/
def LinesOk (ids : List Nat) : Bool → List LLine → Prop
  | _, [] => True
  | r, l :: ls => LineOk ids l ∧ (l.isCont = true → r = true) ∧ LinesOk ids (r || l.isHdr) ls

/-- the commands of a layout, in order -/
def layoutCmds (ls : List LLine) : List Cmd := ls.flatMap LLine.cmds

theorem readLines_cons (n : Nat) (l : List Nat) (ls : List (List Nat)) (s s1 : MmlState) (h : readLine l n s = .ok () s1) :
    readLines n (l :: ls) s = readLines (n + 1) ls s1 := by
  show (readLine l n >>= fun _ => readLines (n + 1) ls) s = _
  rw [bind_ok h]

/-- a whole layout: every listed track receives the builder calls of the layout's commands, in
order; no other track changes -/
theorem readLines_layout (ids : List Nat) (hnd : ids.Nodup) (hne : ids ≠ []) : ∀ (ls : List LLine) (n : Nat) (s : MmlState) (r : Bool),
    LinesOk ids r ls → (r = true → Ready ids s) → (∀ id ∈ ids, CmdsOk (trackOf id s).strip (layoutCmds ls)) →
    ∃ s', readLines n (ls.map LLine.text) s = .ok () s' ∧ LineRes ids (layoutCmds ls) s s' := by
  intro ls
  induction ls with
  | nil => intro n s r _ _ _; exact ⟨s, rfl, ⟨fun _ _ => rfl, fun _ _ => rfl, rfl⟩⟩
  | cons l ls ih =>
    intro n s r hok hready hcmds
    obtain ⟨hline, hcont, hrest⟩ := hok
    have hsplit : ∀ id ∈ ids, CmdsOk (trackOf id s).strip l.cmds ∧ CmdsOk (runCmds (trackOf id s).strip l.cmds) (layoutCmds ls) := by
      intro id hid
      have := hcmds id hid
      simp only [layoutCmds, List.flatMap_cons] at this
      exact (cmdsOk_append _ _ _).mp this
    -- the line itself
    have hstep : ∃ s1, readLine l.text n s = .ok () s1 ∧ LineRes ids l.cmds s s1 ∧ ((r || l.isHdr) = true → Ready ids s1) := by
      cases l with
      | hdr as b ts e =>
        obtain ⟨s1, h1, h2, h3⟩ := readLine_hdr ids as b ts e n s hline hnd (fun id hid => (hsplit id hid).1)
        exact ⟨s1, h1, h2, fun _ => h3⟩
      | cont b ts e =>
        have hr : r = true := hcont rfl
        obtain ⟨s1, h1, h2, h3⟩ := readLine_cont ids b ts e n s hline (hready hr) hnd hne (fun id hid => (hsplit id hid).1)
        exact ⟨s1, h1, h2, fun _ => h3⟩
      | empty =>
        refine ⟨_, readLine_empty n s, ⟨fun _ _ => rfl, fun _ _ => rfl, rfl⟩, fun h => ?_⟩
        have hr : r = true := by simpa [LLine.isHdr] using h
        exact hready hr
      | comment c =>
        refine ⟨_, readLine_comment c n s, ⟨fun _ _ => rfl, fun _ _ => rfl, rfl⟩, fun h => ?_⟩
        have hr : r = true := by simpa [LLine.isHdr] using h
        exact hready hr
    obtain ⟨s1, h1, hres1, hready1⟩ := hstep
    obtain ⟨s', h2, hres2⟩ := ih (n + 1) s1 (r || l.isHdr) hrest hready1
      (fun id hid => by rw [hres1.tracks id hid]; exact (hsplit id hid).2)
    refine ⟨s', ?_, ?_⟩
    · show readLines n (l.text :: ls.map LLine.text) s = _
      rw [readLines_cons n _ _ s s1 h1]; exact h2
    · have := hres1.trans hres2
      simpa [layoutCmds] using this

end Ctrmml.Mml
