/-
  Helper lemmas for C17 (no property statements): a small program logic for the columns of the MML
  reader (Model/Mml).  Everything a diagnostic position depends on is the line number, the length
  of the line and the read column; `Out ln L lo post r` says of one outcome `r` of a reader
  function: a normal return keeps line number `ln` and line length `L` and satisfies `post value
  column`; an `InputError` (`parse_error`) is on line `ln` with `lo ≤ column ≤ L + 1`; any other
  exception is not constrained.  `Sp m R Q`: from every state whose column satisfies `R`, `m`
  ends in `Out … (Q startColumn)`.  Programs are run forward one `>>=` at a time (`Out.bind`), the
  facts about the intermediate columns accumulate in the context and the leaves are linear
  arithmetic.
-/
import Ctrmml.Model.Mml
namespace Ctrmml.DiagCol
open Ctrmml.Lexer Ctrmml.Mml Ctrmml.TrackBuilder Ctrmml.Tables

/-- line number and line length: fixed while one line is read -/
def Geo (ln L : Nat) (s : MmlState) : Prop := s.inp.line = ln ∧ s.inp.lb.buf.length = L

def Out {α : Type} (ln L lo : Nat) (post : α → Nat → Prop) : Res α → Prop
  | .ok a s' => Geo ln L s' ∧ post a s'.inp.lb.column
  | .err (.input _ r) _ => r.line = ln ∧ lo ≤ r.column ∧ r.column ≤ L + 1
  | .err (.foreign _) _ => True

/-- `m s`, written as an application of `run` so that `split` sees an `if`/`match` that produces a
reader function as an argument, not as an over-applied head -/
def run {α : Type} (m : P α) (s : MmlState) : Res α := m s

def Sp {α : Type} (ln L lo : Nat) (m : P α) (R : Nat → Prop) (Q : Nat → α → Nat → Prop) : Prop :=
  ∀ s, Geo ln L s → R s.inp.lb.column → Out ln L lo (Q s.inp.lb.column) (run m s)

variable {ln L lo : Nat}

theorem Out.bind {α β : Type} {m : P α} {f : α → P β} {s : MmlState} {Q : α → Nat → Prop} {post : β → Nat → Prop}
    (h1 : Out ln L lo Q (run m s))
    (h2 : ∀ a s₁, Geo ln L s₁ → Q a s₁.inp.lb.column → Out ln L lo post (run (f a) s₁)) :
    Out ln L lo post (run (m >>= f) s) := by
  change Out ln L lo post (P.bind m f s)
  unfold run at h1 h2
  unfold P.bind
  cases hm : m s with
  | ok a s₁ =>
    rw [hm] at h1
    exact h2 a s₁ h1.1 h1.2
  | err e s₁ =>
    rw [hm] at h1
    cases e with
    | input msg r => exact h1
    | «foreign» k => trivial

theorem Out.mono {α : Type} {Q post : α → Nat → Prop} {r : Res α}
    (h1 : Out ln L lo Q r) (h2 : ∀ a c', Q a c' → post a c') : Out ln L lo post r := by
  cases r with
  | ok a s₁ => exact ⟨h1.1, h2 _ _ h1.2⟩
  | err e s₁ =>
    cases e with
    | input msg r => exact h1
    | «foreign» k => trivial

theorem Out.pure {α : Type} {post : α → Nat → Prop} {a : α} {s : MmlState}
    (hg : Geo ln L s) (hp : post a s.inp.lb.column) : Out ln L lo post (run (pure a : P α) s) := ⟨hg, hp⟩

theorem Out.parseError {α : Type} {post : α → Nat → Prop} {msg : String} {s : MmlState}
    (hg : Geo ln L s) (h1 : lo ≤ s.inp.lb.column) (h2 : s.inp.lb.column ≤ L + 1) :
    Out ln L lo post (run (parseError msg : P α) s) := ⟨hg.1, h1, h2⟩

theorem run_pure_bind {α β : Type} (a : α) (f : α → P β) (s : MmlState) : run ((pure a : P α) >>= f) s = run (f a) s := rfl

theorem Out.foreign {α : Type} {post : α → Nat → Prop} {k : String} {s : MmlState} :
    Out ln L lo post (run (fail (.foreign k) : P α) s) := trivial

theorem Out.ite {α : Type} {post : α → Nat → Prop} {c : Prop} {_ : Decidable c} {a b : P α} {s : MmlState}
    (h1 : c → Out ln L lo post (run a s)) (h2 : ¬c → Out ln L lo post (run b s)) :
    Out ln L lo post (run (if c then a else b) s) := by
  split
  · exact h1 ‹_›
  · exact h2 ‹_›

theorem Out.bind_ite {α β : Type} {post : β → Nat → Prop} {c : Prop} {_ : Decidable c} {a b : P α} {f : α → P β} {s : MmlState}
    (h1 : c → Out ln L lo post (run (a >>= f) s)) (h2 : ¬c → Out ln L lo post (run (b >>= f) s)) :
    Out ln L lo post (run ((if c then a else b) >>= f) s) := by
  split
  · exact h1 ‹_›
  · exact h2 ‹_›

/-- a weaker lower bound for the errors -/
theorem Out.lo_mono {α : Type} {post : α → Nat → Prop} {r : Res α} {lo' : Nat} (hl : lo' ≤ lo)
    (h : Out ln L lo post r) : Out ln L lo' post r := by
  cases r with
  | ok a s₁ => exact h
  | err e s₁ =>
    cases e with
    | input msg r => exact ⟨h.1, Nat.le_trans hl h.2.1, h.2.2⟩
    | «foreign» k => trivial

/-! ### primitives -/

theorem getC_sp : Sp ln L lo getC (fun _ => True) (fun c ch c' => c' = c + 1 ∧ (ch ≠ 0 → c < L)) := by
  intro s hg _
  refine ⟨⟨hg.1, hg.2⟩, rfl, ?_⟩
  intro hne
  cases h : s.inp.lb.buf[s.inp.lb.column]? with
  | none =>
    exfalso; apply hne
    simp [h]
  | some x =>
    have := (List.getElem?_eq_some_iff.mp h).1
    rw [← hg.2]; exact this

theorem countBlanks_le (l : List Nat) : LineBuffer.countBlanks l ≤ l.length := by
  induction l with
  | nil => simp [LineBuffer.countBlanks]
  | cons c cs ih => unfold LineBuffer.countBlanks; split <;> simp only [List.length_cons] <;> omega

theorem getTokenC_sp : Sp ln L lo getTokenC (fun _ => True)
    (fun c ch c' => c + 1 ≤ c' ∧ (c ≤ L → c' ≤ L + 1) ∧ (ch ≠ 0 → c' ≤ L)) := by
  intro s hg _
  have hb := countBlanks_le (s.inp.lb.buf.drop s.inp.lb.column)
  simp only [List.length_drop] at hb
  refine ⟨⟨hg.1, hg.2⟩, ?_, ?_, ?_⟩
  · show s.inp.lb.column + 1 ≤ s.inp.lb.column + LineBuffer.countBlanks (s.inp.lb.buf.drop s.inp.lb.column) + 1
    omega
  · intro hc
    show s.inp.lb.column + LineBuffer.countBlanks (s.inp.lb.buf.drop s.inp.lb.column) + 1 ≤ L + 1
    have := hg.2
    omega
  · intro hne
    show s.inp.lb.column + LineBuffer.countBlanks (s.inp.lb.buf.drop s.inp.lb.column) + 1 ≤ L
    cases h : s.inp.lb.buf[s.inp.lb.column + LineBuffer.countBlanks (s.inp.lb.buf.drop s.inp.lb.column)]? with
    | none =>
      exfalso; apply hne
      simp [h]
    | some x =>
      have := (List.getElem?_eq_some_iff.mp h).1
      have := hg.2
      omega

theorem ungetC_sp (ch : Int) : Sp ln L lo (ungetC ch) (fun _ => True) (fun c _ c' => c' + 1 = c) := by
  intro s hg _
  unfold run ungetC LineBuffer.unget
  split
  · rename_i b hb
    split at hb
    · cases hb
    · split at hb
      · cases hb
        refine ⟨⟨hg.1, hg.2⟩, ?_⟩
        show s.inp.lb.column - 1 + 1 = s.inp.lb.column
        omega
      · split at hb
        · cases hb
          refine ⟨⟨hg.1, ?_⟩, ?_⟩
          · show (s.inp.lb.buf.set _ _).length = L
            rw [List.length_set]; exact hg.2
          · show s.inp.lb.column - 1 + 1 = s.inp.lb.column
            omega
        · cases hb
  · rename_i e he
    split at he
    · cases he; trivial
    · split at he
      · cases he
      · split at he
        · cases he
        · cases he; trivial

theorem countSpaces_le (l : List Nat) : countSpaces l ≤ l.length := by
  induction l with
  | nil => simp [countSpaces]
  | cons c cs ih => unfold countSpaces; split <;> simp only [List.length_cons] <;> omega

theorem takeDigits_le (base : Nat) (l : List Nat) : (takeDigits base l).length ≤ l.length := by
  induction l with
  | nil => simp [takeDigits]
  | cons c cs ih => unfold takeDigits; split <;> simp only [List.length_cons, List.length_nil] <;> omega

theorem signSplit_le (l : List Nat) : (signSplit l).2 ≤ l.length := by
  unfold signSplit
  split <;> simp

theorem hexPrefix_le (base : Nat) (l : List Nat) : hexPrefix base l ≤ l.length := by
  unfold hexPrefix
  split
  · split
    · split <;> simp
    · simp
  · simp

theorem strtol_le (s : List Nat) (base : Nat) (v : Int) (n : Nat) (h : strtol s base = some (v, n)) : n ≤ s.length := by
  unfold strtol at h
  simp only at h
  split at h
  · cases h
  · cases h
    have h1 := countSpaces_le s
    have h2 := signSplit_le (s.drop (countSpaces s))
    have h3 := hexPrefix_le base ((s.drop (countSpaces s)).drop (signSplit (s.drop (countSpaces s))).2)
    have h4 := takeDigits_le base (((s.drop (countSpaces s)).drop (signSplit (s.drop (countSpaces s))).2).drop
      (hexPrefix base ((s.drop (countSpaces s)).drop (signSplit (s.drop (countSpaces s))).2)))
    simp only [List.length_drop] at h2 h3 h4
    omega

theorem unget_cols (b : LineBuffer) (c : Int) (b' : LineBuffer) (h : b.unget c = .ok b') :
    b'.buf.length = b.buf.length ∧ b'.column + 1 = b.column := by
  unfold LineBuffer.unget at h
  split at h
  · cases h
  · split at h
    · cases h; exact ⟨rfl, by show b.column - 1 + 1 = b.column; omega⟩
    · split at h
      · cases h; exact ⟨by simp, by show b.column - 1 + 1 = b.column; omega⟩
      · cases h

theorem getToken_nonzero (b : LineBuffer) (h : b.getToken.1 ≠ 0) :
    b.column + LineBuffer.countBlanks (b.buf.drop b.column) < b.buf.length := by
  cases hx : b.buf[b.column + LineBuffer.countBlanks (b.buf.drop b.column)]? with
  | none => exfalso; apply h; simp [LineBuffer.getToken, LineBuffer.get, hx]
  | some x => exact (List.getElem?_eq_some_iff.mp hx).1

theorem getNum_cols (b : LineBuffer) (r : Option Int) (b' : LineBuffer) (h : b.getNum = .ok (r, b')) :
    b'.buf.length = b.buf.length ∧ b.column ≤ b'.column ∧ (b.column ≤ b.buf.length → b'.column ≤ b.buf.length) := by
  have hb := countBlanks_le (b.buf.drop b.column)
  simp only [List.length_drop] at hb
  have htb : b.getToken.2.buf = b.buf := rfl
  have htc : b.getToken.2.column = b.column + LineBuffer.countBlanks (b.buf.drop b.column) + 1 := rfl
  have hnz := getToken_nonzero b
  unfold LineBuffer.getNum at h
  simp only [bind, Except.bind, pure, Except.pure] at h
  split at h
  · rename_i hhex
    have hne : b.getToken.1 ≠ 0 := by
      intro h0; rw [h0] at hhex; simp at hhex
    have := hnz hne
    split at h
    · cases h; rw [htb, htc]; exact ⟨rfl, by omega, by omega⟩
    · split at h
      · cases h
      · split at h
        · cases h; rw [htb, htc]; exact ⟨rfl, by omega, by omega⟩
        · rename_i v n hst
          cases h
          have := strtol_le _ _ _ _ hst
          simp only [List.length_drop, htb, htc] at this
          simp only [htb, htc]
          exact ⟨trivial, by omega, by omega⟩
  · split at h
    · cases h
    · rename_i v hv
      have hu := unget_cols _ _ _ hv
      rw [htb, htc] at hu
      split at h
      · cases h; exact ⟨hu.1, by omega, by omega⟩
      · split at h
        · cases h
        · split at h
          · cases h; exact ⟨hu.1, by omega, by omega⟩
          · rename_i v' n hst
            cases h
            have := strtol_le _ _ _ _ hst
            simp only [List.length_drop] at this
            refine ⟨hu.1, ?_, ?_⟩
            · show b.column ≤ v.column + n; omega
            · intro hc; show v.column + n ≤ b.buf.length; omega


theorem getNumC_sp : Sp ln L lo getNumC (fun _ => True) (fun c _ c' => c ≤ c' ∧ (c ≤ L → c' ≤ L)) := by
  intro s hg _
  unfold run getNumC
  split
  · rename_i r b hb
    have := getNum_cols _ _ _ hb
    refine ⟨⟨hg.1, ?_⟩, this.2.1, ?_⟩
    · show b.buf.length = L
      rw [this.1]; exact hg.2
    · intro hc
      have := this.2.2 (by rw [hg.2]; exact hc)
      rw [hg.2] at this; exact this
  · rename_i e he
    -- `getNum` only fails with the undefined-behaviour marker
    have : ∃ k, e = .foreign k := by
      unfold LineBuffer.getNum at he
      simp only [bind, Except.bind, pure, Except.pure, throw, throwThe, MonadExceptOf.throw] at he
      repeat' split at he
      all_goals first
        | (cases he; done)
        | (cases he; exact ⟨_, rfl⟩)
        | (rename_i hu; cases hu; cases he; exact ⟨_, rfl⟩)
        | (rename_i hu; unfold LineBuffer.unget at hu; repeat' split at hu
           all_goals first | (cases hu; done) | (cases hu; cases he; exact ⟨_, rfl⟩))
    obtain ⟨k, rfl⟩ := this
    trivial

theorem tellC_sp : Sp ln L lo tellC (fun _ => True) (fun c v c' => c' = c ∧ v = c) := by
  intro s hg _; exact ⟨hg, rfl, rfl⟩

theorem seekC_sp (pos : Nat) : Sp ln L lo (seekC pos) (fun _ => True) (fun _ _ c' => c' = pos) := by
  intro s hg _; exact ⟨⟨hg.1, hg.2⟩, rfl⟩

/-- `getS`: the value is the state itself; what later steps use of it is its column and line length -/
theorem getS_sp : Sp ln L lo getS (fun _ => True)
    (fun c v c' => c' = c ∧ v.inp.lb.column = c ∧ v.inp.lb.buf.length = L) := by
  intro s hg _; exact ⟨hg, rfl, rfl, hg.2⟩

theorem modifyS_sp (f : MmlState → MmlState) (hf : ∀ s, (f s).inp = s.inp) :
    Sp ln L lo (modifyS f) (fun _ => True) (fun c _ c' => c' = c) := by
  intro s hg _
  refine ⟨⟨?_, ?_⟩, ?_⟩
  · show (f s).inp.line = ln; rw [hf]; exact hg.1
  · show (f s).inp.lb.buf.length = L; rw [hf]; exact hg.2
  · show (f s).inp.lb.column = s.inp.lb.column; rw [hf]

theorem track_sp : Sp ln L lo track (fun _ => True) (fun c _ c' => c' = c) := by
  intro s hg _; exact ⟨hg, rfl⟩

theorem modifyTrack_sp (f : Track → Track) : Sp ln L lo (modifyTrack f) (fun _ => True) (fun c _ c' => c' = c) := by
  intro s hg _; exact ⟨⟨hg.1, hg.2⟩, rfl⟩

theorem parseWarning_sp (msg : String) : Sp ln L lo (parseWarning msg) (fun _ => True) (fun c _ c' => c' = c) :=
  modifyS_sp _ (fun _ => rfl)

theorem trackOp_sp (op : Track.Op) : Sp ln L lo (trackOp op) (fun _ => True) (fun c _ c' => c' = c) := by
  intro s hg _
  unfold run trackOp
  split
  · exact ⟨⟨hg.1, hg.2⟩, rfl⟩
  · rename_i e he
    have : ∃ k, e = .foreign k := by
      unfold Track.applyOp at he
      repeat' split at he
      all_goals first
        | (cases he; done)
        | (cases he; exact ⟨_, rfl⟩)
    obtain ⟨k, rfl⟩ := this
    trivial

/-! ### scans -/

theorem scanUntil_len (stop : Int → Bool) (l : List Nat) :
    1 ≤ (scanUntil stop l).2.1 ∧ (scanUntil stop l).2.1 ≤ l.length + 1 ∧
    ((scanUntil stop l).2.2 ≠ 0 → (scanUntil stop l).2.1 ≤ l.length) := by
  induction l with
  | nil => simp [scanUntil]
  | cons c cs ih =>
    unfold scanUntil
    split
    · rename_i h
      refine ⟨by simp, by simp, ?_⟩
      intro _; simp
    · obtain ⟨l', n, e, hsc⟩ : ∃ l' n e, scanUntil stop cs = (l', n, e) := ⟨_, _, _, rfl⟩
      simp only [hsc, List.length_cons] at ih ⊢
      refine ⟨by omega, by omega, ?_⟩
      intro h; have := ih.2.2 h; omega

theorem scanC_sp (stop : Int → Bool) : Sp ln L lo (scanC stop) (fun _ => True)
    (fun c v c' => c + 1 ≤ c' ∧ (c ≤ L → c' ≤ L + 1) ∧ (v.2 ≠ 0 → c' ≤ L)) := by
  intro s hg _
  have := scanUntil_len stop (s.inp.lb.buf.drop s.inp.lb.column)
  simp only [List.length_drop] at this
  have hL := hg.2
  refine ⟨⟨hg.1, hg.2⟩, ?_, ?_, ?_⟩
  · show s.inp.lb.column + 1 ≤ s.inp.lb.column + (scanUntil stop (s.inp.lb.buf.drop s.inp.lb.column)).2.1
    omega
  · intro hc
    show s.inp.lb.column + (scanUntil stop (s.inp.lb.buf.drop s.inp.lb.column)).2.1 ≤ L + 1
    omega
  · intro hne
    show s.inp.lb.column + (scanUntil stop (s.inp.lb.buf.drop s.inp.lb.column)).2.1 ≤ L
    have := this.2.2 hne
    -- a stop character was found, so the cursor was inside the line
    by_cases hc : s.inp.lb.column ≤ L
    · omega
    · exfalso
      have hnil : s.inp.lb.buf.drop s.inp.lb.column = [] := by
        apply List.drop_eq_nil_of_le; omega
      rw [hnil] at hne
      exact hne rfl

theorem countDots_le (l : List Nat) : countDots l ≤ l.length := by
  induction l with
  | nil => simp [countDots]
  | cons c cs ih => unfold countDots; split <;> simp only [List.length_cons] <;> omega

end Ctrmml.DiagCol
