/- Helper lemmas for C17: `Line_Buffer::get_token` / `unget` (Model/Lexer) as used by
   `parse_mml_track` before it stamps a command with `get_reference()`. -/
import Ctrmml.Model.Lexer
namespace Ctrmml.Reader
open Ctrmml.Lexer

theorem ucharOf_schar (x : Nat) (h : x < 256) : ucharOf (schar x) = x := by
  unfold ucharOf schar
  have hx : x % 256 = x := Nat.mod_eq_of_lt h
  rw [hx]
  split
  · have : ((x : Nat) : Int) % 256 = (x : Int) := by omega
    rw [this]; simp
  · have : (((x : Nat) : Int) - 256) % 256 = (x : Int) := by omega
    rw [this]; simp

/-- the byte behind the leading blank run is not blank -/
theorem countBlanks_spec : ∀ (l : List Nat) (h : LineBuffer.countBlanks l < l.length),
    isBlank (schar (l[LineBuffer.countBlanks l]'h)) = false
  | [], h => by simp [LineBuffer.countBlanks] at h
  | c :: cs, h => by
    by_cases hc : isBlank (schar c) = true
    · have e : LineBuffer.countBlanks (c :: cs) = LineBuffer.countBlanks cs + 1 := by
        simp [LineBuffer.countBlanks, hc]
      have h' : LineBuffer.countBlanks cs < cs.length := by rw [e] at h; simpa using h
      have := countBlanks_spec cs h'
      simp only [e, List.getElem_cons_succ]
      exact this
    · have e : LineBuffer.countBlanks (c :: cs) = 0 := by
        simp [LineBuffer.countBlanks, hc]
      simp only [e, List.getElem_cons_zero]
      simpa using hc

theorem getToken_unget (b : LineBuffer) (hb : ∀ x ∈ b.buf, x < 256)
    (hk : b.column + LineBuffer.countBlanks (b.buf.drop b.column) < b.buf.length) :
    (b.getToken.2).unget b.getToken.1 =
      .ok { buf := b.buf, column := b.column + LineBuffer.countBlanks (b.buf.drop b.column) } ∧
    ¬ isBlank (schar (b.buf[b.column + LineBuffer.countBlanks (b.buf.drop b.column)]'hk)) := by
  obtain ⟨k, hkdef⟩ : ∃ k, k = b.column + LineBuffer.countBlanks (b.buf.drop b.column) := ⟨_, rfl⟩
  have hk' : k < b.buf.length := hkdef ▸ hk
  have hget : b.buf[k]? = some (b.buf[k]'hk') := List.getElem?_eq_getElem hk'
  constructor
  · simp only [LineBuffer.getToken, LineBuffer.get, ← hkdef, hget, LineBuffer.unget]
    have hx : b.buf[k]'hk' < 256 := hb _ (List.getElem_mem hk')
    simp only [Nat.add_one_ne_zero, ↓reduceIte, Nat.add_sub_cancel]
    split
    · rfl
    · simp only [hk', ↓reduceIte, ucharOf_schar _ hx]
      congr 2
      exact List.set_getElem_self hk'
  · have hd : LineBuffer.countBlanks (b.buf.drop b.column) < (b.buf.drop b.column).length := by
      simp only [List.length_drop]; omega
    have := countBlanks_spec (b.buf.drop b.column) hd
    simp only [List.getElem_drop] at this
    simp [this]

end Ctrmml.Reader
