/- Helper lemmas for Properties/C15 about the validate stage (kept apart from Proofs/Pipeline
because it depends on Properties/C04):
   * the `vector::at` of the final-pass loop break (`PErr.impossible`) cannot fail in any state a
     validator run reaches — an invariant of `coreStep` over the frames of the stack;
   * C04's termination theorem carried to the outcome type of the pipeline model. -/
import Ctrmml.Proofs.Pipeline
import Ctrmml.Properties.C04
namespace Ctrmml.Pipeline
open Ctrmml Ctrmml.Player

/-! ### reachable stacks: a loop frame that has seen its `LOOP_END` points at it -/

/-- `t` = the track being executed below the frames seen so far: a loop frame with a non-zero
count recorded `end_position` = (position of a fetched `LOOP_END` of `t`) + 1 -/
def FramesOK (song : Song) (root : List Event) : TRef → List Frame → Prop
  | _, [] => True
  | t, f :: rest =>
    match f.type with
    | .loop => (f.loopCount ≠ 0 → 1 ≤ f.endPosition ∧ f.endPosition - 1 < (codeOf song root t).length) ∧
               FramesOK song root t rest
    | _ => FramesOK song root f.track rest

def CoreOK (song : Song) (root : List Event) (c : Core) : Prop := FramesOK song root c.track c.stack

theorem stackTop_ok {st : List Frame} {ty : FType} {f : Frame} (h : stackTop st ty = .ok f) :
    ∃ rest, st = f :: rest ∧ f.type = ty := by
  cases st with
  | nil => simp [stackTop] at h
  | cons g rest =>
    simp only [stackTop] at h
    split at h
    · rename_i hg
      injection h with h
      subst h
      exact ⟨rest, rfl, hg⟩
    · cases h

theorem stackTop_err {st : List Frame} {ty : FType} {e : PErr} (h : stackTop st ty = .error e) : e ≠ .impossible := by
  cases st with
  | nil =>
    simp only [stackTop] at h
    injection h with h
    subst h
    cases ty <;> simp [underflowErr]
  | cons g rest =>
    simp only [stackTop] at h
    split at h
    · cases h
    · injection h with h
      subst h
      cases g.type <;> simp [underflowErr]

theorem push_err {st : List Frame} {f : Frame} {e : PErr} (h : push st f = .error e) : e ≠ .impossible := by
  unfold push at h
  split at h
  · injection h with h; subst h; simp
  · cases h

theorem push_ok {st st' : List Frame} {f : Frame} (h : push st f = .ok st') : st' = f :: st := by
  unfold push at h
  split at h
  · cases h
  · injection h with h; exact h.symm

theorem fetch_lt_of_not_fin {code : List Event} {pos : Nat} (h : (fetch code pos).kind ≠ .fin) : pos < code.length := by
  rcases Nat.lt_or_ge pos code.length with hlt | hge
  · exact hlt
  · exfalso
    apply h
    have : code[pos]? = none := List.getElem?_eq_none hge
    simp only [fetch, this, Option.getD_none]
    decide


abbrev StepRes := Except PErr (Core × Player.Out)

theorem err_ne {e : PErr} (h : e ≠ .impossible) : (Except.error e : StepRes) ≠ .error .impossible := by
  intro h'; injection h' with h'; exact h h'

theorem ok_ne (x : Core × Player.Out) : (Except.ok x : StepRes) ≠ .error .impossible := by
  intro h; cases h

/-- the shape every branch of `coreStep` is brought to -/
def Good (song : Song) (root : List Event) (r : StepRes) : Prop :=
  r ≠ .error .impossible ∧ ∀ c' o, r = .ok (c', o) → CoreOK song root c'

theorem good_err (song : Song) (root : List Event) {e : PErr} (h : e ≠ .impossible) : Good song root (.error e) :=
  ⟨err_ne h, fun _ _ h => by cases h⟩

theorem good_ok (song : Song) (root : List Event) (c' : Core) (o : Player.Out) (h : CoreOK song root c') :
    Good song root (.ok (c', o)) :=
  ⟨ok_ne _, fun c'' o' heq => by injection heq with heq; injection heq with h1 h2; subst h1; exact h⟩

/-- one control step keeps the invariant and does not hit the impossible `at()` -/
theorem coreStep_good (song : Song) (root : List Event) (c : Core) (hc : CoreOK song root c) :
    Good song root (coreStep song root c) := by
  unfold CoreOK at hc
  unfold coreStep
  simp only []
  cases hk : (fetch (codeOf song root c.track) c.position).kind with
  | loopStart =>
    simp only []
    cases hp : push c.stack { type := .loop, track := c.track, position := c.position + 1, endPosition := 0, loopCount := 0 } with
    | error e => exact good_err song root (push_err hp)
    | ok st =>
      have := push_ok hp
      subst this
      apply good_ok
      simp only [CoreOK, FramesOK]
      exact ⟨fun h => absurd rfl h, hc⟩
  | loopBreak =>
    simp only []
    cases ht : stackTop c.stack .loop with
    | error e => exact good_err song root (stackTop_err ht)
    | ok f =>
      obtain ⟨rest, hst, hty⟩ := stackTop_ok ht
      rw [hst] at hc
      simp only [FramesOK, hty] at hc
      simp only []
      by_cases h1 : f.loopCount = 1
      · simp only [h1, if_true]
        have hne : f.loopCount ≠ 0 := by rw [h1]; decide
        obtain ⟨hge, hlt⟩ := hc.1 hne
        have hsome : (codeOf song root c.track)[f.endPosition - 1]? = some ((codeOf song root c.track)[f.endPosition - 1]'hlt) :=
          List.getElem?_eq_getElem hlt
        rw [hsome]
        apply good_ok
        simp only [CoreOK, hst, List.tail_cons]
        exact hc.2
      · simp only [h1, if_false]
        apply good_ok
        simp only [CoreOK, hst, FramesOK, hty]
        exact hc
  | loopEnd =>
    simp only []
    cases ht : stackTop c.stack .loop with
    | error e => exact good_err song root (stackTop_err ht)
    | ok f =>
      obtain ⟨rest, hst, hty⟩ := stackTop_ok ht
      rw [hst] at hc
      simp only [FramesOK, hty] at hc
      have hpos : c.position < (codeOf song root c.track).length :=
        fetch_lt_of_not_fin (by rw [hk]; decide)
      simp only []
      generalize (if f.loopCount = 0 then (fetch (codeOf song root c.track) c.position).param else f.loopCount) = cnt
      by_cases h1 : cnt < 0
      · simp only [h1, if_true]
        exact good_err song root (by simp)
      · simp only [h1, if_false]
        by_cases h2 : cnt - 1 > 0
        · simp only [h2, if_true]
          apply good_ok
          simp only [CoreOK, hst, List.tail_cons, FramesOK, hty]
          exact ⟨fun _ => ⟨by omega, by simpa using hpos⟩, hc.2⟩
        · simp only [h2, if_false]
          apply good_ok
          simp only [CoreOK, hst, List.tail_cons]
          exact hc.2
  | segno =>
    simp only []
    exact good_ok song root _ _ hc
  | jump =>
    simp only []
    cases hl : song.track? (trackIdOfParam (fetch (codeOf song root c.track) c.position).param) with
    | none => exact good_err song root (by simp)
    | some evs =>
      simp only []
      cases hp : push c.stack { type := .jump, track := c.track, position := c.position + 1, endPosition := 0, loopCount := 0 } with
      | error e => exact good_err song root (by simp)
      | ok st =>
        have := push_ok hp
        subst this
        apply good_ok
        simp only [CoreOK, FramesOK]
        exact hc
  | fin =>
    simp only []
    cases hs : c.stack with
    | nil =>
      simp only []
      apply good_ok
      simp only [CoreOK, hs, FramesOK]
    | cons g rest =>
      simp only []
      cases ht : stackTop (g :: rest) .jump with
      | error e => exact good_err song root (stackTop_err ht)
      | ok f =>
        obtain ⟨rest', hst, hty⟩ := stackTop_ok ht
        injection hst with h1 h2
        subst h1 h2
        rw [hs] at hc
        simp only [FramesOK, hty] at hc
        apply good_ok
        simp only [CoreOK, List.tail_cons]
        exact hc
  | other =>
    simp only []
    exact good_ok song root _ _ hc

/-- `accStep` leaves the control state alone except for the loop-back at a root `END`, where
the stack is empty -/
theorem step_good (song : Song) (root : List Event) (lh : Bool) (s : PState) (hc : CoreOK song root s.core) :
    step song root lh s ≠ .error .impossible ∧ ∀ s' em, step song root lh s = .ok (s', em) → CoreOK song root s'.core := by
  have hg := coreStep_good song root s.core hc
  unfold step
  cases hcs : coreStep song root s.core with
  | error e =>
    rw [hcs] at hg
    refine ⟨?_, fun _ _ h => by cases h⟩
    intro h
    injection h with h
    subst h
    exact hg.1 rfl
  | ok p =>
    obtain ⟨c', o⟩ := p
    rw [hcs] at hg
    have hok := hg.2 c' o rfl
    refine ⟨(fun h => by cases h), ?_⟩
    intro s' em h
    simp only [] at h
    injection h with h
    injection h with h1 h2
    subst h1
    simp only []
    unfold accStep
    cases o with
    | hook v f => simp only []; split <;> exact hok
    | ret f => exact hok
    | rootEnd f =>
      simp only []
      split
      · -- loop-back: only the position changes; the stack is what `coreStep` left
        simp only [CoreOK] at hok ⊢
        exact hok
      · exact hok

theorem initState_ok (song : Song) (root : List Event) : CoreOK song root initState.core := by
  simp [CoreOK, initState, FramesOK]

/-- no validator run ends in the impossible `vector::at` -/
theorem runValidator_ne_impossible (song : Song) (root : List Event) :
    ∀ (fuel : Nat) (s : PState), CoreOK song root s.core → runValidator song root fuel s ≠ .error .impossible
  | 0, _, _ => by simp [runValidator]
  | fuel + 1, s, hs => by
    unfold runValidator
    split
    · intro h; cases h
    · have hg := step_good song root false s hs
      cases hst : step song root false s with
      | error e =>
        intro h
        injection h with h
        subst h
        exact hg.1 hst
      | ok p =>
        obtain ⟨s', em⟩ := p
        exact runValidator_ne_impossible song root fuel s' (hg.2 s' em hst)

/-! ### C04's termination theorem on the outcome type -/

theorem validateTrack_routed (song : Song) (root : List Event)
    (hs : Refine.SongNoEnd song) (hr : Tree.NoEnd root) :
    ∃ F, ∀ fuel, fuel ≥ F → (validateTrack song root fuel).routed := by
  obtain ⟨F, hF⟩ := C04.C04_validator_terminates song root hs hr
  refine ⟨F, fun fuel hge => ?_⟩
  have h1 := hF fuel hge
  have h2 := runValidator_ne_impossible song root fuel initState (initState_ok song root)
  unfold validateTrack
  cases h : Player.runValidator song root fuel Player.initState with
  | ok s => simp [Out.routed]
  | error e =>
    cases e <;> first
      | (exact absurd h h1)
      | (exact absurd h h2)
      | (simp only [Out.routed]; exact playerMsg_ne_empty _)

theorem validateTracks_routed (song : Song) (hs : Refine.SongNoEnd song) :
    ∀ (l : List (Nat × List Event)), (∀ p ∈ l, Tree.NoEnd p.2) →
      ∃ F, ∀ fuel, fuel ≥ F → (validateTracks song fuel l).routed
  | [], _ => ⟨0, fun _ _ => by simp [validateTracks, Out.routed]⟩
  | (id, evs) :: rest, h => by
    obtain ⟨F1, h1⟩ := validateTrack_routed song evs hs (h (id, evs) (by simp))
    obtain ⟨F2, h2⟩ := validateTracks_routed song hs rest (fun p hp => h p (by simp [hp]))
    refine ⟨max F1 F2, fun fuel hge => ?_⟩
    unfold validateTracks
    apply Out.bind_routed _ _ (h1 fuel (by omega))
    intro _ _
    exact h2 fuel (by omega)

theorem lookup_mem {β : Type} : ∀ {l : List (Nat × β)} {k : Nat} {v : β}, l.lookup k = some v → (k, v) ∈ l
  | [], _, _, h => by simp [List.lookup] at h
  | (k', v') :: rest, k, v, h => by
    simp only [List.lookup] at h
    split at h
    · rename_i heq
      injection h with h
      subst h
      have : k = k' := by simpa using heq
      subst this
      simp
    · exact List.mem_cons_of_mem _ (lookup_mem h)

/-- a song without an explicit `END` event is in C04's domain -/
theorem noEnd_of_hasEndEvent {song : Song} (h : hasEndEvent song = false) :
    Refine.SongNoEnd song ∧ ∀ p ∈ song.tracks, Tree.NoEnd p.2 := by
  have hall : ∀ p ∈ song.tracks, Tree.NoEnd p.2 := by
    intro p hp e he hk
    have : hasEndEvent song = true := by
      unfold hasEndEvent
      rw [List.any_eq_true]
      refine ⟨p, hp, ?_⟩
      rw [List.any_eq_true]
      exact ⟨e, he, by simp [hk]⟩
    rw [h] at this
    cases this
  refine ⟨?_, hall⟩
  intro id evs hl
  have hmem : (id, evs) ∈ song.tracks := by
    unfold Song.track? at hl
    exact lookup_mem hl
  exact hall (id, evs) hmem

end Ctrmml.Pipeline
