/-
  Helper lemmas for C07 (no property statements here): the clock of `MD_Driver::play_step`
  as a machine on `(elapsed, seq_counter, pcm_counter)`, its invariant, the tempo accumulator
  run, monotonicity of the volume formulas.
-/
import Ctrmml.Model.MdDriver
namespace Ctrmml.MdDriver
open Ctrmml Tables

theorem seqDelta_eq : seqDelta = 735 := by decide
theorem pcmDelta_eq : pcmDelta = 882 := by decide

/-! ### the play_step clock -/
/-- the two counters after the `if(counter >= 0) counter -= delta` parts of `play_step` -/
def fired (sc pc : Int) : Int × Int :=
  (if sc ≥ 0 then sc - seqDelta else sc, if pc ≥ 0 then pc - pcmDelta else pc)

/-- time part of one `play_step`: `(elapsed, seq_counter, pcm_counter)` → the same after the call -/
def clockStep (c : Int × Int × Int) : Option (Int × Int × Int) :=
  let f := fired c.2.1 c.2.2
  match advance f.1 f.2 with
  | none => none
  | some (sc, pc, d) => some (c.1 + d, sc, pc)

/-- what every reachable clock state satisfies -/
def ClockInv (c : Int × Int × Int) : Prop :=
  0 ≤ c.1 ∧ c.1 % 147 = 0 ∧ c.2.1 ≤ 0 ∧ -735 < c.2.1 ∧ c.2.2 ≤ 0 ∧ -882 < c.2.2 ∧
  (c.1 - c.2.1) % 735 = 0 ∧ (c.1 - c.2.2) % 882 = 0 ∧ (c.2.1 = 0 ∨ c.2.2 = 0)

theorem clockInv_init : ClockInv (0, 0, 0) := by
  unfold ClockInv; simp

theorem advance_eq (sc pc : Int) (h1 : -735 ≤ sc) (h2 : sc < 0 ∨ pc < 0) (h3 : sc ≤ 0) (h4 : pc ≤ 0) (h5 : -882 ≤ pc)
    (hne : sc ≠ 0) (hne2 : pc ≠ 0) :
    advance sc pc = some (sc + min (-sc) (-pc), pc + min (-sc) (-pc), min (-sc) (-pc)) := by
  unfold advance
  simp only [seqDelta_eq, pcmDelta_eq]
  have hm : max (735 : Int) 882 = 882 := by decide
  rw [hm]
  have c1 : sc + 882 > 0 := by omega
  simp only [c1, if_true]
  by_cases c2 : pc + (882 - (sc + 882)) > 0
  · simp only [c2, if_true]
    have : min (-sc) (-pc) = -pc := by omega
    rw [this]
    have e : 882 - (sc + 882) - (pc + (882 - (sc + 882))) = -pc := by omega
    rw [e]
    have : (-pc = 0) = False := by simp; omega
    simp [this]
  · simp only [c2, if_false]
    have : min (-sc) (-pc) = -sc := by omega
    rw [this]
    have e : 882 - (sc + 882) = -sc := by omega
    rw [e]
    have : (-sc = 0) = False := by simp; omega
    simp [this]

/-- one step from a state satisfying the invariant: never the non-integer branch, the
invariant is kept, the delta is a positive multiple of 147 that does not jump over the next
multiple of 735 (nor of 882) -/
theorem clockStep_inv (c : Int × Int × Int) (h : ClockInv c) :
    ∃ c', clockStep c = some c' ∧ ClockInv c' ∧ 147 ≤ c'.1 - c.1 ∧ (c'.1 - c.1) % 147 = 0 ∧
      c'.1 - c.1 ≤ 735 ∧ (∀ t, c.1 < t → t < c'.1 → t % 735 ≠ 0) := by
  obtain ⟨t, sc, pc⟩ := c
  obtain ⟨h0, h147, hs0, hs1, hp0, hp1, hsm, hpm, hz⟩ := h
  simp only at h0 h147 hs0 hs1 hp0 hp1 hsm hpm hz
  -- the counters after firing
  have hf : fired sc pc = (if sc ≥ 0 then sc - 735 else sc, if pc ≥ 0 then pc - 882 else pc) := by
    simp [fired, seqDelta_eq, pcmDelta_eq]
  obtain ⟨sc', hsc'⟩ : ∃ x, x = (if sc ≥ 0 then sc - 735 else sc) := ⟨_, rfl⟩
  obtain ⟨pc', hpc'⟩ : ∃ x, x = (if pc ≥ 0 then pc - 882 else pc) := ⟨_, rfl⟩
  have a1 : -735 ≤ sc' := by rw [hsc']; split <;> omega
  have a2 : sc' < 0 := by rw [hsc']; split <;> omega
  have a3 : pc' < 0 := by rw [hpc']; split <;> omega
  have a4 : -882 ≤ pc' := by rw [hpc']; split <;> omega
  have a5 : (t - sc') % 735 = 0 := by rw [hsc']; split <;> omega
  have a6 : (t - pc') % 882 = 0 := by rw [hpc']; split <;> omega
  have hadv := advance_eq sc' pc' a1 (Or.inl a2) (by omega) (by omega) a4 (by omega) (by omega)
  refine ⟨(t + min (-sc') (-pc'), sc' + min (-sc') (-pc'), pc' + min (-sc') (-pc')), ?_, ?_, ?_, ?_, ?_, ?_⟩
  · simp only [clockStep, hf, ← hsc', ← hpc', hadv]
  · refine ⟨?_, ?_, ?_, ?_, ?_, ?_, ?_, ?_, ?_⟩ <;> simp only <;> omega
  · simp only; omega
  · simp only; omega
  · simp only; omega
  · intro u hu1 hu2
    simp only at hu1 hu2
    omega

/-- `n` calls of `play_step` (time part) -/
def clockIter : Nat → Int × Int × Int → Option (Int × Int × Int)
  | 0, c => some c
  | n + 1, c => match clockStep c with
    | none => none
    | some c' => clockIter n c'

theorem clockIter_inv (n : Nat) (c : Int × Int × Int) (h : ClockInv c) :
    ∃ c', clockIter n c = some c' ∧ ClockInv c' := by
  induction n generalizing c with
  | zero => exact ⟨c, rfl, h⟩
  | succ n ih =>
    obtain ⟨c1, h1, h2, _⟩ := clockStep_inv c h
    obtain ⟨c2, h3, h4⟩ := ih c1 h2
    exact ⟨c2, by simp [clockIter, h1, h3], h4⟩

/-- in a state satisfying the invariant the sequence update fires exactly on the 735 grid -/
theorem fires_iff (c : Int × Int × Int) (h : ClockInv c) : c.2.1 ≥ 0 ↔ c.1 % 735 = 0 := by
  obtain ⟨t, sc, pc⟩ := c
  obtain ⟨h0, h147, hs0, hs1, hp0, hp1, hsm, hpm, hz⟩ := h
  simp only at *
  omega

theorem seqUpdate_counters (d : Data) (song : Song) (s : Drv) :
    (seqUpdate d song s).1.seqCounter = s.seqCounter ∧ (seqUpdate d song s).1.pcmCounter = s.pcmCounter := by
  simp [seqUpdate]

theorem stepSeq_counters (d : Data) (song : Song) (s : Drv) :
    (stepSeq d song s).1.seqCounter = (fired s.seqCounter s.pcmCounter).1 ∧ (stepSeq d song s).1.pcmCounter = s.pcmCounter := by
  have h := seqUpdate_counters d song { s with seqCounter := s.seqCounter - seqDelta }
  unfold stepSeq fired
  split
  · exact ⟨h.1, h.2⟩
  · exact ⟨rfl, rfl⟩

theorem stepPcm_counters (s : Drv) :
    (stepPcm s).seqCounter = s.seqCounter ∧ (stepPcm s).pcmCounter = (fired s.seqCounter s.pcmCounter).2 := by
  unfold stepPcm fired
  split <;> exact ⟨rfl, rfl⟩

theorem stepLoop_counters (s : Drv) :
    (stepLoop s).1.seqCounter = s.seqCounter ∧ (stepLoop s).1.pcmCounter = s.pcmCounter := by
  unfold stepLoop
  split <;> exact ⟨rfl, rfl⟩

theorem fired_snd (sc pc pc' : Int) : (fired sc pc).1 = (fired sc pc').1 := rfl
theorem fired_fst (sc sc' pc : Int) : (fired sc pc).2 = (fired sc' pc).2 := rfl

/-- the time part of the model's `playStep` is `advance ∘ fired` on the two counters, whatever
the channels do -/
theorem playStep_clock (d : Data) (song : Song) (s : Drv) :
    match advance (fired s.seqCounter s.pcmCounter).1 (fired s.seqCounter s.pcmCounter).2 with
    | some (sc, pc, dl) =>
      (playStep d song s).1.seqCounter = sc ∧ (playStep d song s).1.pcmCounter = pc ∧ (playStep d song s).2.2 = dl
    | none => (playStep d song s).1.g.err.isSome := by
  have e1 : (stepLoop (stepPcm (stepSeq d song s).1)).1.seqCounter = (fired s.seqCounter s.pcmCounter).1 := by
    rw [(stepLoop_counters _).1, (stepPcm_counters _).1, (stepSeq_counters d song s).1]
  have e2 : (stepLoop (stepPcm (stepSeq d song s).1)).1.pcmCounter = (fired s.seqCounter s.pcmCounter).2 := by
    rw [(stepLoop_counters _).2, (stepPcm_counters _).2, (stepSeq_counters d song s).2]
    exact fired_fst _ _ _
  unfold playStep
  simp only [e1, e2]
  cases advance (fired s.seqCounter s.pcmCounter).1 (fired s.seqCounter s.pcmCounter).2 with
  | none =>
    simp only [G.fail]
    split <;> simp_all
  | some r => obtain ⟨sc, pc, dl⟩ := r; exact ⟨rfl, rfl, rfl⟩

/-- `n` calls of the model's `playStep`, the returned deltas added to `t`; also counts the calls
in which the sequence update ran -/
def runSteps (d : Data) (song : Song) : Nat → Drv → Int → Nat → Drv × Int × Nat
  | 0, s, t, k => (s, t, k)
  | n + 1, s, t, k =>
    let r := playStep d song s
    runSteps d song n r.1 (t + r.2.2) (if s.seqCounter ≥ 0 then k + 1 else k)

/-- number of sequence updates before elapsed time `t`: the multiples of 735 in `[0, t)` -/
def Counted (t : Int) (k : Nat) : Prop := 735 * ((k : Int) - 1) < t ∧ t ≤ 735 * (k : Int)

theorem playStep_inv (d : Data) (song : Song) (s : Drv) (t : Int) (k : Nat)
    (h : ClockInv (t, s.seqCounter, s.pcmCounter)) (hk : Counted t k) :
    let r := playStep d song s
    ClockInv (t + r.2.2, r.1.seqCounter, r.1.pcmCounter) ∧ 147 ≤ r.2.2 ∧ r.2.2 % 147 = 0 ∧ r.2.2 ≤ 735 ∧
      (s.seqCounter ≥ 0 → t = 735 * (k : Int)) ∧
      Counted (t + r.2.2) (if s.seqCounter ≥ 0 then k + 1 else k) ∧
      r.1.g = (stepLoop (stepPcm (stepSeq d song s).1)).1.g := by
  obtain ⟨c', hc, hinv, hd1, hd2, hd3, hskip⟩ := clockStep_inv _ h
  have hpc := playStep_clock d song s
  simp only [clockStep] at hc
  cases hadv : advance (fired s.seqCounter s.pcmCounter).1 (fired s.seqCounter s.pcmCounter).2 with
  | none => simp [hadv] at hc
  | some r =>
    obtain ⟨sc, pc, dl⟩ := r
    simp only [hadv] at hc hpc
    obtain ⟨e1, e2, e3⟩ := hpc
    have hc' : c' = (t + dl, sc, pc) := by
      simp at hc; exact hc.symm
    subst hc'
    simp only at hd1 hd2 hd3 hskip hinv
    have hfire := fires_iff _ h
    simp only at hfire
    obtain ⟨hk1, hk2⟩ := hk
    refine ⟨?_, ?_, ?_, ?_, ?_, ?_, ?_⟩
    · rw [e1, e2, e3]; exact hinv
    · rw [e3]; omega
    · rw [e3]; omega
    · rw [e3]; omega
    · intro hs
      have := hfire.mp hs
      omega
    · rw [e3]
      unfold Counted
      by_cases hs : s.seqCounter ≥ 0
      · have := hfire.mp hs
        simp only [hs, if_true]
        have ht : t = 735 * (k : Int) := by omega
        have hnext := hskip (735 * ((k : Int) + 1))
        push_cast
        constructor
        · omega
        · by_cases hlt : 735 * ((k : Int) + 1) < t + dl
          · exact absurd (by omega) (hnext (by omega) hlt)
          · omega
      · have hn : ¬ t % 735 = 0 := fun hh => hs (hfire.mpr hh)
        simp only [hs, if_false]
        have hnext := hskip (735 * (k : Int))
        constructor
        · omega
        · by_cases hlt : 735 * (k : Int) < t + dl
          · exact absurd (by omega) (hnext (by omega) hlt)
          · omega
    · have e1' : (stepLoop (stepPcm (stepSeq d song s).1)).1.seqCounter = (fired s.seqCounter s.pcmCounter).1 := by
        rw [(stepLoop_counters _).1, (stepPcm_counters _).1, (stepSeq_counters d song s).1]
      have e2' : (stepLoop (stepPcm (stepSeq d song s).1)).1.pcmCounter = (fired s.seqCounter s.pcmCounter).2 := by
        rw [(stepLoop_counters _).2, (stepPcm_counters _).2, (stepSeq_counters d song s).2]
        exact fired_fst _ _ _
      unfold playStep
      simp only [e1', e2', hadv]

theorem runSteps_inv (d : Data) (song : Song) (n : Nat) (s : Drv) (t : Int) (k : Nat)
    (h : ClockInv (t, s.seqCounter, s.pcmCounter)) (hk : Counted t k) :
    let r := runSteps d song n s t k
    ClockInv (r.2.1, r.1.seqCounter, r.1.pcmCounter) ∧ Counted r.2.1 r.2.2 := by
  induction n generalizing s t k with
  | zero => exact ⟨h, hk⟩
  | succ n ih =>
    have hp := playStep_inv d song s t k h hk
    simp only [runSteps]
    exact ih _ _ _ hp.1 hp.2.2.2.2.2.1

/-- state before the `n`-th call of `play_step` during an export: (driver, elapsed samples,
number of sequence updates so far) -/
def before (d : Data) (song : Song) (n : Nat) : Drv × Int × Nat :=
  runSteps d song n (playSong d song).1 0 0

theorem before_inv (d : Data) (song : Song) (n : Nat) :
    ClockInv ((before d song n).2.1, (before d song n).1.seqCounter, (before d song n).1.pcmCounter) ∧
      Counted (before d song n).2.1 (before d song n).2.2 := by
  have h0 : ClockInv (0, (playSong d song).1.seqCounter, (playSong d song).1.pcmCounter) := by
    have : (playSong d song).1.seqCounter = 0 ∧ (playSong d song).1.pcmCounter = 0 := by simp [playSong]
    rw [this.1, this.2]; exact clockInv_init
  exact runSteps_inv d song n _ 0 0 h0 (by unfold Counted; simp)

/-- data bytes written to the YM2612 key register 0x28 (port 0), in order -/
def keyData : List Vgm.Op → List Nat
  | [] => []
  | .write 0x52 _ 0x28 dat :: r => dat :: keyData r
  | _ :: r => keyData r

/-! ### sample time stamps of the log -/
def delaySum : List Vgm.Op → Nat
  | [] => 0
  | .delay n :: r => n + delaySum r
  | _ :: r => delaySum r

/-- every op that is not a delay, with the sum of the delays before it (counted from `t`) -/
def stamps : Nat → List Vgm.Op → List (Nat × Vgm.Op)
  | _, [] => []
  | t, .delay n :: r => stamps (t + n) r
  | t, o :: r => (t, o) :: stamps t r

def isWrite : Vgm.Op → Bool
  | .write .. => true
  | _ => false

def isDelay : Vgm.Op → Bool
  | .delay _ => true
  | _ => false

theorem stamps_append (t : Nat) (a b : List Vgm.Op) :
    stamps t (a ++ b) = stamps t a ++ stamps (t + delaySum a) b := by
  induction a generalizing t with
  | nil => simp [stamps, delaySum]
  | cons x r ih =>
    cases x <;> simp [stamps, delaySum, ih, Nat.add_assoc]

theorem delaySum_append (a b : List Vgm.Op) : delaySum (a ++ b) = delaySum a + delaySum b := by
  induction a with
  | nil => simp [delaySum]
  | cons x r ih => cases x <;> simp [delaySum, ih, Nat.add_assoc]

theorem stamps_noDelay (t : Nat) (o : List Vgm.Op) (h : ∀ x ∈ o, isDelay x = false) :
    stamps t o = o.map (fun x => (t, x)) ∧ delaySum o = 0 := by
  induction o with
  | nil => simp [stamps, delaySum]
  | cons x r ih =>
    have hx := h x (by simp)
    have hr := ih (fun y hy => h y (by simp [hy]))
    cases x <;> simp_all [stamps, delaySum, isDelay]

theorem toOps_noDelay (w : Wr) : ∀ x ∈ w.toOps, isDelay x = false := by
  intro x hx
  unfold Wr.toOps at hx
  rcases List.mem_cons.mp hx with rfl | hx
  · rfl
  · cases hd : w.dac <;> rw [hd] at hx <;> simp at hx <;> subst hx <;> rfl

theorem playStep_ops (d : Data) (song : Song) (s : Drv) :
    (∀ x ∈ (playStep d song s).2.1, isDelay x = false) ∧
    (s.seqCounter < 0 → ∀ x ∈ (playStep d song s).2.1, isWrite x = false) := by
  have hl : ∀ (s' : Drv), (stepLoop s').2 = [] ∨ (stepLoop s').2 = [Vgm.Op.setLoop] := by
    intro s'; unfold stepLoop; split <;> simp
  have hout : (playStep d song s).2.1 =
      (stepSeq d song s).2.flatMap Wr.toOps ++ (stepLoop (stepPcm (stepSeq d song s).1)).2 := by
    unfold playStep
    simp only
    split <;> rfl
  rw [hout]
  constructor
  · intro x hx
    rcases List.mem_append.mp hx with h | h
    · obtain ⟨w, _, hw⟩ := List.mem_flatMap.mp h
      exact toOps_noDelay w x hw
    · rcases hl (stepPcm (stepSeq d song s).1) with e | e <;> rw [e] at h <;> simp at h
      subst h; rfl
  · intro hneg x hx
    have hs : (stepSeq d song s).2 = [] := by
      unfold stepSeq
      have : ¬ s.seqCounter ≥ 0 := by omega
      simp [this]
    rw [hs] at hx
    simp at hx
    rcases hl (stepPcm (stepSeq d song s).1) with e | e <;> rw [e] at hx <;> simp at hx
    subst hx; rfl

theorem counted_exists (t : Int) (h : 0 ≤ t) : ∃ k : Nat, Counted t k := by
  refine ⟨((t + 734) / 735).toNat, ?_⟩
  unfold Counted
  have : (((t + 734) / 735).toNat : Int) = (t + 734) / 735 := Int.toNat_of_nonneg (by omega)
  rw [this]
  omega

/-- **Every register write of the export loop sits on the 60 Hz grid**: in the op list the
loop produces, the delays before any `write` sum to a multiple of 735 samples. -/
theorem exportLoop_on_grid (d : Data) (song : Song) (fuel : Nat) (s : Drv) (elapsed delta : Int) (acc : List Vgm.Op)
    (hinv : ClockInv (elapsed, s.seqCounter, s.pcmCounter)) (hd : 0 ≤ delta)
    (hsum : (delaySum acc : Int) + delta = elapsed)
    (hacc : ∀ p ∈ stamps 0 acc, isWrite p.2 = true → p.1 % 735 = 0) :
    ∀ p ∈ stamps 0 (exportLoop d song fuel s elapsed delta acc).2, isWrite p.2 = true → p.1 % 735 = 0 := by
  induction fuel generalizing s elapsed delta acc with
  | zero => simpa [exportLoop] using hacc
  | succ fuel ih =>
    unfold exportLoop
    by_cases hmax : elapsed ≥ maxTime
    · simpa [hmax] using hacc
    · simp only [hmax, if_false]
      obtain ⟨k, hk⟩ := counted_exists elapsed hinv.1
      have hp := playStep_inv d song s elapsed k hinv hk
      have hops := playStep_ops d song s
      have hfire := fires_iff _ hinv
      generalize hps : playStep d song s = r at hp hops
      obtain ⟨s', o, dl⟩ := r
      simp only at hp hops hfire ⊢
      -- the stamps of the extended list
      have hnd := stamps_noDelay (0 + delaySum acc + delta.toNat) o hops.1
      have hst : stamps 0 (acc ++ Vgm.Op.delay delta.toNat :: o) =
          stamps 0 acc ++ o.map (fun x => (0 + delaySum acc + delta.toNat, x)) := by
        rw [stamps_append]
        simp only [stamps]
        rw [hnd.1]
      have hds : delaySum (acc ++ Vgm.Op.delay delta.toNat :: o) = delaySum acc + delta.toNat := by
        rw [delaySum_append]
        simp [delaySum, hnd.2]
      have hnew : ∀ p ∈ stamps 0 (acc ++ Vgm.Op.delay delta.toNat :: o), isWrite p.2 = true → p.1 % 735 = 0 := by
        intro p hpm hw
        rw [hst] at hpm
        rcases List.mem_append.mp hpm with h | h
        · exact hacc p h hw
        · obtain ⟨x, hx, rfl⟩ := List.mem_map.mp h
          simp only at hw ⊢
          by_cases hs : s.seqCounter ≥ 0
          · have := hfire.mp hs
            omega
          · have := hops.2 (by omega) x hx
            rw [this] at hw
            exact absurd hw (by simp)
      split
      · exact hnew
      · split
        · exact hnew
        · apply ih s' (elapsed + dl) dl _ hp.1 (by omega) (by rw [hds]; push_cast; omega) hnew

/-! ### the tempo accumulator -/
theorem pow_shift : (2 : Nat) ^ md_tempo_shift = 128 := by decide

/-- `n` sequence updates at constant tempo: (ticks played, counter) -/
def tempoRun : Nat → Nat → Nat → Nat × Nat
  | 0, c, _ => (0, c)
  | n + 1, c, d =>
    let s := tempoStep c d
    let r := tempoRun n s.2 d
    (s.1 + r.1, r.2)

theorem tempoRun_closed (n c d : Nat) (hc : c < 128) :
    tempoRun n c d = ((c + n * (d + 1)) / 128, (c + n * (d + 1)) % 128) := by
  induction n generalizing c with
  | zero => simp [tempoRun]; omega
  | succ n ih =>
    have hlt : (c + d + 1) % 128 < 128 := Nat.mod_lt _ (by decide)
    simp only [tempoRun, tempoStep, pow_shift, ih _ hlt]
    have e : (n + 1) * (d + 1) = n * (d + 1) + d + 1 := by
      rw [Nat.succ_mul]; omega
    rw [e]
    generalize n * (d + 1) = m
    simp only [Prod.mk.injEq]
    omega

/-! ### volume formulas -/
theorem fmVolAdd_coarse_antitone (v v' : Int) (h : v ≤ v') : fmVolAdd true v' ≤ fmVolAdd true v := by
  simp only [fmVolAdd, md_fm_vol_formula, if_true]
  split <;> split <;> omega

theorem fmTl_mono (tl con op : Nat) (a a' : Int) (h : a ≤ a') : fmTl tl con op a ≤ fmTl tl con op a' := by
  unfold fmTl
  simp only [md_fm_tl_max]
  by_cases hc : op ≥ tab md_opn_con_op con
  · simp only [hc, if_true]
    split <;> split <;> (try split) <;> (try split) <;> omega
  · simp only [hc, if_false]
    exact Nat.le_refl _

theorem psgVolume_mono (v v' : Nat) (h : v ≤ v') : psgVolume v ≤ psgVolume v' := by
  simp only [psgVolume, md_psg_volume_rule]
  split <;> split <;> (try split) <;> (try split) <;> (try split) <;> (try split) <;> omega

end Ctrmml.MdDriver
