/-
  C01, layers 2–3 — the depth side of the loop fold (repair of D18).

  `wrapTrack src p q` is the source track with the period `[p, q)` of a loop candidate wrapped in one
  more loop `[ … ]1`.  `applyMatch_loop_keeps_valid`: if the song validates with the period of the
  match wrapped like that — the period has one stack frame of headroom in every performance that
  reaches it — then the song `apply_match` produces validates.  The new loop encloses exactly the
  period (`LoopOK.room` is the budget test `find_match` applies to exactly those events since the
  repair), everything else keeps its depth.
-/
import Ctrmml.Proofs.OptChain
import Ctrmml.Proofs.RewriteDepth
namespace Ctrmml.C01
open Ctrmml Ctrmml.Tree Ctrmml.Expand Ctrmml.Rewrite Ctrmml.Opt Ctrmml.OptSteps Tables

/-- the track with the events `[p, q)` wrapped in one more loop, played once: `LOOP_START` before
index `p`, `LOOP_END 1` before index `q` -/
def wrapTrack (src : List Event) (p q : Nat) : List Event :=
  src.take p ++ lsEv :: ((src.drop p).take (q - p) ++ leEv 1 :: src.drop q)

theorem wrapTrack_of_split {pre A R : List Event} {p q : Nat} (hp : pre.length = p) (hA : A.length = q - p)
    (hpq : p ≤ q) : wrapTrack (pre ++ A ++ R) p q = pre ++ lsEv :: (A ++ leEv 1 :: R) := by
  unfold wrapTrack
  have h1 : (pre ++ A ++ R).take p = pre := by
    rw [List.append_assoc, List.take_append_of_le_length (by omega), List.take_of_length_le (by omega)]
  have h2 : (pre ++ A ++ R).drop p = A ++ R := by
    rw [List.append_assoc, ← hp, List.drop_left]
  have h3 : (pre ++ A ++ R).drop q = R := by
    have : q = (pre ++ A).length := by rw [List.length_append]; omega
    rw [this, List.drop_left]
  rw [h1, h2, h3, List.take_append_of_le_length (by omega), List.take_of_length_le (by omega)]

theorem normE_lsEv : normE lsEv = lsEv := normE_of_ne (by decide)
theorem normE_leEv (n : Int) : normE (leEv n) = leEv n :=
  normE_of_ne (by show ev_LOOP_END ≠ ev_LOOP_BREAK; decide)

theorem normL_wrapTrack (x : List Event) (p q : Nat) : normL (wrapTrack x p q) = wrapTrack (normL x) p q := by
  unfold wrapTrack normL
  simp only [List.map_append, List.map_cons, List.map_take, List.map_drop, normE_lsEv, normE_leEv]

theorem flattenL_foldSrcW (A0 A1 : List Node) (k : Nat) (ls0 le0 : Event) :
    flattenL (foldSrcW A0 A1 k ls0 le0) =
      ls0 :: (flattenL (A0 ++ A1) ++ le0 :: ((List.replicate k (flattenL (A0 ++ A1))).flatten ++ flattenL A0)) := by
  simp only [foldSrcW, flattenL, flattenN, flattenL_append, flattenL_replicate, List.cons_append,
    List.append_assoc, List.nil_append]

theorem flattenL_fold0SrcW (A : List Node) (k : Nat) (ls0 le0 : Event) :
    flattenL (fold0SrcW A k ls0 le0) =
      ls0 :: (flattenL A ++ le0 :: (List.replicate k (flattenL A)).flatten) := by
  simp only [fold0SrcW, flattenL, flattenN, flattenL_replicate, List.cons_append,
    List.append_assoc, List.nil_append]

/-- validity of every track of a song, from the lookups -/
theorem validAll_of_isOk {s : Song} (hnd : (s.tracks.map (·.1)).Nodup)
    (h : ∀ id t, s.track? id = some t → isOk (perf s t)) : validAll s = true := by
  unfold validAll
  rw [List.all_eq_true]
  intro p hp
  have hlk : s.track? p.1 = some p.2 := lookup_of_mem_nodup hnd (by simpa using hp)
  obtain ⟨x, hx⟩ := h p.1 p.2 hlk
  simp [hx]

/-- **The loop branch of `apply_match` keeps the song valid if the period of the match has one stack
frame of headroom** (`hroom`: the song validates with the period `[position, loopPosition)` wrapped in
one more loop).  Every track of the new song — the folded one and every track that reaches it through
calls — validates. -/
theorem applyMatch_loop_keeps_valid {song : Song} {m : SAMap} {bm : Match} {src : List Event}
    (hok : LoopOK song m bm) (hsrc : song.track? bm.trackId = some src) (hne : NoEnd src) (hbz : BrkZero src)
    (hroom : validAll (setTrack song bm.trackId (wrapTrack src bm.position bm.loopPosition)) = true)
    (id : Nat) (t' : List Event)
    (ht' : (setTrack song bm.trackId (foldedTrack src bm.position bm.loopPosition
      (capLoopLength (bm.loopPosition - bm.position) bm.loopLength))).track? id = some t') :
    isOk (perf (setTrack song bm.trackId (foldedTrack src bm.position bm.loopPosition
      (capLoopLength (bm.loopPosition - bm.position) bm.loopLength))) t') := by
  have hw := (hok.window hsrc hbz).cap hok.lt
  have hrep := capLoopLength_rep bm.loopLength (Nat.sub_pos_of_lt hok.lt)
  obtain ⟨p, hp⟩ : ∃ p, p = bm.position := ⟨_, rfl⟩
  obtain ⟨q, hq⟩ : ∃ q, q = bm.loopPosition := ⟨_, rfl⟩
  obtain ⟨L, hL⟩ : ∃ L, L = capLoopLength (bm.loopPosition - bm.position) bm.loopLength := ⟨_, rfl⟩
  have hpq : p < q := by rw [hp, hq]; exact hok.lt
  rw [← hL] at hw hrep ht' ⊢
  rw [← hp, ← hq] at hw hrep ht' hroom ⊢
  obtain ⟨pre, hpre⟩ : ∃ pre, pre = src.take p := ⟨_, rfl⟩
  obtain ⟨A, hA⟩ : ∃ A, A = (src.drop p).take (q - p) := ⟨_, rfl⟩
  obtain ⟨post, hpost⟩ : ∃ post, post = src.drop (q + L) := ⟨_, rfl⟩
  obtain ⟨k, hk⟩ : ∃ k, k = L / (q - p) := ⟨_, rfl⟩
  obtain ⟨bp, hbp⟩ : ∃ bp, bp = L % (q - p) := ⟨_, rfl⟩
  have hlen := hw.len
  have hprel : pre.length = p := by rw [hpre, List.length_take]; omega
  have hAl : A.length = q - p := by rw [hA, List.length_take, List.length_drop]; omega
  have hneA : NoEnd A := by rw [hA]; exact noEnd_take (noEnd_drop hne p) _
  obtain ⟨c0, b0, f0⟩ := forest_of_scan (l := A.take bp) (noEnd_take hneA bp) (by rw [hA, hbp]; exact hw.bal0)
  obtain ⟨c1, b1, f1⟩ := forest_of_scan (l := A.drop bp) (noEnd_drop hneA bp) (by rw [hA, hbp]; exact hw.bal1)
  -- the song with the later copies replaced by exact copies of `A`
  let src1 := pre ++ (A ++ (List.replicate k A).flatten ++ A.take bp) ++ post
  have hn1 : normL src1 = normL src := by
    have hs := split4 src p q L (Nat.le_of_lt hpq)
    have hper := hw.per
    rw [← hA, ← hk, ← hbp] at hper
    conv => rhs; rw [hs]
    simp only [src1, normL, List.map_append, ← hpre, ← hA, ← hpost] at hper ⊢
    rw [hper]
    simp [List.append_assoc]
  -- wrapped: `pre ++ [ A ]1 ++ A^k ++ A[0,bp) ++ post`
  have hw1 : wrapTrack src1 p q =
      pre ++ lsEv :: (A ++ leEv 1 :: ((List.replicate k A).flatten ++ A.take bp ++ post)) := by
    have : src1 = pre ++ A ++ ((List.replicate k A).flatten ++ A.take bp ++ post) := by
      simp only [src1, List.append_assoc]
    rw [this]
    exact wrapTrack_of_split hprel hAl (Nat.le_of_lt hpq)
  have hbw : BrkEqv (setTrack song bm.trackId (wrapTrack src p q)) (setTrack song bm.trackId (wrapTrack src1 p q)) := by
    intro id
    rw [track?_setTrack hsrc, track?_setTrack hsrc]
    split
    · simp only [Option.map_some, Option.some.injEq]
      rw [normL_wrapTrack, normL_wrapTrack, hn1]
    · rfl
  -- the track `id` before the fold, in the wrapped songs
  obtain ⟨t0, ht0⟩ : ∃ t0, song.track? id = some t0 := by
    rw [track?_setTrack hsrc] at ht'
    split at ht'
    · rename_i h; rw [h]; exact ⟨src, hsrc⟩
    · exact ⟨t', ht'⟩
  obtain ⟨tw, htw⟩ : ∃ tw, (setTrack song bm.trackId (wrapTrack src p q)).track? id = some tw := by
    rw [track?_setTrack hsrc]
    split
    · exact ⟨_, rfl⟩
    · exact ⟨t0, ht0⟩
  obtain ⟨x, hx⟩ := validAll_ok hroom htw
  obtain ⟨tw1, htw1, hnw⟩ : ∃ tw1, (setTrack song bm.trackId (wrapTrack src1 p q)).track? id = some tw1 ∧
      normL tw = normL tw1 := by
    have := hbw id
    rw [htw] at this
    cases h1 : (setTrack song bm.trackId (wrapTrack src1 p q)).track? id with
    | none => rw [h1] at this; simp at this
    | some tw1 =>
      rw [h1] at this
      simp only [Option.map_some, Option.some.injEq] at this
      exact ⟨tw1, rfl, this.symm⟩
  obtain ⟨x1, hx1, _⟩ := (perf_brk hbw hnw).ok_left hx
  -- relate the wrapped song (exact copies) to the folded song at the same depth
  by_cases hb0 : bp = 0
  · -- no remainder: `[A]1 · A^k ↦ [A](k+1)`
    obtain ⟨cA, bA, fA⟩ := forest_of_scan hneA (by rw [hA]; exact hw.balA)
    have hfold : foldedTrack src p q L = pre ++ fold0X' (parse A) lsEv (leEv ((k : Int) + 1)) ++ post := by
      rw [foldedTrack_nobreak hpq hw.len (by rw [← hbp]; exact hb0) hrep, ← hpre, ← hA, ← hpost, ← hk]
      simp [fold0X', fA]
    have hwf1 : wrapTrack src1 p q = pre ++ flattenL (fold0SrcW (parse A) k lsEv (leEv 1)) ++ post := by
      rw [hw1, flattenL_fold0SrcW, fA, hb0]
      simp [List.append_assoc]
    refine perf_le (setTrack song bm.trackId (wrapTrack src1 p q)) _
      (fold0SrcW_closed cA k lsEv_kind (leEv_kind _))
      (by simp [fold0Dst, closedL, Node.closed, cA, lsEv_kind, leEv_kind] : closedL (fold0Dst (parse A) lsEv (leEv ((k : Int) + 1))))
      (fun _ hc => wrapfold0_FLe hc (parse A) k lsEv (leEv 1) lsEv (leEv ((k : Int) + 1)) bA rfl)
      ?_ ?_ ⟨x1, hx1⟩
    · intro id evs he
      rw [track?_setTrack hsrc] at he ⊢
      split at he
      · rename_i h
        simp only [h, if_true]
        cases he
        refine ⟨_, rfl, ?_⟩
        rw [hfold, hwf1, fold0DstX_eq]
        exact ERel.ctx _ _ pre post
      · rename_i h
        simp only [h, if_false]
        exact ⟨evs, he, ERel.refl _ _ _⟩
    · rw [track?_setTrack hsrc] at htw1 ht'
      split at htw1
      · rename_i h
        simp only [h, if_true] at ht'
        cases htw1; cases ht'
        rw [hfold, hwf1, fold0DstX_eq]
        exact ERel.ctx _ _ pre post
      · rename_i h
        simp only [h, if_false] at ht'
        rw [ht'] at htw1
        cases htw1
        exact ERel.refl _ _ _
  · -- remainder: `[A0 A1]1 · A^k · A0 ↦ [A0 / A1](k+2)`
    have hfold : foldedTrack src p q L =
        pre ++ foldX' (parse (A.take bp)) (parse (A.drop bp)) lsEv lbEv (leEv ((k : Int) + 2)) ++ post := by
      rw [foldedTrack_break hpq hw.len (by rw [← hbp]; exact hb0) hrep, ← hpre, ← hA, ← hpost, ← hk, ← hbp]
      simp [foldX', f0, f1]
    have hwf1 : wrapTrack src1 p q =
        pre ++ flattenL (foldSrcW (parse (A.take bp)) (parse (A.drop bp)) k lsEv (leEv 1)) ++ post := by
      rw [hw1, flattenL_foldSrcW, flattenL_append, f0, f1, List.take_append_drop]
      simp only [List.append_assoc, List.cons_append]
    refine perf_le (setTrack song bm.trackId (wrapTrack src1 p q)) _
      (foldSrcW_closed c0 c1 k lsEv_kind (leEv_kind _))
      (foldDst_closed c0 c1 lsEv_kind lbEv_kind (leEv_kind _))
      (fun _ hc => wrapfold_FLe hc _ _ k lsEv (leEv 1) lsEv lbEv (leEv ((k : Int) + 2)) b0 b1 rfl)
      ?_ ?_ ⟨x1, hx1⟩
    · intro id evs he
      rw [track?_setTrack hsrc] at he ⊢
      split at he
      · rename_i h
        simp only [h, if_true]
        cases he
        refine ⟨_, rfl, ?_⟩
        rw [hfold, hwf1, foldDstX_eq]
        exact ERel.ctx _ _ pre post
      · rename_i h
        simp only [h, if_false]
        exact ⟨evs, he, ERel.refl _ _ _⟩
    · rw [track?_setTrack hsrc] at htw1 ht'
      split at htw1
      · rename_i h
        simp only [h, if_true] at ht'
        cases htw1; cases ht'
        rw [hfold, hwf1, foldDstX_eq]
        exact ERel.ctx _ _ pre post
      · rename_i h
        simp only [h, if_false] at ht'
        rw [ht'] at htw1
        cases htw1
        exact ERel.refl _ _ _

end Ctrmml.C01
