/-
  Helper lemmas for C20, part 2: how the parser model consumes the pieces of a rendering
  (filler, keys, node forms, lists).  No property statements here.
-/
import Ctrmml.Proofs.ConfFuel
import Ctrmml.Spec.ConfRender
namespace Ctrmml.ConfModel
open Ctrmml Ctrmml.ConfSpec

/-! ### the loop, one step at a time (fuel-free) -/
section steps
variable (k : List Char) (rk : Bool) (cs : List Char)

theorem loopF_nil : loopF k rk [] = finish k rk [] := by rw [loopF_unfold, loopBody_nil]
theorem loopF_rbrace : loopF k rk ('}' :: cs) = finish k rk ('}' :: cs) := by
  rw [loopF_unfold, loopBody_rbrace]
theorem loopF_word (c : Char) (h : isBreak c = false) :
    loopF k rk (c :: cs) =
      if rk then finish k rk (c :: cs) else loopF (spanWord (c :: cs)).1 true (spanWord (c :: cs)).2 := by
  rw [loopF_unfold, loopBody_word _ _ _ _ _ _ h]
theorem loopF_quote :
    loopF k rk ('"' :: cs) = if rk then finish k rk ('"' :: cs) else loopF (quoted k cs).1 true (quoted k cs).2 := by
  rw [loopF_unfold, loopBody_quote]
theorem loopF_colon :
    loopF k rk (':' :: cs) =
      match loopF [] false cs with
      | .ok (sub, tl) => .ok (some (.mk k sub.toList), tl)
      | .error e => .error e := by
  rw [loopF_unfold, loopBody_colon]
  rfl
theorem loopF_comma : loopF k rk (',' :: cs) = .ok (some (.mk k []), cs) := by
  rw [loopF_unfold, loopBody_comma]
theorem loopF_semicolon : loopF k rk (';' :: cs) = loopF k rk (skipComment cs) := by
  rw [loopF_unfold, loopBody_semicolon]
theorem loopF_lbrace :
    loopF k rk ('{' :: cs) =
      match blockF [] cs with
      | .ok (subs, tl) =>
        match tl with
        | d :: tl' => if d = '}' then .ok (some (.mk k subs), tl') else .error .missingBrace
        | [] => .error .missingBrace
      | .error e => .error e := by
  rw [loopF_unfold, loopBody_lbrace]
  rfl
theorem loopF_blank (c : Char) (h : c = ' ' ∨ c = '\t' ∨ c = '\r' ∨ c = '\n') :
    loopF k rk (c :: cs) = loopF k rk (cs.dropWhile isSpace) := by
  rw [loopF_unfold, loopBody_blank _ _ _ _ _ _ h]
end steps

theorem blockF_nil (acc) : blockF acc [] = .ok (acc, []) := by rw [blockF_unfold]; rfl
theorem blockF_rbrace (acc r) : blockF acc ('}' :: r) = .ok (acc, '}' :: r) := by
  rw [blockF_unfold]; simp [blockBody]

theorem blockF_stop (acc tl) (h : tl = [] ∨ ∃ r, tl = '}' :: r) : blockF acc tl = .ok (acc, tl) := by
  rcases h with h | ⟨r, h⟩ <;> subst h
  · exact blockF_nil _
  · exact blockF_rbrace _ _

/-- a `parse_token` call that pushed a subkey: the `{` loop goes on behind it -/
theorem blockF_of_loop {acc s e tl} (h : loopF [] false s = .ok (some e, tl)) :
    blockF acc s = blockF (acc ++ [e]) tl := by
  cases s with
  | nil => rw [loopF_nil] at h; simp [finish] at h
  | cons c cs =>
    by_cases hc : c = '}'
    · subst hc; rw [loopF_rbrace] at h; simp [finish] at h
    · rw [blockF_unfold]
      simp only [blockBody, hc, if_false, h, Option.toList]

/-- a `parse_token` call that only skipped filler and stopped at the end or at a `}` -/
theorem blockF_of_loop_none {acc s tl} (h : loopF [] false s = .ok (none, tl))
    (ht : tl = [] ∨ ∃ r, tl = '}' :: r) : blockF acc s = .ok (acc, tl) := by
  cases s with
  | nil =>
    rw [loopF_nil] at h; simp [finish] at h; subst h; exact blockF_nil _
  | cons c cs =>
    by_cases hc : c = '}'
    · subst hc; rw [loopF_rbrace] at h; simp [finish] at h; subst h; exact blockF_rbrace _ _
    · rw [blockF_unfold]
      simp only [blockBody, hc, if_false, h, Option.toList, List.append_nil]
      exact blockF_stop _ _ ht

/-! ### spec character classes = model character classes -/

theorem isBlank_iff (c : Char) : isBlank c = true ↔ (c = ' ' ∨ c = '\t' ∨ c = '\r' ∨ c = '\n') := by
  simp [isBlank, or_assoc]

theorem isWhite_eq (c : Char) : isWhite c = isSpace c := by
  simp only [isWhite, isBlank, isSpace]
  generalize (c == ' ') = a
  generalize (c == '\t') = b
  generalize (c == '\r') = d
  generalize (c == '\n') = e
  generalize (c == Char.ofNat 11) = f
  generalize (c == Char.ofNat 12) = g
  cases a <;> cases b <;> cases d <;> cases e <;> cases f <;> cases g <;> rfl

theorem delims_contains (c : Char) : delims.contains c = isBreak c := by
  have : Tables.conf_breakChars = delims := by decide
  simp [isBreak, this]

theorem mem_delims (c : Char) : c ∈ delims ↔ isBreak c = true := by
  rw [← delims_contains]; simp

theorem isNewline_iff (c : Char) : isNewline c = true ↔ (c = '\n' ∨ c = '\r') := by
  simp [isNewline]

theorem blank_isSpace {c : Char} (h : c = ' ' ∨ c = '\t' ∨ c = '\r' ∨ c = '\n') : isSpace c = true := by
  rcases h with h | h | h | h <;> subst h <;> decide

/-! ### filler -/

/-- the text does not begin with VT/FF (white space that is not a delimiter) -/
def StartOk (x : List Char) : Prop :=
  ∀ c cs, x = c :: cs → isSpace c = true → (c = ' ' ∨ c = '\t' ∨ c = '\r' ∨ c = '\n')

theorem startOk_nil : StartOk [] := by intro c cs h; simp at h
theorem startOk_cons {c : Char} {cs} (h : isSpace c = false ∨ (c = ' ' ∨ c = '\t' ∨ c = '\r' ∨ c = '\n')) :
    StartOk (c :: cs) := by
  intro c' cs' e hs
  simp at e
  obtain ⟨rfl, _⟩ := e
  rcases h with h | h
  · rw [h] at hs; cases hs
  · exact h

theorem loopF_dropSpace (k rk) (s : List Char) (hs : StartOk s) :
    loopF k rk (s.dropWhile isSpace) = loopF k rk s := by
  cases s with
  | nil => rfl
  | cons c cs =>
    cases hsp : isSpace c
    · rw [List.dropWhile_cons_of_neg (by simp [hsp])]
    · rw [List.dropWhile_cons_of_pos hsp, loopF_blank _ _ _ _ (hs c cs rfl hsp)]

theorem dropWhile_append_all (p : Char → Bool) (a b : List Char) (h : ∀ c ∈ a, p c = true) :
    (a ++ b).dropWhile p = b.dropWhile p := by
  induction a with
  | nil => rfl
  | cons c cs ih =>
    rw [List.cons_append, List.dropWhile_cons_of_pos (h c (by simp))]
    exact ih (fun c hc => h c (by simp [hc]))

theorem skipComment_body (body : List Char) (nl : Char) (rest : List Char)
    (hb : ∀ c ∈ body, isNewline c = false) (hn : isNewline nl = true) :
    skipComment (body ++ nl :: rest) = nl :: rest := by
  induction body with
  | nil =>
    have := (isNewline_iff nl).1 hn
    simp [skipComment, this]
  | cons c cs ih =>
    have hc := hb c (by simp)
    have : ¬ (c = '\n' ∨ c = '\r') := by rw [← isNewline_iff]; simp [hc]
    simp only [List.cons_append, skipComment, this, if_false]
    exact ih (fun c hc => hb c (by simp [hc]))

theorem skipComment_all (body : List Char) (hb : ∀ c ∈ body, isNewline c = false) : skipComment body = [] := by
  induction body with
  | nil => rfl
  | cons c cs ih =>
    have hc := hb c (by simp)
    have : ¬ (c = '\n' ∨ c = '\r') := by rw [← isNewline_iff]; simp [hc]
    simp only [skipComment, this, if_false]
    exact ih (fun c hc => hb c (by simp [hc]))

theorem gapItem_head (it : GapItem) (h : it.legal = true) :
    ∃ c cs, it.text = c :: cs ∧ (c = ';' ∨ c = ' ' ∨ c = '\t' ∨ c = '\r' ∨ c = '\n') := by
  cases it with
  | ws c more =>
    simp [GapItem.legal] at h
    exact ⟨c, more, rfl, Or.inr ((isBlank_iff c).1 h.1)⟩
  | comment body nl => exact ⟨';', body ++ [nl], rfl, Or.inl rfl⟩

/-- a non-empty legal filler starts with a blank or `;` -/
theorem gap_head (g : Gap) (h : gapLegal g = true) (hne : g ≠ []) (x : List Char) :
    ∃ c cs, gapText g ++ x = c :: cs ∧ (c = ';' ∨ c = ' ' ∨ c = '\t' ∨ c = '\r' ∨ c = '\n') := by
  cases g with
  | nil => exact absurd rfl hne
  | cons it g' =>
    simp [gapLegal] at h
    obtain ⟨c, cs, e, hc⟩ := gapItem_head it h.1
    exact ⟨c, cs ++ (gapText g' ++ x), by simp [gapText, e], hc⟩

theorem startOk_of_head {x : List Char} (h : ∃ c cs, x = c :: cs ∧ (c = ';' ∨ c = ' ' ∨ c = '\t' ∨ c = '\r' ∨ c = '\n')) :
    StartOk x := by
  obtain ⟨c, cs, rfl, hc⟩ := h
  rcases hc with hc | hc
  · subst hc; exact startOk_cons (Or.inl (by decide))
  · exact startOk_cons (Or.inr hc)

theorem startOk_gap (g : Gap) (h : gapLegal g = true) (x : List Char) (hx : StartOk x) :
    StartOk (gapText g ++ x) := by
  cases g with
  | nil => simpa [gapText] using hx
  | cons it g' => exact startOk_of_head (gap_head _ h (by simp) x)

theorem loopF_gapItem (k rk) (it : GapItem) (h : it.legal = true) (rest : List Char) (hr : StartOk rest) :
    loopF k rk (it.text ++ rest) = loopF k rk rest := by
  cases it with
  | ws c more =>
    simp [GapItem.legal] at h
    have hb := (isBlank_iff c).1 h.1
    simp only [GapItem.text, List.cons_append]
    rw [loopF_blank _ _ _ _ hb, dropWhile_append_all _ _ _ (fun c hc => by rw [← isWhite_eq]; exact h.2 c hc)]
    exact loopF_dropSpace _ _ _ hr
  | comment body nl =>
    simp [GapItem.legal] at h
    simp only [GapItem.text, List.cons_append, List.append_assoc, List.nil_append]
    rw [loopF_semicolon, skipComment_body body nl rest (fun c hc => by simpa using h.1 c hc) h.2]
    have hb : nl = ' ' ∨ nl = '\t' ∨ nl = '\r' ∨ nl = '\n' := by
      rcases (isNewline_iff nl).1 h.2 with e | e <;> simp [e]
    rw [loopF_blank _ _ _ _ hb]
    exact loopF_dropSpace _ _ _ hr

/-- filler is skipped whatever the state `(k, read_key)` -/
theorem loopF_gap (k rk) (g : Gap) (h : gapLegal g = true) (x : List Char) (hx : StartOk x) :
    loopF k rk (gapText g ++ x) = loopF k rk x := by
  induction g with
  | nil => rfl
  | cons it g' ih =>
    simp [gapLegal] at h
    have h' : gapLegal g' = true := by simp [gapLegal]; exact h.2
    have e : gapText (it :: g') ++ x = it.text ++ (gapText g' ++ x) := by simp [gapText]
    rw [e, loopF_gapItem _ _ it h.1 _ (startOk_gap g' h' x hx)]
    exact ih h'

/-! ### what ends a key that stands alone -/

/-- the text ends a bare word: it is empty or begins with a delimiter -/
def WordEnd (y : List Char) : Prop := y = [] ∨ ∃ c cs, y = c :: cs ∧ isBreak c = true

/-- where the loop stops once a key has been read -/
def Halt (x : List Char) : Prop :=
  x = [] ∨ ∃ c cs, x = c :: cs ∧ (c = '}' ∨ c = '"' ∨ (isBreak c = false ∧ isSpace c = false))

theorem halt_startOk {x} (h : Halt x) : StartOk x := by
  rcases h with h | ⟨c, cs, rfl, h⟩
  · subst h; exact startOk_nil
  · rcases h with h | h | h
    · subst h; exact startOk_cons (Or.inl (by decide))
    · subst h; exact startOk_cons (Or.inl (by decide))
    · exact startOk_cons (Or.inl h.2)

/-- `y` = filler, then a place where the loop stops (`x` is what is left there) -/
inductive AfterKey : List Char → List Char → Prop
  | halt (g : Gap) (x : List Char) : gapLegal g = true → Halt x → AfterKey (gapText g ++ x) x
  | lastComment (g : Gap) (b : List Char) : gapLegal g = true → (∀ c ∈ b, isNewline c = false) →
      AfterKey (gapText g ++ ';' :: b) []

theorem afterKey_finish (k : List Char) {y x} (h : AfterKey y x) :
    loopF k true y = .ok (some (.mk k []), x) := by
  cases h with
  | halt g x hg hx =>
    rw [loopF_gap _ _ g hg x (halt_startOk hx)]
    rcases hx with hx | ⟨c, cs, rfl, hc⟩
    · subst hx; rw [loopF_nil]; rfl
    · rcases hc with hc | hc | hc
      · subst hc; rw [loopF_rbrace]; rfl
      · subst hc; rw [loopF_quote]; rfl
      · rw [loopF_word _ _ _ _ hc.1]; rfl
  | lastComment g b hg hb =>
    rw [loopF_gap _ _ g hg _ (startOk_cons (Or.inl (by decide))), loopF_semicolon, skipComment_all b hb, loopF_nil]
    rfl

/-! ### keys -/

theorem spanWord_append (k y : List Char) (hk : ∀ c ∈ k, isBreak c = false) (hy : WordEnd y) :
    spanWord (k ++ y) = (k, y) := by
  induction k with
  | nil =>
    rcases hy with hy | ⟨c, cs, rfl, hc⟩
    · subst hy; rfl
    · simp [spanWord, hc]
  | cons c cs ih =>
    have := ih (fun c hc => hk c (by simp [hc]))
    simp [spanWord, hk c (by simp), this]

theorem quoted_quote (k cs : List Char) : quoted k ('"' :: cs) = (k, cs) := by
  unfold quoted; simp
theorem quoted_lit (k cs : List Char) (c : Char) (h1 : c ≠ '"') (h2 : c ≠ '\\') :
    quoted k (c :: cs) = quoted (k ++ [c]) cs := by
  conv => lhs; unfold quoted
  simp [h1, h2]
theorem quoted_esc (k ds : List Char) (d : Char) :
    quoted k ('\\' :: d :: ds) =
      if d = 'n' then quoted (k ++ ['\n']) ds
      else if d = '\t' then quoted (k ++ ['\t']) ds
      else if d ≠ '\r' then quoted (k ++ [d]) ds
      else quoted k ds := by
  conv => lhs; unfold quoted
  simp

theorem quoted_pieces (ps : List QPiece) (hp : ∀ p ∈ ps, p.legal = true) (acc y : List Char) :
    quoted acc (ps.flatMap QPiece.text ++ '"' :: y) = (acc ++ ps.flatMap QPiece.den, y) := by
  induction ps generalizing acc with
  | nil => simp [quoted_quote]
  | cons p ps ih =>
    have ih' := fun acc => ih (fun p hp' => hp p (by simp [hp'])) acc
    have hl := hp p (by simp)
    cases p with
    | lit c =>
      simp [QPiece.legal] at hl
      simp [QPiece.text, QPiece.den, quoted_lit _ _ _ hl.1 hl.2, ih']
    | esc c =>
      simp [QPiece.legal] at hl
      by_cases ht : c = '\t'
      · subst ht; simp [QPiece.text, QPiece.den, quoted_esc, ih']
      · simp [QPiece.text, QPiece.den, quoted_esc, hl.1, hl.2, ht, ih']
    | escN => simp [QPiece.text, QPiece.den, quoted_esc, ih']
    | cont => simp [QPiece.text, QPiece.den, quoted_esc, ih']

theorem bare_legal {k : List Char} (h : (KeyText.bare k).legal = true) :
    ∃ c k', k = c :: k' ∧ (∀ d ∈ k, isBreak d = false) ∧ isSpace c = false := by
  cases k with
  | nil => simp [KeyText.legal] at h
  | cons c k' =>
    simp [KeyText.legal, mem_delims, isWhite_eq] at h
    exact ⟨c, k', rfl, by simpa using h.1, h.2⟩

/-- a written key is read into `k`, `read_key` becomes true -/
theorem loopF_key (kt : KeyText) (h : kt.legal = true) (y : List Char) (hy : kt.isBare = true → WordEnd y) :
    loopF [] false (kt.text ++ y) = loopF kt.den true y := by
  cases kt with
  | bare k =>
    obtain ⟨c, k', rfl, hk, _⟩ := bare_legal h
    simp only [KeyText.text, KeyText.den, List.cons_append]
    rw [loopF_word _ _ _ _ (hk c (by simp))]
    have := spanWord_append (c :: k') y hk (hy rfl)
    simp only [List.cons_append] at this
    simp [this]
  | quoted ps =>
    simp [KeyText.legal] at h
    simp only [KeyText.text, KeyText.den, List.cons_append, List.append_assoc]
    rw [loopF_quote]
    simp [quoted_pieces ps h [] y]

theorem keyText_head (kt : KeyText) (h : kt.legal = true) (y : List Char) :
    ∃ c cs, kt.text ++ y = c :: cs ∧ (c = '"' ∨ (isBreak c = false ∧ isSpace c = false)) := by
  cases kt with
  | bare k =>
    obtain ⟨c, k', rfl, hk, hs⟩ := bare_legal h
    exact ⟨c, k' ++ y, rfl, Or.inr ⟨hk c (by simp), hs⟩⟩
  | quoted ps => exact ⟨'"', _, rfl, Or.inl rfl⟩

theorem keyText_halt (kt : KeyText) (h : kt.legal = true) (y : List Char) : Halt (kt.text ++ y) := by
  obtain ⟨c, cs, e, hc⟩ := keyText_head kt h y
  exact Or.inr ⟨c, cs, e, Or.inr hc⟩

theorem loopF_okey (ok : Option KeyText) (h : optKeyLegal ok = true) (y : List Char)
    (hy : WordEnd y) : loopF [] false (optKeyText ok ++ y) = loopF (optKeyDen ok) ok.isSome y := by
  cases ok with
  | none => rfl
  | some kt => exact loopF_key kt h y (fun _ => hy)

/-- filler followed by one of `, : {` ends a word and does not start with VT/FF -/
theorem gap_punct (g : Gap) (hg : gapLegal g = true) (p : Char) (hp : p = ',' ∨ p = ':' ∨ p = '{') (f : List Char) :
    WordEnd (gapText g ++ p :: f) ∧ StartOk (gapText g ++ p :: f) := by
  have hpb : isBreak p = true := by rcases hp with h | h | h <;> subst h <;> decide
  have hps : isSpace p = false := by rcases hp with h | h | h <;> subst h <;> decide
  cases g with
  | nil => exact ⟨Or.inr ⟨p, f, rfl, hpb⟩, startOk_cons (Or.inl hps)⟩
  | cons it g' =>
    obtain ⟨c, cs, e, hc⟩ := gap_head (it :: g') hg (by simp) (p :: f)
    refine ⟨Or.inr ⟨c, cs, e, ?_⟩, startOk_of_head ⟨c, cs, e, hc⟩⟩
    rw [isBreak_iff]
    rcases hc with h | h | h | h | h <;> simp [h]

theorem okey_startOk (ok : Option KeyText) (h : optKeyLegal ok = true) (y : List Char) (hy : StartOk y) :
    StartOk (optKeyText ok ++ y) := by
  cases ok with
  | none => exact hy
  | some kt => exact halt_startOk (keyText_halt kt h y)

/-! ### nodes and lists -/

/-- the text of a node without its leading filler -/
def body : SNode → List Char
  | .leaf _ k => k.text
  | .comma _ k m => optKeyText k ++ (gapText m ++ [','])
  | .colon _ k m c => optKeyText k ++ (gapText m ++ (':' :: c.text))
  | .braces _ k m kids post => optKeyText k ++ (gapText m ++ ('{' :: (SNode.texts kids ++ (gapText post ++ ['}']))))

theorem text_eq (n : SNode) : n.text = gapText n.pre ++ body n := by
  cases n <;> simp [SNode.text, body, SNode.pre]

/-- what ends a list: the end of the text, a `}`, or a last comment -/
inductive Term : List Char → List Char → Prop
  | eof : Term [] []
  | rbrace (r : List Char) : Term ('}' :: r) ('}' :: r)
  | lastComment (b : List Char) : (∀ c ∈ b, isNewline c = false) → Term (';' :: b) []

theorem term_left {e e'} (h : Term e e') : e' = [] ∨ ∃ r, e' = '}' :: r := by
  cases h <;> simp

theorem term_afterKey {e e'} (h : Term e e') (post : Gap) (hp : gapLegal post = true) :
    AfterKey (gapText post ++ e) e' := by
  cases h with
  | eof => exact AfterKey.halt post [] hp (Or.inl rfl)
  | rbrace r => exact AfterKey.halt post _ hp (Or.inr ⟨'}', r, rfl, Or.inl rfl⟩)
  | lastComment b hb => exact AfterKey.lastComment post b hp hb

theorem term_wordEnd {e e'} (h : Term e e') (post : Gap) (hp : gapLegal post = true) :
    WordEnd (gapText post ++ e) := by
  cases post with
  | nil =>
    cases h with
    | eof => exact Or.inl rfl
    | rbrace r => exact Or.inr ⟨'}', r, rfl, by decide⟩
    | lastComment b _ => exact Or.inr ⟨';', b, rfl, by decide⟩
  | cons it g' =>
    obtain ⟨c, cs, e, hc⟩ := gap_head (it :: g') hp (by simp) e
    refine Or.inr ⟨c, cs, e, ?_⟩
    rw [isBreak_iff]
    rcases hc with h | h | h | h | h <;> simp [h]

theorem term_loop {e e'} (h : Term e e') (post : Gap) (hp : gapLegal post = true) :
    loopF [] false (gapText post ++ e) = .ok (none, e') := by
  cases h with
  | eof => rw [loopF_gap _ _ post hp _ startOk_nil, loopF_nil]; rfl
  | rbrace r => rw [loopF_gap _ _ post hp _ (startOk_cons (Or.inl (by decide))), loopF_rbrace]; rfl
  | lastComment b hb =>
    rw [loopF_gap _ _ post hp _ (startOk_cons (Or.inl (by decide))), loopF_semicolon, skipComment_all b hb, loopF_nil]
    rfl

theorem block_term {e e'} (h : Term e e') (post : Gap) (hp : gapLegal post = true) (acc : List Conf) :
    blockF acc (gapText post ++ e) = .ok (acc, e') :=
  blockF_of_loop_none (term_loop h post hp) (term_left h)

/-- the statement proved for every node: what one `parse_token` call does on its text -/
def NodeP (nd : SNode) : Prop :=
  nd.legal = true →
    (nd.isOpen = false → ∀ (G : Gap) (F : List Char), gapLegal G = true →
      loopF [] false (gapText G ++ (body nd ++ F)) = .ok (some nd.erase, F)) ∧
    (nd.isOpen = true → ∀ (G : Gap) (Y X : List Char), gapLegal G = true → AfterKey Y X →
      (nd.endsBare = true → WordEnd Y) →
      loopF [] false (gapText G ++ (body nd ++ Y)) = .ok (some nd.erase, X))

/-- … and for every list: what the `{` loop does on its text -/
def ListP (ns : List SNode) : Prop :=
  SNode.legals ns = true → ∀ (acc : List Conf) (post : Gap) (e e' : List Char), gapLegal post = true → Term e e' →
    blockF acc (SNode.texts ns ++ (gapText post ++ e)) = .ok (acc ++ SNode.erases ns, e') ∧
    ∀ n ns', ns = n :: ns' →
      blockF acc (body n ++ (SNode.texts ns' ++ (gapText post ++ e))) = .ok (acc ++ SNode.erases ns, e')

/-- reading `key filler` in front of one of `, : {` -/
theorem loopF_keyed_punct (G : Gap) (hG : gapLegal G = true) (k : Option KeyText) (hk : optKeyLegal k = true)
    (m : Gap) (hm : gapLegal m = true) (p : Char) (hp : p = ',' ∨ p = ':' ∨ p = '{') (f : List Char) :
    loopF [] false (gapText G ++ (optKeyText k ++ (gapText m ++ p :: f))) = loopF (optKeyDen k) k.isSome (p :: f) := by
  have ⟨hw, hs⟩ := gap_punct m hm p hp f
  have hps : isSpace p = false := by rcases hp with h | h | h <;> subst h <;> decide
  rw [loopF_gap _ _ G hG _ (okey_startOk k hk _ hs), loopF_okey k hk _ hw,
    loopF_gap _ _ m hm _ (startOk_cons (Or.inl hps))]

theorem keyed_halt (m : SNode) (hl : m.legal = true) (hk : m.keyed = true) (r : List Char) :
    Halt (body m ++ r) := by
  cases m with
  | leaf p k =>
    simp [SNode.legal] at hl
    exact keyText_halt k hl.2 r
  | comma p k mid =>
    cases k with
    | none => simp [SNode.keyed] at hk
    | some kt =>
      simp [SNode.legal, optKeyLegal] at hl
      simp only [body, optKeyText, List.append_assoc]
      exact keyText_halt kt hl.1.2 _
  | colon p k mid c =>
    cases k with
    | none => simp [SNode.keyed] at hk
    | some kt =>
      simp [SNode.legal, optKeyLegal] at hl
      simp only [body, optKeyText, List.append_assoc]
      exact keyText_halt kt hl.1.1.2 _
  | braces p k mid kids post =>
    cases k with
    | none => simp [SNode.keyed] at hk
    | some kt =>
      simp [SNode.legal, optKeyLegal] at hl
      simp only [body, optKeyText, List.append_assoc]
      exact keyText_halt kt hl.1.1.1.2 _

theorem unstartsBare_quote (m : SNode) (hk : m.keyed = true) (hb : m.startsBare = false) (r : List Char) :
    ∃ cs, body m ++ r = '"' :: cs := by
  cases m with
  | leaf p k =>
    cases k with
    | bare k => simp [SNode.startsBare, KeyText.isBare] at hb
    | quoted ps => exact ⟨_, rfl⟩
  | comma p k mid =>
    cases k with
    | none => simp [SNode.keyed] at hk
    | some kt =>
      cases kt with
      | bare k => simp [SNode.startsBare, KeyText.isBare] at hb
      | quoted ps => exact ⟨_, rfl⟩
  | colon p k mid c =>
    cases k with
    | none => simp [SNode.keyed] at hk
    | some kt =>
      cases kt with
      | bare k => simp [SNode.startsBare, KeyText.isBare] at hb
      | quoted ps => exact ⟨_, rfl⟩
  | braces p k mid kids post =>
    cases k with
    | none => simp [SNode.keyed] at hk
    | some kt =>
      cases kt with
      | bare k => simp [SNode.startsBare, KeyText.isBare] at hb
      | quoted ps => exact ⟨_, rfl⟩

mutual
theorem node_parse : ∀ nd : SNode, NodeP nd
  | .leaf p k => by
    intro hl
    simp [SNode.legal] at hl
    refine ⟨fun h => by simp [SNode.isOpen] at h, ?_⟩
    intro _ G Y X hG hY hW
    simp only [body, SNode.erase]
    rw [loopF_gap _ _ G hG _ (halt_startOk (keyText_halt k hl.2 Y)),
      loopF_key k hl.2 Y (fun hb => hW (by simpa [SNode.endsBare] using hb))]
    exact afterKey_finish _ hY
  | .comma p k m => by
    intro hl
    simp [SNode.legal] at hl
    refine ⟨?_, fun h => by simp [SNode.isOpen] at h⟩
    intro _ G F hG
    simp only [body, SNode.erase, List.append_assoc, List.singleton_append]
    rw [loopF_keyed_punct G hG k hl.1.2 m hl.2 ',' (Or.inl rfl) F, loopF_comma]
  | .colon p k m c => by
    intro hl
    simp [SNode.legal] at hl
    have ih := node_parse c hl.2
    constructor
    · intro ho G F hG
      rw [show body (.colon p k m c) = optKeyText k ++ (gapText m ++ (':' :: c.text)) from rfl]
      simp only [SNode.erase, List.append_assoc, List.cons_append, text_eq c]
      rw [loopF_keyed_punct G hG k hl.1.1.2 m hl.1.2 ':' (Or.inr (Or.inl rfl)) _, loopF_colon,
        ih.1 (by simpa [SNode.isOpen] using ho) c.pre F (by
          have := hl.2; cases c <;> simp_all [SNode.legal, SNode.pre])]
      rfl
    · intro ho G Y X hG hY hW
      rw [show body (.colon p k m c) = optKeyText k ++ (gapText m ++ (':' :: c.text)) from rfl]
      simp only [SNode.erase, List.append_assoc, List.cons_append, text_eq c]
      rw [loopF_keyed_punct G hG k hl.1.1.2 m hl.1.2 ':' (Or.inr (Or.inl rfl)) _, loopF_colon,
        ih.2 (by simpa [SNode.isOpen] using ho) c.pre Y X (by
          have := hl.2; cases c <;> simp_all [SNode.legal, SNode.pre]) hY
          (fun hb => hW (by simpa [SNode.endsBare] using hb))]
      rfl
  | .braces p k m kids post => by
    intro hl
    simp [SNode.legal] at hl
    refine ⟨?_, fun h => by simp [SNode.isOpen] at h⟩
    intro _ G F hG
    have ih := (list_parse kids hl.1.2 [] post ('}' :: F) ('}' :: F) hl.2 (Term.rbrace F)).1
    simp only [body, SNode.erase, List.append_assoc, List.cons_append, List.nil_append]
    rw [loopF_keyed_punct G hG k hl.1.1.1.2 m hl.1.1.2 '{' (Or.inr (Or.inr rfl)) _, loopF_lbrace, ih]
    simp
theorem list_parse : ∀ ns : List SNode, ListP ns
  | [] => by
    intro _ acc post e e' hp ht
    refine ⟨?_, fun n ns' h => by cases h⟩
    simpa [SNode.texts, SNode.erases] using block_term ht post hp acc
  | n :: ns' => by
    intro hl acc post e e' hp ht
    simp [SNode.legals] at hl
    obtain ⟨⟨hn, hf⟩, hls⟩ := hl
    have ihn := node_parse n hn
    have ihl := list_parse ns' hls
    -- the claim for an arbitrary leading filler
    have claim : ∀ G : Gap, gapLegal G = true →
        blockF acc (gapText G ++ (body n ++ (SNode.texts ns' ++ (gapText post ++ e)))) =
          .ok (acc ++ SNode.erases (n :: ns'), e') := by
      intro G hG
      cases ho : n.isOpen
      · rw [blockF_of_loop (ihn.1 ho G _ hG), (ihl (acc ++ [n.erase]) post e e' hp ht).1]
        simp [SNode.erases]
      · cases ns' with
        | nil =>
          simp only [SNode.texts, List.nil_append]
          rw [blockF_of_loop (ihn.2 ho G _ e' hG (term_afterKey ht post hp) (fun _ => term_wordEnd ht post hp)),
            blockF_stop _ _ (term_left ht)]
          simp [SNode.erases]
        | cons m ns'' =>
          simp [SNode.follows, ho] at hf
          simp [SNode.legals] at hls
          have hml := hls.1.1
          have hmpre : gapLegal m.pre = true := by
            cases m <;> simp_all [SNode.legal, SNode.pre]
          have hY : AfterKey (SNode.texts (m :: ns'') ++ (gapText post ++ e))
              (body m ++ (SNode.texts ns'' ++ (gapText post ++ e))) := by
            have := AfterKey.halt m.pre (body m ++ (SNode.texts ns'' ++ (gapText post ++ e))) hmpre
              (keyed_halt m hml hf.1 _)
            simpa [SNode.texts, text_eq m] using this
          have hW : n.endsBare = true → WordEnd (SNode.texts (m :: ns'') ++ (gapText post ++ e)) := by
            intro hb
            simp only [SNode.texts, text_eq m, List.append_assoc]
            cases hpre : m.pre with
            | nil =>
              have hsb : m.startsBare = false := by
                rcases hf.2 with (h | h) | h
                · rw [hb] at h; cases h
                · exact h
                · exact absurd hpre h
              obtain ⟨cs, e⟩ := unstartsBare_quote m hf.1 hsb (SNode.texts ns'' ++ (gapText post ++ e))
              exact Or.inr ⟨'"', cs, by simpa [gapText] using e, by decide⟩
            | cons it g' =>
              obtain ⟨c, cs, e, hc⟩ := gap_head (it :: g') (by rw [← hpre]; exact hmpre) (by simp)
                (body m ++ (SNode.texts ns'' ++ (gapText post ++ e)))
              refine Or.inr ⟨c, cs, e, ?_⟩
              rw [isBreak_iff]
              rcases hc with h | h | h | h | h <;> simp [h]
          rw [blockF_of_loop (ihn.2 ho G _ _ hG hY hW),
            (ihl (acc ++ [n.erase]) post e e' hp ht).2 m ns'' rfl]
          simp [SNode.erases]
    refine ⟨?_, ?_⟩
    · have := claim n.pre (by cases n <;> simp_all [SNode.legal, SNode.pre])
      simpa [SNode.texts, text_eq n] using this
    · intro n' ns'' h
      cases h
      simpa [gapText] using claim [] rfl
end

/-! ### from the `{` loop to the top-level loop -/

theorem top_of_block (n : Nat) : ∀ (acc : List Conf) (s : List Char) (subs : List Conf),
    2 * s.length + 2 ≤ n → blockF acc s = .ok (subs, []) → top n acc s = .ok subs := by
  induction n with
  | zero => intro _ s _ h; omega
  | succ n ih =>
    intro acc s subs hn hb
    cases s with
    | nil =>
      rw [blockF_nil] at hb
      simp at hb
      simp [top, hb]
    | cons c cs =>
      by_cases hc : c = '}'
      · subst hc; rw [blockF_rbrace] at hb; simp at hb
      · rw [blockF_unfold] at hb
        simp only [blockBody, hc, if_false] at hb
        have e : parseToken n (c :: cs) = loopF [] false (c :: cs) := loop_eq_F (by simp at hn ⊢; omega)
        simp only [top, hc, if_false, e]
        cases hr : loopF [] false (c :: cs) with
        | error err => rw [hr] at hb; simp at hb
        | ok p =>
          obtain ⟨o, tl⟩ := p
          rw [hr] at hb
          have hlt := ((loopF_good [] false (c :: cs)).2 o tl hr).2 rfl c cs rfl hc
          exact ih _ tl subs (by simp at hlt hn; omega) hb

/-! ### no read past the NUL (the fixed code has no such path) -/

def LoopNoOob (f : List Char → Bool → List Char → Res) : Prop := ∀ k rk s, f k rk s ≠ .error .oob
def BlockNoOob (g : List Conf → List Char → BRes) : Prop := ∀ acc s, g acc s ≠ .error .oob

theorem loopBody_noOob {f g} (hf : LoopNoOob f) (hg : BlockNoOob g) : LoopNoOob (loopBody f g) := by
  intro k rk s
  cases s with
  | nil => simp [loopBody_nil, finish]
  | cons c cs =>
    rcases char_cases c with hc | hc | hc | hc | hc | hc | hc | hc
    · subst hc; simp [loopBody_rbrace, finish]
    · rw [loopBody_word _ _ _ _ _ _ hc]
      cases rk
      · exact hf _ _ _
      · simp [finish]
    · subst hc; rw [loopBody_quote]
      cases rk
      · exact hf _ _ _
      · simp [finish]
    · subst hc; rw [loopBody_colon]
      have := hf [] false cs
      cases hr : f [] false cs with
      | error e => rw [hr] at this; simpa using this
      | ok p => simp
    · subst hc; simp [loopBody_comma]
    · subst hc; rw [loopBody_semicolon]; exact hf _ _ _
    · subst hc; rw [loopBody_lbrace]
      have := hg [] cs
      cases hr : g [] cs with
      | error e => rw [hr] at this; simpa using this
      | ok p =>
        obtain ⟨subs, tl⟩ := p
        cases tl with
        | nil => simp
        | cons d tl' =>
          simp only []
          split <;> simp
    · rw [loopBody_blank _ _ _ _ _ _ hc]; exact hf _ _ _

theorem blockBody_noOob {f g} (hf : LoopNoOob f) (hg : BlockNoOob g) : BlockNoOob (blockBody f g) := by
  intro acc s
  cases s with
  | nil => simp [blockBody]
  | cons c cs =>
    unfold blockBody
    simp only []
    split
    · simp
    · have := hf [] false (c :: cs)
      cases hr : f [] false (c :: cs) with
      | error e => rw [hr] at this; simpa using this
      | ok p => exact hg _ _

theorem noOob_all (n : Nat) : LoopNoOob (loop n) ∧ BlockNoOob (block n) := by
  induction n with
  | zero => exact ⟨fun k rk s => by rw [loop_zero]; simp, fun acc s => by rw [block_zero]; simp⟩
  | succ n ih =>
    exact ⟨by rw [loop_succ]; exact loopBody_noOob ih.1 ih.2, by rw [block_succ]; exact blockBody_noOob ih.1 ih.2⟩

theorem top_noOob (n : Nat) : ∀ acc s, top n acc s ≠ .error .oob := by
  induction n with
  | zero => intro acc s; simp [top]
  | succ n ih =>
    intro acc s
    cases s with
    | nil => simp [top]
    | cons c cs =>
      unfold top
      split
      · simp
      · have := (noOob_all n).1 [] false (c :: cs)
        unfold parseToken
        cases hr : loop n [] false (c :: cs) with
        | error e => rw [hr] at this; simpa using this
        | ok p => exact ih _ _

/-! ### every tree can be written down -/

def plainPiece (c : Char) : QPiece := if c = '"' ∨ c = '\\' then .esc c else .lit c

mutual
/-- one uniform way of writing a tree: every key quoted, every node `"key"{…}`, no filler -/
def plainNode : Conf → SNode
  | .mk k subs => .braces [] (some (.quoted (k.map plainPiece))) [] (plainNodes subs) []
def plainNodes : List Conf → List SNode
  | [] => []
  | c :: cs => plainNode c :: plainNodes cs
end

theorem plainPiece_legal (c : Char) : (plainPiece c).legal = true := by
  unfold plainPiece
  split
  · next h => rcases h with h | h <;> subst h <;> decide
  · next h => simp [QPiece.legal]; simpa [not_or] using h

theorem plainPiece_den (c : Char) : (plainPiece c).den = [c] := by
  unfold plainPiece; split <;> rfl

theorem plainKey_den (k : List Char) : (k.map plainPiece).flatMap QPiece.den = k := by
  induction k with
  | nil => rfl
  | cons c cs ih => simp [plainPiece_den, ih]

mutual
theorem plainNode_ok : ∀ c : Conf, (plainNode c).legal = true ∧ (plainNode c).erase = c
  | .mk k subs => by
    have ih := plainNodes_ok subs
    simp [plainNode, SNode.legal, SNode.erase, gapLegal, optKeyLegal, optKeyDen, KeyText.legal, KeyText.den,
      plainPiece_legal, plainKey_den, ih.1, ih.2]
theorem plainNodes_ok : ∀ cs : List Conf, SNode.legals (plainNodes cs) = true ∧ SNode.erases (plainNodes cs) = cs
  | [] => by simp [plainNodes, SNode.legals, SNode.erases]
  | c :: cs => by
    have h1 := plainNode_ok c
    have h2 := plainNodes_ok cs
    have hf : (plainNode c).follows (plainNodes cs) = true := by
      cases c with
      | mk k subs => cases h : plainNodes cs <;> simp [plainNode, SNode.follows, SNode.isOpen]
    simp [plainNodes, SNode.legals, SNode.erases, h1.1, h1.2, h2.1, h2.2, hf]
end

end Ctrmml.ConfModel
