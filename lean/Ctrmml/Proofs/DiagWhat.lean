/-
  Helper lemmas for C17 (no property statements): the layout of `InputError::what()` as the model
  renders it (`whatOf`, Model/Refs) and its reading by the judge (`parseWhat`, Spec/Diag).
-/
import Ctrmml.Model.Refs
import Ctrmml.Spec.Diag
namespace Ctrmml.Refs
open Ctrmml.Lexer Ctrmml.Tables Ctrmml.Diag

/-- the characters of `file:line:col: ` with the two bases of the format added -/
def whatPrefix (file : String) (r : Ref) : List Char :=
  file.toList ++ ':' :: (Nat.toDigits 10 (r.line + diagWhatLineBase) ++
    ':' :: (Nat.toDigits 10 (r.column + diagWhatColumnBase) ++ [':', ' ']))

theorem whatOf_toList (file : String) (r : Ref) (msg : String) :
    (whatOf file (some r) msg).toList = (whatPrefix file r ++ msg.toList).take (diagWhatBufSize - 1) := by
  unfold whatOf takeBytes
  show ((_ : String).take _).copy.toList = _
  rw [String.toList_copy_take]
  simp [whatPrefix, String.toList_append, Nat.toString_eq_repr, Nat.toList_repr, toString]

theorem whatOf_null (file : String) (msg : String) :
    (whatOf file none msg).toList = msg.toList.take diagWhatNullCopy := by
  unfold whatOf takeBytes
  show ((_ : String).take _).copy.toList = _
  rw [String.toList_copy_take]

theorem whatPrefix_length (file : String) (r : Ref) :
    (whatPrefix file r).length = file.length + (Nat.toDigits 10 (r.line + diagWhatLineBase)).length +
      (Nat.toDigits 10 (r.column + diagWhatColumnBase)).length + 4 := by
  simp [whatPrefix, String.length_toList]; omega

theorem whatOf_prefix (file : String) (r : Ref) (msg : String)
    (h : (whatPrefix file r).length ≤ diagWhatBufSize - 1) :
    (whatOf file (some r) msg).toList =
      whatPrefix file r ++ msg.toList.take (diagWhatBufSize - 1 - (whatPrefix file r).length) := by
  rw [whatOf_toList, List.take_append, List.take_of_length_le h]

theorem splitAtColon_append (a rest : List Char) (h : ':' ∉ a) : splitAtColon (a ++ ':' :: rest) = (a, rest) := by
  induction a with
  | nil => simp [splitAtColon]
  | cons c cs ih =>
    have hc : c ≠ ':' := fun e => h (by simp [e])
    have hcs : ':' ∉ cs := fun e => h (by simp [e])
    have := ih hcs
    simp only [splitAtColon, Prod.mk.injEq] at this ⊢
    simp [hc, this.1, this.2]

theorem colon_not_digit (n : Nat) : ':' ∉ Nat.toDigits 10 n := by
  intro h
  have := Nat.isDigit_of_mem_toDigits (by decide) (by decide) h
  revert this; decide

theorem natOfChars_toDigits (n : Nat) : natOfChars (Nat.toDigits 10 n) = some n := by
  unfold natOfChars
  have hne : (Nat.toDigits 10 n).isEmpty = false := by
    have := Nat.toDigits_ne_nil (b := 10) (n := n)
    cases h : Nat.toDigits 10 n with
    | nil => exact absurd h this
    | cons _ _ => rfl
  have hall : (Nat.toDigits 10 n).all Char.isDigit = true := by
    rw [List.all_eq_true]
    intro c hc
    exact Nat.isDigit_of_mem_toDigits (by decide) (by decide) hc
  simp only [hne, hall, Bool.not_true, Bool.or_self, Bool.false_eq_true, if_false]
  have hf : (fun (a : Nat) (c : Char) => a * 10 + (c.toNat - 48)) = (fun sofar c => 10 * sofar + (c.toNat - '0'.toNat)) := by
    funext a c
    have : '0'.toNat = 48 := by decide
    rw [this, Nat.mul_comm]
  rw [hf]
  exact congrArg some (Nat.ofDigitChars_ten_toDigits (n := n))

/-- the judge's reader applied to the rendered text gives back file, line + base, column + base
and the (possibly cut) message -/
theorem parseWhat_whatOf (file : String) (r : Ref) (msg : String) (hcolon : ':' ∉ file.toList)
    (hlen : (whatPrefix file r).length ≤ diagWhatBufSize - 1) :
    parseWhat (whatOf file (some r) msg) =
      some { file := file, line := r.line + diagWhatLineBase, col := r.column + diagWhatColumnBase,
             msg := String.ofList (msg.toList.take (diagWhatBufSize - 1 - (whatPrefix file r).length)) } := by
  unfold parseWhat
  rw [whatOf_prefix file r msg hlen]
  generalize msg.toList.take (diagWhatBufSize - 1 - (whatPrefix file r).length) = m
  unfold whatPrefix
  simp only [List.append_assoc, List.cons_append, List.nil_append]
  rw [splitAtColon_append _ _ hcolon]
  simp only []
  rw [splitAtColon_append _ _ (colon_not_digit _)]
  simp only []
  rw [splitAtColon_append _ _ (colon_not_digit _)]
  simp only [natOfChars_toDigits, String.ofList_toList]

end Ctrmml.Refs
