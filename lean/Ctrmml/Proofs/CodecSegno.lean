/-
  Codec round trip with the loop point and the loop-back jump: `a ++ [SEGNO] ++ b ++ [JUMP]`.
  At `SEGNO` the encoder gives a pending length-less note its length (the repository fix of D4),
  forgets both length registers and records the position; after the jump the interpreter's
  registers are unknown — which is exactly what the encoder assumed when it encoded `b`.
-/
import Ctrmml.Proofs.CodecRoundtrip
namespace Ctrmml.Codec
open Ctrmml.Mds Ctrmml.Seq Tables

/-- encoder state after the loop point -/
def afterSegno (e : Enc) : Enc :=
  { out := (disambP e).out, segnoPos := (disambP e).out.length % 65536, lastRest := U16, lastNote := U16,
    lastType := mds_SEGNO, breaks := e.breaks }

theorem encEv_segno (nS nM : Nat) (e : Enc) : encEv nS nM e ⟨mds_SEGNO, 0⟩ = .ok (afterSegno e) := by
  have a1 : ¬ (mds_SEGNO = mds_REST ∧ (0 : Nat) ≠ 0) := by decide
  have a2 : ¬ (mds_SEGNO < mds_SLR ∧ (0 : Nat) ≠ 0) := by decide
  have a3 : (mds_SEGNO < mds_REST ∧ mds_SEGNO ≠ mds_CARRY) ∨ mds_SEGNO ≥ mds_SLR ∨ (0 : Nat) ≠ 0 := by decide
  have a9 : ¬ (mds_SEGNO = mds_LPB) := by decide
  simp only [encEv, a9, false_and, a1, a2, if_false, encOther, if_true, a3, afterSegno, disambP, needLenB, lastGt80]
  by_cases h1 : noteish e.lastType = true
  · obtain h2 | ⟨b, h2⟩ : e.out.getLast? = none ∨ ∃ b, e.out.getLast? = some b := by
      cases e.out.getLast? <;> simp
    · simp [h1, h2]
    · by_cases hb : b > 128 <;> simp [h1, h2, hb]
  · simp [h1]

theorem segno_good {M : Mode} {seq : List Nat} {base mj : Nat} (hS : M.Sound seq base mj) {e : Enc} {s : St}
    {O : List Tk} (g : Good M e s O)
    (hp : (afterSegno e).out <+: seq) :
    ∃ s1, Reach seq base mj s s1 ∧ Frame s s1 ∧ Good M (afterSegno e) s1 O := by
  obtain ⟨s1, r1, f1, i1, _, _, _⟩ := disamb_good (base := base) (mj := mj) hS g hp
  exact ⟨s1, r1, f1, ⟨fun h => absurd rfl h, fun h => absurd rfl h, i1.drum, .inl ⟨by simp [afterSegno, needLenB, noteish, mds_SEGNO, mds_TIE], i1.pc, i1.out⟩⟩⟩

/-- a fresh interpreter state standing on the loop point is related to the encoder state there,
whatever its registers hold -/
theorem good_at_segno (M : Mode) (e : Enc) (s : St) (hpc : s.pc = (afterSegno e).out.length) (hd : s.drum = M.dm) :
    Good M (afterSegno e) s s.out :=
  ⟨fun h => absurd rfl h, fun h => absurd rfl h, hd,
    .inl ⟨by simp [afterSegno, needLenB, noteish, mds_SEGNO, mds_TIE], hpc, rfl⟩⟩

def jumpOff (e : Enc) : Nat := (e.segnoPos + 65536 - (e.out.length + 3) % 65536) % 65536

theorem encEv_jump (nS nM : Nat) (e : Enc) (arg : Nat) :
    encEv nS nM e ⟨mds_JUMP, arg⟩ =
      .ok { e with segnoPos := jumpOff e, out := e.out ++ [mds_JUMP, jumpOff e / 256, jumpOff e % 256],
                   lastType := mds_JUMP } := by
  have n1 : ¬ (mds_JUMP = mds_SEGNO) := by decide
  have n2 : ¬ (mds_JUMP = mds_SLR ∨ mds_JUMP = mds_FINISH) := by decide
  have n3 : byteArgOps.contains mds_JUMP = false := by decide
  have n4 : ¬ (mds_JUMP = mds_MTAB) := by decide
  have n5 : ¬ (mds_JUMP = mds_INS ∨ mds_JUMP = mds_PCM) := by decide
  have n6 : ¬ (mds_JUMP = mds_PEG) := by decide
  have n7 : wordArgOps.contains mds_JUMP = false := by decide
  have h : encOther nS nM e mds_JUMP arg =
      .ok { e with segnoPos := jumpOff e, out := e.out ++ [mds_JUMP, jumpOff e / 256, jumpOff e % 256] } := by
    simp only [encOther, n1, n2, n3, n4, n5, n6, n7, if_false, Bool.false_eq_true, if_true, jumpOff]
  exact encEv_other (by decide) h

def repeatL : Nat → List Tk → List Tk
  | 0, _ => []
  | n + 1, l => l ++ repeatL n l

/-- all passes through the loop section: from any state standing on the loop point with `k` jumps
left, the interpreter plays `b` `k + 1` times with a loop mark after each of the first `k`, and
stops at the jump -/
theorem jump_passes {M : Mode} {seq : List Nat} {base mj : Nat} (hSnd : M.Sound seq base mj) {eS eB : Enc}
    {T : List Tk} {hi lo : Nat}
    (hsem : ∀ (s : St) (O : List Tk), Good M eS s O →
      ∃ s1, Reach seq base mj s s1 ∧ FrameX s s1 ∧ Good M eB s1 (T.reverse ++ O))
    (hS : ∀ s : St, s.pc = eS.out.length → s.drum = M.dm → Good M eS s s.out)
    (hp : eB.out ++ [mds_JUMP, hi, lo] <+: seq)
    (htgt : (eB.out.length + 3 + (hi * 256 + lo)) % 65536 = eS.out.length) :
    ∀ (k : Nat) (s : St) (O : List Tk), Good M eS s O → mj - s.jumps = k → s.jumps ≤ mj →
      ∃ s', Reach seq base mj s s' ∧ step seq base mj s' = .error .finished ∧
        s'.out = (repeatL k (T ++ [Tk.loopMark]) ++ T).reverse ++ O := by
  intro k
  induction k with
  | zero =>
    intro s O g hk hle
    obtain ⟨s1, r1, f1, g1⟩ := hsem s O g
    obtain ⟨s2, r2, f2, i2⟩ := resolve (base := base) (mj := mj) hSnd g1 (b := mds_JUMP) (by decide) hp
    have r0 : seq[s2.pc]? = some mds_JUMP := by rw [i2.pc]; exact rd_at hp
    have r1' : seq[s2.pc + 1]? = some hi := by rw [i2.pc]; exact rd_at1 hp
    have r2' : seq[s2.pc + 1 + 1]? = some lo := by rw [i2.pc]; exact rd_at2 hp
    have hs := step_jump (base := base) (mj := mj) r0 r1' r2'
    have hj : s2.jumps ≥ mj := by rw [f2.jumps, f1.jumps]; omega
    rw [if_pos hj] at hs
    exact ⟨s2, r1.trans r2, hs, by simp [i2.out, repeatL]⟩
  | succ k ih =>
    intro s O g hk hle
    obtain ⟨s1, r1, f1, g1⟩ := hsem s O g
    obtain ⟨s2, r2, f2, i2⟩ := resolve (base := base) (mj := mj) hSnd g1 (b := mds_JUMP) (by decide) hp
    have r0 : seq[s2.pc]? = some mds_JUMP := by rw [i2.pc]; exact rd_at hp
    have r1' : seq[s2.pc + 1]? = some hi := by rw [i2.pc]; exact rd_at1 hp
    have r2' : seq[s2.pc + 1 + 1]? = some lo := by rw [i2.pc]; exact rd_at2 hp
    have hs := step_jump (base := base) (mj := mj) r0 r1' r2'
    have hj : ¬ s2.jumps ≥ mj := by rw [f2.jumps, f1.jumps]; omega
    rw [if_neg hj] at hs
    obtain ⟨s3, hs3, hpc3', hd3', hj3', ho3'⟩ : ∃ s3 : St, step seq base mj s2 = .ok s3 ∧
        s3.pc = (s2.pc + 3 + (hi * 256 + lo)) % 65536 ∧ s3.drum = s2.drum ∧
        s3.jumps = s2.jumps + 1 ∧ s3.out = Tk.loopMark :: s2.out := ⟨_, hs, rfl, rfl, rfl, rfl⟩
    have hpc3 : s3.pc = eS.out.length := by rw [hpc3', i2.pc]; exact htgt
    have hd3 : s3.drum = M.dm := by rw [hd3']; exact i2.drum
    have hj3 : s3.jumps = s.jumps + 1 := by rw [hj3', f2.jumps, f1.jumps]
    have ho3 : s3.out = Tk.loopMark :: (T.reverse ++ O) := by rw [ho3', i2.out]
    obtain ⟨s', r', hfin, ho'⟩ := ih s3 s3.out (hS s3 hpc3 hd3) (by omega) (by omega)
    refine ⟨s', r1.trans (r2.trans (.head hs3 (by rw [ho3, i2.out]; simp) r')), hfin, ?_⟩
    rw [ho', ho3]
    simp [repeatL, List.reverse_append, List.append_assoc]

/-- **C02, loop point and loop-back jump.** -/
theorem codec_roundtrip_segno (nS nM : Nat) (a b : List MEv) (ha : ∀ ev ∈ a, linEv ev = true)
    (hb : ∀ ev ∈ b, linEv ev = true) (ma : ∀ ev ∈ a, Mode.plain.evOk ev = true)
    (mb : ∀ ev ∈ b, Mode.plain.evOk ev = true) (jarg : Nat) :
    ∃ bytes, convertTrack nS nM (a ++ [⟨mds_SEGNO, 0⟩] ++ b ++ [⟨mds_JUMP, jarg⟩]) = .ok bytes ∧
      (bytes.length < 65536 → ∀ (base mj : Nat) (ln lr : Option Nat),
        Plays bytes base mj ln lr
          (ticks Mode.plain nS nM a ++ repeatL mj (ticks Mode.plain nS nM b ++ [Tk.loopMark]) ++ ticks Mode.plain nS nM b)) := by
  obtain ⟨eA, heA, _, _, _, semA⟩ := encAll_lin Mode.plain nS nM a ha ma {}
  obtain ⟨eB, heB, pB, _, spB, semB⟩ := encAll_lin Mode.plain nS nM b hb mb (afterSegno eA)
  obtain ⟨bytes, hbytes⟩ : ∃ l, l = eB.out ++ [mds_JUMP, jumpOff eB / 256, jumpOff eB % 256] := ⟨_, rfl⟩
  refine ⟨bytes, ?_, ?_⟩
  · simp [convertTrack, encAll_append, heA, encAll, encEv_segno, heB, encEv_jump, Except.map, hbytes]
  · intro hlen base mj ln lr
    have hpB : eB.out <+: bytes := by rw [hbytes]; exact List.prefix_append _ _
    have hpS : (afterSegno eA).out <+: bytes := pB.trans hpB
    have hSnd := Mode.plain_sound bytes base mj
    obtain ⟨s1, r1, f1, g1⟩ := semA bytes base mj _ [] hSnd ((disambP_prefix eA).trans hpS) (good_init ln lr)
    obtain ⟨s2, r2, f2, g2⟩ := segno_good (base := base) (mj := mj) hSnd g1 hpS
    have hlenB : eB.out.length + 3 < 65536 := by rw [hbytes] at hlen; simp at hlen; omega
    have hlenS : (afterSegno eA).out.length ≤ eB.out.length := pB.length_le
    have hsp : eB.segnoPos = (afterSegno eA).out.length := by
      rw [spB]; show (disambP eA).out.length % 65536 = (disambP eA).out.length
      have : (disambP eA).out.length = (afterSegno eA).out.length := rfl
      omega
    have htgt : (eB.out.length + 3 + (jumpOff eB / 256 * 256 + jumpOff eB % 256)) % 65536 =
        (afterSegno eA).out.length := by
      simp only [jumpOff, hsp]; omega
    have hj2 : s2.jumps = 0 := by rw [f2.jumps, f1.jumps]
    obtain ⟨s', r', hfin, ho'⟩ := jump_passes (base := base) (mj := mj) hSnd
      (fun s O g => by
        obtain ⟨s1, a, b, c⟩ := semB bytes base mj s O hSnd hpB g
        exact ⟨s1, a, b.x, c⟩)
      (fun s hpc hd => good_at_segno Mode.plain eA s hpc hd) (by rw [← hbytes]; exact List.prefix_refl _) htgt
      mj s2 _ g2 (by omega) (by omega)
    refine ⟨s', r1.trans (r2.trans r'), hfin, ?_⟩
    rw [ho']; simp [List.reverse_append, List.append_assoc]

end Ctrmml.Codec
