/-
  C01, layer 2 — the `balanced` vector of `find_match` after the repair of D18
  (`Opt.sourcePrefixes`, Model/Optimizer.lean): it is a prefix of the vector that the loop
  structure alone gives (`Opt.balancedPrefixes`, the function the model used before the repair), cut
  where the source phrase has no room on the stack for a call.  Hence a phrase length it marks is
  (a) marked by the depth-only vector and (b) covers only events that passed the stack test
  (`SrcRoom`).
-/
import Ctrmml.Proofs.OptLoops
namespace Ctrmml.Opt
open Ctrmml Tables

/-- prefix lengths of the source phrase that end outside of any nested loop: the `balanced` vector
of `find_match` without the stack test on the source phrase -/
def balancedPrefixes (src : List Event) (start : Nat) : List Bool :=
  let rec go (evs : List Event) (depth : Int) (acc : List Bool) : List Bool :=
    match evs with
    | [] => acc.reverse
    | e :: rest =>
      if depth < 0 then acc.reverse else
      let depth := if e.type = ev_LOOP_START then depth + 1 else if e.type = ev_LOOP_END then depth - 1 else depth
      go rest depth ((depth == 0) :: acc)
  true :: go (src.drop start) 0 []

end Ctrmml.Opt

namespace Ctrmml.OptSteps
open Ctrmml Ctrmml.Opt Tables

/-- the stack test of the subroutine candidate (`find_match`, repair of D18) on the event at index `i`
of the source track: the stack list has an entry and entry + base usage is below `max_src_stack` -/
def SrcRoom (sa : SA) (i : Nat) : Prop :=
  ∃ u, sa.eventList[i]? = some u ∧ u + sa.baseUsage < maxSrcStack

theorem go_acc (l : List Event) : ∀ (d : Int) (acc : List Bool),
    balancedPrefixes.go l d acc = acc.reverse ++ balancedPrefixes.go l d [] := by
  induction l with
  | nil => intro d acc; simp [balancedPrefixes.go]
  | cons e rest ih =>
    intro d acc
    simp only [balancedPrefixes.go]
    split
    · simp
    · rw [ih _ (_ :: acc), ih _ [_]]
      simp

/-- the accumulator of `sourcePrefixes.go` is a prefix of its result -/
theorem sgo_acc_eq (sa : SA) (l : List Event) : ∀ (i : Nat) (d : Int) (acc : List Bool),
    sourcePrefixes.go sa l i d acc =
      match sourcePrefixes.go sa l i d [] with
      | .error x => .error x
      | .ok r' => .ok (acc.reverse ++ r') := by
  induction l with
  | nil => intro i d acc; simp [sourcePrefixes.go]
  | cons e rest ih =>
    intro i d acc
    simp only [sourcePrefixes.go]
    split
    · simp
    · cases hu : sa.eventList[i]? with
      | none => rfl
      | some u =>
        simp only
        split
        · simp
        · rw [ih _ _ (_ :: acc), ih _ _ [_]]
          cases sourcePrefixes.go sa rest (i + 1) _ [] with
          | error x => rfl
          | ok r' => simp

theorem sgo_acc (sa : SA) (l : List Event) (i : Nat) (d : Int) (acc : List Bool) (r : List Bool)
    (h : sourcePrefixes.go sa l i d acc = .ok r) :
    ∃ r', sourcePrefixes.go sa l i d [] = .ok r' ∧ r = acc.reverse ++ r' := by
  rw [sgo_acc_eq] at h
  cases hg : sourcePrefixes.go sa l i d [] with
  | error x => rw [hg] at h; cases h
  | ok r' =>
    rw [hg] at h
    simp only [Except.ok.injEq] at h
    exact ⟨r', rfl, h.symm⟩

/-- every entry of the vector `sourcePrefixes.go` computes is an entry of the depth-only vector, and
the events up to it have passed the stack test -/
theorem sgo_get (sa : SA) (l : List Event) : ∀ (i : Nat) (d : Int) (r : List Bool),
    sourcePrefixes.go sa l i d [] = .ok r → ∀ k b, r[k]? = some b →
    (balancedPrefixes.go l d [])[k]? = some b ∧ ∀ j, j ≤ k → SrcRoom sa (i + j) := by
  induction l with
  | nil =>
    intro i d r h k b hk
    simp only [sourcePrefixes.go, Except.ok.injEq, List.reverse_nil] at h
    subst h
    simp at hk
  | cons e rest ih =>
    intro i d r h k b hk
    simp only [sourcePrefixes.go] at h
    split at h
    · simp only [Except.ok.injEq, List.reverse_nil] at h
      subst h; simp at hk
    rename_i hd
    split at h
    · cases h
    rename_i u hu
    split at h
    · simp only [Except.ok.injEq, List.reverse_nil] at h
      subst h; simp at hk
    rename_i hov
    obtain ⟨r1, h1, e1⟩ := sgo_acc sa rest _ _ [_] r h
    simp only [balancedPrefixes.go, if_neg hd]
    rw [go_acc]
    subst e1
    have hroom : SrcRoom sa i := ⟨u, hu, by omega⟩
    cases k with
    | zero =>
      simp only [List.reverse_cons, List.reverse_nil, List.nil_append, List.cons_append,
        List.getElem?_cons_zero] at hk ⊢
      refine ⟨hk, fun j hj => ?_⟩
      have : j = 0 := by omega
      subst this
      exact hroom
    | succ k =>
      simp only [List.reverse_cons, List.reverse_nil, List.nil_append, List.cons_append,
        List.getElem?_cons_succ] at hk ⊢
      obtain ⟨g1, g2⟩ := ih _ _ r1 h1 k b hk
      refine ⟨g1, fun j hj => ?_⟩
      cases j with
      | zero => exact hroom
      | succ j =>
        have := g2 j (by omega)
        rwa [show i + 1 + j = i + (j + 1) by omega] at this

/-- **the `balanced` vector after the repair of D18**: a prefix length it marks is marked by the
depth-only vector, and every event of that prefix of the source phrase passed the stack test -/
theorem sourcePrefixes_spec {sa : SA} {src : List Event} {start : Nat} {bal : List Bool}
    (h : sourcePrefixes sa src start = .ok bal) (len : Nat) (hl : (bal[len]?).getD false = true) :
    ((balancedPrefixes src start)[len]?).getD false = true ∧
      ∀ i, start ≤ i → i < start + len → SrcRoom sa i := by
  unfold sourcePrefixes at h
  split at h
  · cases h
  rename_i l hgo
  simp only [Except.ok.injEq] at h
  subst h
  cases len with
  | zero =>
    refine ⟨by simp [balancedPrefixes], fun i h1 h2 => by omega⟩
  | succ k =>
    simp only [List.getElem?_cons_succ] at hl
    cases hk : l[k]? with
    | none => rw [hk] at hl; simp at hl
    | some b =>
      rw [hk] at hl
      simp only [Option.getD_some] at hl
      subst hl
      obtain ⟨g1, g2⟩ := sgo_get sa _ _ _ l hgo k true hk
      refine ⟨by simp [balancedPrefixes, g1], fun i h1 h2 => ?_⟩
      have := g2 (i - start) (by omega)
      rwa [show start + (i - start) = i by omega] at this

end Ctrmml.OptSteps
