/-
  C09, reader tie (3): one `convert_track` iteration on an event of the fragment `okEv`, in closed
  form (`Shape`), its effect on the instruction list (`shape_R`), the whole event loop
  (`encAll_R`) and the decoder on the converted track (`decode_convertTrack`).
-/
import Ctrmml.Proofs.MdsReadEnc
namespace Ctrmml.MdsRead
open Ctrmml Ctrmml.Mds Ctrmml.Seq Ctrmml.SeqWf Ctrmml.MdsResolve Ctrmml.Codec Tables

/-- the instruction the decoder sees for an event, as far as it matters to it: opcode, and for the
commands whose operand it reads (`readsArg`) the operand byte `convert_track` writes — the index
offset by the number of subroutines / macro tracks, cut to a byte.  `[]` = the event emits no
byte (zero-length rest / tie / note, loop point). -/
def evIns (nS nM : Nat) (ev : MEv) : Ins :=
  if ev.type < mds_SLR then (if mds_REST ≤ ev.type ∧ ev.arg ≠ 0 then [ev.type] else [])
  else if byteArgOps.contains ev.type ∨ ev.type = mds_PAT then [ev.type, ev.arg % 256]
  else if ev.type = mds_MTAB then [ev.type, if ev.arg ≠ 0 then (ev.arg + nS) % 256 else 0]
  else if ev.type = mds_INS ∨ ev.type = mds_PCM then [ev.type, (nS + nM + ev.arg) % 256]
  else if ev.type = mds_PEG then [ev.type, if ev.arg ≠ 0 then (nS + nM + ev.arg) % 256 else 0]
  else [ev.type]

/-- one iteration of `convert_track`'s loop in closed form -/
inductive Shape (nS nM : Nat) (e : Enc) (ev : MEv) (e' : Enc) : Prop
  | same : e' = e → (∀ s, stepI (evIns nS nM ev) s = s) → ev.type ≠ mds_LP → ev.type ≠ mds_LPF → isTermOp ev.type = false →
      Shape nS nM e ev e'
  | rest (e1 : Enc) : ev.type = mds_REST → 1 ≤ ev.arg → ev.arg ≤ 65535 → encRest e ev.arg = .ok e1 →
      e' = { e1 with lastType := mds_REST } → Shape nS nM e ev e'
  | note : mds_TIE ≤ ev.type → ev.type < mds_SLR → 1 ≤ ev.arg → ev.arg ≤ 65535 →
      e' = { encNote e ev.type ev.arg with lastType := ev.type } → Shape nS nM e ev e'
  | segno : ev.type = mds_SEGNO → e' = afterSegno e → Shape nS nM e ev e'
  | cmd (b : Nat) (r : List Nat) : b ≥ 0xe0 → InsOk (b :: r) → e'.out = e.out ++ b :: r → e'.lastType ≥ 0xe0 →
      e'.breaks.filter (· != 0) = e.breaks.filter (· != 0) → e'.breaks.length = dstep ev.type e.breaks.length →
      (∀ s, stepI (b :: r) s = stepI (evIns nS nM ev) s) → b = ev.type → (∀ x ∈ b :: r, x < 256) → Shape nS nM e ev e'
  | lpb (r : List Nat) : ev.type = mds_LPB → e.breaks = 0 :: r → e' = atLPB e r → Shape nS nM e ev e'
  | lpf (b : Nat) (r : List Nat) : ev.type = mds_LPF → e.breaks = b :: r → b ≠ 0 → e.out.length + 4 ≤ e'.out.length →
      encEv nS nM e ev = .ok e' → Shape nS nM e ev e'

theorem stepI_nil (s : Bool × List Op) : stepI [] s = s := rfl

theorem contains_false_of_lt {l : List Nat} (hl : ∀ x ∈ l, x ≥ 0xe0) {ty : Nat} (h : ty < 0xe0) : l.contains ty = false := by
  cases hc : l.contains ty with
  | false => rfl
  | true => have := hl ty (by simpa using hc); omega

theorem byteArgOps_ge : ∀ x ∈ byteArgOps, x ≥ 0xe0 := by decide
theorem wordArgOps_ge : ∀ x ∈ wordArgOps, x ≥ 0xe0 := by decide

/-- a rest / tie / note of length 0 leaves the encoder as it is -/
theorem encEv_zero (nS nM : Nat) (e : Enc) {ty : Nat} (h1 : mds_REST ≤ ty) (h2 : ty < mds_SLR) :
    encEv nS nM e ⟨ty, 0⟩ = .ok e := by
  have hlt : ty < 0xe0 := h2
  have n0 : ¬ ty = mds_LPB := by simp [mds_LPB, mds_SLR] at *; omega
  have n1 : ¬ ty = mds_SEGNO := by simp [mds_SEGNO, mds_REST] at *; omega
  have n2 : ¬ (ty = mds_SLR ∨ ty = mds_FINISH) := by simp [mds_SLR, mds_FINISH] at *; omega
  have n3 : byteArgOps.contains ty = false := contains_false_of_lt byteArgOps_ge hlt
  have n4 : ¬ ty = mds_MTAB := by simp [mds_MTAB, mds_SLR] at *; omega
  have n5 : ¬ (ty = mds_INS ∨ ty = mds_PCM) := by simp [mds_INS, mds_PCM, mds_SLR] at *; omega
  have n6 : ¬ ty = mds_PEG := by simp [mds_PEG, mds_SLR] at *; omega
  have n7 : wordArgOps.contains ty = false := contains_false_of_lt wordArgOps_ge hlt
  have n8 : ¬ ty = mds_JUMP := by simp [mds_JUMP, mds_SLR] at *; omega
  have n9 : ¬ ty = mds_PAT := by simp [mds_PAT, mds_SLR] at *; omega
  have n10 : ¬ ty = mds_LP := by simp [mds_LP, mds_SLR] at *; omega
  have n11 : ¬ ty = mds_LPF := by simp [mds_LPF, mds_SLR] at *; omega
  have n12 : ¬ ((ty < mds_REST ∧ ty ≠ mds_CARRY) ∨ ty ≥ mds_SLR ∨ False) := by
    rintro (hc | hc | hc)
    · exact Nat.lt_irrefl _ (Nat.lt_of_lt_of_le hc.1 h1)
    · exact Nat.lt_irrefl _ (Nat.lt_of_lt_of_le h2 hc)
    · exact hc
  simp only [encEv, encOther, n0, n1, n2, n3, n4, n5, n6, n7, n8, n9, n10, n11, n12, false_and, if_false,
    Bool.false_eq_true, ne_eq, not_true_eq_false, and_false]

theorem encEv_lpb_skip (nS nM : Nat) (e : Enc) (arg : Nat) {b : Nat} {r : List Nat} (hb : e.breaks = b :: r) (hne : b ≠ 0) :
    encEv nS nM e ⟨mds_LPB, arg⟩ = .ok e := by
  simp [encEv, hb, hne]

theorem encEv_lpb_empty (nS nM : Nat) (e : Enc) (arg : Nat) (hb : e.breaks = []) :
    encEv nS nM e ⟨mds_LPB, arg⟩ = .error .stackEmpty := by
  have n1 : ¬ (mds_LPB = mds_SEGNO) := by decide
  have n2 : ¬ (mds_LPB = mds_SLR ∨ mds_LPB = mds_FINISH) := by decide
  have n3 : byteArgOps.contains mds_LPB = false := by decide
  have n4 : ¬ (mds_LPB = mds_MTAB) := by decide
  have n5 : ¬ (mds_LPB = mds_INS ∨ mds_LPB = mds_PCM) := by decide
  have n6 : ¬ (mds_LPB = mds_PEG) := by decide
  have n7 : wordArgOps.contains mds_LPB = false := by decide
  have n8 : ¬ (mds_LPB = mds_JUMP) := by decide
  have n9 : ¬ (mds_LPB = mds_PAT) := by decide
  have n10 : ¬ (mds_LPB = mds_LP) := by decide
  have a1 : ¬ (mds_LPB = mds_REST ∧ arg ≠ 0) := by simp [mds_LPB, mds_REST]
  have a2 : ¬ (mds_LPB < mds_SLR ∧ arg ≠ 0) := by simp [mds_LPB, mds_SLR]
  simp only [encEv, encOther, hb, n1, n2, n3, n4, n5, n6, n7, n8, n9, n10, a1, a2, if_false, Bool.false_eq_true, if_true,
    List.head?_nil, Option.getD_none, ne_eq, not_true_eq_false, and_false]

theorem encEv_lpf_empty (nS nM : Nat) (e : Enc) (arg : Nat) (hb : e.breaks = []) :
    encEv nS nM e ⟨mds_LPF, arg⟩ = .error .stackEmpty := by
  have a0 : ¬ (mds_LPF = mds_LPB) := by decide
  have a1 : ¬ (mds_LPF = mds_REST ∧ arg ≠ 0) := by simp [mds_LPF, mds_REST]
  have a2 : ¬ (mds_LPF < mds_SLR ∧ arg ≠ 0) := by simp [mds_LPF, mds_SLR]
  simp only [encEv, a0, false_and, a1, a2, if_false, encOther_lpf, hb]

theorem bytes1 {a : Nat} (ha : a < 256) : ∀ x ∈ [a], x < 256 := by
  intro x hx; simp only [List.mem_singleton] at hx; subst hx; exact ha
theorem bytes2 {a b : Nat} (ha : a < 256) (hb : b < 256) : ∀ x ∈ [a, b], x < 256 := by
  intro x hx; simp only [List.mem_cons, List.mem_nil_iff, or_false] at hx; rcases hx with rfl | rfl <;> assumption
theorem bytes3 {a b c : Nat} (ha : a < 256) (hb : b < 256) (hc : c < 256) : ∀ x ∈ [a, b, c], x < 256 := by
  intro x hx; simp only [List.mem_cons, List.mem_nil_iff, or_false] at hx; rcases hx with rfl | rfl | rfl <;> assumption
theorem byteArgOps_lt : ∀ x ∈ byteArgOps, x < 256 := by decide
theorem wordArgOps_lt : ∀ x ∈ wordArgOps, x < 256 := by decide
theorem ite_mod_lt (c : Prop) [Decidable c] (a : Nat) : (if c then a % 256 else 0) < 256 := by split <;> omega

theorem cmdLen_byte : ∀ x ∈ byteArgOps, cmdLen x = some 2 := by decide
theorem cmdLen_word : ∀ x ∈ wordArgOps, cmdLen x = some 3 := by decide
theorem byte_not_loop : ∀ x ∈ byteArgOps, x ≠ mds_LP ∧ x ≠ mds_LPF ∧ x ≠ mds_LPB ∧ ¬ x < mds_SLR := by decide
theorem word_facts : ∀ x ∈ wordArgOps, x ≠ mds_LP ∧ x ≠ mds_LPF ∧ x ≠ mds_LPB ∧ ¬ x < mds_SLR ∧ byteArgOps.contains x = false ∧
    x ≠ mds_PAT ∧ x ≠ mds_MTAB ∧ x ≠ mds_INS ∧ x ≠ mds_PCM ∧ x ≠ mds_PEG ∧ ¬ readsArg x := by decide

/-- an `encEv` result that appends one command and touches neither the break stack nor (beyond
the last type) anything `Shape.cmd` asks about -/
theorem shape_of_append {nS nM : Nat} {e e' : Enc} {ty arg : Nat} {ops : List Nat}
    (he : e' = { e with out := e.out ++ ty :: ops, lastType := ty } ∨
          ∃ lr ln sp, e' = { e with out := e.out ++ ty :: ops, lastType := ty, lastRest := lr, lastNote := ln, segnoPos := sp })
    (hge : ty ≥ 0xe0) (hok : InsOk (ty :: ops)) (h1 : ty ≠ mds_LP) (h2 : ty ≠ mds_LPF)
    (hst : ∀ s, stepI (ty :: ops) s = stepI (evIns nS nM ⟨ty, arg⟩) s) (hby : ∀ x ∈ ty :: ops, x < 256) :
    Shape nS nM e ⟨ty, arg⟩ e' := by
  have facts : e'.out = e.out ++ ty :: ops ∧ e'.lastType = ty ∧ e'.breaks = e.breaks := by
    rcases he with rfl | ⟨_, _, _, rfl⟩ <;> exact ⟨rfl, rfl, rfl⟩
  obtain ⟨f1, f2, f3⟩ := facts
  exact .cmd ty ops hge hok f1 (by rw [f2]; exact hge) (by rw [f3]) (by rw [f3]; simp [dstep, h1, h2]) hst rfl hby

/-- **closed form of one iteration** -/
theorem encEv_shape (nS nM : Nat) {e e' : Enc} {ev : MEv} (hok : okEv ev = true) (h : encEv nS nM e ev = .ok e') :
    Shape nS nM e ev e' := by
  obtain ⟨ty, arg⟩ := ev
  simp only [okEv, Bool.and_eq_true, Bool.or_eq_true, beq_iff_eq, decide_eq_true_eq] at hok
  obtain ⟨harg, hcls⟩ := hok
  rcases hcls with ((((((((((((((⟨rfl, rfl⟩ | ⟨h1, h2⟩) | rfl) | rfl) | hb) | hw) | rfl) | rfl) | rfl) | rfl) | rfl) | rfl) | rfl) | rfl) | rfl)
  · -- loop point
    rw [encEv_segno] at h; injection h with h
    exact .segno rfl h.symm
  · -- rest / tie / note
    by_cases ha : arg = 0
    · subst ha
      rw [encEv_zero nS nM e h1 h2] at h; injection h with h
      refine .same h.symm (fun s => ?_) ?_ ?_ ?_
      · have : (⟨ty, 0⟩ : MEv).type < mds_SLR := h2
        simp [evIns, this, stepI_nil]
      · show ty ≠ mds_LP; simp [mds_LP, mds_SLR] at *; omega
      · show ty ≠ mds_LPF; simp [mds_LPF, mds_SLR] at *; omega
      · show isTermOp ty = false
        simp [isTermOp, mds_FINISH, mds_JUMP, mds_DMFINISH, mds_SLR] at *; omega
    · by_cases hr : ty = mds_REST
      · subst hr
        obtain ⟨e1, he1⟩ := encRest_ok e arg
        rw [encEv_rest_eq nS nM ha he1] at h; injection h with h
        exact .rest e1 rfl (by show 1 ≤ arg; omega) harg he1 h.symm
      · have ht : mds_TIE ≤ ty := by simp [mds_TIE, mds_REST] at *; omega
        rw [encEv_note_eq nS nM e ht h2 ha] at h; injection h with h
        exact .note ht h2 (by show 1 ≤ arg; omega) harg h.symm
  · -- slur
    rw [encEv_other (Nat.le_refl _) (encOther_slr nS nM e arg)] at h; injection h with h
    refine shape_of_append (ops := []) (.inl h.symm) (by decide) (.cmd _ _ (by decide) (by first | decide | (show cmdLen _ = some 2; decide) | (show cmdLen _ = some 3; decide))) (by decide) (by decide) (fun s => ?_) (bytes1 (by decide))
    simp [evIns, mds_SLR, byteArgOps, mds_PAT, mds_MTAB, mds_INS, mds_PCM, mds_PEG, mds_VOL, mds_VOLM, mds_TRS, mds_TRSM,
      mds_DTN, mds_PTA, mds_PAN, mds_LFO, mds_FLG, mds_DMFINISH, mds_COMM, mds_TEMPO, mds_PCMRATE, mds_PCMMODE]
  · -- finish
    rw [encEv_finish] at h; injection h with h
    refine shape_of_append (ops := []) (.inl h.symm) (by decide) (.cmd _ _ (by decide) (by first | decide | (show cmdLen _ = some 2; decide) | (show cmdLen _ = some 3; decide))) (by decide) (by decide) (fun s => ?_) (bytes1 (by decide))
    simp [evIns, mds_FINISH, mds_SLR, byteArgOps, mds_PAT, mds_MTAB, mds_INS, mds_PCM, mds_PEG, mds_VOL, mds_VOLM, mds_TRS, mds_TRSM,
      mds_DTN, mds_PTA, mds_PAN, mds_LFO, mds_FLG, mds_DMFINISH, mds_COMM, mds_TEMPO, mds_PCMRATE, mds_PCMMODE]
  · -- one-byte commands
    have hmem : ty ∈ byteArgOps := by simpa using hb
    have hge : ty ≥ 0xe0 := byteArgOps_ge ty hmem
    obtain ⟨k1, k2, k3, k4⟩ := byte_not_loop ty hmem
    rw [encEv_other (by simpa [mds_SLR] using hge) (encOther_byte nS nM e arg hb) (by rintro ⟨hh, _⟩; exact k3 hh)] at h
    injection h with h
    refine shape_of_append (ops := [arg % 256]) (.inl h.symm) hge (.cmd _ _ hge (cmdLen_byte ty hmem)) k1 k2 (fun s => ?_)
      (bytes2 (byteArgOps_lt ty hmem) (Nat.mod_lt _ (by decide)))
    have : ¬ (⟨ty, arg⟩ : MEv).type < mds_SLR := k4
    simp [evIns, this, hmem]
  · -- two-byte commands
    have hmem : ty ∈ wordArgOps := by simpa using hw
    have hge : ty ≥ 0xe0 := wordArgOps_ge ty hmem
    obtain ⟨k1, k2, k3, k4, k5, k6, k7, k8, k9, k10, k11⟩ := word_facts ty hmem
    rw [encEv_other (by simpa [mds_SLR] using hge) (encOther_word nS nM e arg hw) (by rintro ⟨hh, _⟩; exact k3 hh)] at h
    injection h with h
    refine shape_of_append (ops := [arg / 256 % 256, arg % 256]) (.inl h.symm) hge (.cmd _ _ hge (cmdLen_word ty hmem)) k1 k2 (fun s => ?_)
      (bytes3 (wordArgOps_lt ty hmem) (Nat.mod_lt _ (by decide)) (Nat.mod_lt _ (by decide)))
    have : ¬ (⟨ty, arg⟩ : MEv).type < mds_SLR := k4
    have k5' : ty ∉ byteArgOps := by simpa using k5
    have e1 : evIns nS nM ⟨ty, arg⟩ = [ty] := by simp [evIns, this, k5', k6, k7, k8, k9, k10]
    rw [e1]; exact stepI_head_only k11 _ s
  · -- MTAB
    rw [encEv_other (by decide) (encOther_mtab nS nM e arg)] at h; injection h with h
    refine shape_of_append (ops := [if arg ≠ 0 then (arg + nS) % 256 else 0]) (.inl h.symm) (by decide)
      (.cmd _ _ (by decide) (by first | decide | (show cmdLen _ = some 2; decide) | (show cmdLen _ = some 3; decide))) (by decide) (by decide) (fun s => ?_) (bytes2 (by decide) (ite_mod_lt _ _))
    simp [evIns, mds_MTAB, mds_SLR, byteArgOps, mds_PAT, mds_VOL, mds_VOLM, mds_TRS, mds_TRSM,
      mds_DTN, mds_PTA, mds_PAN, mds_LFO, mds_FLG, mds_DMFINISH, mds_COMM, mds_TEMPO, mds_PCMRATE, mds_PCMMODE]
  · -- INS
    rw [encEv_other (by decide) (encOther_ins nS nM e arg (.inl rfl))] at h; injection h with h
    refine shape_of_append (ops := [(nS + nM + arg) % 256]) (.inl h.symm) (by decide)
      (.cmd _ _ (by decide) (by first | decide | (show cmdLen _ = some 2; decide) | (show cmdLen _ = some 3; decide))) (by decide) (by decide) (fun s => ?_) (bytes2 (by decide) (Nat.mod_lt _ (by decide)))
    simp [evIns, mds_INS, mds_MTAB, mds_SLR, byteArgOps, mds_PAT, mds_VOL, mds_VOLM, mds_TRS, mds_TRSM,
      mds_DTN, mds_PTA, mds_PAN, mds_LFO, mds_FLG, mds_DMFINISH, mds_COMM, mds_TEMPO, mds_PCMRATE, mds_PCMMODE]
  · -- PCM
    rw [encEv_other (by decide) (encOther_ins nS nM e arg (.inr rfl))] at h; injection h with h
    refine shape_of_append (ops := [(nS + nM + arg) % 256]) (.inl h.symm) (by decide)
      (.cmd _ _ (by decide) (by first | decide | (show cmdLen _ = some 2; decide) | (show cmdLen _ = some 3; decide))) (by decide) (by decide) (fun s => ?_) (bytes2 (by decide) (Nat.mod_lt _ (by decide)))
    simp [evIns, mds_PCM, mds_INS, mds_MTAB, mds_SLR, byteArgOps, mds_PAT, mds_VOL, mds_VOLM, mds_TRS, mds_TRSM,
      mds_DTN, mds_PTA, mds_PAN, mds_LFO, mds_FLG, mds_DMFINISH, mds_COMM, mds_TEMPO, mds_PCMRATE, mds_PCMMODE]
  · -- PEG
    rw [encEv_other (by decide) (encOther_peg nS nM e arg)] at h; injection h with h
    refine shape_of_append (ops := [if arg ≠ 0 then (nS + nM + arg) % 256 else 0]) (.inl h.symm) (by decide)
      (.cmd _ _ (by decide) (by first | decide | (show cmdLen _ = some 2; decide) | (show cmdLen _ = some 3; decide))) (by decide) (by decide) (fun s => ?_) (bytes2 (by decide) (ite_mod_lt _ _))
    simp [evIns, mds_PEG, mds_PCM, mds_INS, mds_MTAB, mds_SLR, byteArgOps, mds_PAT, mds_VOL, mds_VOLM, mds_TRS, mds_TRSM,
      mds_DTN, mds_PTA, mds_PAN, mds_LFO, mds_FLG, mds_DMFINISH, mds_COMM, mds_TEMPO, mds_PCMRATE, mds_PCMMODE]
  · -- JUMP
    rw [encEv_jump] at h; injection h with h
    refine shape_of_append (ops := [jumpOff e / 256, jumpOff e % 256]) (.inr ⟨e.lastRest, e.lastNote, jumpOff e, h.symm⟩) (by decide)
      (.cmd _ _ (by decide) (by first | decide | (show cmdLen _ = some 2; decide) | (show cmdLen _ = some 3; decide))) (by decide) (by decide) (fun s => ?_) (bytes3 (by decide) (by unfold jumpOff; omega) (Nat.mod_lt _ (by decide)))
    have e1 : evIns nS nM ⟨mds_JUMP, arg⟩ = [mds_JUMP] := by
      simp [evIns, mds_JUMP, mds_PEG, mds_PCM, mds_INS, mds_MTAB, mds_SLR, byteArgOps, mds_PAT, mds_VOL, mds_VOLM, mds_TRS, mds_TRSM,
        mds_DTN, mds_PTA, mds_PAN, mds_LFO, mds_FLG, mds_DMFINISH, mds_COMM, mds_TEMPO, mds_PCMRATE, mds_PCMMODE]
    rw [e1]; exact stepI_head_only (by simp [readsArg, mds_JUMP, mds_DMFINISH, mds_INS, mds_PCM, mds_PEG, mds_MTAB, mds_PAT, mds_FLG]) _ s
  · -- PAT
    rw [encEv_pat] at h; injection h with h
    refine shape_of_append (ops := [arg % 256]) (.inr ⟨U16, U16, e.segnoPos, by rw [← h]; rfl⟩) (by decide)
      (.cmd _ _ (by decide) (by first | decide | (show cmdLen _ = some 2; decide) | (show cmdLen _ = some 3; decide))) (by decide) (by decide) (fun s => ?_) (bytes2 (by decide) (Nat.mod_lt _ (by decide)))
    simp [evIns, mds_PAT, mds_SLR]
  · -- LP
    rw [encEv_lp] at h; injection h with h
    subst h
    refine .cmd mds_LP [] (by decide) (.cmd _ _ (by decide) (by decide)) rfl (by show mds_LP ≥ 224; decide) (by simp) (by simp [dstep]) (fun s => ?_) rfl (bytes1 (by decide))
    simp [evIns, mds_LP, mds_JUMP, mds_PEG, mds_PCM, mds_INS, mds_MTAB, mds_SLR, byteArgOps, mds_PAT, mds_VOL, mds_VOLM, mds_TRS, mds_TRSM,
      mds_DTN, mds_PTA, mds_PAN, mds_LFO, mds_FLG, mds_DMFINISH, mds_COMM, mds_TEMPO, mds_PCMRATE, mds_PCMMODE]
  · -- LPB
    cases hbr : e.breaks with
    | nil => rw [encEv_lpb_empty nS nM e arg hbr] at h; cases h
    | cons b r =>
      by_cases hb0 : b = 0
      · subst hb0
        rw [encEv_lpb nS nM e arg r hbr] at h; injection h with h
        exact .lpb r rfl hbr h.symm
      · rw [encEv_lpb_skip nS nM e arg hbr hb0] at h; injection h with h
        refine .same h.symm (fun s => ?_) (by show mds_LPB ≠ mds_LP; decide) (by show mds_LPB ≠ mds_LPF; decide) (by show isTermOp mds_LPB = false; decide)
        have e1 : evIns nS nM ⟨mds_LPB, arg⟩ = [mds_LPB] := by
          simp [evIns, mds_LPB, mds_JUMP, mds_PEG, mds_PCM, mds_INS, mds_MTAB, mds_SLR, byteArgOps, mds_PAT, mds_VOL, mds_VOLM, mds_TRS, mds_TRSM,
            mds_DTN, mds_PTA, mds_PAN, mds_LFO, mds_FLG, mds_DMFINISH, mds_COMM, mds_TEMPO, mds_PCMRATE, mds_PCMMODE]
        rw [e1]; exact stepI_neutral (by simp [neutralOp]) _ s
  · -- LPF
    cases hbr : e.breaks with
    | nil => rw [encEv_lpf_empty nS nM e arg hbr] at h; cases h
    | cons b r =>
      by_cases hb0 : b = 0
      · subst hb0
        rw [encEv_lpf_nobreak nS nM e arg r hbr] at h; injection h with h
        subst h
        refine .cmd mds_LPF [arg % 256] (by decide) (.cmd _ _ (by decide) (by show cmdLen _ = some 2; decide)) rfl (by show mds_LPF ≥ 224; decide) (by simp [hbr])
          (by simp [dstep, hbr, mds_LPF, mds_LP]) (fun s => ?_) rfl (bytes2 (by decide) (Nat.mod_lt _ (by decide)))
        have e1 : evIns nS nM ⟨mds_LPF, arg⟩ = [mds_LPF] := by
          simp [evIns, mds_LPF, mds_JUMP, mds_PEG, mds_PCM, mds_INS, mds_MTAB, mds_SLR, byteArgOps, mds_PAT, mds_VOL, mds_VOLM, mds_TRS, mds_TRSM,
            mds_DTN, mds_PTA, mds_PAN, mds_LFO, mds_FLG, mds_DMFINISH, mds_COMM, mds_TEMPO, mds_PCMRATE, mds_PCMMODE]
        rw [e1, stepI_neutral (by simp [neutralOp]), stepI_neutral (by simp [neutralOp])]
      · refine .lpf b r rfl hbr hb0 ?_ h
        have ho := encOther_lpf nS nM e arg
        rw [hbr] at ho
        simp only [hb0, ne_eq, not_false_eq_true, if_true] at ho
        rw [encEv_other (by decide) ho] at h; injection h with h
        subst h
        have hsplit : ∀ (l c : List Nat), ((l.take b) ++ c ++ (l.drop b)).length = l.length + c.length := by
          intro l c
          have := congrArg List.length (List.take_append_drop b l)
          simp only [List.length_append] at this ⊢; omega
        simp only
        rw [hsplit]
        split <;> simp <;> omega

end Ctrmml.MdsRead
