/-
  The instruction walker `SeqWf.walk` accepts what `convert_track` emits (C03): a second,
  lighter simulation — encoder state against walker state.  No registers are needed: the walker
  only has to stay on instruction boundaries, which depends on the same "pending length-less
  note" distinction as the interpreter proof.
-/
import Ctrmml.Proofs.CodecSegno
import Ctrmml.Proofs.CodecPI
import Ctrmml.Spec.SeqWf
namespace Ctrmml.Codec
open Ctrmml.Mds Ctrmml.Seq Ctrmml.SeqWf Tables

variable {seq : List Nat} {start : Nat}

/-- opcodes the walker just steps over -/
def plainOp (b : Nat) : Prop :=
  ¬ (b = mds_FINISH ∨ b = mds_DMFINISH) ∧ ¬ b = mds_JUMP ∧ ¬ b = mds_LP ∧ ¬ (b = mds_LPB ∨ b = mds_LPBL) ∧ ¬ b = mds_LPF

/-- walker state after stepping over an instruction of length `len` -/
def adv (w : W) (len : Nat) : W :=
  { (if w.depth = 0 then { w with bounds0 := w.pc :: w.bounds0 } else w) with pc := w.pc + len }

theorem walk_plain {w : W} {b len : Nat} (fuel : Nat) (hb : seq[w.pc]? = some b) (hl : instrLen seq w.pc = some len)
    (hin : w.pc + len ≤ seq.length) (hp : plainOp b) :
    walk seq start (fuel + 1) w = walk seq start fuel (adv w len) := by
  obtain ⟨p1, p2, p3, p4, p5⟩ := hp
  have hin' : ¬ w.pc + len > seq.length := by omega
  rw [walk]
  simp only [rd, hb, hl, hin', if_false, p1, p2, p3, p4, p5, adv]

/-- straight-line walking over plain instructions -/
inductive Lin (seq : List Nat) : W → W → Prop
  | refl (w : W) : Lin seq w w
  | step {w w2 : W} {b len : Nat} : seq[w.pc]? = some b → instrLen seq w.pc = some len →
      w.pc + len ≤ seq.length → plainOp b → 1 ≤ len → Lin seq (adv w len) w2 → Lin seq w w2

theorem Lin.trans {a b c : W} (h1 : Lin seq a b) (h2 : Lin seq b c) : Lin seq a c := by
  induction h1 with
  | refl => exact h2
  | step hb hl hin hp hpos _ ih => exact .step hb hl hin hp hpos (ih h2)

theorem Lin.one {w : W} {b len : Nat} (hb : seq[w.pc]? = some b) (hl : instrLen seq w.pc = some len)
    (hin : w.pc + len ≤ seq.length) (hp : plainOp b) (hpos : 1 ≤ len := by omega) : Lin seq w (adv w len) :=
  .step hb hl hin hp hpos (.refl _)

/-- `w'` is reached from `w` by the walker using up `k` units of fuel -/
def WReach (seq : List Nat) (start : Nat) (w w' : W) : Prop :=
  ∃ k, ∀ fuel, walk seq start (fuel + k) w = walk seq start fuel w'

theorem WReach.refl' (w : W) : WReach seq start w w := ⟨0, fun _ => rfl⟩

theorem WReach.trans {a b c : W} (h1 : WReach seq start a b) (h2 : WReach seq start b c) : WReach seq start a c := by
  obtain ⟨k1, e1⟩ := h1
  obtain ⟨k2, e2⟩ := h2
  exact ⟨k2 + k1, fun fuel => by rw [← Nat.add_assoc, e1, e2]⟩

theorem adv_pc (w : W) (len : Nat) : (adv w len).pc = w.pc + len := by
  unfold adv; split <;> rfl

/-- straight-line walking uses at most one unit of fuel per byte -/
theorem Lin.fuel {a b : W} (h : Lin seq a b) :
    ∃ k, a.pc + k ≤ b.pc ∧ ∀ fuel, walk seq start (fuel + k) a = walk seq start fuel b := by
  induction h with
  | refl w => exact ⟨0, Nat.le_refl _, fun _ => rfl⟩
  | @step w w2 b len hb hl hin hp hpos _ ih =>
    obtain ⟨k, hk, e⟩ := ih
    rw [adv_pc] at hk
    exact ⟨k + 1, by omega, fun fuel => by rw [← Nat.add_assoc, walk_plain _ hb hl hin hp, e]⟩

theorem Lin.wreach {a b : W} (h : Lin seq a b) : WReach seq start a b := by
  obtain ⟨k, _, e⟩ := h.fuel (start := start)
  exact ⟨k, e⟩

/-- what straight-line walking leaves alone -/
structure WFrame (w w' : W) : Prop where
  depth : w'.depth = w.depth
  breaks : w'.breaks = w.breaks
  mono : ∀ x ∈ w.bounds0, x ∈ w'.bounds0
  /-- at depth 0 the starting position becomes a recorded boundary as soon as one step is made -/
  here : w.depth = 0 → w'.pc = w.pc ∨ w.pc ∈ w'.bounds0

theorem WFrame.rfl' (w : W) : WFrame w w := ⟨rfl, rfl, fun _ h => h, fun _ => .inl rfl⟩

theorem WFrame.trans {a b c : W} (h1 : WFrame a b) (h2 : WFrame b c) : WFrame a c := by
  refine ⟨h2.depth.trans h1.depth, h2.breaks.trans h1.breaks, fun x hx => h2.mono x (h1.mono x hx), fun hd => ?_⟩
  rcases h1.here hd with h | h
  · rcases h2.here (h1.depth.trans hd) with h' | h'
    · exact .inl (h'.trans h)
    · exact .inr (h ▸ h')
  · exact .inr (h2.mono _ h)

theorem adv_frame (w : W) {len : Nat} : WFrame w (adv w len) := by
  unfold adv
  by_cases hd : w.depth = 0
  · simp only [hd, if_true]
    exact ⟨hd.symm ▸ rfl, rfl, fun x hx => List.mem_cons_of_mem _ hx, fun _ => .inr (List.mem_cons_self ..)⟩
  · simp only [hd, if_false]
    exact ⟨rfl, rfl, fun _ h => h, fun h => absurd h hd⟩

theorem Lin.frame {a b : W} (h : Lin seq a b) : WFrame a b := by
  induction h with
  | refl w => exact WFrame.rfl' w
  | step _ _ _ _ _ _ ih => exact (adv_frame _).trans ih

/-! ### instruction lengths -/

theorem instrLen_low {pc b : Nat} (hb : seq[pc]? = some b) (h : b ≤ 0x80) : instrLen seq pc = some 1 := by
  simp [instrLen, rd, hb, mds_REST, h]

theorem instrLen_note2 {pc ty l : Nat} (hb : seq[pc]? = some ty) (h1 : 0x81 ≤ ty) (h2 : ty < 0xe0)
    (hl : seq[pc + 1]? = some l) (hl' : l < 0x80) : instrLen seq pc = some 2 := by
  have a1 : ¬ ty ≤ 128 := by omega
  have a2 : ty < 224 := by omega
  simp [instrLen, rd, hb, hl, hl', a1, a2, mds_REST, mds_SLR]

theorem instrLen_note1 {pc ty l : Nat} (hb : seq[pc]? = some ty) (h1 : 0x81 ≤ ty) (h2 : ty < 0xe0)
    (hl : seq[pc + 1]? = some l) (hl' : ¬ l < 0x80) : instrLen seq pc = some 1 := by
  have a1 : ¬ ty ≤ 128 := by omega
  have a2 : ty < 224 := by omega
  simp [instrLen, rd, hb, hl, hl', a1, a2, mds_REST, mds_SLR]

theorem instrLen_slr {pc : Nat} (hb : seq[pc]? = some mds_SLR) : instrLen seq pc = some 1 := by
  simp [instrLen, rd, hb, mds_REST, mds_SLR]

theorem instrLen_cmd1 {pc op : Nat} (hb : seq[pc]? = some op) (hop : oneArgOps.contains op = true) :
    instrLen seq pc = some 2 := by
  have all : ∀ x ∈ oneArgOps, ¬ x ≤ mds_REST ∧ ¬ x < mds_SLR ∧ ¬ (x = mds_SLR ∨ x = mds_FINISH ∨ x = mds_LP) ∧
      ¬ (x = mds_JUMP ∨ x = mds_LPBL ∨ twoArgOps.contains x = true) := by decide
  obtain ⟨f1, f2, f3, f4⟩ := all op (by simpa using hop)
  simp only [instrLen, rd, hb, f1, f2, f3, f4, hop, if_false, or_true, if_true]

theorem instrLen_cmd2 {pc op : Nat} (hb : seq[pc]? = some op) (hop : twoArgOps.contains op = true) :
    instrLen seq pc = some 3 := by
  have all : ∀ x ∈ twoArgOps, ¬ x ≤ mds_REST ∧ ¬ x < mds_SLR ∧ ¬ (x = mds_SLR ∨ x = mds_FINISH ∨ x = mds_LP) := by decide
  obtain ⟨f1, f2, f3⟩ := all op (by simpa using hop)
  simp only [instrLen, rd, hb, f1, f2, f3, hop, if_false, or_true, if_true]

theorem plain_low {b : Nat} (h : b < 0xe1) : plainOp b := by
  simp only [plainOp, mds_FINISH, mds_DMFINISH, mds_JUMP, mds_LP, mds_LPB, mds_LPBL, mds_LPF]; omega

theorem plain_cmd1 {op : Nat} (hop : oneArgOps.contains op = true) : plainOp op := by
  have all : ∀ x ∈ oneArgOps, (¬ (x = mds_FINISH ∨ x = mds_DMFINISH) ∧ ¬ x = mds_JUMP ∧ ¬ x = mds_LP ∧
      ¬ (x = mds_LPB ∨ x = mds_LPBL) ∧ ¬ x = mds_LPF) := by decide
  exact all op (by simpa using hop)

theorem plain_cmd2 {op : Nat} (hop : twoArgOps.contains op = true) : plainOp op := by
  have all : ∀ x ∈ twoArgOps, (¬ (x = mds_FINISH ∨ x = mds_DMFINISH) ∧ ¬ x = mds_JUMP ∧ ¬ x = mds_LP ∧
      ¬ (x = mds_LPB ∨ x = mds_LPBL) ∧ ¬ x = mds_LPF) := by decide
  exact all op (by simpa using hop)

/-! ### encoder state against walker state -/

/-- the walker stands at the end of the emitted bytes, or on a pending length-less note -/
def WGood (e : Enc) (w : W) : Prop :=
  (needLenB e = false ∧ w.pc = e.out.length) ∨
  (needLenB e = true ∧ e.lastNote < 128 ∧
    ∃ ty, e.out.getLast? = some ty ∧ 0x81 ≤ ty ∧ ty < 0xe0 ∧ w.pc + 1 = e.out.length)

theorem wresolve {e : Enc} {w : W} (g : WGood e w) {b : Nat} {r : List Nat} (hb : b ≥ 0x80)
    (hp : e.out ++ b :: r <+: seq) : ∃ w1, Lin seq w w1 ∧ w1.pc = e.out.length := by
  rcases g with ⟨_, hpc⟩ | ⟨_, _, ty, hl, h1, h2, hpc⟩
  · exact ⟨w, .refl _, hpc⟩
  · have r0 : seq[w.pc]? = some ty := rd_last hp hl hpc
    have r1 : seq[w.pc + 1]? = some b := by rw [hpc]; exact rd_at hp
    have hin : w.pc + 1 ≤ seq.length := by have := hp.length_le; simp at this; omega
    exact ⟨_, .one r0 (instrLen_note1 r0 h1 h2 r1 (by omega)) hin (plain_low (by omega)), by rw [adv_pc, hpc]⟩

theorem wdisamb {e : Enc} {w : W} (g : WGood e w) (hp : (disambP e).out <+: seq) :
    ∃ w1, Lin seq w w1 ∧ w1.pc = (disambP e).out.length ∧ needLenB (disambP e) = false := by
  rcases g with ⟨hn, hpc⟩ | ⟨hn, hlt, ty, hl, h1, h2, hpc⟩
  · have : disambP e = e := by simp [disambP, hn]
    rw [this]; exact ⟨w, .refl _, hpc, hn⟩
  · have hm : e.lastNote % 256 = e.lastNote := by omega
    have hd : disambP e = { e with lastType := mds_REST, out := e.out ++ [e.lastNote] } := by
      simp [disambP, hn, hm]
    rw [hd] at hp ⊢
    have r0 : seq[w.pc]? = some ty := rd_last hp hl hpc
    have r1 : seq[w.pc + 1]? = some e.lastNote := by rw [hpc]; exact rd_at hp
    have hin : w.pc + 2 ≤ seq.length := by have := hp.length_le; simp at this; omega
    refine ⟨_, .one r0 (instrLen_note2 r0 h1 h2 r1 hlt) hin (plain_low (by omega)), ?_, ?_⟩
    · rw [adv_pc]; simp; omega
    · simp [needLenB, noteish, mds_REST, mds_TIE]

/-- one byte `≤ 0x80` (a rest) from a position at the end of the output -/
theorem wpush {e e' : Enc} {w : W} (hpc : w.pc = e.out.length) {b : Nat} (hb : b ≤ 0x80)
    (ho : e'.out = e.out ++ [b]) (hp : e'.out <+: seq) : ∃ w1, Lin seq w w1 ∧ w1.pc = e'.out.length := by
  rw [ho] at hp
  have r0 : seq[w.pc]? = some b := by rw [hpc]; exact rd_at hp
  have hin : w.pc + 1 ≤ seq.length := by have := hp.length_le; simp at this; omega
  exact ⟨_, .one r0 (instrLen_low r0 hb) hin (plain_low (by omega)), by rw [adv_pc, ho, hpc]; simp⟩

theorem wgood_idle {e : Enc} {w : W} (hn : needLenB e = false) (hpc : w.pc = e.out.length) : WGood e w :=
  .inl ⟨hn, hpc⟩

theorem wrestLoop : ∀ (fuel : Nat) (e : Enc) (arg : Nat) (w : W) (e' : Enc) (a : Nat),
    WGood e w → restLoop fuel e arg = .ok (e', a) → e'.out <+: seq →
    ∃ w1, Lin seq w w1 ∧ WGood e' w1 := by
  intro fuel
  induction fuel with
  | zero =>
    intro e arg w e' a g h _
    simp [restLoop] at h; obtain ⟨rfl, rfl⟩ := h
    exact ⟨w, .refl _, g⟩
  | succ f ih =>
    intro e arg w e' a g h hp
    rw [restLoop_succ] at h
    by_cases hc : arg ≥ 128
    · simp only [hc, if_true] at h
      have hfr2 := restLoop_frame _ _ _ _ _ h
      have hp2 : ((disambP e).out ++ [0x7f]) <+: seq := hfr2.1.trans hp
      obtain ⟨w1, l1, hpc1, _⟩ := wdisamb g ((List.prefix_append _ _).trans hp2)
      obtain ⟨w2, l2, hpc2⟩ := wpush (e' := { disambP e with out := (disambP e).out ++ [0x7f], lastRest := 0x7f })
        hpc1 (by omega) rfl hp2
      obtain ⟨w3, l3, g3⟩ := ih _ _ _ _ _ (wgood_idle (by simp [needLenB, lastGt80_concat]) hpc2) h hp
      exact ⟨w3, l1.trans (l2.trans l3), g3⟩
    · simp only [hc, if_false, Except.ok.injEq, Prod.mk.injEq] at h
      obtain ⟨rfl, rfl⟩ := h
      exact ⟨w, .refl _, g⟩

theorem restLoop_lt : ∀ (fuel : Nat) (e : Enc) (arg : Nat) (e' : Enc) (a : Nat),
    restLoop fuel e arg = .ok (e', a) → arg < 128 * (fuel + 1) → a < 128 := by
  intro fuel
  induction fuel with
  | zero => intro e arg e' a h hlt; simp [restLoop] at h; omega
  | succ f ih =>
    intro e arg e' a h hlt
    rw [restLoop_succ] at h
    by_cases hc : arg ≥ 128
    · simp only [hc, if_true] at h
      exact ih _ _ _ _ h (by omega)
    · simp only [hc, if_false, Except.ok.injEq, Prod.mk.injEq] at h
      omega

theorem wencRest {e : Enc} {w : W} (g : WGood e w) {n : Nat} (hn : n ≤ 65535) {e' : Enc} (h : encRest e n = .ok e')
    (hp : e'.out <+: seq) : ∃ w1, Lin seq w w1 ∧ w1.pc = e'.out.length := by
  obtain ⟨e1, a, hrl⟩ := restLoop_ok 512 e (n - 1)
  unfold encRest at h
  rw [hrl] at h
  simp only at h
  by_cases hc : a = e1.lastRest
  · simp only [hc, if_true, Except.ok.injEq] at h
    subst h
    have hp1 : e1.out ++ [mds_REST] <+: seq := hp
    obtain ⟨w1, l1, g1⟩ := wrestLoop 512 e (n - 1) w e1 a g hrl ((List.prefix_append _ _).trans hp1)
    obtain ⟨w2, l2, hpc2⟩ := wresolve g1 (b := mds_REST) (by decide) hp1
    obtain ⟨w3, l3, hpc3⟩ := wpush (e := e1) (e' := { e1 with out := e1.out ++ [mds_REST] }) hpc2
      (show mds_REST ≤ 0x80 by decide) rfl hp1
    exact ⟨w3, l1.trans (l2.trans l3), hpc3⟩
  · simp only [hc, if_false, disamb_eq, Except.ok.injEq] at h
    subst h
    have hp1 : (disambP e1).out ++ [a % 256] <+: seq := hp
    have hpd : (disambP e1).out <+: seq := (List.prefix_append _ _).trans hp1
    obtain ⟨w1, l1, g1⟩ := wrestLoop 512 e (n - 1) w e1 a g hrl ((disambP_prefix e1).trans hpd)
    obtain ⟨w2, l2, hpc2, _⟩ := wdisamb g1 hpd
    have ha : a < 128 := restLoop_lt 512 e (n - 1) e1 a hrl (by omega)
    obtain ⟨w3, l3, hpc3⟩ := wpush (e := disambP e1)
      (e' := { disambP e1 with out := (disambP e1).out ++ [a % 256], lastRest := a }) hpc2
      (show a % 256 ≤ 0x80 by omega) rfl hp1
    exact ⟨w3, l1.trans (l2.trans l3), hpc3⟩

/-- mid-note for the walker: the last emitted byte is a note/tie byte the walker stands on -/
def WPend (e : Enc) (w : W) (t : Nat) : Prop :=
  e.out.getLast? = some t ∧ 0x81 ≤ t ∧ t < 0xe0 ∧ w.pc + 1 = e.out.length

theorem wnoteLoop : ∀ (fuel : Nat) (e : Enc) (arg : Nat) (w : W) (t : Nat) (e' : Enc) (a : Nat),
    WPend e w t → noteLoop fuel e arg = (e', a) → arg < 128 * (fuel + 1) → e'.out <+: seq →
    ∃ w1 t', Lin seq w w1 ∧ WPend e' w1 t' ∧ a < 128 := by
  intro fuel
  induction fuel with
  | zero =>
    intro e arg w t e' a p h hlt _
    rw [noteLoop] at h
    simp only [Prod.mk.injEq] at h
    obtain ⟨rfl, rfl⟩ := h
    exact ⟨w, t, .refl _, p, by omega⟩
  | succ f ih =>
    intro e arg w t e' a p h hlt hp
    obtain ⟨pl, pt1, pt2, ppc⟩ := p
    rw [noteLoop_succ] at h
    by_cases hc : arg ≥ 128
    · simp only [hc, if_true] at h
      by_cases hl : e.lastNote ≠ 0x7f
      · rw [if_pos hl] at h
        have hpre := (noteLoop_frame _ _ _ _ _ h).1
        have hp2 : e.out ++ 0x7f :: [mds_TIE] <+: seq := by
          have := hpre.trans hp
          simpa [List.append_assoc] using this
        have r0 : seq[w.pc]? = some t := rd_last hp2 pl ppc
        have r1 : seq[w.pc + 1]? = some 0x7f := by rw [ppc]; exact rd_at hp2
        have hin : w.pc + 2 ≤ seq.length := by have := hp2.length_le; simp at this; omega
        have p2 : WPend { e with lastNote := 0x7f, out := e.out ++ [0x7f] ++ [mds_TIE] } (adv w 2) mds_TIE :=
          ⟨by simp, by decide, by decide, by rw [adv_pc]; simp; omega⟩
        obtain ⟨w3, t', l3, p3, ha⟩ := ih _ _ _ _ _ _ p2 h (by omega) hp
        exact ⟨w3, t', .step r0 (instrLen_note2 r0 pt1 pt2 r1 (by omega)) hin (plain_low (by omega)) (by omega) l3, p3, ha⟩
      · rw [if_neg hl] at h
        have hpre := (noteLoop_frame _ _ _ _ _ h).1
        have hp2 : e.out ++ [mds_TIE] <+: seq := hpre.trans hp
        have r0 : seq[w.pc]? = some t := rd_last hp2 pl ppc
        have r1 : seq[w.pc + 1]? = some mds_TIE := by rw [ppc]; exact rd_at hp2
        have hin : w.pc + 1 ≤ seq.length := by have := hp2.length_le; simp at this; omega
        have p2 : WPend { e with lastNote := 0x7f, out := e.out ++ [mds_TIE] } (adv w 1) mds_TIE :=
          ⟨by simp, by decide, by decide, by rw [adv_pc]; simp; omega⟩
        obtain ⟨w3, t', l3, p3, ha⟩ := ih _ _ _ _ _ _ p2 h (by omega) hp
        exact ⟨w3, t', .step r0 (instrLen_note1 r0 pt1 pt2 r1 (by decide)) hin (plain_low (by omega)) (by omega) l3, p3, ha⟩
    · simp only [hc, if_false, Prod.mk.injEq] at h
      obtain ⟨rfl, rfl⟩ := h
      exact ⟨w, t, .refl _, ⟨pl, pt1, pt2, ppc⟩, by omega⟩

theorem wencNote {e : Enc} {w : W} (g : WGood e w) {ty n : Nat} (h1 : 0x81 ≤ ty) (h2 : ty < 0xe0)
    (hn2 : n ≤ 65535) (hp : (encNote e ty n).out <+: seq) :
    ∃ w1, Lin seq w w1 ∧ WGood { encNote e ty n with lastType := ty } w1 := by
  obtain ⟨e1, a, hnl, henc⟩ := encNote_eq e ty n
  have hfr := noteLoop_frame _ _ _ _ _ hnl
  have hpre1 : e1.out <+: (encNote e ty n).out := by
    rw [henc]; split
    · exact List.prefix_append _ _
    · exact List.prefix_refl _
  have hp1 : e1.out <+: seq := hpre1.trans hp
  have hp0 : e.out ++ [ty] <+: seq := hfr.1.trans hp1
  obtain ⟨w1, l1, hpc1⟩ := wresolve g (b := ty) (by omega) hp0
  have p0 : WPend { e with out := e.out ++ [ty] } w1 ty := ⟨by simp, h1, h2, by simp [hpc1]⟩
  obtain ⟨w2, t', l2, ⟨pl, pt1, pt2, ppc⟩, ha⟩ := wnoteLoop 512 _ _ _ _ _ _ p0 hnl (by omega) hp1
  rw [henc] at hp ⊢
  by_cases hc : a ≠ e1.lastNote
  · rw [if_pos hc] at hp ⊢
    have hm : a % 256 = a := by omega
    rw [hm] at hp ⊢
    have hp' : e1.out ++ [a] <+: seq := hp
    have r0 : seq[w2.pc]? = some t' := rd_last hp' pl ppc
    have r1' : seq[w2.pc + 1]? = some a := by rw [ppc]; exact rd_at hp'
    have hin : w2.pc + 2 ≤ seq.length := by have := hp'.length_le; simp at this; omega
    refine ⟨_, l1.trans (l2.trans (.one r0 (instrLen_note2 r0 pt1 pt2 r1' ha) hin (plain_low (by omega)))), .inl ⟨?_, ?_⟩⟩
    · have : ¬ a > 128 := by omega
      simp [needLenB, lastGt80_concat, this]
    · rw [adv_pc]; simp; omega
  · rw [if_neg hc] at hp ⊢
    have hc' : a = e1.lastNote := by simpa using hc
    refine ⟨w2, l1.trans l2, .inr ⟨?_, by show e1.lastNote < 128; omega, t', pl, pt1, pt2, ppc⟩⟩
    have b1 : mds_TIE ≤ ty := h1
    have b2 : ty < mds_SLR := h2
    have b3 : t' > 128 := by omega
    simp [needLenB, noteish, lastGt80, pl, b1, b2, b3]

/-- a command: `bs` = opcode and operand bytes, `len` = what `instrLen` says -/
theorem wcmd {e e' : Enc} {w : W} (g : WGood e w) {op : Nat} {ops : List Nat}
    (hop : op ≥ 0xe0) (hplain : plainOp op) (hlen : ∀ pc, seq[pc]? = some op → instrLen seq pc = some (1 + ops.length))
    (ho : e'.out = e.out ++ op :: ops) (ht : e'.lastType ≥ 0xe0) (hp : e'.out <+: seq) :
    ∃ w1, Lin seq w w1 ∧ WGood e' w1 := by
  rw [ho] at hp
  obtain ⟨w1, l1, hpc1⟩ := wresolve g (b := op) (by omega) hp
  have r0 : seq[w1.pc]? = some op := by rw [hpc1]; exact rd_at hp
  have hin : w1.pc + (1 + ops.length) ≤ seq.length := by have := hp.length_le; simp at this; omega
  refine ⟨_, l1.trans (.one r0 (hlen _ r0) hin hplain), .inl ⟨needLenB_cmd ht, ?_⟩⟩
  rw [adv_pc, ho, hpc1]; simp; omega

/-- a command event: opcode followed by operand bytes that do not depend on the state; the walker
knows its length -/
theorem cmd_class (nS nM : Nat) {ty : Nat} (arg : Nat) (h : ty = mds_SLR ∨ isCmdOp ty = true) :
    ∃ ops, (∀ e : Enc, encEv nS nM e ⟨ty, arg⟩ = .ok { e with out := e.out ++ ty :: ops, lastType := ty }) ∧
      ty ≥ 0xe0 ∧ plainOp ty ∧
      (∀ (seq : List Nat) (pc : Nat), seq[pc]? = some ty → instrLen seq pc = some (1 + ops.length)) := by
  rcases h with rfl | hcmd
  · exact ⟨[], fun e => encEv_other (Nat.le_refl _) (encOther_slr nS nM e arg), by decide, plain_low (by decide),
      fun seq pc hb => instrLen_slr hb⟩
  · simp only [isCmdOp, Bool.or_eq_true, Bool.and_eq_true, beq_iff_eq, bne_iff_ne] at hcmd
    have one : ∀ {op : Nat}, oneArgOps.contains op = true → ∀ (a : Nat),
        (∀ e : Enc, encOther nS nM e op arg = .ok { e with out := e.out ++ [op, a] }) →
        ∃ ops, (∀ e : Enc, encEv nS nM e ⟨op, arg⟩ = .ok { e with out := e.out ++ op :: ops, lastType := op }) ∧
          op ≥ 0xe0 ∧ plainOp op ∧
          (∀ (seq : List Nat) (pc : Nat), seq[pc]? = some op → instrLen seq pc = some (1 + ops.length)) := by
      intro op hop a henc
      have hge := oneArgOps_ge hop
      exact ⟨[a], fun e => encEv_other (by simp [mds_SLR]; omega) (henc e)
        (by rintro ⟨h, _⟩; subst h; exact absurd hop (by decide)), by omega, plain_cmd1 hop,
        fun seq pc hb => instrLen_cmd1 hb hop⟩
    rcases hcmd with ((((⟨hb, hdm⟩ | hw) | rfl) | rfl) | rfl) | rfl
    · have all : ∀ x ∈ byteArgOps, x ≠ mds_DMFINISH → oneArgOps.contains x = true := by decide
      exact one (all ty (by simpa using hb) hdm) _ (fun e => encOther_byte nS nM e arg hb)
    · have all : ∀ x ∈ wordArgOps, twoArgOps.contains x = true ∧ x ≥ mds_SLR := by decide
      obtain ⟨h2, hge⟩ := all ty (by simpa using hw)
      have hge' := twoArgOps_ge h2
      exact ⟨[arg / 256 % 256, arg % 256], fun e => encEv_other hge (encOther_word nS nM e arg hw)
        (by rintro ⟨h, _⟩; subst h; exact absurd hw (by decide)), by omega,
        plain_cmd2 h2, fun seq pc hb => instrLen_cmd2 hb h2⟩
    · exact one (by decide) _ (fun e => encOther_ins nS nM e arg (.inl rfl))
    · exact one (by decide) _ (fun e => encOther_ins nS nM e arg (.inr rfl))
    · exact one (by decide) _ (fun e => encOther_peg nS nM e arg)
    · exact one (by decide) _ (fun e => encOther_mtab nS nM e arg)

/-- **one linear event, walker side** -/
theorem wencEv_lin (nS nM : Nat) {e e' : Enc} {ev : MEv} (hv : linEv ev = true) (he : encEv nS nM e ev = .ok e')
    {w : W} (hp : e'.out <+: seq) (g : WGood e w) : ∃ w1, Lin seq w w1 ∧ WGood e' w1 := by
  obtain ⟨ty, arg⟩ := ev
  simp only [linEv, Bool.or_eq_true, Bool.and_eq_true, beq_iff_eq, decide_eq_true_eq] at hv
  rcases hv with (((⟨⟨hty, h1⟩, h2⟩ | ⟨⟨⟨h1, h2⟩, h3⟩, h4⟩) | hslr) | hcmd) | ⟨hz, ha⟩
  rotate_right
  · subst ha
    rw [encEv_zero nS nM e hz] at he
    injection he with he; subst he
    exact ⟨w, .refl _, g⟩
  · subst hty
    have a1 : arg ≠ 0 := by omega
    obtain ⟨e1, he1⟩ := encRest_ok e arg
    rw [encEv_rest_eq nS nM a1 he1] at he
    injection he with he; subst he
    obtain ⟨w1, l1, hpc1⟩ := wencRest g h2 he1 hp
    exact ⟨w1, l1, .inl ⟨by simp [needLenB, noteish, mds_REST, mds_TIE], hpc1⟩⟩
  · have a1 : arg ≠ 0 := by omega
    rw [encEv_note_eq nS nM e h1 h2 a1] at he
    injection he with he; subst he
    exact wencNote g h1 h2 h4 hp
  · obtain ⟨ops, henc, hge, hpl, hlen⟩ := cmd_class nS nM arg (.inl hslr)
    rw [henc e] at he
    injection he with he; subst he
    exact wcmd g hge hpl (hlen seq) rfl hge hp
  · obtain ⟨ops, henc, hge, hpl, hlen⟩ := cmd_class nS nM arg (.inr hcmd)
    rw [henc e] at he
    injection he with he; subst he
    exact wcmd g hge hpl (hlen seq) rfl hge hp

theorem wencAll_lin (nS nM : Nat) : ∀ (es : List MEv), (∀ ev ∈ es, linEv ev = true) → ∀ (e e' : Enc),
    encAll nS nM e es = .ok e' → ∀ (w : W), e'.out <+: seq → WGood e w → ∃ w1, Lin seq w w1 ∧ WGood e' w1
  | [], _, e, e', he, w, _, g => by
    simp only [encAll, Except.ok.injEq] at he; subst he; exact ⟨w, .refl _, g⟩
  | ev :: es, hv, e, e', he, w, hp, g => by
    cases h1 : encEv nS nM e ev with
    | error x => simp [encAll, h1] at he
    | ok e1 =>
      simp only [encAll, h1] at he
      obtain ⟨e2, he2, p2, _, _⟩ := encAll_lin_total nS nM es (fun x hx => hv x (by simp [hx])) e1
      rw [he] at he2; injection he2 with he2; subst he2
      obtain ⟨w1, l1, g1⟩ := wencEv_lin nS nM (hv ev (by simp)) h1 (p2.trans hp) g
      obtain ⟨w2, l2, g2⟩ := wencAll_lin nS nM es (fun x hx => hv x (by simp [hx])) e1 e' he w1 hp g1
      exact ⟨w2, l1.trans l2, g2⟩

/-! ### terminators -/

theorem walk_finish {w : W} (fuel : Nat) (hb : seq[w.pc]? = some mds_FINISH) (hin : w.pc + 1 ≤ seq.length)
    (hd : w.depth = 0) : walk seq start (fuel + 1) w = .ok (w.pc + 1) := by
  have hl : instrLen seq w.pc = some 1 := by simp [instrLen, rd, hb, mds_REST, mds_SLR, mds_FINISH]
  have hin' : ¬ w.pc + 1 > seq.length := by omega
  rw [walk]
  simp only [rd, hb, hl, hin', if_false, true_or, if_true, hd]

theorem walk_jump {w : W} {hi lo : Nat} (fuel : Nat) (hb : seq[w.pc]? = some mds_JUMP)
    (h1 : seq[w.pc + 1]? = some hi) (h2 : seq[w.pc + 1 + 1]? = some lo) (hin : w.pc + 3 ≤ seq.length)
    (hd : w.depth = 0) (hs : start ≤ (w.pc + 3 + (hi * 256 + lo)) % 65536)
    (ht : (w.pc + 3 + (hi * 256 + lo)) % 65536 = w.pc ∨ (w.pc + 3 + (hi * 256 + lo)) % 65536 ∈ w.bounds0) :
    walk seq start (fuel + 1) w = .ok (w.pc + 3) := by
  have hl : instrLen seq w.pc = some 3 := by
    simp [instrLen, rd, hb, mds_REST, mds_SLR, mds_FINISH, mds_JUMP, mds_LP]
  have hin' : ¬ w.pc + 3 > seq.length := by omega
  have n1 : ¬ (mds_JUMP = mds_FINISH ∨ mds_JUMP = mds_DMFINISH) := by decide
  have hmem : (w.pc :: w.bounds0).contains ((w.pc + 3 + (hi * 256 + lo)) % 65536) = true := by
    rcases ht with h | h
    · simp [h]
    · simp [h]
  rw [walk]
  simp only [rd, rd16, hb, h1, h2, hl, hin', if_false, n1, if_true, hd, bind, Option.bind, pure, hmem, hs,
    ne_eq, not_true_eq_false, and_self]

theorem wgood_init : WGood {} ({ pc := 0 } : W) := .inl ⟨by decide, rfl⟩

/-- **C03, walker: linear tracks.** -/
theorem walk_accepts_linear (nS nM : Nat) (es : List MEv) (hv : ∀ ev ∈ es, linEv ev = true) (farg : Nat) :
    ∃ bytes, convertTrack nS nM (es ++ [⟨mds_FINISH, farg⟩]) = .ok bytes ∧
      ∀ fuel, fuel ≥ bytes.length → walk bytes 0 fuel { pc := 0 } = .ok bytes.length := by
  obtain ⟨e1, he1, _, _, _⟩ := encAll_lin_total nS nM es hv {}
  refine ⟨e1.out ++ [mds_FINISH], ?_, ?_⟩
  · simp [convertTrack, encAll_append, he1, encAll, encEv_finish, Except.map]
  · intro fuel hf
    have hp : e1.out ++ [mds_FINISH] <+: e1.out ++ [mds_FINISH] := List.prefix_refl _
    obtain ⟨w1, l1, g1⟩ := wencAll_lin (seq := e1.out ++ [mds_FINISH]) nS nM es hv {} e1 he1 { pc := 0 }
      (List.prefix_append _ _) wgood_init
    obtain ⟨w2, l2, hpc2⟩ := wresolve g1 (b := mds_FINISH) (by decide) hp
    obtain ⟨k, hk, ek⟩ := (l1.trans l2).fuel (start := 0)
    have hd : w2.depth = 0 := (l1.trans l2).frame.depth
    have r0 : (e1.out ++ [mds_FINISH])[w2.pc]? = some mds_FINISH := by rw [hpc2]; exact rd_at hp
    simp only at hk
    obtain ⟨f, rfl⟩ : ∃ f, fuel = f + 1 + k := ⟨fuel - 1 - k, by simp at hf; omega⟩
    rw [ek, walk_finish f r0 (by simp; omega) hd, hpc2]; simp

/-- **C03, walker: looping tracks** `a ++ [SEGNO] ++ b ++ [JUMP]` (stream < 64 KiB): accepted, i.e. the
jump lands on an instruction boundary at loop depth 0 -/
theorem walk_accepts_segno (nS nM : Nat) (a b : List MEv) (ha : ∀ ev ∈ a, linEv ev = true)
    (hb : ∀ ev ∈ b, linEv ev = true) (jarg : Nat) :
    ∃ bytes, convertTrack nS nM (a ++ [⟨mds_SEGNO, 0⟩] ++ b ++ [⟨mds_JUMP, jarg⟩]) = .ok bytes ∧
      (bytes.length < 65536 →
        ∀ fuel, fuel ≥ bytes.length → walk bytes 0 fuel { pc := 0 } = .ok bytes.length) := by
  obtain ⟨eA, heA, _, _, _⟩ := encAll_lin_total nS nM a ha {}
  obtain ⟨eB, heB, pB, _, spB⟩ := encAll_lin_total nS nM b hb (afterSegno eA)
  obtain ⟨bytes, hbytes⟩ : ∃ l, l = eB.out ++ [mds_JUMP, jumpOff eB / 256, jumpOff eB % 256] := ⟨_, rfl⟩
  refine ⟨bytes, ?_, ?_⟩
  · simp [convertTrack, encAll_append, heA, encAll, encEv_segno, heB, encEv_jump, Except.map, hbytes]
  · intro hlen fuel hf
    have hpJ : eB.out ++ [mds_JUMP, jumpOff eB / 256, jumpOff eB % 256] <+: bytes := by
      rw [hbytes]; exact List.prefix_refl _
    have hpB : eB.out <+: bytes := (List.prefix_append _ _).trans hpJ
    have hpS : (afterSegno eA).out <+: bytes := pB.trans hpB
    obtain ⟨w1, l1, g1⟩ := wencAll_lin (seq := bytes) nS nM a ha {} eA heA { pc := 0 }
      ((disambP_prefix eA).trans hpS) wgood_init
    obtain ⟨w2, l2, hpc2, _⟩ := wdisamb g1 hpS
    have g2 : WGood (afterSegno eA) w2 :=
      .inl ⟨by simp [afterSegno, needLenB, noteish, mds_SEGNO, mds_TIE], hpc2⟩
    obtain ⟨w3, l3, g3⟩ := wencAll_lin (seq := bytes) nS nM b hb _ eB heB w2 hpB g2
    obtain ⟨w4, l4, hpc4⟩ := wresolve g3 (b := mds_JUMP) (by decide) hpJ
    have hd2 : w2.depth = 0 := (l1.trans l2).frame.depth
    have f24 := (l3.trans l4).frame
    have hd4 : w4.depth = 0 := f24.depth.trans hd2
    obtain ⟨k, hk, ek⟩ := ((l1.trans l2).trans (l3.trans l4)).fuel (start := 0)
    have hlenB : eB.out.length + 3 < 65536 := by rw [hbytes] at hlen; simp at hlen; omega
    have hlenS : (afterSegno eA).out.length ≤ eB.out.length := pB.length_le
    have hsp : eB.segnoPos = (afterSegno eA).out.length := by
      rw [spB]; show (disambP eA).out.length % 65536 = (disambP eA).out.length
      have : (disambP eA).out.length = (afterSegno eA).out.length := rfl
      omega
    have htgt0 : (eB.out.length + 3 + (jumpOff eB / 256 * 256 + jumpOff eB % 256)) % 65536 =
        (afterSegno eA).out.length := by
      clear hk ek hf l1 l2 l3 l4 g1 g2 g3 f24
      simp only [jumpOff, hsp]; omega
    have htgt : (w4.pc + 3 + (jumpOff eB / 256 * 256 + jumpOff eB % 256)) % 65536 = w2.pc := by
      rw [hpc4, hpc2]; exact htgt0
    have r0 : bytes[w4.pc]? = some mds_JUMP := by rw [hpc4]; exact rd_at hpJ
    have r1 : bytes[w4.pc + 1]? = some (jumpOff eB / 256) := by rw [hpc4]; exact rd_at1 hpJ
    have r2 : bytes[w4.pc + 1 + 1]? = some (jumpOff eB % 256) := by rw [hpc4]; exact rd_at2 hpJ
    have hbl : bytes.length = eB.out.length + 3 := by rw [hbytes]; simp
    simp only at hk
    obtain ⟨f, rfl⟩ : ∃ f, fuel = f + 1 + k := ⟨fuel - 1 - k, by omega⟩
    rw [ek, walk_jump f r0 r1 r2 (by omega) hd4 (Nat.zero_le _) ?_, hpc4, hbl]
    rw [htgt]
    rcases f24.here hd2 with h | h
    · exact .inl h.symm
    · exact .inr h

end Ctrmml.Codec
