/-
  Helper lemmas for Properties/C15 (towards `PsgEnvsOK`): the bounds of `psgParseValue` (what `psgToken` passes to `psgValue`).
  NOT yet here: `psgToken` keeps `PInv`, `foldlM`, `psgCompile → EnvOK`, `PsgInv` through `readTags`.
-/
import Ctrmml.Proofs.PipelineVgmPsg
namespace Ctrmml.Pipeline
open Ctrmml Ctrmml.MdsData Ctrmml.Pipeline.VgmTr

theorem clamp15_le (x : Nat) : clamp15 x ≤ 15 := by unfold clamp15; split <;> omega
theorem u8_le (x : Int) : u8 x ≤ 255 := by unfold u8; omega

theorem psgParseValue_bounds (s : List Char) (defLen : Nat) :
    (psgParseValue s defLen).1 ≤ 15 ∧ (psgParseValue s defLen).2.1 ≤ 15 ∧ (psgParseValue s defLen).2.2 ≤ 255 := by
  unfold psgParseValue
  simp only
  refine ⟨clamp15_le _, clamp15_le _, ?_⟩
  repeat' split
  all_goals exact u8_le _

end Ctrmml.Pipeline
