/-
  Helper lemmas for Properties/C15 (no property statements here): the MML reader never puts an
  explicit `END` event into a track, so every parsed song is in the domain of C04's theorems.

  Two layers:
    * `Track`: every builder operation the reader uses keeps "no event of type `END`"
      (`TOk`): events are only added with the fixed types NOTE/TIE/REST/SLUR/VOL_REL/DRUM_MODE or
      the type the reader passes, and the rewrites of earlier events (`add_tie`, `add_slur`,
      `reverse_rest`) change durations only;
    * the parser monad: a frame calculus `Pres m` ("run from a state whose tracks are all `TOk`,
      `m` ends — normally or with an error — in such a state"), in the style of `Keeps` of
      Proofs/Layout; the value read by `track` is known to be `TOk` in the continuation, which
      is what the three `modifyTrack fun _ => t` sites (`&`, `R`, `_{…}`) need.
-/
import Ctrmml.Proofs.Layout
import Ctrmml.Proofs.TrackBuilder
import Ctrmml.Model.MmlFix
namespace Ctrmml.TrackBuilder
open Ctrmml.Tables Ctrmml.Lexer

namespace Track

/-- no event of type `END` -/
def TOk (t : Track) : Prop := ∀ e ∈ t.revEvents, e.type ≠ ev_END

theorem tok_new (p : Nat) : TOk (Track.new p) := by
  intro e he; simp [Track.new] at he

theorem tok_of_revEvents {t u : Track} (h : u.revEvents = t.revEvents) (ht : TOk t) : TOk u := by
  intro e he; rw [h] at he; exact ht e he

theorem tok_addEvent (t : Track) (ty : Nat) (p : Int) (a b : UInt16) (hty : ty ≠ ev_END) (ht : TOk t) :
    TOk (t.addEvent ty p a b) := by
  intro e he
  simp only [addEvent, List.mem_cons] at he
  rcases he with rfl | he
  · exact hty
  · exact ht e he

theorem tok_modifyAt (t : Track) (p : Nat) (f : BEvent → BEvent) (hf : ∀ e, (f e).type = e.type) (ht : TOk t) :
    TOk (t.modifyAt p f) := by
  unfold TOk modifyAt
  simp only []
  apply forall_modify _ _ _ (fun e => e.type ≠ ev_END) ht
  intro x hx
  rw [hf]
  exact ht x (List.mem_of_getElem? hx)

theorem tok_flipShuffle (t : Track) (ht : TOk t) : TOk t.flipShuffle := tok_of_revEvents rfl ht
theorem tok_pushEchoNote (t : Track) (n : UInt16) (ht : TOk t) : TOk (t.pushEchoNote n) := tok_of_revEvents rfl ht

theorem tok_addNote (t : Track) (n : Int) (d : UInt16) (ht : TOk t) : TOk (t.addNote n d) := by
  unfold addNote
  simp only []
  apply tok_addEvent _ _ _ _ _ (by decide)
  exact tok_of_revEvents rfl ht

theorem tok_addRest (t : Track) (d : UInt16) (ht : TOk t) : TOk (t.addRest d) := by
  unfold addRest
  simp only []
  apply tok_addEvent _ _ _ _ _ (by decide)
  exact tok_of_revEvents rfl ht

theorem tok_addTie (t : Track) (d : UInt16) (ht : TOk t) : TOk (t.addTie d) := by
  unfold addTie
  simp only []
  have hf : TOk t.flipShuffle := tok_flipShuffle t ht
  split
  · exact tok_addEvent _ _ _ _ _ (by decide) hf
  · split
    · exact hf
    · split
      · exact hf
      · split
        · exact tok_modifyAt _ _ _ (fun _ => rfl) hf
        · split
          · apply tok_addEvent _ _ _ _ _ (by decide)
            exact tok_of_revEvents (t := t.flipShuffle.modifyAt _ _) rfl (tok_modifyAt _ _ _ (fun _ => rfl) hf)
          · apply tok_addEvent _ _ _ _ _ (by decide)
            exact tok_of_revEvents (t := t.flipShuffle.modifyAt _ _) rfl (tok_modifyAt _ _ _ (fun _ => rfl) hf)

theorem slurBack_types : ∀ (l l' : List BEvent), slurBack l = some l' → (∀ e ∈ l, e.type ≠ ev_END) → ∀ e ∈ l', e.type ≠ ev_END
  | [], l', h, _ => by simp [slurBack] at h
  | x :: xs, l', h, hl => by
    unfold slurBack at h
    split at h
    · injection h with h
      subst h
      intro e he
      simp only [List.mem_cons] at he
      rcases he with rfl | he
      · exact hl x (by simp)
      · exact hl e (by simp [he])
    · split at h
      · cases h
      · cases hs : slurBack xs with
        | none => rw [hs] at h; simp at h
        | some l2 =>
          rw [hs] at h
          simp only [Option.map_some] at h
          injection h with h
          subst h
          have ih := slurBack_types xs l2 hs (fun e he => hl e (by simp [he]))
          intro e he
          simp only [List.mem_cons] at he
          rcases he with rfl | he
          · exact hl _ (by simp)
          · exact ih e he

theorem tok_addSlur (t : Track) (ht : TOk t) : TOk t.addSlur.1 := by
  unfold addSlur
  simp only []
  have h1 : TOk (t.addEvent ev_SLUR) := tok_addEvent _ _ _ _ _ (by decide) ht
  split
  · rename_i l hl
    exact slurBack_types _ l hl h1
  · exact h1

theorem tok_addEcho (t : Track) (d : UInt16) (ht : TOk t) : TOk (t.addEcho d) := by
  unfold addEcho
  simp only []
  have h0 : TOk t.flipShuffle := tok_flipShuffle t ht
  have h1 : TOk (if t.flipShuffle.echoVolume != 0 then t.flipShuffle.addEvent ev_VOL_REL (-t.flipShuffle.echoVolume) 0 0 else t.flipShuffle) := by
    split
    · exact tok_addEvent _ _ _ _ _ (by decide) h0
    · exact h0
  generalize (if t.flipShuffle.echoVolume != 0 then t.flipShuffle.addEvent ev_VOL_REL (-t.flipShuffle.echoVolume) 0 0 else t.flipShuffle) = t1 at h1 ⊢
  have h2 : TOk (if t1.echoDelay == 0 || t1.echoBuffer.length < t1.echoDelay.toNat then t1.addEvent ev_REST 0 0 (t.addShuffle (t.getDuration d))
      else
        let note := t1.echoBuffer[t1.echoDelay.toNat - 1]?.getD 0
        if note == 0 then t1.addEvent ev_REST 0 0 (t.addShuffle (t.getDuration d))
        else
          let t2 := { t1 with lastNotePos := some t1.revEvents.length }
          t2.addEvent ev_NOTE note.toNat (t2.onTime (t.addShuffle (t.getDuration d))) (t2.offTime (t.addShuffle (t.getDuration d)))) := by
    split
    · exact tok_addEvent _ _ _ _ _ (by decide) h1
    · simp only []
      split
      · exact tok_addEvent _ _ _ _ _ (by decide) h1
      · apply tok_addEvent _ _ _ _ _ (by decide)
        exact tok_of_revEvents rfl h1
  generalize (if t1.echoDelay == 0 || t1.echoBuffer.length < t1.echoDelay.toNat then t1.addEvent ev_REST 0 0 (t.addShuffle (t.getDuration d))
      else
        let note := t1.echoBuffer[t1.echoDelay.toNat - 1]?.getD 0
        if note == 0 then t1.addEvent ev_REST 0 0 (t.addShuffle (t.getDuration d))
        else
          let t2 := { t1 with lastNotePos := some t1.revEvents.length }
          t2.addEvent ev_NOTE note.toNat (t2.onTime (t.addShuffle (t.getDuration d))) (t2.offTime (t.addShuffle (t.getDuration d)))) = t3 at h2 ⊢
  split
  · exact tok_addEvent _ _ _ _ _ (by decide) h2
  · exact h2

theorem rrBack_types (d : UInt16) : ∀ (l : List BEvent), (∀ e ∈ l, e.type ≠ ev_END) → ∀ e ∈ (rrBack d l).2, e.type ≠ ev_END
  | [], _ => by simp [rrBack]
  | x :: xs, hl => by
    have ih := rrBack_types d xs (fun e he => hl e (by simp [he]))
    unfold rrBack
    split
    · split
      · split
        · intro e he
          simp only [List.mem_cons] at he
          rcases he with rfl | he
          · exact hl x (by simp)
          · exact hl e (by simp [he])
        · exact hl
      · intro e he
        simp only [List.mem_cons] at he
        rcases he with rfl | he
        · exact hl x (by simp)
        · exact hl e (by simp [he])
    · split
      · exact hl
      · intro e he
        simp only [List.mem_cons] at he
        rcases he with rfl | he
        · exact hl _ (by simp)
        · exact ih e he

theorem tok_reverseRest (t : Track) (d : UInt16) (ht : TOk t) : TOk (t.reverseRest d).1 := by
  unfold reverseRest
  simp only []
  exact rrBack_types d _ (tok_flipShuffle t ht)

theorem tok_setDrumMode (t : Track) (p : UInt16) (ht : TOk t) : TOk (t.setDrumMode p) := by
  unfold setDrumMode
  apply tok_addEvent _ _ _ _ _ (by decide)
  exact tok_of_revEvents rfl ht

/-- the result of a key-signature function has the events of `t` -/
def SameEvents (t : Track) : KeyRes Track → Prop
  | .ok t' => t'.revEvents = t.revEvents
  | .invalidArgument t' => t'.revEvents = t.revEvents
  | .ubShift => True

theorem SameEvents.trans {t u : Track} (h : u.revEvents = t.revEvents) {r : KeyRes Track} (hr : SameEvents u r) : SameEvents t r := by
  cases r with
  | ok t' => exact Eq.trans hr h
  | invalidArgument t' => exact Eq.trans hr h
  | ubShift => trivial

theorem modifyKeySignature_same (t : Track) (c m : Int) : SameEvents t (t.modifyKeySignature c m) := by
  unfold modifyKeySignature
  simp only []
  repeat' split
  all_goals (simp [SameEvents])

theorem keySigLoop_same : ∀ (l : List Nat) (t : Track) (m : Int), SameEvents t (t.keySigLoop m l)
  | [], t, m => by simp [keySigLoop, SameEvents]
  | k :: ks, t, m => by
    unfold keySigLoop
    simp only []
    split
    · exact keySigLoop_same ks t 1
    · split
      · exact keySigLoop_same ks t (-1)
      · split
        · exact keySigLoop_same ks t 0
        · split
          · have hm := modifyKeySignature_same t (schar k) m
            split
            · rename_i t1 h1
              rw [h1] at hm
              exact SameEvents.trans hm (keySigLoop_same ks t1 m)
            · rename_i r hr
              exact hm
          · simp [SameEvents]

theorem setKeySignature_same (t : Track) (key : List Nat) : SameEvents t (t.setKeySignature key) := by
  unfold setKeySignature
  simp only []
  repeat' split
  all_goals first
    | exact keySigLoop_same _ t 0
    | simp [SameEvents]

theorem modifyKeySignature_revEvents (t : Track) (c m : Int) (t' : Track)
    (h : t.modifyKeySignature c m = .ok t' ∨ t.modifyKeySignature c m = .invalidArgument t') : t'.revEvents = t.revEvents := by
  have hs := modifyKeySignature_same t c m
  rcases h with h | h <;> (rw [h] at hs; exact hs)

theorem setKeySignature_revEvents (t : Track) (key : List Nat) (t' : Track)
    (h : t.setKeySignature key = .ok t' ∨ t.setKeySignature key = .invalidArgument t') : t'.revEvents = t.revEvents := by
  have hs := setKeySignature_same t key
  rcases h with h | h <;> (rw [h] at hs; exact hs)

/-- the operations the reader applies through `trackOp`, with a type other than `END` for `addEvent` -/
def OpOk : Op → Prop
  | .addEvent ty _ _ _ => ty ≠ ev_END
  | _ => True

theorem tok_applyOp (t : Track) (op : Op) (hop : OpOk op) (ht : TOk t) (t' : Track) (r : String)
    (h : t.applyOp op = .ok (t', r)) : TOk t' := by
  unfold applyOp at h
  split at h
  · cases h
  · cases op with
    | addEvent ty p a b => simp only [] at h; injection h with h; injection h with h1 h2; subst h1; exact tok_addEvent _ _ _ _ _ hop ht
    | addNote n d => simp only [] at h; injection h with h; injection h with h1 h2; subst h1; exact tok_addNote _ _ _ ht
    | addTie d => simp only [] at h; injection h with h; injection h with h1 h2; subst h1; exact tok_addTie _ _ ht
    | addRest d => simp only [] at h; injection h with h; injection h with h1 h2; subst h1; exact tok_addRest _ _ ht
    | addSlur => simp only [] at h; injection h with h; injection h with h1 h2; subst h1; exact tok_addSlur _ ht
    | addEcho d => simp only [] at h; injection h with h; injection h with h1 h2; subst h1; exact tok_addEcho _ _ ht
    | reverseRest d =>
      simp only [] at h
      have hr := tok_reverseRest t d ht
      split at h <;> (rename_i heq; injection h with h; injection h with h1 h2; subst h1; rw [heq] at hr; exact hr)
    | setReference r => simp only [] at h; injection h with h; injection h with h1 h2; subst h1; exact tok_of_revEvents rfl ht
    | setOctave p => simp only [] at h; injection h with h; injection h with h1 h2; subst h1; exact tok_of_revEvents rfl ht
    | changeOctave p => simp only [] at h; injection h with h; injection h with h1 h2; subst h1; exact tok_of_revEvents rfl ht
    | setDuration d => simp only [] at h; injection h with h; injection h with h1 h2; subst h1; exact tok_of_revEvents rfl ht
    | setQuantize p parts =>
      simp only [] at h; injection h with h; injection h with h1 h2; subst h1
      unfold setQuantize
      split <;> exact tok_of_revEvents rfl ht
    | setEarlyRelease p => simp only [] at h; injection h with h; injection h with h1 h2; subst h1; exact tok_of_revEvents rfl ht
    | setDrumMode p => simp only [] at h; injection h with h; injection h with h1 h2; subst h1; exact tok_setDrumMode _ _ ht
    | setEcho d v => simp only [] at h; injection h with h; injection h with h1 h2; subst h1; exact tok_of_revEvents rfl ht
    | clearEchoBuffer => simp only [] at h; injection h with h; injection h with h1 h2; subst h1; exact tok_of_revEvents rfl ht
    | setMeasureLen p => simp only [] at h; injection h with h; injection h with h1 h2; subst h1; exact tok_of_revEvents rfl ht
    | setShuffle p => simp only [] at h; injection h with h; injection h with h1 h2; subst h1; exact tok_of_revEvents rfl ht
    | setKeySignature key =>
      simp only [] at h
      split at h
      · rename_i t1 h1; injection h with h; injection h with h2 h3; subst h2
        exact tok_of_revEvents (setKeySignature_revEvents t key _ (Or.inl h1)) ht
      · rename_i t1 h1; injection h with h; injection h with h2 h3; subst h2
        exact tok_of_revEvents (setKeySignature_revEvents t key _ (Or.inr h1)) ht
      · cases h
    | modifyKeySignature n m =>
      simp only [] at h
      split at h
      · rename_i t1 h1; injection h with h; injection h with h2 h3; subst h2
        exact tok_of_revEvents (modifyKeySignature_revEvents t n m _ (Or.inl h1)) ht
      · rename_i t1 h1; injection h with h; injection h with h2 h3; subst h2
        exact tok_of_revEvents (modifyKeySignature_revEvents t n m _ (Or.inr h1)) ht
      · cases h
    | getKeySignature n =>
      simp only [] at h
      split at h
      · injection h with h; injection h with h2 h3; subst h2; exact ht
      · injection h with h; injection h with h2 h3; subst h2; exact ht
      · cases h

end Track
end Ctrmml.TrackBuilder

namespace Ctrmml.Mml
open Ctrmml.Tables Ctrmml.Lexer Ctrmml.TrackBuilder Ctrmml.TrackBuilder.Track

/-- every track of the song is free of `END` events -/
def SOk (s : MmlState) : Prop := ∀ p ∈ s.song.tracks, TOk p.2

theorem tok_getTrack (s : MmlState) (hs : SOk s) : TOk (getTrack s) := by
  unfold getTrack
  cases hl : s.song.tracks.lookup s.trackId with
  | none => exact tok_new _
  | some t =>
    have hm : (s.trackId, t) ∈ s.song.tracks := by
      clear hs
      generalize s.song.tracks = l at hl
      induction l with
      | nil => simp [List.lookup] at hl
      | cons kv rest ih =>
        obtain ⟨k, v⟩ := kv
        simp only [List.lookup] at hl
        split at hl
        · rename_i heq
          injection hl with hl
          subst hl
          have : s.trackId = k := by simpa using heq
          subst this
          simp
        · exact List.mem_cons_of_mem _ (ih hl)
    exact hs _ hm

theorem mem_insertTrack (id : Nat) (t : Track) : ∀ (l : List (Nat × Track)) (p : Nat × Track),
    p ∈ insertTrack id t l → p = (id, t) ∨ p ∈ l ∨ (∃ k, p = (k, t))
  | [], p, h => by simp [insertTrack] at h; exact Or.inl h
  | (k, v) :: rest, p, h => by
    unfold insertTrack at h
    split at h
    · simp only [List.mem_cons] at h
      rcases h with h | h | h
      · exact Or.inl h
      · exact Or.inr (Or.inl (by simp [h]))
      · exact Or.inr (Or.inl (by simp [h]))
    · split at h
      · simp only [List.mem_cons] at h
        rcases h with h | h
        · exact Or.inr (Or.inr ⟨k, h⟩)
        · exact Or.inr (Or.inl (by simp [h]))
      · simp only [List.mem_cons] at h
        rcases h with h | h
        · exact Or.inr (Or.inl (by simp [h]))
        · rcases mem_insertTrack id t rest p h with h1 | h1 | h1
          · exact Or.inl h1
          · exact Or.inr (Or.inl (by simp [h1]))
          · exact Or.inr (Or.inr h1)

theorem sok_setTrack (s : MmlState) (t : Track) (hs : SOk s) (ht : TOk t) : SOk (setTrack s t) := by
  intro p hp
  rcases mem_insertTrack _ _ _ _ hp with h | h | ⟨k, h⟩
  · rw [h]; exact ht
  · exact hs p h
  · rw [h]; exact ht

theorem sok_makeTrack (s : MmlState) (id : Nat) (hs : SOk s) : ∀ p ∈ (s.song.makeTrack id).tracks, TOk p.2 := by
  unfold SongB.makeTrack
  split
  · exact hs
  · intro p hp
    rcases mem_insertTrack _ _ _ _ hp with h | h | ⟨k, h⟩
    · rw [h]; exact tok_new _
    · exact hs p h
    · rw [h]; exact tok_new _

/-- run from a state whose tracks hold no `END` event, `m` ends (normally or with an error) in
such a state -/
structure Pres {α} (m : P α) : Prop where
  pres : ∀ s, SOk s → SOk (m s).state

theorem pres_of_lex {α} {m : P α} (h : Lex m) : Pres m :=
  ⟨fun s hs => by intro p hp; rw [h.same s] at hp; exact hs p hp⟩

theorem pres_pure {α} (x : α) : Pres (pure x : P α) := ⟨fun _ hs => hs⟩
theorem pres_fail {α} (e : Err) : Pres (fail e : P α) := ⟨fun _ hs => hs⟩
theorem pres_parseError {α} (msg : String) : Pres (parseError msg : P α) := ⟨fun _ hs => hs⟩
theorem pres_getS : Pres getS := ⟨fun _ hs => hs⟩
theorem pres_tellC : Pres tellC := ⟨fun _ hs => hs⟩
theorem pres_track : Pres track := ⟨fun _ hs => hs⟩
theorem pres_getC : Pres getC := ⟨fun _ hs => hs⟩
theorem pres_getTokenC : Pres getTokenC := ⟨fun _ hs => hs⟩
theorem pres_seekC (p : Nat) : Pres (seekC p) := ⟨fun _ hs => hs⟩
theorem pres_parseWarning (msg : String) : Pres (parseWarning msg) := ⟨fun _ hs => hs⟩
theorem pres_scanC (stop : Int → Bool) : Pres (scanC stop) := ⟨fun _ hs => hs⟩
theorem pres_ungetC (c : Int) : Pres (ungetC c) := pres_of_lex (lex_ungetC c)
theorem pres_getNumC : Pres getNumC := pres_of_lex lex_getNumC

theorem pres_bind {α β} {m : P α} {f : α → P β} (hm : Pres m) (hf : ∀ x, Pres (f x)) : Pres (m >>= f) := by
  constructor
  intro s hs
  have h1 := hm.pres s hs
  show SOk (P.bind m f s).state
  unfold P.bind
  cases hms : m s with
  | ok x s1 =>
    rw [hms] at h1
    exact (hf x).pres s1 h1
  | err e s1 =>
    rw [hms] at h1
    exact h1

/-- the track read by `track` holds no `END` event -/
theorem pres_track_bind {β} {f : Track → P β} (hf : ∀ t, TOk t → Pres (f t)) : Pres (track >>= f) := by
  constructor
  intro s hs
  show SOk (P.bind track f s).state
  unfold P.bind track
  simp only []
  exact (hf _ (tok_getTrack s hs)).pres s hs

theorem pres_ite {α} (c : Prop) [Decidable c] (m1 m2 : P α) (h1 : Pres m1) (h2 : Pres m2) : Pres (if c then m1 else m2) := by
  split <;> assumption

theorem pres_trackOp (op : Track.Op) (hop : OpOk op) : Pres (trackOp op) := by
  constructor
  intro s hs
  unfold trackOp
  cases h : (getTrack s).applyOp op with
  | ok p =>
    obtain ⟨t', r⟩ := p
    exact sok_setTrack s t' hs (tok_applyOp _ op hop (tok_getTrack s hs) t' r h)
  | error e => exact hs

theorem pres_modifyTrack_const (t : Track) (ht : TOk t) : Pres (modifyTrack fun _ => t) :=
  ⟨fun s hs => sok_setTrack s t hs ht⟩

theorem pres_modifyS (f : MmlState → MmlState) (h : ∀ s, (f s).song.tracks = s.song.tracks) : Pres (modifyS f) :=
  pres_of_lex (lex_modifyS f h)

end Ctrmml.Mml

namespace Ctrmml.Mml
open Ctrmml.Tables Ctrmml.Lexer Ctrmml.TrackBuilder Ctrmml.TrackBuilder.Track

macro "opok" : tactic => `(tactic| first | exact trivial | (show _ ≠ _; decide) | assumption)

macro "pres_step" : tactic => `(tactic| first
  | exact pres_pure _ | exact pres_fail _ | exact pres_parseError _ | exact pres_getS | exact pres_tellC
  | exact pres_track | exact pres_getC | exact pres_getTokenC | exact pres_seekC _ | exact pres_parseWarning _
  | exact pres_ungetC _ | exact pres_getNumC | exact pres_scanC _
  | exact pres_trackOp _ (by opok)
  | (apply pres_modifyS; intro _; rfl)
  | assumption
  | apply pres_bind
  | apply pres_ite
  | intro _
  | split
  | dsimp only)

macro "pres" : tactic => `(tactic| repeat' pres_step)

theorem pres_dotsLoop : ∀ (k : Nat) (d dot : Int), Pres (dotsLoop k d dot)
  | 0, d, dot => by unfold dotsLoop; pres
  | k + 1, d, dot => by
    unfold dotsLoop
    have ih := pres_dotsLoop k
    pres
    exact ih _ _

theorem pres_readDuration : Pres readDuration := by
  have hd := pres_dotsLoop
  unfold readDuration
  pres
  all_goals exact hd _ _ _

theorem pres_readParameter (d : Int) : Pres (readParameter d) := by unfold readParameter; pres
theorem pres_expectParameter : Pres expectParameter := by unfold expectParameter; pres
theorem pres_expectSigned : Pres expectSigned := pres_expectParameter
theorem pres_keySigOf (c : Int) : Pres (keySigOf c) := by unfold keySigOf; pres

theorem pres_readNote (c : Int) : Pres (readNote c) := by
  have h1 := pres_keySigOf
  unfold readNote
  pres
  all_goals exact h1 _

macro "pres_step2" : tactic => `(tactic| first
  | exact pres_readDuration | exact pres_readParameter _ | exact pres_expectParameter | exact pres_expectSigned
  | exact pres_readNote _ | pres_step)
macro "pres2" : tactic => `(tactic| repeat' pres_step2)

theorem pres_platformExclusive : Pres platformExclusive := by
  constructor
  intro s hs
  simp only [platformExclusive, bind, P.bind, scanC, getS, modifyS, parseError, pure, P.pure]
  split
  · exact hs
  · simp only [P.bind, getS, modifyS]
    exact (pres_trackOp _ (by opok)).pres _ hs

theorem pres_mmlSlur : Pres mmlSlur := by
  unfold mmlSlur
  apply pres_track_bind
  intro t ht
  have h1 := tok_addSlur t ht
  rcases hsl : t.addSlur with ⟨t', r⟩
  rw [hsl] at h1
  simp only []
  apply pres_bind (pres_modifyTrack_const t' h1)
  intro _
  pres

theorem pres_mmlReverseRest (d : Nat) : Pres (mmlReverseRest d) := by
  unfold mmlReverseRest
  apply pres_track_bind
  intro t ht
  have h1 := tok_reverseRest t (UInt16.ofNat d) ht
  rcases hsl : t.reverseRest (UInt16.ofNat d) with ⟨t', r⟩
  rw [hsl] at h1
  simp only []
  apply pres_bind (pres_modifyTrack_const t' h1)
  intro _
  pres

macro "pres_step3" : tactic => `(tactic| first
  | exact pres_platformExclusive | exact pres_mmlSlur | exact pres_mmlReverseRest _ | pres_step2)
macro "pres3" : tactic => `(tactic| repeat' pres_step3)

theorem pres_mmlGrace : Pres mmlGrace := by unfold mmlGrace; pres3

theorem pres_mmlTranspose : Pres mmlTranspose := by
  unfold mmlTranspose
  apply pres_bind pres_getTokenC
  intro c
  apply pres_ite
  · pres3
  · apply pres_ite
    · apply pres_bind (pres_scanC _)
      intro p
      obtain ⟨raw, e⟩ := p
      simp only []
      apply pres_ite
      · apply pres_bind (pres_parseError _)
        intro _
        apply pres_track_bind
        intro t ht
        have hs := Track.setKeySignature_same t (raw.filter fun b => !isSpace (schar b))
        cases hk : t.setKeySignature (raw.filter fun b => !isSpace (schar b)) with
        | ok t' =>
          rw [hk] at hs
          simp only []
          exact pres_modifyTrack_const t' (tok_of_revEvents hs ht)
        | invalidArgument t' =>
          rw [hk] at hs
          simp only []
          apply pres_bind (pres_modifyTrack_const t' (tok_of_revEvents hs ht))
          intro _
          exact pres_parseError _
        | ubShift => simp only []; exact pres_fail _
      · apply pres_track_bind
        intro t ht
        have hs := Track.setKeySignature_same t (raw.filter fun b => !isSpace (schar b))
        cases hk : t.setKeySignature (raw.filter fun b => !isSpace (schar b)) with
        | ok t' =>
          rw [hk] at hs
          simp only []
          exact pres_modifyTrack_const t' (tok_of_revEvents hs ht)
        | invalidArgument t' =>
          rw [hk] at hs
          simp only []
          apply pres_bind (pres_modifyTrack_const t' (tok_of_revEvents hs ht))
          intro _
          exact pres_parseError _
        | ubShift => simp only []; exact pres_fail _
    · pres3

theorem pres_mmlEcho : Pres mmlEcho := by unfold mmlEcho; pres3

theorem pres_eventRelative (ty : Nat) (sub : Option Nat) (h1 : ty ≠ ev_END) (h2 : ∀ x, sub = some x → x ≠ ev_END) :
    Pres (eventRelative ty sub) := by
  unfold eventRelative
  apply pres_bind pres_getTokenC
  intro c
  simp only []
  have hty : ∀ ty', (if (c == 43 || c == 45) = true then sub else some ty) = some ty' → ty' ≠ ev_END := by
    intro ty' h
    split at h
    · exact h2 ty' h
    · injection h with h; subst h; exact h1
  apply pres_ite
  · apply pres_bind (pres_ungetC _)
    intro _
    split
    · exact pres_parseError _
    · rename_i ty' heq
      apply pres_bind pres_expectParameter
      intro v
      exact pres_trackOp _ (hty ty' heq)
  · split
    · exact pres_parseError _
    · rename_i ty' heq
      apply pres_bind pres_expectParameter
      intro v
      exact pres_trackOp _ (hty ty' heq)

macro "pres_step4" : tactic => `(tactic| first
  | exact pres_mmlGrace | exact pres_mmlTranspose | exact pres_mmlEcho
  | exact pres_eventRelative _ _ (by decide) (by intro x hx; injection hx with hx; subst hx; decide)
  | pres_step3)
macro "pres4" : tactic => `(tactic| repeat' pres_step4)

theorem pres_mmlBasic : Pres mmlBasic := by unfold mmlBasic; pres4
theorem pres_mmlControl : Pres mmlControl := by unfold mmlControl; pres4
theorem pres_mmlEnvelope : Pres mmlEnvelope := by unfold mmlEnvelope; pres4
theorem pres_scanTokenC (stop : Int → Bool) : Pres (scanTokenC stop) := by unfold scanTokenC; pres4

theorem pres_cbGo : ∀ k, Pres (conditionalBlockBegin.go k)
  | 0 => by unfold conditionalBlockBegin.go; pres
  | k + 1 => by
    unfold conditionalBlockBegin.go
    have ih := pres_cbGo k
    have hs := pres_scanTokenC
    pres
    all_goals first | exact hs _ | exact ih

theorem pres_conditionalBlockBegin : Pres conditionalBlockBegin := by
  have h := pres_cbGo
  unfold conditionalBlockBegin
  pres
  exact h _

theorem pres_conditionalBlockEnd (c : Int) : Pres (conditionalBlockEnd c) := by
  have hs := pres_scanTokenC
  unfold conditionalBlockEnd
  pres
  all_goals exact hs _

end Ctrmml.Mml

namespace Ctrmml.MmlFix
open Ctrmml.Tables Ctrmml.Lexer Ctrmml.TrackBuilder Ctrmml.TrackBuilder.Track Ctrmml.Mml

macro "pres_step5" : tactic => `(tactic| first
  | exact pres_mmlBasic | exact pres_mmlControl | exact pres_mmlEnvelope | exact pres_scanTokenC _
  | exact pres_conditionalBlockBegin | exact pres_conditionalBlockEnd _
  | exact pres_of_lex lex_getTrackId | exact pres_of_lex (lex_trackListLoop _ _ _) | exact pres_of_lex lex_parseTag
  | pres_step4)
macro "pres5" : tactic => `(tactic| repeat' pres_step5)

theorem pres_parseMmlTrackF : ∀ fuel, Pres (parseMmlTrackF fuel)
  | 0 => by unfold parseMmlTrackF; pres
  | fuel + 1 => by
    unfold parseMmlTrackF
    have ih := pres_parseMmlTrackF fuel
    pres5

theorem pres_parseMmlTrack : Pres parseMmlTrack := by
  have h := pres_parseMmlTrackF
  unfold parseMmlTrack
  pres
  exact h _

theorem pres_makeTrackStep (id i : Nat) :
    Pres (modifyS fun s => { s with trackId := id, trackOffset := i % 65536, song := s.song.makeTrack id, conditionalBlock := false }) :=
  ⟨fun s hs => sok_makeTrack s id hs⟩

theorem pres_parseMmlLoop (c0 : Nat) : ∀ (l : List Nat) (i : Nat), Pres (parseMmlLoop c0 i l)
  | [], i => by unfold parseMmlLoop; pres
  | id :: rest, i => by
    unfold parseMmlLoop
    have ih := pres_parseMmlLoop c0 rest (i + 1)
    have ht := pres_parseMmlTrack
    have hm := pres_makeTrackStep id i
    apply pres_bind (pres_seekC _)
    intro _
    apply pres_bind hm
    intro _
    apply pres_bind ht
    intro _
    pres

theorem pres_parseMml : Pres parseMml := by
  have h := pres_parseMmlLoop
  unfold parseMml
  pres
  exact h _ _ _

theorem pres_runLastCmd : Pres runLastCmd := by
  have h1 := pres_parseMml
  unfold runLastCmd
  pres5

theorem pres_setLbStep (key : List Nat) (b : LineBuffer) (n : Nat) :
    Pres (modifyS fun s => { setLb s { b with column := b.column + n } with tagKey := key, lastCmd := LastCmd.parseTag }) :=
  pres_modifyS _ (fun _ => rfl)

theorem pres_parseLine : Pres parseLine := by
  have h1 := pres_runLastCmd
  unfold parseLine
  pres5
  all_goals first | exact pres_setLbStep _ _ _ | skip

theorem pres_readLine (text : List Nat) (n : Nat) : Pres (readLine text n) := by
  have h := pres_parseLine
  unfold readLine
  apply pres_bind
  · exact pres_modifyS _ (fun _ => rfl)
  · intro _; exact h

theorem pres_readLines : ∀ (ls : List (List Nat)) (n : Nat), Pres (readLines n ls)
  | [], n => by unfold readLines; pres
  | l :: ls, n => by
    unfold readLines
    exact pres_bind (pres_readLine l n) (fun _ => pres_readLines ls (n + 1))

end Ctrmml.MmlFix
