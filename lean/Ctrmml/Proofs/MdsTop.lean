/-
  C09 helper: the writer invariant at the level of the constructor (`parseTracks`, `construct`).
-/
import Ctrmml.Proofs.MdsInd
import Ctrmml.Proofs.MdsFile
namespace Ctrmml.MdsFile
open Ctrmml Ctrmml.Mds Ctrmml.Player Tables

theorem allEv_mem_congr {c : Conv} {L L' : List (List MEv)} (h : ∀ l, l ∈ L → l ∈ L') (ev : MEv) :
    AllEv c L ev → AllEv c L' ev := by
  rintro (h1 | h1 | ⟨l, hl, he⟩)
  · exact Or.inl h1
  · exact Or.inr (Or.inl h1)
  · exact Or.inr (Or.inr ⟨l, h l hl, he⟩)

/-- the invariant only looks at which lists are in play -/
theorem inv_lists_congr {song : Song} {d : DataInfo} {c : Conv} {L L' : List (List MEv)} {P : Pend}
    (h1 : ∀ l, l ∈ L → l ∈ L' ∨ l = []) (h2 : ∀ l, l ∈ L' → l ∈ L ∨ l = []) (h : Inv song d c L P) : Inv song d c L' P := by
  have up : ∀ ev, AllEv c L ev → AllEv c L' ev := by
    rintro ev (h | h | ⟨l, hl, he⟩)
    · exact Or.inl h
    · exact Or.inr (Or.inl h)
    · rcases h1 l hl with h' | h'
      · exact Or.inr (Or.inr ⟨l, h', he⟩)
      · subst h'; simp at he
  have dn : ∀ ev, AllEv c L' ev → AllEv c L ev := by
    rintro ev (h | h | ⟨l, hl, he⟩)
    · exact Or.inl h
    · exact Or.inr (Or.inl h)
    · rcases h2 l hl with h' | h'
      · exact Or.inr (Or.inr ⟨l, h', he⟩)
      · subst h'; simp at he
  exact { h with
    scopedEv := fun ev he => h.scopedEv ev (dn ev he)
    covSub := fun k hk hx => covSub_transfer up (fun p hp => hp) (h.covSub k hk hx)
    covMac := fun k hk hx => covMac_transfer up (fun p hp => hp) (h.covMac k hk hx)
    covData := fun i hi => covData_transfer up (h.covData i hi) }

theorem lookup_isSome_of_mem {β} : ∀ (l : List (Nat × β)) (k : Nat), k ∈ l.map (·.1) → (l.lookup k).isSome
  | [], _, h => by simp at h
  | (a, b) :: l, k, h => by
    simp only [List.lookup]
    split
    · rfl
    · rename_i hne
      simp only [List.map_cons, List.mem_cons] at h
      rcases h with h | h
      · subst h; simp at hne
      · exact lookup_isSome_of_mem l k h

/-- the `parse_track` loop keeps the invariant and lists one entry per id that has a track -/
theorem parseTracks_inv {song : Song} {d : DataInfo} (hpc : PlatformClean d) :
    ∀ (ids : List Nat) (c : Conv) (tl : List (Nat × List MEv)) (c' : Conv) (tl' : List (Nat × List MEv)),
      Inv song d c (tl.map (·.2)) {} → parseTracks song d ids c tl = .ok (c', tl') →
      Inv song d c' (tl'.map (·.2)) {} ∧ tl'.map (·.1) = tl.map (·.1) ++ ids.filter (fun id => (song.track? id).isSome)
  | [], c, tl, c', tl', hinv, h => by
    simp only [parseTracks, Except.ok.injEq, Prod.mk.injEq] at h
    obtain ⟨rfl, rfl⟩ := h
    exact ⟨hinv, by simp⟩
  | id :: ids, c, tl, c', tl', hinv, h => by
    simp only [parseTracks] at h
    cases htr : song.track? id with
    | none =>
      rw [htr] at h
      obtain ⟨h1, h2⟩ := parseTracks_inv hpc ids c tl c' tl' hinv h
      exact ⟨h1, by rw [h2]; simp [htr]⟩
    | some evs =>
      rw [htr] at h
      simp only at h
      cases hr : runWriter song d evs 64 20000000 c { drumEnabled := false, inDrum := false, trackId := (id : Int) } initState with
      | error x => rw [hr] at h; cases h
      | ok r =>
        rw [hr] at h
        obtain ⟨c1, w⟩ := r
        simp only at h
        have h0 : Inv song d c (([] : List MEv) :: tl.map (·.2)) {} :=
          inv_lists_congr (fun l hl => Or.inl (List.mem_cons_of_mem _ hl))
            (fun l hl => by rcases List.mem_cons.mp hl with h' | h'; exact Or.inr h'; exact Or.inl h') hinv
        obtain ⟨hi1, _⟩ := (writerInv hpc 64).run 20000000 evs c _ initState c1 w (tl.map (·.2)) {} h0 hr
        have hi2 : Inv song d c1 ((tl ++ [((id : Nat), w.out)]).map (·.2)) {} :=
          inv_lists_congr (fun l hl => Or.inl (by
              rcases List.mem_cons.mp hl with h' | h'
              · subst h'; simp
              · simp only [List.map_append, List.mem_append]; exact Or.inl h'))
            (fun l hl => Or.inl (by
              simp only [List.map_append, List.mem_append, List.map_cons, List.map_nil, List.mem_singleton] at hl
              rcases hl with h' | h'
              · exact List.mem_cons_of_mem _ h'
              · subst h'; exact List.mem_cons_self)) hi1
        obtain ⟨h1, h2⟩ := parseTracks_inv hpc ids c1 _ c' tl' hi2 h
        exact ⟨h1, by rw [h2]; simp [htr]⟩

theorem construct_inv {song : Song} {d : DataInfo} (hpc : PlatformClean d) {vol : Option String} {b : Built}
    (h : construct song d vol = .ok b) :
    Inv song d b.conv (b.trackList.map (·.2)) {} ∧ b.trackList.map (·.1) = channelIds song ∧
      assemble b.conv b.trackList vol = .ok b := by
  unfold construct at h
  cases hp : parseTracks song d (channelIds song) {} [] with
  | error x => rw [hp] at h; cases h
  | ok r =>
    rw [hp] at h
    obtain ⟨c, tl⟩ := r
    simp only at h
    obtain ⟨h1, h2⟩ := parseTracks_inv hpc _ _ _ _ _ (inv_empty song d) hp
    obtain ⟨_, _, _, _, _, _, _, hc, ht, _⟩ := assemble_ok h
    rw [hc, ht]
    refine ⟨h1, ?_, h⟩
    rw [h2]
    simp only [List.map_nil, List.nil_append]
    apply List.filter_eq_self.mpr
    intro id hid
    apply lookup_isSome_of_mem
    unfold channelIds at hid
    exact (List.mem_filter.mp hid).1


theorem exists_key_of_lt {α} {m : List (α × Nat)} (h : m.map (·.2) = List.range m.length) {k : Nat} (hk : k < m.length) :
    ∃ key, (key, k) ∈ m := by
  have h1 : (m.map (·.2))[k]? = some k := by rw [h]; simp [hk]
  rw [List.getElem?_map] at h1
  cases hm : m[k]? with
  | none => rw [hm] at h1; cases h1
  | some p =>
    rw [hm] at h1
    simp only [Option.map_some, Option.some.injEq] at h1
    refine ⟨p.1, ?_⟩
    have : p = (p.1, k) := by rw [← h1]
    rw [← this]
    exact List.mem_of_getElem? hm

theorem parseTracks_ids {song : Song} {d : DataInfo} :
    ∀ (ids : List Nat) (c : Conv) (tl : List (Nat × List MEv)) (c' : Conv) (tl' : List (Nat × List MEv)),
      parseTracks song d ids c tl = .ok (c', tl') →
      tl'.map (·.1) = tl.map (·.1) ++ ids.filter (fun id => (song.track? id).isSome)
  | [], c, tl, c', tl', h => by
    simp only [parseTracks, Except.ok.injEq, Prod.mk.injEq] at h
    obtain ⟨rfl, rfl⟩ := h
    simp
  | id :: ids, c, tl, c', tl', h => by
    simp only [parseTracks] at h
    cases htr : song.track? id with
    | none =>
      rw [htr] at h
      rw [parseTracks_ids ids c tl c' tl' h]; simp [htr]
    | some evs =>
      rw [htr] at h
      simp only at h
      split at h
      · cases h
      · rw [parseTracks_ids ids _ _ c' tl' h]; simp [htr]

theorem construct_ids {song : Song} {d : DataInfo} {vol : Option String} {b : Built}
    (h : construct song d vol = .ok b) : b.trackList.map (·.1) = channelIds song := by
  unfold construct at h
  cases hp : parseTracks song d (channelIds song) {} [] with
  | error x => rw [hp] at h; cases h
  | ok r =>
    rw [hp] at h
    obtain ⟨c, tl⟩ := r
    simp only at h
    obtain ⟨_, _, _, _, _, _, _, _, ht, _⟩ := assemble_ok h
    rw [ht, parseTracks_ids _ _ _ _ _ hp]
    simp only [List.map_nil, List.nil_append]
    apply List.filter_eq_self.mpr
    intro id hid
    apply lookup_isSome_of_mem
    unfold channelIds at hid
    exact (List.mem_filter.mp hid).1

theorem sorted_length_le : ∀ (l : List Nat) (lo m : Nat), l.Pairwise (· < ·) → (∀ x ∈ l, lo ≤ x ∧ x < m) → l.length + lo ≤ m ∨ l = []
  | [], _, _, _, _ => Or.inr rfl
  | a :: l, lo, m, hp, hb => by
    left
    have ha := hb a (by simp)
    rcases sorted_length_le l (a + 1) m (List.Pairwise.of_cons hp) (by
      intro x hx
      have h1 := List.rel_of_pairwise_cons hp hx
      have h2 := hb x (by simp [hx])
      omega) with h | h
    · simp only [List.length_cons]; omega
    · subst h; simp only [List.length_cons, List.length_nil]; omega

theorem entryTrees_mem (nS nM : Nat) (bank : List (List Nat)) :
    ∀ (l : List (Nat × Nat)) (ts : List Riff.Tree), entryTrees nS nM bank l = some ts →
      ∀ p ∈ l, ∃ dat, bank[p.1 % (mdsFile_bankMask + 1)]? = some dat ∧ entryTree nS nM p.1 p.2 dat ∈ ts
  | [], _, _, p, hp => by simp at hp
  | (m, e) :: rest, ts, h, p, hp => by
    simp only [entryTrees] at h
    cases hb : bank[m % (mdsFile_bankMask + 1)]? with
    | none => rw [hb] at h; cases h
    | some dat =>
      rw [hb] at h
      cases hr : entryTrees nS nM bank rest with
      | none => rw [hr] at h; cases h
      | some ts' =>
        rw [hr] at h
        simp only [Option.map_some, Option.some.injEq] at h
        subst h
        rcases List.mem_cons.mp hp with rfl | hp'
        · exact ⟨dat, hb, List.mem_cons_self⟩
        · obtain ⟨dat', h1, h2⟩ := entryTrees_mem nS nM bank rest ts' hr p hp'
          exact ⟨dat', h1, List.mem_cons_of_mem _ h2⟩


/-- the index-bearing event `ev`, pushed while the hook handles the song event `it.ev` with the
writer in state `w`, carries the index registered (in `c'`) under the key that `it.ev` names -/
def EventNames (d : DataInfo) (it : TraceItem) (w : WState) (c' : Conv) (ev : MEv) : Prop :=
  (ev.type = mds_PAT → it.ev.type = ev_JUMP ∧ ∃ k : Nat, ev.arg = u16 (k : Int) ∧
    (subKey it.ev.param false w.drumEnabled, k) ∈ c'.subMap) ∧
  (ev.type = mds_INS ∨ ev.type = mds_PCM → it.ev.type = ev_INS ∧ ∃ idx i : Nat,
    d.envelopeMap.lookup it.ev.param = some idx ∧ ev.arg = u16 (i : Int) ∧
    ((ev.type = mds_INS ∧ (idx, i) ∈ c'.usedData) ∨ (ev.type = mds_PCM ∧ (0x20000 + idx, i) ∈ c'.usedData))) ∧
  (ev.type = mds_PEG → ev.arg ≠ 0 → it.ev.type = ev_PITCH_ENVELOPE ∧ ∃ idx i : Nat,
    d.pitchMap.lookup it.ev.param = some idx ∧ ev.arg = u16 (wrap16 ((i : Int) + 1)) ∧
    ((if d.pitchExtend.contains it.ev.param then 0x10000 + idx else idx), i) ∈ c'.usedData) ∧
  (ev.type = mds_MTAB → ev.arg ≠ 0 → it.ev.type = ev_PAN_ENVELOPE ∧ ∃ k : Nat,
    ev.arg = u16 (wrap16 ((k : Int) + 1)) ∧ (it.ev.param, k) ∈ c'.macroMap)

theorem eventNames_of_plain {d : DataInfo} {it : TraceItem} {w : WState} {c' : Conv} {ev : MEv} (h : Plain ev) :
    EventNames d it w c' ev :=
  ⟨fun t => absurd t h.1, fun t => t.elim (fun x => absurd x h.2.1) (fun x => absurd x h.2.2.1),
   fun t ne => absurd (h.2.2.2.1 t) ne, fun t ne => absurd (h.2.2.2.2 t) ne⟩

theorem eventNames_append {d : DataInfo} {it : TraceItem} {w : WState} {c' : Conv} {pre : List MEv} {ev : MEv}
    (hpre : ∀ x ∈ pre, Plain x) (hev : EventNames d it w c' ev) : ∀ x ∈ pre ++ [ev], EventNames d it w c' x := by
  intro x hx
  rcases List.mem_append.mp hx with hx | hx
  · exact eventNames_of_plain (hpre x hx)
  · rw [List.mem_singleton] at hx; subst hx; exact hev

end Ctrmml.MdsFile
