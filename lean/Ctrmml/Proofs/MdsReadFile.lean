/-
  C09, reader tie (5): the exported `seq ` and file as the reader-side definitions of
  `Spec/MdsResolve` see them — where every stream lies (`layout`), `headerOf`, `streamPos` /
  `resolve` of stream slots and of data slots, `parseFile` of the serialised container.
-/
import Ctrmml.Proofs.MdsFile
import Ctrmml.Spec.MdsResolve
namespace Ctrmml.MdsRead
open Ctrmml Ctrmml.Mds Ctrmml.MdsFile Ctrmml.MdsResolve Tables

/-- the byte string `bytes` lies at position `pos` of `seq` -/
def At (seq : List Nat) (pos : Nat) (bytes : List Nat) : Prop :=
  ∃ pre post, seq = pre ++ (bytes ++ post) ∧ pre.length = pos

theorem at_of_split (pre post : List Nat) (bs : List (List Nat)) (i : Nat) (hi : i < bs.length) :
    At (pre ++ bs.flatten ++ post) (pre.length + ((bs.take i).flatten).length) bs[i] := by
  refine ⟨pre ++ (bs.take i).flatten, (bs.drop (i + 1)).flatten ++ post, ?_, by simp⟩
  rw [flatten_split bs i hi]; simp [List.append_assoc]

/-- **where everything lies in the exported `seq `** -/
theorem layout {c : Conv} {tl : List (Nat × List MEv)} {vol : Option String} {b : Built} (h : assemble c tl vol = .ok b) :
    hdrSize c tl.length < 65536 ∧ hdrSize c tl.length ≤ b.seq.length ∧
    Seq.rd16 b.seq 0 = some (4 + 4 * tl.length) ∧ Seq.rd b.seq 2 = some (volByte vol) ∧ Seq.rd b.seq 3 = some (tl.length % 256) ∧
    (∀ (i : Nat) (hi : i < tl.length), ∃ off stream,
      Seq.rd b.seq (4 + 4 * i) = some (tl[i].1 % 256) ∧ Seq.rd16 b.seq (4 + 4 * i + 2) = some off ∧
      convertTrackChk c.subList.length c.macroList.length tl[i].2 = .ok stream ∧
      At b.seq (4 + 4 * tl.length + off) stream ∧ b.trackStreams[i]? = some stream ∧
      4 + 4 * tl.length + off = hdrSize c tl.length + ((b.trackStreams.take i).flatten).length) ∧
    (∀ (k : Nat) (hk : k < c.subList.length), ∃ off stream,
      Seq.rd16 b.seq (4 + 4 * tl.length + 2 * k) = some off ∧
      convertTrackChk c.subList.length c.macroList.length c.subList[k] = .ok stream ∧
      At b.seq (4 + 4 * tl.length + off) stream ∧ hdrSize c tl.length ≤ 4 + 4 * tl.length + off ∧
      b.subStreams[k]? = some stream) ∧
    (∀ (k : Nat) (hk : k < c.macroList.length), ∃ off stream,
      Seq.rd16 b.seq (4 + 4 * tl.length + 2 * (c.subList.length + k)) = some off ∧
      convertMacroTrack c.macroList[k] = .ok stream ∧
      At b.seq (4 + 4 * tl.length + off) stream ∧ hdrSize c tl.length ≤ 4 + 4 * tl.length + off) ∧
    (∀ k : Nat, c.subList.length + c.macroList.length ≤ k → k < c.subList.length + c.macroList.length + c.usedData.length →
      Seq.rd16 b.seq (4 + 4 * tl.length + 2 * k) = some 0) := by
  obtain ⟨ts, ss, ms, hts, hss, hms, hsz, _, _, hbt, hbs, _, hseq⟩ := assemble_ok h
  have lts : ts.length = tl.length := by simpa using encodeStreams_length _ _ _ _ _ hts
  have lss : ss.length = c.subList.length := encodeStreams_length _ _ _ _ _ hss
  have lms : ms.length = c.macroList.length := encodeStreams_length _ _ _ _ _ hms
  have hb : 4 + 4 * tl.length < 65536 := by unfold hdrSize at hsz; omega
  have hle : 4 + 4 * tl.length ≤ hdrSize c tl.length := by unfold hdrSize; omega
  obtain ⟨tS, htS⟩ : ∃ x, x = startsFrom (hdrSize c tl.length) ts := ⟨_, rfl⟩
  obtain ⟨sS, hsS⟩ : ∃ x, x = startsFrom (hdrSize c tl.length + ts.flatten.length) ss := ⟨_, rfl⟩
  obtain ⟨mS, hmS⟩ : ∃ x, x = startsFrom (hdrSize c tl.length + ts.flatten.length + ss.flatten.length) ms := ⟨_, rfl⟩
  rw [← htS, ← hsS, ← hmS] at hseq
  have ltS : tS.length = (tl.map (·.1)).length := by rw [htS, startsFrom_length]; simpa using lts
  have lsS : sS.length = c.subList.length := by rw [hsS, startsFrom_length, lss]
  have lmS : mS.length = c.macroList.length := by rw [hmS, startsFrom_length, lms]
  obtain ⟨H, hHdef⟩ : ∃ x, x = headerOf (4 + 4 * tl.length) (volByte vol) (tl.map (·.1)) tS sS mS c.usedData.length := ⟨_, rfl⟩
  have hH : H.length = hdrSize c tl.length := by
    rw [hHdef, headerOf_length _ _ _ _ _ _ _ ltS, lsS, lmS]; simp [hdrSize]; omega
  have hseq' : b.seq = H ++ (ts.flatten ++ (ss.flatten ++ ms.flatten)) := by rw [hseq, hHdef]; simp [List.append_assoc]
  have hml : (tl.map (·.1)).length = tl.length := by simp
  have hfix := header_fixed (4 + 4 * tl.length) (volByte vol) (tl.map (·.1)) tS sS mS c.usedData.length
      (ts.flatten ++ (ss.flatten ++ ms.flatten)) hb
  rw [← hHdef, ← hseq'] at hfix
  refine ⟨hsz, by rw [hseq', List.length_append, hH]; omega, hfix.1, ?_, by simpa using hfix.2.2, ?_, ?_, ?_, ?_⟩
  · rw [hfix.2.1, Nat.mod_eq_of_lt (volByte_lt vol)]
  · intro i hi
    have hi' : i < (tl.map (·.1)).length := by simpa using hi
    have hit : i < tS.length := by rw [ltS]; exact hi'
    have htr := header_track (4 + 4 * tl.length) (volByte vol) (tl.map (·.1)) tS sS mS c.usedData.length
        (ts.flatten ++ (ss.flatten ++ ms.flatten)) ltS i hi' hit
    rw [← hHdef, ← hseq'] at htr
    have his : i < ts.length := by rw [lts]; exact hi
    have hen := encodeStreams_get _ _ _ _ _ hts i (by simpa using hi) his
    have hfit := encodeStreams_starts _ _ _ _ _ hts i his
    have hst : tS[i] = hdrSize c tl.length + ((ts.take i).flatten).length := by
      have := startsFrom_get (hdrSize c tl.length) ts i his
      rw [← htS, List.getElem?_eq_getElem hit] at this
      exact Option.some.inj this
    have hoff : 4 + 4 * tl.length + off16 tS[i] (4 + 4 * tl.length) = tS[i] := off16_eq _ _ (by rw [hst]; omega) (by rw [hst]; omega)
    refine ⟨off16 tS[i] (4 + 4 * tl.length), ts[i], by simpa using htr.1, htr.2.2, by simpa using hen, ?_, ?_, by rw [hoff, hst, hbt]⟩
    · rw [hoff, hst, hseq', ← hH]
      have := at_of_split H (ss.flatten ++ ms.flatten) ts i his
      simpa [List.append_assoc] using this
    · rw [hbt]; exact List.getElem?_eq_getElem his
  · intro k hk
    have hk' : k < (sS ++ mS).length := by simp [lsS]; omega
    have hsl := header_slot (4 + 4 * tl.length) (volByte vol) (tl.map (·.1)) tS sS mS c.usedData.length
      (ts.flatten ++ (ss.flatten ++ ms.flatten)) ltS k hk'
    rw [← hHdef, ← hseq', hml] at hsl
    have hks : k < ss.length := by rw [lss]; exact hk
    have hkS : k < sS.length := by rw [lsS]; exact hk
    have hget : (sS ++ mS)[k] = sS[k] := List.getElem_append_left hkS
    have hen := encodeStreams_get _ _ _ _ _ hss k hk hks
    have hfit := encodeStreams_starts _ _ _ _ _ hss k hks
    have hst : sS[k] = hdrSize c tl.length + ts.flatten.length + ((ss.take k).flatten).length := by
      have := startsFrom_get (hdrSize c tl.length + ts.flatten.length) ss k hks
      rw [← hsS, List.getElem?_eq_getElem hkS] at this
      exact Option.some.inj this
    have hoff : 4 + 4 * tl.length + off16 sS[k] (4 + 4 * tl.length) = sS[k] := off16_eq _ _ (by rw [hst]; omega) (by rw [hst]; omega)
    refine ⟨off16 sS[k] (4 + 4 * tl.length), ss[k], by rw [hsl, hget], hen, ?_, by rw [hoff, hst]; omega,
      by rw [hbs]; exact List.getElem?_eq_getElem hks⟩
    rw [hoff, hst, hseq']
    have := at_of_split (H ++ ts.flatten) ms.flatten ss k hks
    simpa [List.append_assoc, hH] using this
  · intro k hk
    have hk' : c.subList.length + k < (sS ++ mS).length := by simp [lsS, lmS]; omega
    have hsl := header_slot (4 + 4 * tl.length) (volByte vol) (tl.map (·.1)) tS sS mS c.usedData.length
      (ts.flatten ++ (ss.flatten ++ ms.flatten)) ltS (c.subList.length + k) hk'
    rw [← hHdef, ← hseq', hml] at hsl
    have hks : k < ms.length := by rw [lms]; exact hk
    have hkS : k < mS.length := by rw [lmS]; exact hk
    have hget : (sS ++ mS)[c.subList.length + k] = mS[k] := by
      rw [List.getElem_append_right (by rw [lsS]; omega)]
      simp [lsS]
    have hen := encodeStreams_get _ _ _ _ _ hms k hk hks
    have hfit := encodeStreams_starts _ _ _ _ _ hms k hks
    have hst : mS[k] = hdrSize c tl.length + ts.flatten.length + ss.flatten.length + ((ms.take k).flatten).length := by
      have := startsFrom_get (hdrSize c tl.length + ts.flatten.length + ss.flatten.length) ms k hks
      rw [← hmS, List.getElem?_eq_getElem hkS] at this
      exact Option.some.inj this
    have hoff : 4 + 4 * tl.length + off16 mS[k] (4 + 4 * tl.length) = mS[k] := off16_eq _ _ (by rw [hst]; omega) (by rw [hst]; omega)
    refine ⟨off16 mS[k] (4 + 4 * tl.length), ms[k], by rw [hsl, hget], hen, ?_, by rw [hoff, hst]; omega⟩
    rw [hoff, hst, hseq']
    have := at_of_split (H ++ ts.flatten ++ ss.flatten) [] ms k hks
    simpa [List.append_assoc, hH, Nat.add_assoc] using this
  · intro k hk1 hk2
    have hds := header_data_slot (4 + 4 * tl.length) (volByte vol) (tl.map (·.1)) tS sS mS c.usedData.length
      (ts.flatten ++ (ss.flatten ++ ms.flatten)) ltS k (by simp [lsS, lmS]; omega) (by simp [lsS, lmS]; omega)
    rw [← hHdef, ← hseq', hml] at hds
    exact hds

/-! ### the exported `seq ` consists of bytes: header and macro streams -/

theorem app_bytes {out l : List Nat} (hb : ∀ x ∈ out, x < 256) (hl : ∀ x ∈ l, x < 256) : ∀ x ∈ out ++ l, x < 256 := by
  intro x hx; rcases List.mem_append.mp hx with h | h; exact hb x h; exact hl x h

theorem macroLong_bytes : ∀ (fuel : Nat) (out : List Nat) (cmd next arg : Nat), (∀ x ∈ out, x < 256) → cmd < 256 → next < 256 →
    (∀ x ∈ (macroLong fuel out cmd next arg).1, x < 256) ∧ (macroLong fuel out cmd next arg).2.1 < 256
  | 0, out, cmd, next, arg, hb, hc, hn => ⟨hb, hc⟩
  | fuel + 1, out, cmd, next, arg, hb, hc, hn => by
    unfold macroLong
    split
    · exact macroLong_bytes fuel _ next next _ (app_bytes hb (by intro x hx; simp at hx; rcases hx with rfl | rfl <;> omega)) hn hn
    · exact ⟨hb, hc⟩

theorem set_bytes {l : List Nat} (hb : ∀ x ∈ l, x < 256) (i v : Nat) (hv : v < 256) : ∀ x ∈ l.set i v, x < 256 := by
  intro x hx
  rcases List.mem_or_eq_of_mem_set hx with h | h
  · exact hb x h
  · rw [h]; exact hv

theorem macroEv_bytes {e e' : MEnc} {ev : MEv} (hb : ∀ x ∈ e.out, x < 256) (h : macroEv e ev = .ok e') : ∀ x ∈ e'.out, x < 256 := by
  unfold macroEv at h
  simp only at h
  by_cases c1 : ev.type = mds_REST ∧ ev.arg ≠ 0
  · simp only [if_pos c1] at h
    simp only [Except.ok.injEq] at h; subst h
    obtain ⟨m1, m2⟩ := macroLong_bytes 300 e.out 0x81 0x81 (ev.arg - 1) hb (by decide) (by decide)
    exact app_bytes m1 (by intro x hx; simp only [List.mem_cons, List.mem_nil_iff, or_false] at hx; rcases hx with rfl | rfl; exact m2; omega)
  by_cases c2 : ev.type < mds_SLR ∧ ev.arg ≠ 0
  · simp only [if_neg c1, if_pos c2] at h
    simp only [Except.ok.injEq] at h; subst h
    obtain ⟨m1, m2⟩ := macroLong_bytes 300 e.out 0x82 0x81 (ev.arg - 1) hb (by decide) (by decide)
    exact app_bytes m1 (by intro x hx; simp only [List.mem_cons, List.mem_nil_iff, or_false] at hx; rcases hx with rfl | rfl; exact m2; omega)
  by_cases c3 : macroIgnored.contains ev.type = true
  · simp only [if_neg c1, if_neg c2, if_pos c3] at h; simp only [Except.ok.injEq] at h; subst h; exact hb
  by_cases c4 : ev.type = mds_SEGNO
  · simp only [if_neg c1, if_neg c2, if_neg c3, if_pos c4] at h; simp only [Except.ok.injEq] at h; subst h; exact hb
  by_cases c5 : ev.type = mds_CARRY
  · simp only [if_neg c1, if_neg c2, if_neg c3, if_neg c4, if_pos c5] at h; simp only [Except.ok.injEq] at h; subst h; exact app_bytes hb (by intro x hx; simp only [List.mem_cons, List.mem_nil_iff, or_false] at hx; rcases hx with rfl | rfl <;> first | omega | (split <;> omega))
  by_cases c6 : ev.type = mds_FINISH
  · simp only [if_neg c1, if_neg c2, if_neg c3, if_neg c4, if_neg c5, if_pos c6] at h; simp only [Except.ok.injEq] at h; subst h; exact app_bytes hb (by intro x hx; simp only [List.mem_cons, List.mem_nil_iff, or_false] at hx; rcases hx with rfl | rfl <;> first | omega | (split <;> omega))
  by_cases c7 : ev.type = mds_VOL
  · simp only [if_neg c1, if_neg c2, if_neg c3, if_neg c4, if_neg c5, if_neg c6, if_pos c7] at h; simp only [Except.ok.injEq] at h; subst h; exact app_bytes hb (by intro x hx; simp only [List.mem_cons, List.mem_nil_iff, or_false] at hx; rcases hx with rfl | rfl <;> first | omega | (split <;> omega))
  by_cases c8 : ev.type = mds_VOLM
  · simp only [if_neg c1, if_neg c2, if_neg c3, if_neg c4, if_neg c5, if_neg c6, if_neg c7, if_pos c8] at h; simp only [Except.ok.injEq] at h; subst h; exact app_bytes hb (by intro x hx; simp only [List.mem_cons, List.mem_nil_iff, or_false] at hx; rcases hx with rfl | rfl <;> first | omega | (split <;> omega))
  by_cases c9 : ev.type = mds_TRS
  · simp only [if_neg c1, if_neg c2, if_neg c3, if_neg c4, if_neg c5, if_neg c6, if_neg c7, if_neg c8, if_pos c9] at h; simp only [Except.ok.injEq] at h; subst h; exact app_bytes hb (by intro x hx; simp only [List.mem_cons, List.mem_nil_iff, or_false] at hx; rcases hx with rfl | rfl <;> first | omega | (split <;> omega))
  by_cases c10 : ev.type = mds_TRSM
  · simp only [if_neg c1, if_neg c2, if_neg c3, if_neg c4, if_neg c5, if_neg c6, if_neg c7, if_neg c8, if_neg c9, if_pos c10] at h; simp only [Except.ok.injEq] at h; subst h; exact app_bytes hb (by intro x hx; simp only [List.mem_cons, List.mem_nil_iff, or_false] at hx; rcases hx with rfl | rfl <;> first | omega | (split <;> omega))
  by_cases c11 : ev.type = mds_DTN
  · simp only [if_neg c1, if_neg c2, if_neg c3, if_neg c4, if_neg c5, if_neg c6, if_neg c7, if_neg c8, if_neg c9, if_neg c10, if_pos c11] at h; simp only [Except.ok.injEq] at h; subst h; exact app_bytes hb (by intro x hx; simp only [List.mem_cons, List.mem_nil_iff, or_false] at hx; rcases hx with rfl | rfl <;> first | omega | (split <;> omega))
  by_cases c12 : ev.type = mds_PTA
  · simp only [if_neg c1, if_neg c2, if_neg c3, if_neg c4, if_neg c5, if_neg c6, if_neg c7, if_neg c8, if_neg c9, if_neg c10, if_neg c11, if_pos c12] at h; simp only [Except.ok.injEq] at h; subst h; exact app_bytes hb (by intro x hx; simp only [List.mem_cons, List.mem_nil_iff, or_false] at hx; rcases hx with rfl | rfl <;> first | omega | (split <;> omega))
  by_cases c13 : ev.type = mds_PAN
  · simp only [if_neg c1, if_neg c2, if_neg c3, if_neg c4, if_neg c5, if_neg c6, if_neg c7, if_neg c8, if_neg c9, if_neg c10, if_neg c11, if_neg c12, if_pos c13] at h; simp only [Except.ok.injEq] at h; subst h; exact app_bytes hb (by intro x hx; simp only [List.mem_cons, List.mem_nil_iff, or_false] at hx; rcases hx with rfl | rfl <;> first | omega | (split <;> omega))
  by_cases c14 : ev.type = mds_LFO
  · simp only [if_neg c1, if_neg c2, if_neg c3, if_neg c4, if_neg c5, if_neg c6, if_neg c7, if_neg c8, if_neg c9, if_neg c10, if_neg c11, if_neg c12, if_neg c13, if_pos c14] at h; simp only [Except.ok.injEq] at h; subst h; exact app_bytes hb (by intro x hx; simp only [List.mem_cons, List.mem_nil_iff, or_false] at hx; rcases hx with rfl | rfl <;> first | omega | (split <;> omega))
  by_cases c15 : ev.type = mds_FMCREG
  · simp only [if_neg c1, if_neg c2, if_neg c3, if_neg c4, if_neg c5, if_neg c6, if_neg c7, if_neg c8, if_neg c9, if_neg c10, if_neg c11, if_neg c12, if_neg c13, if_neg c14, if_pos c15] at h; simp only [Except.ok.injEq] at h; subst h; exact app_bytes hb (by intro x hx; simp only [List.mem_cons, List.mem_nil_iff, or_false] at hx; rcases hx with rfl | rfl <;> first | omega | (split <;> omega))
  by_cases c16 : ev.type = mds_FMTL
  · simp only [if_neg c1, if_neg c2, if_neg c3, if_neg c4, if_neg c5, if_neg c6, if_neg c7, if_neg c8, if_neg c9, if_neg c10, if_neg c11, if_neg c12, if_neg c13, if_neg c14, if_neg c15, if_pos c16] at h; simp only [Except.ok.injEq] at h; subst h; exact app_bytes hb (by intro x hx; simp only [List.mem_cons, List.mem_nil_iff, or_false] at hx; rcases hx with rfl | rfl <;> first | omega | (split <;> omega))
  by_cases c17 : ev.type = mds_FMTLM
  · simp only [if_neg c1, if_neg c2, if_neg c3, if_neg c4, if_neg c5, if_neg c6, if_neg c7, if_neg c8, if_neg c9, if_neg c10, if_neg c11, if_neg c12, if_neg c13, if_neg c14, if_neg c15, if_neg c16, if_pos c17] at h; simp only [Except.ok.injEq] at h; subst h; exact app_bytes hb (by intro x hx; simp only [List.mem_cons, List.mem_nil_iff, or_false] at hx; rcases hx with rfl | rfl <;> first | omega | (split <;> omega))
  by_cases c18 : ev.type = mds_JUMP
  · simp only [if_neg c1, if_neg c2, if_neg c3, if_neg c4, if_neg c5, if_neg c6, if_neg c7, if_neg c8, if_neg c9, if_neg c10, if_neg c11, if_neg c12, if_neg c13, if_neg c14, if_neg c15, if_neg c16, if_neg c17, if_pos c18] at h; simp only [Except.ok.injEq] at h; subst h; exact app_bytes hb (by intro x hx; simp only [List.mem_cons, List.mem_nil_iff, or_false] at hx; rcases hx with rfl | rfl <;> first | omega | (split <;> omega))
  by_cases c19 : ev.type = mds_LP
  · simp only [if_neg c1, if_neg c2, if_neg c3, if_neg c4, if_neg c5, if_neg c6, if_neg c7, if_neg c8, if_neg c9, if_neg c10, if_neg c11, if_neg c12, if_neg c13, if_neg c14, if_neg c15, if_neg c16, if_neg c17, if_neg c18, if_pos c19] at h; simp only [Except.ok.injEq] at h; subst h; exact app_bytes hb (by intro x hx; simp only [List.mem_cons, List.mem_nil_iff, or_false] at hx; rcases hx with rfl | rfl <;> first | omega | (split <;> omega))
  by_cases c20 : ev.type = mds_LPB
  · simp only [if_neg c1, if_neg c2, if_neg c3, if_neg c4, if_neg c5, if_neg c6, if_neg c7, if_neg c8, if_neg c9, if_neg c10, if_neg c11, if_neg c12, if_neg c13, if_neg c14, if_neg c15, if_neg c16, if_neg c17, if_neg c18, if_neg c19, if_pos c20] at h
    cases hbr : e.breaks with
    | nil => simp [hbr] at h
    | cons b r => simp only [hbr] at h; simp only [Except.ok.injEq] at h; subst h; exact app_bytes hb (by intro x hx; simp only [List.mem_cons, List.mem_nil_iff, or_false] at hx; rcases hx with rfl | rfl <;> first | omega | (split <;> omega))
  by_cases c21 : ev.type = mds_LPF
  · simp only [if_neg c1, if_neg c2, if_neg c3, if_neg c4, if_neg c5, if_neg c6, if_neg c7, if_neg c8, if_neg c9, if_neg c10, if_neg c11, if_neg c12, if_neg c13, if_neg c14, if_neg c15, if_neg c16, if_neg c17, if_neg c18, if_neg c19, if_neg c20, if_pos c21] at h
    cases hst : e.starts with
    | nil => simp [hst] at h
    | cons st sr =>
      cases hbr : e.breaks with
      | nil => simp [hst, hbr] at h
      | cons b br =>
        simp only [hst, hbr, Except.ok.injEq] at h; subst h
        apply set_bytes _ _ _ (Nat.mod_lt _ (by decide))
        have h1 : ∀ x ∈ e.out ++ [0x86] ++ [(st + two64 - ((e.out ++ [0x86]).length + 1)) / 2 % 256], x < 256 :=
          app_bytes (app_bytes hb (by intro x hx; simp only [List.mem_singleton] at hx; subst hx; decide))
            (by intro x hx; simp only [List.mem_singleton] at hx; subst hx; omega)
        split
        · exact set_bytes h1 _ _ (Nat.mod_lt _ (by decide))
        · exact h1
  · simp only [if_neg c1, if_neg c2, if_neg c3, if_neg c4, if_neg c5, if_neg c6, if_neg c7, if_neg c8, if_neg c9, if_neg c10, if_neg c11, if_neg c12, if_neg c13, if_neg c14, if_neg c15, if_neg c16, if_neg c17, if_neg c18, if_neg c19, if_neg c20, if_neg c21, Except.ok.injEq] at h; subst h; exact hb

theorem macroAll_bytes : ∀ (es : List MEv) (e e' : MEnc), (∀ x ∈ e.out, x < 256) → macroAll e es = .ok e' → ∀ x ∈ e'.out, x < 256
  | [], e, e', hb, h => by simp only [macroAll, Except.ok.injEq] at h; subst h; exact hb
  | ev :: es, e, e', hb, h => by
    simp only [macroAll] at h
    cases h1 : macroEv e ev with
    | error x => simp [h1] at h
    | ok e1 => simp only [h1] at h; exact macroAll_bytes es e1 e' (macroEv_bytes hb h1) h

theorem convertMacroTrack_bytes {es : List MEv} {bytes : List Nat} (h : convertMacroTrack es = .ok bytes) : ∀ x ∈ bytes, x < 256 := by
  unfold convertMacroTrack at h
  cases h1 : macroAll {} es with
  | error x => simp [h1] at h
  | ok e => simp only [h1, Except.ok.injEq] at h; subst h; exact macroAll_bytes es {} e (by simp) h1


theorem flatMap_bytes {α} (f : α → List Nat) (hf : ∀ a, ∀ x ∈ f a, x < 256) (l : List α) : ∀ x ∈ l.flatMap f, x < 256 := by
  intro x hx
  obtain ⟨a, _, ha⟩ := List.mem_flatMap.mp hx
  exact hf a x ha

theorem be16b_bytes (n : Nat) : ∀ x ∈ MdsFile.be16b n, x < 256 := by
  intro x hx
  simp only [MdsFile.be16b, List.mem_cons, List.mem_nil_iff, or_false] at hx
  rcases hx with rfl | rfl <;> omega

/-- the header of the exported `seq ` consists of bytes -/
theorem headerOf_bytes (db vol : Nat) (ids tS sS mS : List Nat) (nD : Nat) : ∀ x ∈ MdsFile.headerOf db vol ids tS sS mS nD, x < 256 := by
  unfold MdsFile.headerOf
  refine app_bytes (app_bytes (app_bytes (app_bytes (be16b_bytes db) ?_) ?_) ?_) ?_
  · intro x hx
    simp only [List.mem_cons, List.mem_nil_iff, or_false] at hx
    rcases hx with rfl | rfl <;> omega
  · apply flatMap_bytes
    rintro ⟨id, st⟩ x hx
    refine app_bytes ?_ (be16b_bytes _) x hx
    intro y hy
    simp only [List.mem_cons, List.mem_nil_iff, or_false] at hy
    rcases hy with rfl | rfl <;> omega
  · apply flatMap_bytes
    intro st; exact be16b_bytes _
  · intro x hx
    rw [List.eq_of_mem_replicate hx]; decide

theorem encodeStreams_mem (enc : List MEv → Except FErr (List Nat)) (base pos : Nat) (es : List (List MEv)) (bs : List (List Nat))
    (h : encodeStreams enc base pos es = .ok bs) : ∀ s ∈ bs, ∃ e ∈ es, enc e = .ok s := by
  intro s hs
  obtain ⟨i, hi, rfl⟩ := List.mem_iff_getElem.mp hs
  have hl := encodeStreams_length _ _ _ _ _ h
  exact ⟨es[i]'(by omega), List.getElem_mem _, encodeStreams_get _ _ _ _ _ h i (by omega) hi⟩

end Ctrmml.MdsRead
