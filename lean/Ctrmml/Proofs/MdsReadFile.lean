/-
  C09, reader tie (5): the exported `seq ` and file as the reader-side definitions of
  `Spec/MdsResolve` see them — where every stream lies (`layout`), `headerOf`, `streamPos` /
  `resolve` of stream slots and of data slots, `parseFile` of the serialised container.
-/
import Ctrmml.Proofs.MdsFile
import Ctrmml.Spec.MdsResolve
namespace Ctrmml.MdsRead
open Ctrmml Ctrmml.Mds Ctrmml.MdsFile Ctrmml.MdsResolve Tables

/-- the byte string `bytes` lies at position `pos` of `seq` -/
def At (seq : List Nat) (pos : Nat) (bytes : List Nat) : Prop :=
  ∃ pre post, seq = pre ++ (bytes ++ post) ∧ pre.length = pos

theorem at_of_split (pre post : List Nat) (bs : List (List Nat)) (i : Nat) (hi : i < bs.length) :
    At (pre ++ bs.flatten ++ post) (pre.length + ((bs.take i).flatten).length) bs[i] := by
  refine ⟨pre ++ (bs.take i).flatten, (bs.drop (i + 1)).flatten ++ post, ?_, by simp⟩
  rw [flatten_split bs i hi]; simp [List.append_assoc]

/-- **where everything lies in the exported `seq `** -/
theorem layout {c : Conv} {tl : List (Nat × List MEv)} {vol : Option String} {b : Built} (h : assemble c tl vol = .ok b) :
    hdrSize c tl.length < 65536 ∧ hdrSize c tl.length ≤ b.seq.length ∧
    Seq.rd16 b.seq 0 = some (4 + 4 * tl.length) ∧ Seq.rd b.seq 2 = some (volByte vol) ∧ Seq.rd b.seq 3 = some (tl.length % 256) ∧
    (∀ (i : Nat) (hi : i < tl.length), ∃ off stream,
      Seq.rd b.seq (4 + 4 * i) = some (tl[i].1 % 256) ∧ Seq.rd16 b.seq (4 + 4 * i + 2) = some off ∧
      convertTrackChk c.subList.length c.macroList.length tl[i].2 = .ok stream ∧
      At b.seq (4 + 4 * tl.length + off) stream ∧ b.trackStreams[i]? = some stream ∧
      4 + 4 * tl.length + off = hdrSize c tl.length + ((b.trackStreams.take i).flatten).length) ∧
    (∀ (k : Nat) (hk : k < c.subList.length), ∃ off stream,
      Seq.rd16 b.seq (4 + 4 * tl.length + 2 * k) = some off ∧
      convertTrackChk c.subList.length c.macroList.length c.subList[k] = .ok stream ∧
      At b.seq (4 + 4 * tl.length + off) stream ∧ hdrSize c tl.length ≤ 4 + 4 * tl.length + off ∧
      b.subStreams[k]? = some stream) ∧
    (∀ (k : Nat) (hk : k < c.macroList.length), ∃ off stream,
      Seq.rd16 b.seq (4 + 4 * tl.length + 2 * (c.subList.length + k)) = some off ∧
      convertMacroTrack c.macroList[k] = .ok stream ∧
      At b.seq (4 + 4 * tl.length + off) stream ∧ hdrSize c tl.length ≤ 4 + 4 * tl.length + off) ∧
    (∀ k : Nat, c.subList.length + c.macroList.length ≤ k → k < c.subList.length + c.macroList.length + c.usedData.length →
      Seq.rd16 b.seq (4 + 4 * tl.length + 2 * k) = some 0) := by
  obtain ⟨ts, ss, ms, hts, hss, hms, hsz, _, _, hbt, hbs, _, hseq⟩ := assemble_ok h
  have lts : ts.length = tl.length := by simpa using encodeStreams_length _ _ _ _ _ hts
  have lss : ss.length = c.subList.length := encodeStreams_length _ _ _ _ _ hss
  have lms : ms.length = c.macroList.length := encodeStreams_length _ _ _ _ _ hms
  have hb : 4 + 4 * tl.length < 65536 := by unfold hdrSize at hsz; omega
  have hle : 4 + 4 * tl.length ≤ hdrSize c tl.length := by unfold hdrSize; omega
  obtain ⟨tS, htS⟩ : ∃ x, x = startsFrom (hdrSize c tl.length) ts := ⟨_, rfl⟩
  obtain ⟨sS, hsS⟩ : ∃ x, x = startsFrom (hdrSize c tl.length + ts.flatten.length) ss := ⟨_, rfl⟩
  obtain ⟨mS, hmS⟩ : ∃ x, x = startsFrom (hdrSize c tl.length + ts.flatten.length + ss.flatten.length) ms := ⟨_, rfl⟩
  rw [← htS, ← hsS, ← hmS] at hseq
  have ltS : tS.length = (tl.map (·.1)).length := by rw [htS, startsFrom_length]; simpa using lts
  have lsS : sS.length = c.subList.length := by rw [hsS, startsFrom_length, lss]
  have lmS : mS.length = c.macroList.length := by rw [hmS, startsFrom_length, lms]
  obtain ⟨H, hHdef⟩ : ∃ x, x = headerOf (4 + 4 * tl.length) (volByte vol) (tl.map (·.1)) tS sS mS c.usedData.length := ⟨_, rfl⟩
  have hH : H.length = hdrSize c tl.length := by
    rw [hHdef, headerOf_length _ _ _ _ _ _ _ ltS, lsS, lmS]; simp [hdrSize]; omega
  have hseq' : b.seq = H ++ (ts.flatten ++ (ss.flatten ++ ms.flatten)) := by rw [hseq, hHdef]; simp [List.append_assoc]
  have hml : (tl.map (·.1)).length = tl.length := by simp
  have hfix := header_fixed (4 + 4 * tl.length) (volByte vol) (tl.map (·.1)) tS sS mS c.usedData.length
      (ts.flatten ++ (ss.flatten ++ ms.flatten)) hb
  rw [← hHdef, ← hseq'] at hfix
  refine ⟨hsz, by rw [hseq', List.length_append, hH]; omega, hfix.1, ?_, by simpa using hfix.2.2, ?_, ?_, ?_, ?_⟩
  · rw [hfix.2.1, Nat.mod_eq_of_lt (volByte_lt vol)]
  · intro i hi
    have hi' : i < (tl.map (·.1)).length := by simpa using hi
    have hit : i < tS.length := by rw [ltS]; exact hi'
    have htr := header_track (4 + 4 * tl.length) (volByte vol) (tl.map (·.1)) tS sS mS c.usedData.length
        (ts.flatten ++ (ss.flatten ++ ms.flatten)) ltS i hi' hit
    rw [← hHdef, ← hseq'] at htr
    have his : i < ts.length := by rw [lts]; exact hi
    have hen := encodeStreams_get _ _ _ _ _ hts i (by simpa using hi) his
    have hfit := encodeStreams_starts _ _ _ _ _ hts i his
    have hst : tS[i] = hdrSize c tl.length + ((ts.take i).flatten).length := by
      have := startsFrom_get (hdrSize c tl.length) ts i his
      rw [← htS, List.getElem?_eq_getElem hit] at this
      exact Option.some.inj this
    have hoff : 4 + 4 * tl.length + off16 tS[i] (4 + 4 * tl.length) = tS[i] := off16_eq _ _ (by rw [hst]; omega) (by rw [hst]; omega)
    refine ⟨off16 tS[i] (4 + 4 * tl.length), ts[i], by simpa using htr.1, htr.2.2, by simpa using hen, ?_, ?_, by rw [hoff, hst, hbt]⟩
    · rw [hoff, hst, hseq', ← hH]
      have := at_of_split H (ss.flatten ++ ms.flatten) ts i his
      simpa [List.append_assoc] using this
    · rw [hbt]; exact List.getElem?_eq_getElem his
  · intro k hk
    have hk' : k < (sS ++ mS).length := by simp [lsS]; omega
    have hsl := header_slot (4 + 4 * tl.length) (volByte vol) (tl.map (·.1)) tS sS mS c.usedData.length
      (ts.flatten ++ (ss.flatten ++ ms.flatten)) ltS k hk'
    rw [← hHdef, ← hseq', hml] at hsl
    have hks : k < ss.length := by rw [lss]; exact hk
    have hkS : k < sS.length := by rw [lsS]; exact hk
    have hget : (sS ++ mS)[k] = sS[k] := List.getElem_append_left hkS
    have hen := encodeStreams_get _ _ _ _ _ hss k hk hks
    have hfit := encodeStreams_starts _ _ _ _ _ hss k hks
    have hst : sS[k] = hdrSize c tl.length + ts.flatten.length + ((ss.take k).flatten).length := by
      have := startsFrom_get (hdrSize c tl.length + ts.flatten.length) ss k hks
      rw [← hsS, List.getElem?_eq_getElem hkS] at this
      exact Option.some.inj this
    have hoff : 4 + 4 * tl.length + off16 sS[k] (4 + 4 * tl.length) = sS[k] := off16_eq _ _ (by rw [hst]; omega) (by rw [hst]; omega)
    refine ⟨off16 sS[k] (4 + 4 * tl.length), ss[k], by rw [hsl, hget], hen, ?_, by rw [hoff, hst]; omega,
      by rw [hbs]; exact List.getElem?_eq_getElem hks⟩
    rw [hoff, hst, hseq']
    have := at_of_split (H ++ ts.flatten) ms.flatten ss k hks
    simpa [List.append_assoc, hH] using this
  · intro k hk
    have hk' : c.subList.length + k < (sS ++ mS).length := by simp [lsS, lmS]; omega
    have hsl := header_slot (4 + 4 * tl.length) (volByte vol) (tl.map (·.1)) tS sS mS c.usedData.length
      (ts.flatten ++ (ss.flatten ++ ms.flatten)) ltS (c.subList.length + k) hk'
    rw [← hHdef, ← hseq', hml] at hsl
    have hks : k < ms.length := by rw [lms]; exact hk
    have hkS : k < mS.length := by rw [lmS]; exact hk
    have hget : (sS ++ mS)[c.subList.length + k] = mS[k] := by
      rw [List.getElem_append_right (by rw [lsS]; omega)]
      simp [lsS]
    have hen := encodeStreams_get _ _ _ _ _ hms k hk hks
    have hfit := encodeStreams_starts _ _ _ _ _ hms k hks
    have hst : mS[k] = hdrSize c tl.length + ts.flatten.length + ss.flatten.length + ((ms.take k).flatten).length := by
      have := startsFrom_get (hdrSize c tl.length + ts.flatten.length + ss.flatten.length) ms k hks
      rw [← hmS, List.getElem?_eq_getElem hkS] at this
      exact Option.some.inj this
    have hoff : 4 + 4 * tl.length + off16 mS[k] (4 + 4 * tl.length) = mS[k] := off16_eq _ _ (by rw [hst]; omega) (by rw [hst]; omega)
    refine ⟨off16 mS[k] (4 + 4 * tl.length), ms[k], by rw [hsl, hget], hen, ?_, by rw [hoff, hst]; omega⟩
    rw [hoff, hst, hseq']
    have := at_of_split (H ++ ts.flatten ++ ss.flatten) [] ms k hks
    simpa [List.append_assoc, hH, Nat.add_assoc] using this
  · intro k hk1 hk2
    have hds := header_data_slot (4 + 4 * tl.length) (volByte vol) (tl.map (·.1)) tS sS mS c.usedData.length
      (ts.flatten ++ (ss.flatten ++ ms.flatten)) ltS k (by simp [lsS, lmS]; omega) (by simp [lsS, lmS]; omega)
    rw [← hHdef, ← hseq', hml] at hds
    exact hds

end Ctrmml.MdsRead
