/-
  C01 — the notions the property theorems of `Properties/C01.lean` are stated with, and the helper
  lemmas about them.

  * the side conditions and the segments of the two rewrites (`FoldSide`, `foldX`, `foldX'`,
    `Fold0Side`, `fold0X`, `fold0X'`, `ExtractSide`) and the general forms of their soundness
    (`C01_fold_rel`, `C01_fold0_rel`, `C01_extract_rel`: `ResRel` between the performances);
  * what is observed of a track of a song (`obsOf`, `okTrack`);
  * one optimiser pass (`Step`; up to `LOOP_BREAK` params: `StepN`), sequences of passes (`chain`,
    `chainN`, `lastSong`);
  * the validator of the property (`validAll`, `ValidOK`).
-/
import Ctrmml.Proofs.Rewrite
import Ctrmml.Proofs.OptTerm
namespace Ctrmml.C01
open Ctrmml Ctrmml.Tree Ctrmml.Expand Ctrmml.Rewrite Ctrmml.Opt Ctrmml.OptSteps Tables

/-- side conditions of the loop fold with remainder -/
structure FoldSide (A0 A1 : List Node) (k : Nat) (ls lb le : Event) : Prop where
  c0 : closedL A0
  c1 : closedL A1
  b0 : hasTopBreak A0 = false
  b1 : hasTopBreak A1 = false
  kls : ls.kind = .loopStart
  klb : lb.kind = .loopBreak
  kle : le.kind = .loopEnd
  zls : ls.on = 0 ∧ ls.off = 0
  zlb : lb.on = 0 ∧ lb.off = 0
  zle : le.on = 0 ∧ le.off = 0
  count : le.param = (k : Int) + 2

/-- the folded segment: the phrase `A0 A1`, `k` more copies, and the prefix `A0` -/
def foldX (A0 A1 : List Node) (k : Nat) : List Event :=
  flattenL (A0 ++ A1) ++ flattenL (List.replicate k (A0 ++ A1)).flatten ++ flattenL A0

/-- what `apply_match` leaves in its place (`LOOP_START`, `LOOP_BREAK` at the break point,
`LOOP_END` with `repeats = L/len + 1 + 1`) -/
def foldX' (A0 A1 : List Node) (ls lb le : Event) : List Event :=
  ls :: (flattenL A0 ++ lb :: flattenL A1 ++ [le])

theorem foldX_eq (A0 A1 : List Node) (k : Nat) : foldX A0 A1 k = flattenL (foldSrc A0 A1 k) := by
  simp [foldX, foldSrc, flattenL_append]

theorem foldDstX_eq (A0 A1 : List Node) (ls lb le : Event) :
    foldX' A0 A1 ls lb le = flattenL (foldDst A0 A1 ls lb le) := by
  simp [foldX', foldDst, flattenL, flattenN, flattenL_append]

/-- General form: songs whose tracks are equal up to folds of this shape at any number of
places, root tracks likewise. -/
theorem C01_fold_rel {A0 A1 : List Node} {k : Nat} {ls lb le : Event} (h : FoldSide A0 A1 k ls lb le)
    {S S' : Song} (htr : SongRel (foldSrc A0 A1 k) (foldDst A0 A1 ls lb le) S S')
    {root root' : List Event} (hroot : ERel (foldSrc A0 A1 k) (foldDst A0 A1 ls lb le) root root') :
    ResRel (perf S root) (perf S' root') :=
  perf_rel S S' (foldSrc_closed h.c0 h.c1 k) (foldDst_closed h.c0 h.c1 h.kls h.klb h.kle)
    (fun _ _ _ hc => fold_FEq hc A0 A1 k ls lb le h.b0 h.b1 h.kls h.klb h.kle h.zls h.zlb h.zle h.count)
    htr hroot

theorem fold_songRel {A0 A1 : List Node} {k : Nat} {ls lb le : Event}
    {S S' : Song} {l1 l2 : Tracks} {tid : Nat} {pre post : List Event}
    (hS : S.tracks = l1 ++ (tid, pre ++ foldX A0 A1 k ++ post) :: l2)
    (hS' : S'.tracks = l1 ++ (tid, pre ++ foldX' A0 A1 ls lb le ++ post) :: l2) :
    SongRel (foldSrc A0 A1 k) (foldDst A0 A1 ls lb le) S S' := by
  apply SongRel.of_tracks
  rw [hS, hS', foldX_eq, foldDstX_eq]
  exact TracksRel.one (ERel.refl _ _) l1 l2 tid (ERel.ctx _ _ pre post)

/-- both directions at once, for a track `id` of the song -/
theorem fold_track_rel {A0 A1 : List Node} {k : Nat} {ls lb le : Event} (h : FoldSide A0 A1 k ls lb le)
    {S S' : Song} {l1 l2 : Tracks} {tid : Nat} {pre post : List Event}
    (hS : S.tracks = l1 ++ (tid, pre ++ foldX A0 A1 k ++ post) :: l2)
    (hS' : S'.tracks = l1 ++ (tid, pre ++ foldX' A0 A1 ls lb le ++ post) :: l2)
    {id : Nat} {t t' : List Event} (ht : S.track? id = some t) (ht' : S'.track? id = some t') :
    ResRel (perf S t) (perf S' t') := by
  have htr := fold_songRel (A0 := A0) (A1 := A1) (k := k) (ls := ls) (lb := lb) (le := le) hS hS'
  obtain ⟨t'', h1, hr⟩ := htr id t ht
  rw [ht'] at h1
  cases h1
  exact C01_fold_rel h htr hr

/-- side conditions of the loop fold without remainder: `k+1` copies of `A` -/
structure Fold0Side (A : List Node) (k : Nat) (ls le : Event) : Prop where
  c0 : closedL A
  b0 : hasTopBreak A = false
  kls : ls.kind = .loopStart
  kle : le.kind = .loopEnd
  zls : ls.on = 0 ∧ ls.off = 0
  zle : le.on = 0 ∧ le.off = 0
  count : le.param = (k : Int) + 1

def fold0Src (A : List Node) (k : Nat) : List Node := (List.replicate (k + 1) A).flatten

def fold0Dst (A : List Node) (ls le : Event) : List Node := [.loop ls A le]

/-- `k+1` copies of the phrase -/
def fold0X (A : List Node) (k : Nat) : List Event := flattenL (List.replicate (k + 1) A).flatten

/-- `[ A ](k+1)` -/
def fold0X' (A : List Node) (ls le : Event) : List Event := ls :: (flattenL A ++ [le])

theorem fold0DstX_eq (A : List Node) (ls le : Event) : fold0X' A ls le = flattenL (fold0Dst A ls le) := by
  simp [fold0X', fold0Dst, flattenL, flattenN]

theorem C01_fold0_rel {A : List Node} {k : Nat} {ls le : Event} (h : Fold0Side A k ls le)
    {S S' : Song} (htr : SongRel (fold0Src A k) (fold0Dst A ls le) S S')
    {root root' : List Event} (hroot : ERel (fold0Src A k) (fold0Dst A ls le) root root') :
    ResRel (perf S root) (perf S' root') :=
  perf_rel S S' (closedL_replicate A h.c0 _) (by simp [closedL, Node.closed, h.c0, h.kls, h.kle])
    (fun _ _ _ hc => fold0_FEq hc A k ls le h.b0 h.kls h.kle h.zls h.zle h.count)
    htr hroot

theorem fold0_track_rel {A : List Node} {k : Nat} {ls le : Event} (h : Fold0Side A k ls le)
    {S S' : Song} {l1 l2 : Tracks} {tid : Nat} {pre post : List Event}
    (hS : S.tracks = l1 ++ (tid, pre ++ fold0X A k ++ post) :: l2)
    (hS' : S'.tracks = l1 ++ (tid, pre ++ fold0X' A ls le ++ post) :: l2)
    {id : Nat} {t t' : List Event} (ht : S.track? id = some t) (ht' : S'.track? id = some t') :
    ResRel (perf S t) (perf S' t') := by
  have htr : SongRel (fold0Src A k) (fold0Dst A ls le) S S' := by
    apply SongRel.of_tracks
    rw [hS, hS', fold0DstX_eq]
    exact TracksRel.one (ERel.refl _ _) l1 l2 tid (ERel.ctx _ _ pre post)
  obtain ⟨t'', h1, hr⟩ := htr id t ht
  rw [ht'] at h1
  cases h1
  exact C01_fold0_rel h htr hr

/-- side conditions of subroutine extraction: the phrase `X`, the inserted `JUMP` event `j` -/
structure ExtractSide (X : List Node) (j : Event) : Prop where
  cX : closedL X
  bX : hasTopBreak X = false
  kj : j.kind = .jump
  zj : j.on = 0 ∧ j.off = 0

theorem flatten_jump (j : Event) : flattenL [Node.ev j] = [j] := by simp [flattenL, flattenN]

/-- General form: `S'` holds the phrase as track `trackIdOfParam j.param`; every track of `S`
is a track of `S'` with any number of occurrences of the phrase replaced by `j`. -/
theorem C01_extract_rel {X : List Node} {j : Event} (h : ExtractSide X j) {S S' : Song}
    (hnew : S'.track? (trackIdOfParam j.param) = some (flattenL X))
    (htr : SongRel X [.ev j] S S')
    {root root' : List Event} (hroot : ERel X [.ev j] root root') :
    ResRel (perf S root) (perf S' root') :=
  perf_rel S S' h.cX (by simp [closedL, Node.closed, h.kj])
    (fun k k' hlt _ => extract_FEq S S' X j k k' h.cX h.bX h.kj h.zj hnew hlt)
    htr hroot

/-- two occurrences in one track are an instance of `ERel` (and so on for any number) -/
theorem erel_two (X : List Node) (j : Event) (p0 p1 p2 : List Event) :
    ERel X [.ev j] (p0 ++ flattenL X ++ p1 ++ flattenL X ++ p2) (p0 ++ [j] ++ p1 ++ [j] ++ p2) := by
  rw [← flatten_jump j]
  simp only [List.append_assoc]
  exact ERel.prepend _ _ p0 (ERel.repl (ERel.prepend _ _ p1 (ERel.repl (ERel.refl _ _ p2))))

/-- the observation of track `id` of a song (`none` if it is missing or does not validate) -/
def obsOf (S : Song) (id : Nat) : Option Obs :=
  match S.track? id with
  | none => none
  | some t =>
    match perf S t with
    | .ok items => some (obs items)
    | .error _ => none

/-- track `id` exists and validates -/
def okTrack (S : Song) (id : Nat) : Prop := ∃ t items, S.track? id = some t ∧ perf S t = .ok items

/-- one optimiser pass: one of the rewrites under its side conditions, applied at any number
of places (the fold is applied at one place by `apply_match`; extraction at several) -/
inductive Step (S S' : Song) : Prop
  | fold (A0 A1 : List Node) (k : Nat) (ls lb le : Event) (h : FoldSide A0 A1 k ls lb le)
      (htr : SongRel (foldSrc A0 A1 k) (foldDst A0 A1 ls lb le) S S')
  | fold0 (A : List Node) (k : Nat) (ls le : Event) (h : Fold0Side A k ls le)
      (htr : SongRel (fold0Src A k) (fold0Dst A ls le) S S')
  | extract (X : List Node) (j : Event) (h : ExtractSide X j)
      (hfresh : S.track? (trackIdOfParam j.param) = none)
      (hnew : S'.track? (trackIdOfParam j.param) = some (flattenL X))
      (htr : SongRel X [.ev j] S S')

/-- every step keeps every track and relates the performances -/
theorem Step.rel {S S' : Song} (h : Step S S') {id : Nat} {t : List Event} (ht : S.track? id = some t) :
    ∃ t', S'.track? id = some t' ∧ ResRel (perf S t) (perf S' t') := by
  cases h with
  | fold A0 A1 k ls lb le h htr =>
    obtain ⟨t', h1, hr⟩ := htr id t ht
    exact ⟨t', h1, C01_fold_rel h htr hr⟩
  | fold0 A k ls le h htr =>
    obtain ⟨t', h1, hr⟩ := htr id t ht
    exact ⟨t', h1, C01_fold0_rel h htr hr⟩
  | extract X j h _ hnew htr =>
    obtain ⟨t', h1, hr⟩ := htr id t ht
    exact ⟨t', h1, C01_extract_rel h hnew htr hr⟩

theorem Step.preserve {S S' : Song} (h : Step S S') {id : Nat} (h0 : okTrack S id) (h1 : okTrack S' id) :
    obsOf S' id = obsOf S id := by
  obtain ⟨t, items, ht, hp⟩ := h0
  obtain ⟨t', items', ht', hp'⟩ := h1
  obtain ⟨t'', h2, hr⟩ := h.rel ht
  rw [ht'] at h2
  cases h2
  simp only [obsOf, ht, ht', hp, hp', hr.sound hp hp']

theorem Step.accepts {S S' : Song} (h : Step S S') {id : Nat} (h0 : okTrack S id)
    (hd : ∀ t', S'.track? id = some t' → perf S' t' ≠ .error .depth) : okTrack S' id := by
  obtain ⟨t, items, ht, hp⟩ := h0
  obtain ⟨t', h2, hr⟩ := h.rel ht
  obtain ⟨y, hy⟩ := hr.accepts hp (hd t' h2)
  exact ⟨t', y, h2, hy⟩

/-- `chain S [S1, …, Sn]`: `S → S1 → … → Sn` are optimiser passes -/
def chain : Song → List Song → Prop
  | _, [] => True
  | S, S1 :: r => Step S S1 ∧ chain S1 r

def lastSong : Song → List Song → Song
  | S, [] => S
  | _, S1 :: r => lastSong S1 r

/-- one optimiser pass up to `LOOP_BREAK` params: `S1` differs from `S` only in the params of
`LOOP_BREAK` events (`BrkEqv`), and `S1 → S'` is one of the rewrites under its side conditions -/
inductive StepN (S S' : Song) : Prop
  | mk (S1 : Song) (hb : BrkEqv S S1) (hs : Step S1 S')

theorem Step.toN {S S' : Song} (h : Step S S') : StepN S S' := ⟨S, BrkEqv.refl S, h⟩

/-- every such step keeps every track and relates the performances -/
theorem StepN.rel {S S' : Song} (h : StepN S S') {id : Nat} {t : List Event} (ht : S.track? id = some t) :
    ∃ t', S'.track? id = some t' ∧ ResRel (perf S t) (perf S' t') := by
  obtain ⟨S1, hb, hs⟩ := h
  have h1 := hb id
  rw [ht] at h1
  cases ht1 : S1.track? id with
  | none => rw [ht1] at h1; simp at h1
  | some t1 =>
    rw [ht1] at h1
    simp only [Option.map_some, Option.some.injEq] at h1
    obtain ⟨t', h2, hr⟩ := hs.rel ht1
    exact ⟨t', h2, (perf_brk hb h1.symm).then_rel hr⟩

theorem StepN.preserve {S S' : Song} (h : StepN S S') {id : Nat} (h0 : okTrack S id) (h1 : okTrack S' id) :
    obsOf S' id = obsOf S id := by
  obtain ⟨t, items, ht, hp⟩ := h0
  obtain ⟨t', items', ht', hp'⟩ := h1
  obtain ⟨t'', h2, hr⟩ := h.rel ht
  rw [ht'] at h2
  cases h2
  simp only [obsOf, ht, ht', hp, hp', hr.sound hp hp']

theorem StepN.accepts {S S' : Song} (h : StepN S S') {id : Nat} (h0 : okTrack S id)
    (hd : ∀ t', S'.track? id = some t' → perf S' t' ≠ .error .depth) : okTrack S' id := by
  obtain ⟨t, items, ht, hp⟩ := h0
  obtain ⟨t', h2, hr⟩ := h.rel ht
  obtain ⟨y, hy⟩ := hr.accepts hp (hd t' h2)
  exact ⟨t', y, h2, hy⟩

/-- `chainN S [S1, …, Sn]`: `S → S1 → … → Sn` are optimiser passes up to `LOOP_BREAK` params -/
def chainN : Song → List Song → Prop
  | _, [] => True
  | S, S1 :: r => StepN S S1 ∧ chainN S1 r

theorem chain.toN : ∀ (S : Song) (l : List Song), chain S l → chainN S l
  | _, [], _ => trivial
  | _, S1 :: r, h => ⟨h.1.toN, chain.toN S1 r h.2⟩

/-- the `Song_Validator` run after every pass rejects (at least) songs one of whose tracks runs
out of stack frames -/
def ValidOK (valid : Song → Bool) : Prop :=
  ∀ s, valid s = true → ∀ id t, s.track? id = some t → perf s t ≠ .error .depth

/-- the validator of the property: every track of the song validates -/
def validAll (s : Song) : Bool :=
  s.tracks.all fun p => match perf s p.2 with | .ok _ => true | .error _ => false

theorem validAll_ok {s : Song} (h : validAll s = true) {id : Nat} {t : List Event} (ht : s.track? id = some t) :
    ∃ items, perf s t = .ok items := by
  have := List.all_eq_true.1 h (id, t) (mem_of_lookup ht)
  simp only at this
  split at this
  · rename_i x hx; exact ⟨x, hx⟩
  · simp at this

theorem validAll_validOK : ValidOK validAll := by
  intro s h id t ht
  obtain ⟨x, hx⟩ := validAll_ok h ht
  rw [hx]; simp

theorem optimize_passes_prefix (valid : Song → Bool) (minScore : Int) :
    ∀ (fuel : Nat) (song : Song) (subId : Int) (acc : List Match) (r : OptResult),
    optimize valid minScore fuel song subId acc = .ok r → ∃ ps, r.passes = acc ++ ps := by
  intro fuel
  induction fuel with
  | zero => intro song subId acc r h; simp [optimize] at h
  | succ fuel ih =>
    intro song subId acc r h
    unfold optimize at h
    obtain ⟨m, _, h⟩ := bind_ok h
    obtain ⟨x, _, h⟩ := bind_ok h
    obtain ⟨s', best, subId'⟩ := x
    simp only at h
    split at h
    · simp only [pure, Except.pure, Except.ok.injEq] at h
      exact ⟨[best], by rw [← h]⟩
    · split at h
      · obtain ⟨ps, hps⟩ := ih _ _ _ _ h
        exact ⟨best :: ps, by rw [hps]; simp⟩
      · simp only [pure, Except.pure, Except.ok.injEq] at h
        exact ⟨[best], by rw [← h]⟩

/-- from the invariant of `find_subroutines` to an extraction step (up to `LOOP_BREAK` params):
the intermediate song `S1` is the original one with every replaced occurrence made an exact copy
of the phrase -/
theorem stepN_of_subInv {song s3 : Song} {Xl : List Event} {subId : Int}
    (hinv : SubInv song Xl (jumpEvent subId) (trackIdOfParam subId) s3)
    (hfresh : song.track? (trackIdOfParam subId) = none)
    (hne : NoEnd Xl) (hbal : scan Xl 0 = some 0) : StepN song s3 := by
  obtain ⟨cX, bX, fX⟩ := forest_of_scan hne hbal
  let j := jumpEvent subId
  let X := parse Xl
  let good : Nat → List Event → List Event → Prop := fun id evs evs1 =>
    (∃ evs3, s3.track? id = some evs3 ∧ ERel X [.ev j] evs1 evs3) ∧ normL evs1 = normL evs
  have hgood : ∀ id evs, song.track? id = some evs → ∃ evs1, good id evs evs1 := by
    intro id evs he
    have hid : id ≠ trackIdOfParam subId := by intro h; rw [h, hfresh] at he; cases he
    rcases hinv.rel id hid with ⟨h1, _⟩ | ⟨evs0, evs', h1, h2, h3, _⟩
    · rw [h1] at he; cases he
    · rw [h1] at he; cases he
      obtain ⟨evs1, g1, g2⟩ := h3.toERel (X := X) fX
      exact ⟨evs1, ⟨evs', h2, g2⟩, g1⟩
  have hgood' : ∀ id evs, ∃ evs1, song.track? id = some evs → good id evs evs1 := by
    intro id evs
    by_cases he : song.track? id = some evs
    · obtain ⟨evs1, h1⟩ := hgood id evs he
      exact ⟨evs1, fun _ => h1⟩
    · exact ⟨evs, fun h => absurd h he⟩
  let f : Nat → List Event → List Event := fun id evs => Classical.choose (hgood' id evs)
  have hf : ∀ id evs, song.track? id = some evs → good id evs (f id evs) :=
    fun id evs he => Classical.choose_spec (hgood' id evs) he
  let S1 : Song := { tracks := song.tracks.map fun p => (p.1, f p.1 p.2) }
  have hS1 : ∀ id, S1.track? id = (song.track? id).map (f id) := fun id => lookup_map_snd _ _ _
  refine ⟨S1, ?_, ?_⟩
  · intro id
    rw [hS1]
    cases he : song.track? id with
    | none => rfl
    | some evs =>
      simp only [Option.map_some, Option.some.injEq]
      exact (hf id evs he).2
  · refine Step.extract X j ⟨cX, bX, jumpEvent_kind subId, ⟨rfl, rfl⟩⟩ ?_ ?_ ?_
    · rw [hS1]; simp only [j]; rw [show (jumpEvent subId).param = subId from rfl, hfresh]; rfl
    · show s3.track? (trackIdOfParam subId) = some (flattenL X)
      rw [fX]; exact hinv.sub
    · intro id evs1 he1
      rw [hS1] at he1
      cases he : song.track? id with
      | none => rw [he] at he1; cases he1
      | some evs =>
        rw [he] at he1
        simp only [Option.map_some, Option.some.injEq] at he1
        rw [← he1]
        exact (hf id evs he).1

theorem validAll_of_ok {song : Song} (hnd : (song.tracks.map (·.1)).Nodup)
    (hok : ∀ id, song.track? id ≠ none → okTrack song id) : validAll song = true := by
  unfold validAll
  rw [List.all_eq_true]
  intro p hp
  have hlk : song.track? p.1 = some p.2 := lookup_of_mem_nodup hnd (by simpa using hp)
  obtain ⟨t, items, ht, hpf⟩ := hok p.1 (by rw [hlk]; simp)
  rw [hlk] at ht
  cases ht
  simp [hpf]

/-- a fresh subroutine id is not called anywhere in a song all of whose tracks validate -/
theorem noJump_of_valid {song : Song} {subId : Int} (hwf : SongWF song) (hval : validAll song = true)
    (hfresh : song.track? (trackIdOfParam subId) = none) {id : Nat} {t : List Event}
    (ht : song.track? id = some t) : ∀ e ∈ t, e ≠ jumpEvent subId := by
  intro e he hej
  obtain ⟨items, hp⟩ := validAll_ok hval ht
  have := jump_target_exists (hwf.track ht).1 hp he (by rw [hej]; exact jumpEvent_kind subId)
  rw [hej] at this
  exact this hfresh

end Ctrmml.C01
