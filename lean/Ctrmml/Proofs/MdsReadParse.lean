/-
  C09, reader tie (6): `Spec/MdsResolve.parseFile` on the serialised container, `headerOf` on the
  exported `seq `, and `streamPos` / `resolve` of stream slots and data slots.
-/
import Ctrmml.Proofs.MdsReadFile
import Ctrmml.Properties.C13
namespace Ctrmml.MdsRead
open Ctrmml Ctrmml.Mds Ctrmml.MdsFile Ctrmml.MdsResolve Tables

/-! ### the `dblk` entries as the reader parses them -/

def entryOfP (nS nM mapped envId : Nat) (dat : List Nat) : Entry :=
  { kind := if mapped < mdsFile_pcmTag then mdsFile_glob else mdsFile_pcmh,
    id := entryId nS nM mapped envId % 2147483648,
    ext := decide (entryId nS nM mapped envId ≥ 2147483648),
    content := nat (toU8 dat) }

theorem entryId_lt (nS nM m e : Nat) : entryId nS nM m e < 4294967296 := by unfold entryId; omega

theorem parseEntry_entryTree (nS nM m e : Nat) (dat : List Nat) :
    parseEntry (entryTree nS nM m e dat) = some (entryOfP nS nM m e dat) := by
  have hrd : rdLe32 (le32 (entryId nS nM m e) ++ toU8 dat) 0 = some (entryId nS nM m e) := by
    have := rdLe32_le32 (entryId nS nM m e) (entryId_lt nS nM m e) [] (toU8 dat)
    simpa using this
  have hdrop : (le32 (entryId nS nM m e) ++ toU8 dat).drop 4 = toU8 dat := by
    rw [show 4 = (le32 (entryId nS nM m e)).length from rfl, List.drop_left]
  unfold entryTree parseEntry entryOfP
  by_cases hc : m < mdsFile_pcmTag
  · simp only [hc, if_true, true_or, hrd, hdrop]
  · simp only [hc, if_false, or_true, if_true, hrd, hdrop]

def entriesOf (nS nM : Nat) (bank : List (List Nat)) (l : List (Nat × Nat)) : List Entry :=
  l.filterMap fun p => (bank[p.1 % (mdsFile_bankMask + 1)]?).map (entryOfP nS nM p.1 p.2)

theorem mapM_parse (nS nM : Nat) (bank : List (List Nat)) : ∀ (l : List (Nat × Nat)) (ts : List Riff.Tree),
    entryTrees nS nM bank l = some ts →
    ts.mapM parseEntry = some (entriesOf nS nM bank l) ∧
      (entriesOf nS nM bank l).map (·.id) = l.map (fun p => entryId nS nM p.1 p.2 % 2147483648)
  | [], ts, h => by
    simp only [entryTrees, Option.some.injEq] at h; subst h
    exact ⟨rfl, rfl⟩
  | (m, e) :: rest, ts, h => by
    simp only [entryTrees] at h
    cases hb : bank[m % (mdsFile_bankMask + 1)]? with
    | none => simp [hb] at h
    | some dat =>
      simp only [hb] at h
      cases hr : entryTrees nS nM bank rest with
      | none => simp [hr] at h
      | some ts' =>
        simp only [hr, Option.map_some, Option.some.injEq] at h
        subst h
        obtain ⟨ih1, ih2⟩ := mapM_parse nS nM bank rest ts' hr
        constructor
        · simp [List.mapM_cons, parseEntry_entryTree, ih1, entriesOf, hb]
        · simp only [entriesOf, List.filterMap_cons, hb, Option.map_some, List.map_cons] at ih2 ⊢
          rw [ih2]; rfl

theorem entriesOf_mem {nS nM : Nat} {bank : List (List Nat)} {l : List (Nat × Nat)} {p : Nat × Nat} {dat : List Nat}
    (hp : p ∈ l) (hd : bank[p.1 % (mdsFile_bankMask + 1)]? = some dat) : entryOfP nS nM p.1 p.2 dat ∈ entriesOf nS nM bank l := by
  unfold entriesOf
  exact List.mem_filterMap.mpr ⟨p, hp, by simp [hd]⟩

theorem nat_toU8 (l : List Nat) (h : ∀ x ∈ l, x < 256) : nat (toU8 l) = l := by
  unfold nat toU8
  rw [List.map_map]
  conv => rhs; rw [← List.map_id l]
  apply List.map_congr_left
  intro x hx
  simp [Nat.mod_eq_of_lt (h x hx)]

/-- **the reader's parse of the exported container** -/
theorem parseFile_getMds {b : Built} {bank : List (List Nat)} {group pcm f : Bytes} (h : getMds b bank group pcm = .ok f)
    (hsmall : ∀ ts, entryTrees b.conv.subList.length b.conv.macroList.length bank (usedSorted b.conv) = some ts →
      (mdsTree (toU8 b.seq) group pcm ts).small) (hbyte : ∀ x ∈ b.seq, x < 256) :
    parseFile f = .ok { version := [MDSDRV_SEQ_VERSION_MAJOR, MDSDRV_SEQ_VERSION_MINOR], group := nat group, seq := b.seq,
                        entries := entriesOf b.conv.subList.length b.conv.macroList.length bank (usedSorted b.conv),
                        pcm := nat pcm } := by
  obtain ⟨ts, hts, _, hk, hser⟩ := getMds_serialize h
  have hwf : (mdsTree (toU8 b.seq) group pcm ts).wf := by
    have hts' : Riff.Tree.wfL ts := by
      apply wfL_of_forall
      intro t ht
      obtain ⟨p, hp | hp⟩ := hk t ht <;> subst hp <;> exact ⟨by decide, by decide⟩
    exact ⟨by decide, by decide, ⟨by decide, by decide⟩, ⟨by decide, by decide⟩, ⟨by decide, by decide⟩,
      ⟨by decide, by decide, hts'⟩, ⟨by decide, by decide⟩, trivial⟩
  obtain ⟨f', hf', hw⟩ := Riff.C13_walk_serialize _ hwf (hsmall ts hts)
  rw [hser] at hf'
  cases hf'
  obtain ⟨hm, _⟩ := mapM_parse _ _ _ _ _ hts
  have n1 : ¬ (Riff.TYPE_RIFF ≠ Riff.TYPE_RIFF ∨ mdsFile_MDS0 ≠ mdsFile_MDS0) := by simp
  have n2 : ¬ (mdsFile_ver ≠ mdsFile_ver ∨ mdsFile_grp ≠ mdsFile_grp ∨ mdsFile_seq ≠ mdsFile_seq ∨ Riff.TYPE_LIST ≠ Riff.TYPE_LIST ∨
      mdsFile_dblk ≠ mdsFile_dblk ∨ mdsFile_pcmd ≠ mdsFile_pcmd) := by simp
  have hv : nat (toU8 [MDSDRV_SEQ_VERSION_MAJOR, MDSDRV_SEQ_VERSION_MINOR]) = [MDSDRV_SEQ_VERSION_MAJOR, MDSDRV_SEQ_VERSION_MINOR] := by
    decide
  simp only [parseFile, hw, mdsTree, shapeOf, n1, n2, if_false, hm, hv, nat_toU8 b.seq hbyte]

/-! ### the header -/

theorem mapM_some {α β} (f : α → Option β) (g : α → β) : ∀ (l : List α), (∀ a ∈ l, f a = some (g a)) → l.mapM f = some (l.map g)
  | [], _ => rfl
  | a :: l, h => by
    simp [List.mapM_cons, h a (by simp), mapM_some f g l (fun x hx => h x (by simp [hx]))]

/-- `headerOf` on a chunk whose header fields read as laid out: base, volume, `n ≥ 1` tracks whose
first stream begins right after `slots` two-byte slots -/
theorem headerOf_of_reads (seq : List Nat) (n vol slots : Nat) (ids starts : Nat → Nat) (hn : 0 < n) (hn2 : n < 256)
    (h0 : Seq.rd16 seq 0 = some (4 + 4 * n)) (h2 : Seq.rd seq 2 = some vol) (h3 : Seq.rd seq 3 = some n)
    (ht : ∀ i < n, ∃ off, Seq.rd seq (4 + 4 * i) = some (ids i) ∧ Seq.rd16 seq (4 + 4 * i + 2) = some off ∧
      4 + 4 * n + off = starts i)
    (hfirst : starts 0 = 4 + 4 * n + 2 * slots) (hlen : 4 + 4 * n + 2 * slots ≤ seq.length) :
    headerOf seq = some { base := 4 + 4 * n, volume := vol, tracks := (List.range n).map (fun i => (ids i, starts i)), slots := slots } := by
  have hts : (List.range n).mapM (fun i => do
      let id ← Seq.rd seq (4 + 4 * i)
      let off ← Seq.rd16 seq (4 + 4 * i + 2)
      pure (id, 4 + 4 * n + off)) = some ((List.range n).map fun i => (ids i, starts i)) := by
    apply mapM_some
    intro i hi
    obtain ⟨off, r1, r2, r3⟩ := ht i (List.mem_range.mp hi)
    simp [r1, r2, r3]
  have htr : Seq.tracksOf seq = some (4 + 4 * n, (List.range n).map fun i => (ids i, starts i)) := by
    simp only [Seq.tracksOf, h0, h3, Option.bind_eq_bind, Option.pure_def, Option.bind_some] at hts ⊢
    rw [hts]; rfl
  obtain ⟨m, rfl⟩ : ∃ m, n = m + 1 := ⟨n - 1, by omega⟩
  have hcond : ¬ (starts 0 < 4 + 4 * (m + 1) ∨ (starts 0 - (4 + 4 * (m + 1))) % 2 ≠ 0 ∨ starts 0 > seq.length) := by
    rw [hfirst]; omega
  have hsl : (starts 0 - (4 + 4 * (m + 1))) / 2 = slots := by rw [hfirst]; omega
  simp only [MdsResolve.headerOf, htr, h2, h3, bind, Option.bind, pure, ne_eq, not_true_eq_false, if_false,
    List.range_succ_eq_map, List.map_cons, hcond, hsl]

/-! ### resolution -/

theorem filter_singleton {α} (f : α → Nat) : ∀ (l : List α), (l.map f).Nodup → ∀ a ∈ l, l.filter (fun x => f x = f a) = [a]
  | [], _, a, ha => by simp at ha
  | x :: l, hnd, a, ha => by
    simp only [List.map_cons, List.nodup_cons] at hnd
    rcases List.mem_cons.mp ha with rfl | ha'
    · have : l.filter (fun x => decide (f x = f a)) = [] := by
        apply List.filter_eq_nil_iff.mpr
        intro y hy hc
        exact hnd.1 (List.mem_map.mpr ⟨y, hy, by simpa using hc⟩)
      simp [List.filter_cons, this]
    · have hne : f x ≠ f a := fun hc => hnd.1 (List.mem_map.mpr ⟨a, ha', hc.symm⟩)
      simp [List.filter_cons, hne, filter_singleton f l hnd.2 a ha']

/-- a slot below every entry id is a stream slot: it resolves to the chunk from its target on -/
theorem resolve_stream (mf : MdsFile) (h : Header) (k off : Nat) (stream : List Nat)
    (hk : k < h.slots) (hids : ∀ e ∈ mf.entries, e.id ≠ k)
    (hrd : Seq.rd16 mf.seq (h.base + 2 * k) = some off) (hat : At mf.seq (h.base + off) stream) (hne : stream ≠ [])
    (hlo : h.base + 2 * h.slots ≤ h.base + off) :
    streamPos mf h k = some (h.base + off) ∧ ∃ rest, resolve mf h (.stream k) = some (stream ++ rest) := by
  have hno : entriesWith mf k = [] := by
    unfold entriesWith
    apply List.filter_eq_nil_iff.mpr
    intro e he hc
    exact hids e he (by simpa using hc)
  obtain ⟨pre, post, hseq, hpre⟩ := hat
  have hlt : h.base + off < mf.seq.length := by
    rw [hseq, ← hpre]
    cases stream with
    | nil => exact absurd rfl hne
    | cons x xs => simp
  have hsp : streamPos mf h k = some (h.base + off) := by
    simp only [streamPos, hk, hno, and_self, if_true, Seq.slotTarget, hrd, Option.map_some]
    rw [Nat.add_comm off h.base]
    simp [hlo, hlt]
  refine ⟨hsp, post, ?_⟩
  simp only [resolve, hsp, Option.map_some]
  rw [hseq, ← hpre, List.drop_left]

/-- a slot that is the id of an entry (ids pairwise distinct) is a data slot: it resolves to that
entry's content -/
theorem resolve_data (mf : MdsFile) (h : Header) (e : Entry) (hk : e.id < h.slots) (he : e ∈ mf.entries)
    (hnd : (mf.entries.map (·.id)).Nodup) :
    entriesWith mf e.id = [e] ∧ resolve mf h (.data e.id) = some e.content := by
  have h1 : entriesWith mf e.id = [e] := by
    unfold entriesWith
    have := filter_singleton (fun x : Entry => x.id) mf.entries hnd e he
    simpa using this
  exact ⟨h1, by simp [resolve, hk, entryOf, h1]⟩

end Ctrmml.MdsRead
