/-
  C09, reader tie (4): the invariant through `encRest` / `encNote` / one event / the whole event
  loop, and the decoder on a converted track (`decode_convertTrack`).
-/
import Ctrmml.Proofs.MdsReadStep
namespace Ctrmml.MdsRead
open Ctrmml Ctrmml.Mds Ctrmml.Seq Ctrmml.SeqWf Ctrmml.MdsResolve Ctrmml.Codec Tables

/-- no instruction of the list is a terminator of the decoder -/
def NoTerm (I : List Ins) : Prop := ∀ i ∈ I, ∀ b r, i = b :: r → isTermOp b = false

theorem NoTerm.snoc {I : List Ins} (h : NoTerm I) {j : Ins} (hj : ∀ b r, j = b :: r → isTermOp b = false) : NoTerm (I ++ [j]) := by
  intro i hi
  rcases List.mem_append.mp hi with hi | hi
  · exact h i hi
  · simp only [List.mem_singleton] at hi; subst hi; exact hj

theorem NoTerm.left {I J : List Ins} (h : NoTerm (I ++ J)) : NoTerm I := fun i hi => h i (List.mem_append_left _ hi)

theorem noTerm_low {b : Nat} (h : b < 0xe0) : isTermOp b = false := by
  simp [isTermOp, mds_FINISH, mds_JUMP, mds_DMFINISH]; omega

theorem shape_mono {nS nM : Nat} {e e' : Enc} {ev : MEv} (sh : Shape nS nM e ev e') : e.out.length ≤ e'.out.length := by
  cases sh with
  | same h => rw [h]; exact Nat.le_refl _
  | rest e1 _ _ _ he1 h => rw [h]; exact (encRest_frame he1).1.length_le
  | note _ _ _ _ h =>
    rw [h]
    have := (encNote_frame e ev.type ev.arg).1.length_le
    simp only [List.length_append] at this; show _ ≤ (encNote e ev.type ev.arg).out.length; omega
  | segno _ h => rw [h]; exact (disambP_prefix e).length_le
  | cmd b r _ _ ho => rw [ho]; simp
  | lpb r _ _ h => rw [h]; exact Nat.le_refl _
  | lpf b r _ _ _ h => omega

theorem encAll_mono (nS nM : Nat) : ∀ (es : List MEv) (e e' : Enc), (∀ ev ∈ es, okEv ev = true) →
    encAll nS nM e es = .ok e' → e.out.length ≤ e'.out.length
  | [], e, e', _, h => by simp only [encAll, Except.ok.injEq] at h; subst h; exact Nat.le_refl _
  | ev :: es, e, e', hok, h => by
    cases h1 : encEv nS nM e ev with
    | error x => simp [encAll, h1] at h
    | ok e1 =>
      simp only [encAll, h1] at h
      have m1 := shape_mono (encEv_shape nS nM (hok ev (by simp)) h1)
      have m2 := encAll_mono nS nM es e1 e' (fun x hx => hok x (by simp [hx])) h
      omega

theorem disambP_breaks (e : Enc) : (disambP e).breaks = e.breaks := by unfold disambP; split <;> rfl

theorem not_bare_full (t l : Nat) : ¬ Bare [t, l] := by rintro ⟨t', h, _⟩; simp at h

/-- the disambiguation step completes the pending note (if any) with its length byte -/
theorem disamb_R {e : Enc} {I : List Ins} (r0 : R0 e.out e.breaks I) (p : Pend e I) :
    ∃ I', R0 (disambP e).out e.breaks I' ∧ ¬ LastBare I' ∧ (∀ s, runI I' s = runI I s) ∧ needLenB (disambP e) = false ∧
      (NoTerm I → NoTerm I') := by
  by_cases hn : needLenB e = true
  · obtain ⟨I0, t, rfl, h1, h2⟩ := p.1.mp hn
    have hl := p.2 hn
    have hm : e.lastNote % 256 = e.lastNote := by omega
    have hd : disambP e = { e with lastType := mds_REST, out := e.out ++ [e.lastNote] } := by simp [disambP, hn, hm]
    refine ⟨I0 ++ [[t, e.lastNote]], by rw [hd]; exact r0.extend h1 h2 hl, ?_, ?_, ?_, ?_⟩
    · rw [lastBare_snoc]; exact not_bare_full _ _
    · intro s; rw [runI_snoc, runI_snoc, stepI_full h1 h2]
    · rw [hd]; simp [needLenB, noteish, mds_REST, mds_TIE]
    · intro hnt
      refine hnt.left.snoc ?_
      intro b r hb; injection hb with hb _; subst hb; exact noTerm_low h2
  · have hd : disambP e = e := by simp [disambP, hn]
    rw [hd]
    exact ⟨I, r0, fun hb => hn (p.1.mpr hb), fun _ => rfl, by simpa using hn, fun h => h⟩

theorem not_bare_low {b : Nat} (h : b ≤ 0x80) : ¬ Bare [b] := by
  rintro ⟨t, ht, h1, _⟩; injection ht with ht _; omega

theorem pend_false {e : Enc} {I : List Ins} (h1 : needLenB e = false) (h2 : ¬ LastBare I) : Pend e I :=
  ⟨⟨fun h => by rw [h1] at h; exact absurd h (by decide), fun h => absurd h h2⟩, fun h => by rw [h1] at h; exact absurd h (by decide)⟩

theorem restLoop_R : ∀ (fuel : Nat) (e : Enc) (arg : Nat) (e' : Enc) (a : Nat) (I : List Ins),
    restLoop fuel e arg = .ok (e', a) → R0 e.out e.breaks I → Pend e I →
    ∃ I', R0 e'.out e'.breaks I' ∧ Pend e' I' ∧ (∀ s, runI I' s = runI I s) ∧ (NoTerm I → NoTerm I') := by
  intro fuel
  induction fuel with
  | zero =>
    intro e arg e' a I h r0 p
    simp [restLoop] at h; obtain ⟨rfl, rfl⟩ := h
    exact ⟨I, r0, p, fun _ => rfl, fun h => h⟩
  | succ f ih =>
    intro e arg e' a I h r0 p
    rw [restLoop_succ] at h
    by_cases hc : arg ≥ 128
    · simp only [hc, if_true] at h
      obtain ⟨I1, r1, nb1, run1, _, nt1⟩ := disamb_R r0 p
      have r2 : R0 ((disambP e).out ++ [0x7f]) (disambP e).breaks (I1 ++ [[0x7f]]) :=
        r1.push (.rest 0x7f (by omega)) (by simp) (fun hb => absurd hb nb1) (by rw [disambP_breaks]) (bytes1 (by decide))
      have p2 : Pend { disambP e with out := (disambP e).out ++ [0x7f], lastRest := 0x7f } (I1 ++ [[0x7f]]) :=
        pend_false (by simp [needLenB, lastGt80_concat]) (by rw [lastBare_snoc]; exact not_bare_low (by omega))
      obtain ⟨I3, r3, p3, run3, nt3⟩ := ih _ _ _ _ _ h r2 p2
      refine ⟨I3, r3, p3, fun s => ?_, fun hnt => nt3 ((nt1 hnt).snoc ?_)⟩
      · rw [run3, runI_snoc, stepI_neutral (by simp [neutralOp]), run1]
      · intro b r hb; injection hb with hb _; subst hb; decide
    · simp only [hc, if_false, Except.ok.injEq, Prod.mk.injEq] at h
      obtain ⟨rfl, rfl⟩ := h
      exact ⟨I, r0, p, fun _ => rfl, fun h => h⟩

theorem encRest_R {e e' : Enc} {n : Nat} {I : List Ins} (hn : n ≤ 65535) (h : encRest e n = .ok e')
    (r0 : R0 e.out e.breaks I) (p : Pend e I) :
    ∃ I', R0 e'.out e'.breaks I' ∧ ¬ LastBare I' ∧ (∀ s, runI I' s = runI I s) ∧ (NoTerm I → NoTerm I') := by
  obtain ⟨e1, a, hrl⟩ := restLoop_ok 512 e (n - 1)
  obtain ⟨I1, r1, p1, run1, nt1⟩ := restLoop_R 512 e (n - 1) e1 a I hrl r0 p
  unfold encRest at h
  rw [hrl] at h
  simp only at h
  by_cases hc : a = e1.lastRest
  · simp only [hc, if_true, Except.ok.injEq] at h
    subst h
    refine ⟨I1 ++ [[mds_REST]], r1.push (.rest _ (by decide)) (by simp) (fun _ => by simp [HeadOk, mds_REST]) rfl (bytes1 (by decide)), ?_, ?_, ?_⟩
    · rw [lastBare_snoc]; exact not_bare_low (by decide)
    · intro s; rw [runI_snoc, stepI_neutral (by simp [neutralOp, mds_REST]), run1]
    · intro hnt; refine (nt1 hnt).snoc ?_
      intro b r hb; injection hb with hb _; subst hb; decide
  · simp only [hc, if_false, disamb_eq, Except.ok.injEq] at h
    subst h
    have ha : a < 128 := restLoop_lt 512 e (n - 1) e1 a hrl (by omega)
    have hm : a % 256 = a := by omega
    obtain ⟨I2, r2, nb2, run2, _, nt2⟩ := disamb_R r1 p1
    refine ⟨I2 ++ [[a % 256]], ?_, ?_, ?_, ?_⟩
    · exact r2.push (.rest _ (by omega)) (by simp) (fun hb => absurd hb nb2) (by rw [disambP_breaks]) (bytes1 (by omega))
    · rw [lastBare_snoc]; exact not_bare_low (by omega)
    · intro s; rw [runI_snoc, stepI_neutral (by simp [neutralOp]; omega), run2, run1]
    · intro hnt; refine (nt2 (nt1 hnt)).snoc ?_
      intro b r hb; injection hb with hb _; subst hb; exact noTerm_low (by omega)

theorem tie_bare : InsOk [mds_TIE] := .bare _ (by decide) (by decide)

theorem noteLoop_R : ∀ (fuel : Nat) (e : Enc) (arg : Nat) (e' : Enc) (a : Nat) (I : List Ins),
    noteLoop fuel e arg = (e', a) → arg < 128 * (fuel + 1) → R0 e.out e.breaks I → LastBare I →
    ∃ I', R0 e'.out e'.breaks I' ∧ LastBare I' ∧ a < 128 ∧ (∀ s, runI I' s = runI I s) ∧ (NoTerm I → NoTerm I') := by
  intro fuel
  induction fuel with
  | zero =>
    intro e arg e' a I h hlt r0 lb
    rw [noteLoop] at h
    simp only [Prod.mk.injEq] at h
    obtain ⟨rfl, rfl⟩ := h
    exact ⟨I, r0, lb, by omega, fun _ => rfl, fun h => h⟩
  | succ f ih =>
    intro e arg e' a I h hlt r0 lb
    rw [noteLoop_succ] at h
    by_cases hc : arg ≥ 128
    · simp only [hc, if_true] at h
      have htie : ∀ b r, [mds_TIE] = b :: r → isTermOp b = false := by
        intro b r hb; injection hb with hb _; subst hb; decide
      by_cases hl : e.lastNote ≠ 0x7f
      · rw [if_pos hl] at h
        obtain ⟨I0, t, rfl, h1, h2⟩ := lb
        have r1 := r0.extend h1 h2 (l := 0x7f) (by omega)
        have r2 : R0 (e.out ++ [0x7f] ++ [mds_TIE]) e.breaks (I0 ++ [[t, 0x7f]] ++ [[mds_TIE]]) :=
          r1.push tie_bare (by simp) (fun _ => by simp [HeadOk, mds_TIE]) rfl (bytes1 (by decide))
        obtain ⟨I3, r3, lb3, ha, run3, nt3⟩ := ih { e with lastNote := 0x7f, out := e.out ++ [0x7f] ++ [mds_TIE] } _ _ _ _ h
          (by omega) r2 ((lastBare_snoc _ _).mpr ⟨mds_TIE, rfl, by decide, by decide⟩)
        refine ⟨I3, r3, lb3, ha, fun s => ?_, fun hnt => nt3 ?_⟩
        · rw [run3, runI_snoc, stepI_neutral (by simp [neutralOp, mds_TIE]), runI_snoc, runI_snoc, stepI_full h1 h2]
        · refine NoTerm.snoc (hnt.left.snoc ?_) htie
          intro b r hb; injection hb with hb _; subst hb; exact noTerm_low h2
      · rw [if_neg hl] at h
        have r2 : R0 (e.out ++ [mds_TIE]) e.breaks (I ++ [[mds_TIE]]) :=
          r0.push tie_bare (by simp) (fun _ => by simp [HeadOk, mds_TIE]) rfl (bytes1 (by decide))
        obtain ⟨I3, r3, lb3, ha, run3, nt3⟩ := ih { e with lastNote := 0x7f, out := e.out ++ [mds_TIE] } _ _ _ _ h
          (by omega) r2 ((lastBare_snoc _ _).mpr ⟨mds_TIE, rfl, by decide, by decide⟩)
        refine ⟨I3, r3, lb3, ha, fun s => ?_, fun hnt => nt3 (hnt.snoc htie)⟩
        rw [run3, runI_snoc, stepI_neutral (by simp [neutralOp, mds_TIE])]
    · simp only [hc, if_false, Prod.mk.injEq] at h
      obtain ⟨rfl, rfl⟩ := h
      exact ⟨I, r0, lb, by omega, fun _ => rfl, fun h => h⟩

theorem getLast_of_flat {I0 : List Ins} {t : Nat} {out : List Nat} (h : (I0 ++ [[t]]).flatten = out) : out.getLast? = some t := by
  rw [← h]; simp

theorem encNote_R {e : Enc} {ty n : Nat} {I : List Ins} (h1 : mds_TIE ≤ ty) (h2 : ty < mds_SLR) (hn : n ≤ 65535)
    (r0 : R0 e.out e.breaks I) :
    ∃ I', R0 (encNote e ty n).out (encNote e ty n).breaks I' ∧ Pend { encNote e ty n with lastType := ty } I' ∧
      (∀ s, runI I' s = stepI [ty] (runI I s)) ∧ (NoTerm I → NoTerm I') := by
  have g1 : 0x81 ≤ ty := h1
  have g2 : ty < 0xe0 := h2
  obtain ⟨e1, a, hnl, henc⟩ := encNote_eq e ty n
  have r1 : R0 (e.out ++ [ty]) e.breaks (I ++ [[ty]]) :=
    r0.push (.bare ty g1 g2) (by simp) (fun _ => by simp only [HeadOk]; omega) rfl (bytes1 (by omega))
  obtain ⟨I2, r2, lb2, ha, run2, nt2⟩ := noteLoop_R 512 { e with out := e.out ++ [ty] } (n - 1) e1 a (I ++ [[ty]]) hnl
    (by omega) r1 ((lastBare_snoc _ _).mpr ⟨ty, rfl, g1, g2⟩)
  have hrun : ∀ s, runI I2 s = stepI [ty] (runI I s) := fun s => by rw [run2, runI_snoc]
  have hnt : NoTerm I → NoTerm I2 := fun h => nt2 (h.snoc (by
    intro b r hb; injection hb with hb _; subst hb; exact noTerm_low g2))
  rw [henc]
  by_cases hc : a ≠ e1.lastNote
  · rw [if_pos hc]
    have hm : a % 256 = a := by omega
    rw [hm]
    obtain ⟨I0, t, rfl, t1, t2⟩ := lb2
    refine ⟨I0 ++ [[t, a]], r2.extend t1 t2 ha, ?_, fun s => ?_, fun h => ?_⟩
    · refine pend_false ?_ (by rw [lastBare_snoc]; exact not_bare_full _ _)
      have : ¬ a > 128 := by omega
      simp [needLenB, lastGt80_concat, this]
    · rw [runI_snoc, stepI_full t1 t2, ← runI_snoc, hrun]
    · refine (hnt h).left.snoc ?_
      intro b r hb; injection hb with hb _; subst hb; exact noTerm_low t2
  · rw [if_neg hc]
    have hc' : a = e1.lastNote := by simpa using hc
    refine ⟨I2, r2, ?_, hrun, hnt⟩
    obtain ⟨I0, t, rfl, t1, t2⟩ := lb2
    have hlast := getLast_of_flat r2.flat
    have hneed : needLenB { e1 with lastType := ty } = true := by
      have b1 : mds_TIE ≤ ty := h1
      have b3 : t > 128 := by omega
      simp [needLenB, noteish, lastGt80, hlast, b1, h2, b3]
    exact ⟨⟨fun _ => ⟨I0, t, rfl, t1, t2⟩, fun _ => hneed⟩, fun _ => by show e1.lastNote < 128; omega⟩

theorem not_bare_cmd {b : Nat} {r : List Nat} (h : b ≥ 0xe0) : ¬ Bare (b :: r) := by
  rintro ⟨t, ht, _, h2⟩; injection ht with ht _; omega

theorem brkCmd_ok (off : Nat) (hoff : off < 65536) : ∃ cb cr, brkCmd off = cb :: cr ∧ cb ≥ 0xe0 ∧ InsOk (brkCmd off) ∧ neutralOp cb ∧
    isTermOp cb = false ∧ ∀ x ∈ brkCmd off, x < 256 := by
  unfold brkCmd; split
  · exact ⟨mds_LPB, [off], rfl, by decide, .cmd _ _ (by decide) (by show cmdLen _ = some 2; decide), by simp [neutralOp], by decide,
      bytes2 (by decide) (by omega)⟩
  · exact ⟨mds_LPBL, [off / 256, off % 256], rfl, by decide, .cmd _ _ (by decide) (by show cmdLen _ = some 3; decide),
      by simp [neutralOp], by decide, bytes3 (by decide) (by omega) (by omega)⟩

/-- **one iteration of `convert_track` on the instruction list** -/
theorem shape_R {nS nM : Nat} {e e' : Enc} {ev : MEv} {I : List Ins} (sh : Shape nS nM e ev e') (hlen : e'.out.length < 65536)
    (r0 : R0 e.out e.breaks I) (p : Pend e I) :
    ∃ I', R0 e'.out e'.breaks I' ∧ Pend e' I' ∧ (∀ s, runI I' s = stepI (evIns nS nM ev) (runI I s)) ∧
      e'.breaks.length = dstep ev.type e.breaks.length ∧ (isTermOp ev.type = false → NoTerm I → NoTerm I') := by
  cases sh with
  | same h hst h1 h2 =>
    subst h
    exact ⟨I, r0, p, fun s => (hst _).symm, by simp [dstep, h1, h2], fun _ h => h⟩
  | rest e1 hty ha1 ha2 he1 h =>
    subst h
    obtain ⟨I1, r1, nb1, run1, nt1⟩ := encRest_R ha2 he1 r0 p
    have hins : evIns nS nM ev = [mds_REST] := by
      have : ev.arg ≠ 0 := by omega
      simp [evIns, hty, mds_REST, mds_SLR, this]
    refine ⟨I1, r1, pend_false (by simp [needLenB, noteish, mds_REST, mds_TIE]) nb1, fun s => ?_, ?_, fun _ => nt1⟩
    · rw [run1, hins, stepI_neutral (by simp [neutralOp, mds_REST])]
    · show e1.breaks.length = _
      rw [(encRest_frame he1).2.1, hty]; simp [dstep, mds_REST, mds_LP, mds_LPF]
  | note h1 h2 ha1 ha2 h =>
    subst h
    obtain ⟨I1, r1, p1, run1, nt1⟩ := encNote_R (n := ev.arg) h1 h2 ha2 r0
    have hins : evIns nS nM ev = [ev.type] := by
      have a1 : ev.arg ≠ 0 := by omega
      have a2 : mds_REST ≤ ev.type := by simp [mds_REST, mds_TIE] at *; omega
      simp [evIns, h2, a1, a2]
    refine ⟨I1, r1, p1, fun s => by rw [run1, hins], ?_, fun _ => nt1⟩
    show (encNote e ev.type ev.arg).breaks.length = _
    rw [(encNote_frame e ev.type ev.arg).2.1]
    have : ev.type ≠ mds_LP ∧ ev.type ≠ mds_LPF := by simp [mds_LP, mds_LPF, mds_SLR] at *; omega
    simp [dstep, this.1, this.2]
  | segno hty h =>
    subst h
    obtain ⟨I1, r1, nb1, run1, _, nt1⟩ := disamb_R r0 p
    have hins : evIns nS nM ev = [] := by simp [evIns, hty, mds_SEGNO, mds_SLR, mds_REST]
    refine ⟨I1, r1, pend_false (by simp [afterSegno, needLenB, noteish, mds_SEGNO, mds_TIE]) nb1, fun s => ?_, ?_, fun _ => nt1⟩
    · rw [run1, hins]; rfl
    · show e.breaks.length = _; rw [hty]; simp [dstep, mds_SEGNO, mds_LP, mds_LPF]
  | cmd b r hge hok ho ht hbr hd hst hbe hby =>
    refine ⟨I ++ [b :: r], ?_, pend_false (needLenB_cmd ht) (by rw [lastBare_snoc]; exact not_bare_cmd hge), fun s => ?_, hd, fun hnt h => ?_⟩
    · rw [ho]; exact r0.push hok (by simp) (fun _ => by simp only [HeadOk]; omega) hbr hby
    · rw [runI_snoc, hst]
    · refine h.snoc ?_
      intro b' r' hb; injection hb with hb _; subst hb; rw [hbe]; exact hnt
  | lpb r hty hb h =>
    subst h
    have hl : e.out.length % 65536 = e.out.length := Nat.mod_eq_of_lt hlen
    have hins : evIns nS nM ev = [mds_LPB] := by
      simp [evIns, hty, mds_LPB, mds_JUMP, mds_PEG, mds_PCM, mds_INS, mds_MTAB, mds_SLR, byteArgOps, mds_PAT, mds_VOL, mds_VOLM, mds_TRS,
        mds_TRSM, mds_DTN, mds_PTA, mds_PAN, mds_LFO, mds_FLG, mds_DMFINISH, mds_COMM, mds_TEMPO, mds_PCMRATE, mds_PCMMODE]
    rw [hb] at r0
    refine ⟨I ++ [[]], ?_, pend_false (needLenB_cmd (show (atLPB e r).lastType ≥ 0xe0 by show mds_LPB ≥ 224; decide))
      (by rw [lastBare_snoc]; exact not_bare_nil), fun s => ?_, ?_, fun _ hnt => hnt.snoc (by intro b r hb; cases hb)⟩
    · show R0 e.out (e.out.length % 65536 :: r) _
      rw [hl]; exact r0.hole
    · rw [runI_snoc, hins, stepI_neutral (by simp [neutralOp])]; rfl
    · show (e.out.length % 65536 :: r).length = _
      rw [hb, hty]; simp [dstep, mds_LPB, mds_LP, mds_LPF]
  | lpf b r hty hb hb0 hgrow henc =>
    obtain ⟨ty, arg⟩ := ev
    simp only at hty; subst hty
    rw [hb] at r0
    obtain ⟨A, B, hI, hout, hAl, hpatch⟩ := r0.patch hb0
    have hbr : e.breaks = A.flatten.length :: r := by rw [hb, hAl]
    have h2 := encEv_lpf_break nS nM e arg A.flatten B.flatten r hout hbr (by rw [hAl]; exact hb0) (by omega)
    rw [h2] at henc; injection henc with henc; subst henc
    have hoffb : B.flatten.length + 2 < 65536 := by
      have := hlen
      simp only [patched, List.length_append, List.length_cons, List.length_nil] at this
      omega
    obtain ⟨cb, cr, hc, hcge, hcok, hcn, hct, hcby⟩ := brkCmd_ok (B.flatten.length + 2) hoffb
    have hins : evIns nS nM ⟨mds_LPF, arg⟩ = [mds_LPF] := by
      simp [evIns, mds_LPF, mds_JUMP, mds_PEG, mds_PCM, mds_INS, mds_MTAB, mds_SLR, byteArgOps, mds_PAT, mds_VOL, mds_VOLM, mds_TRS,
        mds_TRSM, mds_DTN, mds_PTA, mds_PAN, mds_LFO, mds_FLG, mds_DMFINISH, mds_COMM, mds_TEMPO, mds_PCMRATE, mds_PCMMODE]
    refine ⟨A ++ brkCmd (B.flatten.length + 2) :: B ++ [[mds_LPF, arg % 256]], hpatch _ cb cr hc hcge hcok hcby (arg % 256) (Nat.mod_lt _ (by decide)),
      pend_false (needLenB_cmd (show (patched e A.flatten B.flatten arg r).lastType ≥ 0xe0 by show mds_LPF ≥ 224; decide))
        (by rw [lastBare_snoc]; exact not_bare_cmd (by decide)), fun s => ?_, ?_, fun _ hnt => ?_⟩
    · rw [hins, hI, runI_snoc, stepI_neutral (by simp [neutralOp]), stepI_neutral (by simp [neutralOp]), runI_append, runI_append,
        runI_cons, runI_cons, hc, stepI_neutral hcn]
      rfl
    · show r.length = _
      rw [hb]; simp [dstep, mds_LPF, mds_LP]
    · rw [hI] at hnt
      intro i hi
      simp only [List.mem_append, List.mem_cons, List.mem_nil_iff, or_false] at hi
      rcases hi with (hi | rfl | hi) | rfl
      · exact hnt i (by simp [hi])
      · intro b' r' hb'; rw [hc] at hb'; injection hb' with hb' _; subst hb'; exact hct
      · exact hnt i (by simp [hi])
      · intro b' r' hb'; injection hb' with hb' _; subst hb'; decide

/-- **the whole event loop** -/
theorem encAll_R (nS nM : Nat) : ∀ (es : List MEv) (e e' : Enc) (I : List Ins), (∀ ev ∈ es, okEv ev = true) →
    encAll nS nM e es = .ok e' → e'.out.length < 65536 → R0 e.out e.breaks I → Pend e I →
    ∃ I', R0 e'.out e'.breaks I' ∧ Pend e' I' ∧ (∀ s, runI I' s = runI (es.map (evIns nS nM)) (runI I s)) ∧
      e'.breaks.length = es.foldl (fun d ev => dstep ev.type d) e.breaks.length ∧
      ((∀ ev ∈ es, isTermOp ev.type = false) → NoTerm I → NoTerm I')
  | [], e, e', I, _, h, _, r0, p => by
    simp only [encAll, Except.ok.injEq] at h; subst h
    exact ⟨I, r0, p, fun _ => rfl, rfl, fun _ h => h⟩
  | ev :: es, e, e', I, hok, h, hlen, r0, p => by
    cases h1 : encEv nS nM e ev with
    | error x => simp [encAll, h1] at h
    | ok e1 =>
      simp only [encAll, h1] at h
      have hm := encAll_mono nS nM es e1 e' (fun x hx => hok x (by simp [hx])) h
      obtain ⟨I1, r1, p1, run1, d1, nt1⟩ := shape_R (encEv_shape nS nM (hok ev (by simp)) h1) (by omega) r0 p
      obtain ⟨I2, r2, p2, run2, d2, nt2⟩ := encAll_R nS nM es e1 e' I1 (fun x hx => hok x (by simp [hx])) h hlen r1 p1
      refine ⟨I2, r2, p2, fun s => ?_, ?_, fun hnt hI => nt2 (fun x hx => hnt x (by simp [hx])) (nt1 (hnt ev (by simp)) hI)⟩
      · rw [run2, run1]; rfl
      · rw [d2, d1]; rfl

/-- **the converted track consists of bytes** (fragment `okEv`, stream shorter than 64 KiB) -/
theorem convertTrack_bytes (nS nM : Nat) (es : List MEv) (hok : ∀ ev ∈ es, okEv ev = true) {bytes : List Nat}
    (h : convertTrack nS nM es = .ok bytes) (hlen : bytes.length < 65536) : ∀ x ∈ bytes, x < 256 := by
  unfold convertTrack at h
  cases h0 : encAll nS nM {} es with
  | error x => simp [h0, Except.map] at h
  | ok e' =>
    simp only [h0, Except.map, Except.ok.injEq] at h
    obtain ⟨I, r, _⟩ := encAll_R nS nM es {} e' [] hok h0 (by rw [h]; exact hlen) r0_init pend_init
    rw [← h]; exact r.bytes

/-- what the reader-side decoder collects from the stream of an event list: its own reading
(`stepI`) of one instruction `evIns` per event -/
def opsOf (nS nM : Nat) (es : List MEv) (drum : Bool) : List Op := (runI (es.map (evIns nS nM)) (drum, [])).2.reverse

/-- the fragment of the reader tie: the list ends with its only terminator, all events have a
defined encoding, loops are balanced -/
def Frag (es : List MEv) : Prop :=
  ∃ body t, es = body ++ [t] ∧ (∀ ev ∈ body, okEv ev = true ∧ isTermOp ev.type = false) ∧
    (okEv t = true ∧ isTermOp t.type = true) ∧ balanced es = true

theorem fragB_sound {es : List MEv} (h : fragB es = true) : Frag es := by
  unfold fragB at h
  cases hl : es.getLast? with
  | none => simp [hl] at h
  | some t =>
    simp only [hl, Bool.and_eq_true, List.all_eq_true, Bool.not_eq_eq_eq_not, Bool.not_true] at h
    obtain ⟨⟨⟨h1, h2⟩, h3⟩, h4⟩ := h
    have hes : es = es.dropLast ++ [t] := by
      have hne : es ≠ [] := by intro hc; rw [hc] at hl; simp at hl
      have := List.dropLast_concat_getLast hne
      rw [List.getLast?_eq_getLast hne] at hl
      injection hl with hl; rw [hl] at this; exact this.symm
    exact ⟨es.dropLast, t, hes, fun ev hev => h1 ev hev, ⟨h2, h3⟩, h4⟩

/-- a converted list that ends with a terminator is not empty -/
theorem convertTrack_ne (nS nM : Nat) (body : List MEv) (t : MEv) (ht : okEv t = true ∧ isTermOp t.type = true)
    {bytes : List Nat} (h : convertTrack nS nM (body ++ [t]) = .ok bytes) : bytes ≠ [] := by
  unfold convertTrack at h
  cases h0 : encAll nS nM {} (body ++ [t]) with
  | error x => simp [h0, Except.map] at h
  | ok e' =>
    simp only [h0, Except.map, Except.ok.injEq] at h
    rw [encAll_append] at h0
    cases h1 : encAll nS nM {} body with
    | error x => simp [h1] at h0
    | ok e1 =>
      simp only [h1] at h0
      cases h2 : encEv nS nM e1 t with
      | error x => simp [encAll, h2] at h0
      | ok e2 =>
        simp only [encAll, h2, Except.ok.injEq] at h0
        subst h0
        cases encEv_shape nS nM ht.1 h2 with
        | same _ _ _ _ hnt => rw [ht.2] at hnt; cases hnt
        | rest _ hty => rw [hty] at ht; exact absurd ht.2 (by decide)
        | note _ h2' =>
          have := ht.2
          simp [isTermOp, mds_FINISH, mds_JUMP, mds_DMFINISH, mds_SLR] at this h2'; omega
        | segno hty => rw [hty] at ht; exact absurd ht.2 (by decide)
        | lpb _ hty => rw [hty] at ht; exact absurd ht.2 (by decide)
        | lpf _ _ hty => rw [hty] at ht; exact absurd ht.2 (by decide)
        | cmd b r _ _ ho => rw [← h, ho]; simp

/-- **the decoder on a converted track**: for an event list `body ++ [t]` of the fragment `okEv`
whose only terminator (`FINISH` / `JUMP` / `DMFINISH`) is its last event, with balanced loops and
a stream shorter than 64 KiB, `decodeStream` started at the stream — wherever it lies in the chunk
— decodes instruction by instruction up to exactly the end of the stream and returns exactly
`opsOf`. -/
theorem decode_convertTrack (nS nM : Nat) (body : List MEv) (t : MEv)
    (hb : ∀ ev ∈ body, okEv ev = true ∧ isTermOp ev.type = false) (ht : okEv t = true ∧ isTermOp t.type = true)
    (hbal : balanced (body ++ [t]) = true) {bytes : List Nat} (h : convertTrack nS nM (body ++ [t]) = .ok bytes)
    (hlen : bytes.length < 65536) (pre post : List Nat) (drum : Bool) (fuel : Nat) (hf : fuel ≥ bytes.length + 1) :
    decodeStream (pre ++ (bytes ++ post)) fuel pre.length drum [] =
      some (opsOf nS nM (body ++ [t]) drum, pre.length + bytes.length) := by
  unfold convertTrack at h
  cases h0 : encAll nS nM {} (body ++ [t]) with
  | error x => simp [h0, Except.map] at h
  | ok e' =>
    simp only [h0, Except.map, Except.ok.injEq] at h
    rw [encAll_append] at h0
    cases h1 : encAll nS nM {} body with
    | error x => simp [h1] at h0
    | ok e1 =>
      simp only [h1] at h0
      cases h2 : encEv nS nM e1 t with
      | error x => simp [encAll, h2] at h0
      | ok e2 =>
        simp only [encAll, h2, Except.ok.injEq] at h0
        subst h0
        have sh2 := encEv_shape nS nM ht.1 h2
        have hm2 := shape_mono sh2
        rw [h] at hm2
        obtain ⟨I1, r1, p1, run1, d1, nt1⟩ := encAll_R nS nM body {} e1 [] (fun ev hev => (hb ev hev).1) h1 (by omega) r0_init pend_init
        have nt1' : NoTerm I1 := nt1 (fun ev hev => (hb ev hev).2) (by intro i hi; cases hi)
        -- the terminator is a command
        cases sh2 with
        | same _ _ _ _ hnt => rw [ht.2] at hnt; cases hnt
        | rest _ hty => rw [hty] at ht; exact absurd ht.2 (by decide)
        | note _ h2' =>
          have := ht.2
          simp [isTermOp, mds_FINISH, mds_JUMP, mds_DMFINISH, mds_SLR] at this h2'; omega
        | segno hty => rw [hty] at ht; exact absurd ht.2 (by decide)
        | lpb _ hty => rw [hty] at ht; exact absurd ht.2 (by decide)
        | lpf _ _ hty => rw [hty] at ht; exact absurd ht.2 (by decide)
        | cmd b r hge hok ho hlt hbr hd hst hbe hby =>
          have r2 : R0 e2.out e2.breaks (I1 ++ [b :: r]) := by
            rw [ho]; exact r1.push hok (by simp) (fun _ => by simp only [HeadOk]; omega) hbr hby
          -- no holes left
          have hdepth : e2.breaks.length = 0 := by
            rw [hd, d1]
            have := hbal
            simp only [balanced, List.foldl_append, List.foldl_cons, List.foldl_nil, beq_iff_eq] at this
            exact this
          have hbr0 : e2.breaks = [] := List.length_eq_zero_iff.mp hdepth
          have hholes : holePos 0 (I1 ++ [b :: r]) = [] := by rw [r2.holes, hbr0]; rfl
          have hnh := nohole_of_holePos _ _ hholes
          have hall : ∀ i ∈ I1, InsOk i ∧ i ≠ [] ∧ ∀ b r, i = b :: r → isTermOp b = false :=
            fun i hi => ⟨r1.ok i hi, hnh i (List.mem_append_left _ hi), nt1' i hi⟩
          have hfl : (I1 ++ [b :: r]).flatten = bytes := by rw [r2.flat, h]
          have hI1len : I1.length ≤ bytes.length := by
            have : ∀ (L : List Ins), (∀ i ∈ L, i ≠ []) → L.length ≤ L.flatten.length := by
              intro L
              induction L with
              | nil => intro _; simp
              | cons a L ih =>
                intro hL
                have ha := hL a (by simp)
                have := ih (fun i hi => hL i (by simp [hi]))
                cases a with
                | nil => exact absurd rfl ha
                | cons x xs => simp only [List.length_cons, List.flatten_cons, List.length_append]; omega
            have := this (I1 ++ [b :: r]) hnh
            rw [hfl] at this; simp at this; omega
          have hdec := decode_run I1 (b :: r) pre post drum [] fuel hall hok ⟨b, r, rfl, by rw [hbe]; exact ht.2⟩ r2.chain (by omega)
          rw [hfl] at hdec
          rw [hdec]
          congr 2
          unfold opsOf
          have hr := run1 (drum, [])
          rw [runI_nil] at hr
          rw [List.map_append, runI_append, ← hr, List.map_cons, List.map_nil, runI_cons, runI_nil, hst]

end Ctrmml.MdsRead
