/-
  C01, layers 2–3: what the executable model of the optimiser (`Model/Optimizer.lean`) does is
  one of the rewrites proved sound in `Proofs/Rewrite.lean`.

  * `findMatchLength_spec` — what a returned `(len, loopLen)` guarantees;
  * `applyMatch_loop_shape` — the loop branch of `applyMatch` on a match that satisfies the
    conditions `find_match` checks (`LoopOK`) produces `pre ++ [ A0 / A1 ](k+2) ++ post` from a
    track that is, up to `LOOP_BREAK` params, `pre ++ A·A^k·A0 ++ post`;
  * the `forIn` loops of `findMatch` / `findBestMatch` establish `LoopOK`.
  The statements that mention `Step` are in `Properties/C01.lean`.
-/
import Ctrmml.Proofs.OptFml
namespace Ctrmml.OptSteps
open Ctrmml Ctrmml.Tree Ctrmml.Expand Ctrmml.Rewrite Ctrmml.Opt Tables

/-! ## the loop branch of `apply_match` -/

def lsEv : Event := { type := ev_LOOP_START, param := 0, on := 0, off := 0 }
def lbEv : Event := { type := ev_LOOP_BREAK, param := 0, on := 0, off := 0 }
def leEv (n : Int) : Event := { type := ev_LOOP_END, param := n, on := 0, off := 0 }

/-- the track `apply_match` writes in its loop branch -/
def foldedTrack (src : List Event) (p q L : Nat) : List Event :=
  let length := q - p
  let repeats0 := L / length + 1
  let breakPoint := L % length
  let repeats := if breakPoint ≠ 0 then repeats0 + 1 else repeats0
  let evs := src.take q ++ src.drop (q + L)
  let evs := ins evs (p + length) (leEv (wrap16 repeats))
  let evs := if breakPoint ≠ 0 then ins evs (p + breakPoint) lbEv else evs
  ins evs p lsEv

/-- the loop branch of `apply_match` writes the fold of the CAPPED loop length (repair of D2) -/
theorem applyMatch_loop_eq {song : Song} {m : SAMap} {bm : Match} {subId : Int} {src : List Event}
    (hsrc : song.track? bm.trackId = some src) (hbr : ¬ bm.loopScore < bm.subScore) :
    applyMatch song m bm subId =
      .ok (setTrack song bm.trackId (foldedTrack src bm.position bm.loopPosition
        (capLoopLength (bm.loopPosition - bm.position) bm.loopLength)), m, subId) := by
  unfold applyMatch
  simp only [hsrc, hbr, if_false]
  rfl

/-! ### the cap of the loop count (`max_loop_count`, repair of D2) -/

theorem maxLoopCount_eq : maxLoopCount = 255 := rfl
theorem maxFold_eq : maxFold = 254 := rfl

/-- the two cases of the cap: the fold fits (`L / n + 1 (+1) ≤ 255`) and is left alone, or it is
shortened to 254 whole repetitions, which is strictly less than what was matched -/
theorem capLoopLength_cases {n : Nat} (L : Nat) (hn : 0 < n) :
    (capLoopLength n L = L ∧ (L / n < 254 ∨ (L / n = 254 ∧ L % n = 0))) ∨
    (capLoopLength n L = 254 * n ∧ 254 * n < L) := by
  unfold capLoopLength
  rw [maxFold_eq]
  have h := Nat.div_add_mod L n
  split
  · rename_i hc
    right
    refine ⟨rfl, ?_⟩
    rcases hc with hc | ⟨hc, hr⟩
    · have h1 : n * 255 ≤ n * (L / n) := Nat.mul_le_mul_left n hc
      omega
    · rw [hc] at h
      have : 0 < L % n := Nat.pos_of_ne_zero hr
      omega
  · rename_i hc
    left
    refine ⟨rfl, ?_⟩
    omega

theorem capLoopLength_le {n : Nat} (L : Nat) (hn : 0 < n) : capLoopLength n L ≤ L := by
  rcases capLoopLength_cases L hn with ⟨h, _⟩ | ⟨h, h'⟩ <;> omega

theorem capLoopLength_ge3 {n L : Nat} (hn : 0 < n) (hL : 3 ≤ L) : 3 ≤ capLoopLength n L := by
  rcases capLoopLength_cases L hn with ⟨h, _⟩ | ⟨h, h'⟩ <;> omega

/-- the quotient and remainder of the capped length: at most 254 whole repetitions are erased, and
exactly 254 only without a remainder -/
theorem capLoopLength_div {n : Nat} (L : Nat) (hn : 0 < n) :
    capLoopLength n L / n < 254 ∨ (capLoopLength n L / n = 254 ∧ capLoopLength n L % n = 0) := by
  rcases capLoopLength_cases L hn with ⟨h, h'⟩ | ⟨h, _⟩
  · rw [h]; exact h'
  · right
    rw [h]
    exact ⟨Nat.mul_div_cancel 254 hn, Nat.mul_mod_left 254 n⟩

/-- the repeat count of a capped fold fits `int16_t` with a wide margin (the hypothesis `hrep` of
`foldedTrack_break` / `foldedTrack_nobreak`) -/
theorem capLoopLength_rep {n : Nat} (L : Nat) (hn : 0 < n) : capLoopLength n L / n + 2 < 32768 := by
  rcases capLoopLength_div L hn with h | ⟨h, _⟩ <;> omega

/-- a capped fold is a whole multiple of the period, at most the matched length -/
theorem capLoopLength_capped {n L : Nat} (hn : 0 < n) (h : capLoopLength n L ≠ L) :
    capLoopLength n L = 254 * n ∧ 254 * n < L := by
  rcases capLoopLength_cases L hn with ⟨h1, _⟩ | h1
  · exact absurd h1 h
  · exact h1

/-- the repeat count `apply_match` writes into the inserted `LOOP_END` -/
def foldCount (n L : Nat) : Nat := L / n + (if L % n ≠ 0 then 2 else 1)

/-- **the count of a capped fold is in 2..255** -/
theorem foldCount_cap {n L : Nat} (hn : 0 < n) (hL : 0 < L) :
    2 ≤ foldCount n (capLoopLength n L) ∧ foldCount n (capLoopLength n L) ≤ 255 := by
  have hd := capLoopLength_div L hn
  have hpos : 0 < capLoopLength n L := by
    rcases capLoopLength_cases L hn with ⟨h, _⟩ | ⟨h, _⟩ <;> omega
  have h := Nat.div_add_mod (capLoopLength n L) n
  unfold foldCount
  generalize capLoopLength n L / n = x at *
  generalize capLoopLength n L % n = y at *
  split
  · omega
  · rename_i hr
    have hr0 : y = 0 := by omega
    have : 1 ≤ x := by
      rcases Nat.eq_zero_or_pos x with h0 | h0
      · rw [h0, hr0] at h; omega
      · exact h0
    omega

theorem wrap16_small {x : Int} (h0 : 0 ≤ x) (h1 : x < 32768) : wrap16 x = x := by
  unfold wrap16; omega

theorem foldedTrack_break {src : List Event} {p q L : Nat} (hpq : p < q) (hlen : q + L ≤ src.length)
    (hbp : L % (q - p) ≠ 0) (hrep : L / (q - p) + 2 < 32768) :
    foldedTrack src p q L =
      src.take p ++ (lsEv :: (((src.drop p).take (q - p)).take (L % (q - p)) ++
        lbEv :: ((src.drop p).take (q - p)).drop (L % (q - p)) ++ [leEv ((L / (q - p) : Nat) + 2)])) ++
      src.drop (q + L) := by
  have hsplit := split4 src p q L (Nat.le_of_lt hpq)
  obtain ⟨pre, hpre⟩ : ∃ pre, pre = src.take p := ⟨_, rfl⟩
  obtain ⟨A, hA⟩ : ∃ A, A = (src.drop p).take (q - p) := ⟨_, rfl⟩
  obtain ⟨B, hB⟩ : ∃ B, B = (src.drop q).take L := ⟨_, rfl⟩
  obtain ⟨post, hpost⟩ : ∃ post, post = src.drop (q + L) := ⟨_, rfl⟩
  have lpre : pre.length = p := by rw [hpre, List.length_take]; omega
  have lA : A.length = q - p := by rw [hA, List.length_take, List.length_drop]; omega
  have lB : B.length = L := by rw [hB, List.length_take, List.length_drop]; omega
  rw [← hpre, ← hA, ← hB, ← hpost] at hsplit
  have hbl : L % (q - p) ≤ A.length := by rw [lA]; exact Nat.le_of_lt (Nat.mod_lt _ (by omega))
  have := fold_lists pre A B post (L % (q - p)) hbl lsEv lbEv (leEv ((L / (q - p) : Nat) + 2))
  simp only [lpre, lA, lB, ← hsplit] at this
  have hq : p + (q - p) = q := by omega
  rw [hq] at this
  unfold foldedTrack
  simp only [hbp, ne_eq, not_false_eq_true, if_true, hq]
  rw [← hA, ← hpre, ← hpost, ← this]
  have hw : wrap16 ((L / (q - p) + 1 + 1 : Nat) : Int) = ((L / (q - p) : Nat) : Int) + 2 := by
    generalize L / (q - p) = r at hrep
    rw [wrap16_small (by omega) (by omega)]; omega
  rw [hw, hpost]

theorem foldedTrack_nobreak {src : List Event} {p q L : Nat} (hpq : p < q) (hlen : q + L ≤ src.length)
    (hbp : L % (q - p) = 0) (hrep : L / (q - p) + 2 < 32768) :
    foldedTrack src p q L =
      src.take p ++ (lsEv :: ((src.drop p).take (q - p) ++ [leEv ((L / (q - p) : Nat) + 1)])) ++
      src.drop (q + L) := by
  have hsplit := split4 src p q L (Nat.le_of_lt hpq)
  obtain ⟨pre, hpre⟩ : ∃ pre, pre = src.take p := ⟨_, rfl⟩
  obtain ⟨A, hA⟩ : ∃ A, A = (src.drop p).take (q - p) := ⟨_, rfl⟩
  obtain ⟨B, hB⟩ : ∃ B, B = (src.drop q).take L := ⟨_, rfl⟩
  obtain ⟨post, hpost⟩ : ∃ post, post = src.drop (q + L) := ⟨_, rfl⟩
  have lpre : pre.length = p := by rw [hpre, List.length_take]; omega
  have lA : A.length = q - p := by rw [hA, List.length_take, List.length_drop]; omega
  have lB : B.length = L := by rw [hB, List.length_take, List.length_drop]; omega
  rw [← hpre, ← hA, ← hB, ← hpost] at hsplit
  have := fold0_lists pre A B post lsEv (leEv ((L / (q - p) : Nat) + 1))
  simp only [lpre, lA, lB, ← hsplit] at this
  have hq : p + (q - p) = q := by omega
  rw [hq] at this
  unfold foldedTrack
  simp only [hbp, ne_eq, not_true_eq_false, if_false, hq]
  rw [← hA, ← hpre, ← hpost, ← this]
  have hw : wrap16 ((L / (q - p) + 1 : Nat) : Int) = ((L / (q - p) : Nat) : Int) + 1 := by
    generalize L / (q - p) = r at hrep
    rw [wrap16_small (by omega) (by omega)]; omega
  rw [hw, hpost]

/-! ## what `find_match` checks for a loop candidate, and what it means -/

theorem scan_single (y : Event) (d : Nat) :
    scan [y] d =
      if y.type = ev_LOOP_START then some (d + 1)
      else if y.type = ev_LOOP_END then (if d = 0 then none else some (d - 1))
      else if y.type = ev_LOOP_BREAK then (if d = 0 then none else some d)
      else some d := by
  simp only [scan_cons, scan_nil]

/-- the window `src[p, q+L)` of a loop candidate: `A = src[p,q)` is balanced, the `L` events after
it are `A^k · A[0,bp)` up to `LOOP_BREAK` params, and `bp` is a depth-0 boundary of `A` -/
structure LoopWindow (src : List Event) (p q L : Nat) : Prop where
  len : q + L ≤ src.length
  balA : scan ((src.drop p).take (q - p)) 0 = some 0
  bal0 : scan (((src.drop p).take (q - p)).take (L % (q - p))) 0 = some 0
  bal1 : scan (((src.drop p).take (q - p)).drop (L % (q - p))) 0 = some 0
  per : normL ((src.drop q).take L) =
    normL ((List.replicate (L / (q - p)) ((src.drop p).take (q - p))).flatten ++
      ((src.drop p).take (q - p)).take (L % (q - p)))
  /-- the first erased event is not a loop bracket or break -/
  plain : ∃ e, src[q]? = some e ∧ e.type ≠ ev_LOOP_START ∧ e.type ≠ ev_LOOP_END ∧ e.type ≠ ev_LOOP_BREAK

theorem loop_window {src : List Event} {p q L len0 : Nat} (hpq : p < q) (hL : 0 < L)
    (hf : FMLSpec src src p q len0 L)
    (hv : scan ((src.drop (p + 1)).take (q - p)) 0 = some 0) (hbz : BrkZero src) :
    LoopWindow src p q L := by
  obtain ⟨n, hn⟩ : ∃ n, n = q - p := ⟨_, rfl⟩
  have hq : q = p + n := by omega
  have hn0 : 0 < n := by omega
  -- all matched events exist
  have hget : ∀ i, i < L → ∃ s d, src[p + i]? = some s ∧ src[q + i]? = some d ∧ normE s = normE d ∧
      s.type = d.type := by
    intro i hi
    obtain ⟨s, d, h1, h2, h3, _, _⟩ := hf.same i (Nat.lt_of_lt_of_le hi hf.le)
    have ms : s ∈ src := List.mem_of_getElem? h1
    have md : d ∈ src := List.mem_of_getElem? h2
    exact ⟨s, d, h1, h2, sameEvent_norm h3 (hbz s ms) (hbz d md), sameEvent_type h3⟩
  have hlen : q + L ≤ src.length := by
    obtain ⟨s, d, _, h2, _⟩ := hget (L - 1) (by omega)
    have := (List.getElem?_eq_some_iff.1 h2).1
    omega
  obtain ⟨A, hA⟩ : ∃ A, A = (src.drop p).take n := ⟨_, rfl⟩
  obtain ⟨B, hB⟩ : ∃ B, B = (src.drop q).take L := ⟨_, rfl⟩
  have lA : A.length = n := by rw [hA, List.length_take, List.length_drop]; omega
  have lB : B.length = L := by rw [hB, List.length_take, List.length_drop]; omega
  -- the window
  have hW : (src.drop p).take (n + L) = A ++ B := by
    rw [List.take_add, ← hA, List.drop_drop, ← hq, ← hB]
  -- periodicity up to LOOP_BREAK params
  have hperiod : ∀ i, i < L → (normL (A ++ B))[i]? = (normL (A ++ B))[i + n]? := by
    intro i hi
    obtain ⟨s, d, h1, h2, h3, _⟩ := hget i hi
    rw [← hW]
    simp only [normL, List.getElem?_map, List.getElem?_take, List.getElem?_drop]
    have c1 : i < n + L := by omega
    have c2 : i + n < n + L := by omega
    simp only [c1, c2, if_true]
    have e2 : p + (i + n) = q + i := by omega
    rw [h1, e2, h2]
    simp [h3]
  have hpe := periodic_eq n hn0 L (normL (A ++ B)) (by simp [normL, lA, lB]) hperiod
  have htk : (normL (A ++ B)).take n = normL A := by
    simp only [normL, List.map_append]
    rw [List.take_left' (by simp [lA])]
  rw [htk] at hpe
  have hper : normL B = normL ((List.replicate (L / n) A).flatten ++ A.take (L % n)) := by
    have e : normL (A ++ B) = normL A ++ normL B := by simp [normL]
    rw [e, List.replicate_succ, List.flatten_cons, List.append_assoc] at hpe
    have := List.append_cancel_left hpe
    rw [this]
    simp [normL, List.map_flatten, List.map_replicate, List.map_take]
  -- the first events of the two copies
  obtain ⟨ep, eq, hep, heq, _, hty⟩ := hget 0 hL
  simp only [Nat.add_zero] at hep heq
  -- `B` starts with `eq`, which is therefore not a depth-0 LOOP_END / LOOP_BREAK
  have hBs : scan B 0 = some 0 := by rw [hB]; exact hf.lbal
  have hB1 : ∃ B', B = eq :: B' := by
    have : B = (src.drop q).take (0 + 1) ++ ((src.drop q).drop (0 + 1)).take (L - 1) := by
      rw [hB, ← List.take_add]; congr 1; omega
    rw [take_succ_of_get (j := 0) (by simpa using heq)] at this
    exact ⟨_, by simpa using this⟩
  obtain ⟨B', hB'⟩ := hB1
  -- the scanned part `src(p, q]` is `M ++ [eq]`
  obtain ⟨M, hM⟩ : ∃ M, M = (src.drop (p + 1)).take (n - 1) := ⟨_, rfl⟩
  have hv' : scan (M ++ [eq]) 0 = some 0 := by
    have : (src.drop (p + 1)).take (n - 1 + 1) = M ++ [eq] := by
      rw [hM]
      apply take_succ_of_get
      rw [← heq]; congr 1; omega
    rw [← this]
    have e : n - 1 + 1 = q - p := by omega
    rw [e]; exact hv
  have hplain : eq.type ≠ ev_LOOP_START ∧ eq.type ≠ ev_LOOP_END ∧ eq.type ≠ ev_LOOP_BREAK := by
    rw [hB', scan_cons] at hBs
    refine ⟨?_, ?_, ?_⟩
    · intro h
      rw [scan_append] at hv'
      cases hm : scan M 0 with
      | none => rw [hm] at hv'; simp at hv'
      | some dm =>
        rw [hm] at hv'
        simp only [Option.bind_some, scan_single, if_pos h] at hv'
        simp at hv'
    · intro h
      by_cases h1 : eq.type = ev_LOOP_START
      · rw [h] at h1; revert h1; decide
      · rw [if_neg h1, if_pos h] at hBs; simp at hBs
    · intro h
      by_cases h1 : eq.type = ev_LOOP_START
      · rw [h] at h1; revert h1; decide
      · by_cases h2 : eq.type = ev_LOOP_END
        · rw [h] at h2; revert h2; decide
        · rw [if_neg h1, if_neg h2, if_pos h] at hBs; simp at hBs
  have hMs : scan M 0 = some 0 := by
    rw [scan_append] at hv'
    cases hm : scan M 0 with
    | none => rw [hm] at hv'; simp at hv'
    | some dm =>
      rw [hm] at hv'
      simp only [Option.bind_some, scan_single, if_neg hplain.1, if_neg hplain.2.1, if_neg hplain.2.2] at hv'
      rw [hv']
  have hAe : A = ep :: M := by
    have : A = (src.drop p).take (0 + 1) ++ ((src.drop p).drop (0 + 1)).take (n - 1) := by
      rw [hA, ← List.take_add]; congr 1; omega
    rw [take_succ_of_get (j := 0) (by simpa using hep), List.drop_drop] at this
    rw [this, hM]
    simp
  have hAs : scan A 0 = some 0 := by
    rw [hAe, scan_cons, if_neg (hty ▸ hplain.1), if_neg (hty ▸ hplain.2.1), if_neg (hty ▸ hplain.2.2)]
    exact hMs
  have h0 : scan (A.take (L % n)) 0 = some 0 := by
    have := scan_norm hper 0
    rw [hBs, scan_append, scan_replicate hAs] at this
    simpa using this.symm
  have h1 : scan (A.drop (L % n)) 0 = some 0 := by
    have := hAs
    rw [← List.take_append_drop (L % n) A, scan_append, h0] at this
    simpa using this
  subst hn
  subst hA
  subst hB
  exact ⟨hlen, hAs, h0, h1, hper, eq, heq, hplain⟩

theorem length_replicate_flatten {α : Type} (A : List α) (k : Nat) :
    (List.replicate k A).flatten.length = k * A.length := by
  induction k with
  | zero => simp
  | succ k ih => rw [List.replicate_succ, List.flatten_cons, List.length_append, ih, Nat.succ_mul]; omega

theorem take_replicate_flatten {α : Type} (A X : List α) (k j : Nat) (hk : k ≤ j) :
    ((List.replicate j A).flatten ++ X).take (k * A.length) = (List.replicate k A).flatten := by
  obtain ⟨d, rfl⟩ : ∃ d, j = k + d := ⟨j - k, by omega⟩
  rw [← List.replicate_append_replicate, List.flatten_append, List.append_assoc]
  apply List.take_left'
  exact length_replicate_flatten A k

/-- a loop window may be shortened to a whole number of repetitions: the shorter window is a window
of the same phrase without remainder -/
theorem LoopWindow.shorten {src : List Event} {p q L : Nat} (h : LoopWindow src p q L) (hpq : p < q)
    {k : Nat} (hk : k * (q - p) ≤ L) : LoopWindow src p q (k * (q - p)) := by
  obtain ⟨n, hn⟩ : ∃ n, n = q - p := ⟨_, rfl⟩
  have hn0 : 0 < n := by omega
  rw [← hn] at hk ⊢
  have hmod : k * n % n = 0 := Nat.mul_mod_left k n
  have hdiv : k * n / n = k := Nat.mul_div_cancel k hn0
  have hkj : k ≤ L / n := by
    rw [Nat.le_div_iff_mul_le hn0]; exact hk
  obtain ⟨A, hA⟩ : ∃ A, A = (src.drop p).take n := ⟨_, rfl⟩
  have lA : A.length = n := by
    rw [hA, List.length_take, List.length_drop]
    have := h.len
    omega
  refine ⟨by have := h.len; omega, hn ▸ h.balA, ?_, ?_, ?_, h.plain⟩
  · rw [← hn, hmod, List.take_zero]; rfl
  · rw [← hn, hmod, List.drop_zero]; exact hn ▸ h.balA
  · have hper := h.per
    rw [← hn, ← hA] at hper
    rw [← hn, hmod, hdiv, ← hA, List.take_zero, List.append_nil]
    have e1 : (src.drop q).take (k * n) = ((src.drop q).take L).take (k * n) := by
      rw [List.take_take, Nat.min_eq_left hk]
    rw [e1]
    simp only [normL] at hper ⊢
    rw [List.map_take, hper, ← List.map_take]
    congr 1
    rw [← lA]
    exact take_replicate_flatten A _ k (L / A.length) (by rw [lA]; exact hkj)

/-- the window of the capped loop length -/
theorem LoopWindow.cap {src : List Event} {p q L : Nat} (h : LoopWindow src p q L) (hpq : p < q) :
    LoopWindow src p q (capLoopLength (q - p) L) := by
  rcases capLoopLength_cases (n := q - p) L (by omega) with ⟨h1, _⟩ | ⟨h1, h2⟩
  · rw [h1]; exact h
  · rw [h1]; exact h.shorten hpq (Nat.le_of_lt h2)

/-- the stack test of the loop candidate (`find_match`, repair of D18) on the event at index `i` of
the source track: the stack list has an entry and entry + base usage is below `max_loop_stack` -/
def LoopRoom (sa : SA) (i : Nat) : Prop :=
  ∃ u, sa.eventList[i]? = some u ∧ u + sa.baseUsage < maxLoopStack

/-- the conditions under which `find_match` records a loop candidate `(loopPosition, loopLength)`
for the phrase starting at `position`: it lies later in the same track, `find_match_length` of the
two positions returns `loopLength > 0` as its loop length, and the events `src(position,
loopPosition]` never meet a depth-0 `LOOP_END`/`LOOP_BREAK` and end at depth 0 (`loop_valid`,
`loop_depth == 0`), and — repair of D18 — every event of the period has room on the stack
for one more loop (`room`) -/
structure LoopOK (song : Song) (m : SAMap) (bm : Match) : Prop where
  lt : bm.position < bm.loopPosition
  pos : 0 < bm.loopLength
  minLen : minLoopScore ≤ bm.loopLength
  fml : ∃ len0, findMatchLength song m bm.trackId bm.position bm.trackId bm.loopPosition true
    = .ok (len0, bm.loopLength)
  valid : ∀ src, song.track? bm.trackId = some src →
    scan ((src.drop (bm.position + 1)).take (bm.loopPosition - bm.position)) 0 = some 0
  /-- repair of D18: every event of the period `[position, loopPosition)` — everything the new loop
  encloses, the part after the break point included — has room on the stack for one more loop -/
  room : ∀ i, bm.position ≤ i → i < bm.loopPosition → LoopRoom (getSA m bm.trackId) i

theorem LoopOK.window {song : Song} {m : SAMap} {bm : Match} (h : LoopOK song m bm) {src : List Event}
    (hsrc : song.track? bm.trackId = some src) (hbz : BrkZero src) :
    LoopWindow src bm.position bm.loopPosition bm.loopLength := by
  obtain ⟨len0, hf⟩ := h.fml
  obtain ⟨s, d, hs, hd, hspec⟩ := findMatchLength_spec hf
  rw [hsrc] at hs hd
  cases hs; cases hd
  exact loop_window h.lt h.pos hspec (h.valid _ hsrc) hbz

/-! ## `setTrack` -/

theorem lookup_some_any {β : Type} (l : List (Nat × β)) (k : Nat) (v : β) (h : l.lookup k = some v) :
    l.any (·.1 == k) = true := by
  induction l with
  | nil => simp [List.lookup] at h
  | cons p r ih =>
    by_cases hk : k = p.1
    · simp [hk]
    · have h' : (k == p.1) = false := by simp [hk]
      simp only [List.lookup, h'] at h
      simp [ih h]

theorem lookup_replace {β : Type} (l : List (Nat × β)) (k : Nat) (v : β) (k' : Nat) :
    (l.map fun p => if p.1 == k then (k, v) else p).lookup k' =
      if k' = k then (l.lookup k).map (fun _ => v) else l.lookup k' := by
  induction l with
  | nil => simp [List.lookup]
  | cons p r ih =>
    simp only [List.map_cons]
    by_cases hp : p.1 = k
    · simp only [hp, beq_self_eq_true, if_true]
      by_cases hk : k' = k
      · subst hk; simp [List.lookup, ← hp]
      · have h' : (k' == k) = false := by simp [hk]
        have h'' : (k' == p.1) = false := by rw [hp]; exact h'
        simp only [List.lookup, h', h'', hk, if_false] 
        rw [ih]; simp [hk]
    · have hpk : (p.1 == k) = false := by simp [hp]
      simp only [hpk, Bool.false_eq_true, if_false]
      by_cases hk' : k' = p.1
      · have : k' ≠ k := by rw [hk']; exact hp
        simp [List.lookup, hk', hp]
      · have h' : (k' == p.1) = false := by simp [hk']
        have h2 : (k == p.1) = false := by simp; exact fun h => hp h.symm
        simp only [List.lookup, h', h2]
        exact ih

/-- replacing an existing track -/
theorem track?_setTrack {song : Song} {id : Nat} {x : List Event} (h : song.track? id = some x)
    (evs : List Event) (id' : Nat) :
    (setTrack song id evs).track? id' = if id' = id then some evs else song.track? id' := by
  unfold setTrack
  have hany : song.tracks.any (·.1 == id) = true := lookup_some_any _ _ _ h
  simp only [hany, if_true, Song.track?]
  rw [lookup_replace]
  split
  · have : List.lookup id song.tracks = some x := h
    simp [this]
  · rfl

theorem flattenL_replicate (X : List Node) (k : Nat) :
    flattenL (List.replicate k X).flatten = (List.replicate k (flattenL X)).flatten := by
  induction k with
  | zero => simp [flattenL]
  | succ k ih => simp [List.replicate_succ, flattenL_append, ih]

theorem noEnd_take {l : List Event} (h : NoEnd l) (n : Nat) : NoEnd (l.take n) :=
  fun e he => h e (List.mem_of_mem_take he)
theorem noEnd_drop {l : List Event} (h : NoEnd l) (n : Nat) : NoEnd (l.drop n) :=
  fun e he => h e (List.mem_of_mem_drop he)

end Ctrmml.OptSteps
