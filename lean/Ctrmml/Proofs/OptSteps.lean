/-
  C01, layers 2–3: what the executable model of the optimiser (`Model/Optimizer.lean`) does is
  one of the rewrites proved sound in `Proofs/Rewrite.lean`.

  * `findMatchLength_spec` — what a returned `(len, loopLen)` guarantees;
  * `applyMatch_loop_shape` — the loop branch of `applyMatch` on a match that satisfies the
    conditions `find_match` checks (`LoopOK`) produces `pre ++ [ A0 / A1 ](k+2) ++ post` from a
    track that is, up to `LOOP_BREAK` params, `pre ++ A·A^k·A0 ++ post`;
  * the `forIn` loops of `findMatch` / `findBestMatch` establish `LoopOK`.
  The statements that mention `Step` are in `Properties/C01.lean`.
-/
import Ctrmml.Proofs.OptFml
namespace Ctrmml.OptSteps
open Ctrmml Ctrmml.Tree Ctrmml.Expand Ctrmml.Rewrite Ctrmml.Opt Tables

/-! ## the loop branch of `apply_match` -/

def lsEv : Event := { type := ev_LOOP_START, param := 0, on := 0, off := 0 }
def lbEv : Event := { type := ev_LOOP_BREAK, param := 0, on := 0, off := 0 }
def leEv (n : Int) : Event := { type := ev_LOOP_END, param := n, on := 0, off := 0 }

/-- the track `apply_match` writes in its loop branch -/
def foldedTrack (src : List Event) (p q L : Nat) : List Event :=
  let length := q - p
  let repeats0 := L / length + 1
  let breakPoint := L % length
  let repeats := if breakPoint ≠ 0 then repeats0 + 1 else repeats0
  let evs := src.take q ++ src.drop (q + L)
  let evs := ins evs (p + length) (leEv (wrap16 repeats))
  let evs := if breakPoint ≠ 0 then ins evs (p + breakPoint) lbEv else evs
  ins evs p lsEv

theorem applyMatch_loop_eq {song : Song} {m : SAMap} {bm : Match} {subId : Int} {src : List Event}
    (hsrc : song.track? bm.trackId = some src) (hbr : ¬ bm.loopScore < bm.subScore) :
    applyMatch song m bm subId =
      .ok (setTrack song bm.trackId (foldedTrack src bm.position bm.loopPosition bm.loopLength), m, subId) := by
  unfold applyMatch
  simp only [hsrc, hbr, if_false]
  rfl

theorem wrap16_small {x : Int} (h0 : 0 ≤ x) (h1 : x < 32768) : wrap16 x = x := by
  unfold wrap16; omega

theorem foldedTrack_break {src : List Event} {p q L : Nat} (hpq : p < q) (hlen : q + L ≤ src.length)
    (hbp : L % (q - p) ≠ 0) (hrep : L / (q - p) + 2 < 32768) :
    foldedTrack src p q L =
      src.take p ++ (lsEv :: (((src.drop p).take (q - p)).take (L % (q - p)) ++
        lbEv :: ((src.drop p).take (q - p)).drop (L % (q - p)) ++ [leEv ((L / (q - p) : Nat) + 2)])) ++
      src.drop (q + L) := by
  have hsplit := split4 src p q L (Nat.le_of_lt hpq)
  obtain ⟨pre, hpre⟩ : ∃ pre, pre = src.take p := ⟨_, rfl⟩
  obtain ⟨A, hA⟩ : ∃ A, A = (src.drop p).take (q - p) := ⟨_, rfl⟩
  obtain ⟨B, hB⟩ : ∃ B, B = (src.drop q).take L := ⟨_, rfl⟩
  obtain ⟨post, hpost⟩ : ∃ post, post = src.drop (q + L) := ⟨_, rfl⟩
  have lpre : pre.length = p := by rw [hpre, List.length_take]; omega
  have lA : A.length = q - p := by rw [hA, List.length_take, List.length_drop]; omega
  have lB : B.length = L := by rw [hB, List.length_take, List.length_drop]; omega
  rw [← hpre, ← hA, ← hB, ← hpost] at hsplit
  have hbl : L % (q - p) ≤ A.length := by rw [lA]; exact Nat.le_of_lt (Nat.mod_lt _ (by omega))
  have := fold_lists pre A B post (L % (q - p)) hbl lsEv lbEv (leEv ((L / (q - p) : Nat) + 2))
  simp only [lpre, lA, lB, ← hsplit] at this
  have hq : p + (q - p) = q := by omega
  rw [hq] at this
  unfold foldedTrack
  simp only [hbp, ne_eq, not_false_eq_true, if_true, hq]
  rw [← hA, ← hpre, ← hpost, ← this]
  have hw : wrap16 ((L / (q - p) + 1 + 1 : Nat) : Int) = ((L / (q - p) : Nat) : Int) + 2 := by
    generalize L / (q - p) = r at hrep
    rw [wrap16_small (by omega) (by omega)]; omega
  rw [hw, hpost]

theorem foldedTrack_nobreak {src : List Event} {p q L : Nat} (hpq : p < q) (hlen : q + L ≤ src.length)
    (hbp : L % (q - p) = 0) (hrep : L / (q - p) + 2 < 32768) :
    foldedTrack src p q L =
      src.take p ++ (lsEv :: ((src.drop p).take (q - p) ++ [leEv ((L / (q - p) : Nat) + 1)])) ++
      src.drop (q + L) := by
  have hsplit := split4 src p q L (Nat.le_of_lt hpq)
  obtain ⟨pre, hpre⟩ : ∃ pre, pre = src.take p := ⟨_, rfl⟩
  obtain ⟨A, hA⟩ : ∃ A, A = (src.drop p).take (q - p) := ⟨_, rfl⟩
  obtain ⟨B, hB⟩ : ∃ B, B = (src.drop q).take L := ⟨_, rfl⟩
  obtain ⟨post, hpost⟩ : ∃ post, post = src.drop (q + L) := ⟨_, rfl⟩
  have lpre : pre.length = p := by rw [hpre, List.length_take]; omega
  have lA : A.length = q - p := by rw [hA, List.length_take, List.length_drop]; omega
  have lB : B.length = L := by rw [hB, List.length_take, List.length_drop]; omega
  rw [← hpre, ← hA, ← hB, ← hpost] at hsplit
  have := fold0_lists pre A B post lsEv (leEv ((L / (q - p) : Nat) + 1))
  simp only [lpre, lA, lB, ← hsplit] at this
  have hq : p + (q - p) = q := by omega
  rw [hq] at this
  unfold foldedTrack
  simp only [hbp, ne_eq, not_true_eq_false, if_false, hq]
  rw [← hA, ← hpre, ← hpost, ← this]
  have hw : wrap16 ((L / (q - p) + 1 : Nat) : Int) = ((L / (q - p) : Nat) : Int) + 1 := by
    generalize L / (q - p) = r at hrep
    rw [wrap16_small (by omega) (by omega)]; omega
  rw [hw, hpost]

end Ctrmml.OptSteps
