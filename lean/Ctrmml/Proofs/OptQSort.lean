/-
  `Array.qsort` (core library, `Init/Data/Array/QSort/Basic.lean`) returns a permutation of its
  input.  The worker functions `qsort.sort` and `qpartition.loop` are private to that module; the
  two small elaborators below only name those constants (and their unfolding equations) so that
  the statements can be written — every step is checked by the kernel as usual.
-/
import Lean
import Ctrmml.Proofs.OptSub
namespace Ctrmml.OptSteps
open Lean Elab Term Meta

elab "qsortSort%" : term => do
  mkConstWithFreshMVarLevels (mkPrivateNameCore `Init.Data.Array.QSort.Basic `Array.qsort.sort)
elab "qpartLoop%" : term => do
  mkConstWithFreshMVarLevels (mkPrivateNameCore `Init.Data.Array.QSort.Basic `Array.qpartition.loop)
elab "qsortSortEq%" : term => do
  mkConstWithFreshMVarLevels (mkPrivateNameCore `Init.Data.Array.QSort.Basic `Array.qsort.sort.eq_def)
elab "qpartLoopEq%" : term => do
  mkConstWithFreshMVarLevels (mkPrivateNameCore `Init.Data.Array.QSort.Basic `Array.qpartition.loop.eq_def)

theorem qpartLoop_perm {α : Type} {n : Nat} (lt : α → α → Bool) (lo hi : Nat) (hhi : hi < n) (pivot : α) :
    ∀ (d : Nat) (as : Vector α n) (i k : Nat) (ilo : lo ≤ i) (ik : i ≤ k) (w : k ≤ hi), hi - k = d →
    (qpartLoop% lt lo hi hhi pivot as i k ilo ik w).2.Perm as := by
  intro d
  induction d with
  | zero =>
    intro as i k ilo ik w hd
    rw [qpartLoopEq%]
    have : ¬ k < hi := by omega
    simp only [this, dite_false]
    exact Vector.swap_perm _ _
  | succ d ih =>
    intro as i k ilo ik w hd
    rw [qpartLoopEq%]
    have : k < hi := by omega
    simp only [this, dite_true]
    split
    · exact (ih _ _ _ _ _ _ (by omega)).trans (Vector.swap_perm _ _)
    · exact ih _ _ _ _ _ _ (by omega)

theorem qpartition_perm {α : Type} {n : Nat} (as : Vector α n) (lt : α → α → Bool) (lo hi : Nat)
    (w : lo ≤ hi) (hlo : lo < n) (hhi : hi < n) : (Array.qpartition as lt lo hi w hlo hhi).2.Perm as := by
  unfold Array.qpartition
  simp only
  refine (qpartLoop_perm lt lo hi hhi _ _ _ _ _ _ _ _ rfl).trans ?_
  have step : ∀ (c : Prop) [Decidable c] (xs : Vector α n) (a b : Nat) (ha : a < n) (hb : b < n),
      (if c then xs.swap a b ha hb else xs).Perm xs := by
    intro c _ xs a b ha hb
    split
    · exact Vector.swap_perm _ _
    · exact Vector.Perm.refl _
  exact (step _ _ _ _ _ _).trans ((step _ _ _ _ _ _).trans (step _ _ _ _ _ _))

theorem qsortSort_perm {α : Type} (lt : α → α → Bool) {n : Nat} :
    ∀ (d : Nat) (as : Vector α n) (lo hi : Nat) (w : lo ≤ hi) (hlo : lo < n) (hhi : hi < n), hi - lo ≤ d →
    (qsortSort% lt as lo hi w hlo hhi).Perm as := by
  intro d
  induction d with
  | zero =>
    intro as lo hi w hlo hhi hd
    rw [qsortSortEq%]
    have : ¬ lo < hi := by omega
    simp only [this, dite_false]
    exact Vector.Perm.refl _
  | succ d ih =>
    intro as lo hi w hlo hhi hd
    rw [qsortSortEq%]
    by_cases h1 : lo < hi
    · simp only [h1, dite_true]
      have hp := qpartition_perm as lt lo hi w hlo hhi
      generalize Array.qpartition as lt lo hi w hlo hhi = r at hp ⊢
      obtain ⟨⟨mid, hmid⟩, as'⟩ := r
      simp only at hp ⊢
      split
      · exact hp
      · rename_i h2
        exact ((ih _ _ _ _ _ _ (by omega)).trans (ih _ _ _ _ _ _ (by omega))).trans hp
    · simp only [h1, dite_false]
      exact Vector.Perm.refl _

theorem qsort_perm {α : Type} (as : Array α) (lt : α → α → Bool) : (as.qsort lt).toList.Perm as.toList := by
  unfold Array.qsort
  split
  · exact List.Perm.refl _
  · simp only
    have := qsortSort_perm lt (as.size - 1) as.toVector (min 0 (as.size - 1))
      (max (min 0 (as.size - 1)) (min (as.size - 1) (as.size - 1))) (by omega) (by omega) (by omega) (by omega)
    exact Vector.Perm.toList this

/-- the hypothesis `QSortPerm` of the subroutine-branch theorems holds -/
theorem qsortPerm_of_core : QSortPerm := by
  intro l
  simpa using qsort_perm l.toArray (fun a b => a.1 < b.1)

end Ctrmml.OptSteps
