/-
  Helper lemmas for Properties/C15 (towards discharging `PsgEnvsOK`): the compiler state of
  `add_ins_psg` keeps "only level bytes and sustain marks, loop position inside", and the end of
  `add_ins_psg` then emits bytes of the shape the envelope stepper needs (`EnvOK`).
-/
import Ctrmml.Proofs.PipelineVgm
import Ctrmml.Proofs.MdsData
namespace Ctrmml.Pipeline
open Ctrmml Ctrmml.MdsData Ctrmml.Pipeline.VgmTr

structure PInv (st : PsgSt) : Prop where
  lev : ∀ p, p < st.env.length → 0x0f < st.env.getD p 0 ∨ st.env.getD p 0 = 1
  loop : st.loopPos = -1 ∨ (0 ≤ st.loopPos ∧ st.loopPos ≤ st.env.length)

theorem pinv_init : PInv ({} : PsgSt) := ⟨fun p hp => by simp at hp, .inl rfl⟩

theorem getD_snoc_lt (l : List Nat) (x p : Nat) (h : p < l.length) : (l ++ [x]).getD p 0 = l.getD p 0 := by
  simp [List.getD_eq_getElem?_getD, List.getElem?_append_left h]

theorem getD_snoc_eq (l : List Nat) (x : Nat) : (l ++ [x]).getD l.length 0 = x := by
  simp [List.getD_eq_getElem?_getD]

theorem pinv_snoc (st : PsgSt) (x : Nat) (hx : 0x0f < x ∨ x = 1) (h : PInv st) (st' : PsgSt)
    (he : st'.env = st.env ++ [x]) (hl : st'.loopPos = st.loopPos) : PInv st' := by
  refine ⟨fun p hp => ?_, ?_⟩
  · rw [he] at hp ⊢
    simp only [List.length_append, List.length_singleton] at hp
    by_cases hlt : p < st.env.length
    · rw [getD_snoc_lt _ _ _ hlt]; exact h.lev p hlt
    · have : p = st.env.length := by omega
      rw [this, getD_snoc_eq]; exact hx
  · rw [hl, he]
    simp only [List.length_append, List.length_singleton]
    rcases h.loop with h1 | h1
    · exact .inl h1
    · right; omega

/-- the end of `add_ins_psg` on such a state: the bytes have the stepper's shape -/
theorem psgFinish_envOK (st : PsgSt) (h : PInv st) (hl : st.loopPos ≤ 255) : EnvOK (psgFinish st) := by
  refine ⟨st.env.length, ?_⟩
  unfold psgFinish
  split
  · refine ⟨by simp, fun p hp => ?_, .inl (getD_snoc_eq _ _)⟩
    rw [getD_snoc_lt _ _ _ hp]; exact h.lev p hp
  · rename_i hne
    have hlp : 0 ≤ st.loopPos ∧ st.loopPos ≤ st.env.length := by
      rcases h.loop with h1 | h1
      · rw [h1] at hne; exact absurd (by decide) hne
      · exact h1
    have e : st.env ++ [0x02, u8 st.loopPos] = (st.env ++ [0x02]) ++ [u8 st.loopPos] := by simp
    refine ⟨by simp, fun p hp => ?_, .inr ⟨?_, by simp, ?_⟩⟩
    · rw [e, getD_snoc_lt _ _ _ (by simp; omega), getD_snoc_lt _ _ _ hp]; exact h.lev p hp
    · rw [e, getD_snoc_lt _ _ _ (by simp), getD_snoc_eq]
    · rw [e]
      have : (st.env ++ [0x02]).length = st.env.length + 1 := by simp
      rw [← this, getD_snoc_eq]
      unfold u8
      omega

/-- frame levels stay in range: implied by C11's `SlideOK` (proved for `Arith.b64`; not provable for the
kernel-opaque `Arith.float`) -/
def LevelsOK {α} (A : Arith α) : Prop :=
  ∀ i t n, i ≤ 15 → t ≤ 15 → n ≤ 255 → ∀ v ∈ slideOf A i t n, v ≤ 15

theorem levelsOK_of_slideOK {α} (A : Arith α) (hA : SlideOK A) : LevelsOK A := by
  intro i t n hi ht hn v hv
  by_cases h0 : n = 0
  · subst h0
    have e : slideOf A i t 0 = slideOf A i t 1 := by simp [slideOf]
    rw [e] at hv
    exact (slideShape_bounds i t 1 _ hi ht (by omega) (hA i t 1 hi ht (by omega) (by omega))).1 v hv
  · exact (slideShape_bounds i t n _ hi ht (by omega) (hA i t n hi ht (by omega) hn)).1 v hv

theorem psgLoop_inv (st : PsgSt) (h : PInv st) : PInv (psgLoop st) :=
  ⟨h.lev, .inr ⟨by simp [psgLoop], by simp [psgLoop]⟩⟩

theorem psgSustain_inv (st : PsgSt) (h : PInv st) : PInv (psgSustain st) := by
  unfold psgSustain
  simp only
  split
  · exact pinv_snoc _ 1 (.inr rfl) (pinv_snoc st 0x10 (.inl (by decide)) h { st with env := st.env ++ [0x10] } rfl rfl) _ rfl rfl
  · exact pinv_snoc st 1 (.inr rfl) h _ rfl rfl

theorem pushVal_inv (st : PsgSt) (v : Nat) (hv : v ≤ 15) (h : PInv st) : PInv (pushVal st v) := by
  unfold pushVal
  simp only
  split
  · refine ⟨fun p hp => ?_, ?_⟩
    · simp only [setAt, List.length_set] at hp ⊢
      have := h.lev p hp
      rw [List.getD_eq_getElem?_getD] at this ⊢
      rw [List.getElem?_set]
      split
      · rename_i hq
        left
        rw [if_pos (by omega)]
        show 15 < nth st.env st.lastPos + 16
        omega
      · exact this
    · simp only [setAt, List.length_set]; exact h.loop
  · refine pinv_snoc st (u8 (0x1f - (v : Int))) (.inl ?_) h _ rfl rfl
    unfold u8
    omega

theorem pushVals_inv (vs : List Nat) (hv : ∀ v ∈ vs, v ≤ 15) : ∀ st, PInv st → PInv (vs.foldl pushVal st) := by
  induction vs with
  | nil => intro st h; exact h
  | cons v vs ih =>
    intro st h
    exact ih (fun x hx => hv x (by simp [hx])) _ (pushVal_inv st v (hv v (by simp)) h)

theorem psgValue_inv {α} (A : Arith α) (hA : LevelsOK A) (st : PsgSt) (i t n : Nat) (hi : i ≤ 15) (ht : t ≤ 15)
    (hn : n ≤ 255) (h : PInv st) : PInv (psgValue A st i t n) := by
  rw [psgValue_eq]
  exact pushVals_inv _ (hA i t n hi ht hn) st h

end Ctrmml.Pipeline
