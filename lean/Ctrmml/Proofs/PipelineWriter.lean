/-
  Helper lemmas for Properties/C15: two invariants of the MDSDRV track writer
  (`Mds.hook` / `runWriter` / `getSubroutine` / `getMacroTrack`, mutually recursive), proved together
  by induction on the recursion budget:
    * the writer's player never hits the `vector::at` of the final-pass loop break
      (`PErr.impossible`): every `runWriter` starts from `initState` and `step_good`
      (Proofs/PipelineValidate) carries the stack-frame invariant;
    * every key of `used_data_map` indexes the data bank: keys are the indices `read_song` stored
      in `envelope_map` / `pitch_map`, tagged with 0x10000 / 0x20000 above the 15-bit mask
      (`UsedIn`), so `data_bank[key & 0x7fff]` in `get_mds` is inside the bank.
-/
import Ctrmml.Proofs.PipelineValidate
import Ctrmml.Proofs.MdsHook
namespace Ctrmml.Pipeline
open Ctrmml Ctrmml.Mds Ctrmml.Player Tables

/-- not the `vector::at` failure of the writer's player -/
def WOk (x : WErr) : Prop := x ≠ .player .impossible

/-- every key of `used_data_map` indexes a bank of `B` entries -/
def UsedIn (B : Nat) (c : Conv) : Prop := ∀ p ∈ c.usedData, p.1 % (mdsFile_bankMask + 1) < B

/-- the indices the writer reads from the tables are inside a bank of `B` entries -/
def DataIn (B : Nat) (d : DataInfo) : Prop :=
  (∀ k idx, d.envelopeMap.lookup k = some idx → idx < B) ∧ (∀ k idx, d.pitchMap.lookup k = some idx → idx < B)

/-- a writer result: allowed error, or a state whose keys are inside the bank -/
def RG (B : Nat) (r : Except WErr (Conv × WState)) : Prop :=
  (∀ x, r = .error x → WOk x) ∧ (∀ c' w', r = .ok (c', w') → UsedIn B c')

theorem RG_ok {B : Nat} {c : Conv} (h : UsedIn B c) (w : WState) : RG B (.ok (c, w)) :=
  ⟨fun _ h' => (by cases h'), fun c' w' h' => (by cases h'; exact h)⟩

theorem RG_err {B : Nat} {x : WErr} (h : WOk x) : RG B (.error x) :=
  ⟨fun _ h' => (by cases h'; exact h), fun _ _ h' => (by cases h')⟩

theorem RG_ite {B : Nat} {p : Prop} [Decidable p] {a b : Except WErr (Conv × WState)} (ha : RG B a) (hb : RG B b) :
    RG B (if p then a else b) := by
  split
  · exact ha
  · exact hb

theorem usedIn_getEnvelope {B : Nat} {c : Conv} (h : UsedIn B c) {key : Nat} (hk : key % (mdsFile_bankMask + 1) < B) :
    UsedIn B (getEnvelope c key).1 := by
  unfold getEnvelope
  split
  · exact h
  · intro p hp
    simp only [List.mem_append, List.mem_singleton] at hp
    rcases hp with hp | hp
    · exact h p hp
    · rw [hp]; exact hk

theorem mask_eq : mdsFile_bankMask + 1 = 32768 := by decide

theorem key_plain {B idx : Nat} (h : idx < B) : idx % (mdsFile_bankMask + 1) < B := by
  rw [mask_eq]; omega
theorem key_pcm {B idx : Nat} (h : idx < B) : (0x20000 + idx) % (mdsFile_bankMask + 1) < B := by
  rw [mask_eq]; omega
theorem key_ext {B idx : Nat} (h : idx < B) : (0x10000 + idx) % (mdsFile_bankMask + 1) < B := by
  rw [mask_eq]; omega

/-- results of `get_subroutine` / `get_macro_track` -/
def RS (B : Nat) (r : Except WErr (Conv × Int)) : Prop :=
  (∀ x, r = .error x → WOk x) ∧ (∀ c' id, r = .ok (c', id) → UsedIn B c')

/-- the statement at one level of the recursion budget -/
structure WGood (song : Song) (d : DataInfo) (B : Nat) (n : Nat) : Prop where
  hook : ∀ c w it, UsedIn B c → RG B (Mds.hook song d n c w it)
  run : ∀ steps root c w s, UsedIn B c → CoreOK song root s.core → RG B (runWriter song d root n steps c w s)
  sub : ∀ c t a b, UsedIn B c → RS B (getSubroutine song d n c t a b)
  mac : ∀ c t, UsedIn B c → RS B (getMacroTrack song d n c t)

def CE (r : Except WErr Unit) : Prop := ∀ x, r = .error x → WOk x
theorem CE_ok (u : Unit) : CE (.ok u) := fun _ h => by cases h
theorem CE_err {x : WErr} (h : WOk x) : CE (.error x) := fun _ h' => by cases h'; exact h
theorem CE_ite {p : Prop} [Decidable p] {a b : Except WErr Unit} (ha : CE a) (hb : CE b) : CE (if p then a else b) := by
  split
  · exact ha
  · exact hb

theorem checkInstrument_err {d : DataInfo} {t p : Int} {x : WErr} (h : checkInstrument d t p = .error x) : WOk x := by
  have : CE (checkInstrument d t p) := by
    unfold checkInstrument
    split
    · exact CE_ok _
    · simp only
      repeat' (first | exact CE_ok _ | exact CE_err (by simp [WOk]) | apply CE_ite)
  exact this x h

theorem hookVis_good {song : Song} {d : DataInfo} {B : Nat} (hd : DataIn B d) {n : Nat} (ih : WGood song d B n)
    (c : Conv) (w : WState) (it : TraceItem) (hc : UsedIn B c) : RG B (hookVis song d n c w it) := by
  unfold hookVis
  have e1 : ∀ x : WErr, x ≠ .player .impossible → WOk x := fun _ h => h
  -- TIE
  apply RG_ite (RG_ok hc _)
  -- NOTE
  apply RG_ite
  · have hs := ih.sub c it.ev.param true false hc
    split
    · cases hg : getSubroutine song d n c it.ev.param true false with
      | error x => exact RG_err (hs.1 x hg)
      | ok p =>
        obtain ⟨c', id⟩ := p
        have hc' := hs.2 c' id hg
        dsimp only
        repeat' (first | exact RG_ok hc' _ | exact RG_err (by simp [WOk]) | apply RG_ite)
    · dsimp only
      repeat' (first | exact RG_ok hc _ | exact RG_err (by simp [WOk]) | apply RG_ite)
  apply RG_ite (RG_ok hc _)
  apply RG_ite (RG_ok hc _)
  apply RG_ite (RG_ok hc _)
  apply RG_ite (RG_ok hc _)
  -- JUMP
  apply RG_ite
  · have hs := ih.sub c it.ev.param false w.drumEnabled hc
    cases hg : getSubroutine song d n c it.ev.param false w.drumEnabled with
    | error x => simp only; exact RG_err (hs.1 x hg)
    | ok p =>
      obtain ⟨c', id⟩ := p
      exact RG_ok (hs.2 c' id hg) _
  apply RG_ite (RG_ok hc _)
  -- PLATFORM
  apply RG_ite
  · split
    · exact RG_err (by simp [WOk])
    · exact RG_err (by simp [WOk])
    · exact RG_ok hc _
  apply RG_ite (RG_ok hc _)
  apply RG_ite (RG_ok hc _)
  apply RG_ite (RG_ok hc _)
  apply RG_ite (RG_ok hc _)
  -- INS
  apply RG_ite
  · split
    · rename_i x hx
      exact RG_err (checkInstrument_err hx)
    · split
      · rename_i ty idx hty hidx
        have hlt := hd.1 _ _ hidx
        apply RG_ite
        · exact RG_ok (usedIn_getEnvelope hc (key_plain hlt)) _
        · exact RG_ok (usedIn_getEnvelope hc (key_pcm hlt)) _
      · exact RG_err (by simp [WOk])
  apply RG_ite (RG_ok hc _)
  apply RG_ite (RG_ok hc _)
  apply RG_ite (RG_ok hc _)
  apply RG_ite (RG_ok hc _)
  -- PAN_ENVELOPE
  apply RG_ite
  · apply RG_ite
    · have hs := ih.mac c it.ev.param hc
      cases hg : getMacroTrack song d n c it.ev.param with
      | error x => exact RG_err (hs.1 x hg)
      | ok p =>
        obtain ⟨c', id⟩ := p
        exact RG_ok (hs.2 c' id hg) _
    · exact RG_ok hc _
  -- PITCH_ENVELOPE
  apply RG_ite
  · apply RG_ite
    · split
      · exact RG_err (by simp [WOk])
      · rename_i idx hidx
        have hlt := hd.2 _ _ hidx
        refine RG_ok (usedIn_getEnvelope hc ?_) _
        split
        · exact key_ext hlt
        · exact key_plain hlt
    · exact RG_ok hc _
  apply RG_ite (RG_ok hc _)
  apply RG_ite (RG_ok hc _)
  apply RG_ite (RG_ok hc _)
  exact RG_ok hc _

theorem hook_good {song : Song} {d : DataInfo} {B : Nat} (hd : DataIn B d) {n : Nat} (ih : WGood song d B n)
    (c : Conv) (w : WState) (it : TraceItem) (hc : UsedIn B c) : RG B (Mds.hook song d (n + 1) c w it) := by
  rw [hook_succ_eq]
  apply RG_ite
  · apply RG_ite
    · split
      · rename_i x hx
        exact RG_err (checkInstrument_err hx)
      · exact RG_ok hc _
    · exact RG_ok hc _
  · exact hookVis_good hd ih c _ it hc

theorem stepTrace_err {song : Song} {root : List Event} {s : PState} {e : PErr} {h : Option TraceItem}
    (hs : stepTrace song root false s = .error (e, h)) : step song root false s = .error e := by
  unfold stepTrace at hs
  unfold step
  cases hc : coreStep song root s.core with
  | error x =>
    rw [hc] at hs
    simp only [Except.error.injEq, Prod.mk.injEq] at hs
    rw [hs.1]
  | ok p =>
    rw [hc] at hs
    obtain ⟨c', o⟩ := p
    simp at hs

theorem stepTrace_ok {song : Song} {root : List Event} {s s' : PState} {t : Option (Option TraceItem)}
    (hs : stepTrace song root false s = .ok (s', t)) : ∃ em, step song root false s = .ok (s', em) := by
  unfold stepTrace at hs
  unfold step
  cases hc : coreStep song root s.core with
  | error x => rw [hc] at hs; simp at hs
  | ok p =>
    rw [hc] at hs
    obtain ⟨c', o⟩ := p
    simp only [Except.ok.injEq, Prod.mk.injEq] at hs
    exact ⟨_, by simp only []; rw [← hs.1]⟩

theorem run_good {song : Song} {d : DataInfo} {B : Nat} {n : Nat} (ih : WGood song d B n) (root : List Event) :
    ∀ (steps : Nat) (c : Conv) (w : WState) (s : PState), UsedIn B c → CoreOK song root s.core →
      RG B (runWriter song d root (n + 1) steps c w s) := by
  intro steps
  induction steps with
  | zero =>
    intro c w s _ _
    rw [runWriter]
    exact RG_err (by simp [WOk])
  | succ steps ihs =>
    intro c w s hc hs
    rw [runWriter]
    apply RG_ite (RG_ok hc _)
    have hg := step_good song root false s hs
    cases hst : stepTrace song root false s with
    | error p =>
      obtain ⟨e, h⟩ := p
      have he : e ≠ .impossible := by
        intro hi
        rw [hi] at hst
        exact hg.1 (stepTrace_err hst)
      dsimp only
      cases h with
      | none => exact RG_err (by simp [WOk, he])
      | some it =>
        dsimp only
        have hh := ih.hook c w it hc
        cases hk : Mds.hook song d n c w it with
        | error x =>
          dsimp only
          apply RG_ite
          · exact RG_err (by simp [WOk])
          · exact RG_err (hh.1 x hk)
        | ok q => exact RG_err (by simp [WOk, he])
    | ok p =>
      obtain ⟨s', t⟩ := p
      obtain ⟨em, hem⟩ := stepTrace_ok hst
      have hs' := hg.2 s' em hem
      dsimp only
      cases t with
      | none => exact ihs c w s' hc hs'
      | some t1 =>
        cases t1 with
        | none => dsimp only; exact RG_ok hc _
        | some it =>
          dsimp only
          have hh := ih.hook c w it hc
          cases hk : Mds.hook song d n c w it with
          | error x =>
            dsimp only
            apply RG_ite
            · exact RG_err (by simp [WOk])
            · exact RG_err (hh.1 x hk)
          | ok q =>
            obtain ⟨c', w'⟩ := q
            exact ihs c' w' s' (hh.2 c' w' hk) hs'

theorem sub_good {song : Song} {d : DataInfo} {B : Nat} {n : Nat} (ih : WGood song d B n)
    (c : Conv) (t : Int) (a b : Bool) (hc : UsedIn B c) : RS B (getSubroutine song d (n + 1) c t a b) := by
  rw [getSubroutine]
  dsimp only
  split
  · rename_i id _
    exact ⟨fun _ h => (by cases h), fun c' id' h => (by cases h; exact hc)⟩
  · split
    · refine ⟨fun x h => ?_, fun _ _ h => (by cases h)⟩
      cases h
      split <;> simp [WOk]
    · rename_i evs _
      split
      · rename_i x hx
        have hr : RG B (.error x) := by
          rw [← hx]
          exact ih.run _ _ _ _ _ hc (initState_ok song evs)
        exact ⟨fun y h => (by cases h; exact hr.1 _ rfl), fun _ _ h => (by cases h)⟩
      · rename_i c2 w hx
        have hr : RG B (.ok (c2, w)) := by
          rw [← hx]
          exact ih.run _ _ _ _ _ hc (initState_ok song evs)
        exact ⟨fun _ h => (by cases h), fun c' id' h => (by cases h; exact hr.2 c2 w rfl)⟩

theorem mac_good {song : Song} {d : DataInfo} {B : Nat} {n : Nat} (ih : WGood song d B n)
    (c : Conv) (t : Int) (hc : UsedIn B c) : RS B (getMacroTrack song d (n + 1) c t) := by
  rw [getMacroTrack]
  dsimp only
  split
  · exact ⟨fun _ h => (by cases h), fun c' id' h => (by cases h; exact hc)⟩
  · split
    · exact ⟨fun x h => (by cases h; simp [WOk]), fun _ _ h => (by cases h)⟩
    · rename_i evs _
      split
      · rename_i x hx
        have hr : RG B (.error x) := by
          rw [← hx]
          exact ih.run _ _ _ _ _ hc (initState_ok song evs)
        exact ⟨fun y h => (by cases h; exact hr.1 _ rfl), fun _ _ h => (by cases h)⟩
      · rename_i c2 w hx
        have hr : RG B (.ok (c2, w)) := by
          rw [← hx]
          exact ih.run _ _ _ _ _ hc (initState_ok song evs)
        exact ⟨fun _ h => (by cases h), fun c' id' h => (by cases h; exact hr.2 c2 w rfl)⟩

/-- **The writer keeps both invariants**, at every recursion budget. -/
theorem wgood {song : Song} {d : DataInfo} {B : Nat} (hd : DataIn B d) : ∀ n, WGood song d B n := by
  intro n
  induction n with
  | zero =>
    refine ⟨fun c w it _ => ?_, fun steps root c w s _ _ => ?_, fun c t a b _ => ?_, fun c t _ => ?_⟩
    · rw [Mds.hook]; exact RG_err (by simp [WOk])
    · cases steps with
      | zero => rw [runWriter]; exact RG_err (by simp [WOk])
      | succ k =>
        rw [runWriter]
        · exact RG_err (by simp [WOk])
        · intro h; cases h
    · rw [getSubroutine]; exact ⟨fun x h => (by cases h; simp [WOk]), fun _ _ h => (by cases h)⟩
    · rw [getMacroTrack]; exact ⟨fun x h => (by cases h; simp [WOk]), fun _ _ h => (by cases h)⟩
  | succ n ih =>
    exact ⟨fun c w it hc => hook_good hd ih c w it hc, fun steps root c w s hc hs => run_good ih root steps c w s hc hs,
      fun c t a b hc => sub_good ih c t a b hc, fun c t hc => mac_good ih c t hc⟩

end Ctrmml.Pipeline
