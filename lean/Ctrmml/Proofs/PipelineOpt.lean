/-
  Helper lemmas for Properties/C15: the optimise stage of the pipeline model is routed.

  `optimizeStage song steps passes` runs `Opt.optimize` with the executable validator
  (`validBool steps` = `Song_Validator` with a step budget) and classifies the outcome.
    * With enough steps the executable validator decides exactly `validAll` (C04: accepts /
      rejects) on every song the run visits, so the run equals the run with the ideal validator
      (`optimize_stable`) — the visited songs are those of the ideal run, a finite list.
    * The ideal run does not exhaust the pass budget (`C01.optimize_no_fuel`), never reads a stack
      list outside its bounds and never asks for a missing track (`optimize_NO`: Proofs/OptLists,
      Proofs/OptOOB).
    * When the `Song_Validator` after a pass throws, what it throws is one of the player's messages
      (validate stage: `validateTracks_routed`).
  Side conditions (`OptDomain`, decidable): the ones of `C01_optimize_terminates_partial`.
-/
import Ctrmml.Proofs.PipelineValidate
import Ctrmml.Proofs.OptOOB
import Ctrmml.Properties.C01
namespace Ctrmml.Pipeline
open Ctrmml Ctrmml.Player Ctrmml.Opt Ctrmml.OptSteps Ctrmml.C01 Ctrmml.Expand Tables

/-! ### the executable validator decides `validAll` -/

def isOkOut {α : Type} : Out α → Bool
  | .ok _ => true
  | _ => false

def perfOk (song : Song) (p : Nat × List Event) : Bool :=
  match perf song p.2 with | .ok _ => true | .error _ => false

theorem validateTrack_stable (song : Song) (root : List Event)
    (hs : Refine.SongNoEnd song) (hr : Tree.NoEnd root) :
    ∃ F, ∀ fuel, fuel ≥ F → (validateTrack song root fuel).routed ∧
      isOkOut (validateTrack song root fuel) = (match perf song root with | .ok _ => true | .error _ => false) := by
  obtain ⟨F0, hF0⟩ := validateTrack_routed song root hs hr
  cases hp : perf song root with
  | ok items =>
    obtain ⟨F1, hF1⟩ := C04.C04_validator_accepts song root hs hr items hp
    refine ⟨max F0 F1, fun fuel hge => ⟨hF0 fuel (by omega), ?_⟩⟩
    have := hF1 fuel (by omega)
    unfold validateTrack
    cases h : Player.runValidator song root fuel Player.initState with
    | ok s => rfl
    | error e => rw [h] at this; simp [Except.map] at this
  | error x =>
    obtain ⟨e, hne, F1, hF1⟩ := C04.C04_validator_rejects song root hs hr x hp
    refine ⟨max F0 F1, fun fuel hge => ⟨hF0 fuel (by omega), ?_⟩⟩
    have := hF1 fuel (by omega)
    unfold validateTrack
    rw [this]
    cases e <;> rfl

theorem validateTracks_stable (song : Song) (hs : Refine.SongNoEnd song) :
    ∀ (l : List (Nat × List Event)), (∀ p ∈ l, Tree.NoEnd p.2) →
      ∃ F, ∀ fuel, fuel ≥ F → (validateTracks song fuel l).routed ∧
        isOkOut (validateTracks song fuel l) = l.all (perfOk song)
  | [], _ => ⟨0, fun _ _ => by simp [validateTracks, Out.routed, isOkOut]⟩
  | (id, evs) :: rest, h => by
    obtain ⟨F1, h1⟩ := validateTrack_stable song evs hs (h (id, evs) (by simp))
    obtain ⟨F2, h2⟩ := validateTracks_stable song hs rest (fun p hp => h p (by simp [hp]))
    refine ⟨max F1 F2, fun fuel hge => ?_⟩
    obtain ⟨a1, a2⟩ := h1 fuel (by omega)
    obtain ⟨b1, b2⟩ := h2 fuel (by omega)
    unfold validateTracks
    rw [List.all_cons, ← b2]
    have hpo : perfOk song (id, evs) = (match perf song evs with | .ok _ => true | .error _ => false) := rfl
    rw [hpo, ← a2]
    cases hv : validateTrack song evs fuel with
    | ok u => exact ⟨b1, by simp [Out.bind, isOkOut]⟩
    | inputError m => rw [hv] at a1; exact ⟨a1, by simp [Out.bind, isOkOut]⟩
    | foreign k => rw [hv] at a1; exact a1.elim

/-- for a song without explicit `END` events: with enough steps `validBool` is `validAll`, and
the validate stage is routed -/
theorem validBool_stable (song : Song) (hs : Refine.SongNoEnd song) (ht : ∀ p ∈ song.tracks, Tree.NoEnd p.2) :
    ∃ F, ∀ steps, steps ≥ F → (validateSong song steps).routed ∧ validBool steps song = validAll song := by
  obtain ⟨F, hF⟩ := validateTracks_stable song hs song.tracks ht
  refine ⟨F, fun steps hge => ?_⟩
  obtain ⟨h1, h2⟩ := hF steps hge
  refine ⟨h1, ?_⟩
  have : validBool steps song = isOkOut (validateSong song steps) := by
    unfold validBool isOkOut
    cases validateSong song steps <;> rfl
  rw [this]
  exact h2

theorem songNoEnd_of_wf {song : Song} (hwf : SongWF song) :
    Refine.SongNoEnd song ∧ ∀ p ∈ song.tracks, Tree.NoEnd p.2 :=
  ⟨fun _ _ h => (hwf.track h).1, fun p hp => (hwf.tracks p hp).1⟩

/-! ### one pass, unfolded -/

theorem optimize_succ (valid : Song → Bool) (minScore : Int) (fuel : Nat) (song : Song) (subId : Int) (acc : List Match) :
    optimize valid minScore (fuel + 1) song subId acc =
      match analyzeStack song with
      | .error e => .error e
      | .ok m =>
        match findBestMatch song m subId with
        | .error e => .error e
        | .ok (s', best, subId') =>
          if !valid s' then .ok { song := s', passes := acc ++ [best], validated := false }
          else if best.bestScore > minScore then optimize valid minScore fuel s' subId' (acc ++ [best])
          else .ok { song := s', passes := acc ++ [best], validated := true } := by
  rw [optimize]
  cases analyzeStack song with
  | error e => rfl
  | ok m =>
    simp only [bind, Except.bind]
    cases findBestMatch song m subId with
    | error e => rfl
    | ok x =>
      obtain ⟨s', best, subId'⟩ := x
      simp only [pure, Except.pure]

/-- the invariants `C01.optimize_no_fuel` carries from pass to pass -/
structure PassInv (song : Song) (subId : Int) : Prop where
  wf : SongWF song
  fresh : FreshInv song subId
  valid : validAll song = true
  i16 : SongI16 song
  ids : subId + (totalEvents song : Int) < 32767

theorem PassInv.next {song : Song} {subId : Int} (h : PassInv song subId) {m : SAMap} {s' : Song} {best : Match}
    {subId' : Int} (hfb : findBestMatch song m subId = .ok (s', best, subId')) :
    SongWF s' ∧ (validAll s' = true → PassInv s' subId') ∧
      (1 ≤ best.bestScore → optMeasure s' < optMeasure song) := by
  have hnext : subId + 1 < 32768 := by have := h.ids; omega
  obtain ⟨_, hwf', hfr', hle⟩ := pass_is_step h.wf h.fresh h.valid hnext hfb
  refine ⟨hwf', fun hv => ?_, fun hs => ?_⟩
  · refine ⟨hwf', hfr', hv, pass_i16 h.wf h.fresh h.valid hnext h.i16 hfb, ?_⟩
    by_cases hs : 1 ≤ best.bestScore
    · have := (C01_pass_decreases h.wf h.fresh h.valid hnext hfb hs).2
      have := h.ids
      omega
    · -- score 0 (scores are never negative: nothing was applied)
      rcases findBestMatch_spec hfb with ⟨_, h1, h2⟩ | ⟨hbs, ⟨srcT, srcPos, hfm⟩, _⟩
      · rw [h1, h2]; exact h.ids
      · exfalso
        obtain ⟨_, _, hss, _⟩ := findMatch_spec h.wf.nodup hfm
        unfold Match.bestScore at hs hbs
        split at hs
        · omega
        · rename_i hgt
          unfold Match.loopScore at hgt hs hbs
          rw [if_neg hgt] at hbs
          -- loopScore ≥ subScore ≥ 0 and loopScore < 1, so loopScore = 0: excluded by `hbs`
          omega
  · exact optMeasure_lt (C01_pass_decreases h.wf h.fresh h.valid hnext hfb hs).1

/-! ### the run with the executable validator is the ideal run -/

theorem optimize_stable (minScore : Int) :
    ∀ (fuel : Nat) (song : Song) (subId : Int) (acc : List Match), PassInv song subId →
    ∃ S, ∀ steps, steps ≥ S →
      optimize (validBool steps) minScore fuel song subId acc = optimize validAll minScore fuel song subId acc ∧
      ∀ r, optimize validAll minScore fuel song subId acc = .ok r → r.validated = false →
        ∃ msg, validateSong r.song steps = .inputError msg ∧ msg ≠ "" := by
  intro fuel
  induction fuel with
  | zero =>
    intro song subId acc _
    exact ⟨0, fun steps _ => ⟨rfl, fun r hr => by simp [optimize] at hr⟩⟩
  | succ fuel ih =>
    intro song subId acc hI
    cases h1 : analyzeStack song with
    | error e =>
      refine ⟨0, fun steps _ => ?_⟩
      rw [optimize_succ, optimize_succ, h1]
      exact ⟨by first | rfl | trivial, fun r hr => by cases hr⟩
    | ok m =>
      cases h2 : findBestMatch song m subId with
      | error e =>
        refine ⟨0, fun steps _ => ?_⟩
        rw [optimize_succ, optimize_succ, h1]
        simp only [h2]
        exact ⟨by first | rfl | trivial, fun r hr => by cases hr⟩
      | ok x =>
        obtain ⟨s', best, subId'⟩ := x
        obtain ⟨hwf', hnext, _⟩ := hI.next h2
        obtain ⟨hs1, hs2⟩ := songNoEnd_of_wf hwf'
        obtain ⟨F1, hF1⟩ := validBool_stable s' hs1 hs2
        cases hv : validAll s' with
        | false =>
          refine ⟨F1, fun steps hge => ?_⟩
          obtain ⟨hr1, hr2⟩ := hF1 steps hge
          rw [optimize_succ, optimize_succ, h1]
          simp only [h2, hr2, hv, Bool.not_false, if_true]
          refine ⟨by first | rfl | trivial, fun r hr _ => ?_⟩
          simp only [Except.ok.injEq] at hr
          subst hr
          simp only
          have hb : validBool steps s' = false := by rw [hr2, hv]
          unfold validBool at hb
          cases hvs : validateSong s' steps with
          | ok u => rw [hvs] at hb; cases hb
          | inputError msg => rw [hvs] at hr1; exact ⟨msg, rfl, hr1⟩
          | foreign k => rw [hvs] at hr1; exact hr1.elim
        | true =>
          by_cases hgt : best.bestScore > minScore
          · obtain ⟨S2, hS2⟩ := ih s' subId' (acc ++ [best]) (hnext hv)
            refine ⟨max F1 S2, fun steps hge => ?_⟩
            obtain ⟨_, hr2⟩ := hF1 steps (by omega)
            obtain ⟨g1, g2⟩ := hS2 steps (by omega)
            rw [optimize_succ, optimize_succ, h1]
            simp only [h2, hr2, hv, Bool.not_true, Bool.false_eq_true, if_false, if_pos hgt]
            exact ⟨g1, g2⟩
          · refine ⟨F1, fun steps hge => ?_⟩
            obtain ⟨_, hr2⟩ := hF1 steps hge
            rw [optimize_succ, optimize_succ, h1]
            simp only [h2, hr2, hv, Bool.not_true, Bool.false_eq_true, if_false, if_neg hgt]
            refine ⟨by first | rfl | trivial, fun r hr hvd => ?_⟩
            simp only [Except.ok.injEq] at hr
            subst hr
            cases hvd

/-! ### the ideal run has no undefined-behaviour outcome -/

theorem optimize_NO (minScore : Int) :
    ∀ (fuel : Nat) (song : Song) (subId : Int) (acc : List Match), PassInv song subId →
      NO (optimize validAll minScore fuel song subId acc) := by
  intro fuel
  induction fuel with
  | zero =>
    intro song subId acc _
    rw [optimize]
    exact NO_err (by simp [Bad])
  | succ fuel ih =>
    intro song subId acc hI
    rw [optimize_succ]
    have hA := analyzeStack_NO (songJumpsOK_of_valid hI.wf hI.valid)
    cases h1 : analyzeStack song with
    | error e => rw [h1] at hA; exact NO_err (hA e rfl)
    | ok m =>
      simp only
      have hid : ∀ p ∈ song.tracks, p.1 < 65536 := fun p hp => by
        have h1 := hI.fresh.above p hp
        have h2 := hI.fresh.hi
        omega
      have hB := findBestMatch_NO (subId := subId) hI.wf (analyzeStack_full hI.wf.nodup hid h1) hI.fresh.track_none
      cases h2 : findBestMatch song m subId with
      | error e => rw [h2] at hB; exact NO_err (hB e rfl)
      | ok x =>
        obtain ⟨s', best, subId'⟩ := x
        obtain ⟨_, hnext, _⟩ := hI.next h2
        simp only
        cases hv : validAll s' with
        | false => simp only [Bool.not_false, if_true]; exact NO_ok _
        | true =>
          simp only [Bool.not_true, Bool.false_eq_true, if_false]
          split
          · exact ih s' subId' _ (hnext hv)
          · exact NO_ok _

theorem optimize_noFuel (minScore : Int) (hmin : 0 ≤ minScore) (fuel : Nat) (song : Song) (subId : Int) (acc : List Match)
    (hI : PassInv song subId) (hf : optMeasure song < fuel) :
    optimize validAll minScore fuel song subId acc ≠ .error .fuel :=
  optimize_no_fuel validAll (fun _ h => h) minScore hmin fuel song subId acc hI.wf hI.fresh hI.valid hI.i16 hI.ids hf

/-- more passes do not change a run that ended -/
theorem optimize_mono (valid : Song → Bool) (minScore : Int) :
    ∀ (fuel : Nat) (song : Song) (subId : Int) (acc : List Match) (k : Nat),
      optimize valid minScore fuel song subId acc ≠ .error .fuel →
      optimize valid minScore (fuel + k) song subId acc = optimize valid minScore fuel song subId acc := by
  intro fuel
  induction fuel with
  | zero => intro song subId acc k h; exact absurd (by rw [optimize]) h
  | succ fuel ih =>
    intro song subId acc k h
    have e : fuel + 1 + k = (fuel + k) + 1 := by omega
    rw [e, optimize_succ, optimize_succ]
    rw [optimize_succ] at h
    cases h1 : analyzeStack song with
    | error e => rfl
    | ok m =>
      rw [h1] at h
      simp only at h ⊢
      cases h2 : findBestMatch song m subId with
      | error e => rfl
      | ok x =>
        obtain ⟨s', best, subId'⟩ := x
        rw [h2] at h
        simp only at h ⊢
        split
        · rfl
        · rename_i hv
          rw [if_neg hv] at h
          split
          · rename_i hgt
            rw [if_pos hgt] at h
            exact ih s' subId' _ k h
          · rfl

/-! ### the domain of the optimise stage -/

/-- the side conditions under which the optimise stage is under a theorem (all decidable): the
track list is in id order with ids below 32767, `LOOP_BREAK`s have no duration, tracks are
shorter than 32767 events, `JUMP`/`NOTE` parameters are `int16_t` values, and the subroutine ids
the run can hand out stay below 32767 -/
structure OptDomain (song : Song) : Prop where
  sorted : (song.tracks.map (·.1)).Pairwise (· < ·)
  ids : ∀ p ∈ song.tracks, p.1 < 32767
  tracks : ∀ p ∈ song.tracks, BrkZero p.2 ∧ p.2.length < 32767
  i16 : SongI16 song
  size : initialSubId song + (totalEvents song : Int) < 32767

instance (song : Song) : Decidable (OptDomain song) :=
  if h1 : (song.tracks.map (·.1)).Pairwise (· < ·) then
    if h2 : ∀ p ∈ song.tracks, p.1 < 32767 then
      if h3 : ∀ p ∈ song.tracks, (∀ e ∈ p.2, e.type = ev_LOOP_BREAK → e.on = 0 ∧ e.off = 0) ∧ p.2.length < 32767 then
        if h4 : ∀ p ∈ song.tracks, ∀ e ∈ p.2, e.type = ev_JUMP ∨ e.type = ev_NOTE → -32768 ≤ e.param ∧ e.param < 32768 then
          if h5 : initialSubId song + (totalEvents song : Int) < 32767 then
            isTrue ⟨h1, h2, h3, h4, h5⟩
          else isFalse fun h => h5 h.size
        else isFalse fun h => h4 h.i16
      else isFalse fun h => h3 h.tracks
    else isFalse fun h => h2 h.ids
  else isFalse fun h => h1 h.sorted

theorem nodup_of_sorted {l : List Nat} (h : l.Pairwise (· < ·)) : l.Nodup :=
  h.imp (fun hab => Nat.ne_of_lt hab)

theorem passInv_init {song : Song} (hend : hasEndEvent song = false) (hd : OptDomain song)
    (hval : validAll song = true) : PassInv song (initialSubId song) := by
  obtain ⟨_, hne⟩ := noEnd_of_hasEndEvent hend
  exact ⟨⟨nodup_of_sorted hd.sorted, fun p hp => ⟨hne p hp, (hd.tracks p hp).1, (hd.tracks p hp).2⟩⟩,
    initialSubId_fresh hd.sorted hd.ids, hval, hd.i16, hd.size⟩

/-! ### the stage -/

/-- **The optimise stage is routed** for every song without explicit `END` events in `OptDomain`
that passed the validate stage: with enough validator steps and passes `optimizeStage` ends in the
optimised song or in an `InputError` with a message (the `Song_Validator` after a pass threw, or a
drum routine is missing) — never in an exhausted pass loop, a stack list read outside its bounds,
`std::out_of_range` from `Song::get_track`, or a validator that does not end. -/
theorem optimizeStage_routed (song : Song) (hend : hasEndEvent song = false) (hd : OptDomain song) :
    ∃ S P, ∀ steps passes, steps ≥ S → passes ≥ P → validateSong song steps = .ok () →
      (optimizeStage song steps passes).routed := by
  obtain ⟨hs1, hs2⟩ := noEnd_of_hasEndEvent hend
  obtain ⟨F0, hF0⟩ := validBool_stable song hs1 hs2
  by_cases hval : validAll song = true
  · have hI := passInv_init hend hd hval
    -- a pass budget that suffices, fixed before the steps are chosen
    obtain ⟨P, hP⟩ : ∃ P, P = optMeasure song + 1 := ⟨_, rfl⟩
    have hmin : (0 : Int) ≤ Tables.opt_min_score := by decide
    have hnf := optimize_noFuel Tables.opt_min_score hmin P song _ [] hI (by omega)
    have hno := optimize_NO Tables.opt_min_score P song _ [] hI
    obtain ⟨S, hS⟩ := optimize_stable Tables.opt_min_score P song _ [] hI
    refine ⟨S, P, fun steps passes hge hpz _ => ?_⟩
    obtain ⟨g1, g2⟩ := hS steps hge
    obtain ⟨k, hk⟩ : ∃ k, passes = P + k := ⟨passes - P, by omega⟩
    have hrun : optimize (validBool steps) Tables.opt_min_score passes song (initialSubId song) [] =
        optimize validAll Tables.opt_min_score P song (initialSubId song) [] := by
      rw [hk, optimize_mono _ _ _ _ _ _ k (by rw [g1]; exact hnf), g1]
    unfold optimizeStage
    rw [hrun]
    cases hr : optimize validAll Tables.opt_min_score P song (initialSubId song) [] with
    | ok r =>
      simp only
      cases hvd : r.validated with
      | true => simp [Out.routed]
      | false =>
        obtain ⟨msg, hm1, hm2⟩ := g2 r hr hvd
        simp only [Bool.false_eq_true, if_false, hm1]
        exact hm2
    | error e =>
      cases e with
      | fuel => exact absurd hr hnf
      | missingTrack => exact absurd (Or.inr rfl) (hno _ hr)
      | stackListOOB => exact absurd (Or.inl rfl) (hno _ hr)
      | missingDrum p => simp [Out.routed]
  · refine ⟨F0, 0, fun steps passes hge _ hok => ?_⟩
    exfalso
    obtain ⟨_, h2⟩ := hF0 steps hge
    have : validBool steps song = true := by unfold validBool; rw [hok]
    rw [h2] at this
    exact hval this

end Ctrmml.Pipeline
