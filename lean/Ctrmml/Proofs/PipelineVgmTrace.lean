/-
  Helper lemmas for Properties/C15 (vgm export stage): which errors the driver model can raise.

  `ErrIn S g`: the error recorded in the driver-wide state, if any, lies in the set `S`.
  One tracing lemma per function of Model/MdDriver that touches `G`, parameterised over `S`
  (`S .input`, `S .unsupported`, `S .tooLong`) and, for the three `vector::at` sites (PSG envelope
  stepper, PCM sample lookup), the side condition `S .oob ∨ DataOK d` together with the channel
  invariant `ChInv` (the envelope position stays on the envelope).  `DErr.nonInteger` is never
  raised on a reachable clock (`ClockInv`, Proofs/MdDriver).
-/
import Ctrmml.Proofs.MdDriver
namespace Ctrmml.Pipeline.VgmTr
set_option linter.unusedSectionVars false
open Ctrmml Ctrmml.MdDriver Ctrmml.Player Ctrmml.PlayerCh Tables

/-! ### the recorded error -/

def ErrIn (S : DErr → Prop) (g : G) : Prop := ∀ e, g.err = some e → S e

theorem ErrIn.fail {S : DErr → Prop} {g : G} {e : DErr} (h : ErrIn S g) (he : S e) : ErrIn S (g.fail e) := by
  intro x hx
  unfold G.fail at hx
  split at hx
  · exact h x hx
  · simp only [Option.some.injEq] at hx
    rw [← hx]; exact he

theorem ErrIn.of_err {S : DErr → Prop} {g g' : G} (h : ErrIn S g) (he : g'.err = g.err) : ErrIn S g' :=
  fun e hx => h e (he ▸ hx)

/-! ### PSG envelopes: the shape the stepper needs -/

/-- `n` = position of the end / loop command: before it only level bytes (`> 0x0f`) and sustain marks
(`0x01`); at it `0x00`, or `0x02 p` with `p ≤ n` -/
def EnvAt (E : List Nat) (n : Nat) : Prop :=
  n < E.length ∧ (∀ p, p < n → 0x0f < E.getD p 0 ∨ E.getD p 0 = 1) ∧
  (E.getD n 0 = 0 ∨ (E.getD n 0 = 2 ∧ n + 1 < E.length ∧ E.getD (n + 1) 0 ≤ n))

def EnvOK (E : List Nat) : Prop := ∃ n, EnvAt E n

/-- a PSG channel's envelope position is on its envelope (or the parked value `0xff`) -/
def ChInv (c : Ch) : Prop :=
  isPsg c.kind = none ∨ ∃ n, EnvAt c.envData n ∧ (c.envPos ≤ n ∨ c.envPos = 0xff)

/-- what the `vector::at` sites need from `MDSDRV_Data` -/
structure DataOK (d : Data) : Prop where
  env0 : ∃ n, EnvAt d.env0 n ∧ 3 ≤ n
  psg : ∀ id, (d.get id).type = mdsdrv_INS_PSG → EnvOK (d.get id).data
  pcm : ∀ id, (d.get id).type = mdsdrv_INS_PCM → (d.waveMap.lookup id).getD 0 < d.bank.samples.length

theorem getD_of_getElem? {E : List Nat} {p v : Nat} (h : E[p]? = some v) : E.getD p 0 = v := by
  rw [List.getD_eq_getElem?_getD, h]; rfl

theorem psgEnvValue_ok (g : G) (c : Ch) (id n : Nat) (hE : EnvAt c.envData n) (hp : c.envPos ≤ n) :
    (psgEnvValue g c id).1 = g ∧ (psgEnvValue g c id).2.1.kind = c.kind ∧
    (psgEnvValue g c id).2.1.envData = c.envData ∧
    ((psgEnvValue g c id).2.1.envPos ≤ n ∨ (psgEnvValue g c id).2.1.envPos = 0xff) := by
  obtain ⟨hlen, hlev, hend⟩ := hE
  unfold psgEnvValue
  split
  · rename_i hn
    rw [List.getElem?_eq_none_iff] at hn; omega
  · rename_i d1 hd1
    have hv := getD_of_getElem? hd1
    split
    · rename_i hgt
      refine ⟨rfl, rfl, rfl, .inl ?_⟩
      show (c.envPos + 1) % 256 ≤ n
      have : c.envPos ≠ n := by
        intro he; rw [he] at hv; rcases hend with h0 | ⟨h2, _⟩ <;> omega
      omega
    · split
      · exact ⟨rfl, rfl, rfl, .inr rfl⟩
      · exact ⟨rfl, rfl, rfl, .inl hp⟩

theorem psgEnvCmd_ok (c : Ch) (n d0 : Nat) (hE : EnvAt c.envData n) (hp : c.envPos ≤ n)
    (hd0 : c.envData.getD c.envPos 0 = d0) :
    ∃ c', psgEnvCmd c d0 = some c' ∧ c'.kind = c.kind ∧ c'.envData = c.envData ∧ c'.envPos ≤ n := by
  obtain ⟨hlen, hlev, hend⟩ := hE
  unfold psgEnvCmd
  split
  · rename_i h1
    refine ⟨_, rfl, rfl, rfl, ?_⟩
    show (c.envPos + 1) % 256 ≤ n
    have : c.envPos ≠ n := by
      intro he; rw [he] at hd0; rcases hend with h0 | ⟨h2, _⟩ <;> omega
    omega
  · split
    · rename_i h2
      have hpn : c.envPos = n := by
        rcases Nat.lt_or_ge c.envPos n with hlt | hge
        · have := hlev _ hlt; omega
        · omega
      rcases hend with h0 | ⟨_, hl2, hle⟩
      · rw [hpn] at hd0; omega
      · cases hq : c.envData[c.envPos + 1]? with
        | none => rw [List.getElem?_eq_none_iff] at hq; omega
        | some p =>
          have := getD_of_getElem? hq
          rw [hpn] at this
          exact ⟨_, rfl, rfl, rfl, by show p ≤ n; omega⟩
    · exact ⟨c, rfl, rfl, rfl, hp⟩

theorem psgEnvBody_ok (g : G) (c : Ch) (id n : Nat) (hE : EnvAt c.envData n) (hp : c.envPos ≤ n ∨ c.envPos = 0xff) :
    (psgEnvBody g c id).1 = g ∧ (psgEnvBody g c id).2.1.kind = c.kind ∧
    (psgEnvBody g c id).2.1.envData = c.envData ∧
    ((psgEnvBody g c id).2.1.envPos ≤ n ∨ (psgEnvBody g c id).2.1.envPos = 0xff) := by
  unfold psgEnvBody
  split
  · split
    · exact ⟨rfl, rfl, rfl, hp⟩
    · rename_i hne
      have hp' : c.envPos ≤ n := by
        rcases hp with h | h
        · exact h
        · exact absurd h hne
      cases hq : c.envData[c.envPos]? with
      | none => rw [List.getElem?_eq_none_iff] at hq; have := hE.1; omega
      | some d0 =>
        obtain ⟨c', hc', hk, hd, hpos⟩ := psgEnvCmd_ok c n d0 hE hp' (getD_of_getElem? hq)
        simp only [hc']
        have := psgEnvValue_ok g c' id n (hd ▸ hE) hpos
        exact ⟨this.1, this.2.1.trans hk, this.2.2.1.trans hd, this.2.2.2⟩
  · exact ⟨rfl, rfl, rfl, hp⟩

theorem psgEnvValue_g (g : G) (c : Ch) (id : Nat) :
    (psgEnvValue g c id).1 = g ∨ (psgEnvValue g c id).1 = g.fail .oob := by
  unfold psgEnvValue
  split
  · right; rfl
  · split
    · left; rfl
    · split <;> (left; rfl)

theorem psgEnvBody_g (g : G) (c : Ch) (id : Nat) :
    (psgEnvBody g c id).1 = g ∨ (psgEnvBody g c id).1 = g.fail .oob := by
  unfold psgEnvBody
  split
  · split
    · left; rfl
    · split
      · right; rfl
      · split
        · right; rfl
        · exact psgEnvValue_g ..
  · left; rfl

/-! ### the tracing family -/

/-- the channel part of the side condition -/
def Side (S : DErr → Prop) (c : Ch) : Prop := S .oob ∨ ChInv c

/-- the fields `ChInv` reads are unchanged -/
def Same (c c' : Ch) : Prop := c'.kind = c.kind ∧ c'.envData = c.envData ∧ c'.envPos = c.envPos

theorem Side.same {S : DErr → Prop} {c c' : Ch} (h : Side S c) (hs : Same c c') : Side S c' := by
  rcases h with h | h
  · exact .inl h
  · right
    obtain ⟨hk, hd, hp⟩ := hs
    unfold ChInv at h ⊢
    rw [hk, hd, hp]; exact h

def Good (S : DErr → Prop) (g : G) (c : Ch) : Prop := ErrIn S g ∧ Side S c

section
variable {S : DErr → Prop} (hi : S .input) (hu : S .unsupported) {d : Data} (hD : S .oob ∨ DataOK d)
include hi hu hD

theorem keyOffPcm_err (g : G) (c : Ch) : (keyOffPcm g c).1.err = g.err := by
  unfold keyOffPcm; split <;> rfl

theorem keyOnPcm_tr (g : G) (c : Ch) (h : ErrIn S g) : ErrIn S (keyOnPcm d g c).1 := by
  unfold keyOnPcm
  split
  · rename_i ht
    split
    · rename_i hn
      rcases hD with ho | hd
      · exact h.fail ho
      · have := hd.pcm _ ht
        rw [List.getElem?_eq_none_iff] at hn; omega
    · exact h.of_err rfl
  · exact h

theorem vSetPan_tr (g : G) (c : Ch) (h : ErrIn S g) : ErrIn S (vSetPan g c).1 := by
  unfold vSetPan
  split
  · simp only
    split
    · exact h
    · exact h.fail hi
  · exact h.fail hi
  · exact h.fail hi
  · exact h

theorem keyOff_same (c : Ch) : Same c (keyOff c).1 := by
  unfold keyOff
  split <;> exact ⟨rfl, rfl, rfl⟩

theorem vSetIns_side (c : Ch) (h : Side S c) : Side S (vSetIns d c).1 := by
  rcases h with h | h
  · exact .inl h
  rcases hD with ho | hd
  · exact .inl ho
  right
  unfold vSetIns
  simp only
  split
  · rename_i bank id hk
    split
    · exact h
    · exact .inl (by show isPsg c.kind = none; rw [hk]; rfl)
  · split
    · exact h
    · rename_i hk ht
      obtain ⟨n, hn⟩ := hd.psg _ (Decidable.not_not.mp ht)
      exact .inr ⟨n, hn, .inl (Nat.zero_le n)⟩
  · split
    · exact h
    · rename_i hk ht
      obtain ⟨n, hn⟩ := hd.psg _ (Decidable.not_not.mp ht)
      exact .inr ⟨n, hn, .inl (Nat.zero_le n)⟩
  · exact h

theorem setIns_tr (g : G) (c : Ch) (h : Good S g c) : Good S (setIns d g c).1 (setIns d g c).2.1 := by
  refine ⟨h.1, ?_⟩
  have h1 := vSetIns_side hi hu hD c h.2
  exact h1.same ⟨rfl, rfl, rfl⟩

theorem noteStart_tr (g : G) (c : Ch) (e : Event) (h : Good S g c) :
    Good S (noteStart g c e).1 (noteStart g c e).2.1 := by
  unfold noteStart
  simp only
  split
  · refine ⟨?_, ?_⟩
    · have h0 : ErrIn S (keyOffPcm g { c with notePitch := u16 ((e.param + c.var ev_TRANSPOSE) * 256 + c.var ev_DETUNE), keyOn := true }).1 :=
        h.1.of_err (keyOffPcm_err hi hu hD _ _)
      simp only
      split
      · exact h0.fail hu
      · exact h0
    · have hs := keyOff_same hi hu hD { c with notePitch := u16 ((e.param + c.var ev_TRANSPOSE) * 256 + c.var ev_DETUNE), keyOn := true }
      exact h.2.same ⟨hs.1, hs.2.1, hs.2.2⟩
  · exact ⟨h.1, h.2.same ⟨rfl, rfl, rfl⟩⟩

theorem insOrVol_tr (g : G) (c : Ch) (h : Good S g c) : Good S (insOrVol d g c).1 (insOrVol d g c).2.1 := by
  unfold insOrVol
  split
  · have h1 := setIns_tr hi hu hD g c h
    exact ⟨h1.1, h1.2.same ⟨rfl, rfl, rfl⟩⟩
  · split
    · exact ⟨h.1, h.2.same ⟨rfl, rfl, rfl⟩⟩
    · exact h

theorem writeEvent_tr (g : G) (c : Ch) (e : Event) (h : Good S g c) :
    Good S (writeEvent d g c e).1 (writeEvent d g c e).2.1 := by
  unfold writeEvent
  simp only
  split
  · exact ⟨h.1.of_err rfl, h.2⟩
  split
  · exact insOrVol_tr hi hu hD _ _ (noteStart_tr hi hu hD g c e h)
  split
  · exact insOrVol_tr hi hu hD g c h
  split
  · exact ⟨h.1.of_err (keyOffPcm_err hi hu hD g c), h.2.same (keyOff_same hi hu hD c)⟩
  split
  · exact ⟨h.1.of_err (keyOffPcm_err hi hu hD g c), h.2.same (keyOff_same hi hu hD c)⟩
  split
  · exact ⟨h.1, h.2.same ⟨rfl, rfl, rfl⟩⟩
  split
  · exact ⟨h.1.of_err rfl, h.2.same ⟨rfl, rfl, rfl⟩⟩
  split
  · exact ⟨h.1.fail hu, h.2⟩
  split
  · exact ⟨vSetPan_tr hi hu hD g c h.1, h.2⟩
  split
  · split
    · exact ⟨h.1.fail hu, h.2⟩
    · exact h
  · exact h

theorem chStep_tr (song : Song) (g : G) (c : Ch) (h : Good S g c) :
    Good S (chStep d song g c).1 (chStep d song g c).2.1 := by
  unfold chStep
  simp only
  split
  · exact ⟨h.1.fail hi, h.2.same ⟨rfl, rfl, rfl⟩⟩
  · split
    · exact ⟨h.1, h.2.same ⟨rfl, rfl, rfl⟩⟩
    · exact writeEvent_tr hi hu hD _ _ _ ⟨h.1, h.2.same ⟨rfl, rfl, rfl⟩⟩

theorem chSettle_tr (song : Song) (fuel : Nat) :
    ∀ (g : G) (c : Ch), Good S g c → Good S (chSettle d song fuel g c).1 (chSettle d song fuel g c).2.1 := by
  induction fuel with
  | zero =>
    intro g c h
    unfold chSettle
    split
    · exact h
    · exact ⟨h.1.fail hu, h.2⟩
  | succ n ih =>
    intro g c h
    unfold chSettle
    split
    · exact h
    · have h1 := chStep_tr hi hu hD song g c h
      generalize chStep d song g c = r at h1 ⊢
      obtain ⟨g1, c1, o1⟩ := r
      have h2 := ih g1 c1 h1
      dsimp only at h2 ⊢
      generalize chSettle d song n g1 c1 = r2 at h2 ⊢
      obtain ⟨g2, c2, o2⟩ := r2
      exact h2

theorem chDec_tr (g : G) (c : Ch) (h : Good S g c) : Good S (chDec d g c).1 (chDec d g c).2.1 := by
  unfold chDec
  split
  · split
    · exact writeEvent_tr hi hu hD _ _ _ ⟨h.1, h.2.same ⟨rfl, rfl, rfl⟩⟩
    · exact ⟨h.1, h.2.same ⟨rfl, rfl, rfl⟩⟩
  · split
    · exact ⟨h.1, h.2.same ⟨rfl, rfl, rfl⟩⟩
    · exact h

theorem chTick_tr (song : Song) (g : G) (c : Ch) (h : Good S g c) :
    Good S (chTick d song g c).1 (chTick d song g c).2.1 := by
  unfold chTick
  split
  · exact h
  · exact chSettle_tr hi hu hD song _ _ _ (chDec_tr hi hu hD g c h)

theorem chTicks_tr (song : Song) (n : Nat) :
    ∀ (g : G) (c : Ch), Good S g c → Good S (chTicks d song n g c).1 (chTicks d song n g c).2.1 := by
  induction n with
  | zero => intro g c h; exact h
  | succ n ih =>
    intro g c h
    unfold chTicks
    have h1 := chTick_tr hi hu hD song g c h
    generalize chTick d song g c = r at h1 ⊢
    obtain ⟨g1, c1, o1⟩ := r
    have h2 := ih g1 c1 h1
    dsimp only at h2 ⊢
    generalize chTicks d song n g1 c1 = r2 at h2 ⊢
    obtain ⟨g2, c2, o2⟩ := r2
    exact h2

theorem psgEnvRestart_side (c : Ch) (h : Side S c) : Side S (psgEnvRestart c) := by
  unfold psgEnvRestart
  split
  · rcases h with h | h
    · exact .inl h
    · right
      rcases h with h | ⟨n, hn, _⟩
      · exact .inl h
      · exact .inr ⟨n, hn, .inl (Nat.zero_le n)⟩
  · exact h

theorem psgEnvBody_tr (g : G) (c : Ch) (id : Nat) (hk : isPsg c.kind = some id) (h : Good S g c) :
    Good S (psgEnvBody g c id).1 (psgEnvBody g c id).2.1 := by
  rcases h.2 with ho | hc
  · refine ⟨?_, .inl ho⟩
    rcases psgEnvBody_g g c id with e | e <;> rw [e]
    · exact h.1
    · exact h.1.fail ho
  · rcases hc with hn | ⟨n, hE, hp⟩
    · rw [hk] at hn; cases hn
    · obtain ⟨e1, e2, e3, e4⟩ := psgEnvBody_ok g c id n hE hp
      refine ⟨by rw [e1]; exact h.1, .inr (.inr ⟨n, by rw [e3]; exact hE, e4⟩)⟩

theorem chEnv_tr (g : G) (c : Ch) (h : Good S g c) : Good S (chEnv g c).1 (chEnv g c).2.1 := by
  unfold chEnv
  split
  · rename_i id hk
    unfold psgEnvelope
    split
    · exact h
    · apply psgEnvBody_tr hi hu hD
      · have : (psgEnvRestart c).kind = c.kind := by unfold psgEnvRestart; split <;> rfl
        rw [this]; exact hk
      · exact ⟨h.1, psgEnvRestart_side hi hu hD c h.2⟩
  · exact h

theorem chAfter_tr (g : G) (c : Ch) (h : Good S g c) : Good S (chAfter d g c).1 (chAfter d g c).2.1 := by
  unfold chAfter
  split
  · exact h
  · simp only
    have h1 := chEnv_tr hi hu hD g c h
    refine ⟨?_, ?_⟩
    · unfold chKeyOnPcm
      split
      · apply keyOnPcm_tr hi hu hD
        split
        · exact h1.1.fail hu
        · exact h1.1
      · split
        · exact h1.1.fail hu
        · exact h1.1
    · have hs : Same (chEnv g c).2.1 (chKeyOn (chPitch (chEnv g c).2.1).1).1 := by
        unfold chKeyOn chPitch
        simp only
        split <;> exact ⟨rfl, rfl, rfl⟩
      exact h1.2.same hs

theorem chUpdate_tr (song : Song) (n : Nat) (g : G) (c : Ch) (h : Good S g c) :
    Good S (chUpdate d song n g c).1 (chUpdate d song n g c).2.1 := by
  unfold chUpdate
  exact chAfter_tr hi hu hD _ _ (chTicks_tr hi hu hD song n g c h)

theorem updateAll_tr (song : Song) (n : Nat) :
    ∀ (cs : List Ch) (g : G), ErrIn S g → (∀ c ∈ cs, Side S c) →
      ErrIn S (updateAll d song n g cs).1 ∧ ∀ c ∈ (updateAll d song n g cs).2.1, Side S c := by
  intro cs
  induction cs with
  | nil => intro g h _; exact ⟨h, fun c hc => by cases hc⟩
  | cons c cs ih =>
    intro g h hall
    unfold updateAll
    have h1 : Good S (if c.enabled then chUpdate d song n g c else (g, c, [])).1
        (if c.enabled then chUpdate d song n g c else (g, c, [])).2.1 := by
      split
      · exact chUpdate_tr hi hu hD song n g c ⟨h, hall c (by simp)⟩
      · exact ⟨h, hall c (by simp)⟩
    generalize (if c.enabled then chUpdate d song n g c else (g, c, [])) = r at h1 ⊢
    obtain ⟨g1, c1, o1⟩ := r
    have h2 := ih g1 h1.1 (fun x hx => hall x (by simp [hx]))
    dsimp only at h1 h2 ⊢
    generalize updateAll d song n g1 cs = r2 at h2 ⊢
    obtain ⟨g2, cs2, o2⟩ := r2
    dsimp only at h2 ⊢
    refine ⟨h2.1, fun x hx => ?_⟩
    rcases List.mem_cons.mp hx with rfl | hx
    · exact h1.2
    · exact h2.2 x hx

/-- error and channel side condition of a driver state -/
def DrvGood (S : DErr → Prop) (s : Drv) : Prop := ErrIn S s.g ∧ ∀ c ∈ s.chans, Side S c

theorem seqUpdate_tr (song : Song) (s : Drv) (h : DrvGood S s) : DrvGood S (seqUpdate d song s).1 := by
  unfold seqUpdate
  simp only
  have h2 := updateAll_tr hi hu hD song (tempoStep s.tempoCounter s.g.tempoDelta).1 s.chans s.g h.1 h.2
  generalize updateAll d song (tempoStep s.tempoCounter s.g.tempoDelta).1 s.g s.chans = r2 at h2 ⊢
  obtain ⟨g2, cs2, o2⟩ := r2
  exact h2

theorem stepSeq_tr (song : Song) (s : Drv) (h : DrvGood S s) : DrvGood S (stepSeq d song s).1 := by
  unfold stepSeq
  split
  · exact seqUpdate_tr hi hu hD song _ h
  · exact h

theorem resetLoopCh_same (c : Ch) : Same c (resetLoopCh c) := by
  unfold resetLoopCh
  simp only
  split <;> exact ⟨rfl, rfl, rfl⟩

theorem stepLoopPcm_tr (s : Drv) (h : DrvGood S s) : DrvGood S (stepLoop (stepPcm s)).1 := by
  have h1 : DrvGood S (stepPcm s) := by
    unfold stepPcm
    split
    · exact h
    · exact h
  unfold stepLoop
  split
  · refine ⟨h1.1.of_err rfl, fun c hc => ?_⟩
    obtain ⟨c0, hc0, rfl⟩ := List.mem_map.mp hc
    exact (h1.2 c0 hc0).same (resetLoopCh_same hi hu hD c0)
  · exact h1

theorem playStep_chans (song : Song) (s : Drv) :
    (playStep d song s).1.chans = (stepLoop (stepPcm (stepSeq d song s).1)).1.chans := by
  unfold playStep
  simp only
  split <;> rfl

/-- on a reachable clock `play_step` raises nothing itself -/
theorem playStep_tr (song : Song) (s : Drv) (t : Int) (hinv : ClockInv (t, s.seqCounter, s.pcmCounter))
    (h : DrvGood S s) : DrvGood S (playStep d song s).1 := by
  obtain ⟨k, hk⟩ := counted_exists t hinv.1
  have hp := playStep_inv d song s t k hinv hk
  have h3 := stepLoopPcm_tr hi hu hD _ (stepSeq_tr hi hu hD song s h)
  refine ⟨?_, ?_⟩
  · rw [hp.2.2.2.2.2.2]; exact h3.1
  · rw [playStep_chans hi hu hD]; exact h3.2

theorem exportLoop_tr (ht : S .tooLong) (song : Song) (fuel : Nat) :
    ∀ (s : Drv) (elapsed delta : Int) (acc : List Vgm.Op), ClockInv (elapsed, s.seqCounter, s.pcmCounter) →
      DrvGood S s → ErrIn S (exportLoop d song fuel s elapsed delta acc).1.g := by
  induction fuel with
  | zero => intro s elapsed delta acc _ h; exact h.1.fail ht
  | succ fuel ih =>
    intro s elapsed delta acc hinv h
    unfold exportLoop
    split
    · exact h.1.fail ht
    · obtain ⟨k, hk⟩ := counted_exists elapsed hinv.1
      have hp := playStep_inv d song s elapsed k hinv hk
      have h1 := playStep_tr hi hu hD song s elapsed hinv h
      generalize playStep d song s = r at hp h1 ⊢
      obtain ⟨s', o, dl⟩ := r
      simp only at hp h1 ⊢
      split
      · exact h1.1
      · split
        · exact h1.1
        · exact ih s' (elapsed + dl) dl _ hp.1 h1

theorem mkCh_side (id : Nat) (root : List Event) : Side S (mkCh d id root).1 := by
  rcases hD with ho | hd
  · exact .inl ho
  right
  obtain ⟨n, hn, h3⟩ := hd.env0
  unfold mkCh
  simp only
  split
  · exact .inl rfl
  · split
    · exact .inr ⟨n, hn, .inl h3⟩
    · split
      · exact .inr ⟨n, hn, .inl h3⟩
      · exact .inl rfl

theorem playSong_good (song : Song) : DrvGood S (playSong d song).1 := by
  refine ⟨fun e he => by simp [playSong] at he, ?_⟩
  have key : ∀ (l : List (Nat × List Event)) (acc : List Ch × List Op), (∀ c ∈ acc.1, Side S c) →
      ∀ c ∈ (l.foldl (fun (acc : List Ch × List Op) (t : Nat × List Event) =>
        if t.1 < 16 then
          let (c, o) := mkCh d t.1 t.2
          (acc.1 ++ [c], acc.2 ++ o)
        else acc) acc).1, Side S c := by
    intro l
    induction l with
    | nil => intro acc h; exact h
    | cons t l ih =>
      intro acc h
      simp only [List.foldl_cons]
      apply ih
      split
      · intro c hc
        have hm := mkCh_side hi hu hD t.1 t.2
        generalize mkCh d t.1 t.2 = r at hm hc ⊢
        obtain ⟨c1, o1⟩ := r
        simp only [List.mem_append, List.mem_singleton] at hc
        rcases hc with hc | rfl
        · exact h c hc
        · exact hm
      · exact h
  exact key song.tracks ([], []) (fun c hc => by cases hc)

/-- **the errors of `vgm_export`'s driver part** lie in `S` -/
theorem exportOps_errIn (ht : S .tooLong) (song : Song) (tags : Vgm.Tags) (e : DErr)
    (h : exportOps d song tags = .error e) : S e := by
  unfold exportOps at h
  have h0 := playSong_good hi hu hD song
  have hc : ClockInv (0, (playSong d song).1.seqCounter, (playSong d song).1.pcmCounter) := by
    have : (playSong d song).1.seqCounter = 0 ∧ (playSong d song).1.pcmCounter = 0 := by simp [playSong]
    rw [this.1, this.2]; exact clockInv_init
  generalize playSong d song = r at h h0 hc
  obtain ⟨s, o0⟩ := r
  simp only at h h0 hc
  have h1 := exportLoop_tr hi hu hD ht song exportFuel s 0 0 [] hc h0
  generalize exportLoop d song exportFuel s 0 0 [] = r at h h1
  obtain ⟨s1, o1⟩ := r
  simp only at h h1
  split at h
  · rename_i e' he'
    cases h
    exact h1 _ he'
  · cases h

end

end Ctrmml.Pipeline.VgmTr
