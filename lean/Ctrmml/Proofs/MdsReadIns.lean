/-
  C09, reader tie (1): instruction lists.

  A compiled stream seen as a list of instructions (`Ins` = the bytes of one instruction; `[]` is
  a *hole*: the place where `convert_track` will back-patch a loop-break instruction).  For a
  hole-free, well-formed list the reader-side decoder `MdsResolve.decodeStream` — which finds
  instruction boundaries with `SeqWf.instrLen` — visits exactly one instruction per list element
  and collects exactly the operands `runI` collects from the list (`decode_run`).
-/
import Ctrmml.Spec.MdsResolve
import Ctrmml.Spec.MdsFrag
namespace Ctrmml.MdsRead
open Ctrmml Ctrmml.Seq Ctrmml.SeqWf Ctrmml.MdsResolve Tables

abbrev Ins := List Nat

/-- length of a command instruction (opcode `≥ e0`): the command part of `SeqWf.instrLen` -/
def cmdLen (b : Nat) : Option Nat :=
  if b = mds_SLR ∨ b = mds_FINISH ∨ b = mds_LP then some 1
  else if b = mds_JUMP ∨ b = mds_LPBL ∨ twoArgOps.contains b then some 3
  else if b = mds_LPF ∨ b = mds_LPB ∨ b = mds_PAT ∨ b = mds_DMFINISH ∨ oneArgOps.contains b then some 2
  else none

inductive InsOk : Ins → Prop
  | hole : InsOk []
  | rest (b : Nat) : b ≤ 0x80 → InsOk [b]
  | bare (t : Nat) : 0x81 ≤ t → t < 0xe0 → InsOk [t]
  | full (t l : Nat) : 0x81 ≤ t → t < 0xe0 → l < 0x80 → InsOk [t, l]
  | cmd (b : Nat) (r : List Nat) : b ≥ 0xe0 → cmdLen b = some (1 + r.length) → InsOk (b :: r)

/-- a note/tie byte without its length byte -/
def Bare (i : Ins) : Prop := ∃ t, i = [t] ∧ 0x81 ≤ t ∧ t < 0xe0

/-- what may follow a length-less note: nothing yet, a hole, or a byte `≥ 80` -/
def HeadOk : List Ins → Prop
  | [] => True
  | [] :: _ => True
  | (b :: _) :: _ => b ≥ 0x80

def Chain : List Ins → Prop
  | [] => True
  | i :: rest => (Bare i → HeadOk rest) ∧ Chain rest

def LastBare (I : List Ins) : Prop := ∃ I0 t, I = I0 ++ [[t]] ∧ 0x81 ≤ t ∧ t < 0xe0

theorem headOk_append (I J : List Ins) : HeadOk (I ++ J) ↔ (if I = [] then HeadOk J else HeadOk I) := by
  cases I with
  | nil => simp
  | cons i I' => cases i <;> simp [HeadOk]

theorem lastBare_cons (i : Ins) (I : List Ins) : LastBare (i :: I) ↔ (I = [] ∧ Bare i) ∨ LastBare I := by
  constructor
  · rintro ⟨I0, t, h, h1, h2⟩
    cases I0 with
    | nil =>
      simp only [List.nil_append, List.cons.injEq] at h
      exact .inl ⟨h.2, t, h.1, h1, h2⟩
    | cons a I0' =>
      simp only [List.cons_append, List.cons.injEq] at h
      exact .inr ⟨I0', t, h.2, h1, h2⟩
  · rintro (⟨rfl, t, rfl, h1, h2⟩ | ⟨I0, t, rfl, h1, h2⟩)
    · exact ⟨[], t, rfl, h1, h2⟩
    · exact ⟨i :: I0, t, rfl, h1, h2⟩

theorem not_lastBare_nil : ¬ LastBare [] := by
  rintro ⟨I0, t, h, _⟩
  cases I0 <;> simp at h

theorem chain_append (I J : List Ins) : Chain (I ++ J) ↔ Chain I ∧ Chain J ∧ (LastBare I → HeadOk J) := by
  induction I with
  | nil => simp [Chain, not_lastBare_nil]
  | cons i I ih =>
    simp only [List.cons_append, Chain, ih, headOk_append, lastBare_cons]
    by_cases hI : I = []
    · subst hI
      simp only [if_true, Chain, not_lastBare_nil, HeadOk, or_false, true_and, false_imp_iff, and_true, implies_true]
      constructor
      · rintro ⟨h1, h2⟩; exact ⟨h2, h1⟩
      · rintro ⟨h1, h2⟩; exact ⟨h2, h1⟩
    · simp only [hI, if_false, false_and, false_or]
      constructor
      · rintro ⟨h1, h2, h3, h4⟩; exact ⟨⟨h1, h2⟩, h3, h4⟩
      · rintro ⟨⟨h1, h2⟩, h3, h4⟩; exact ⟨h1, h2, h3, h4⟩

theorem lastBare_snoc (I : List Ins) (j : Ins) : LastBare (I ++ [j]) ↔ Bare j := by
  constructor
  · rintro ⟨I0, t, h, h1, h2⟩
    have := List.append_inj' h rfl
    exact ⟨t, by simpa using this.2, h1, h2⟩
  · rintro ⟨t, rfl, h1, h2⟩
    exact ⟨I, t, rfl, h1, h2⟩

/-! ### what the decoder does with one instruction -/

inductive Act
  | stop (o : Option Op)
  | go (drum : Bool) (o : Option Op)

/-- `decodeStream`'s case distinction on the opcode `b` and the byte `a` after it -/
def act (b a : Nat) (drum : Bool) : Act :=
  if b = mds_FINISH then .stop none
  else if b = mds_JUMP then .stop none
  else if b = mds_DMFINISH then .stop (some (Op.dmfinish a))
  else if mds_NOTE ≤ b ∧ b < mds_SLR then .go drum (some (if drum then Op.drumNote (b - mds_NOTE) else Op.note (b - mds_NOTE)))
  else if b = mds_INS then .go drum (some (Op.ins a))
  else if b = mds_PCM then .go drum (some (Op.pcm a))
  else if b = mds_PEG then .go drum (some (Op.peg a))
  else if b = mds_MTAB then .go drum (some (Op.mtab a))
  else if b = mds_PAT then .go drum (some (Op.pat a))
  else if b = mds_FLG ∧ a < 0x80 then .go (decide (a &&& 8 ≠ 0)) none
  else .go drum none

theorem decodeStream_step (seq : List Nat) (fuel pc : Nat) (drum : Bool) (acc : List Op) {b len : Nat}
    (hb : seq[pc]? = some b) (hl : instrLen seq pc = some len) (hin : pc + len ≤ seq.length) :
    decodeStream seq (fuel + 1) pc drum acc =
      match act b ((rd seq (pc + 1)).getD 0) drum with
      | .stop o => some ((o.toList ++ acc).reverse, pc + len)
      | .go d o => decodeStream seq fuel (pc + len) d (o.toList ++ acc) := by
  have hin' : ¬ pc + len > seq.length := by omega
  rw [decodeStream]
  have hb' : rd seq pc = some b := hb
  simp only [hb', hl, hin', if_false]
  generalize (rd seq (pc + 1)).getD 0 = a
  unfold act
  by_cases c1 : b = mds_FINISH
  · simp only [if_pos c1]; simp
  by_cases c2 : b = mds_JUMP
  · simp only [if_neg c1, if_pos c2]; simp
  by_cases c3 : b = mds_DMFINISH
  · simp only [if_neg c1, if_neg c2, if_pos c3]; simp
  by_cases c4 : mds_NOTE ≤ b ∧ b < mds_SLR
  · simp only [if_neg c1, if_neg c2, if_neg c3, if_pos c4]; simp
  by_cases c5 : b = mds_INS
  · simp only [if_neg c1, if_neg c2, if_neg c3, if_neg c4, if_pos c5]; simp
  by_cases c6 : b = mds_PCM
  · simp only [if_neg c1, if_neg c2, if_neg c3, if_neg c4, if_neg c5, if_pos c6]; simp
  by_cases c7 : b = mds_PEG
  · simp only [if_neg c1, if_neg c2, if_neg c3, if_neg c4, if_neg c5, if_neg c6, if_pos c7]; simp
  by_cases c8 : b = mds_MTAB
  · simp only [if_neg c1, if_neg c2, if_neg c3, if_neg c4, if_neg c5, if_neg c6, if_neg c7, if_pos c8]; simp
  by_cases c9 : b = mds_PAT
  · simp only [if_neg c1, if_neg c2, if_neg c3, if_neg c4, if_neg c5, if_neg c6, if_neg c7, if_neg c8, if_pos c9]; simp
  by_cases c10 : b = mds_FLG ∧ a < 0x80
  · simp only [if_neg c1, if_neg c2, if_neg c3, if_neg c4, if_neg c5, if_neg c6, if_neg c7, if_neg c8, if_neg c9, if_pos c10]; simp
  · simp only [if_neg c1, if_neg c2, if_neg c3, if_neg c4, if_neg c5, if_neg c6, if_neg c7, if_neg c8, if_neg c9, if_neg c10]; simp

/-- the decoder state `(drum flag, operands so far — newest first)` after one instruction; a
terminator leaves the flag alone -/
def stepI (i : Ins) (s : Bool × List Op) : Bool × List Op :=
  match i with
  | [] => s
  | b :: r =>
    match act b (r.headD 0) s.1 with
    | .go d o => (d, o.toList ++ s.2)
    | .stop o => (s.1, o.toList ++ s.2)

def runI (I : List Ins) (s : Bool × List Op) : Bool × List Op := I.foldl (fun s i => stepI i s) s

theorem runI_append (I J : List Ins) (s : Bool × List Op) : runI (I ++ J) s = runI J (runI I s) := by
  simp [runI, List.foldl_append]

theorem runI_cons (i : Ins) (I : List Ins) (s : Bool × List Op) : runI (i :: I) s = runI I (stepI i s) := rfl

theorem runI_nil (s : Bool × List Op) : runI [] s = s := rfl

/-- the opcode decides everything for an instruction without operand byte -/
theorem act_single {b : Nat} (h : InsOk [b]) (a : Nat) (d : Bool) : act b a d = act b 0 d := by
  have key : b ≤ 0xdf ∨ b = mds_SLR ∨ b = mds_FINISH ∨ b = mds_LP := by
    cases h with
    | rest _ h => left; omega
    | bare _ _ h => left; omega
    | cmd _ _ hge hl =>
      right
      unfold cmdLen at hl
      by_cases h1 : b = mds_SLR ∨ b = mds_FINISH ∨ b = mds_LP
      · exact h1
      · simp only [h1, if_false] at hl
        split at hl
        · simp at hl
        · split at hl <;> simp at hl
  unfold act
  rcases key with h | rfl | rfl | rfl
  · have n1 : b ≠ mds_FINISH := by simp [mds_FINISH]; omega
    have n2 : b ≠ mds_JUMP := by simp [mds_JUMP]; omega
    have n3 : b ≠ mds_DMFINISH := by simp [mds_DMFINISH]; omega
    have n4 : b ≠ mds_INS := by simp [mds_INS]; omega
    have n5 : b ≠ mds_PCM := by simp [mds_PCM]; omega
    have n6 : b ≠ mds_PEG := by simp [mds_PEG]; omega
    have n7 : b ≠ mds_MTAB := by simp [mds_MTAB]; omega
    have n8 : b ≠ mds_PAT := by simp [mds_PAT]; omega
    have n9 : b ≠ mds_FLG := by simp [mds_FLG]; omega
    simp only [n1, n2, n3, n4, n5, n6, n7, n8, n9, if_false, false_and]
  · simp [mds_SLR, mds_FINISH, mds_JUMP, mds_DMFINISH, mds_NOTE, mds_INS, mds_PCM, mds_PEG, mds_MTAB, mds_PAT, mds_FLG]
  · simp [mds_FINISH]
  · simp [mds_LP, mds_SLR, mds_FINISH, mds_JUMP, mds_DMFINISH, mds_NOTE, mds_INS, mds_PCM, mds_PEG, mds_MTAB, mds_PAT, mds_FLG]

theorem instrLen_cmd {seq : List Nat} {pc b : Nat} (hb : seq[pc]? = some b) (hge : b ≥ 0xe0) :
    instrLen seq pc = cmdLen b := by
  have a1 : ¬ b ≤ mds_REST := by simp [mds_REST]; omega
  have a2 : ¬ b < mds_SLR := by simp [mds_SLR]; omega
  simp only [instrLen, rd, hb, a1, a2, if_false, cmdLen]

/-- a note is an opcode for the decoder whatever follows it -/
theorem act_note {t : Nat} (h1 : 0x81 ≤ t) (h2 : t < 0xe0) (a : Nat) (d : Bool) : act t a d = act t 0 d := by
  unfold act
  have n1 : t ≠ mds_FINISH := by simp [mds_FINISH]; omega
  have n2 : t ≠ mds_JUMP := by simp [mds_JUMP]; omega
  have n3 : t ≠ mds_DMFINISH := by simp [mds_DMFINISH]; omega
  have n4 : t ≠ mds_INS := by simp [mds_INS]; omega
  have n5 : t ≠ mds_PCM := by simp [mds_PCM]; omega
  have n6 : t ≠ mds_PEG := by simp [mds_PEG]; omega
  have n7 : t ≠ mds_MTAB := by simp [mds_MTAB]; omega
  have n8 : t ≠ mds_PAT := by simp [mds_PAT]; omega
  have n9 : t ≠ mds_FLG := by simp [mds_FLG]; omega
  simp only [n1, n2, n3, n4, n5, n6, n7, n8, n9, if_false, false_and]

/-- extending a length-less note by its length byte changes nothing for the decoder -/
theorem stepI_full {t : Nat} (h1 : 0x81 ≤ t) (h2 : t < 0xe0) (l : Nat) (s : Bool × List Op) :
    stepI [t, l] s = stepI [t] s := by
  simp only [stepI, List.headD_cons, List.headD_nil]
  rw [act_note h1 h2 l]

theorem act_go_of_not_term {b : Nat} (h : isTermOp b = false) (a : Nat) (d : Bool) :
    ∃ d' o, act b a d = .go d' o := by
  simp only [isTermOp, Bool.or_eq_false_iff, beq_eq_false_iff_ne] at h
  obtain ⟨⟨h1, h2⟩, h3⟩ := h
  unfold act
  simp only [h1, h2, h3, if_false]
  repeat' split
  all_goals exact ⟨_, _, rfl⟩

theorem act_stop_of_term {b : Nat} (h : isTermOp b = true) (a : Nat) (d : Bool) :
    ∃ o, act b a d = .stop o := by
  simp only [isTermOp, Bool.or_eq_true, beq_iff_eq] at h
  unfold act
  rcases h with (rfl | rfl) | rfl
  · exact ⟨none, by simp⟩
  · exact ⟨none, by simp [mds_JUMP, mds_FINISH]⟩
  · exact ⟨some (Op.dmfinish a), by simp [mds_DMFINISH, mds_JUMP, mds_FINISH]⟩

/-- the byte right after position `pre.length` of `pre ++ (i ++ rest)` -/
theorem get_at (pre i rest : List Nat) (k : Nat) (hk : k < i.length) : (pre ++ (i ++ rest))[pre.length + k]? = i[k]? := by
  rw [List.getElem?_append_right (by omega)]
  simp only [Nat.add_sub_cancel_left]
  rw [List.getElem?_append_left hk]

/-- what `instrLen` and the operand read give at the start of a well-formed instruction that is
followed by `rest` -/
theorem ins_read (pre : List Nat) {i : Ins} (hi : InsOk i) (hne : i ≠ []) (rest : List Nat)
    (hnext : Bare i → ∃ nb r, rest = nb :: r ∧ nb ≥ 0x80) :
    ∃ b r, i = b :: r ∧ (pre ++ (i ++ rest))[pre.length]? = some b ∧
      instrLen (pre ++ (i ++ rest)) pre.length = some i.length ∧
      ∀ d, act b ((rd (pre ++ (i ++ rest)) (pre.length + 1)).getD 0) d = act b (r.headD 0) d := by
  cases hi with
  | hole => exact absurd rfl hne
  | rest b hb =>
    have r0 : (pre ++ ([b] ++ rest))[pre.length]? = some b := by simpa using get_at pre [b] rest 0 (by simp)
    refine ⟨b, [], rfl, r0, ?_, fun d => ?_⟩
    · simp [instrLen, rd, r0, mds_REST, hb]
    · rw [act_single (.rest b hb)]; rfl
  | bare t h1 h2 =>
    obtain ⟨nb, r, rfl, hnb⟩ := hnext ⟨t, rfl, h1, h2⟩
    have r0 : (pre ++ ([t] ++ nb :: r))[pre.length]? = some t := by simpa using get_at pre [t] (nb :: r) 0 (by simp)
    have r1 : (pre ++ ([t] ++ nb :: r))[pre.length + 1]? = some nb := by
      simpa using get_at pre [t, nb] r 1 (by simp)
    refine ⟨t, [], rfl, r0, ?_, fun d => ?_⟩
    · have a1 : ¬ t ≤ 128 := by omega
      have a2 : t < 224 := by omega
      have a3 : ¬ nb < 128 := by omega
      simp [instrLen, rd, r0, r1, mds_REST, mds_SLR, a1, a2, a3]
    · rw [act_note h1 h2]; rfl
  | full t l h1 h2 h3 =>
    have r0 : (pre ++ ([t, l] ++ rest))[pre.length]? = some t := by simpa using get_at pre [t, l] rest 0 (by simp)
    have r1 : (pre ++ ([t, l] ++ rest))[pre.length + 1]? = some l := by simpa using get_at pre [t, l] rest 1 (by simp)
    refine ⟨t, [l], rfl, r0, ?_, fun d => ?_⟩
    · have a1 : ¬ t ≤ 128 := by omega
      have a2 : t < 224 := by omega
      simp [instrLen, rd, r0, r1, mds_REST, mds_SLR, a1, a2, h3]
    · simp [rd, r1]
  | cmd b r hge hl =>
    have r0 : (pre ++ (b :: r ++ rest))[pre.length]? = some b := by simpa using get_at pre (b :: r) rest 0 (by simp)
    refine ⟨b, r, rfl, r0, ?_, fun d => ?_⟩
    · rw [instrLen_cmd r0 hge, hl]; simp; omega
    · cases r with
      | nil => rw [act_single (.cmd b [] hge hl)]; simp [act_single (.cmd b [] hge hl)]
      | cons a r' =>
        have r1 : (pre ++ (b :: a :: r' ++ rest))[pre.length + 1]? = some a := by
          simpa using get_at pre (b :: a :: r') rest 1 (by simp)
        simp [rd, r1]

/-- **the decoder on a well-formed, hole-free instruction list**: one decoder step per
instruction, operands as `runI` collects them, stopping after the first terminator `T` -/
theorem decode_run : ∀ (I0 : List Ins) (T : Ins) (pre post : List Nat) (drum : Bool) (acc : List Op) (fuel : Nat),
    (∀ i ∈ I0, InsOk i ∧ i ≠ [] ∧ ∀ b r, i = b :: r → isTermOp b = false) →
    InsOk T → (∃ b r, T = b :: r ∧ isTermOp b = true) → Chain (I0 ++ [T]) → fuel ≥ I0.length + 1 →
    decodeStream (pre ++ ((I0 ++ [T]).flatten ++ post)) fuel pre.length drum acc =
      some ((stepI T (runI I0 (drum, acc))).2.reverse, pre.length + (I0 ++ [T]).flatten.length)
  | [], T, pre, post, drum, acc, fuel, _, hT, ⟨b, r, hTe, hterm⟩, _, hf => by
    obtain ⟨f, rfl⟩ : ∃ f, fuel = f + 1 := ⟨fuel - 1, by simp at hf; omega⟩
    have hne : T ≠ [] := by rw [hTe]; simp
    have hnb : ¬ Bare T := by
      rintro ⟨t, ht, h1, h2⟩
      rw [hTe] at ht; injection ht with ht _; subst ht
      simp [isTermOp, mds_FINISH, mds_JUMP, mds_DMFINISH] at hterm; omega
    obtain ⟨b', r', hTe', r0, hlen, hact⟩ := ins_read pre hT hne post (fun h => absurd h hnb)
    rw [hTe] at hTe'; injection hTe' with e1 e2; subst e1; subst e2
    simp only [List.nil_append, List.flatten_cons, List.flatten_nil, List.append_nil]
    have hin : pre.length + T.length ≤ (pre ++ (T ++ post)).length := by simp
    rw [decodeStream_step _ f _ drum acc r0 hlen hin, hact]
    obtain ⟨o, ho⟩ := act_stop_of_term hterm (r.headD 0) drum
    simp only [ho, runI_nil, stepI, hTe]
  | i :: I0, T, pre, post, drum, acc, fuel, hall, hT, hterm, hch, hf => by
    obtain ⟨f, rfl⟩ : ∃ f, fuel = f + 1 := ⟨fuel - 1, by simp at hf; omega⟩
    obtain ⟨hi, hne, hnt⟩ := hall i (by simp)
    have hch' : (Bare i → HeadOk (I0 ++ [T])) ∧ Chain (I0 ++ [T]) := by simpa [Chain] using hch
    -- the first byte of what follows
    have hnext : Bare i → ∃ nb r, (I0 ++ [T]).flatten ++ post = nb :: r ∧ nb ≥ 0x80 := by
      intro hb
      have hh := hch'.1 hb
      cases I0 with
      | nil =>
        obtain ⟨b, r, hTe, _⟩ := hterm
        subst hTe
        exact ⟨b, r ++ post, by simp, by simpa [HeadOk] using hh⟩
      | cons j I0' =>
        obtain ⟨_, hjne, _⟩ := hall j (by simp)
        cases j with
        | nil => exact absurd rfl hjne
        | cons b r => exact ⟨b, r ++ ((I0' ++ [T]).flatten ++ post), by simp, by simpa [HeadOk] using hh⟩
    obtain ⟨b, r, hie, r0, hlen, hact⟩ := ins_read pre hi hne ((I0 ++ [T]).flatten ++ post) hnext
    have hseq : pre ++ ((i :: I0 ++ [T]).flatten ++ post) = pre ++ (i ++ ((I0 ++ [T]).flatten ++ post)) := by
      simp [List.append_assoc]
    have hseq2 : pre ++ (i ++ ((I0 ++ [T]).flatten ++ post)) = (pre ++ i) ++ ((I0 ++ [T]).flatten ++ post) := by
      simp [List.append_assoc]
    have hin : pre.length + i.length ≤ (pre ++ (i ++ ((I0 ++ [T]).flatten ++ post))).length := by simp
    rw [hseq, decodeStream_step _ f _ drum acc r0 hlen hin, hact]
    obtain ⟨d', o, ho⟩ := act_go_of_not_term (hnt b r hie) (r.headD 0) drum
    simp only [ho]
    have ih := decode_run I0 T (pre ++ i) post d' (o.toList ++ acc) f
      (fun j hj => hall j (by simp [hj])) hT hterm hch'.2 (by simp at hf; omega)
    rw [hseq2]
    have hl : (pre ++ i).length = pre.length + i.length := by simp
    rw [hl] at ih
    rw [ih, runI_cons]
    have hs : stepI i (drum, acc) = (d', o.toList ++ acc) := by
      subst hie; simp only [stepI, ho]
    rw [hs]
    simp [List.flatten_cons, Nat.add_assoc]

end Ctrmml.MdsRead
