/- Helper lemmas for C11, pitch envelopes (no property statements). -/
import Ctrmml.Proofs.MdsData
namespace Ctrmml.MdsData
open Ctrmml.MdsSpec

/-! ## the iterations of one node -/

theorem lens_nonneg (l : List RawChunk) (h : ∀ c ∈ l, 1 ≤ c.len) : 0 ≤ (l.map (·.len)).sum := by
  induction l with
  | nil => simp
  | cons y r ih =>
    have := h y (by simp)
    have := ih (fun c hc => h c (by simp [hc]))
    simp only [List.map_cons, List.sum_cons]; omega

theorem map_eq_ok {ε α β} (f : α → β) (x : Except ε α) (y : β) :
    Except.map f x = .ok y ↔ ∃ a, x = .ok a ∧ f a = y := by
  cases x <;> simp [Except.map]

theorem map_eq_error {ε α β} (f : α → β) (x : Except ε α) (e : ε) :
    Except.map f x = .error e ↔ x = .error e := by
  cases x <;> simp [Except.map]

theorem nodeSize_pos (ex : Bool) : 0 < nodeSize ex := by
  cases ex <;> decide

/-- an iteration list that was accepted: frames, split at 255, and the size limit — the node
count behind the last pushed node is at most 256 -/
theorem nodeChunks_frames {α} (A : Arith α) (ue ex : Bool) (target : α) (fuel size : Nat) (length : Int) (counter : α)
    (cs : List RawChunk) (hf : length.toNat ≤ fuel) (h : nodeChunks A ue ex target fuel size length counter = .ok cs) :
    (cs.map (·.len)).sum = (length.toNat : Int) ∧ (∀ c ∈ cs, 1 ≤ c.len ∧ c.len ≤ 255) ∧
      (∀ c ∈ cs.dropLast, c.len = 255) ∧ (0 < length → cs ≠ []) ∧
      (cs ≠ [] → size + nodeSize ex * cs.length ≤ nodeSize ex * Tables.mdsdrv_pitch_node_max) := by
  induction fuel generalizing size length counter cs with
  | zero =>
    simp only [nodeChunks, Except.ok.injEq] at h
    subst h
    refine ⟨by simp; omega, by simp, by simp, by omega, by simp⟩
  | succ fuel ih =>
    unfold nodeChunks at h
    by_cases hl : length ≤ 0
    · simp only [hl, if_true, Except.ok.injEq] at h
      subst h
      refine ⟨by simp; omega, by simp, by simp, by omega, by simp⟩
    · simp only [hl, if_false] at h
      split at h
      · cases h
      · split at h
        · cases h
        · split at h
          · cases h
          · rename_i hsz
            simp only [map_eq_ok] at h
            obtain ⟨cs', h1, rfl⟩ := h
            have hlen : (1 : Int) ≤ (if length > 255 then 255 else length) ∧ (if length > 255 then 255 else length) ≤ 255 := by
              split <;> omega
            obtain ⟨i1, i2, i3, i4, i5⟩ := ih _ _ _ cs' (by split <;> omega) h1
            refine ⟨?_, ?_, ?_, by simp, ?_⟩
            · simp only [List.map_cons, List.sum_cons, i1]
              split <;> omega
            · intro c hc
              rcases List.mem_cons.mp hc with rfl | hc
              · exact hlen
              · exact i2 c hc
            · intro c hc
              cases cs' with
              | nil => simp at hc
              | cons x r =>
                simp only [List.dropLast_cons_cons, List.mem_cons] at hc
                rcases hc with rfl | hc
                · by_cases hb : length > 255
                  · simp [hb]
                  · exfalso
                    simp only [hb, if_false] at i1
                    have h1 := i2 x (by simp)
                    have h2 := lens_nonneg r (fun c hc => (i2 c (by simp [hc])).1)
                    simp only [List.map_cons, List.sum_cons] at i1
                    omega
                · exact i3 c hc
            · intro _
              cases cs' with
              | nil => simp only [List.length_cons, List.length_nil]; omega
              | cons x r =>
                have := i5 (by simp)
                simp only [List.length_cons, Nat.mul_add, Nat.mul_one] at this ⊢
                omega


/-! ## byte level: what the independent reader sees -/

theorem s16_u8 (x : Int) (h1 : -32768 ≤ x) (h2 : x ≤ 32767) : s16 (u8 (x / 256)) (u8 x) = x := by
  unfold s16 u8
  split <;> omega

theorem s8_u8 (x : Int) (h1 : -128 ≤ x) (h2 : x ≤ 127) : s8 (u8 x) = x := by
  unfold s8 u8
  split <;> omega

theorem i16_range (x : Int) : -32768 ≤ i16 x ∧ i16 x ≤ 32767 := by
  unfold i16; omega

def bytes4 (c : RawChunk) : NBytes := [u8 (c.start / 256), u8 c.start, u8 c.delta, u8 (c.len - 1)]

theorem pushChunk_compact (env : NBytes) (c : RawChunk) : pushChunk false env c = env ++ bytes4 c := rfl

theorem foldl_compact (cs : List RawChunk) (env : NBytes) :
    cs.foldl (pushChunk false) env = env ++ cs.flatMap bytes4 := by
  induction cs generalizing env with
  | nil => simp
  | cons c r ih => simp [ih, pushChunk_compact]

/-- compact-form range of an iteration -/
def CR (c : RawChunk) : Prop :=
  -32768 ≤ c.start ∧ c.start ≤ 32767 ∧ -128 ≤ c.delta ∧ c.delta ≤ 127 ∧ 1 ≤ c.len ∧ c.len ≤ 255

/-- extended-form range -/
def ER (c : RawChunk) : Prop :=
  -32768 ≤ c.start ∧ c.start ≤ 32767 ∧ -32768 ≤ c.delta ∧ c.delta ≤ 32767 ∧ 1 ≤ c.len ∧ c.len ≤ 255

def toChunk (c : RawChunk) (next : Option Nat) : Chunk :=
  { start := c.start, delta := c.delta, frames := some c.len.toNat, next := next }

theorem u8_len (c : RawChunk) (h1 : 1 ≤ c.len) (h2 : c.len ≤ 255) :
    u8 (c.len - 1) ≠ 255 ∧ u8 (c.len - 1) + 1 = c.len.toNat := by
  unfold u8; omega

theorem decodeCompact_chunk (c : RawChunk) (rest : NBytes) (acc : List Chunk) (h : CR c) :
    decodeCompact (bytes4 c ++ rest) acc = decodeCompact rest (acc ++ [toChunk c none]) := by
  obtain ⟨a1, a2, a3, a4, a5, a6⟩ := h
  obtain ⟨l1, l2⟩ := u8_len c a5 a6
  simp only [bytes4, List.cons_append, List.nil_append, decodeCompact, s16_u8 _ a1 a2, s8_u8 _ a3 a4, l1, if_false, l2,
    toChunk]

theorem decodeCompact_chunks (cs : List RawChunk) (rest : NBytes) (acc : List Chunk) (h : ∀ c ∈ cs, CR c) :
    decodeCompact (cs.flatMap bytes4 ++ rest) acc = decodeCompact rest (acc ++ cs.map (toChunk · none)) := by
  induction cs generalizing acc with
  | nil => simp
  | cons c r ih =>
    simp only [List.flatMap_cons, List.append_assoc, List.map_cons]
    rw [decodeCompact_chunk c _ acc (h c (by simp)), ih _ (fun x hx => h x (by simp [hx]))]
    simp

/-- the last node of an envelope without loop: its length byte becomes `ff` = for ever -/
theorem decodeCompact_last (c : RawChunk) (acc : List Chunk) (h : CR c) :
    decodeCompact ((bytes4 c).set 3 0xff) acc = some { chunks := acc ++ [{ toChunk c none with frames := none }] } := by
  obtain ⟨a1, a2, a3, a4, _, _⟩ := h
  simp [bytes4, decodeCompact, s16_u8 _ a1 a2, s8_u8 _ a3 a4, toChunk]

theorem bytes4_length (cs : List RawChunk) : (cs.flatMap bytes4).length = 4 * cs.length := by
  induction cs with
  | nil => rfl
  | cons c r ih => simp [List.flatMap_cons, bytes4, ih]; omega

/-- compact form, envelope with a loop mark at node `k` -/
theorem compact_loop (cs : List RawChunk) (k : Nat) (hk : k < 256) (h : ∀ c ∈ cs, CR c) :
    runPitchEnv false (pitchFinish (cs.flatMap bytes4) k) =
      some { chunks := cs.map (toChunk · none), loopTo := some k } := by
  have : ((k : Int) == -1) = false := by simp
  simp only [runPitchEnv, pitchFinish, this, Bool.false_eq_true, if_false]
  rw [decodeCompact_chunks cs _ [] h, u8_small k hk]
  simp [decodeCompact]

/-- compact form, envelope without loop: the last node holds for ever -/
theorem compact_noloop (cs : List RawChunk) (c : RawChunk) (h : ∀ x ∈ cs ++ [c], CR x) :
    runPitchEnv false (pitchFinish ((cs ++ [c]).flatMap bytes4) (-1)) =
      some { chunks := cs.map (toChunk · none) ++ [{ toChunk c none with frames := none }], loopTo := none } := by
  simp only [runPitchEnv, pitchFinish, Bool.false_eq_true, if_false, beq_self_eq_true, if_true]
  have hl : ((cs ++ [c]).flatMap bytes4).length - 1 = (cs.flatMap bytes4).length + 3 := by
    simp [List.flatMap_append, bytes4]
  have : ((cs ++ [c]).flatMap bytes4).set (((cs ++ [c]).flatMap bytes4).length - 1) 0xff
      = cs.flatMap bytes4 ++ (bytes4 c).set 3 0xff := by
    rw [hl]
    simp only [List.flatMap_append, List.flatMap_cons, List.flatMap_nil, List.append_nil]
    rw [List.set_append_right _ _ (by omega)]
    simp
  rw [this, decodeCompact_chunks cs _ [] (fun x hx => h x (by simp [hx])),
    decodeCompact_last c _ (h c (by simp))]
  simp


/-! ## extended form -/

def bytes5 (c : RawChunk) : NBytes :=
  [u8 (c.start / 256), u8 c.start, u8 (c.delta / 256), u8 c.delta, u8 (c.len - 1)]

/-- the bytes of the iterations `cs` when `k` nodes precede them -/
def ext6 : Nat → List RawChunk → NBytes
  | _, [] => []
  | k, c :: cs => bytes5 c ++ [u8 ((k + 1 : Nat) : Int)] ++ ext6 (k + 1) cs

theorem ext6_length (k : Nat) (cs : List RawChunk) : (ext6 k cs).length = 6 * cs.length := by
  induction cs generalizing k with
  | nil => rfl
  | cons c r ih => simp [ext6, bytes5, ih]; omega

theorem foldl_ext (cs : List RawChunk) (env : NBytes) (k : Nat) (hk : env.length = 6 * k) :
    cs.foldl (pushChunk true) env = env ++ ext6 k cs := by
  induction cs generalizing env k with
  | nil => simp [ext6]
  | cons c r ih =>
    have e1 : pushChunk true env c = env ++ (bytes5 c ++ [u8 ((k + 1 : Nat) : Int)]) := by
      simp only [pushChunk, if_true, bytes5, List.length_append, List.length_cons, List.length_nil, hk]
      have : (6 * k + (0 + 1 + 1 + 1 + 1 + 1) + 1) / 6 = k + 1 := by omega
      rw [this]; simp
    simp only [List.foldl_cons, e1]
    rw [ih _ (k + 1) (by simp [bytes5, hk]; omega)]
    simp [ext6]

def extChunks : Nat → List RawChunk → List Chunk
  | _, [] => []
  | k, c :: cs => toChunk c (some (k + 1)) :: extChunks (k + 1) cs

theorem decodeExtended_chunk (c : RawChunk) (n : Nat) (rest : NBytes) (acc : List Chunk) (h : ER c) :
    decodeExtended (bytes5 c ++ [n] ++ rest) acc = decodeExtended rest (acc ++ [toChunk c (some n)]) := by
  obtain ⟨a1, a2, a3, a4, a5, a6⟩ := h
  obtain ⟨l1, l2⟩ := u8_len c a5 a6
  simp only [bytes5, List.cons_append, List.nil_append, decodeExtended, s16_u8 _ a1 a2, s16_u8 _ a3 a4, l1, if_false, l2,
    toChunk]

theorem decodeExtended_chunks (cs : List RawChunk) (k : Nat) (rest : NBytes) (acc : List Chunk)
    (h : ∀ c ∈ cs, ER c) (hk : k + cs.length < 256) :
    decodeExtended (ext6 k cs ++ rest) acc = decodeExtended rest (acc ++ extChunks k cs) := by
  induction cs generalizing k acc with
  | nil => simp [ext6, extChunks]
  | cons c r ih =>
    simp only [ext6, List.append_assoc, extChunks]
    have := decodeExtended_chunk c (u8 ((k + 1 : Nat) : Int)) (ext6 (k + 1) r ++ rest) acc (h c (by simp))
    simp only [List.append_assoc] at this
    rw [this, ih (k + 1) _ (fun x hx => h x (by simp [hx])) (by simp at hk; omega)]
    rw [u8_small (k + 1) (by simp at hk; omega)]
    simp

theorem extNextOk_chunks (k : Nat) (cs : List RawChunk) (x : Chunk) :
    extNextOk k (extChunks k cs ++ [x]) = true := by
  induction cs generalizing k with
  | nil => simp [extChunks, extNextOk]
  | cons c r ih =>
    cases r with
    | nil => simp [extChunks, extNextOk, toChunk]
    | cons c' r' =>
      have := ih (k + 1)
      simp only [extChunks, List.cons_append, extNextOk, toChunk] at this ⊢
      simp [this]

theorem extChunks_length (k : Nat) (cs : List RawChunk) : (extChunks k cs).length = cs.length := by
  induction cs generalizing k with
  | nil => rfl
  | cons c r ih => simp [extChunks, ih]

theorem ext6_append (k : Nat) (a b : List RawChunk) : ext6 k (a ++ b) = ext6 k a ++ ext6 (k + a.length) b := by
  induction a generalizing k with
  | nil => simp [ext6]
  | cons c r ih =>
    have : k + 1 + r.length = k + (r.length + 1) := by omega
    simp [ext6, ih, this]

/-- extended form, envelope with a loop mark at node `lp`: the last node continues there -/
theorem ext_loop (cs : List RawChunk) (c : RawChunk) (lp : Nat) (hlp : lp < 256) (h : ∀ x ∈ cs ++ [c], ER x)
    (hn : cs.length < 256) :
    runPitchEnv true (pitchFinishExt (ext6 0 (cs ++ [c])) lp) =
      some { chunks := extChunks 0 cs ++ [toChunk c (some lp)], loopTo := some lp } := by
  have e0 : ((lp : Int) == -1) = false := by simp
  have e1 : pitchFinishExt (ext6 0 (cs ++ [c])) lp = ext6 0 cs ++ (bytes5 c ++ [lp] ++ []) := by
    simp only [pitchFinishExt, e0, Bool.false_eq_true, if_false, ext6_append, ext6, u8_small lp hlp]
    have hl : (ext6 0 cs ++ (bytes5 c ++ [u8 ((0 + cs.length + 1 : Nat) : Int)] ++ [])).length - 1 = (ext6 0 cs).length + 5 := by
      simp [bytes5]
    rw [hl, List.set_append_right _ _ (by omega)]
    simp [bytes5]
  simp only [runPitchEnv, if_true, e1]
  rw [decodeExtended_chunks cs 0 _ [] (fun x hx => h x (by simp [hx])) (by omega),
    decodeExtended_chunk c lp [] _ (h c (by simp))]
  simp only [decodeExtended, List.nil_append, Option.bind_some, List.getLast?_append, List.getLast?_singleton,
    Option.some_or, toChunk, extNextOk_chunks]
  simp [toChunk]

/-- extended form, envelope without loop: the last node points at itself and holds for ever -/
theorem ext_noloop (cs : List RawChunk) (c : RawChunk) (h : ∀ x ∈ cs ++ [c], ER x) (hn : cs.length < 256) :
    runPitchEnv true (pitchFinishExt (ext6 0 (cs ++ [c])) (-1)) =
      some { chunks := extChunks 0 cs ++ [{ toChunk c (some cs.length) with frames := none }], loopTo := none } := by
  obtain ⟨a1, a2, a3, a4, _, _⟩ := h c (by simp)
  have e1 : pitchFinishExt (ext6 0 (cs ++ [c])) (-1) =
      ext6 0 cs ++ [u8 (c.start / 256), u8 c.start, u8 (c.delta / 256), u8 c.delta, 0xff, cs.length] := by
    simp only [pitchFinishExt, beq_self_eq_true, if_true, ext6_append, ext6, List.append_nil, Nat.zero_add]
    have hl : (ext6 0 cs ++ (bytes5 c ++ [u8 ((cs.length + 1 : Nat) : Int)])).length = (ext6 0 cs).length + 6 := by
      simp [bytes5]
    have hn1 : nth (ext6 0 cs ++ (bytes5 c ++ [u8 ((cs.length + 1 : Nat) : Int)])) ((ext6 0 cs).length + 6 - 1)
        = u8 ((cs.length + 1 : Nat) : Int) := by
      simp [nth, bytes5, List.getD_eq_getElem?_getD, List.getElem?_append_right]
    rw [hl, hn1]
    -- with 256 nodes the next-index byte of the last node has wrapped to 0; `- 1` brings it back to 255
    have : u8 ((u8 ((cs.length + 1 : Nat) : Int) : Int) - 1) = cs.length := by
      unfold u8; omega
    rw [this]
    have s1 : (ext6 0 cs).length + 6 - 2 = (ext6 0 cs).length + 4 := by omega
    have s2 : (ext6 0 cs).length + 6 - 1 = (ext6 0 cs).length + 5 := by omega
    rw [s1, s2, List.set_append_right _ _ (by omega), List.set_append_right _ _ (by simp)]
    simp [bytes5]
  simp only [runPitchEnv, if_true, e1]
  rw [decodeExtended_chunks cs 0 _ [] (fun x hx => h x (by simp [hx])) (by omega)]
  simp only [decodeExtended, s16_u8 _ a1 a2, s16_u8 _ a3 a4, if_true, List.nil_append, Option.bind_some,
    List.getLast?_append, List.getLast?_singleton, Option.some_or, extNextOk_chunks]
  simp [toChunk, extChunks_length]


/-! ## from parsed items to iterations -/

def render (ex : Bool) (cs : List RawChunk) : NBytes := cs.foldl (pushChunk ex) []

theorem render_length (ex : Bool) (cs : List RawChunk) :
    (render ex cs).length = (if ex then 6 else 4) * cs.length := by
  cases ex with
  | false => simp only [render, foldl_compact, List.nil_append, bytes4_length]; simp
  | true => simp [render, foldl_ext cs [] 0 rfl, ext6_length]

theorem render_append (ex : Bool) (a b : List RawChunk) : render ex (a ++ b) = b.foldl (pushChunk ex) (render ex a) := by
  simp [render, List.foldl_append]

def isMark {α} : PItem α → Bool
  | .node .. => false
  | _ => true

/-- the iterations one parsed item contributes to an envelope that already holds `n` nodes -/
def itemChunks {α} (A : Arith α) (ue ex : Bool) (n : Nat) : PItem α → Except PErr (List RawChunk)
  | .loop => .ok []
  | .node i t e => nodeOf A ue ex (nodeSize ex * n) i t e
  | .vib b d r =>
    (nodeOf A ue ex (nodeSize ex * n) (A.fmt6 b) (A.fmt6 d) (some r)).bind fun c1 =>
    (nodeOf A ue ex (nodeSize ex * (n + c1.length)) (A.fmt6 d) (A.fmt6 (A.neg d)) (some (i32 (r * 2)))).bind fun c2 =>
    (nodeOf A ue ex (nodeSize ex * (n + c1.length + c2.length)) (A.fmt6 (A.neg d)) (A.fmt6 b) (some r)).map fun c3 =>
      c1 ++ c2 ++ c3

/-- the whole envelope as iterations + loop index -/
def envChunks {α} (A : Arith α) (ue ex : Bool) : List (PItem α) → List RawChunk → Int → Except PErr (List RawChunk × Int)
  | [], cs, lp => .ok (cs, lp)
  | it :: r, cs, lp =>
    (itemChunks A ue ex cs.length it).bind fun c =>
      envChunks A ue ex r (cs ++ c) (if isMark it then (cs.length : Int) else lp)

theorem div_sz (ex : Bool) (n : Nat) : (if ex then 6 else 4) * n / (if ex then 6 else 4) = n := by
  cases ex <;> simp

theorem nodeSize_eq (ex : Bool) : nodeSize ex = if ex then 6 else 4 := by
  cases ex <;> rfl

theorem render_size (ex : Bool) (cs : List RawChunk) : (render ex cs).length = nodeSize ex * cs.length := by
  rw [render_length, nodeSize_eq]

theorem div_sz' (ex : Bool) (n : Nat) : nodeSize ex * n / (if ex then 6 else 4) = n := by
  rw [nodeSize_eq, div_sz]

theorem pitchNodeVals_render {α} (A : Arith α) (ue ex : Bool) (i t : α) (e : Option Int) (cs : List RawChunk) :
    pitchNodeVals A ue ex i t e (render ex cs) =
      (nodeOf A ue ex (nodeSize ex * cs.length) i t e).map fun c => render ex (cs ++ c) := by
  simp only [pitchNodeVals, render_size]
  cases nodeOf A ue ex (nodeSize ex * cs.length) i t e <;> simp [Except.map, render_append]

theorem pitchItem_chunks {α} (A : Arith α) (ue ex : Bool) (cs : List RawChunk) (lp : Int) (it : PItem α) :
    pitchItem A ue ex (render ex cs, lp) it =
      (itemChunks A ue ex cs.length it).map fun c => (render ex (cs ++ c), if isMark it then (cs.length : Int) else lp) := by
  cases it with
  | loop => simp [pitchItem, itemChunks, isMark, render_size, div_sz', Except.map]
  | node i t e =>
    simp only [pitchItem, pitchNodeVals_render, itemChunks, isMark]
    cases nodeOf A ue ex (nodeSize ex * cs.length) i t e <;> simp [Except.map]
  | vib b d r =>
    simp only [pitchItem, vibNodes, List.foldlM_cons, List.foldlM_nil, itemChunks, isMark, render_size, div_sz',
      pitchNodeVals_render]
    cases h1 : nodeOf A ue ex (nodeSize ex * cs.length) (A.fmt6 b) (A.fmt6 d) (some r) with
    | error e => simp [Except.map, bind, Except.bind]
    | ok c1 =>
      simp only [Except.map, bind, Except.bind, pitchNodeVals_render, List.length_append]
      cases h2 : nodeOf A ue ex (nodeSize ex * (cs.length + c1.length)) (A.fmt6 d) (A.fmt6 (A.neg d)) (some (i32 (r * 2))) with
      | error e => simp
      | ok c2 =>
        simp only [pitchNodeVals_render, List.length_append]
        cases h3 : nodeOf A ue ex (nodeSize ex * (cs.length + c1.length + c2.length)) (A.fmt6 (A.neg d)) (A.fmt6 b) (some r) with
        | error e => simp [pure, Except.pure, Except.map]
        | ok c3 => simp [pure, Except.pure, Except.map, List.append_assoc]

/-- the parsed items applied in order (what `pitchTokens` does when every token parses) -/
def pitchItems {α} (A : Arith α) (ue ex : Bool) (items : List (PItem α)) (st : NBytes × Int) : Except PErr (NBytes × Int) :=
  items.foldlM (pitchItem A ue ex) st

theorem pitchItems_chunks {α} (A : Arith α) (ue ex : Bool) (items : List (PItem α)) (cs : List RawChunk) (lp : Int) :
    pitchItems A ue ex items (render ex cs, lp) =
      (envChunks A ue ex items cs lp).map fun r => (render ex r.1, r.2) := by
  induction items generalizing cs lp with
  | nil => simp [pitchItems, envChunks, Except.map, pure, Except.pure]
  | cons it r ih =>
    simp only [pitchItems, List.foldlM_cons, envChunks, pitchItem_chunks]
    cases itemChunks A ue ex cs.length it with
    | error e => simp [Except.map, bind, Except.bind]
    | ok c =>
      simp only [Except.map, bind, Except.bind]
      exact ih _ _

/-- when every token parses, the token loop is the item loop (same result, same exception) -/
theorem pitchTokens_items {α} (A : Arith α) (ue ex : Bool) (toks : List String) (items : List (PItem α))
    (hp : toks.map (pitchParse A) = items.map some) (env : NBytes) (lp : Int) :
    pitchTokens A ue ex toks env lp = pitchItems A ue ex items (env, lp) := by
  induction toks generalizing items env lp with
  | nil =>
    cases items with
    | nil => simp [pitchTokens, pitchItems, pure, Except.pure]
    | cons _ _ => simp at hp
  | cons tok r ih =>
    cases items with
    | nil => simp at hp
    | cons it ri =>
      simp only [List.map_cons, List.cons.injEq] at hp
      simp only [pitchTokens, hp.1, pitchItems, List.foldlM_cons]
      cases h : pitchItem A ue ex (env, lp) it with
      | error e => simp [bind, Except.bind]
      | ok st =>
        obtain ⟨env', lp'⟩ := st
        simp only [bind, Except.bind]
        exact ih ri hp.2 env' lp'

/-! ## ranges of the iterations -/

theorem chunkStart_range {α} (A : Arith α) (c : α) : -32768 ≤ chunkStart A c ∧ chunkStart A c ≤ 32767 := by
  unfold chunkStart
  have := i16_range (A.trunc (A.mul256 c))
  simp only
  split <;> omega

theorem clamp8_range (d : Int) : -128 ≤ clamp8 d ∧ clamp8 d ≤ 127 := by
  unfold clamp8; split
  · omega
  · split <;> omega

/-- the range check of `add_pitch_node` (f788cbf): when it does not throw, the step is an `int16_t` -/
theorem chunkDelta_checked (d : Int)
    (h : ¬ ((decide (d < Tables.mdsdrv_pitch_step_min) || decide (d > Tables.mdsdrv_pitch_step_max)) = true)) :
    -32768 ≤ d ∧ d ≤ 32767 := by
  have e1 : Tables.mdsdrv_pitch_step_min = -32768 := rfl
  have e2 : Tables.mdsdrv_pitch_step_max = 32767 := rfl
  rw [e1, e2] at h
  by_cases h1 : d < -32768
  · exact absurd (by simp [h1]) h
  · by_cases h2 : d > 32767
    · exact absurd (by simp [h2]) h
    · omega

theorem nodeChunks_range {α} (A : Arith α) (ue ex : Bool) (target : α) (fuel size : Nat) (length : Int) (counter : α)
    (cs : List RawChunk) (h : nodeChunks A ue ex target fuel size length counter = .ok cs) :
    ∀ c ∈ cs, -32768 ≤ c.start ∧ c.start ≤ 32767 ∧ -32768 ≤ c.delta ∧ c.delta ≤ 32767 ∧
      (ex = false → -128 ≤ c.delta ∧ c.delta ≤ 127) := by
  induction fuel generalizing size length counter cs with
  | zero =>
    simp only [nodeChunks, Except.ok.injEq] at h
    subst h; simp
  | succ fuel ih =>
    unfold nodeChunks at h
    by_cases hl : length ≤ 0
    · simp only [hl, if_true, Except.ok.injEq] at h
      subst h; simp
    · simp only [hl, if_false] at h
      split at h
      · cases h
      · rename_i hst
        split at h
        · cases h
        · rename_i hc
          split at h
          · cases h
          · simp only [map_eq_ok] at h
            obtain ⟨cs', h1, rfl⟩ := h
            intro c hc'
            rcases List.mem_cons.mp hc' with rfl | hc'
            · have hs := chunkStart_range A counter
              have hd := chunkDelta_checked _ hst
              have hk := clamp8_range (chunkDelta A target counter length)
              cases ex with
              | true => simp; omega
              | false =>
                cases ue with
                | false => simp; omega
                | true =>
                  simp only [Bool.not_false, Bool.true_and, Bool.or_eq_true, decide_eq_true_eq, not_or] at hc
                  obtain ⟨h1, h2⟩ := hc
                  simp; omega
            · exact ih _ _ _ cs' h1 c hc'


/-! ## envelope level -/

theorem pitchLength_pos {α} (A : Arith α) (i t : α) (e : Option Int) : 1 ≤ pitchLength A i t e ∨ pitchLength A i t e ≤ 0 := by
  omega

theorem nodeOf_spec {α} (A : Arith α) (ue ex : Bool) (size : Nat) (i t : α) (e : Option Int) (cs : List RawChunk)
    (h : nodeOf A ue ex size i t e = .ok cs) :
    (cs.map (·.len)).sum = ((pitchLength A i t e).toNat : Int) ∧ (∀ c ∈ cs, 1 ≤ c.len ∧ c.len ≤ 255) ∧
      (∀ c ∈ cs.dropLast, c.len = 255) ∧
      (∀ c ∈ cs, -32768 ≤ c.start ∧ c.start ≤ 32767 ∧ -32768 ≤ c.delta ∧ c.delta ≤ 32767 ∧
        (ex = false → -128 ≤ c.delta ∧ c.delta ≤ 127)) ∧
      (0 < pitchLength A i t e → (cs.head?.map (·.start)) = some (chunkStart A i)) ∧
      (cs ≠ [] → size + nodeSize ex * cs.length ≤ nodeSize ex * Tables.mdsdrv_pitch_node_max) := by
  simp only [nodeOf] at h
  obtain ⟨f1, f2, f3, _, f5⟩ := nodeChunks_frames A ue ex t _ _ _ i cs (Nat.le_refl _) h
  refine ⟨f1, f2, f3, nodeChunks_range A ue ex t _ _ _ i cs h, ?_, f5⟩
  intro hp
  obtain ⟨n, hn⟩ : ∃ n, (pitchLength A i t e).toNat = n + 1 := ⟨(pitchLength A i t e).toNat - 1, by omega⟩
  rw [hn] at h
  unfold nodeChunks at h
  have : ¬ pitchLength A i t e ≤ 0 := by omega
  simp only [this, if_false] at h
  split at h
  · cases h
  · split at h
    · cases h
    · split at h
      · cases h
      · simp only [map_eq_ok] at h
        obtain ⟨cs', _, rfl⟩ := h
        rfl

/-- node count form of the size limit: a node added behind `n ≤ 256` nodes leaves at most 256 -/
theorem nodeOf_count {α} (A : Arith α) (ue ex : Bool) (n : Nat) (i t : α) (e : Option Int) (cs : List RawChunk)
    (h : nodeOf A ue ex (nodeSize ex * n) i t e = .ok cs) (hn : n ≤ 256) : n + cs.length ≤ 256 := by
  obtain ⟨_, _, _, _, _, f⟩ := nodeOf_spec A ue ex _ i t e cs h
  cases cs with
  | nil => simpa using hn
  | cons c r =>
    have := f (by simp)
    have hp := nodeSize_pos ex
    rw [← Nat.mul_add] at this
    exact Nat.le_of_mul_le_mul_left this hp

def ChunkOK (ex : Bool) (c : RawChunk) : Prop := if ex then ER c else CR c

theorem itemChunks_ok {α} (A : Arith α) (ue ex : Bool) (n : Nat) (it : PItem α) (cs : List RawChunk)
    (h : itemChunks A ue ex n it = .ok cs) : (∀ c ∈ cs, ChunkOK ex c) ∧ (n ≤ 256 → n + cs.length ≤ 256) := by
  have key : ∀ sz i t e cs, nodeOf A ue ex sz i t e = .ok cs → ∀ c ∈ cs, ChunkOK ex c := by
    intro sz i t e cs h c hc
    obtain ⟨_, f2, _, f4, _⟩ := nodeOf_spec A ue ex sz i t e cs h
    have a := f2 c hc
    have b := f4 c hc
    unfold ChunkOK
    cases ex with
    | true => simp only [if_true, ER]; omega
    | false =>
      have := b.2.2.2.2 rfl
      simp only [Bool.false_eq_true, if_false, CR]; omega
  cases it with
  | loop => simp only [itemChunks, Except.ok.injEq] at h; subst h; simp
  | node i t e => exact ⟨key _ i t e cs h, nodeOf_count A ue ex n i t e cs h⟩
  | vib b d r =>
    simp only [itemChunks] at h
    cases h1 : nodeOf A ue ex (nodeSize ex * n) (A.fmt6 b) (A.fmt6 d) (some r) with
    | error e => simp [h1, Except.bind] at h
    | ok c1 =>
      cases h2 : nodeOf A ue ex (nodeSize ex * (n + c1.length)) (A.fmt6 d) (A.fmt6 (A.neg d)) (some (i32 (r * 2))) with
      | error e => simp [h1, h2, Except.bind] at h
      | ok c2 =>
        cases h3 : nodeOf A ue ex (nodeSize ex * (n + c1.length + c2.length)) (A.fmt6 (A.neg d)) (A.fmt6 b) (some r) with
        | error e => simp [h1, h2, h3, Except.bind, Except.map] at h
        | ok c3 =>
          simp only [h1, h2, h3, Except.bind, Except.map, Except.ok.injEq] at h
          subst h
          refine ⟨?_, ?_⟩
          · intro c hc
            simp only [List.mem_append] at hc
            rcases hc with (hc | hc) | hc
            · exact key _ _ _ _ _ h1 c hc
            · exact key _ _ _ _ _ h2 c hc
            · exact key _ _ _ _ _ h3 c hc
          · intro hn
            have a1 := nodeOf_count A ue ex _ _ _ _ _ h1 hn
            have a2 := nodeOf_count A ue ex _ _ _ _ _ h2 a1
            have a3 := nodeOf_count A ue ex _ _ _ _ _ h3 a2
            simp only [List.length_append]; omega

/-- every accepted envelope: all iterations in format range, the loop index inside `0..length`,
and — the limit of `add_pitch_node` — at most 256 nodes -/
theorem envChunks_ok {α} (A : Arith α) (ue ex : Bool) (items : List (PItem α)) (cs0 : List RawChunk) (lp0 : Int)
    (cs : List RawChunk) (lp : Int) (h : envChunks A ue ex items cs0 lp0 = .ok (cs, lp))
    (h0 : ∀ c ∈ cs0, ChunkOK ex c) (hl0 : lp0 = -1 ∨ (0 ≤ lp0 ∧ lp0 ≤ cs0.length)) :
    (∀ c ∈ cs, ChunkOK ex c) ∧ (lp = -1 ∨ (0 ≤ lp ∧ lp ≤ cs.length)) ∧ cs0.length ≤ cs.length ∧
      (cs0.length ≤ 256 → cs.length ≤ 256) := by
  induction items generalizing cs0 lp0 with
  | nil =>
    simp only [envChunks, Except.ok.injEq, Prod.mk.injEq] at h
    obtain ⟨rfl, rfl⟩ := h
    exact ⟨h0, hl0, Nat.le_refl _, id⟩
  | cons it r ih =>
    simp only [envChunks] at h
    cases hc : itemChunks A ue ex cs0.length it with
    | error e => simp [hc, Except.bind] at h
    | ok c =>
      simp only [hc, Except.bind] at h
      obtain ⟨hok, hcnt⟩ := itemChunks_ok A ue ex _ it c hc
      obtain ⟨a, b, d, f⟩ := ih (cs0 ++ c) _ h
        (by intro x hx; rcases List.mem_append.mp hx with hx | hx; exact h0 x hx; exact hok x hx)
        (by
          split
          · right; simp; omega
          · rcases hl0 with hl0 | hl0
            · left; exact hl0
            · right; simp; omega)
      refine ⟨a, b, ?_, ?_⟩
      · simp at d; omega
      · intro h256
        exact f (by simpa using hcnt h256)


/-- `add_pitch_node` throws nothing but `invalid_argument` (compact form with extended pitch
allowed only), the too-long InputError and the too-steep InputError -/
theorem nodeChunks_error {α} (A : Arith α) (ue ex : Bool) (target : α) (fuel size : Nat) (length : Int) (counter : α)
    (e : PErr) (h : nodeChunks A ue ex target fuel size length counter = .error e) :
    e = .tooLong ∨ e = .tooSteep ∨ (e = .invalidArgument ∧ ue = true ∧ ex = false) := by
  induction fuel generalizing size length counter with
  | zero => simp [nodeChunks] at h
  | succ fuel ih =>
    unfold nodeChunks at h
    by_cases hl : length ≤ 0
    · simp [hl] at h
    · simp only [hl, if_false] at h
      split at h
      · simp only [Except.error.injEq] at h
        exact Or.inr (Or.inl h.symm)
      · split at h
        · rename_i hc
          simp only [Except.error.injEq] at h
          subst h
          right; right
          simp only [Bool.and_eq_true, Bool.not_eq_true'] at hc
          exact ⟨rfl, hc.1.2, hc.1.1⟩
        · split at h
          · simp only [Except.error.injEq] at h
            exact Or.inl h.symm
          · rw [map_eq_error] at h
            exact ih _ _ _ h

/-- the extended form never throws `invalid_argument` -/
theorem C11_pitch_ext_total {α} (A : Arith α) (ue : Bool) (target : α) (fuel size : Nat) (length : Int) (counter : α)
    (e : PErr) (h : nodeChunks A ue true target fuel size length counter = .error e) : e = .tooLong ∨ e = .tooSteep := by
  rcases nodeChunks_error A ue true target fuel size length counter e h with h | h | ⟨_, _, h⟩
  · exact Or.inl h
  · exact Or.inr h
  · cases h

end Ctrmml.MdsData
