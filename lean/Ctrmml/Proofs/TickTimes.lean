/-
  Helper lemmas for C07: WHEN the looping list machine delivers what (first pass of a track).
  The item of `perf` that starts at tick `τ` (= the durations of the items before it) is
  delivered by call number `τ` of `play_tick` (counting from 0), its synthetic `REST` by call
  number `τ + on`; a track without loop point ends — `END`, machine stopped — with call number
  `totalDur items`.
-/
import Ctrmml.Proofs.TickLoop
namespace Ctrmml.TickStream
open Ctrmml Player PlayerCh Refine Expand Tables Tree

/-- the events of call number `τ` from state `m` -/
def evAt (m : LX) (τ : Nat) : List Event := (lxTick (lxAfter τ m)).2

theorem evAt_eq (m0 : LX) (τ : Nat) : evAt m0 τ = lxEvents m0 τ := rfl

theorem evAt_succ (m : LX) (τ : Nat) : evAt m (τ + 1) = evAt (lxTick m).1 τ := by
  simp [evAt, lxAfter]

theorem lxAfter_succ' (m : LX) (τ : Nat) : lxAfter (τ + 1) m = lxAfter τ (lxTick m).1 := rfl

/-- two states whose next tick is the same behave the same from then on -/
theorem evAt_congr (m m' : LX) (h : lxTick m = lxTick m') (τ : Nat) : evAt m τ = evAt m' τ := by
  cases τ with
  | zero => simp [evAt, lxAfter, h]
  | succ τ => rw [evAt_succ, evAt_succ, h]

theorem lxAfter_congr (m m' : LX) (h : lxTick m = lxTick m') (τ : Nat) : lxAfter (τ + 1) m = lxAfter (τ + 1) m' := by
  rw [lxAfter_succ', lxAfter_succ', h]

/-- a state that fetches in its next tick -/
def fetchNow (m : LX) (t : Nat) : LX := { m with on := 0, off := 0, t := t }

/-- the count-down: with `on + off = r + 1 ≥ 1` pending, the next `r` calls only count (a
synthetic `REST` when the on-time runs out and off-time is left), and call number `r` is the call of
the state that fetches at time `t + r + 1` -/
theorem countdown : ∀ (r : Nat) (m : LX), m.enabled = true → m.on + m.off = r + 1 →
    (∀ τ, τ < r → evAt m τ = if τ + 1 = m.on ∧ m.off > 0 then [restEvent] else []) ∧
    (∀ τ, evAt m (r + τ) = evAt (fetchNow m (m.t + r + 1)) τ) ∧
    (∀ τ, lxAfter (r + τ + 1) m = lxAfter (τ + 1) (fetchNow m (m.t + r + 1))) ∧
    (∀ τ, τ ≤ r → (lxAfter τ m).enabled = true ∧ (lxAfter τ m).lastJump = m.lastJump)
  | 0, m, hen, hr => by
    have hstep : lxTick m = lxTick (fetchNow m (m.t + 0 + 1)) := by
      unfold lxTick fetchNow
      simp only [hen, Bool.not_true, Bool.false_eq_true, if_false, Nat.add_zero]
      by_cases h1 : m.on > 0
      · have h2 : m.on = 1 ∧ m.off = 0 := by omega
        simp [h1, h2]
      · have h2 : m.off = 1 := by omega
        have h3 : m.on = 0 := by omega
        simp [h3, h2]
    refine ⟨fun τ h => by omega, fun τ => ?_, fun τ => ?_, fun τ h => ?_⟩
    · rw [Nat.zero_add]; exact evAt_congr _ _ hstep τ
    · rw [Nat.zero_add]; exact lxAfter_congr _ _ hstep τ
    · have : τ = 0 := by omega
      rw [this]; exact ⟨hen, rfl⟩
  | r + 1, m, hen, hr => by
    -- one counting tick
    obtain ⟨m1, hm1⟩ : ∃ m1, m1 = (lxTick m).1 := ⟨_, rfl⟩
    have hne : ¬ (m.on = 1 ∧ m.off = 0) := by omega
    have htick : lxTick m = (if m.on > 0 then { m with on := m.on - 1, t := m.t + 1 } else { m with off := m.off - 1, t := m.t + 1 },
        if m.on = 1 ∧ m.off > 0 then [restEvent] else []) := by
      unfold lxTick
      simp only [hen, Bool.not_true, Bool.false_eq_true, if_false]
      by_cases h1 : m.on > 0
      · simp only [h1, if_true, hne, if_false]
        congr 1
        by_cases h2 : m.on = 1
        · have : m.off > 0 := by omega
          simp [h2, this]
        · simp [h2]
      · have h3 : m.on = 0 := by omega
        have h4 : m.off > 0 := by omega
        have h5 : ¬ m.off = 1 := by omega
        simp [h3, h4, h5]
    have e1 : m1.enabled = true := by rw [hm1, htick]; split <;> exact hen
    have e2 : m1.on + m1.off = r + 1 := by rw [hm1, htick]; split <;> simp only <;> omega
    have e3 : m1.t = m.t + 1 := by rw [hm1, htick]; split <;> rfl
    have e4 : m1.rest = m.rest ∧ m1.loop = m.loop ∧ m1.loopT = m.loopT ∧ m1.lastJump = m.lastJump := by
      rw [hm1, htick]; split <;> exact ⟨rfl, rfl, rfl, rfl⟩
    have e5 : m1.on = (if m.on > 0 then m.on - 1 else 0) ∧ m1.off = (if m.on > 0 then m.off else m.off - 1) := by
      rw [hm1, htick]; split
      · exact ⟨rfl, rfl⟩
      · rename_i h; have : m.on = 0 := by omega
        exact ⟨this, rfl⟩
    obtain ⟨i1, i2, i3, i4⟩ := countdown r m1 e1 e2
    have hfn : fetchNow m1 (m1.t + r + 1) = fetchNow m (m.t + (r + 1) + 1) := by
      unfold fetchNow
      cases m1; cases m
      simp only at e3 e4 e1 hen ⊢
      simp only [LX.mk.injEq]
      exact ⟨trivial, trivial, e4.1, e4.2.1, by omega, e4.2.2.1, e4.2.2.2, by rw [e1, hen]⟩
    refine ⟨?_, ?_, ?_, ?_⟩
    · intro τ hτ
      cases τ with
      | zero =>
        simp only [evAt, lxAfter, htick]
        by_cases h : m.on = 1 ∧ m.off > 0
        · simp [h]
        · simp only [h, if_false]
          have : ¬ (0 + 1 = m.on ∧ m.off > 0) := by omega
          simp [this]
      | succ τ =>
        rw [evAt_succ, ← hm1, i1 τ (by omega)]
        have : (τ + 1 = m1.on ∧ m1.off > 0) ↔ (τ + 1 + 1 = m.on ∧ m.off > 0) := by
          rw [e5.1, e5.2]; split <;> omega
        simp only [this]
    · intro τ
      have : r + 1 + τ = (r + τ) + 1 := by omega
      rw [this, evAt_succ, ← hm1, i2 τ, hfn]
    · intro τ
      have : r + 1 + τ + 1 = (r + τ + 1) + 1 := by omega
      rw [this, lxAfter_succ', ← hm1, i3 τ, hfn]
    · intro τ hτ
      cases τ with
      | zero => exact ⟨hen, rfl⟩
      | succ τ => rw [lxAfter_succ', ← hm1]; exact ⟨(i4 τ (by omega)).1, (i4 τ (by omega)).2.trans e4.2.2.2⟩

theorem totalDur_cons (i : Item) (is : List Item) : totalDur (i :: is) = i.dur + totalDur is := by
  simp [totalDur]

/-- the state after a zero-duration item has been read -/
def skipItem (m : LX) (i : Item) (is : List Item) : LX :=
  { m with rest := is, loop := if i.src.kind = .segno then some is else m.loop,
           loopT := if i.src.kind = .segno then (m.t : Int) else m.loopT }

/-- reading a zero-duration item: its event comes first, the rest of the tick is the tick of the
state behind it -/
theorem tick_zero (m : LX) (i : Item) (is : List Item) (hen : m.enabled = true) (hon : m.on = 0) (hoff : m.off = 0)
    (hr : m.rest = i :: is) (hz : i.src.on = 0 ∧ i.src.off = 0) :
    lxTick m = ((lxTick (skipItem m i is)).1, i.ev :: (lxTick (skipItem m i is)).2) := by
  have h1 : lxTick m = lxFetch m := by simp [lxTick, hen, hon, hoff]
  have h2 : lxTick (skipItem m i is) = lxFetch (skipItem m i is) := by simp [lxTick, skipItem, hen, hon, hoff]
  rw [h1, h2]
  unfold lxFetch
  have hfp : fetchPass m.t m.loop m.loopT m.rest =
      { fetchPass m.t (skipItem m i is).loop (skipItem m i is).loopT is with
        evs := i.ev :: (fetchPass m.t (skipItem m i is).loop (skipItem m i is).loopT is).evs } := by
    rw [hr]; simp [fetchPass, hz.1, hz.2, skipItem]
  rw [hfp]
  have ht : (skipItem m i is).t = m.t := rfl
  have hrs : (skipItem m i is).rest = is := rfl
  have hlj : (skipItem m i is).lastJump = m.lastJump := rfl
  simp only [ht, hrs, hlj]
  generalize fetchPass m.t (skipItem m i is).loop (skipItem m i is).loopT is = r1
  split
  · simp [skipItem]
  · split
    · split
      · generalize fetchPass m.t r1.loop r1.loopT _ = r2
        split
        · simp [skipItem]
        · simp [skipItem, LX.finish]
      · simp [skipItem, LX.finish]
    · simp [skipItem, LX.finish]

/-- the state after an item with a duration has been read -/
def takeItem (m : LX) (i : Item) (is : List Item) : LX :=
  { m with on := i.src.on, off := i.src.off, rest := is, loop := if i.src.kind = .segno then some is else m.loop,
           loopT := if i.src.kind = .segno then (m.t : Int) else m.loopT }

theorem tick_dur (m : LX) (i : Item) (is : List Item) (hen : m.enabled = true) (hon : m.on = 0) (hoff : m.off = 0)
    (hr : m.rest = i :: is) (hz : ¬ (i.src.on = 0 ∧ i.src.off = 0)) :
    lxTick m = (takeItem m i is, [i.ev]) := by
  have h1 : lxTick m = lxFetch m := by simp [lxTick, hen, hon, hoff]
  rw [h1]
  unfold lxFetch
  rw [hr]
  simp [fetchPass, hz, takeItem]

theorem deliver : ∀ (items : List Item) (m : LX), m.enabled = true → m.on = 0 → m.off = 0 → m.rest = items →
    (∀ pre i post, items = pre ++ i :: post → i.ev ∈ evAt m (totalDur pre)) ∧
    (∀ pre i post, items = pre ++ i :: post → i.src.on > 0 → i.src.off > 0 → restEvent ∈ evAt m (totalDur pre + i.src.on)) ∧
    (∀ τ, τ ≤ totalDur items → (lxAfter τ m).enabled = true ∧ (lxAfter τ m).lastJump = m.lastJump)
  | [], m, hen, _, _, _ => by
    refine ⟨fun pre i post h => by simp at h, fun pre i post h => by simp at h, fun τ h => ?_⟩
    have : τ = 0 := by simpa [totalDur] using h
    rw [this]; exact ⟨hen, rfl⟩
  | i0 :: is, m, hen, hon, hoff, hr => by
    by_cases hz : i0.src.on = 0 ∧ i0.src.off = 0
    · -- a zero-duration item
      have ht := tick_zero m i0 is hen hon hoff hr hz
      obtain ⟨ih1, ih2, ih3⟩ := deliver is (skipItem m i0 is) hen hon hoff rfl
      have hd0 : i0.dur = 0 := by simp [Item.dur, hz.1, hz.2]
      have hmono : ∀ τ e, e ∈ evAt (skipItem m i0 is) τ → e ∈ evAt m τ := by
        intro τ e he
        cases τ with
        | zero => simp only [evAt, lxAfter] at he ⊢; rw [ht]; exact List.mem_cons_of_mem _ he
        | succ τ => rw [evAt_succ] at he ⊢; rw [ht]; exact he
      have hafter : ∀ τ, lxAfter (τ + 1) m = lxAfter (τ + 1) (skipItem m i0 is) := by
        intro τ; rw [lxAfter_succ', lxAfter_succ', ht]
      refine ⟨?_, ?_, ?_⟩
      · intro pre i post h
        cases pre with
        | nil =>
          simp only [List.nil_append, List.cons.injEq] at h
          obtain ⟨rfl, _⟩ := h
          simp only [totalDur, List.map_nil, List.sum_nil, evAt, lxAfter]
          rw [ht]; simp
        | cons p pre' =>
          simp only [List.cons_append, List.cons.injEq] at h
          obtain ⟨rfl, h'⟩ := h
          rw [totalDur_cons, hd0, Nat.zero_add]
          exact hmono _ _ (ih1 pre' i post h')
      · intro pre i post h h1 h2
        cases pre with
        | nil =>
          simp only [List.nil_append, List.cons.injEq] at h
          obtain ⟨rfl, _⟩ := h
          omega
        | cons p pre' =>
          simp only [List.cons_append, List.cons.injEq] at h
          obtain ⟨rfl, h'⟩ := h
          rw [totalDur_cons, hd0, Nat.zero_add]
          exact hmono _ _ (ih2 pre' i post h' h1 h2)
      · intro τ hτ
        rw [totalDur_cons, hd0, Nat.zero_add] at hτ
        cases τ with
        | zero => exact ⟨hen, rfl⟩
        | succ τ => rw [hafter]; exact ih3 (τ + 1) hτ
    · -- an item with a duration
      have ht := tick_dur m i0 is hen hon hoff hr hz
      obtain ⟨dd, hdd⟩ : ∃ dd, i0.src.on + i0.src.off = dd + 1 := ⟨i0.src.on + i0.src.off - 1, by omega⟩
      have hd0 : i0.dur = dd + 1 := by simp [Item.dur, hdd]
      have e1 : (takeItem m i0 is).enabled = true := hen
      have e2 : (takeItem m i0 is).on + (takeItem m i0 is).off = dd + 1 := hdd
      obtain ⟨c1, c2, c3, c4⟩ := countdown dd (takeItem m i0 is) e1 e2
      obtain ⟨m3, hm3⟩ : ∃ m3, m3 = fetchNow (takeItem m i0 is) ((takeItem m i0 is).t + dd + 1) := ⟨_, rfl⟩
      rw [← hm3] at c2 c3
      obtain ⟨ih1, ih2, ih3⟩ := deliver is m3 (by rw [hm3]; exact hen) (by rw [hm3]; rfl) (by rw [hm3]; rfl) (by rw [hm3]; rfl)
      have hshift : ∀ x, evAt m (dd + 1 + x) = evAt m3 x := by
        intro x
        have : dd + 1 + x = (dd + x) + 1 := by omega
        rw [this, evAt_succ, ht]; exact c2 x
      refine ⟨?_, ?_, ?_⟩
      · intro pre i post h
        cases pre with
        | nil =>
          simp only [List.nil_append, List.cons.injEq] at h
          obtain ⟨rfl, _⟩ := h
          simp only [totalDur, List.map_nil, List.sum_nil, evAt, lxAfter]
          rw [ht]; simp
        | cons p pre' =>
          simp only [List.cons_append, List.cons.injEq] at h
          obtain ⟨rfl, h'⟩ := h
          rw [totalDur_cons, hd0, hshift]
          exact ih1 pre' i post h'
      · intro pre i post h h1 h2
        cases pre with
        | nil =>
          simp only [List.nil_append, List.cons.injEq] at h
          obtain ⟨rfl, _⟩ := h
          simp only [totalDur, List.map_nil, List.sum_nil, Nat.zero_add]
          obtain ⟨y, hy⟩ : ∃ y, i0.src.on = y + 1 := ⟨i0.src.on - 1, by omega⟩
          rw [hy, evAt_succ, ht, c1 y (by omega)]
          have : y + 1 = (takeItem m i0 is).on ∧ (takeItem m i0 is).off > 0 := ⟨hy.symm, h2⟩
          simp [this]
        | cons p pre' =>
          simp only [List.cons_append, List.cons.injEq] at h
          obtain ⟨rfl, h'⟩ := h
          rw [totalDur_cons, hd0, Nat.add_assoc, hshift]
          exact ih2 pre' i post h' h1 h2
      · intro τ hτ
        rw [totalDur_cons, hd0] at hτ
        cases τ with
        | zero => exact ⟨hen, rfl⟩
        | succ τ =>
          rw [lxAfter_succ', ht]
          by_cases hle : τ ≤ dd
          · exact c4 τ hle
          · obtain ⟨y, hy⟩ : ∃ y, τ = dd + y + 1 := ⟨τ - dd - 1, by omega⟩
            rw [hy, c3 y]
            have := ih3 (y + 1) (by omega)
            rw [hm3] at this ⊢
            exact this

/-- a track without loop point: the machine stops with call number `totalDur items`, which
delivers `END` last -/
theorem deliver_end : ∀ (items : List Item) (m : LX), m.enabled = true → m.on = 0 → m.off = 0 → m.rest = items →
    m.loop = none → (∀ i ∈ items, i.src.kind ≠ .segno) →
    (lxAfter (totalDur items + 1) m).enabled = false ∧ (evAt m (totalDur items)).getLast? = some endEvent
  | [], m, hen, hon, hoff, hr, hl, _ => by
    have h1 : lxTick m = lxFetch m := by simp [lxTick, hen, hon, hoff]
    have h2 : lxFetch m = (m.finish none m.loopT m.lastJump, [endEvent]) := by
      unfold lxFetch; rw [hr, hl]; simp [fetchPass]
    simp only [totalDur, List.map_nil, List.sum_nil, Nat.zero_add, lxAfter, evAt, h1, h2]
    exact ⟨rfl, rfl⟩
  | i0 :: is, m, hen, hon, hoff, hr, hl, hns => by
    have hk : i0.src.kind ≠ .segno := hns i0 (by simp)
    have hns' : ∀ i ∈ is, i.src.kind ≠ .segno := fun i hi => hns i (by simp [hi])
    by_cases hz : i0.src.on = 0 ∧ i0.src.off = 0
    · have ht := tick_zero m i0 is hen hon hoff hr hz
      have hd0 : i0.dur = 0 := by simp [Item.dur, hz.1, hz.2]
      obtain ⟨ih1, ih2⟩ := deliver_end is (skipItem m i0 is) hen hon hoff rfl (by simp [skipItem, hk, hl]) hns'
      rw [totalDur_cons, hd0, Nat.zero_add]
      refine ⟨by rw [lxAfter_succ', ht]; exact ih1, ?_⟩
      cases hD : totalDur is with
      | zero =>
        rw [hD] at ih2
        simp only [evAt, lxAfter] at ih2 ⊢
        rw [ht]
        simp only [List.getLast?_cons]
        cases h : (lxTick (skipItem m i0 is)).2 with
        | nil => rw [h] at ih2; simp at ih2
        | cons a l => rw [h] at ih2; simp only [Option.getD]; rw [ih2]
      | succ D =>
        rw [hD] at ih2
        rw [evAt_succ] at ih2 ⊢; rw [ht]; exact ih2
    · have ht := tick_dur m i0 is hen hon hoff hr hz
      obtain ⟨dd, hdd⟩ : ∃ dd, i0.src.on + i0.src.off = dd + 1 := ⟨i0.src.on + i0.src.off - 1, by omega⟩
      have hd0 : i0.dur = dd + 1 := by simp [Item.dur, hdd]
      obtain ⟨_, c2, c3, _⟩ := countdown dd (takeItem m i0 is) hen hdd
      obtain ⟨m3, hm3⟩ : ∃ m3, m3 = fetchNow (takeItem m i0 is) ((takeItem m i0 is).t + dd + 1) := ⟨_, rfl⟩
      rw [← hm3] at c2 c3
      obtain ⟨ih1, ih2⟩ := deliver_end is m3 (by rw [hm3]; exact hen) (by rw [hm3]; rfl) (by rw [hm3]; rfl) (by rw [hm3]; rfl)
        (by rw [hm3]; simp [fetchNow, takeItem, hk, hl]) hns'
      rw [totalDur_cons, hd0]
      constructor
      · have : dd + 1 + totalDur is + 1 = (dd + totalDur is + 1) + 1 := by omega
        rw [this, lxAfter_succ', ht, c3]; exact ih1
      · have : dd + 1 + totalDur is = (dd + totalDur is) + 1 := by omega
        rw [this, evAt_succ, ht, c2]; exact ih2

/-- the tick in which the machine stops delivers `END` last -/
theorem lxTick_stop_last (m : LX) (hen : m.enabled = true) (hdis : (lxTick m).1.enabled = false) :
    (lxTick m).2.getLast? = some endEvent := by
  have hfetch : ∀ m' : LX, m'.enabled = true → (lxFetch m').1.enabled = false → (lxFetch m').2.getLast? = some endEvent := by
    intro m' h1 h2
    unfold lxFetch at h2 ⊢
    by_cases hf : (fetchPass m'.t m'.loop m'.loopT m'.rest).found = true
    · rw [if_pos hf] at h2; simp only at h2; rw [h1] at h2; cases h2
    · rw [if_neg hf] at h2 ⊢
      cases hl : (fetchPass m'.t m'.loop m'.loopT m'.rest).loop with
      | none => simp
      | some L =>
        rw [hl] at h2
        simp only at h2 ⊢
        by_cases hj : (m'.t : Int) ≠ (fetchPass m'.t m'.loop m'.loopT m'.rest).loopT ∧ (m'.t : Int) ≠ m'.lastJump
        · rw [if_pos hj] at h2 ⊢
          by_cases hf2 : (fetchPass m'.t (some L) (fetchPass m'.t m'.loop m'.loopT m'.rest).loopT L).found = true
          · rw [if_pos hf2] at h2; simp only at h2; rw [h1] at h2; cases h2
          · rw [if_neg hf2]; simp
        · rw [if_neg hj]; simp
  unfold lxTick at hdis ⊢
  rw [show (!m.enabled) = false by simp [hen]] at hdis ⊢
  simp only [Bool.false_eq_true, if_false] at hdis ⊢
  by_cases h1 : m.on > 0
  · rw [if_pos h1] at hdis ⊢
    by_cases h2 : m.on = 1 ∧ m.off = 0
    · rw [if_pos h2] at hdis ⊢; exact hfetch _ hen hdis
    · rw [if_neg h2] at hdis; simp only at hdis; rw [hen] at hdis; cases hdis
  · rw [if_neg h1] at hdis ⊢
    by_cases h2 : m.off > 0
    · rw [if_pos h2] at hdis ⊢
      by_cases h3 : m.off = 1
      · rw [if_pos h3] at hdis ⊢; exact hfetch _ hen hdis
      · rw [if_neg h3] at hdis; simp only at hdis; rw [hen] at hdis; cases hdis
    · rw [if_neg h2] at hdis ⊢; exact hfetch _ hen hdis

/-- if the machine stops within `n` ticks, the last event of these ticks is `END` -/
theorem lxRun_stop_last : ∀ (n : Nat) (m : LX), m.enabled = true → (lxAfter n m).enabled = false →
    (lxRun n m).flatten.getLast? = some endEvent
  | 0, m, h1, h2 => by simp only [lxAfter] at h2; rw [h1] at h2; cases h2
  | n + 1, m, h1, h2 => by
    simp only [lxRun, List.flatten_cons]
    cases hen : (lxTick m).1.enabled with
    | false =>
      have hl := lxTick_stop_last m h1 hen
      rw [lxRun_disabled n _ hen, List.append_nil]; exact hl
    | true =>
      have ih := lxRun_stop_last n (lxTick m).1 hen (by simpa [lxAfter] using h2)
      rw [List.getLast?_append, ih]; rfl

end Ctrmml.TickStream
