/-
  Reader layer, part 3 (helper lemmas; no property statements): the covered command subset as one
  interface (`Covered`, `cmdTrack`, `CmdPre`, `cmd_span`), and whole lines of covered commands.
-/
import Ctrmml.Proofs.ReaderCmd
namespace Ctrmml.Mml
open Ctrmml.Tables Ctrmml.Lexer Ctrmml.TrackBuilder
open Ctrmml.MmlMeaning (Num Dur Acc Cmd Simple dotsBytes)

/-- the commands whose parser is proved to consume exactly its canonical spelling -/
def Covered : Cmd → Prop
  | .note l _ _ => l < 8
  | .rest _ | .tie _ | .length _ | .octave _ | .octUp | .octDown | .quantize _ | .early _
  | .measure _ | .shuffle _ | .slur => True
  | _ => False

/-- the builder call(s) a covered command makes -/
def cmdTrack (t : Track) : Cmd → Track
  | .note l a d => t.addNote (noteVal t l a) (UInt16.ofNat (durVal t d).toNat)
  | .rest d => t.addRest (UInt16.ofNat (durVal t d).toNat)
  | .tie d => t.addTie (UInt16.ofNat (durVal t d).toNat)
  | .length d => t.setDuration (UInt16.ofNat (durVal t d).toNat)
  | .octave n => t.setOctave (wrapS32 (n.v - 1))
  | .octUp => t.changeOctave 1
  | .octDown => t.changeOctave (-1)
  | .quantize n => (t.setQuantize (u16 n.v) (UInt16.ofNat trackSetQuantizeDefaultParts)).1
  | .early n => t.setEarlyRelease (u16 n.v)
  | .measure n => t.setMeasureLen (u16 n.v)
  | .shuffle n => t.setShuffle n.v
  | .slur => t.addSlur.1
  | _ => t

/-- bytes consumed beyond the spelling -/
def cmdSkip : Cmd → List Nat → Nat
  | .note _ _ d, tail => durSkip d tail
  | .rest d, tail => durSkip d tail
  | .tie d, tail => durSkip d tail
  | .length d, tail => durSkip d tail
  | _, _ => 0

/-- conditions on the numbers of a command, on the track it is applied to: every written number
is an `int` (`NumRange`), a length is at least 1, a frame count at least 0, and `&` finds its
note.  (Since fixes a16b488 / a22a11c no "does not overflow" condition is left: `o`, `<`, `>`,
dotted durations and the note number wrap or are computed in a wider type.) -/
def CmdNums (t : Track) : Cmd → Prop
  | .note _ _ d => DurNums d
  | .rest d => DurNums d
  | .tie d => DurNums d
  | .length d => DurNums d
  | .octave n => NumRange n
  | .octUp => True
  | .octDown => True
  | .quantize n => NumRange n
  | .early n => NumRange n
  | .measure n => NumRange n
  | .shuffle n => NumRange n
  | .slur => t.addSlur.2 = 0
  | _ => True

/-- the look-ahead: what the command's parser inspects behind the spelling -/
def CmdTail : Cmd → List Nat → Prop
  | .note _ a d, tail => DurTail d tail ∧
      (a = .none → (d.bytes ++ tail).head? ≠ some 43 ∧ (d.bytes ++ tail).head? ≠ some 45 ∧ (d.bytes ++ tail).head? ≠ some 61)
  | .rest d, tail => DurTail d tail
  | .tie d, tail => DurTail d tail
  | .length d, tail => DurTail d tail
  | .octave n, tail => NumEnd (numBase n) tail
  | .quantize n, tail => NumEnd (numBase n) tail
  | .early n, tail => NumEnd (numBase n) tail
  | .measure n, tail => NumEnd (numBase n) tail
  | .shuffle n, tail => NumEnd (numBase n) tail
  | _, _ => True

theorem cmd_span (s : MmlState) (hs : Sane s) (cmd : Cmd) (tail : List Nat) (hc : Covered cmd)
    (hsuf : suffix s = cmd.bytes ++ tail) (hn : CmdNums (getTrack s) cmd) (ht : CmdTail cmd tail) :
    mmlBasic s = .ok false (adv (setTrack s (cmdTrack (getTrack s) cmd)) (cmd.bytes.length + cmdSkip cmd tail)) := by
  cases cmd with
  | note l a d =>
    have := note_span s hs l hc a d tail (by
      have : MmlMeaning.letterByte l = 97 + l := by unfold MmlMeaning.letterByte; rw [Nat.mod_eq_of_lt hc]
      simpa [Cmd.bytes, this] using hsuf) hn ht.1 ht.2
    rw [this]
    simp only [cmdTrack, cmdSkip, Cmd.bytes, List.length_cons, List.length_append]
    congr 2; omega
  | rest d =>
    have := rest_span s hs d tail (by simpa [Cmd.bytes] using hsuf) hn ht
    rw [this]; simp only [cmdTrack, cmdSkip, Cmd.bytes, List.length_cons]; congr 2; omega
  | tie d =>
    have := tie_span s hs d tail (by simpa [Cmd.bytes] using hsuf) hn ht
    rw [this]; simp only [cmdTrack, cmdSkip, Cmd.bytes, List.length_cons]; congr 2; omega
  | length d =>
    have := length_span s hs d tail (by simpa [Cmd.bytes] using hsuf) hn ht
    rw [this]; simp only [cmdTrack, cmdSkip, Cmd.bytes, List.length_cons]; congr 2; omega
  | octave n =>
    have := octave_span s hs n tail (by simpa [Cmd.bytes] using hsuf) hn ht
    rw [this]; simp only [cmdTrack, cmdSkip, Cmd.bytes, List.length_cons]; congr 2; omega
  | octUp =>
    have := octUp_span s hs tail (by simpa [Cmd.bytes] using hsuf)
    rw [this]; simp [cmdTrack, cmdSkip, Cmd.bytes]
  | octDown =>
    have := octDown_span s hs tail (by simpa [Cmd.bytes] using hsuf)
    rw [this]; simp [cmdTrack, cmdSkip, Cmd.bytes]
  | quantize n =>
    have := quantize_span s hs n tail (by simpa [Cmd.bytes] using hsuf) hn ht
    rw [this]; simp only [cmdTrack, cmdSkip, Cmd.bytes, List.length_cons]; congr 2; omega
  | early n =>
    have := early_span s hs n tail (by simpa [Cmd.bytes] using hsuf) hn ht
    rw [this]; simp only [cmdTrack, cmdSkip, Cmd.bytes, List.length_cons]; congr 2; omega
  | measure n =>
    have := measure_span s hs n tail (by simpa [Cmd.bytes] using hsuf) hn ht
    rw [this]; simp only [cmdTrack, cmdSkip, Cmd.bytes, List.length_cons]; congr 2; omega
  | shuffle n =>
    have := shuffle_span s hs n tail (by simpa [Cmd.bytes] using hsuf) hn ht
    rw [this]; simp only [cmdTrack, cmdSkip, Cmd.bytes, List.length_cons]; congr 2; omega
  | slur =>
    have := slur_span s hs tail (by simpa [Cmd.bytes] using hsuf) hn
    rw [this]; simp [cmdTrack, cmdSkip, Cmd.bytes]
  | _ => exact absurd hc (by simp [Covered])

end Ctrmml.Mml

namespace Ctrmml.Mml
open Ctrmml.Tables Ctrmml.Lexer Ctrmml.TrackBuilder
open Ctrmml.MmlMeaning (Num Dur Acc Cmd Simple dotsBytes bodyBytes)

/-! ### whole lines of covered commands -/

/-- first bytes of the covered commands -/
def CmdStart (c : Nat) : Prop :=
  (97 ≤ c ∧ c ≤ 104) ∨ c = 114 ∨ c = 94 ∨ c = 108 ∨ c = 111 ∨ c = 60 ∨ c = 62 ∨ c = 81 ∨ c = 113 ∨ c = 67 ∨ c = 115 ∨ c = 38

theorem covered_head (cmd : Cmd) (hc : Covered cmd) : ∃ c r, cmd.bytes = c :: r ∧ CmdStart c := by
  cases cmd with
  | note l a d =>
    have hl : l < 8 := hc
    have : MmlMeaning.letterByte l = 97 + l := by unfold MmlMeaning.letterByte; rw [Nat.mod_eq_of_lt hl]
    exact ⟨97 + l, a.bytes ++ d.bytes, by simp [Cmd.bytes, this], Or.inl ⟨by omega, by omega⟩⟩
  | rest d => exact ⟨114, _, rfl, by simp [CmdStart]⟩
  | tie d => exact ⟨94, _, rfl, by simp [CmdStart]⟩
  | length d => exact ⟨108, _, rfl, by simp [CmdStart]⟩
  | octave n => exact ⟨111, _, rfl, by simp [CmdStart]⟩
  | octUp => exact ⟨62, _, rfl, by simp [CmdStart]⟩
  | octDown => exact ⟨60, _, rfl, by simp [CmdStart]⟩
  | quantize n => exact ⟨81, _, rfl, by simp [CmdStart]⟩
  | early n => exact ⟨113, _, rfl, by simp [CmdStart]⟩
  | measure n => exact ⟨67, _, rfl, by simp [CmdStart]⟩
  | shuffle n => exact ⟨115, _, rfl, by simp [CmdStart]⟩
  | slur => exact ⟨38, _, rfl, by simp [CmdStart]⟩
  | _ => exact absurd hc (by simp [Covered])

theorem cmdStart_range (c : Nat) (h : CmdStart c) : (33 ≤ c ∧ c < 128) ∧ NotLoopChar c := by
  unfold CmdStart at h; unfold NotLoopChar; omega

/-- what follows a command on a canonical line: nothing, or one space and the next command -/
def SepTail (tail : List Nat) : Prop := tail = [] ∨ ∃ c r, tail = 32 :: c :: r ∧ CmdStart c

theorem numSpan_nil : numSpan [] = (none, 0) := by simp [numSpan, LineBuffer.countBlanks]

theorem numSpan_sep (c : Nat) (r : List Nat) (hc : CmdStart c) : numSpan (32 :: c :: r) = (none, 1) := by
  have hr := (cmdStart_range c hc).1
  unfold numSpan
  have hk : LineBuffer.countBlanks (32 :: c :: r) = 1 := by
    have : isBlank (schar 32) = true := by decide
    simp [LineBuffer.countBlanks, this, not_blank_of_range c hr]
  have hnd : ¬ (c = 36 ∨ c = 120) := by unfold CmdStart at hc; omega
  simp only [hk, List.drop_succ_cons, List.drop_zero, hnd, if_false]
  rw [strtol_pos 10 c r (not_space_of_range c hr) (by unfold CmdStart at hc; omega) (by unfold CmdStart at hc; omega) (by omega)]
  have : takeDigits 10 (c :: r) = [] := by
    unfold takeDigits
    have : digitVal 10 c = none := by
      unfold digitVal
      have h1 : ¬ (48 ≤ c ∧ c ≤ 57) := by unfold CmdStart at hc; omega
      simp only [h1, if_false]
      split
      · have : ¬ c - 87 < 10 := by omega
        simp [this]
      · split
        · have : ¬ c - 55 < 10 := by omega
          simp [this]
        · simp
    simp [this]
  simp [this, numOut]

theorem numEnd_sepTail (base : Nat) (hb : base ≤ 16) (tail : List Nat) (h : SepTail tail) : NumEnd base tail := by
  rcases h with rfl | ⟨c, r, rfl, _⟩
  · exact ⟨fun c hc => by simp at hc, fun _ c hc => by simp at hc⟩
  · refine ⟨?_, ?_⟩
    · intro x hx
      simp at hx; subst hx
      unfold digitVal
      simp only [show ¬ (48 ≤ 32 ∧ 32 ≤ 57) by omega, show ¬ (97 ≤ 32 ∧ 32 ≤ 122) by omega,
        show ¬ (65 ≤ 32 ∧ 32 ≤ 90) by omega, if_false]
      have : ¬ 99 < base := by omega
      simp [this]
    · intro _ x hx
      simp at hx; omega

theorem durTail_sepTail (d : Dur) (tail : List Nat) (h : SepTail tail) : DurTail d tail := by
  have h46 : tail.head? ≠ some 46 := by
    rcases h with rfl | ⟨c, r, rfl, _⟩ <;> simp
  have hb : ∀ n : Num, numBase n ≤ 16 := fun n => by unfold numBase; split <;> omega
  cases d with
  | dflt k =>
    cases k with
    | zero =>
      rcases h with rfl | ⟨c, r, rfl, hc⟩
      · simp [DurTail, numSpan_nil]
      · have hne : c ≠ 46 := by unfold CmdStart at hc; omega
        simp [DurTail, numSpan_sep c r hc, hne]
    | succ k => exact h46
  | len n k =>
    cases k with
    | zero => exact ⟨numEnd_sepTail _ (hb n) tail h, h46⟩
    | succ k => exact h46
  | frames n k =>
    cases k with
    | zero => exact ⟨numEnd_sepTail _ (hb n) tail h, h46⟩
    | succ k => exact h46

end Ctrmml.Mml

namespace Ctrmml.Mml
open Ctrmml.Tables Ctrmml.Lexer Ctrmml.TrackBuilder
open Ctrmml.MmlMeaning (Num Dur Acc Cmd Simple dotsBytes bodyBytes)

theorem num_bytes_head_nonneg (n : Num) (h0 : 0 ≤ n.v) :
    ∃ c r, n.bytes = c :: r ∧ (c = 36 ∨ (48 ≤ c ∧ c ≤ 57) ∨ (97 ≤ c ∧ c ≤ 102)) := by
  obtain ⟨c, r, hcr, hc⟩ := num_bytes_head n
  refine ⟨c, r, hcr, ?_⟩
  rcases hc with h | h | h | h
  · exact Or.inl h
  · exfalso
    unfold Num.bytes at hcr
    have hn : ¬ n.v < 0 := by omega
    by_cases hh : n.hex = true
    · simp [hh] at hcr; omega
    · have hh' : n.hex = false := by simpa using hh
      simp only [hh', hn, Bool.false_eq_true, if_false, List.nil_append] at hcr
      have hsp := natDigits_spec 10 (by omega) (n.v.natAbs + 1) n.v.natAbs (by omega)
      obtain ⟨d, tl, hd, heq⟩ := digits_head _ [] hsp.2.2
      have hr := digitChar_range d (by have := hsp.2.1 d hd; omega)
      rw [renderNat_eq] at hcr
      simp only [List.append_nil] at heq
      rw [heq] at hcr
      simp at hcr; omega
  · exact Or.inr (Or.inl h)
  · exact Or.inr (Or.inr h)

theorem dur_head (d : Dur) (tail : List Nat) (hn : DurNums d) (ht : SepTail tail) :
    (d.bytes ++ tail).head? ≠ some 43 ∧ (d.bytes ++ tail).head? ≠ some 45 ∧ (d.bytes ++ tail).head? ≠ some 61 := by
  cases d with
  | dflt k =>
    cases k with
    | zero => rcases ht with rfl | ⟨c, r, rfl, _⟩ <;> simp [Dur.bytes, dotsBytes]
    | succ k => simp [Dur.bytes, dotsBytes, List.replicate_succ]
  | len n k =>
    obtain ⟨c, r, hcr, hc⟩ := num_bytes_head_nonneg n (by have := hn.2; omega)
    simp only [Dur.bytes, hcr, List.cons_append, List.head?_cons, ne_eq, Option.some.injEq]
    omega
  | frames n k => simp [Dur.bytes]

theorem cmdTail_sepTail (t : Track) (cmd : Cmd) (tail : List Nat) (hn : CmdNums t cmd) (ht : SepTail tail) :
    CmdTail cmd tail := by
  have hb : ∀ n : Num, numBase n ≤ 16 := fun n => by unfold numBase; split <;> omega
  cases cmd with
  | note l a d => exact ⟨durTail_sepTail d tail ht, fun _ => dur_head d tail hn ht⟩
  | rest d => exact durTail_sepTail d tail ht
  | tie d => exact durTail_sepTail d tail ht
  | length d => exact durTail_sepTail d tail ht
  | octave n => exact numEnd_sepTail _ (hb n) tail ht
  | quantize n => exact numEnd_sepTail _ (hb n) tail ht
  | early n => exact numEnd_sepTail _ (hb n) tail ht
  | measure n => exact numEnd_sepTail _ (hb n) tail ht
  | shuffle n => exact numEnd_sepTail _ (hb n) tail ht
  | _ => trivial

theorem cmdSkip_cases (cmd : Cmd) (tail : List Nat) : cmdSkip cmd tail = 0 ∨ cmdSkip cmd tail = (numSpan tail).2 := by
  have hd : ∀ d : Dur, durSkip d tail = 0 ∨ durSkip d tail = (numSpan tail).2 := by
    intro d
    cases d with
    | dflt k => cases k with
      | zero => exact Or.inr rfl
      | succ k => exact Or.inl rfl
    | len n k => exact Or.inl rfl
    | frames n k => exact Or.inl rfl
  cases cmd <;> first | exact hd _ | exact Or.inl rfl

/-- the track after a line of commands whose first command starts at column `col` -/
def lineTrack (line : Nat) : Nat → Track → List Cmd → Track
  | _, t, [] => t
  | col, t, cmd :: cs =>
    lineTrack line (col + cmd.bytes.length + 1) (cmdTrack (t.setReference (some { line := line, column := col })) cmd) cs

/-- every command is covered and its numbers are in range on the track it meets -/
def LineNums (line : Nat) : Nat → Track → List Cmd → Prop
  | _, _, [] => True
  | col, t, cmd :: cs =>
    Covered cmd ∧ CmdNums (t.setReference (some { line := line, column := col })) cmd ∧
    LineNums line (col + cmd.bytes.length + 1) (cmdTrack (t.setReference (some { line := line, column := col })) cmd) cs

theorem getTokenC_blank_end (s : MmlState) (k : Nat) (h : suffix s = List.replicate k 32) :
    getTokenC s = .ok 0 (adv s (k + 1)) := by
  have hcb : ∀ k : Nat, LineBuffer.countBlanks (List.replicate k 32) = k := by
    intro k
    induction k with
    | zero => rfl
    | succ k ih =>
      have : isBlank (schar 32) = true := by decide
      simp [List.replicate_succ, LineBuffer.countBlanks, this, ih]
  have hcb := hcb k
  have hs' : suffix (adv s k) = [] := by rw [suffix_adv, h]; simp
  rw [getTokenC_eq, h, hcb, getC_nil _ hs', adv_adv]

theorem parse_end (f : Nat) (s : MmlState) (k : Nat) (h : suffix s = List.replicate k 32) :
    parseMmlTrackF (f + 1) s = .ok () (adv s (k + 1)) := by
  unfold parseMmlTrackF
  rw [bind_ok (getTokenC_blank_end s k h), bind_ok (getS_run _)]
  simp (config := { decide := true }) only [if_false, if_true, Bool.false_and]
  rfl

end Ctrmml.Mml

namespace Ctrmml.Mml
open Ctrmml.Tables Ctrmml.Lexer Ctrmml.TrackBuilder
open Ctrmml.MmlMeaning (Num Dur Acc Cmd Simple dotsBytes bodyBytes)

/-- separator and the remaining commands -/
def sepBody : List Cmd → List Nat
  | [] => []
  | c :: cs => 32 :: bodyBytes (c :: cs)

theorem bodyBytes_cons (cmd : Cmd) (cs : List Cmd) : bodyBytes (cmd :: cs) = cmd.bytes ++ sepBody cs := by
  cases cs <;> simp [bodyBytes, sepBody]

theorem parse_body (cmds : List Cmd) : ∀ (f : Nat) (s : MmlState) (k : Nat), Sane s →
    suffix s = List.replicate k 32 ++ bodyBytes cmds →
    LineNums s.inp.line (s.inp.lb.column + k) (getTrack s) cmds → cmds.length + 1 ≤ f →
    ∃ s', parseMmlTrackF f s = .ok () s' ∧
      getTrack s' = lineTrack s.inp.line (s.inp.lb.column + k) (getTrack s) cmds := by
  induction cmds with
  | nil =>
    intro f s k _ hsuf _ hf
    obtain ⟨f', rfl⟩ : ∃ f', f = f' + 1 := ⟨f - 1, by simp at hf; omega⟩
    have hsuf' : suffix s = List.replicate k 32 := by simpa [bodyBytes] using hsuf
    exact ⟨_, parse_end f' s k hsuf', rfl⟩
  | cons cmd cs ih =>
    intro f s k hs hsuf hnums hf
    obtain ⟨f', rfl⟩ : ∃ f', f = f' + 1 := ⟨f - 1, by simp at hf; omega⟩
    obtain ⟨hcov, hn, hrest⟩ := hnums
    obtain ⟨t1, ht1⟩ : ∃ t1, t1 = (getTrack s).setReference (some { line := s.inp.line, column := s.inp.lb.column + k }) := ⟨_, rfl⟩
    rw [← ht1] at hn hrest
    obtain ⟨tail, htail⟩ : ∃ tail, tail = sepBody cs := ⟨_, rfl⟩
    have hbody : bodyBytes (cmd :: cs) = cmd.bytes ++ tail := by rw [htail]; exact bodyBytes_cons cmd cs
    have hsep : SepTail tail := by
      cases cs with
      | nil => exact Or.inl htail
      | cons c2 cs' =>
        obtain ⟨ch, r', hb2, hch⟩ := covered_head c2 hrest.1
        refine Or.inr ⟨ch, r' ++ sepBody cs', ?_, hch⟩
        rw [htail]; show 32 :: bodyBytes (c2 :: cs') = _
        rw [bodyBytes_cons, hb2]; rfl
    obtain ⟨s0, hs0⟩ : ∃ s0, s0 = setTrack (adv s k) t1 := ⟨_, rfl⟩
    have hsane0 : Sane s0 := by
      rw [hs0]; exact sane_setTrack _ _ (sane_adv s hs k (by rw [hsuf]; simp))
    have hsuf0 : suffix s0 = cmd.bytes ++ tail := by
      rw [hs0, suffix_setTrack, suffix_adv, hsuf, hbody]; simp
    have hgt0 : getTrack s0 = t1 := by rw [hs0]; exact getTrack_setTrack _ _
    have hspan := cmd_span s0 hsane0 cmd tail hcov hsuf0 (by rw [hgt0]; exact hn)
      (cmdTail_sepTail t1 cmd tail hn hsep)
    rw [hgt0] at hspan
    obtain ⟨c, r, hcr, hcs⟩ := covered_head cmd hcov
    have hrg := cmdStart_range c hcs
    have hsuf' : suffix s = List.replicate k 32 ++ c :: (r ++ tail) := by rw [hsuf, hbody, hcr]; simp
    have hstep := step_basic f' s hs k c (r ++ tail) hsuf' hrg.1 hrg.2 _ (by rw [← ht1, ← hs0]; exact hspan)
    obtain ⟨s2, hs2⟩ : ∃ s2, s2 = adv (setTrack s0 (cmdTrack t1 cmd)) (cmd.bytes.length + cmdSkip cmd tail) := ⟨_, rfl⟩
    rw [← hs2] at hstep
    have hgt2 : getTrack s2 = cmdTrack t1 cmd := by rw [hs2, getTrack_adv]; exact getTrack_setTrack _ _
    have hline2 : s2.inp.line = s.inp.line := by rw [hs2, hs0]; rfl
    have hcol2 : s2.inp.lb.column = s.inp.lb.column + k + (cmd.bytes.length + cmdSkip cmd tail) := by rw [hs2, hs0]; rfl
    have hsufd : suffix s2 = tail.drop (cmdSkip cmd tail) := by
      rw [hs2, suffix_adv, suffix_setTrack, hsuf0, ← List.drop_drop]; simp
    -- the separator: k' blanks remain in front of the next command
    have hkey : ∃ k', suffix s2 = List.replicate k' 32 ++ bodyBytes cs ∧ cmdSkip cmd tail ≤ tail.length ∧
        (cs ≠ [] → cmdSkip cmd tail + k' = 1) := by
      cases cs with
      | nil =>
        have ht : tail = [] := htail
        have hsk : cmdSkip cmd tail = 0 := by
          rcases cmdSkip_cases cmd tail with h | h
          · exact h
          · rw [h, ht, numSpan_nil]
        exact ⟨0, by rw [hsufd, hsk, ht]; simp [bodyBytes], by rw [hsk]; omega, fun h => absurd rfl h⟩
      | cons c2 cs' =>
        obtain ⟨ch, r', hb2, hch⟩ := covered_head c2 hrest.1
        have ht : tail = 32 :: bodyBytes (c2 :: cs') := htail
        have hbb : bodyBytes (c2 :: cs') = ch :: (r' ++ sepBody cs') := by
          rw [bodyBytes_cons, hb2]; rfl
        rcases cmdSkip_cases cmd tail with h | h
        · exact ⟨1, by rw [hsufd, h, ht]; rfl, by rw [h]; omega, fun _ => by rw [h]⟩
        · have hns : (numSpan tail).2 = 1 := by rw [ht, hbb, numSpan_sep ch _ hch]
          rw [hns] at h
          exact ⟨0, by rw [hsufd, h, ht]; rfl, by rw [h, ht]; simp, fun _ => by rw [h]⟩
    obtain ⟨k', hsuf2, hskle, hk'⟩ := hkey
    have hsane2 : Sane s2 := by
      rw [hs2]; exact sane_adv _ (sane_setTrack _ _ hsane0) _ (by rw [suffix_setTrack, hsuf0]; simp; omega)
    have hnums2 : LineNums s2.inp.line (s2.inp.lb.column + k') (getTrack s2) cs := by
      rw [hline2, hgt2]
      cases cs with
      | nil => trivial
      | cons c2 cs' =>
        have := hk' (by simp)
        have e : s2.inp.lb.column + k' = s.inp.lb.column + k + cmd.bytes.length + 1 := by rw [hcol2]; omega
        rw [e]; exact hrest
    obtain ⟨s', hp, hg⟩ := ih f' s2 k' hsane2 hsuf2 hnums2 (by simp at hf ⊢; omega)
    refine ⟨s', by rw [hstep]; exact hp, ?_⟩
    rw [hg, hline2, hgt2]
    show _ = lineTrack s.inp.line (s.inp.lb.column + k + cmd.bytes.length + 1) (cmdTrack ((getTrack s).setReference _) cmd) cs
    rw [← ht1]
    cases cs with
    | nil => rfl
    | cons c2 cs' =>
      have := hk' (by simp)
      have e : s2.inp.lb.column + k' = s.inp.lb.column + k + cmd.bytes.length + 1 := by rw [hcol2]; omega
      rw [e]

end Ctrmml.Mml

namespace Ctrmml.Mml
open Ctrmml.Tables Ctrmml.Lexer Ctrmml.TrackBuilder
open Ctrmml.MmlMeaning (Num Dur Acc Cmd Simple dotsBytes bodyBytes)

theorem bodyBytes_length (cmds : List Cmd) (h : ∀ c ∈ cmds, Covered c) : cmds.length ≤ (bodyBytes cmds).length := by
  induction cmds with
  | nil => simp
  | cons cmd cs ih =>
    obtain ⟨c, r, hcr, _⟩ := covered_head cmd (h cmd (by simp))
    have := ih (fun x hx => h x (by simp [hx]))
    rw [bodyBytes_cons, hcr]
    cases cs with
    | nil => simp [sepBody]
    | cons c2 cs' => simp only [sepBody, List.length_append, List.length_cons] at this ⊢; omega

theorem lineNums_covered (line : Nat) (cmds : List Cmd) : ∀ col t, LineNums line col t cmds → ∀ c ∈ cmds, Covered c := by
  induction cmds with
  | nil => intro _ _ _ c hc; simp at hc
  | cons cmd cs ih =>
    intro col t h c hc
    simp at hc
    rcases hc with rfl | hc
    · exact h.1
    · exact ih _ _ h.2.2 c hc

/-- `parse_mml_track` (with the fuel the model gives it) on the body of a canonical line -/
theorem parse_track_body (cmds : List Cmd) (s : MmlState) (hs : Sane s) (hsuf : suffix s = bodyBytes cmds)
    (hn : LineNums s.inp.line s.inp.lb.column (getTrack s) cmds) :
    ∃ s', parseMmlTrack s = .ok () s' ∧ getTrack s' = lineTrack s.inp.line s.inp.lb.column (getTrack s) cmds := by
  unfold parseMmlTrack
  rw [bind_ok (getS_run s)]
  have hlen := bodyBytes_length cmds (lineNums_covered _ cmds _ _ hn)
  have hfuel : cmds.length + 1 ≤ trackFuel s := by
    have h1 := suffix_length s
    rw [hsuf] at h1
    unfold trackFuel
    have := hs.inl
    omega
  have := parse_body cmds (trackFuel s) s 0 hs (by simpa using hsuf) (by simpa using hn) hfuel
  simpa using this

end Ctrmml.Mml
