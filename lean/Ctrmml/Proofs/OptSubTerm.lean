/-
  C01, layer 3 — termination, the subroutine half (continued): a pass that extracts a subroutine
  strictly decreases the number of events of the song.

  `apply_match` creates the phrase track (`+len` events), replaces the occurrence it was found at
  (`-(len-1)`), and `find_subroutines` replaces at least one more occurrence (`-(len-1)`, with
  `len ≥ 3`): the occurrence `find_match` counted (`SubOK2`) is found again on the rewritten song
  (`fml_transfer`, `counted_found`) unless an earlier replacement has already been made.
-/
import Ctrmml.Proofs.OptSubHit
namespace Ctrmml.OptSteps
open Ctrmml Ctrmml.Tree Ctrmml.Expand Ctrmml.Rewrite Ctrmml.Opt Tables

/-! ## `find_match_length` on given tracks -/

theorem findMatchLength_unfold {song : Song} {m : SAMap} {srcT srcStart dstT dstStart : Nat} {wl : Bool}
    {src dst : List Event} (hs : song.track? srcT = some src) (hd : song.track? dstT = some dst) :
    findMatchLength song m srcT srcStart dstT dstStart wl =
      findMatchLength.go dstStart src dst (getSA m dstT) (src.length + dst.length + 1) srcStart dstStart 0 dstStart
        wl 0 := by
  unfold findMatchLength
  rw [hs, hd]

/-- a match of positive length has read the stack list at its first position -/
theorem fml_first {song : Song} {m : SAMap} {srcT srcStart dstT dstPos : Nat} {wl : Bool} {len0 ll : Nat}
    (hf : findMatchLength song m srcT srcStart dstT dstPos wl = .ok (len0, ll)) (h1 : 1 ≤ len0) :
    ∃ u, (getSA m dstT).eventList[dstPos]? = some u := by
  obtain ⟨src, dst, hs, hd, _⟩ := findMatchLength_spec hf
  rw [findMatchLength_unfold hs hd] at hf
  unfold findMatchLength.go at hf
  split at hf
  · split at hf
    · simp at hf
    · rename_i u hu
      exact ⟨u, hu⟩
  · simp only [Except.ok.injEq, Prod.mk.injEq] at hf
    omega

/-- **The counted occurrence is found again**: a match of length `≥ len` of the phrase at
`(srcT, srcStart)` against `(dstT, dstPos)`, whose `len`-prefix ends at depth 0, is a match of
length exactly `len` of the phrase track `Xl` against any track and stack list that agree with the
old ones on those `len` positions. -/
theorem fml_transfer {song s2 : Song} {m m2 : SAMap} {srcT srcStart dstT dstPos pos2 subT len len0 ll : Nat}
    {wl : Bool} {src dst Xl dst2 : List Event}
    (hsrc : song.track? srcT = some src) (hdstt : song.track? dstT = some dst)
    (hf : findMatchLength song m srcT srcStart dstT dstPos wl = .ok (len0, ll)) (hle : len ≤ len0)
    (hbal : scan ((dst.drop dstPos).take len) 0 = some 0)
    (hX : s2.track? subT = some Xl) (hXl : Xl = (src.drop srcStart).take len) (hlen : srcStart + len ≤ src.length)
    (hd2 : s2.track? dstT = some dst2)
    (hdst : ∀ i, i < len → dst[dstPos + i]? = dst2[pos2 + i]?)
    (hsa : ∀ i, i < len → (getSA m dstT).eventList[dstPos + i]? = (getSA m2 dstT).eventList[pos2 + i]?)
    (hbase : (getSA m dstT).baseUsage = (getSA m2 dstT).baseUsage) :
    ∃ ll', findMatchLength s2 m2 subT 0 dstT pos2 false = .ok (len, ll') := by
  rw [findMatchLength_unfold hsrc hdstt] at hf
  rw [findMatchLength_unfold hX hd2]
  have hXlen : Xl.length = len := by rw [hXl, List.length_take, List.length_drop]; omega
  have hsx : ∀ i, i < len → src[srcStart + i]? = Xl[i]? := by
    intro i hi
    rw [hXl, List.getElem?_take, if_pos hi, List.getElem?_drop]
  exact go_sim hXlen hsx hdst hsa hbase hbal _ _ srcStart dstPos dstPos 0 pos2 pos2 0 wl false 0 0 0 0 0
    rfl rfl rfl rfl rfl rfl (Nat.zero_le _) (Nat.le_refl _) (fun _ => rfl) rfl rfl (by omega) _ hf hle

/-! ## the spliced track and stack list -/

theorem splice_get {α : Type} (l : List α) (pos len n : Nat) (j : α) (hpos : pos ≤ l.length) (hn : pos + 1 ≤ n) :
    (l.take pos ++ [j] ++ l.drop (pos + len))[n]? = l[n + len - 1]? := by
  have h1 : (l.take pos ++ [j]).length = pos + 1 := by simp; omega
  rw [List.getElem?_append_right (by rw [h1]; exact hn), h1, List.getElem?_drop]
  congr 1; omega

theorem splice_sl_get {α : Type} (l : List α) (pos len n : Nat) (hpos : pos ≤ l.length) (hn : pos + 1 ≤ n)
    (hlen : 1 ≤ len) : (l.take pos ++ l.drop (pos + len - 1))[n]? = l[n + len - 1]? := by
  have h1 : (l.take pos).length = pos := by simp; omega
  rw [List.getElem?_append_right (by rw [h1]; omega), h1, List.getElem?_drop]
  congr 1; omega

/-- the song and the analyser map after `apply_match` has created the phrase track and replaced
the occurrence it was found at -/
def afterFirst (song : Song) (m : SAMap) (subId : Int) (srcT pos len : Nat) (src : List Event) : Song × SAMap :=
  (setTrack (setTrack song (trackIdOfParam subId) ((src.drop pos).take len)) srcT
      (src.take pos ++ [jumpEvent subId] ++ src.drop (pos + len)),
   setSA m srcT { getSA m srcT with
      eventList := (getSA m srcT).eventList.take pos ++ (getSA m srcT).eventList.drop (pos + len - 1) })

theorem afterFirst_track (hq : QSortPerm) {song : Song} {m : SAMap} {subId : Int} {srcT pos len : Nat}
    {src : List Event} (hnd : (song.tracks.map (·.1)).Nodup) (hsrc : song.track? srcT = some src)
    (hfresh : song.track? (trackIdOfParam subId) = none) (id : Nat) :
    (afterFirst song m subId srcT pos len src).1.track? id =
      if id = srcT then some (src.take pos ++ [jumpEvent subId] ++ src.drop (pos + len))
      else if id = trackIdOfParam subId then some ((src.drop pos).take len) else song.track? id := by
  have hne : srcT ≠ trackIdOfParam subId := by
    intro he; rw [he, hfresh] at hsrc; cases hsrc
  have hs1 : ∀ id', (setTrack song (trackIdOfParam subId) ((src.drop pos).take len)).track? id' =
      if id' = trackIdOfParam subId then some ((src.drop pos).take len) else song.track? id' :=
    fun id' => track?_setTrack_fresh hq hnd hfresh _ id'
  have hs1src : (setTrack song (trackIdOfParam subId) ((src.drop pos).take len)).track? srcT = some src := by
    rw [hs1, if_neg hne]; exact hsrc
  unfold afterFirst
  simp only
  rw [track?_setTrack hs1src, hs1]

theorem afterFirst_eq (hq : QSortPerm) {song : Song} {m : SAMap} {subId : Int} {srcT pos len : Nat}
    {src : List Event} (hnd : (song.tracks.map (·.1)).Nodup) (hsrc : song.track? srcT = some src)
    (hfresh : song.track? (trackIdOfParam subId) = none) :
    replaceWithSub (setTrack song (trackIdOfParam subId) ((src.drop pos).take len)) m subId srcT pos len =
      afterFirst song m subId srcT pos len src := by
  have hne : srcT ≠ trackIdOfParam subId := by
    intro he; rw [he, hfresh] at hsrc; cases hsrc
  have hs1src : (setTrack song (trackIdOfParam subId) ((src.drop pos).take len)).track? srcT = some src := by
    rw [track?_setTrack_fresh hq hnd hfresh, if_neg hne]; exact hsrc
  unfold replaceWithSub afterFirst
  rw [hs1src]

/-- **The occurrence `find_match` counted is found by the search of `find_subroutines`** on the
song after the first replacement: in a track that `find_subroutines` visits, at a position it
reaches, with match length exactly `len`. -/
theorem counted_found (hq : QSortPerm) {song : Song} {m : SAMap} {subId : Int} {srcT pos len : Nat}
    {src : List Event} (hnd : (song.tracks.map (·.1)).Nodup) (hsrc : song.track? srcT = some src)
    (hfresh : song.track? (trackIdOfParam subId) = none)
    (hso : SubOK2 song m srcT pos (fun len => ((balancedPrefixes src pos)[len]?).getD false) len) :
    ∃ dstT pos2 dst2 ll,
      (afterFirst song m subId srcT pos len src).1.track? dstT = some dst2 ∧
      ¬ (dstT < srcT ∨ dstT = trackIdOfParam subId) ∧
      (if dstT = srcT then pos + 1 else 0) ≤ pos2 ∧ pos2 < dst2.length ∧
      findMatchLength (afterFirst song m subId srcT pos len src).1 (afterFirst song m subId srcT pos len src).2
        (trackIdOfParam subId) 0 dstT pos2 false = .ok (len, ll) := by
  obtain ⟨hlen, hbalX⟩ := subOK_balanced hsrc hso.toSubOK
  obtain ⟨h3, _, dstT, dstPos, wl, len0, ll, hf, hle, hwhere⟩ := hso
  obtain ⟨src', dst, hs, hd, hspec⟩ := findMatchLength_spec hf
  rw [hsrc] at hs
  cases hs
  -- the depth scan of the counted occurrence
  have hty : ((src.drop pos).take len).map (·.type) = ((dst.drop dstPos).take len).map (·.type) := by
    apply List.ext_getElem?
    intro i
    simp only [List.getElem?_map, List.getElem?_take, List.getElem?_drop]
    by_cases hi : i < len
    · obtain ⟨s, d, g1, g2, g3, _, _⟩ := hspec.same i (by omega)
      simp only [hi, if_true, g1, g2, Option.map_some, sameEvent_type g3]
    · simp [hi]
  have hbal : scan ((dst.drop dstPos).take len) 0 = some 0 := by rw [← scan_congr hty]; exact hbalX
  have hdlen : dstPos + len ≤ dst.length := by
    obtain ⟨s, d, _, g2, _⟩ := hspec.same (len - 1) (by omega)
    have := (List.getElem?_eq_some_iff.1 g2).1
    omega
  have hne : srcT ≠ trackIdOfParam subId := by
    intro he; rw [he, hfresh] at hsrc; cases hsrc
  have hdsub : dstT ≠ trackIdOfParam subId := by
    intro he; rw [he, hfresh] at hd; cases hd
  have hX := afterFirst_track hq (m := m) (pos := pos) (len := len) hnd hsrc hfresh (trackIdOfParam subId)
  rw [if_neg (Ne.symm hne), if_pos rfl] at hX
  rcases hwhere with hgt | ⟨heq, hpos⟩
  · -- a later track: nothing has changed there
    have hdt : dstT ≠ srcT := by omega
    have hd2 := afterFirst_track hq (m := m) (pos := pos) (len := len) hnd hsrc hfresh dstT
    rw [if_neg hdt, if_neg hdsub, hd] at hd2
    have hkey : ((dstT : Nat) : Int) ≠ ((srcT : Nat) : Int) := by omega
    have hsa2 : getSA (afterFirst song m subId srcT pos len src).2 dstT = getSA m dstT := by
      unfold afterFirst
      exact getSA_setSA_ne _ _ _ _ hkey
    obtain ⟨ll', hll⟩ := fml_transfer (m2 := (afterFirst song m subId srcT pos len src).2) (pos2 := dstPos)
      hsrc hd hf hle hbal hX rfl hlen hd2 (fun _ _ => rfl) (fun _ _ => by rw [hsa2]) (by rw [hsa2])
    refine ⟨dstT, dstPos, dst, ll', hd2, by omega, by rw [if_neg hdt]; omega, by omega, hll⟩
  · -- the same track, after the phrase: everything has moved by `len - 1`
    subst heq
    rw [hsrc] at hd
    cases hd
    have hd2 := afterFirst_track hq (m := m) (pos := pos) (len := len) hnd hsrc hfresh dstT
    rw [if_pos rfl] at hd2
    obtain ⟨u, hu⟩ := fml_first hf (by omega)
    have hel : pos ≤ (getSA m dstT).eventList.length := by
      have := (List.getElem?_eq_some_iff.1 hu).1
      omega
    have hsa2 : getSA (afterFirst song m subId dstT pos len src).2 dstT =
        { getSA m dstT with eventList :=
            (getSA m dstT).eventList.take pos ++ (getSA m dstT).eventList.drop (pos + len - 1) } := by
      unfold afterFirst
      exact getSA_setSA_same _ _ _
    obtain ⟨ll', hll⟩ := fml_transfer (m2 := (afterFirst song m subId dstT pos len src).2)
      (pos2 := dstPos + 1 - len) hsrc hsrc hf hle hbal hX rfl hlen hd2
      (fun i hi => by
        rw [splice_get src pos len _ _ (by omega) (by omega)]
        congr 1; omega)
      (fun i hi => by
        rw [hsa2]
        simp only
        rw [splice_sl_get _ pos len _ hel (by omega) (by omega)]
        congr 1; omega)
      (by rw [hsa2])
    refine ⟨dstT, dstPos + 1 - len, _, ll', hd2, by omega, by rw [if_pos rfl]; omega, ?_, hll⟩
    simp only [List.length_append, List.length_take, List.length_drop, List.length_cons, List.length_nil]
    omega

/-! ## `find_subroutines` replaces at least one occurrence -/

theorem replaceWithSub_total {s : Song} {mm : SAMap} {subId : Int} {dstT pos len : Nat} {evs : List Event}
    (hnd : (s.tracks.map (·.1)).Nodup) (hd : s.track? dstT = some evs) (hl : pos + len ≤ evs.length)
    (h1 : 1 ≤ len) :
    totalEvents (replaceWithSub s mm subId dstT pos len).1 + (len - 1) = totalEvents s := by
  unfold replaceWithSub
  rw [hd]
  simp only
  have := songW_setTrack (fun _ => 1) hnd hd (evs.take pos ++ [jumpEvent subId] ++ evs.drop (pos + len))
  rw [wsum_one, wsum_one] at this
  simp only [List.length_append, List.length_take, List.length_drop, List.length_cons, List.length_nil] at this
  unfold totalEvents
  omega

/-- the state of `find_subroutines`: nothing replaced yet, or the song is shorter by at least `c` -/
def FSI (s2 : Song) (m2 : SAMap) (c : Nat) (s : Song) (mm : SAMap) : Prop :=
  (s.tracks.map (·.1)).Nodup ∧ ((s = s2 ∧ mm = m2) ∨ totalEvents s + c ≤ totalEvents s2)

/-- the song is shorter by at least `c` -/
def FSRed (s2 : Song) (c : Nat) (s : Song) : Prop :=
  (s.tracks.map (·.1)).Nodup ∧ totalEvents s + c ≤ totalEvents s2

theorem fsInner_replaced {bm : Match} {subId : Int} {dstT : Nat} {s : Song} {mm : SAMap} {pos : Nat}
    (hnd : (s.tracks.map (·.1)).Nodup) (h1 : 1 ≤ bm.subLength)
    {x : Nat × Nat} (hx : findMatchLength s mm (trackIdOfParam subId) 0 dstT pos false = .ok x)
    (hxl : x.1 = bm.subLength) :
    ((replaceWithSub s mm subId dstT pos x.1).1.tracks.map (·.1)).Nodup ∧
      totalEvents (replaceWithSub s mm subId dstT pos x.1).1 + (bm.subLength - 1) = totalEvents s := by
  refine ⟨by rw [replaceWithSub_keys]; exact hnd, ?_⟩
  obtain ⟨src, dst, _, hd, hspec⟩ := findMatchLength_spec (len := x.1) (loopLen := x.2) hx
  obtain ⟨_, d, _, g2, _⟩ := hspec.same (x.1 - 1) (by omega)
  have := (List.getElem?_eq_some_iff.1 g2).1
  rw [hxl]
  exact replaceWithSub_total hnd hd (by omega) h1

theorem fsInner_red {s2 : Song} {c : Nat} {bm : Match} {subId : Int} {dstT : Nat} {st : Song × SAMap × Nat}
    (h1 : 1 ≤ bm.subLength) (hI : FSRed s2 c st.1)
    {r : ForInStep (Song × SAMap × Nat)} (hr : fsInner bm subId dstT st = .ok r) :
    ∃ b', r = .yield b' ∧ FSRed s2 c b'.1 := by
  unfold fsInner at hr
  split at hr
  · obtain ⟨x, hx, hr⟩ := bind_ok hr
    split at hr
    · rename_i hxl
      simp only [pure, Except.pure, Except.ok.injEq] at hr
      refine ⟨_, hr.symm, ?_⟩
      obtain ⟨g1, g2⟩ := fsInner_replaced hI.1 h1 hx hxl
      exact ⟨g1, by have := hI.2; simp only; omega⟩
    · simp only [pure, Except.pure, Except.ok.injEq] at hr
      exact ⟨_, hr.symm, hI⟩
  · simp only [pure, Except.pure, Except.ok.injEq] at hr
    exact ⟨_, hr.symm, hI⟩

theorem fsInner_fsi {s2 : Song} {m2 : SAMap} {bm : Match} {subId : Int} {dstT : Nat} {st : Song × SAMap × Nat}
    (h1 : 1 ≤ bm.subLength) (hI : FSI s2 m2 (bm.subLength - 1) st.1 st.2.1)
    {r : ForInStep (Song × SAMap × Nat)} (hr : fsInner bm subId dstT st = .ok r) :
    ∃ b', r = .yield b' ∧ FSI s2 m2 (bm.subLength - 1) b'.1 b'.2.1 := by
  unfold fsInner at hr
  split at hr
  · obtain ⟨x, hx, hr⟩ := bind_ok hr
    split at hr
    · rename_i hxl
      simp only [pure, Except.pure, Except.ok.injEq] at hr
      refine ⟨_, hr.symm, ?_⟩
      obtain ⟨g1, g2⟩ := fsInner_replaced hI.1 h1 hx hxl
      refine ⟨g1, Or.inr ?_⟩
      rcases hI.2 with ⟨e1, _⟩ | hred
      · rw [← e1]; simp only; omega
      · simp only; omega
    · simp only [pure, Except.pure, Except.ok.injEq] at hr
      exact ⟨_, hr.symm, hI⟩
  · simp only [pure, Except.pure, Except.ok.injEq] at hr
    exact ⟨_, hr.symm, hI⟩

/-- the inner loop of `find_subroutines`, started on the untouched song at or before a position
where the phrase matches with its full length, replaces something -/
theorem inner_hits {s2 : Song} {m2 : SAMap} {bm : Match} {subId : Int} {dstT pos2 : Nat} {dst2 : List Event}
    {ll : Nat} (hnd : (s2.tracks.map (·.1)).Nodup) (h1 : 1 ≤ bm.subLength)
    (hd2 : s2.track? dstT = some dst2) (hp2 : pos2 < dst2.length)
    (hfm : findMatchLength s2 m2 (trackIdOfParam subId) 0 dstT pos2 false = .ok (bm.subLength, ll)) :
    ∀ (l : List Nat) (pos : Nat), pos ≤ pos2 → pos2 - pos < l.length →
    ∀ r, forIn l (s2, m2, pos) (fun _ => fsInner bm subId dstT) = .ok r → FSRed s2 (bm.subLength - 1) r.1 := by
  intro l
  induction l with
  | nil => intro pos _ hl; simp at hl
  | cons a rest ih =>
    intro pos hpos hl r hr
    rw [List.forIn_cons] at hr
    obtain ⟨st, hst, hr⟩ := bind_ok hr
    -- the first iteration
    have hst' := hst
    unfold fsInner at hst'
    simp only [hd2, Option.map_some, Option.getD_some] at hst'
    rw [if_pos (by omega)] at hst'
    obtain ⟨x, hx, hst'⟩ := bind_ok hst'
    split at hst'
    · -- replaced
      rename_i hxl
      simp only [pure, Except.pure, Except.ok.injEq] at hst'
      subst hst'
      simp only at hr
      obtain ⟨g1, g2⟩ := fsInner_replaced (pos := pos) hnd h1 hx hxl
      exact forIn_inv' _ (fun st : Song × SAMap × Nat => FSRed s2 (bm.subLength - 1) st.1) _ _
        ⟨g1, by simp only; omega⟩ (fun _ _ b hb r hr => fsInner_red h1 hb hr) r hr
    · rename_i hxl
      simp only [pure, Except.pure, Except.ok.injEq] at hst'
      subst hst'
      simp only at hr
      have hne : pos ≠ pos2 := by
        intro he
        rw [he, hfm] at hx
        simp only [Except.ok.injEq] at hx
        rw [← hx] at hxl
        exact hxl rfl
      exact ih (pos + 1) (by omega) (by simp only [List.length_cons] at hl; omega) r hr

theorem fsOuter_red {s2 : Song} {c : Nat} {bm : Match} {subId : Int} {x : Nat × List Event} {st : Song × SAMap}
    (h1 : 1 ≤ bm.subLength) (hI : FSRed s2 c st.1)
    {r : ForInStep (Song × SAMap)} (hr : fsOuter bm subId x st = .ok r) :
    ∃ b', r = .yield b' ∧ FSRed s2 c b'.1 := by
  unfold fsOuter at hr
  split at hr
  · simp only [pure, Except.pure, Except.ok.injEq] at hr
    exact ⟨_, hr.symm, hI⟩
  · obtain ⟨r2, hr2, hr⟩ := bind_ok hr
    simp only [pure, Except.pure, Except.ok.injEq] at hr
    refine ⟨_, hr.symm, ?_⟩
    exact forIn_inv' _ (fun st : Song × SAMap × Nat => FSRed s2 c st.1) _ _ hI
      (fun _ _ b hb r hr => fsInner_red h1 hb hr) r2 hr2

/-- the outer loop, started on the untouched song, over tracks that include the one with the
counted occurrence -/
theorem outer_hits {s2 : Song} {m2 : SAMap} {bm : Match} {subId : Int} {dstT pos2 : Nat} {dst2 : List Event}
    {ll : Nat} (hnd : (s2.tracks.map (·.1)).Nodup) (h1 : 1 ≤ bm.subLength)
    (hd2 : s2.track? dstT = some dst2) (hskip : ¬ (dstT < bm.trackId ∨ dstT = trackIdOfParam subId))
    (hstart : (if dstT = bm.trackId then bm.position + 1 else 0) ≤ pos2) (hp2 : pos2 < dst2.length)
    (hfm : findMatchLength s2 m2 (trackIdOfParam subId) 0 dstT pos2 false = .ok (bm.subLength, ll)) :
    ∀ (l : List (Nat × List Event)), (∃ y, (dstT, y) ∈ l) →
    ∀ r, forIn l (s2, m2) (fsOuter bm subId) = .ok r → FSRed s2 (bm.subLength - 1) r.1 := by
  intro l
  induction l with
  | nil => intro h; obtain ⟨y, hy⟩ := h; simp at hy
  | cons x rest ih =>
    intro hmem r hr
    rw [List.forIn_cons] at hr
    obtain ⟨st, hst, hr⟩ := bind_ok hr
    have hrest : ∀ b : Song × SAMap, FSRed s2 (bm.subLength - 1) b.1 →
        forIn rest b (fsOuter bm subId) = .ok r → FSRed s2 (bm.subLength - 1) r.1 := fun b hb hr =>
      forIn_inv' _ (fun st : Song × SAMap => FSRed s2 (bm.subLength - 1) st.1) _ _ hb
        (fun _ _ b hb r hr => fsOuter_red h1 hb hr) r hr
    by_cases hx : x.1 = dstT
    · -- this is the track
      unfold fsOuter at hst
      rw [hx, if_neg hskip] at hst
      simp only [hd2, Option.map_some, Option.getD_some] at hst
      obtain ⟨r2, hr2, hst⟩ := bind_ok hst
      simp only [pure, Except.pure, Except.ok.injEq] at hst
      subst hst
      have := inner_hits hnd h1 hd2 hp2 hfm (List.range (dst2.length + 1)) _ hstart
        (by simp only [List.length_range]; omega) r2 hr2
      exact hrest _ this hr
    · have hmem' : ∃ y, (dstT, y) ∈ rest := by
        obtain ⟨y, hy⟩ := hmem
        rcases List.mem_cons.1 hy with h | h
        · exact absurd (by rw [← h]) hx
        · exact ⟨y, h⟩
      unfold fsOuter at hst
      split at hst
      · simp only [pure, Except.pure, Except.ok.injEq] at hst
        subst hst
        exact ih hmem' r hr
      · obtain ⟨r2, hr2, hst⟩ := bind_ok hst
        simp only [pure, Except.pure, Except.ok.injEq] at hst
        subst hst
        have hI := forIn_inv' _ (fun st : Song × SAMap × Nat => FSI s2 m2 (bm.subLength - 1) st.1 st.2.1) _ _
          (by exact ⟨hnd, Or.inl ⟨rfl, rfl⟩⟩)
          (fun _ _ b hb r hr => fsInner_fsi h1 hb hr) r2 hr2
        rcases hI.2 with ⟨e1, e2⟩ | hred
        · simp only at hr
          rw [e1, e2] at hr
          exact ih hmem' r hr
        · exact hrest _ ⟨hI.1, hred⟩ hr

/-- **`find_subroutines` replaces at least one occurrence** if the phrase matches with its full
length somewhere the search gets to. -/
theorem findSubroutines_hits {s2 : Song} {m2 : SAMap} {bm : Match} {subId : Int} {dstT pos2 : Nat}
    {dst2 : List Event} {ll : Nat} (hnd : (s2.tracks.map (·.1)).Nodup) (h1 : 1 ≤ bm.subLength)
    (hd2 : s2.track? dstT = some dst2) (hskip : ¬ (dstT < bm.trackId ∨ dstT = trackIdOfParam subId))
    (hstart : (if dstT = bm.trackId then bm.position + 1 else 0) ≤ pos2) (hp2 : pos2 < dst2.length)
    (hfm : findMatchLength s2 m2 (trackIdOfParam subId) 0 dstT pos2 false = .ok (bm.subLength, ll))
    {s3 : Song} {m3 : SAMap} (h : findSubroutines s2 m2 bm subId = .ok (s3, m3)) :
    totalEvents s3 + (bm.subLength - 1) ≤ totalEvents s2 := by
  rw [findSubroutines_eq] at h
  obtain ⟨r, hr, h⟩ := bind_ok h
  simp only [pure, Except.pure, Except.ok.injEq, Prod.mk.injEq] at h
  rw [← h.1]
  exact (outer_hits hnd h1 hd2 hskip hstart hp2 hfm s2.tracks ⟨dst2, mem_of_lookup hd2⟩ r hr).2

/-! ## the pass -/

theorem songW_perm (w : Event → Nat) {S S' : Song} (h : S.tracks.Perm S'.tracks) : songW w S = songW w S' := by
  unfold songW
  exact (h.map _).sum_nat

/-- **A pass that extracts a subroutine strictly decreases the number of events**: the new track
has `len ≥ 3` events, and at least two occurrences are replaced by one `JUMP` each. -/
theorem applyMatch_sub_decreases (hq : QSortPerm) {song : Song} {m : SAMap} {bm : Match} {subId : Int}
    {src : List Event} (hnd : (song.tracks.map (·.1)).Nodup)
    (hbr : bm.loopScore < bm.subScore) (hsrc : song.track? bm.trackId = some src)
    (hfresh : song.track? (trackIdOfParam subId) = none)
    (hso : SubOK2 song m bm.trackId bm.position
      (fun len => ((balancedPrefixes src bm.position)[len]?).getD false) bm.subLength)
    {s3 : Song} {m3 : SAMap} {subId' : Int} (h : applyMatch song m bm subId = .ok (s3, m3, subId')) :
    totalEvents s3 + 1 ≤ totalEvents song := by
  obtain ⟨hlen, _⟩ := subOK_balanced hsrc hso.toSubOK
  have h3 : 3 ≤ bm.subLength := hso.1
  obtain ⟨dstT, pos2, dst2, ll, hd2, hskip, hstart, hp2, hfm⟩ := counted_found hq (subId := subId) hnd hsrc hfresh hso
  obtain ⟨Xl, hXl⟩ : ∃ Xl, Xl = (src.drop bm.position).take bm.subLength := ⟨_, rfl⟩
  have hXlen : Xl.length = bm.subLength := by
    rw [hXl, List.length_take, List.length_drop]; omega
  have hne : bm.trackId ≠ trackIdOfParam subId := by
    intro he; rw [he, hfresh] at hsrc; cases hsrc
  -- the song with the new track
  have hs1t : (setTrack song (trackIdOfParam subId) Xl).tracks.Perm (song.tracks ++ [(trackIdOfParam subId, Xl)]) := by
    rw [setTrack_fresh_tracks hfresh]; exact hq _
  have hs1nd : ((setTrack song (trackIdOfParam subId) Xl).tracks.map (·.1)).Nodup :=
    ((hs1t.map _).nodup_iff).2 (nodup_keys_snoc hnd hfresh Xl)
  have hs1src : (setTrack song (trackIdOfParam subId) Xl).track? bm.trackId = some src := by
    rw [track?_setTrack_fresh hq hnd hfresh, if_neg hne]; exact hsrc
  have ht1 : totalEvents (setTrack song (trackIdOfParam subId) Xl) = totalEvents song + bm.subLength := by
    unfold totalEvents
    rw [songW_perm (S' := ⟨song.tracks ++ [(trackIdOfParam subId, Xl)]⟩) _ hs1t]
    simp [songW, wsum_one, hXlen]
  have ht2 := replaceWithSub_total (mm := m) (subId := subId) hs1nd hs1src hlen (by omega)
  have hnd2 : ((afterFirst song m subId bm.trackId bm.position bm.subLength src).1.tracks.map (·.1)).Nodup := by
    rw [← afterFirst_eq hq hnd hsrc hfresh, replaceWithSub_keys, ← hXl]; exact hs1nd
  unfold applyMatch at h
  simp only [hsrc, hbr, if_true, hfresh, Option.getD_none, List.nil_append, bind, Except.bind, pure,
    Except.pure] at h
  rw [afterFirst_eq hq hnd hsrc hfresh] at h
  rw [hXl, afterFirst_eq hq hnd hsrc hfresh] at ht2
  rw [hXl] at ht1
  split at h
  · simp at h
  · rename_i v hv
    simp only [Except.ok.injEq, Prod.mk.injEq] at h
    rw [← h.1]
    have := findSubroutines_hits (s3 := v.1) (m3 := v.2) hnd2 (by omega) hd2 hskip hstart hp2 hfm (by rw [hv])
    omega

end Ctrmml.OptSteps
