/-
  Reader layer, part 2 (helper lemmas; no property statements): the `P` monad of Model/Mml run
  symbolically on a line buffer described by the rest of the line (`suffix`) — primitives,
  `read_duration`, `read_note`, and the command parsers on canonical spellings.
-/
import Ctrmml.Proofs.ReaderNum
namespace Ctrmml.Mml
open Ctrmml.Tables Ctrmml.Lexer Ctrmml.TrackBuilder

/-! ### running `P` -/

theorem run_bind {α β : Type} (m : P α) (f : α → P β) (s : MmlState) :
    (m >>= f) s = match m s with
      | .ok a s' => f a s'
      | .err e s' => .err e s' := rfl

theorem run_pure {α : Type} (a : α) (s : MmlState) : (pure a : P α) s = .ok a s := rfl

theorem bind_ok {α β : Type} {m : P α} {f : α → P β} {s s' : MmlState} {a : α} (h : m s = .ok a s') :
    (m >>= f) s = f a s' := by rw [run_bind, h]

/-- the rest of the line -/
def suffix (s : MmlState) : List Nat := s.inp.lb.buf.drop s.inp.lb.column
/-- the cursor moved forward by `n` -/
def adv (s : MmlState) (n : Nat) : MmlState := setLb s { buf := s.inp.lb.buf, column := s.inp.lb.column + n }

/-- the buffer holds bytes and the cursor is inside the line (or at its end) -/
structure Sane (s : MmlState) : Prop where
  bytes : Bytes s.inp.lb.buf
  inl : s.inp.lb.column ≤ s.inp.lb.buf.length

theorem adv_zero (s : MmlState) : adv s 0 = s := by
  cases s with
  | mk inp song tagKey trackId trackOffset trackList lastCmd conditionalBlock warnings =>
    cases inp with
    | mk lb line => cases lb; rfl

theorem adv_adv (s : MmlState) (a b : Nat) : adv (adv s a) b = adv s (a + b) := by
  simp [adv, setLb, Nat.add_assoc]

theorem suffix_adv (s : MmlState) (n : Nat) : suffix (adv s n) = (suffix s).drop n := by
  simp [suffix, adv, setLb, List.drop_drop]

theorem suffix_adv_append (s : MmlState) (a b : List Nat) (h : suffix s = a ++ b) : suffix (adv s a.length) = b := by
  rw [suffix_adv, h]; simp

theorem suffix_length (s : MmlState) : (suffix s).length = s.inp.lb.buf.length - s.inp.lb.column := by
  simp [suffix]

theorem sane_adv (s : MmlState) (hs : Sane s) (n : Nat) (hn : n ≤ (suffix s).length) : Sane (adv s n) := by
  refine ⟨hs.bytes, ?_⟩
  have := suffix_length s
  have := hs.inl
  simp only [adv, setLb]
  omega

@[simp] theorem getTrack_adv (s : MmlState) (n : Nat) : getTrack (adv s n) = getTrack s := rfl
theorem setTrack_adv (s : MmlState) (n : Nat) (t : Track) : setTrack (adv s n) t = adv (setTrack s t) n := rfl
@[simp] theorem suffix_setTrack (s : MmlState) (t : Track) : suffix (setTrack s t) = suffix s := rfl
theorem sane_setTrack (s : MmlState) (t : Track) (h : Sane s) : Sane (setTrack s t) := ⟨h.bytes, h.inl⟩

/-! ### primitives -/

theorem getC_cons (s : MmlState) (c : Nat) (r : List Nat) (h : suffix s = c :: r) :
    getC s = .ok (schar c) (adv s 1) := by
  have hget : s.inp.lb.buf[s.inp.lb.column]? = some c := by
    have := List.getElem?_drop (xs := s.inp.lb.buf) (i := s.inp.lb.column) (j := 0)
    unfold suffix at h
    rw [h] at this; simpa using this.symm
  simp [getC, LineBuffer.get, hget, adv]

theorem getC_nil (s : MmlState) (h : suffix s = []) : getC s = .ok 0 (adv s 1) := by
  have hget : s.inp.lb.buf[s.inp.lb.column]? = none := by
    unfold suffix at h
    simp at h ⊢; omega
  simp [getC, LineBuffer.get, hget, adv]

theorem ungetC_zero (s : MmlState) : ungetC 0 (adv s 1) = .ok () s := by
  simp only [ungetC, LineBuffer.unget, adv, setLb]
  simp only [Nat.add_one_ne_zero, if_false, if_true, Nat.add_sub_cancel]

theorem ungetC_same (s : MmlState) (hs : Bytes s.inp.lb.buf) (c : Nat) (r : List Nat) (h : suffix s = c :: r) :
    ungetC (schar c) (adv s 1) = .ok () s := by
  have hlt : s.inp.lb.column < s.inp.lb.buf.length := by
    have := suffix_length s; rw [h] at this; simp at this; omega
  have hget : s.inp.lb.buf[s.inp.lb.column]'hlt = c := by
    have := List.getElem?_drop (xs := s.inp.lb.buf) (i := s.inp.lb.column) (j := 0)
    unfold suffix at h
    rw [h] at this
    simp only [Nat.add_zero, List.getElem?_cons_zero] at this
    rw [List.getElem?_eq_getElem hlt] at this
    exact (Option.some.inj this.symm)
  have hcb : c < 256 := by rw [← hget]; exact hs _ (List.getElem_mem hlt)
  by_cases h0 : schar c = 0
  · rw [h0]; exact ungetC_zero s
  · simp only [ungetC, LineBuffer.unget, adv, setLb]
    simp only [Nat.add_one_ne_zero, if_false, h0, Nat.add_sub_cancel, hlt, if_true, Reader.ucharOf_schar c hcb]
    have hset : s.inp.lb.buf.set s.inp.lb.column c = s.inp.lb.buf := by
      rw [← hget]; exact List.set_getElem_self hlt
    rw [hset]

theorem getTokenC_eq (s : MmlState) : getTokenC s = getC (adv s (LineBuffer.countBlanks (suffix s))) := rfl

theorem getNumC_spec (s : MmlState) (hs : Sane s) :
    getNumC s = .ok (numSpan (suffix s)).1 (adv s (numSpan (suffix s)).2) := by
  simp only [getNumC, getNum_eq_numSpan s.inp.lb hs.bytes hs.inl]
  rfl

theorem track_run (s : MmlState) : track s = .ok (getTrack s) s := rfl
theorem getS_run (s : MmlState) : getS s = .ok s s := rfl

end Ctrmml.Mml

namespace Ctrmml.Mml
open Ctrmml.Tables Ctrmml.Lexer Ctrmml.TrackBuilder

/-! ### `read_duration` -/

theorem getC_any (s : MmlState) : ∃ c, getC s = .ok c (adv s 1) := by
  cases h : suffix s with
  | nil => exact ⟨0, getC_nil s h⟩
  | cons c r => exact ⟨schar c, getC_cons s c r h⟩

/-- value of a duration followed by `k` dots (`dot` = the next dot's worth) -/
def dotsVal : Nat → Int → Int → Int
  | 0, d, _ => d
  | k + 1, d, dot => dotsVal k (d + dot) (dot / 2)

theorem dotsVal_ge (k : Nat) (d dot : Int) (h : 0 ≤ dot) : d ≤ dotsVal k d dot := by
  induction k generalizing d dot with
  | zero => simp [dotsVal]
  | succ k ih =>
    unfold dotsVal
    have := ih (d + dot) (dot / 2) (by omega)
    omega

/-- the dot series adds less than twice the first dot's worth -/
theorem dotsVal_le (k : Nat) (d dot : Int) (h : 0 ≤ dot) : dotsVal k d dot ≤ d + 2 * dot := by
  induction k generalizing d dot with
  | zero => simp [dotsVal]; omega
  | succ k ih =>
    unfold dotsVal
    have := ih (d + dot) (dot / 2) (by omega)
    omega

/-- `(unsigned)duration` of `read_duration` loses nothing: the `long long` value of a parsed `int`
(or a 16-bit length) with any number of dots is below 2^32 -/
theorem wrapU32_dotsVal (k : Nat) (d : Int) (h0 : 0 ≤ d) (h1 : d ≤ 2147483647) :
    wrapU32 (dotsVal k d (d / 2)) = (dotsVal k d (d / 2)).toNat := by
  have hge := dotsVal_ge k d (d / 2) (by omega)
  have hle := dotsVal_le k d (d / 2) (by omega)
  unfold wrapU32
  rw [Int.emod_eq_of_lt (by omega) (by omega)]

theorem dotsLoop_spec (k : Nat) (d dot : Int) (s : MmlState) (t : List Nat)
    (h : suffix s = List.replicate k 46 ++ t) :
    dotsLoop k d dot s = .ok (dotsVal k d dot) (adv s k) := by
  induction k generalizing d dot s with
  | zero =>
    obtain ⟨c, hc⟩ := getC_any s
    unfold dotsLoop
    rw [bind_ok hc, bind_ok (ungetC_zero s), run_pure, adv_zero]
    rfl
  | succ k ih =>
    have hs : suffix s = 46 :: (List.replicate k 46 ++ t) := by rw [h]; rfl
    unfold dotsLoop
    rw [bind_ok (getC_cons s 46 _ hs)]
    have hs' : suffix (adv s 1) = List.replicate k 46 ++ t := by rw [suffix_adv, hs]; rfl
    rw [ih (d + dot) (dot / 2) (adv s 1) hs', adv_adv, Nat.add_comm 1 k]
    rfl

theorem countDots_replicate (k : Nat) (t : List Nat) (ht : t.head? ≠ some 46) :
    countDots (List.replicate k 46 ++ t) = k := by
  induction k with
  | zero =>
    cases t with
    | nil => rfl
    | cons c cs =>
      have : c ≠ 46 := fun e => ht (by simp [e])
      simp [countDots, this]
  | succ k ih => simp [List.replicate_succ, countDots, ih]

end Ctrmml.Mml

namespace Ctrmml.Mml
open Ctrmml.Tables Ctrmml.Lexer Ctrmml.TrackBuilder

theorem readDuration_len (s : MmlState) (hs : Sane s) (c : Nat) (r : List Nat) (hl : suffix s = c :: r) (hc : c ≠ 58)
    (v : Int) (n : Nat) (hnum : numSpan (suffix s) = (some v, n)) (hv : 1 ≤ v)
    (k : Nat) (t : List Nat) (hdots : (suffix s).drop n = List.replicate k 46 ++ t) (ht : t.head? ≠ some 46) :
    readDuration s =
      .ok (dotsVal k (((getTrack s).getMeasureLen.toNat : Int) / v) (((getTrack s).getMeasureLen.toNat : Int) / v / 2)).toNat
        (adv s (n + k)) := by
  have hcb : c < 256 := by
    have hlt : s.inp.lb.column < s.inp.lb.buf.length := by
      have := suffix_length s; rw [hl] at this; simp at this; omega
    have : c ∈ s.inp.lb.buf := by
      have h1 : c ∈ suffix s := by rw [hl]; simp
      exact List.mem_of_mem_drop h1
    exact hs.bytes c this
  have hc58 : (schar c == 58) = false := by
    have := schar_inj_byte c hcb 58 (by omega)
    have e : ((58 : Nat) : Int) = 58 := rfl
    rw [e] at this
    rw [this]; simpa using hc
  unfold readDuration
  rw [bind_ok (getC_cons s c r hl)]
  simp only [hc58, Bool.false_eq_true, if_false]
  rw [bind_ok (ungetC_same s hs.bytes c r hl), bind_ok (getNumC_spec s hs)]
  simp only [hnum]
  have hv' : ¬ v < 1 := by omega
  simp only [hv', if_false]
  rw [bind_ok (track_run _), bind_ok (run_pure _ _)]
  have hnn : ¬ ((getTrack (adv s n)).getMeasureLen.toNat : Int) / v < 0 := by
    have : (0 : Int) ≤ ((getTrack (adv s n)).getMeasureLen.toNat : Int) / v := Int.ediv_nonneg (by omega) (by omega)
    omega
  simp only [hnn, if_false]
  rw [bind_ok (run_pure _ _), bind_ok (getS_run _)]
  have hsuf : suffix (adv s n) = List.replicate k 46 ++ t := by rw [suffix_adv]; exact hdots
  have hcd : countDots (List.drop (adv s n).inp.lb.column (adv s n).inp.lb.buf) = k := by
    have : List.drop (adv s n).inp.lb.column (adv s n).inp.lb.buf = suffix (adv s n) := rfl
    rw [this, hsuf]; exact countDots_replicate k t ht
  rw [hcd]
  have h0 : (0 : Int) ≤ ((getTrack (adv s n)).getMeasureLen.toNat : Int) / v := by omega
  have h1 : ((getTrack (adv s n)).getMeasureLen.toNat : Int) / v ≤ 2147483647 := by
    have := Int.ediv_le_self v (a := ((getTrack (adv s n)).getMeasureLen.toNat : Int)) (by omega)
    have := (getTrack (adv s n)).getMeasureLen.toNat_lt
    omega
  rw [bind_ok (dotsLoop_spec k _ _ (adv s n) t hsuf), run_pure, adv_adv, wrapU32_dotsVal k _ h0 h1]
  rfl

end Ctrmml.Mml

namespace Ctrmml.Mml
open Ctrmml.Tables Ctrmml.Lexer Ctrmml.TrackBuilder

theorem mem_suffix_byte (s : MmlState) (hs : Sane s) (c : Nat) (h : c ∈ suffix s) : c < 256 :=
  hs.bytes c (List.mem_of_mem_drop h)

theorem schar_eq_lit (c : Nat) (hc : c < 256) (v : Nat) (hv : v < 128) (hne : c ≠ v) : (schar c == (v : Int)) = false := by
  rw [schar_inj_byte c hc v hv]; simpa using hne

/-- `get()` followed by `unget(c)` of the same character: a look-ahead -/
theorem peek_spec (s : MmlState) (hs : Sane s) :
    ∃ c : Int, getC s = .ok c (adv s 1) ∧ ungetC c (adv s 1) = .ok () s ∧
      (∀ v : Nat, v < 128 → v ≠ 0 → (suffix s).head? ≠ some v → (c == (v : Int)) = false) ∧
      (∀ x r, suffix s = x :: r → c = schar x) := by
  cases h : suffix s with
  | nil =>
    refine ⟨0, getC_nil s h, ungetC_zero s, ?_, ?_⟩
    · intro v _ hv0 _
      have : ¬ ((0 : Int) = (v : Int)) := by omega
      simpa using this
    · intro x r hx; cases hx
  | cons x r =>
    have hx : x < 256 := mem_suffix_byte s hs x (by rw [h]; simp)
    refine ⟨schar x, getC_cons s x r h, ungetC_same s hs.bytes x r h, ?_, ?_⟩
    · intro v hv _ hne
      exact schar_eq_lit x hx v hv (fun e => hne (by simp [e]))
    · intro x' r' hx'; cases hx'; rfl

theorem readDuration_dflt (s : MmlState) (hs : Sane s) (h58 : (suffix s).head? ≠ some 58)
    (n : Nat) (hnum : numSpan (suffix s) = (none, n))
    (k : Nat) (t : List Nat) (hdots : (suffix s).drop n = List.replicate k 46 ++ t) (ht : t.head? ≠ some 46) :
    readDuration s =
      .ok (dotsVal k ((getTrack s).getDuration.toNat : Int) (((getTrack s).getDuration.toNat : Int) / 2)).toNat (adv s (n + k)) := by
  obtain ⟨c, hget, hunget, hne, _⟩ := peek_spec s hs
  have hc58 : (c == 58) = false := hne 58 (by omega) (by omega) h58
  unfold readDuration
  rw [bind_ok hget]
  simp only [hc58, Bool.false_eq_true, if_false]
  rw [bind_ok hunget, bind_ok (getNumC_spec s hs)]
  simp only [hnum]
  rw [bind_ok (run_pure _ _)]
  simp only []
  rw [bind_ok (track_run _), bind_ok (run_pure _ _), bind_ok (getS_run _)]
  have hsuf : suffix (adv s n) = List.replicate k 46 ++ t := by rw [suffix_adv]; exact hdots
  have hcd : countDots (List.drop (adv s n).inp.lb.column (adv s n).inp.lb.buf) = k := by
    have : List.drop (adv s n).inp.lb.column (adv s n).inp.lb.buf = suffix (adv s n) := rfl
    rw [this, hsuf]; exact countDots_replicate k t ht
  rw [hcd]
  have h0 : (0 : Int) ≤ ((getTrack (adv s n)).getDuration.toNat : Int) := by omega
  have h1 : ((getTrack (adv s n)).getDuration.toNat : Int) ≤ 2147483647 := by
    have := (getTrack (adv s n)).getDuration.toNat_lt
    omega
  rw [bind_ok (dotsLoop_spec k _ _ (adv s n) t hsuf), run_pure, adv_adv, wrapU32_dotsVal k _ h0 h1]
  rfl

theorem readDuration_frames (s : MmlState) (hs : Sane s) (l1 : List Nat) (hl : suffix s = 58 :: l1)
    (v : Int) (n : Nat) (hnum : numSpan l1 = (some v, n)) (hv : 0 ≤ v) (hv2 : v ≤ 2147483647)
    (k : Nat) (t : List Nat) (hdots : l1.drop n = List.replicate k 46 ++ t) (ht : t.head? ≠ some 46) :
    readDuration s = .ok (dotsVal k v (v / 2)).toNat (adv s (1 + n + k)) := by
  have hs1 : Sane (adv s 1) := sane_adv s hs 1 (by rw [hl]; simp)
  have hsuf1 : suffix (adv s 1) = l1 := by rw [suffix_adv, hl]; rfl
  unfold readDuration
  rw [bind_ok (getC_cons s 58 l1 hl)]
  have e : (schar 58 == 58) = true := by decide
  simp only [e, if_true]
  rw [bind_ok (getNumC_spec (adv s 1) hs1)]
  simp only [hsuf1, hnum]
  have hv' : ¬ v < 0 := by omega
  simp only [hv', if_false]
  rw [bind_ok (run_pure _ _), bind_ok (getS_run _), adv_adv]
  have hsuf : suffix (adv s (1 + n)) = List.replicate k 46 ++ t := by
    rw [← adv_adv, suffix_adv, hsuf1]; exact hdots
  have hcd : countDots (List.drop (adv s (1 + n)).inp.lb.column (adv s (1 + n)).inp.lb.buf) = k := by
    have : List.drop (adv s (1 + n)).inp.lb.column (adv s (1 + n)).inp.lb.buf = suffix (adv s (1 + n)) := rfl
    rw [this, hsuf]; exact countDots_replicate k t ht
  rw [hcd]
  rw [bind_ok (dotsLoop_spec k _ _ (adv s (1 + n)) t hsuf), run_pure, adv_adv, wrapU32_dotsVal k v hv hv2]

end Ctrmml.Mml

namespace Ctrmml.Mml
open Ctrmml.Tables Ctrmml.Lexer Ctrmml.TrackBuilder
open Ctrmml.MmlMeaning (Num Dur Acc Cmd Simple dotsBytes)

/-! ### rendered durations -/

def numBase (n : Num) : Nat := if n.hex then 16 else 10
def NumRange (n : Num) : Prop := -2147483648 ≤ n.v ∧ n.v ≤ 2147483647

/-- what `read_duration` looks at behind a rendered duration: behind a number (no dots) the next
byte must not continue the number; behind dots (or a number) it must not be another dot; a
duration that is not written at all (`dflt 0`) makes `get_num` skip blanks and try to read a
number, so the rest of the line must not offer one (nor a `:` or, behind the blanks, a dot) -/
def DurTail : Dur → List Nat → Prop
  | .dflt 0, tail => (numSpan tail).1 = none ∧ (tail.drop (numSpan tail).2).head? ≠ some 46 ∧ tail.head? ≠ some 58
  | .dflt (_ + 1), tail => tail.head? ≠ some 46
  | .len n 0, tail => NumEnd (numBase n) tail ∧ tail.head? ≠ some 46
  | .len _ (_ + 1), tail => tail.head? ≠ some 46
  | .frames n 0, tail => NumEnd (numBase n) tail ∧ tail.head? ≠ some 46
  | .frames _ (_ + 1), tail => tail.head? ≠ some 46

/-- bytes consumed beyond the spelling (blanks skipped while looking for a length) -/
def durSkip : Dur → List Nat → Nat
  | .dflt 0, tail => (numSpan tail).2
  | _, _ => 0

/-- the value `read_duration` returns on track `t` -/
def durVal (t : Track) : Dur → Int
  | .dflt k => dotsVal k (t.getDuration.toNat : Int) ((t.getDuration.toNat : Int) / 2)
  | .len n k => dotsVal k ((t.getMeasureLen.toNat : Int) / n.v) ((t.getMeasureLen.toNat : Int) / n.v / 2)
  | .frames n k => dotsVal k n.v (n.v / 2)

/-- side conditions on the numbers of a duration: an `int`, and one `read_duration` accepts.
(No bound on the dotted value any more: since fix a16b488 `read_duration` adds the dots in
`long long`, and the sum stays below 2^32 — `wrapU32_dotsVal`.) -/
def DurNums : Dur → Prop
  | .dflt _ => True
  | .len n _ => NumRange n ∧ 1 ≤ n.v
  | .frames n _ => NumRange n ∧ 0 ≤ n.v

theorem numEnd_dot (base : Nat) (hb : base ≤ 16) (rest : List Nat) : NumEnd base (46 :: rest) := by
  refine ⟨?_, ?_⟩
  · intro c hc
    simp at hc; subst hc
    unfold digitVal
    simp only [show ¬ (48 ≤ 46 ∧ 46 ≤ 57) by omega, show ¬ (97 ≤ 46 ∧ 46 ≤ 122) by omega,
      show ¬ (65 ≤ 46 ∧ 46 ≤ 90) by omega, if_false]
    have : ¬ 99 < base := by omega
    simp [this]
  · intro _ c hc
    simp at hc; omega

theorem numSpan_dot (rest : List Nat) : numSpan (46 :: rest) = (none, 0) := by
  unfold numSpan
  have hk : LineBuffer.countBlanks (46 :: rest) = 0 := by
    simp [LineBuffer.countBlanks, not_blank_of_range 46 (by omega)]
  have h46 : ¬ ((46 : Nat) = 36 ∨ (46 : Nat) = 120) := by omega
  simp only [hk, List.drop_zero, h46, if_false]
  rw [strtol_pos 10 46 rest (not_space_of_range 46 (by omega)) (by omega) (by omega) (by omega)]
  have : takeDigits 10 (46 :: rest) = [] := by
    unfold takeDigits
    have : digitVal 10 46 = none := by decide
    simp [this]
  simp [this, numOut]

theorem numEnd_dots (n : Num) (k : Nat) (tail : List Nat) (h : k = 0 → NumEnd (numBase n) tail) :
    NumEnd (numBase n) (dotsBytes k ++ tail) := by
  cases k with
  | zero => simpa [dotsBytes] using h rfl
  | succ k =>
    have : dotsBytes (k + 1) ++ tail = 46 :: (dotsBytes k ++ tail) := by simp [dotsBytes, List.replicate_succ]
    rw [this]
    exact numEnd_dot _ (by unfold numBase; split <;> omega) _

/-- a rendered number starts with `$`, `-` or a digit -/
theorem num_bytes_head (n : Num) : ∃ c r, n.bytes = c :: r ∧ (c = 36 ∨ c = 45 ∨ (48 ≤ c ∧ c ≤ 57) ∨ (97 ≤ c ∧ c ≤ 102)) := by
  unfold Num.bytes
  by_cases hh : n.hex = true
  · exact ⟨36, (if n.v < 0 then [45] else []) ++ MmlMeaning.renderNat 16 n.v.natAbs, by simp [hh], Or.inl rfl⟩
  · have hh' : n.hex = false := by simpa using hh
    by_cases hn : n.v < 0
    · exact ⟨45, MmlMeaning.renderNat 10 n.v.natAbs, by simp [hh', hn], Or.inr (Or.inl rfl)⟩
    · simp only [hh', hn, Bool.false_eq_true, if_false, List.nil_append]
      have hsp := natDigits_spec 10 (by omega) (n.v.natAbs + 1) n.v.natAbs (by omega)
      obtain ⟨d, tl, hd, heq⟩ := digits_head _ [] hsp.2.2
      have hr := digitChar_range d (by have := hsp.2.1 d hd; omega)
      refine ⟨MmlMeaning.digitChar d, tl, ?_, Or.inr (Or.inr hr)⟩
      rw [renderNat_eq]; simpa using heq

theorem readDuration_render (s : MmlState) (hs : Sane s) (d : Dur) (tail : List Nat)
    (hsuf : suffix s = d.bytes ++ tail) (hn : DurNums d) (ht : DurTail d tail) :
    readDuration s = .ok (durVal (getTrack s) d).toNat (adv s (d.bytes.length + durSkip d tail)) := by
  cases d with
  | dflt k =>
    cases k with
    | zero =>
      have hsuf' : suffix s = tail := by simpa [Dur.bytes, dotsBytes] using hsuf
      obtain ⟨h1, h2, h3⟩ := ht
      have hnum : numSpan (suffix s) = (none, (numSpan tail).2) := by rw [hsuf']; exact Prod.ext h1 rfl
      have := readDuration_dflt s hs (by rw [hsuf']; exact h3) _ hnum 0 (tail.drop (numSpan tail).2)
        (by rw [hsuf']; simp) h2
      simpa [durVal, durSkip, Dur.bytes, dotsBytes] using this
    | succ k =>
      have hsuf' : suffix s = 46 :: (List.replicate k 46 ++ tail) := by
        simpa [Dur.bytes, dotsBytes, List.replicate_succ] using hsuf
      have hnum : numSpan (suffix s) = (none, 0) := by rw [hsuf']; exact numSpan_dot _
      have := readDuration_dflt s hs (by rw [hsuf']; simp) 0 hnum (k + 1) tail
        (by rw [hsuf']; simp [List.replicate_succ]) ht
      simpa [durVal, durSkip, Dur.bytes, dotsBytes] using this
  | len n k =>
    obtain ⟨hr, h1⟩ := hn
    have hend : NumEnd (numBase n) (dotsBytes k ++ tail) := numEnd_dots n k tail (by
      intro hk; subst hk; exact ht.1)
    have ht46 : tail.head? ≠ some 46 := by cases k with | zero => exact ht.2 | succ k => exact ht
    have hsuf' : suffix s = n.bytes ++ (dotsBytes k ++ tail) := by simpa [Dur.bytes] using hsuf
    have hnum : numSpan (suffix s) = (some n.v, n.bytes.length) := by
      rw [hsuf']; exact numSpan_render n _ hr.1 hr.2 hend
    obtain ⟨c, r, hcr, hc⟩ := num_bytes_head n
    have hl : suffix s = c :: (r ++ (dotsBytes k ++ tail)) := by rw [hsuf', hcr]; rfl
    have := readDuration_len s hs c _ hl (by omega) n.v n.bytes.length hnum h1 k tail
      (by rw [hsuf']; simp [dotsBytes]) ht46
    simpa [durVal, durSkip, Dur.bytes, dotsBytes, Nat.add_assoc] using this
  | frames n k =>
    obtain ⟨hr, h1⟩ := hn
    have hend : NumEnd (numBase n) (dotsBytes k ++ tail) := numEnd_dots n k tail (by
      intro hk; subst hk; exact ht.1)
    have ht46 : tail.head? ≠ some 46 := by cases k with | zero => exact ht.2 | succ k => exact ht
    have hsuf' : suffix s = 58 :: (n.bytes ++ (dotsBytes k ++ tail)) := by simpa [Dur.bytes] using hsuf
    have hnum : numSpan (n.bytes ++ (dotsBytes k ++ tail)) = (some n.v, n.bytes.length) :=
      numSpan_render n _ hr.1 hr.2 hend
    have := readDuration_frames s hs _ hsuf' n.v n.bytes.length hnum h1 hr.2 k tail (by simp [dotsBytes]) ht46
    have e : 1 + n.bytes.length + k = (Dur.frames n k).bytes.length + durSkip (Dur.frames n k) tail := by
      simp [durSkip, Dur.bytes, dotsBytes]; omega
    rw [e] at this
    simpa [durVal] using this

end Ctrmml.Mml

namespace Ctrmml.Mml
open Ctrmml.Tables Ctrmml.Lexer Ctrmml.TrackBuilder
open Ctrmml.MmlMeaning (Num Dur Acc Cmd Simple dotsBytes)

/-! ### command dispatch -/

theorem getTokenC_cons (s : MmlState) (c : Nat) (r : List Nat) (h : suffix s = c :: r) (hc : 33 ≤ c ∧ c < 128) :
    getTokenC s = .ok (c : Int) (adv s 1) := by
  rw [getTokenC_eq, h]
  have : LineBuffer.countBlanks (c :: r) = 0 := by simp [LineBuffer.countBlanks, not_blank_of_range c hc]
  rw [this, adv_zero, getC_cons s c r h, schar_small c hc.2]

theorem trackOp_ok (s : MmlState) (op : Track.Op) (t' : Track) (rep : String)
    (h : (getTrack s).applyOp op = .ok (t', rep)) : trackOp op s = .ok () (setTrack s t') := by
  simp [trackOp, h]

theorem rest_span (s : MmlState) (hs : Sane s) (d : Dur) (tail : List Nat)
    (hsuf : suffix s = 114 :: (d.bytes ++ tail)) (hn : DurNums d) (ht : DurTail d tail) :
    mmlBasic s = .ok false
      (adv (setTrack s ((getTrack s).addRest (UInt16.ofNat (durVal (getTrack s) d).toNat))) (1 + d.bytes.length + durSkip d tail)) := by
  have hs1 : Sane (adv s 1) := sane_adv s hs 1 (by rw [hsuf]; simp)
  have hsuf1 : suffix (adv s 1) = d.bytes ++ tail := by rw [suffix_adv, hsuf]; rfl
  unfold mmlBasic
  rw [bind_ok (getTokenC_cons s 114 _ hsuf (by omega))]
  have e : ((114 : Nat) : Int) = 114 := rfl
  rw [e]
  simp (config := { decide := true }) only [if_false, if_true]
  rw [bind_ok (readDuration_render (adv s 1) hs1 d tail hsuf1 hn ht)]
  rw [bind_ok (trackOp_ok _ _ _ "" rfl), run_pure]
  simp only [getTrack_adv, setTrack_adv, adv_adv, Nat.add_assoc]

end Ctrmml.Mml

namespace Ctrmml.Mml
open Ctrmml.Tables Ctrmml.Lexer Ctrmml.TrackBuilder
open Ctrmml.MmlMeaning (Num Dur Acc Cmd Simple dotsBytes)

/-- literal command character: rewrite the cast and decide the `if` chain -/
macro "dispatch " c:num : tactic =>
  `(tactic| (have e : (($c : Nat) : Int) = $c := rfl
             rw [e]
             simp (config := { decide := true }) only [if_false, if_true]))

/-- final-state normalisation -/
macro "finish" : tactic => `(tactic| simp only [getTrack_adv, setTrack_adv, adv_adv, Nat.add_assoc])

theorem expectParameter_render (s : MmlState) (hs : Sane s) (n : Num) (tail : List Nat)
    (hsuf : suffix s = n.bytes ++ tail) (hr : NumRange n) (hend : NumEnd (numBase n) tail) :
    expectParameter s = .ok n.v (adv s n.bytes.length) := by
  unfold expectParameter
  rw [bind_ok (getNumC_spec s hs), hsuf, numSpan_render n tail hr.1 hr.2 hend]
  rfl

theorem readParameter_render (s : MmlState) (hs : Sane s) (dflt : Int) (n : Num) (tail : List Nat)
    (hsuf : suffix s = n.bytes ++ tail) (hr : NumRange n) (hend : NumEnd (numBase n) tail) :
    readParameter dflt s = .ok n.v (adv s n.bytes.length) := by
  unfold readParameter
  rw [bind_ok (getNumC_spec s hs), hsuf, numSpan_render n tail hr.1 hr.2 hend]
  rfl

theorem readParameter_absent (s : MmlState) (hs : Sane s) (dflt : Int) (h : (numSpan (suffix s)).1 = none) :
    readParameter dflt s = .ok dflt (adv s (numSpan (suffix s)).2) := by
  unfold readParameter
  rw [bind_ok (getNumC_spec s hs), h]
  rfl

theorem tie_span (s : MmlState) (hs : Sane s) (d : Dur) (tail : List Nat)
    (hsuf : suffix s = 94 :: (d.bytes ++ tail)) (hn : DurNums d) (ht : DurTail d tail) :
    mmlBasic s = .ok false
      (adv (setTrack s ((getTrack s).addTie (UInt16.ofNat (durVal (getTrack s) d).toNat))) (1 + d.bytes.length + durSkip d tail)) := by
  have hs1 : Sane (adv s 1) := sane_adv s hs 1 (by rw [hsuf]; simp)
  have hsuf1 : suffix (adv s 1) = d.bytes ++ tail := by rw [suffix_adv, hsuf]; rfl
  unfold mmlBasic
  rw [bind_ok (getTokenC_cons s 94 _ hsuf (by omega))]
  dispatch 94
  rw [bind_ok (readDuration_render (adv s 1) hs1 d tail hsuf1 hn ht)]
  rw [bind_ok (trackOp_ok _ _ _ "" rfl), run_pure]
  finish

theorem length_span (s : MmlState) (hs : Sane s) (d : Dur) (tail : List Nat)
    (hsuf : suffix s = 108 :: (d.bytes ++ tail)) (hn : DurNums d) (ht : DurTail d tail) :
    mmlBasic s = .ok false
      (adv (setTrack s ((getTrack s).setDuration (UInt16.ofNat (durVal (getTrack s) d).toNat))) (1 + d.bytes.length + durSkip d tail)) := by
  have hs1 : Sane (adv s 1) := sane_adv s hs 1 (by rw [hsuf]; simp)
  have hsuf1 : suffix (adv s 1) = d.bytes ++ tail := by rw [suffix_adv, hsuf]; rfl
  unfold mmlBasic
  rw [bind_ok (getTokenC_cons s 108 _ hsuf (by omega))]
  dispatch 108
  rw [bind_ok (readDuration_render (adv s 1) hs1 d tail hsuf1 hn ht)]
  rw [bind_ok (trackOp_ok _ _ _ "" rfl), run_pure]
  finish

theorem octave_span (s : MmlState) (hs : Sane s) (n : Num) (tail : List Nat)
    (hsuf : suffix s = 111 :: (n.bytes ++ tail)) (hr : NumRange n) (hend : NumEnd (numBase n) tail) :
    mmlBasic s = .ok false (adv (setTrack s ((getTrack s).setOctave (wrapS32 (n.v - 1)))) (1 + n.bytes.length)) := by
  have hs1 : Sane (adv s 1) := sane_adv s hs 1 (by rw [hsuf]; simp)
  have hsuf1 : suffix (adv s 1) = n.bytes ++ tail := by rw [suffix_adv, hsuf]; rfl
  unfold mmlBasic
  rw [bind_ok (getTokenC_cons s 111 _ hsuf (by omega))]
  dispatch 111
  rw [bind_ok (expectParameter_render (adv s 1) hs1 n tail hsuf1 hr hend)]
  rw [bind_ok (trackOp_ok _ _ _ "" rfl), run_pure]
  finish

/-- the octave number as written, minus one, whenever that is an `int` (every `n` but `INT_MIN`) -/
theorem wrapS32_octave (n : Num) (hr : NumRange n) (hlo : -2147483647 ≤ n.v) : wrapS32 (n.v - 1) = n.v - 1 :=
  wrapS32_id _ (by omega) (by have := hr.2; omega)

theorem octDown_span (s : MmlState) (hs : Sane s) (tail : List Nat) (hsuf : suffix s = 60 :: tail) :
    mmlBasic s = .ok false (adv (setTrack s ((getTrack s).changeOctave (-1))) 1) := by
  unfold mmlBasic
  rw [bind_ok (getTokenC_cons s 60 _ hsuf (by omega))]
  dispatch 60
  rw [bind_ok (trackOp_ok (adv s 1) (.changeOctave (-1)) ((getTrack s).changeOctave (-1)) "" rfl)]
  rw [run_pure]
  finish

theorem octUp_span (s : MmlState) (hs : Sane s) (tail : List Nat) (hsuf : suffix s = 62 :: tail) :
    mmlBasic s = .ok false (adv (setTrack s ((getTrack s).changeOctave 1)) 1) := by
  unfold mmlBasic
  rw [bind_ok (getTokenC_cons s 62 _ hsuf (by omega))]
  dispatch 62
  rw [bind_ok (trackOp_ok (adv s 1) (.changeOctave 1) ((getTrack s).changeOctave 1) "" rfl)]
  rw [run_pure]
  finish

end Ctrmml.Mml

namespace Ctrmml.Mml
open Ctrmml.Tables Ctrmml.Lexer Ctrmml.TrackBuilder
open Ctrmml.MmlMeaning (Num Dur Acc Cmd Simple dotsBytes)

theorem quantize_span (s : MmlState) (hs : Sane s) (n : Num) (tail : List Nat)
    (hsuf : suffix s = 81 :: (n.bytes ++ tail)) (hr : NumRange n) (hend : NumEnd (numBase n) tail) :
    mmlBasic s = .ok false
      (adv (setTrack s ((getTrack s).setQuantize (u16 n.v) (UInt16.ofNat trackSetQuantizeDefaultParts)).1) (1 + n.bytes.length)) := by
  have hs1 : Sane (adv s 1) := sane_adv s hs 1 (by rw [hsuf]; simp)
  have hsuf1 : suffix (adv s 1) = n.bytes ++ tail := by rw [suffix_adv, hsuf]; rfl
  unfold mmlBasic
  rw [bind_ok (getTokenC_cons s 81 _ hsuf (by omega))]
  dispatch 81
  rw [bind_ok (expectParameter_render (adv s 1) hs1 n tail hsuf1 hr hend)]
  rw [bind_ok (trackOp_ok _ _ ((getTrack s).setQuantize (u16 n.v) (UInt16.ofNat trackSetQuantizeDefaultParts)).1 _ rfl), run_pure]
  finish

theorem early_span (s : MmlState) (hs : Sane s) (n : Num) (tail : List Nat)
    (hsuf : suffix s = 113 :: (n.bytes ++ tail)) (hr : NumRange n) (hend : NumEnd (numBase n) tail) :
    mmlBasic s = .ok false (adv (setTrack s ((getTrack s).setEarlyRelease (u16 n.v))) (1 + n.bytes.length)) := by
  have hs1 : Sane (adv s 1) := sane_adv s hs 1 (by rw [hsuf]; simp)
  have hsuf1 : suffix (adv s 1) = n.bytes ++ tail := by rw [suffix_adv, hsuf]; rfl
  unfold mmlBasic
  rw [bind_ok (getTokenC_cons s 113 _ hsuf (by omega))]
  dispatch 113
  rw [bind_ok (expectParameter_render (adv s 1) hs1 n tail hsuf1 hr hend)]
  rw [bind_ok (trackOp_ok _ _ _ "" rfl), run_pure]
  finish

theorem measure_span (s : MmlState) (hs : Sane s) (n : Num) (tail : List Nat)
    (hsuf : suffix s = 67 :: (n.bytes ++ tail)) (hr : NumRange n) (hend : NumEnd (numBase n) tail) :
    mmlBasic s = .ok false (adv (setTrack s ((getTrack s).setMeasureLen (u16 n.v))) (1 + n.bytes.length)) := by
  have hs1 : Sane (adv s 1) := sane_adv s hs 1 (by rw [hsuf]; simp)
  have hsuf1 : suffix (adv s 1) = n.bytes ++ tail := by rw [suffix_adv, hsuf]; rfl
  unfold mmlBasic
  rw [bind_ok (getTokenC_cons s 67 _ hsuf (by omega))]
  dispatch 67
  rw [bind_ok (expectParameter_render (adv s 1) hs1 n tail hsuf1 hr hend)]
  rw [bind_ok (trackOp_ok _ _ _ "" rfl), run_pure]
  finish

theorem shuffle_span (s : MmlState) (hs : Sane s) (n : Num) (tail : List Nat)
    (hsuf : suffix s = 115 :: (n.bytes ++ tail)) (hr : NumRange n) (hend : NumEnd (numBase n) tail) :
    mmlBasic s = .ok false (adv (setTrack s ((getTrack s).setShuffle n.v)) (1 + n.bytes.length)) := by
  have hs1 : Sane (adv s 1) := sane_adv s hs 1 (by rw [hsuf]; simp)
  have hsuf1 : suffix (adv s 1) = n.bytes ++ tail := by rw [suffix_adv, hsuf]; rfl
  unfold mmlBasic
  rw [bind_ok (getTokenC_cons s 115 _ hsuf (by omega))]
  dispatch 115
  unfold expectSigned
  rw [bind_ok (expectParameter_render (adv s 1) hs1 n tail hsuf1 hr hend)]
  rw [bind_ok (trackOp_ok _ _ _ "" rfl), run_pure]
  finish

theorem mmlSlur_ok (s : MmlState) (hok : (getTrack s).addSlur.2 = 0) :
    mmlSlur s = .ok () (setTrack s (getTrack s).addSlur.1) := by
  unfold mmlSlur
  rw [bind_ok (track_run s)]
  cases h : (getTrack s).addSlur with
  | mk t r =>
    have hr : r = 0 := by rw [h] at hok; exact hok
    subst hr
    simp only [modifyTrack, run_bind, run_pure, bne_self_eq_false, Bool.false_eq_true, if_false]

theorem slur_span (s : MmlState) (hs : Sane s) (tail : List Nat) (hsuf : suffix s = 38 :: tail)
    (hok : (getTrack s).addSlur.2 = 0) :
    mmlBasic s = .ok false (adv (setTrack s (getTrack s).addSlur.1) 1) := by
  unfold mmlBasic
  rw [bind_ok (getTokenC_cons s 38 _ hsuf (by omega))]
  dispatch 38
  rw [bind_ok (mmlSlur_ok (adv s 1) hok), run_pure]
  finish

end Ctrmml.Mml

namespace Ctrmml.Mml
open Ctrmml.Tables Ctrmml.Lexer Ctrmml.TrackBuilder
open Ctrmml.MmlMeaning (Num Dur Acc Cmd Simple dotsBytes)

/-! ### notes -/

def keysigOf (t : Track) (l : Nat) : Int :=
  if Track.testBit t.sharpMask l then 1 else if Track.testBit t.flatMask l then -1 else 0

def accSig (t : Track) (l : Nat) : Acc → Int
  | .none => if !t.inDrumMode then keysigOf t l else 0
  | .sharp => 1
  | .flat => -1
  | .natural => 0

/-- the value `read_note` returns for letter `l` (0..7 = a..h) with accidental `a` -/
def noteVal (t : Track) (l : Nat) (a : Acc) : Int :=
  (if !t.inDrumMode then noteValues[l]?.getD 0 else (l : Int)) + accSig t l a

theorem getKeySignature_letter (t : Track) (l : Nat) (hl : l < 8) :
    t.getKeySignature (97 + (l : Int)) = .ok (keysigOf t l) := by
  have hidx : Track.noteIndex (97 + (l : Int)) = l := by
    unfold Track.noteIndex toLower isUpper wrapS8
    have : ¬ ((65 : Int) ≤ 97 + l ∧ 97 + (l : Int) ≤ 90) := by omega
    simp only [Bool.and_eq_true, decide_eq_true_eq, this, if_false]
    omega
  unfold Track.getKeySignature keysigOf
  simp only [hidx]
  have h1 : ¬ ((l : Int) > 7) := by omega
  have h2 : ¬ ((l : Int) < 0) := by omega
  simp only [h1, h2, if_false, Int.toNat_natCast]
  split
  · rfl
  · split <;> rfl

theorem schar_ucharOf_letter (l : Nat) (hl : l < 8) : schar (ucharOf (97 + (l : Int))) = 97 + (l : Int) := by
  have : ucharOf (97 + (l : Int)) = 97 + l := by unfold ucharOf; omega
  rw [this, schar_small (97 + l) (by omega)]
  omega

theorem keySigOf_letter (s : MmlState) (l : Nat) (hl : l < 8) :
    keySigOf (schar (ucharOf (97 + (l : Int)))) s = .ok (keysigOf (getTrack s) l) s := by
  unfold keySigOf
  rw [bind_ok (track_run s), schar_ucharOf_letter l hl, getKeySignature_letter _ l hl]
  rfl

theorem readNote_spec (s : MmlState) (hs : Sane s) (l : Nat) (hl : l < 8) (a : Acc) (rest : List Nat)
    (hsuf : suffix s = a.bytes ++ rest)
    (hnext : a = .none → rest.head? ≠ some 43 ∧ rest.head? ≠ some 45 ∧ rest.head? ≠ some 61) :
    readNote (97 + (l : Int)) s = .ok (noteVal (getTrack s) l a) (adv s a.bytes.length) := by
  have hw : wrapS8 (97 + (l : Int) - 97) = l := by unfold wrapS8; omega
  have hm : ((l : Int) % 8).toNat = l := by omega
  unfold readNote
  simp only [hw, hm]
  rw [bind_ok (track_run s)]
  have e43 : schar 43 = 43 := by decide
  have e45 : schar 45 = 45 := by decide
  have e61 : schar 61 = 61 := by decide
  by_cases hd : (!(getTrack s).inDrumMode) = true
  · simp only [hd, if_true]
    rw [bind_ok (keySigOf_letter s l hl), bind_ok (run_pure _ _)]
    cases a with
    | sharp =>
      rw [bind_ok (getC_cons s 43 rest hsuf), e43]
      simp (config := { decide := true }) only [if_true, if_false]
      rw [bind_ok (run_pure _ _), run_pure]
      simp [noteVal, accSig, hd, Acc.bytes]
    | flat =>
      rw [bind_ok (getC_cons s 45 rest hsuf), e45]
      simp (config := { decide := true }) only [if_true, if_false]
      rw [bind_ok (run_pure _ _), run_pure]
      simp [noteVal, accSig, hd, Acc.bytes]
    | natural =>
      rw [bind_ok (getC_cons s 61 rest hsuf), e61]
      simp (config := { decide := true }) only [if_true, if_false]
      rw [bind_ok (run_pure _ _), run_pure]
      simp [noteVal, accSig, hd, Acc.bytes]
    | none =>
      have hsuf' : suffix s = rest := by simpa [Acc.bytes] using hsuf
      obtain ⟨h43, h45, h61⟩ := hnext rfl
      obtain ⟨c, hget, hunget, hne, _⟩ := peek_spec s hs
      rw [bind_ok hget]
      have c43 : (c == 43) = false := hne 43 (by omega) (by omega) (by rw [hsuf']; exact h43)
      have c45 : (c == 45) = false := hne 45 (by omega) (by omega) (by rw [hsuf']; exact h45)
      have c61 : (c == 61) = false := hne 61 (by omega) (by omega) (by rw [hsuf']; exact h61)
      simp only [c43, c45, c61, Bool.false_eq_true, if_false]
      rw [bind_ok hunget, bind_ok (run_pure _ _), run_pure]
      simp [noteVal, accSig, hd, Acc.bytes, adv_zero]
  · simp only [hd, Bool.false_eq_true, if_false]
    rw [bind_ok (run_pure _ _)]
    cases a with
    | sharp =>
      rw [bind_ok (getC_cons s 43 rest hsuf), e43]
      simp (config := { decide := true }) only [if_true, if_false]
      rw [bind_ok (run_pure _ _), run_pure]
      simp [noteVal, accSig, hd, Acc.bytes]
    | flat =>
      rw [bind_ok (getC_cons s 45 rest hsuf), e45]
      simp (config := { decide := true }) only [if_true, if_false]
      rw [bind_ok (run_pure _ _), run_pure]
      simp [noteVal, accSig, hd, Acc.bytes]
    | natural =>
      rw [bind_ok (getC_cons s 61 rest hsuf), e61]
      simp (config := { decide := true }) only [if_true, if_false]
      rw [bind_ok (run_pure _ _), run_pure]
      simp [noteVal, accSig, hd, Acc.bytes]
    | none =>
      have hsuf' : suffix s = rest := by simpa [Acc.bytes] using hsuf
      obtain ⟨h43, h45, h61⟩ := hnext rfl
      obtain ⟨c, hget, hunget, hne, _⟩ := peek_spec s hs
      rw [bind_ok hget]
      have c43 : (c == 43) = false := hne 43 (by omega) (by omega) (by rw [hsuf']; exact h43)
      have c45 : (c == 45) = false := hne 45 (by omega) (by omega) (by rw [hsuf']; exact h45)
      have c61 : (c == 61) = false := hne 61 (by omega) (by omega) (by rw [hsuf']; exact h61)
      simp only [c43, c45, c61, Bool.false_eq_true, if_false]
      rw [bind_ok hunget, bind_ok (run_pure _ _), run_pure]
      simp [noteVal, accSig, hd, Acc.bytes, adv_zero]

end Ctrmml.Mml

namespace Ctrmml.Mml
open Ctrmml.Tables Ctrmml.Lexer Ctrmml.TrackBuilder
open Ctrmml.MmlMeaning (Num Dur Acc Cmd Simple dotsBytes)

/-- `read_note` returns a small number: letter value 0..11 (or index 0..7) plus −1, 0 or 1 -/
theorem noteVal_range (t : Track) (l : Nat) (hl : l < 8) (a : Acc) : -1 ≤ noteVal t l a ∧ noteVal t l a ≤ 12 := by
  have hv : ∀ l, l < 8 → 0 ≤ noteValues[l]?.getD 0 ∧ noteValues[l]?.getD 0 ≤ 11 := by decide
  have hk : -1 ≤ keysigOf t l ∧ keysigOf t l ≤ 1 := by
    unfold keysigOf; split
    · omega
    · split <;> omega
  have ha : -1 ≤ accSig t l a ∧ accSig t l a ≤ 1 := by
    cases a <;> simp only [accSig]
    · split <;> omega
    all_goals omega
  have := hv l hl
  unfold noteVal
  split <;> omega

/-- the one `int` addition left in `add_note` (`note += drum_mode`) cannot overflow on a note
`read_note` produced -/
theorem opUB_noteVal (t : Track) (l : Nat) (hl : l < 8) (a : Acc) (d : UInt16) :
    t.opUB (.addNote (noteVal t l a) d) = false := by
  have hr := noteVal_range t l hl a
  have hd := t.drumMode.toNat_lt
  have hin : inInt32 (noteVal t l a + (t.drumMode.toNat : Int)) = true := by
    unfold inInt32; simp only [Bool.and_eq_true, decide_eq_true_eq]; omega
  simp [Track.opUB, hin]

theorem note_span (s : MmlState) (hs : Sane s) (l : Nat) (hl : l < 8) (a : Acc) (d : Dur) (tail : List Nat)
    (hsuf : suffix s = (97 + l) :: (a.bytes ++ (d.bytes ++ tail)))
    (hn : DurNums d) (ht : DurTail d tail)
    (hacc : a = .none → (d.bytes ++ tail).head? ≠ some 43 ∧ (d.bytes ++ tail).head? ≠ some 45 ∧ (d.bytes ++ tail).head? ≠ some 61) :
    mmlBasic s = .ok false
      (adv (setTrack s ((getTrack s).addNote (noteVal (getTrack s) l a) (UInt16.ofNat (durVal (getTrack s) d).toNat)))
        (1 + a.bytes.length + d.bytes.length + durSkip d tail)) := by
  have hs1 : Sane (adv s 1) := sane_adv s hs 1 (by rw [hsuf]; simp)
  have hsuf1 : suffix (adv s 1) = a.bytes ++ (d.bytes ++ tail) := by rw [suffix_adv, hsuf]; rfl
  have hs2 : Sane (adv (adv s 1) a.bytes.length) := sane_adv _ hs1 _ (by rw [hsuf1]; simp)
  have hsuf2 : suffix (adv (adv s 1) a.bytes.length) = d.bytes ++ tail := suffix_adv_append _ _ _ hsuf1
  unfold mmlBasic
  rw [bind_ok (getTokenC_cons s (97 + l) _ hsuf (by omega))]
  have e : ((97 + l : Nat) : Int) = 97 + (l : Int) := by omega
  rw [e]
  have hc : (decide ((97 : Int) ≤ 97 + (l : Int)) && decide (97 + (l : Int) ≤ 104)) = true := by
    simp only [Bool.and_eq_true, decide_eq_true_eq]; omega
  simp only [hc, if_true]
  rw [bind_ok (readNote_spec (adv s 1) hs1 l hl a _ hsuf1 hacc)]
  rw [bind_ok (readDuration_render _ hs2 d tail hsuf2 hn ht)]
  simp only [getTrack_adv]
  rw [bind_ok (trackOp_ok _ (.addNote (noteVal (getTrack s) l a) (UInt16.ofNat (durVal (getTrack s) d).toNat))
    ((getTrack s).addNote (noteVal (getTrack s) l a) (UInt16.ofNat (durVal (getTrack s) d).toNat)) "" (by
      show Track.applyOp (getTrack s) _ = _
      simp [Track.applyOp, opUB_noteVal (getTrack s) l hl a])), run_pure]
  finish

end Ctrmml.Mml

namespace Ctrmml.Mml
open Ctrmml.Tables Ctrmml.Lexer Ctrmml.TrackBuilder
open Ctrmml.MmlMeaning (Num Dur Acc Cmd Simple dotsBytes)

/-! ### one iteration of `parse_mml_track` -/

theorem lookup_insertTrack (id : Nat) (t : Track) (l : List (Nat × Track)) : (insertTrack id t l).lookup id = some t := by
  induction l with
  | nil => simp [insertTrack, List.lookup]
  | cons kv rest ih =>
    obtain ⟨k, v⟩ := kv
    unfold insertTrack
    by_cases h1 : id < k
    · simp [h1, List.lookup]
    · by_cases h2 : id = k
      · subst h2; simp [List.lookup]
      · simp only [h1, h2, if_false]
        have : (id == k) = false := by simpa using h2
        simp [List.lookup, this, ih]

@[simp] theorem getTrack_setTrack (s : MmlState) (t : Track) : getTrack (setTrack s t) = t := by
  simp [getTrack, setTrack, lookup_insertTrack]

theorem countBlanks_pad (k : Nat) (c : Nat) (r : List Nat) (hc : 33 ≤ c ∧ c < 128) :
    LineBuffer.countBlanks (List.replicate k 32 ++ c :: r) = k := by
  induction k with
  | zero => simp [LineBuffer.countBlanks, not_blank_of_range c hc]
  | succ k ih =>
    have : isBlank (schar 32) = true := by decide
    simp [List.replicate_succ, LineBuffer.countBlanks, this, ih]

theorem getTokenC_pad (s : MmlState) (k : Nat) (c : Nat) (r : List Nat)
    (h : suffix s = List.replicate k 32 ++ c :: r) (hc : 33 ≤ c ∧ c < 128) :
    getTokenC s = .ok (c : Int) (adv s (k + 1)) := by
  have hs' : suffix (adv s k) = c :: r := by
    rw [suffix_adv, h]; simp
  rw [getTokenC_eq, h, countBlanks_pad k c r hc, getC_cons _ c r hs', schar_small c hc.2, adv_adv]

/-- the command characters `parse_mml_track` handles itself -/
def NotLoopChar (c : Nat) : Prop := c ≠ 124 ∧ c ≠ 59 ∧ c ≠ 47 ∧ c ≠ 125 ∧ c ≠ 123 ∧ c ≠ 37

theorem step_basic (f : Nat) (s : MmlState) (hs : Sane s) (k c : Nat) (r : List Nat)
    (hsuf : suffix s = List.replicate k 32 ++ c :: r) (hc : 33 ≤ c ∧ c < 128) (hn : NotLoopChar c) (s2 : MmlState)
    (hbasic : mmlBasic (setTrack (adv s k)
        ((getTrack s).setReference (some { line := s.inp.line, column := s.inp.lb.column + k }))) = .ok false s2) :
    parseMmlTrackF (f + 1) s = parseMmlTrackF f s2 := by
  obtain ⟨h1, h2, h3, h4, h5, h6⟩ := hn
  have hsk : suffix (adv s k) = c :: r := by rw [suffix_adv, hsuf]; simp
  have e0 : ((c : Int) == 0) = false := by
    have : ¬ ((c : Int) = 0) := by omega
    simpa using this
  have e124 : ((c : Int) == 124) = false := by
    have : ¬ ((c : Int) = 124) := by omega
    simpa using this
  have e59 : ((c : Int) == 59) = false := by
    have : ¬ ((c : Int) = 59) := by omega
    simpa using this
  have e47 : ((c : Int) == 47) = false := by
    have : ¬ ((c : Int) = 47) := by omega
    simpa using this
  have e125 : ((c : Int) == 125) = false := by
    have : ¬ ((c : Int) = 125) := by omega
    simpa using this
  have e123 : ((c : Int) == 123) = false := by
    have : ¬ ((c : Int) = 123) := by omega
    simpa using this
  have e37 : ((c : Int) == 37) = false := by
    have : ¬ ((c : Int) = 37) := by omega
    simpa using this
  unfold parseMmlTrackF
  rw [bind_ok (getTokenC_pad s k c r hsuf hc), bind_ok (getS_run _)]
  simp only [e124, e59, e47, e125, e123, e37, e0, Bool.false_eq_true, if_false, Bool.or_self, Bool.false_and]
  rw [← adv_adv, ← schar_small c hc.2, bind_ok (ungetC_same (adv s k) hs.bytes c r hsk), bind_ok (getS_run _)]
  rw [bind_ok (trackOp_ok _ _ _ "" rfl)]
  have hst : setTrack (adv s k) (Track.setReference (getTrack (adv s k)) (some (adv s k).inp.getReference)) =
      setTrack (adv s k) ((getTrack s).setReference (some { line := s.inp.line, column := s.inp.lb.column + k })) := rfl
  rw [hst, bind_ok hbasic]
  simp only [beq_self_eq_true, if_true]
  cases f <;> rfl

end Ctrmml.Mml
