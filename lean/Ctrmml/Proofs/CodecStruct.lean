/-
  The structured two-pass encoder on the bracket structure, and `convert_structured_eq`:
  `convert_track` (which back-patches the loop-break instruction into the middle of the stream
  when it reaches the loop end) produces exactly what an encoder produces that only ever appends:
  for a loop with a break it first encodes the part after the break to measure it (pass 1), then
  emits the break instruction with the measured offset and encodes that part again (pass 2).
  Pass 1 and pass 2 give the same bytes because the encoder is prefix independent (Proofs/CodecPI).
-/
import Ctrmml.Proofs.CodecPI
import Ctrmml.Proofs.CodecLoops
namespace Ctrmml.Codec
open Ctrmml.Mds Ctrmml.Seq Tables

/-- the loop-break instruction for offset `off`: short or long form -/
def brkCmd (off : Nat) : List Nat := if off < 256 then [mds_LPB, off] else [mds_LPBL, off / 256, off % 256]

/-- state after the break marker, with the bytes `cmd` emitted for it -/
def afterLPB (e2 : Enc) (cmd : List Nat) : Enc := { e2 with out := e2.out ++ cmd, lastType := mds_LPB }

/-- state after the end of a loop with a break: both registers forgotten -/
def afterLPFB (e4 : Enc) (n : Nat) (r : List Nat) : Enc :=
  { e4 with out := e4.out ++ [mds_LPF, n % 256], breaks := r, lastRest := U16, lastNote := U16, lastType := mds_LPF }

mutual
def encN (nS nM : Nat) : Node → Enc → Except CErr Enc
  | .ev ev, e => encEv nS nM e ev
  | .loop body n, e =>
    match encL nS nM body (afterLP e) with
    | .error x => .error x
    | .ok e2 => .ok (afterLPF e2 n e.breaks)
  | .loopB body tail n, e =>
    match encL nS nM body (afterLP e) with
    | .error x => .error x
    | .ok e2 =>
      -- pass 1: measure the part after the break
      match encL nS nM tail (afterLPB e2 []) with
      | .error x => .error x
      | .ok e4 =>
        -- pass 2: the break instruction with the measured offset, the part after it, the loop end
        match encL nS nM tail (afterLPB e2 (brkCmd (e4.out.length - e2.out.length + 2))) with
        | .error x => .error x
        | .ok e4' => .ok (afterLPFB e4' n e.breaks)
  | .xbrk, e => .ok e
  | .call arg _, e => .ok (afterPAT e arg)
def encL (nS nM : Nat) : List Node → Enc → Except CErr Enc
  | [], e => .ok e
  | t :: ts, e =>
    match encN nS nM t e with
    | .error x => .error x
    | .ok e1 => encL nS nM ts e1
end

/-- the structured encoder never fails on the linear fragment, only appends, and leaves the break
stack and the loop point as they were -/
def Tot (f : Enc → Except CErr Enc) (e : Enc) : Prop :=
  ∃ e', f e = .ok e' ∧ e.out <+: e'.out ∧ e'.breaks = e.breaks ∧ e'.segnoPos = e.segnoPos

mutual
theorem encN_total (nS nM : Nat) : ∀ (t : Node), t.lin = true → ∀ e : Enc, Tot (encN nS nM t) e
  | .ev ev, hl, e => by
    obtain ⟨e', h, p, b, sp⟩ := encEv_lin_total nS nM e ev (by simpa [Node.lin] using hl)
    exact ⟨e', by simpa [encN] using h, p, b, sp⟩
  | .loop body n, hl, e => by
    obtain ⟨e2, h2, p2, _, sp2⟩ := encL_total nS nM body (by simpa [Node.lin] using hl) (afterLP e)
    refine ⟨afterLPF e2 n e.breaks, by simp [encN, h2], ?_, rfl, sp2⟩
    exact (List.prefix_append _ _).trans (p2.trans (List.prefix_append _ _))
  | .loopB body tail n, hl, e => by
    simp only [Node.lin, Bool.and_eq_true] at hl
    obtain ⟨e2, h2, p2, _, sp2⟩ := encL_total nS nM body hl.1 (afterLP e)
    obtain ⟨e4, h4, _, _, _⟩ := encL_total nS nM tail hl.2 (afterLPB e2 [])
    obtain ⟨e4', h4', p4', _, sp4'⟩ := encL_total nS nM tail hl.2
      (afterLPB e2 (brkCmd (e4.out.length - e2.out.length + 2)))
    refine ⟨afterLPFB e4' n e.breaks, by simp [encN, h2, h4, h4'], ?_, rfl, sp4'.trans sp2⟩
    exact (List.prefix_append _ _).trans (p2.trans ((List.prefix_append _ _).trans (p4'.trans (List.prefix_append _ _))))
  | .xbrk, _, e => ⟨e, rfl, List.prefix_refl _, rfl, rfl⟩
  | .call arg _, _, e => ⟨afterPAT e arg, rfl, List.prefix_append _ _, rfl, rfl⟩
theorem encL_total (nS nM : Nat) : ∀ (ts : List Node), linL ts = true → ∀ e : Enc, Tot (encL nS nM ts) e
  | [], _, e => ⟨e, rfl, List.prefix_refl _, rfl, rfl⟩
  | t :: ts, hl, e => by
    simp only [linL, Bool.and_eq_true] at hl
    obtain ⟨e1, h1, p1, b1, sp1⟩ := encN_total nS nM t hl.1 e
    obtain ⟨e2, h2, p2, b2, sp2⟩ := encL_total nS nM ts hl.2 e1
    exact ⟨e2, by simp [encL, h1, h2], p1.trans p2, b2.trans b1, sp2.trans sp1⟩
end

/-! ### prefix independence of the structured encoder -/

theorem par_afterLP {e e2 : Enc} (h : SimE e e2) : Par e e2 (afterLP e) (afterLP e2) :=
  Par.push h [mds_LP] rfl rfl rfl rfl rfl rfl (.inl (by simp))

theorem par_afterLPF {e e2 : Enc} (h : SimE e e2) (n : Nat) (r r2 : List Nat) :
    Par e e2 (afterLPF e n r) (afterLPF e2 n r2) :=
  Par.push h [mds_LPF, n % 256] rfl rfl h.rest h.note rfl rfl (.inl (by simp))

theorem par_afterLPFB {e e2 : Enc} (h : SimE e e2) (n : Nat) (r r2 : List Nat) :
    Par e e2 (afterLPFB e n r) (afterLPFB e2 n r2) :=
  Par.push h [mds_LPF, n % 256] rfl rfl rfl rfl rfl rfl (.inl (by simp))

/-- after the break marker the two states are indistinguishable whatever was emitted for it -/
theorem sim_afterLPB {e e2 : Enc} (h : SimE e e2) (c c2 : List Nat) : SimE (afterLPB e c) (afterLPB e2 c2) :=
  ⟨h.rest, h.note, rfl, fun hn => by simp [afterLPB, noteish, mds_LPB, mds_SLR] at hn⟩

theorem Par.len {e e2 e' e2' : Enc} (p : Par e e2 e' e2') :
    e2'.out.length - e2.out.length = e'.out.length - e.out.length := by
  obtain ⟨B, a, b⟩ := p.app
  rw [a, b]; simp

mutual
theorem encN_par (nS nM : Nat) : ∀ (t : Node), t.lin = true → ∀ (e e2 e' : Enc), SimE e e2 →
    encN nS nM t e = .ok e' → ∃ e2', encN nS nM t e2 = .ok e2' ∧ Par e e2 e' e2'
  | .ev ev, hl, e, e2, e', h, he => by
    simp only [encN] at he ⊢
    exact encEv_par nS nM (by simpa [Node.lin] using hl) h he
  | .loop body n, hl, e, e2, e', h, he => by
    have hl' : linL body = true := by simpa [Node.lin] using hl
    cases hb : encL nS nM body (afterLP e) with
    | error x => simp [encN, hb] at he
    | ok eb =>
      simp only [encN, hb, Except.ok.injEq] at he
      subst he
      have p0 := par_afterLP h
      obtain ⟨eb2, hb2, p1⟩ := encL_par nS nM body hl' _ _ _ p0.sim hb
      exact ⟨afterLPF eb2 n e2.breaks, by simp [encN, hb2], (p0.trans p1).trans (par_afterLPF p1.sim n _ _)⟩
  | .loopB body tail n, hl, e, e2, e', h, he => by
    simp only [Node.lin, Bool.and_eq_true] at hl
    cases hb : encL nS nM body (afterLP e) with
    | error x => simp [encN, hb] at he
    | ok eb =>
      cases h4 : encL nS nM tail (afterLPB eb []) with
      | error x => simp [encN, hb, h4] at he
      | ok e4 =>
        cases h4' : encL nS nM tail (afterLPB eb (brkCmd (e4.out.length - eb.out.length + 2))) with
        | error x => simp [encN, hb, h4, h4'] at he
        | ok e4' =>
          simp only [encN, hb, h4, h4', Except.ok.injEq] at he
          subst he
          have p0 := par_afterLP h
          obtain ⟨eb2, hb2, p1⟩ := encL_par nS nM body hl.1 _ _ _ p0.sim hb
          obtain ⟨e42, h42, q1⟩ := encL_par nS nM tail hl.2 _ _ _ (sim_afterLPB p1.sim [] []) h4
          have hlen : e42.out.length - eb2.out.length = e4.out.length - eb.out.length := by
            have := q1.len; simpa [afterLPB] using this
          obtain ⟨e4'2, h4'2, q2⟩ := encL_par nS nM tail hl.2 _
            (afterLPB eb2 (brkCmd (e4.out.length - eb.out.length + 2))) _ (sim_afterLPB p1.sim _ _) h4'
          have pc : Par eb eb2 (afterLPB eb (brkCmd (e4.out.length - eb.out.length + 2)))
              (afterLPB eb2 (brkCmd (e4.out.length - eb.out.length + 2))) :=
            ⟨sim_afterLPB p1.sim _ _, ⟨_, rfl, rfl⟩, rfl⟩
          refine ⟨afterLPFB e4'2 n e2.breaks, by simp [encN, hb2, h42, hlen, h4'2], ?_⟩
          exact (((p0.trans p1).trans pc).trans q2).trans (par_afterLPFB q2.sim n _ _)
  | .xbrk, _, e, e2, e', h, he => by
    simp only [encN, Except.ok.injEq] at he; subst he
    exact ⟨e2, rfl, Par.refl' h⟩
  | .call arg _, _, e, e2, e', h, he => by
    simp only [encN, Except.ok.injEq] at he; subst he
    exact ⟨afterPAT e2 arg, rfl, Par.push h [mds_PAT, arg % 256] rfl rfl rfl rfl rfl rfl (.inl (by simp))⟩
theorem encL_par (nS nM : Nat) : ∀ (ts : List Node), linL ts = true → ∀ (e e2 e' : Enc), SimE e e2 →
    encL nS nM ts e = .ok e' → ∃ e2', encL nS nM ts e2 = .ok e2' ∧ Par e e2 e' e2'
  | [], _, e, e2, e', h, he => by
    simp only [encL, Except.ok.injEq] at he; subst he
    exact ⟨e2, rfl, Par.refl' h⟩
  | t :: ts, hl, e, e2, e', h, he => by
    simp only [linL, Bool.and_eq_true] at hl
    cases h1 : encN nS nM t e with
    | error x => simp [encL, h1] at he
    | ok e1 =>
      simp only [encL, h1] at he
      obtain ⟨e12, h12, p1⟩ := encN_par nS nM t hl.1 _ _ _ h h1
      obtain ⟨e2', h2', p2⟩ := encL_par nS nM ts hl.2 _ _ _ p1.sim he
      exact ⟨e2', by simp [encL, h12, h2'], p1.trans p2⟩
end

/-! ### `convert_structured_eq` -/

/-- `convert_track` at the break marker: nothing is emitted, the position is remembered -/
def atLPB (e : Enc) (r : List Nat) : Enc := { e with breaks := (e.out.length % 65536) :: r, lastType := mds_LPB }

/-- `convert_track` after the back-patch at the loop end -/
def patched (e : Enc) (P B : List Nat) (n : Nat) (r : List Nat) : Enc :=
  { e with out := P ++ brkCmd (B.length + 2) ++ (B ++ [mds_LPF, n % 256]), breaks := r, lastRest := U16, lastNote := U16, lastType := mds_LPF }

theorem encEv_lpb (nS nM : Nat) (e : Enc) (arg : Nat) (r : List Nat) (hb : e.breaks = 0 :: r) :
    encEv nS nM e ⟨mds_LPB, arg⟩ = .ok (atLPB e r) := by
  have n1 : ¬ (mds_LPB = mds_SEGNO) := by decide
  have n2 : ¬ (mds_LPB = mds_SLR ∨ mds_LPB = mds_FINISH) := by decide
  have n3 : byteArgOps.contains mds_LPB = false := by decide
  have n4 : ¬ (mds_LPB = mds_MTAB) := by decide
  have n5 : ¬ (mds_LPB = mds_INS ∨ mds_LPB = mds_PCM) := by decide
  have n6 : ¬ (mds_LPB = mds_PEG) := by decide
  have n7 : wordArgOps.contains mds_LPB = false := by decide
  have n8 : ¬ (mds_LPB = mds_JUMP) := by decide
  have n9 : ¬ (mds_LPB = mds_PAT) := by decide
  have n10 : ¬ (mds_LPB = mds_LP) := by decide
  have h : encOther nS nM e mds_LPB arg = .ok { e with breaks := (e.out.length % 65536) :: r } := by
    simp only [encOther, n1, n2, n3, n4, n5, n6, n7, n8, n9, n10, if_false, Bool.false_eq_true, if_true, hb]
  exact encEv_other (by decide) h (by simp [hb])

/-- the back-patch at the loop end, in the form "prefix ++ break instruction ++ rest" -/
theorem encEv_lpf_break (nS nM : Nat) (e : Enc) (arg : Nat) (P B : List Nat) (r : List Nat)
    (ho : e.out = P ++ B) (hb : e.breaks = P.length :: r) (hP : P.length ≠ 0) (hlen : e.out.length + 2 < 65536) :
    encEv nS nM e ⟨mds_LPF, arg⟩ = .ok (patched e P B arg r) := by
  have hl : (e.out ++ [mds_LPF, arg % 256]).length = P.length + B.length + 2 := by rw [ho]; simp; omega
  have hoff : ((e.out ++ [mds_LPF, arg % 256]).length + 65536 - P.length) % 65536 = B.length + 2 := by
    rw [hl]; rw [ho] at hlen; simp at hlen; omega
  have htake : (e.out ++ [mds_LPF, arg % 256]).take P.length = P := by
    rw [ho, List.append_assoc, List.take_left']; rfl
  have hdrop : (e.out ++ [mds_LPF, arg % 256]).drop P.length = B ++ [mds_LPF, arg % 256] := by
    rw [ho, List.append_assoc, List.drop_left']; rfl
  have h : encOther nS nM e mds_LPF arg =
      .ok { e with out := P ++ brkCmd (B.length + 2) ++ (B ++ [mds_LPF, arg % 256]), breaks := r, lastRest := U16, lastNote := U16 } := by
    rw [encOther_lpf, hb]
    simp only [hP, ne_eq, not_false_eq_true, if_true, hoff, htake, hdrop, brkCmd]
  exact encEv_other (by decide) h

mutual
/-- **convert_structured_eq** (nodes): on every bracket structure over the linear fragment whose
encoding stays below 64 KiB, `convert_track`'s event loop computes exactly the structured
two-pass encoding -/
theorem encN_eq (nS nM : Nat) : ∀ (t : Node) (top : Bool), t.lin = true → t.brkOk top = true → ∀ (e e' : Enc),
    (top = true → e.breaks.head?.getD 0 ≠ 0) → encN nS nM t e = .ok e' →
    e'.out.length < 65536 → encAll nS nM e t.flat = .ok e'
  | .ev ev, _, _, _, e, e', _, he, _ => by
    simp only [encN] at he
    simp [Node.flat, encAll, he]
  | .xbrk, top, _, hk, e, e', hbr, he, _ => by
    simp only [encN, Except.ok.injEq] at he; subst he
    have ht : top = true := by simpa [Node.brkOk] using hk
    simp [Node.flat, encAll, encEv_xbrk nS nM e 0 (hbr ht)]
  | .call arg _, _, _, _, e, e', _, he, _ => by
    simp only [encN, Except.ok.injEq] at he; subst he
    simp [Node.flat, encAll, encEv_pat]
  | .loop body n, _, hl, hk, e, e', _, he, hb => by
    have hk' : brkOkL false body = true := by simpa [Node.brkOk] using hk
    have hl' : linL body = true := by simpa [Node.lin] using hl
    cases h2 : encL nS nM body (afterLP e) with
    | error x => simp [encN, h2] at he
    | ok e2 =>
      simp only [encN, h2, Except.ok.injEq] at he
      subst he
      obtain ⟨_, h2', _, b2, _⟩ := encL_total nS nM body hl' (afterLP e)
      rw [h2] at h2'; injection h2' with h2'; subst h2'
      have hlen2 : e2.out.length < 65536 := by
        have : (afterLPF e2 n e.breaks).out.length = e2.out.length + 2 := by simp [afterLPF]
        omega
      have ih := encL_eq nS nM body false hl' hk' _ _ (fun h => by cases h) h2 hlen2
      have h1 : encEv nS nM e ⟨mds_LP, 0⟩ = .ok (afterLP e) := encEv_lp nS nM e 0
      have h3 : encEv nS nM e2 ⟨mds_LPF, n⟩ = .ok (afterLPF e2 n e.breaks) :=
        encEv_lpf_nobreak nS nM e2 n e.breaks (by rw [b2]; rfl)
      simp only [Node.flat, encAll, h1, encAll_append, ih, h3]
  | .loopB body tail n, _, hl, hk, e, e', _, he, hb => by
    simp only [Node.lin, Bool.and_eq_true] at hl
    simp only [Node.brkOk, Bool.and_eq_true] at hk
    cases h2 : encL nS nM body (afterLP e) with
    | error x => simp [encN, h2] at he
    | ok e2 =>
      cases h4 : encL nS nM tail (afterLPB e2 []) with
      | error x => simp [encN, h2, h4] at he
      | ok e4 =>
        cases h4' : encL nS nM tail (afterLPB e2 (brkCmd (e4.out.length - e2.out.length + 2))) with
        | error x => simp [encN, h2, h4, h4'] at he
        | ok e4' =>
          simp only [encN, h2, h4, h4', Except.ok.injEq] at he
          subst he
          -- facts about the body
          obtain ⟨_, h2', p2, b2, _⟩ := encL_total nS nM body hl.1 (afterLP e)
          rw [h2] at h2'; injection h2' with h2'; subst h2'
          -- pass 1 / pass 2 / the real run after the break marker append the same bytes `B`
          obtain ⟨e3r, he3r⟩ : ∃ e3r : Enc, e3r = atLPB e2 e.breaks := ⟨_, rfl⟩
          have sim1 : SimE (afterLPB e2 []) (afterLPB e2 (brkCmd (e4.out.length - e2.out.length + 2))) :=
            sim_afterLPB ⟨rfl, rfl, rfl, fun _ => rfl⟩ _ _
          have sim2 : SimE (afterLPB e2 []) e3r := by
            rw [he3r]; exact ⟨rfl, rfl, rfl, fun hn => by simp [afterLPB, noteish, mds_LPB, mds_SLR] at hn⟩
          obtain ⟨x, hx, q1⟩ := encL_par nS nM tail hl.2 _ _ _ sim1 h4
          rw [h4'] at hx; injection hx with hx; subst hx
          obtain ⟨e4r, h4r, q2⟩ := encL_par nS nM tail hl.2 _ _ _ sim2 h4
          obtain ⟨B, a1, b1⟩ := q1.app
          obtain ⟨B', a2, b2'⟩ := q2.app
          have hBB : B' = B := by
            rw [a1] at a2; exact (List.append_cancel_left a2).symm
          subst hBB
          have ho4 : e4.out = e2.out ++ B' := by simpa [afterLPB] using a1
          have ho4' : e4'.out = e2.out ++ brkCmd (e4.out.length - e2.out.length + 2) ++ B' := by
            simpa [afterLPB] using b1
          have ho4r : e4r.out = e2.out ++ B' := by rw [b2', he3r]; rfl
          have hoff : e4.out.length - e2.out.length + 2 = B'.length + 2 := by rw [ho4]; simp
          rw [hoff] at ho4'
          -- lengths
          have hF : (afterLPFB e4' n e.breaks).out.length = e2.out.length + (brkCmd (B'.length + 2)).length +
              B'.length + 2 := by simp [afterLPFB, ho4', Nat.add_assoc]
          have hlen2 : e2.out.length < 65536 := by omega
          have hlen4r : e4r.out.length + 2 < 65536 := by rw [ho4r]; simp; omega
          have hpos : e2.out.length ≠ 0 := by
            have := p2.length_le; simp [afterLP] at this; omega
          -- the real run
          have ih2 := encL_eq nS nM body false hl.1 hk.1 _ _ (fun h => by cases h) h2 hlen2
          have hbr3 : e3r.breaks.head?.getD 0 ≠ 0 := by
            rw [he3r]; show e2.out.length % 65536 ≠ 0; omega
          have ih4 := encL_eq nS nM tail true hl.2 hk.2 _ _ (fun _ => hbr3) h4r (by omega)
          obtain ⟨_, h4r', _, b4r, _⟩ := encL_total nS nM tail hl.2 e3r
          rw [h4r] at h4r'; injection h4r' with h4r'; subst h4r'
          have h1 : encEv nS nM e ⟨mds_LP, 0⟩ = .ok (afterLP e) := encEv_lp nS nM e 0
          have h3 : encEv nS nM e2 ⟨mds_LPB, 0⟩ = .ok e3r := by
            rw [he3r]; exact encEv_lpb nS nM e2 0 e.breaks (by rw [b2]; rfl)
          have hbr : e4r.breaks = e2.out.length :: e.breaks := by
            rw [b4r, he3r]; show e2.out.length % 65536 :: e.breaks = _; congr 1; omega
          have h5 := encEv_lpf_break nS nM e4r n e2.out B' e.breaks ho4r hbr hpos hlen4r
          have hfin : patched e4r e2.out B' n e.breaks = afterLPFB e4' n e.breaks := by
            have hs : e4r.segnoPos = e4'.segnoPos := by
              rw [q2.segno, q1.segno, he3r]; rfl
            simp only [patched, afterLPFB, ho4', hs, List.append_assoc]
          rw [hfin] at h5
          simp only [Node.flat, encAll, h1, encAll_append, ih2, h3, ih4, h5]
theorem encL_eq (nS nM : Nat) : ∀ (ts : List Node) (top : Bool), linL ts = true → brkOkL top ts = true → ∀ (e e' : Enc),
    (top = true → e.breaks.head?.getD 0 ≠ 0) → encL nS nM ts e = .ok e' →
    e'.out.length < 65536 → encAll nS nM e (flatL ts) = .ok e'
  | [], _, _, _, e, e', _, he, _ => by
    simp only [encL, Except.ok.injEq] at he; subst he; rfl
  | t :: ts, top, hl, hk, e, e', hbr, he, hb => by
    simp only [linL, Bool.and_eq_true] at hl
    simp only [brkOkL, Bool.and_eq_true] at hk
    cases h1 : encN nS nM t e with
    | error x => simp [encL, h1] at he
    | ok e1 =>
      simp only [encL, h1] at he
      obtain ⟨_, he', p2, _, _⟩ := encL_total nS nM ts hl.2 e1
      rw [he] at he'; injection he' with he'; subst he'
      have := p2.length_le
      obtain ⟨_, h1', _, b1, _⟩ := encN_total nS nM t hl.1 e
      rw [h1] at h1'; injection h1' with h1'; subst h1'
      have ih1 := encN_eq nS nM t top hl.1 hk.1 _ _ hbr h1 (by omega)
      have ih2 := encL_eq nS nM ts top hl.2 hk.2 _ _ (fun ht => by rw [b1]; exact hbr ht) he hb
      simp only [flatL, encAll_append, ih1, ih2]
end

/-- **convert_structured_eq**: `convert_track` = the structured two-pass encoder (streams < 64 KiB) -/
theorem convert_structured_eq (nS nM : Nat) (ts : List Node) (hl : linL ts = true) (hk : brkOkL false ts = true)
    (e' : Enc) (h : encL nS nM ts {} = .ok e') (hb : e'.out.length < 65536) :
    convertTrack nS nM (flatL ts) = .ok e'.out := by
  simp [convertTrack, encL_eq nS nM ts false hl hk {} e' (fun h => by cases h) h hb, Except.map]

end Ctrmml.Codec
