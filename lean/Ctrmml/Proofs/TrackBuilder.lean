/-
  Helper lemmas about Model/TrackBuilder (no property statements here; see Properties/C05).
-/
import Ctrmml.Model.TrackBuilder
namespace Ctrmml.TrackBuilder
open Ctrmml.Tables Ctrmml.Lexer

/-- ticks an event occupies -/
def evLen (e : BEvent) : Nat := e.on.toNat + e.off.toNat

def sumLen : List BEvent → Nat
  | [] => 0
  | e :: es => evLen e + sumLen es

/-- a track's total duration: Σ (on_time + off_time) over its events -/
def Track.total (t : Track) : Nat := sumLen t.revEvents

/-- the invariant every `Track` reachable through the API satisfies -/
structure Track.Inv (t : Track) : Prop where
  q_le : t.quantize.toNat ≤ t.quantizeParts.toNat
  parts_pos : t.quantizeParts.toNat ≠ 0
  ev : ∀ e ∈ t.revEvents, evLen e < 65536
  wf : ∀ p, t.lastNotePos = some p → p < t.revEvents.length

theorem u16_ne_zero {a : UInt16} (h : (a != 0) = true) : a.toNat ≠ 0 := by
  intro h2
  have : a = 0 := UInt16.toNat_inj.mp (by simpa using h2)
  simp [this] at h

theorem u16_eq_zero {a : UInt16} (h : ¬ (a != 0) = true) : a.toNat = 0 := by
  have : a = 0 := by simpa using h
  simp [this]

theorem mul_div_le {d q p : Nat} (h : q ≤ p) : d * q / p ≤ d := by
  rcases Nat.eq_zero_or_pos p with hp | hp
  · subst hp; simp
  · exact Nat.div_le_of_le_mul (by rw [Nat.mul_comm p d]; exact Nat.mul_le_mul_left d h)

/-- the articulation rule in natural numbers -/
def onRule (t : Track) (d : Nat) : Nat :=
  if t.earlyRelease.toNat ≠ 0 then
    (if d ≤ t.earlyRelease.toNat then 1 else d - t.earlyRelease.toNat)
  else d * t.quantize.toNat / t.quantizeParts.toNat

theorem onTime_toNat (t : Track) (hq : t.quantize.toNat ≤ t.quantizeParts.toNat) (d : UInt16) :
    (t.onTime d).toNat = onRule t d.toNat := by
  unfold Track.onTime onRule
  by_cases her : (t.earlyRelease != 0) = true
  · have h0 := u16_ne_zero her
    simp only [her, if_true, h0, ne_eq, not_false_eq_true]
    by_cases hle : t.earlyRelease ≥ d
    · have : d.toNat ≤ t.earlyRelease.toNat := UInt16.le_iff_toNat_le.mp hle
      simp [hle, this]
    · have hlt : ¬ d.toNat ≤ t.earlyRelease.toNat := fun h => hle (UInt16.le_iff_toNat_le.mpr h)
      have hle' : t.earlyRelease ≤ d := UInt16.le_iff_toNat_le.mpr (by omega)
      simp [hle, hlt, UInt16.toNat_sub_of_le _ _ hle']
  · have h0 := u16_eq_zero her
    simp only [her, h0, ne_eq, not_true_eq_false, if_false, Bool.false_eq_true]
    rw [UInt16.toNat_ofNat']
    have h1 := mul_div_le (d := d.toNat) hq
    have h2 := d.toNat_lt
    exact Nat.mod_eq_of_lt (Nat.lt_of_le_of_lt h1 h2)

theorem onRule_le (t : Track) (hq : t.quantize.toNat ≤ t.quantizeParts.toNat) (d : Nat)
    (hd : t.earlyRelease.toNat = 0 ∨ d ≠ 0) : onRule t d ≤ d := by
  unfold onRule
  split
  · split <;> omega
  · exact mul_div_le hq

theorem onTime_le (t : Track) (hq : t.quantize.toNat ≤ t.quantizeParts.toNat) (d : UInt16)
    (hd : t.earlyRelease.toNat = 0 ∨ d.toNat ≠ 0) : t.onTime d ≤ d := by
  apply UInt16.le_iff_toNat_le.mpr
  rw [onTime_toNat t hq]
  exact onRule_le t hq _ hd

theorem on_off_sum (t : Track) (hq : t.quantize.toNat ≤ t.quantizeParts.toNat) (d : UInt16)
    (hd : t.earlyRelease.toNat = 0 ∨ d.toNat ≠ 0) :
    (t.onTime d).toNat + (t.offTime d).toNat = d.toNat := by
  have hle := onTime_le t hq d hd
  unfold Track.offTime
  rw [UInt16.toNat_sub_of_le _ _ hle]
  have := UInt16.le_iff_toNat_le.mp hle
  omega

end Ctrmml.TrackBuilder

namespace Ctrmml.TrackBuilder
open Ctrmml.Tables Ctrmml.Lexer

/-! ### list lemmas -/

theorem sumLen_append (a b : List BEvent) : sumLen (a ++ b) = sumLen a + sumLen b := by
  induction a with
  | nil => simp [sumLen]
  | cons x xs ih => simp [sumLen, ih]; omega

theorem sumLen_modify (l : List BEvent) (i : Nat) (f : BEvent → BEvent) (e : BEvent) (h : l[i]? = some e) :
    sumLen (l.modify i f) + evLen e = sumLen l + evLen (f e) := by
  induction l generalizing i with
  | nil => simp at h
  | cons x xs ih =>
    cases i with
    | zero =>
      simp at h; subst h
      simp [List.modify_cons, sumLen]; omega
    | succ j =>
      simp at h
      have := ih j h
      simp [List.modify_cons, sumLen]; omega

theorem forall_modify (l : List BEvent) (i : Nat) (f : BEvent → BEvent) (P : BEvent → Prop)
    (h : ∀ x ∈ l, P x) (hf : ∀ x, l[i]? = some x → P (f x)) : ∀ x ∈ l.modify i f, P x := by
  induction l generalizing i with
  | nil => simp
  | cons y ys ih =>
    cases i with
    | zero =>
      intro x hx
      simp [List.modify_cons] at hx
      rcases hx with rfl | hx
      · exact hf y (by simp)
      · exact h x (by simp [hx])
    | succ j =>
      intro x hx
      simp [List.modify_cons] at hx
      rcases hx with rfl | hx
      · exact h x (by simp)
      · exact ih j (fun z hz => h z (by simp [hz])) (fun z hz => hf z (by simpa using hz)) x hx

/-! ### field bookkeeping (all `rfl`) -/

theorem onTime_congr (t u : Track) (h1 : u.earlyRelease = t.earlyRelease) (h2 : u.quantize = t.quantize)
    (h3 : u.quantizeParts = t.quantizeParts) (d : UInt16) : u.onTime d = t.onTime d := by
  unfold Track.onTime; rw [h1, h2, h3]

theorem offTime_congr (t u : Track) (h1 : u.earlyRelease = t.earlyRelease) (h2 : u.quantize = t.quantize)
    (h3 : u.quantizeParts = t.quantizeParts) (d : UInt16) : u.offTime d = t.offTime d := by
  unfold Track.offTime; rw [onTime_congr t u h1 h2 h3]

/-- the event `add_note` appends -/
def noteEvent (t : Track) (note : Int) (duration : UInt16) : BEvent :=
  let d := t.addShuffle (t.getDuration duration)
  { type := ev_NOTE, param := wrapS16 (t.notePitch note), on := t.onTime d, off := t.offTime d, ref := t.reference }

theorem addNote_revEvents (t : Track) (n : Int) (d : UInt16) :
    (t.addNote n d).revEvents = noteEvent t n d :: t.revEvents := rfl

theorem addNote_lastNotePos (t : Track) (n : Int) (d : UInt16) :
    (t.addNote n d).lastNotePos = some t.revEvents.length := rfl

theorem addNote_shuffle (t : Track) (n : Int) (d : UInt16) : (t.addNote n d).shuffle = wrapS16 (-t.shuffle) := rfl

theorem addNote_echoBuffer (t : Track) (n : Int) (d : UInt16) :
    (t.addNote n d).echoBuffer = (UInt16.ofNat (wrapU16 (t.notePitch n)) :: t.echoBuffer).take trackEchoBufferSize := rfl

theorem addRest_revEvents (t : Track) (d : UInt16) :
    (t.addRest d).revEvents =
      { type := ev_REST, param := 0, on := 0, off := t.addShuffle (t.getDuration d), ref := t.reference } :: t.revEvents := rfl

end Ctrmml.TrackBuilder

namespace Ctrmml.TrackBuilder
open Ctrmml.Tables Ctrmml.Lexer

/-- the duration a timed call really uses: default length substituted, shuffle added -/
def Track.effDur (t : Track) (d : UInt16) : UInt16 := t.addShuffle (t.getDuration d)

/-- `u` is reachable from `t` having added `k` ticks, with the articulation settings unchanged -/
structure Good (t u : Track) (k : Int) : Prop where
  inv : u.Inv
  tot : (u.total : Int) = t.total + k
  q : u.quantize = t.quantize
  p : u.quantizeParts = t.quantizeParts
  er : u.earlyRelease = t.earlyRelease

theorem Good.refl {t : Track} (h : t.Inv) : Good t t 0 := ⟨h, by simp, rfl, rfl, rfl⟩

theorem Good.cast {t u : Track} {k k' : Int} (h : Good t u k) (e : k = k') : Good t u k' := e ▸ h

theorem Good.flip {t u : Track} {k : Int} (h : Good t u k) : Good t u.flipShuffle k :=
  ⟨⟨h.inv.q_le, h.inv.parts_pos, h.inv.ev, h.inv.wf⟩, h.tot, h.q, h.p, h.er⟩

theorem Good.pushEcho {t u : Track} {k : Int} (h : Good t u k) (n : UInt16) : Good t (u.pushEchoNote n) k :=
  ⟨⟨h.inv.q_le, h.inv.parts_pos, h.inv.ev, h.inv.wf⟩, h.tot, h.q, h.p, h.er⟩

/-- appending an event, optionally after pointing `last_note_pos` at it / clearing it -/
theorem Good.addEvent {t u : Track} {k : Int} (h : Good t u k) (ty : Nat) (pa : Int) (on off : UInt16)
    (he : on.toNat + off.toNat < 65536) (lp : Option Nat)
    (hlp : lp = u.lastNotePos ∨ lp = some u.revEvents.length ∨ lp = none) :
    Good t (({ u with lastNotePos := lp }).addEvent ty pa on off) (k + (on.toNat + off.toNat : Nat)) := by
  refine ⟨⟨h.inv.q_le, h.inv.parts_pos, ?_, ?_⟩, ?_, h.q, h.p, h.er⟩
  · intro e he'
    simp [Track.addEvent] at he'
    rcases he' with rfl | he'
    · simpa [evLen] using he
    · exact h.inv.ev e he'
  · intro p hp
    simp [Track.addEvent] at hp ⊢
    rcases hlp with rfl | rfl | rfl
    · have := h.inv.wf p hp; omega
    · simp at hp; omega
    · simp at hp
  · have := h.tot
    simp [Track.total, Track.addEvent, sumLen, evLen] at this ⊢
    omega

theorem Good.addEvent' {t u : Track} {k : Int} (h : Good t u k) (ty : Nat) (pa : Int) (on off : UInt16)
    (he : on.toNat + off.toNat < 65536) :
    Good t (u.addEvent ty pa on off) (k + (on.toNat + off.toNat : Nat)) :=
  h.addEvent ty pa on off he u.lastNotePos (Or.inl rfl)

theorem Good.onOff {t u : Track} {k : Int} (h : Good t u k) (hI : t.Inv) (v : Track) (hv1 : v.earlyRelease = t.earlyRelease)
    (hv2 : v.quantize = t.quantize) (hv3 : v.quantizeParts = t.quantizeParts) (d : UInt16)
    (hd : t.earlyRelease.toNat = 0 ∨ d.toNat ≠ 0) : (v.onTime d).toNat + (v.offTime d).toNat = d.toNat := by
  rw [onTime_congr t v hv1 hv2 hv3, offTime_congr t v hv1 hv2 hv3]
  exact on_off_sum t hI.q_le d hd

theorem addNote_good (t : Track) (hI : t.Inv) (n : Int) (d : UInt16)
    (hd : t.earlyRelease.toNat = 0 ∨ (t.effDur d).toNat ≠ 0) :
    Good t (t.addNote n d) (t.effDur d).toNat := by
  have hs := on_off_sum t hI.q_le (t.effDur d) hd
  have h1 := ((Good.refl hI).flip.pushEcho (UInt16.ofNat (wrapU16 (t.notePitch n)))).addEvent ev_NOTE (t.notePitch n)
    (t.onTime (t.effDur d)) (t.offTime (t.effDur d)) (by have := (t.effDur d).toNat_lt; omega)
    (some t.revEvents.length) (Or.inr (Or.inl rfl))
  exact h1.cast (by rw [hs]; simp)

theorem addRest_good (t : Track) (hI : t.Inv) (d : UInt16) : Good t (t.addRest d) (t.effDur d).toNat := by
  have h1 := ((Good.refl hI).flip.pushEcho 0).addEvent' ev_REST 0 0 (t.effDur d) (by have := (t.effDur d).toNat_lt; simp; omega)
  exact h1.cast (by simp)

theorem addEventOp_good (t : Track) (hI : t.Inv) (ty : Nat) (pa : Int) (on off : UInt16) (he : on.toNat + off.toNat < 65536) :
    Good t (t.addEvent ty pa on off) ((on.toNat + off.toNat : Nat) : Int) := by
  exact ((Good.refl hI).addEvent' ty pa on off he).cast (by simp)

theorem setDrumMode_good (t : Track) (hI : t.Inv) (p : UInt16) : Good t (t.setDrumMode p) 0 := by
  have h0 : Good t { t with drumMode := p } 0 := ⟨⟨hI.q_le, hI.parts_pos, hI.ev, hI.wf⟩, by simp [Track.total], rfl, rfl, rfl⟩
  exact (h0.addEvent' ev_DRUM_MODE p.toNat 0 0 (by simp)).cast (by simp)

end Ctrmml.TrackBuilder

namespace Ctrmml.TrackBuilder
open Ctrmml.Tables Ctrmml.Lexer

/-! ### add_echo as three stages -/

def echoPre (u : Track) : Track := if u.echoVolume != 0 then u.addEvent ev_VOL_REL (-u.echoVolume) 0 0 else u

def echoMid (u : Track) (d : UInt16) : Track :=
  if u.echoDelay == 0 || u.echoBuffer.length < u.echoDelay.toNat then u.addEvent ev_REST 0 0 d
  else
    let note := u.echoBuffer[u.echoDelay.toNat - 1]?.getD 0
    if note == 0 then u.addEvent ev_REST 0 0 d
    else
      let u := { u with lastNotePos := some u.revEvents.length }
      u.addEvent ev_NOTE note.toNat (u.onTime d) (u.offTime d)

def echoPost (u : Track) : Track := if u.echoVolume != 0 then u.addEvent ev_VOL_REL u.echoVolume 0 0 else u

theorem addEcho_eq (t : Track) (d : UInt16) :
    t.addEcho d = echoPost (echoMid (echoPre t.flipShuffle) (t.effDur d)) := rfl

theorem echoPre_good {t u : Track} {k : Int} (h : Good t u k) : Good t (echoPre u) k := by
  unfold echoPre
  split
  · exact (h.addEvent' ev_VOL_REL (-u.echoVolume) 0 0 (by simp)).cast (by simp)
  · exact h

theorem echoPost_good {t u : Track} {k : Int} (h : Good t u k) : Good t (echoPost u) k := by
  unfold echoPost
  split
  · exact (h.addEvent' ev_VOL_REL u.echoVolume 0 0 (by simp)).cast (by simp)
  · exact h

theorem echoMid_good {t u : Track} {k : Int} (h : Good t u k) (hI : t.Inv) (d : UInt16)
    (hd : t.earlyRelease.toNat = 0 ∨ d.toNat ≠ 0) : Good t (echoMid u d) (k + d.toNat) := by
  have hrest : Good t (u.addEvent ev_REST 0 0 d) (k + d.toNat) :=
    (h.addEvent' ev_REST 0 0 d (by have := d.toNat_lt; simp; omega)).cast (by simp)
  unfold echoMid
  split
  · exact hrest
  · simp only []
    split
    · exact hrest
    · have hs := h.onOff hI { u with lastNotePos := some u.revEvents.length } h.er h.q h.p d hd
      have h1 := h.addEvent ev_NOTE ((u.echoBuffer[u.echoDelay.toNat - 1]?.getD 0).toNat)
        (({ u with lastNotePos := some u.revEvents.length } : Track).onTime d)
        (({ u with lastNotePos := some u.revEvents.length } : Track).offTime d)
        (by have := d.toNat_lt; omega) (some u.revEvents.length) (Or.inr (Or.inl rfl))
      exact h1.cast (by rw [hs])

theorem addEcho_good (t : Track) (hI : t.Inv) (d : UInt16)
    (hd : t.earlyRelease.toNat = 0 ∨ (t.effDur d).toNat ≠ 0) : Good t (t.addEcho d) (t.effDur d).toNat := by
  rw [addEcho_eq]
  exact (echoPost_good (echoMid_good (echoPre_good (Good.refl hI).flip) hI _ hd)).cast (by simp)

/-! ### add_slur -/

theorem slurBack_some (l l' : List BEvent) (h : Track.slurBack l = some l') (hev : ∀ e ∈ l, evLen e < 65536) :
    sumLen l' = sumLen l ∧ l'.length = l.length ∧ ∀ e ∈ l', evLen e < 65536 := by
  induction l generalizing l' with
  | nil => simp [Track.slurBack] at h
  | cons e es ih =>
    unfold Track.slurBack at h
    split at h
    · simp at h; subst h
      have hb := hev e (by simp)
      have hlen : evLen { e with on := e.on + e.off, off := 0 } = evLen e := by
        simp only [evLen, UInt16.toNat_add, UInt16.toNat_zero] at hb ⊢
        omega
      refine ⟨by simp [sumLen, hlen], by simp, ?_⟩
      intro x hx
      simp at hx
      rcases hx with rfl | hx
      · rw [hlen]; exact hb
      · exact hev x (by simp [hx])
    · split at h
      · simp at h
      · cases hs : Track.slurBack es with
        | none => simp [hs] at h
        | some m =>
          simp [hs] at h; subst h
          have := ih m hs (fun x hx => hev x (by simp [hx]))
          refine ⟨by simp [sumLen, this.1], by simp [this.2.1], ?_⟩
          intro x hx
          simp at hx
          rcases hx with rfl | hx
          · exact hev x (by simp)
          · exact this.2.2 x hx

theorem addSlur_good (t : Track) (hI : t.Inv) : Good t t.addSlur.1 0 := by
  have h0 : Good t (t.addEvent ev_SLUR) 0 := ((Good.refl hI).addEvent' ev_SLUR 0 0 0 (by simp)).cast (by simp)
  unfold Track.addSlur
  simp only []
  cases hs : Track.slurBack (t.addEvent ev_SLUR).revEvents with
  | none => simpa [hs] using h0
  | some l =>
    simp only [hs]
    have := slurBack_some _ l hs h0.inv.ev
    refine ⟨⟨h0.inv.q_le, h0.inv.parts_pos, this.2.2, ?_⟩, ?_, h0.q, h0.p, h0.er⟩
    · intro p hp
      have := h0.inv.wf p hp
      simp only [] at this ⊢
      omega
    · have ht := h0.tot
      simp only [Track.total] at ht ⊢
      rw [this.1]; exact ht

/-! ### reverse_rest -/

theorem rrBack_spec (d : UInt16) (l : List BEvent) (hev : ∀ e ∈ l, evLen e < 65536) :
    ((Track.rrBack d l).1 = .done →
        sumLen (Track.rrBack d l).2 + d.toNat = sumLen l ∧ (Track.rrBack d l).2.length = l.length ∧
        ∀ e ∈ (Track.rrBack d l).2, evLen e < 65536) ∧
    ((Track.rrBack d l).1 ≠ .done → (Track.rrBack d l).2 = l) := by
  induction l with
  | nil => simp [Track.rrBack]
  | cons e es ih =>
    unfold Track.rrBack
    have hb := hev e (by simp)
    split
    · split
      · rename_i hgt
        have hlt : e.off.toNat < d.toNat := UInt16.lt_iff_toNat_lt.mp hgt
        have hle : e.off ≤ d := UInt16.le_iff_toNat_le.mpr (by omega)
        have hsub : (d - e.off).toNat = d.toNat - e.off.toNat := UInt16.toNat_sub_of_le _ _ hle
        split
        · rename_i hlt2
          have h2 : (d - e.off).toNat < e.on.toNat := UInt16.lt_iff_toNat_lt.mp hlt2
          have hle2 : (d - e.off) ≤ e.on := UInt16.le_iff_toNat_le.mpr (by omega)
          have hsub2 : (e.on - (d - e.off)).toNat = e.on.toNat - (d - e.off).toNat := UInt16.toNat_sub_of_le _ _ hle2
          have hlen : evLen { e with off := 0, on := e.on - (d - e.off) } + d.toNat = evLen e := by
            simp only [evLen, UInt16.toNat_zero, hsub2, hsub] at hb ⊢
            omega
          refine ⟨fun _ => ⟨by simp only [sumLen]; omega, by simp, ?_⟩, by simp⟩
          intro x hx
          simp at hx
          rcases hx with rfl | hx
          · omega
          · exact hev x (by simp [hx])
        · simp
      · rename_i hngt
        have hle : d ≤ e.off := UInt16.le_iff_toNat_le.mpr (by
          have : ¬ e.off.toNat < d.toNat := fun h => hngt (UInt16.lt_iff_toNat_lt.mpr h)
          omega)
        have hsub : (e.off - d).toNat = e.off.toNat - d.toNat := UInt16.toNat_sub_of_le _ _ hle
        have hle' := UInt16.le_iff_toNat_le.mp hle
        have hlen : evLen { e with off := e.off - d } + d.toNat = evLen e := by
          simp only [evLen, hsub]; omega
        refine ⟨fun _ => ⟨by simp only [sumLen]; omega, by simp, ?_⟩, by simp⟩
        intro x hx
        simp at hx
        rcases hx with rfl | hx
        · omega
        · exact hev x (by simp [hx])
    · split
      · simp
      · have ih' := ih (fun x hx => hev x (by simp [hx]))
        cases hr : Track.rrBack d es with
        | mk r es' =>
          rw [hr] at ih'
          simp only [] at ih' ⊢
          refine ⟨fun hd => ?_, fun hnd => ?_⟩
          · have := ih'.1 hd
            refine ⟨by simp only [sumLen]; omega, by simp [this.2.1], ?_⟩
            intro x hx
            simp at hx
            rcases hx with rfl | hx
            · exact hb
            · exact this.2.2 x hx
          · rw [ih'.2 hnd]

theorem reverseRest_good (t : Track) (hI : t.Inv) (d : UInt16) :
    Good t (t.reverseRest d).1 (if (t.reverseRest d).2 = .done then -(d.toNat : Int) else 0) := by
  have hsp := rrBack_spec d t.revEvents hI.ev
  have e1 : (t.reverseRest d).2 = (Track.rrBack d t.revEvents).1 := rfl
  have e2 : (t.reverseRest d).1.revEvents = (Track.rrBack d t.revEvents).2 := rfl
  rw [e1]
  by_cases hd : (Track.rrBack d t.revEvents).1 = .done
  · have := hsp.1 hd
    simp only [hd, if_true]
    refine ⟨⟨hI.q_le, hI.parts_pos, by rw [e2]; exact this.2.2, ?_⟩, ?_, rfl, rfl, rfl⟩
    · intro p hp
      have h2 := hI.wf p hp
      rw [e2, this.2.1]; exact h2
    · simp only [Track.total, e2]
      omega
  · have := hsp.2 hd
    simp only [hd, if_false]
    refine ⟨⟨hI.q_le, hI.parts_pos, by rw [e2, this]; exact hI.ev, ?_⟩, ?_, rfl, rfl, rfl⟩
    · intro p hp
      have h2 := hI.wf p hp
      rw [e2, this]; exact h2
    · simp [Track.total, e2, this]

end Ctrmml.TrackBuilder

namespace Ctrmml.TrackBuilder
open Ctrmml.Tables Ctrmml.Lexer

/-! ### add_tie -/

/-- length of the event `last_note_pos` points at (0 when there is none) -/
def groupLen (t : Track) : Nat :=
  match t.lastNotePos with
  | none => 0
  | some p =>
    match t.revEvents[t.revEvents.length - 1 - p]? with
    | some e => evLen e
    | none => 0

theorem Good.modifyAt {t u : Track} {k : Int} (h : Good t u k) (p : Nat) (f : BEvent → BEvent) (last : BEvent)
    (hl : u.revEvents[u.revEvents.length - 1 - p]? = some last) (hf : evLen (f last) < 65536)
    (k' : Int) (hk : (evLen (f last) : Int) = evLen last + k') : Good t (u.modifyAt p f) (k + k') := by
  refine ⟨⟨h.inv.q_le, h.inv.parts_pos, ?_, ?_⟩, ?_, h.q, h.p, h.er⟩
  · exact forall_modify _ _ _ _ h.inv.ev (fun x hx => by rw [hl] at hx; cases hx; exact hf)
  · intro q hq
    have := h.inv.wf q hq
    simp only [Track.modifyAt, List.length_modify]
    exact this
  · have hs := sumLen_modify u.revEvents _ f last hl
    have ht := h.tot
    simp only [Track.total, Track.modifyAt] at ht ⊢
    omega

/-- the body of `add_tie` after the duration has been computed and the shuffle flipped -/
def tieOn (t : Track) (d : UInt16) : Track :=
  match t.lastNotePos with
  | none => t.addEvent ev_TIE 0 (t.onTime d) (t.offTime d)
  | some p =>
    if p ≥ t.revEvents.length then t else
    match t.revEvents[t.revEvents.length - 1 - p]? with
    | none => t
    | some last =>
      let old := last.on + last.off
      let new := old + d
      if p + 1 = t.revEvents.length then
        t.modifyAt p fun e => { e with on := t.onTime new, off := t.offTime new }
      else if t.onTime new > old then
        let n := t.revEvents.length
        let t := t.modifyAt p fun e => { e with on := old, off := 0 }
        let t := { t with lastNotePos := some n }
        t.addEvent ev_TIE 0 (t.onTime new - old) (t.offTime new)
      else
        let t := t.modifyAt p fun e => { e with on := t.onTime new, off := old - t.onTime new }
        let t := { t with lastNotePos := none }
        t.addEvent ev_REST 0 0 d

theorem addTie_eq (t : Track) (d : UInt16) : t.addTie d = tieOn t.flipShuffle (t.effDur d) := rfl

theorem tieOn_good {t u : Track} {k : Int} (h : Good t u k) (hI : t.Inv) (d : UInt16)
    (hd : t.earlyRelease.toNat = 0 ∨ d.toNat ≠ 0) (hg : groupLen u + d.toNat < 65536) :
    Good t (tieOn u d) (k + d.toNat) := by
  unfold tieOn
  cases hlp : u.lastNotePos with
  | none =>
    simp only []
    have hs := h.onOff hI u h.er h.q h.p d hd
    exact (h.addEvent' ev_TIE 0 (u.onTime d) (u.offTime d) (by have := d.toNat_lt; omega)).cast (by rw [hs])
  | some p =>
    simp only []
    have hp := h.inv.wf p hlp
    have hnot : ¬ p ≥ u.revEvents.length := by omega
    simp only [hnot, if_false]
    cases hlast : u.revEvents[u.revEvents.length - 1 - p]? with
    | none =>
      have : u.revEvents.length - 1 - p < u.revEvents.length := by omega
      simp at hlast
      omega
    | some last =>
      simp only []
      have hb : evLen last < 65536 := h.inv.ev last (List.mem_of_getElem? hlast)
      have hgl : groupLen u = evLen last := by simp [groupLen, hlp, hlast]
      have hold : (last.on + last.off).toNat = evLen last := by
        simp only [evLen, UInt16.toNat_add] at hb ⊢; omega
      have hnew : (last.on + last.off + d).toNat = evLen last + d.toNat := by
        rw [UInt16.toNat_add, hold]; omega
      have hd' : t.earlyRelease.toNat = 0 ∨ (last.on + last.off + d).toNat ≠ 0 := by
        rcases hd with h0 | h0
        · exact Or.inl h0
        · exact Or.inr (by omega)
      have hs := h.onOff hI u h.er h.q h.p (last.on + last.off + d) hd'
      have hevl : evLen last = last.on.toNat + last.off.toNat := rfl
      split
      · -- extend
        exact h.modifyAt p _ last hlast (by simp only [evLen]; omega) d.toNat (by simp only [evLen]; omega)
      · split
        · -- split into TIE
          rename_i hgt
          have hgt' : (last.on + last.off).toNat < (u.onTime (last.on + last.off + d)).toNat := UInt16.lt_iff_toNat_lt.mp hgt
          have hle : (last.on + last.off) ≤ u.onTime (last.on + last.off + d) := UInt16.le_iff_toNat_le.mpr (by omega)
          have hsub := UInt16.toNat_sub_of_le _ _ hle
          have h1 := h.modifyAt p (fun e => { e with on := last.on + last.off, off := 0 }) last hlast
            (by simp only [evLen, UInt16.toNat_zero]; omega) 0 (by simp only [evLen, UInt16.toNat_zero]; omega)
          have h2 := h1.addEvent ev_TIE 0 (u.onTime (last.on + last.off + d) - (last.on + last.off)) (u.offTime (last.on + last.off + d))
            (by omega) (some u.revEvents.length) (Or.inr (Or.inl (by simp [Track.modifyAt])))
          exact h2.cast (by omega)
        · -- split into REST
          rename_i hngt
          have hle : u.onTime (last.on + last.off + d) ≤ (last.on + last.off) := UInt16.le_iff_toNat_le.mpr (by
            have : ¬ (last.on + last.off).toNat < (u.onTime (last.on + last.off + d)).toNat := fun hh => hngt (UInt16.lt_iff_toNat_lt.mpr hh)
            omega)
          have hsub := UInt16.toNat_sub_of_le _ _ hle
          have hle' := UInt16.le_iff_toNat_le.mp hle
          have h1 := h.modifyAt p (fun e => { e with on := u.onTime (last.on + last.off + d), off := last.on + last.off - u.onTime (last.on + last.off + d) }) last hlast
            (by simp only [evLen]; omega) 0 (by simp only [evLen]; omega)
          have h2 := h1.addEvent ev_REST 0 0 d (by have := d.toNat_lt; simp; omega) none (Or.inr (Or.inr rfl))
          exact h2.cast (by simp)

theorem addTie_good (t : Track) (hI : t.Inv) (d : UInt16)
    (hd : t.earlyRelease.toNat = 0 ∨ (t.effDur d).toNat ≠ 0) (hg : groupLen t + (t.effDur d).toNat < 65536) :
    Good t (t.addTie d) (t.effDur d).toNat := by
  rw [addTie_eq]
  exact (tieOn_good (Good.refl hI).flip hI _ hd hg).cast (by simp)

end Ctrmml.TrackBuilder

namespace Ctrmml.TrackBuilder
open Ctrmml.Tables Ctrmml.Lexer

/-! ### every API call: invariant and duration bookkeeping -/

theorem Track.new_inv (ppqn : Nat) : (Track.new ppqn).Inv :=
  ⟨by show (UInt16.ofNat 8).toNat ≤ (UInt16.ofNat 8).toNat; decide,
   by show (UInt16.ofNat 8).toNat ≠ 0; decide, by simp [Track.new], by simp [Track.new]⟩

/-- same events and articulation ratio: invariant and total carry over -/
theorem inv_same (t u : Track) (hI : t.Inv) (h1 : u.revEvents = t.revEvents) (h2 : u.lastNotePos = t.lastNotePos)
    (hq : u.quantize.toNat ≤ u.quantizeParts.toNat) (hp : u.quantizeParts.toNat ≠ 0) :
    u.Inv ∧ (u.total : Int) = t.total + 0 :=
  ⟨⟨hq, hp, by rw [h1]; exact hI.ev, by rw [h1, h2]; exact hI.wf⟩, by simp [Track.total, h1]⟩

/-- the hypotheses under which a call adds exactly its written duration (`NoWrap`):
with early release active the duration actually used must not be 0 (shuffle underflow / zero
default length: D6b), and a tie must not push the tied event beyond 65535 ticks -/
def StepOk (t : Track) : Track.Op → Prop
  | .addNote _ d => t.earlyRelease.toNat = 0 ∨ (t.effDur d).toNat ≠ 0
  | .addTie d => (t.earlyRelease.toNat = 0 ∨ (t.effDur d).toNat ≠ 0) ∧ groupLen t + (t.effDur d).toNat < 65536
  | .addEcho d => t.earlyRelease.toNat = 0 ∨ (t.effDur d).toNat ≠ 0
  | .addEvent _ _ on off => on.toNat + off.toNat < 65536
  | _ => True

/-- what a call writes: the duration of a note, tie, rest or echo (default length substituted,
shuffle added); minus the amount of a successful reverse rest; the raw times of `add_event` -/
def written (t : Track) : Track.Op → Int
  | .addNote _ d => (t.effDur d).toNat
  | .addTie d => (t.effDur d).toNat
  | .addRest d => (t.effDur d).toNat
  | .addEcho d => (t.effDur d).toNat
  | .reverseRest d => if (t.reverseRest d).2 = .done then -(d.toNat : Int) else 0
  | .addEvent _ _ on off => ((on.toNat + off.toNat : Nat) : Int)
  | _ => 0

theorem setQuantize_inv (t : Track) (hI : t.Inv) (p parts : UInt16) :
    (t.setQuantize p parts).1.Inv ∧ ((t.setQuantize p parts).1.total : Int) = t.total + 0 := by
  unfold Track.setQuantize
  split
  · exact ⟨hI, by simp⟩
  · rename_i hc
    simp only [Bool.or_eq_true, decide_eq_true_eq, beq_iff_eq, not_or] at hc
    have hle : p.toNat ≤ parts.toNat := by
      have : ¬ parts.toNat < p.toNat := fun h => hc.1 (UInt16.lt_iff_toNat_lt.mpr h)
      omega
    have hne : parts.toNat ≠ 0 := fun h => hc.2 (UInt16.toNat_inj.mp (by simpa using h))
    refine inv_same t _ hI rfl rfl ?_ hne
    simp only []
    split
    · exact Nat.le_refl _
    · exact hle

/-- the key-signature calls touch only the two masks -/
def SameTime (t u : Track) : Prop :=
  u.revEvents = t.revEvents ∧ u.lastNotePos = t.lastNotePos ∧ u.quantize = t.quantize ∧ u.quantizeParts = t.quantizeParts

def KeyRes.same (t : Track) : Track.KeyRes Track → Prop
  | .ok u => SameTime t u
  | .invalidArgument u => SameTime t u
  | .ubShift => True

theorem modifyKeySignature_same (t : Track) (n m : Int) : KeyRes.same t (t.modifyKeySignature n m) := by
  unfold Track.modifyKeySignature
  simp only []
  split
  · exact ⟨rfl, rfl, rfl, rfl⟩
  · split
    · trivial
    · split
      · exact ⟨rfl, rfl, rfl, rfl⟩
      · split
        · exact ⟨rfl, rfl, rfl, rfl⟩
        · split <;> exact ⟨rfl, rfl, rfl, rfl⟩

theorem SameTime.trans {a b c : Track} (h1 : SameTime a b) (h2 : SameTime b c) : SameTime a c :=
  ⟨h2.1.trans h1.1, h2.2.1.trans h1.2.1, h2.2.2.1.trans h1.2.2.1, h2.2.2.2.trans h1.2.2.2⟩

theorem KeyRes.same_of (t u : Track) (h : SameTime t u) (r : Track.KeyRes Track) (hr : KeyRes.same u r) : KeyRes.same t r := by
  cases r with
  | ok v => exact h.trans hr
  | invalidArgument v => exact h.trans hr
  | ubShift => trivial

theorem keySigLoop_same (t : Track) (m : Int) (ks : List Nat) : KeyRes.same t (Track.keySigLoop t m ks) := by
  induction ks generalizing t m with
  | nil => exact ⟨rfl, rfl, rfl, rfl⟩
  | cons k ks ih =>
    unfold Track.keySigLoop
    simp only []
    split
    · exact ih t 1
    · split
      · exact ih t (-1)
      · split
        · exact ih t 0
        · split
          · have hm := modifyKeySignature_same t (schar k) m
            cases hmk : t.modifyKeySignature (schar k) m with
            | ok u =>
              rw [hmk] at hm
              exact KeyRes.same_of t u hm _ (ih u m)
            | invalidArgument u => rw [hmk] at hm; exact hm
            | ubShift => trivial
          · exact ⟨rfl, rfl, rfl, rfl⟩

theorem setKeySignature_same (t : Track) (key : List Nat) : KeyRes.same t (t.setKeySignature key) := by
  unfold Track.setKeySignature
  simp only []
  repeat' split
  all_goals first | exact ⟨rfl, rfl, rfl, rfl⟩ | exact keySigLoop_same t 0 _

theorem inv_sameTime (t u : Track) (hI : t.Inv) (h : SameTime t u) : u.Inv ∧ (u.total : Int) = t.total + 0 :=
  inv_same t u hI h.1 h.2.1 (by rw [h.2.2.1, h.2.2.2]; exact hI.q_le) (by rw [h.2.2.2]; exact hI.parts_pos)

theorem applyOp_conserves (t : Track) (op : Track.Op) (t' : Track) (r : String) (hI : t.Inv) (hok : StepOk t op)
    (h : t.applyOp op = .ok (t', r)) : t'.Inv ∧ (t'.total : Int) = t.total + written t op := by
  unfold Track.applyOp at h
  split at h
  · cases h
  · cases op with
    | addEvent ty p a b =>
      simp only [Except.ok.injEq, Prod.mk.injEq] at h
      have g := addEventOp_good t hI ty p a b hok
      rw [← h.1]; exact ⟨g.inv, g.tot⟩
    | addNote n d =>
      simp only [Except.ok.injEq, Prod.mk.injEq] at h
      have g := addNote_good t hI n d hok
      rw [← h.1]; exact ⟨g.inv, g.tot⟩
    | addTie d =>
      simp only [Except.ok.injEq, Prod.mk.injEq] at h
      have g := addTie_good t hI d hok.1 hok.2
      rw [← h.1]; exact ⟨g.inv, g.tot⟩
    | addRest d =>
      simp only [Except.ok.injEq, Prod.mk.injEq] at h
      have g := addRest_good t hI d
      rw [← h.1]; exact ⟨g.inv, g.tot⟩
    | addSlur =>
      simp only [Except.ok.injEq, Prod.mk.injEq] at h
      have g := addSlur_good t hI
      rw [← h.1]; exact ⟨g.inv, by simpa [written] using g.tot⟩
    | addEcho d =>
      simp only [Except.ok.injEq, Prod.mk.injEq] at h
      have g := addEcho_good t hI d hok
      rw [← h.1]; exact ⟨g.inv, g.tot⟩
    | reverseRest d =>
      have g := reverseRest_good t hI d
      simp only [] at h
      split at h <;> simp only [Except.ok.injEq, Prod.mk.injEq] at h <;> rename_i heq <;>
        (have e1 : (t.reverseRest d).1 = t' := by rw [heq]; exact h.1
         rw [← e1]; exact ⟨g.inv, g.tot⟩)
    | setReference r' =>
      simp only [Except.ok.injEq, Prod.mk.injEq] at h
      rw [← h.1]; exact inv_same t _ hI rfl rfl hI.q_le hI.parts_pos
    | setOctave p =>
      simp only [Except.ok.injEq, Prod.mk.injEq] at h
      rw [← h.1]; exact inv_same t _ hI rfl rfl hI.q_le hI.parts_pos
    | changeOctave p =>
      simp only [Except.ok.injEq, Prod.mk.injEq] at h
      rw [← h.1]; exact inv_same t _ hI rfl rfl hI.q_le hI.parts_pos
    | setDuration d =>
      simp only [Except.ok.injEq, Prod.mk.injEq] at h
      rw [← h.1]; exact inv_same t _ hI rfl rfl hI.q_le hI.parts_pos
    | setQuantize p parts =>
      simp only [Except.ok.injEq, Prod.mk.injEq] at h
      rw [← h.1]; exact setQuantize_inv t hI p parts
    | setEarlyRelease p =>
      simp only [Except.ok.injEq, Prod.mk.injEq] at h
      rw [← h.1]; exact inv_same t _ hI rfl rfl (Nat.le_refl _) hI.parts_pos
    | setDrumMode p =>
      simp only [Except.ok.injEq, Prod.mk.injEq] at h
      have g := setDrumMode_good t hI p
      rw [← h.1]; exact ⟨g.inv, g.tot⟩
    | setEcho d v =>
      simp only [Except.ok.injEq, Prod.mk.injEq] at h
      rw [← h.1]; exact inv_same t _ hI rfl rfl hI.q_le hI.parts_pos
    | clearEchoBuffer =>
      simp only [Except.ok.injEq, Prod.mk.injEq] at h
      rw [← h.1]; exact inv_same t _ hI rfl rfl hI.q_le hI.parts_pos
    | setMeasureLen p =>
      simp only [Except.ok.injEq, Prod.mk.injEq] at h
      rw [← h.1]; exact inv_same t _ hI rfl rfl hI.q_le hI.parts_pos
    | setShuffle p =>
      simp only [Except.ok.injEq, Prod.mk.injEq] at h
      rw [← h.1]; exact inv_same t _ hI rfl rfl hI.q_le hI.parts_pos
    | setKeySignature key =>
      have hs := setKeySignature_same t key
      simp only [] at h
      split at h <;> simp only [Except.ok.injEq, Prod.mk.injEq, reduceCtorEq] at h <;> rename_i heq <;>
        (rw [heq] at hs; rw [← h.1]; exact inv_sameTime t _ hI hs)
    | modifyKeySignature n m =>
      have hs := modifyKeySignature_same t n m
      simp only [] at h
      split at h <;> simp only [Except.ok.injEq, Prod.mk.injEq, reduceCtorEq] at h <;> rename_i heq <;>
        (rw [heq] at hs; rw [← h.1]; exact inv_sameTime t _ hI hs)
    | getKeySignature n =>
      simp only [] at h
      split at h <;> simp only [Except.ok.injEq, Prod.mk.injEq, reduceCtorEq] at h <;>
        (rw [← h.1]; exact ⟨hI, by simp [written]⟩)

end Ctrmml.TrackBuilder

namespace Ctrmml.TrackBuilder
open Ctrmml.Tables Ctrmml.Lexer

/-! ### call sequences -/

/-- run a sequence of API calls (stops at an undefined-behaviour site) -/
def applyOps : Track → List Track.Op → Except Err Track
  | t, [] => .ok t
  | t, op :: ops =>
    match t.applyOp op with
    | .ok (t', _) => applyOps t' ops
    | .error e => .error e

/-- `StepOk` at every call of the run -/
def StepsOk : Track → List Track.Op → Prop
  | _, [] => True
  | t, op :: ops =>
    StepOk t op ∧
    match t.applyOp op with
    | .ok (t', _) => StepsOk t' ops
    | .error _ => True

/-- Σ written durations − Σ reverse-rest amounts along the run -/
def writtenSum : Track → List Track.Op → Int
  | _, [] => 0
  | t, op :: ops =>
    written t op +
    match t.applyOp op with
    | .ok (t', _) => writtenSum t' ops
    | .error _ => 0

theorem applyOps_conserves (ops : List Track.Op) (t t' : Track) (hI : t.Inv) (hok : StepsOk t ops)
    (h : applyOps t ops = .ok t') : t'.Inv ∧ (t'.total : Int) = t.total + writtenSum t ops := by
  induction ops generalizing t with
  | nil =>
    simp only [applyOps, Except.ok.injEq] at h
    subst h
    exact ⟨hI, by simp [writtenSum]⟩
  | cons op ops ih =>
    unfold applyOps at h
    unfold StepsOk at hok
    unfold writtenSum
    cases ha : t.applyOp op with
    | error e => rw [ha] at h; cases h
    | ok pr =>
      obtain ⟨u, r⟩ := pr
      rw [ha] at h hok
      simp only [] at h hok ⊢
      have h1 := applyOp_conserves t op u r hI hok.1 ha
      have h2 := ih u h1.1 hok.2 h
      exact ⟨h2.1, by omega⟩

end Ctrmml.TrackBuilder

namespace Ctrmml.TrackBuilder

instance (t : Track) (op : Track.Op) : Decidable (StepOk t op) := by
  cases op <;> unfold StepOk <;> infer_instance

instance decStepsOk : (t : Track) → (ops : List Track.Op) → Decidable (StepsOk t ops)
  | _, [] => isTrue trivial
  | t, op :: ops =>
    match h : t.applyOp op with
    | .ok (t', r) =>
      match (inferInstance : Decidable (StepOk t op)), decStepsOk t' ops with
      | isTrue a, isTrue b => isTrue (by unfold StepsOk; rw [h]; exact ⟨a, b⟩)
      | isFalse a, _ => isFalse (by unfold StepsOk; exact fun x => a x.1)
      | _, isFalse b => isFalse (by unfold StepsOk; rw [h]; exact fun x => b x.2)
    | .error e =>
      match (inferInstance : Decidable (StepOk t op)) with
      | isTrue a => isTrue (by unfold StepsOk; rw [h]; exact ⟨a, trivial⟩)
      | isFalse a => isFalse (by unfold StepsOk; exact fun x => a x.1)

end Ctrmml.TrackBuilder

namespace Ctrmml.TrackBuilder
open Ctrmml.Tables Ctrmml.Lexer

@[simp] theorem flip_lastNotePos (t : Track) : t.flipShuffle.lastNotePos = t.lastNotePos := rfl
@[simp] theorem flip_revEvents (t : Track) : t.flipShuffle.revEvents = t.revEvents := rfl
@[simp] theorem flip_reference (t : Track) : t.flipShuffle.reference = t.reference := rfl
@[simp] theorem flip_onTime (t : Track) (d : UInt16) : t.flipShuffle.onTime d = t.onTime d := rfl
@[simp] theorem flip_offTime (t : Track) (d : UInt16) : t.flipShuffle.offTime d = t.offTime d := rfl

/-- `add_tie`, case by case -/
theorem addTie_cases (t : Track) (d : UInt16) :
    (t.lastNotePos = none →
      (t.addTie d).revEvents =
        { type := ev_TIE, param := 0, on := t.onTime (t.effDur d), off := t.offTime (t.effDur d), ref := t.reference } :: t.revEvents) ∧
    (∀ last rest, t.revEvents = last :: rest → t.lastNotePos = some rest.length →
      (t.addTie d).revEvents =
        { last with on := t.onTime (last.on + last.off + t.effDur d), off := t.offTime (last.on + last.off + t.effDur d) } :: rest ∧
      (t.addTie d).lastNotePos = some rest.length) ∧
    (∀ p last, t.lastNotePos = some p → p + 1 < t.revEvents.length →
      t.revEvents[t.revEvents.length - 1 - p]? = some last →
      (t.onTime (last.on + last.off + t.effDur d) > last.on + last.off →
        (t.addTie d).revEvents =
          { type := ev_TIE, param := 0, on := t.onTime (last.on + last.off + t.effDur d) - (last.on + last.off),
            off := t.offTime (last.on + last.off + t.effDur d), ref := t.reference } ::
            t.revEvents.modify (t.revEvents.length - 1 - p) (fun e => { e with on := last.on + last.off, off := 0 }) ∧
        (t.addTie d).lastNotePos = some t.revEvents.length) ∧
      (¬ t.onTime (last.on + last.off + t.effDur d) > last.on + last.off →
        (t.addTie d).revEvents =
          { type := ev_REST, param := 0, on := 0, off := t.effDur d, ref := t.reference } ::
            t.revEvents.modify (t.revEvents.length - 1 - p)
              (fun e => { e with on := t.onTime (last.on + last.off + t.effDur d),
                                 off := last.on + last.off - t.onTime (last.on + last.off + t.effDur d) }) ∧
        (t.addTie d).lastNotePos = none)) := by
  refine ⟨?_, ?_, ?_⟩
  · intro h
    rw [addTie_eq]; unfold tieOn
    simp only [flip_lastNotePos, h]
    rfl
  · intro last rest hl hp
    rw [addTie_eq]; unfold tieOn
    simp only [flip_lastNotePos, flip_revEvents, hp, hl, List.length_cons]
    simp [Track.modifyAt, hl]
    have hn : ¬ rest.length + 1 ≤ rest.length := by omega
    simp [hn, hp]
  · intro p last hp hlt hlast
    have hne : ¬ p ≥ t.revEvents.length := by omega
    have hne2 : ¬ p + 1 = t.revEvents.length := by omega
    constructor
    · intro hgt
      rw [addTie_eq]; unfold tieOn
      simp only [flip_lastNotePos, flip_revEvents, hp, hne, hne2, hlast, if_false, flip_onTime, hgt, if_true]
      constructor <;> rfl
    · intro hngt
      rw [addTie_eq]; unfold tieOn
      simp only [flip_lastNotePos, flip_revEvents, hp, hne, hne2, hlast, if_false, flip_onTime, hngt]
      constructor <;> rfl

end Ctrmml.TrackBuilder

namespace Ctrmml.TrackBuilder
open Ctrmml.Tables Ctrmml.Lexer

/-- events the backward walks of `add_slur` / `reverse_rest` step over -/
def Transparent (e : BEvent) : Prop :=
  e.type ≠ ev_NOTE ∧ e.type ≠ ev_TIE ∧ e.type ≠ ev_REST ∧ e.type ≠ ev_SEGNO ∧ e.type ≠ ev_LOOP_END

theorem slurBack_walk (pre : List BEvent) (e : BEvent) (rest : List BEvent) (hpre : ∀ x ∈ pre, Transparent x) :
    (e.type = ev_NOTE ∨ e.type = ev_TIE →
      Track.slurBack (pre ++ e :: rest) = some (pre ++ { e with on := e.on + e.off, off := 0 } :: rest)) ∧
    (e.type = ev_REST ∨ e.type = ev_SEGNO ∨ e.type = ev_LOOP_END → Track.slurBack (pre ++ e :: rest) = none) := by
  induction pre with
  | nil =>
    constructor
    · intro h; simp [Track.slurBack, h]
    · intro h
      have h1 : ¬ (e.type = ev_NOTE ∨ e.type = ev_TIE) := by
        rcases h with h | h | h <;> rw [h] <;> decide
      simp [Track.slurBack, h1, h]
  | cons x xs ih =>
    have hx := hpre x (by simp)
    have ih' := ih (fun y hy => hpre y (by simp [hy]))
    have h1 : ¬ (x.type = ev_NOTE ∨ x.type = ev_TIE) := fun h => by rcases h with h | h; exact hx.1 h; exact hx.2.1 h
    have h2 : ¬ (x.type = ev_REST ∨ x.type = ev_SEGNO ∨ x.type = ev_LOOP_END) := fun h => by
      rcases h with h | h | h; exact hx.2.2.1 h; exact hx.2.2.2.1 h; exact hx.2.2.2.2 h
    constructor
    · intro h
      simp only [List.cons_append, Track.slurBack, h1, h2, if_false, ih'.1 h, Option.map_some]
    · intro h
      simp only [List.cons_append, Track.slurBack, h1, h2, if_false, ih'.2 h, Option.map_none]

theorem rrBack_walk (d : UInt16) (pre : List BEvent) (e : BEvent) (rest : List BEvent) (hpre : ∀ x ∈ pre, Transparent x) :
    (e.type = ev_NOTE ∨ e.type = ev_TIE ∨ e.type = ev_REST →
      Track.rrBack d (pre ++ e :: rest) =
        if d > e.off then
          (if d - e.off < e.on then (.done, pre ++ { e with off := 0, on := e.on - (d - e.off) } :: rest)
           else (.lengthError, pre ++ e :: rest))
        else (.done, pre ++ { e with off := e.off - d } :: rest)) ∧
    (e.type = ev_SEGNO ∨ e.type = ev_LOOP_END → Track.rrBack d (pre ++ e :: rest) = (.domainError, pre ++ e :: rest)) := by
  induction pre with
  | nil =>
    constructor
    · intro h
      simp only [List.nil_append, Track.rrBack, h, if_true]
    · intro h
      have h1 : ¬ (e.type = ev_NOTE ∨ e.type = ev_TIE ∨ e.type = ev_REST) := by
        rcases h with h | h <;> rw [h] <;> decide
      simp [Track.rrBack, h1, h]
  | cons x xs ih =>
    have hx := hpre x (by simp)
    have ih' := ih (fun y hy => hpre y (by simp [hy]))
    have h1 : ¬ (x.type = ev_NOTE ∨ x.type = ev_TIE ∨ x.type = ev_REST) := fun h => by
      rcases h with h | h | h; exact hx.1 h; exact hx.2.1 h; exact hx.2.2.1 h
    have h2 : ¬ (x.type = ev_SEGNO ∨ x.type = ev_LOOP_END) := fun h => by
      rcases h with h | h; exact hx.2.2.2.1 h; exact hx.2.2.2.2 h
    constructor
    · intro h
      simp only [List.cons_append, Track.rrBack, h1, h2, if_false, ih'.1 h]
      split <;> (try split) <;> rfl
    · intro h
      simp only [List.cons_append, Track.rrBack, h1, h2, if_false, ih'.2 h]

end Ctrmml.TrackBuilder
