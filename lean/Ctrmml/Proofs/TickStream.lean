/-
  Helper lemmas for C07 `tick_delivery`: the tick stream of a track.

  * `LM` — the list machine: what `play_tick` delivers when the "track" is already the list of
    hook items of `perf` (Spec/Expand): count the on-time down, deliver a synthetic `REST` when
    it runs out and off-time is left, count the off-time down, then fetch items up to and
    including the first one that has a duration.
  * `ctTick` — `Player::play_tick` on the control/time part `(Core, Acc)` of the player
    (`Basic_Player::step_event` = `Player.step` with `loop_hook() = true`).
  * `ct_sim` — `ctTick` delivers exactly what the list machine delivers, as long as the first
    pass over the track has not ended (from the master refinement `perf_sim`).
  * `settleO_ct` / `playTickO_ct` — in the plain subset (no drum mode, no platform command)
    `PlayerCh.playTickO` is `ctTick` on its `(core, acc)` part and calls `write_event` with the
    same events.
-/
import Ctrmml.Proofs.PlayerRefines
import Ctrmml.Proofs.Validator
import Ctrmml.Proofs.Seek
namespace Ctrmml.TickStream
open Ctrmml Player PlayerCh Refine Expand Tables Tree

/-! ### the list machine -/
structure LM where
  on : Nat
  off : Nat
  rest : List Item
  deriving Repr

/-- fetch items until one has a duration: (new on, off, rest) and the events seen -/
def lmFetch : List Item → LM × List Event
  | [] => (⟨0, 0, []⟩, [])
  | i :: is =>
    if i.src.on = 0 ∧ i.src.off = 0 then ((lmFetch is).1, i.ev :: (lmFetch is).2)
    else (⟨i.src.on, i.src.off, is⟩, [i.ev])

/-- one tick of the list machine -/
def lmTick (m : LM) : LM × List Event :=
  if m.on > 0 then
    if m.on = 1 ∧ m.off = 0 then lmFetch m.rest
    else (⟨m.on - 1, m.off, m.rest⟩, if m.on = 1 then [restEvent] else [])
  else if m.off > 0 then
    if m.off = 1 then lmFetch m.rest else (⟨0, m.off - 1, m.rest⟩, [])
  else lmFetch m.rest

def LM.live (m : LM) : Prop := m.on + m.off > 0

/-- `n` ticks: the events of each tick -/
def lmRun : Nat → LM → List (List Event)
  | 0, _ => []
  | n + 1, m => (lmTick m).2 :: lmRun n (lmTick m).1

def lmAfter : Nat → LM → LM
  | 0, m => m
  | n + 1, m => lmAfter n (lmTick m).1

/-! ### play_tick on (Core, Acc) -/
section
variable (song : Song) (root : List Event)

def emitEvents : Emit → List Event
  | .event v => [v]
  | .finish => [endEvent]
  | .nothing => []

def unsettledP (s : PState) : Bool := s.acc.onTime == 0 && s.acc.offTime == 0 && s.acc.enabled

def ctSettle : Nat → PState → Option (PState × List Event)
  | 0, s => if unsettledP s then none else some (s, [])
  | f + 1, s =>
    if unsettledP s then
      match step song root true s with
      | .error _ => none
      | .ok (s1, em) => (ctSettle f s1).map fun r => (r.1, emitEvents em ++ r.2)
    else some (s, [])

def decOn (s : PState) : PState :=
  { s with acc := { s.acc with onTime := s.acc.onTime - 1, playTime := s.acc.playTime + 1 } }
def decOff (s : PState) : PState :=
  { s with acc := { s.acc with offTime := s.acc.offTime - 1, playTime := s.acc.playTime + 1 } }

@[simp] theorem decOn_core (s : PState) : (decOn s).core = s.core := rfl
@[simp] theorem decOn_on (s : PState) : (decOn s).acc.onTime = s.acc.onTime - 1 := rfl
@[simp] theorem decOn_off (s : PState) : (decOn s).acc.offTime = s.acc.offTime := rfl
@[simp] theorem decOn_pt (s : PState) : (decOn s).acc.playTime = s.acc.playTime + 1 := rfl
@[simp] theorem decOn_en (s : PState) : (decOn s).acc.enabled = s.acc.enabled := rfl
@[simp] theorem decOff_core (s : PState) : (decOff s).core = s.core := rfl
@[simp] theorem decOff_on (s : PState) : (decOff s).acc.onTime = s.acc.onTime := rfl
@[simp] theorem decOff_off (s : PState) : (decOff s).acc.offTime = s.acc.offTime - 1 := rfl
@[simp] theorem decOff_pt (s : PState) : (decOff s).acc.playTime = s.acc.playTime + 1 := rfl
@[simp] theorem decOff_en (s : PState) : (decOff s).acc.enabled = s.acc.enabled := rfl

def ctDec (s : PState) : PState × List Event :=
  if s.acc.onTime > 0 then
    (decOn s, if s.acc.onTime - 1 = 0 ∧ s.acc.offTime > 0 then [restEvent] else [])
  else if s.acc.offTime > 0 then (decOff s, [])
  else (s, [])

def ctTick (s : PState) : Option (PState × List Event) :=
  (ctSettle song root settleFuel (ctDec s).1).map fun r => (r.1, (ctDec s).2 ++ r.2)

def ctRun : Nat → PState → Option (PState × List (List Event))
  | 0, s => some (s, [])
  | n + 1, s =>
    match ctTick song root s with
    | none => none
    | some (s1, w) => (ctRun n s1).map fun r => (r.1, w :: r.2)

theorem ctSettle_fix (f : Nat) (s : PState) (h : unsettledP s = false) : ctSettle song root f s = some (s, []) := by
  cases f <;> simp [ctSettle, h]

/-- the control part can still run `outs` (no root `END`, well-formed `END`s) to `cEnd` -/
def CanRun (cEnd : Core) (c : Core) (k : Nat) (outs : List Out) : Prop :=
  stepsCore song root k c = .ok (cEnd, outs) ∧ (∀ o ∈ outs, isRoot o = false) ∧ (∀ o ∈ outs, OutOK o)

theorem itemsOf_cons_hook (v f : Event) (os : List Out) :
    itemsOf (Out.hook v f :: os) = { ev := v, src := f } :: itemsOf os := by simp [itemsOf, itemOfOut]

theorem itemsOf_cons_ret (f : Event) (os : List Out) : itemsOf (Out.ret f :: os) = itemsOf os := by
  simp only [itemsOf, List.filterMap_cons, itemOfOut]

/-- the fetch loop follows the list machine's fetch -/
theorem settle_fetch (cEnd : Core) : ∀ (k : Nat) (outs : List Out) (f : Nat) (s : PState),
    CanRun song root cEnd s.core k outs → k ≤ f → unsettledP s = true →
    (lmFetch (itemsOf outs)).1.live →
    ∃ s' k' outs', ctSettle song root f s = some (s', (lmFetch (itemsOf outs)).2) ∧
      s'.acc.onTime = (lmFetch (itemsOf outs)).1.on ∧ s'.acc.offTime = (lmFetch (itemsOf outs)).1.off ∧
      s'.acc.playTime = s.acc.playTime ∧ s'.acc.enabled = true ∧
      CanRun song root cEnd s'.core k' outs' ∧ k' ≤ k ∧ itemsOf outs' = (lmFetch (itemsOf outs)).1.rest
  | 0, outs, f, s, hrun, _, _, hlive => by
    obtain ⟨h1, _, _⟩ := hrun
    simp only [stepsCore, Except.ok.injEq, Prod.mk.injEq] at h1
    obtain ⟨_, rfl⟩ := h1
    simp [itemsOf, lmFetch, LM.live] at hlive
  | k + 1, outs, f, s, hrun, hkf, hun, hlive => by
    obtain ⟨h1, hno, hok⟩ := hrun
    simp only [stepsCore] at h1
    cases hs : coreStep song root s.core with
    | error e => rw [hs] at h1; simp at h1
    | ok p =>
      obtain ⟨c1, o⟩ := p
      rw [hs] at h1
      simp only [] at h1
      cases hs2 : stepsCore song root k c1 with
      | error e => rw [hs2] at h1; simp at h1
      | ok p2 =>
        obtain ⟨c2, os⟩ := p2
        rw [hs2] at h1
        simp only [Except.ok.injEq, Prod.mk.injEq] at h1
        obtain ⟨hc2, rfl⟩ := h1
        rw [hc2] at hs2
        have ho : isRoot o = false := hno o (by simp)
        have hoo : OutOK o := hok o (by simp)
        have hen : s.acc.enabled = true := by
          simp only [unsettledP, Bool.and_eq_true] at hun; exact hun.2
        have hon0 : s.acc.onTime = 0 := by
          simp only [unsettledP, Bool.and_eq_true, beq_iff_eq] at hun; exact hun.1.1
        have hoff0 : s.acc.offTime = 0 := by
          simp only [unsettledP, Bool.and_eq_true, beq_iff_eq] at hun; exact hun.1.2
        obtain ⟨a1, em, hacc, he1, hp1, hon1, hoff1, _⟩ := accStep_nonroot true s.acc s.core.position c1 o ho
        have hT : a1.playTime = s.acc.playTime := by rw [hp1]; simp [T, hon0, hoff0]
        obtain ⟨f', rfl⟩ : ∃ f', f = f' + 1 := ⟨f - 1, by omega⟩
        have hstep : step song root true s = .ok (⟨c1, a1⟩, em) := by
          simp [step, hs, hacc]
        have hem : emitEvents em = (match o with | .hook v _ => [v] | _ => []) := by
          cases o with
          | rootEnd f => simp [isRoot] at ho
          | ret f => simp [accStep] at hacc; obtain ⟨_, rfl⟩ := hacc; rfl
          | hook v f =>
            unfold accStep at hacc
            simp only [] at hacc
            split at hacc <;> (simp only [Prod.mk.injEq] at hacc; obtain ⟨_, _, rfl⟩ := hacc; rfl)
        have hrun' : CanRun song root cEnd c1 k os :=
          ⟨hs2, fun x hx => hno x (by simp [hx]), fun x hx => hok x (by simp [hx])⟩
        simp only [ctSettle, hun, if_true, hstep]
        cases o with
        | rootEnd f => simp [isRoot] at ho
        | ret f =>
          have hf : f = endEvent := hoo
          subst hf
          rw [itemsOf_cons_ret] at hlive ⊢
          have hun1 : unsettledP ⟨c1, a1⟩ = true := by
            simp [unsettledP, hon1, hoff1, he1, hen, Out.fetched, endEvent]
          obtain ⟨s', k', outs', hset, h2, h3, h4, h5, h6, h7, h8⟩ :=
            settle_fetch cEnd k os f' ⟨c1, a1⟩ hrun' (by omega) hun1 hlive
          refine ⟨s', k', outs', ?_, h2, h3, by rw [h4]; exact hT, h5, h6, by omega, h8⟩
          rw [hset, hem]; simp
        | hook v fe =>
          rw [itemsOf_cons_hook] at hlive ⊢
          by_cases hz : fe.on = 0 ∧ fe.off = 0
          · have hun1 : unsettledP ⟨c1, a1⟩ = true := by
              simp [unsettledP, hon1, hoff1, he1, hen, Out.fetched, hz.1, hz.2]
            have hl : lmFetch ({ ev := v, src := fe } :: itemsOf os)
                = ((lmFetch (itemsOf os)).1, v :: (lmFetch (itemsOf os)).2) := by
              simp [lmFetch, hz.1, hz.2]
            rw [hl] at hlive ⊢
            obtain ⟨s', k', outs', hset, h2, h3, h4, h5, h6, h7, h8⟩ :=
              settle_fetch cEnd k os f' ⟨c1, a1⟩ hrun' (by omega) hun1 hlive
            refine ⟨s', k', outs', ?_, h2, h3, by rw [h4]; exact hT, h5, h6, by omega, h8⟩
            rw [hset, hem]; simp
          · have hl : lmFetch ({ ev := v, src := fe } :: itemsOf os) = (⟨fe.on, fe.off, itemsOf os⟩, [v]) := by
              simp [lmFetch, hz]
            rw [hl]
            have hun1 : unsettledP ⟨c1, a1⟩ = false := by
              simp only [unsettledP, hon1, hoff1, Out.fetched]
              have : ¬ (fe.on = 0 ∧ fe.off = 0) := hz
              by_cases h0 : fe.on = 0
              · have : fe.off ≠ 0 := fun h => hz ⟨h0, h⟩
                simp [h0, this]
              · simp [h0]
            refine ⟨⟨c1, a1⟩, k, os, ?_, by simp [hon1, Out.fetched], by simp [hoff1, Out.fetched], hT,
              by rw [he1]; exact hen, hrun', by omega, rfl⟩
            rw [ctSettle_fix song root f' _ hun1, hem]; simp

/-- simulation relation between the player's control/time part and the list machine -/
def Rel (cEnd : Core) (s : PState) (m : LM) : Prop :=
  s.acc.enabled = true ∧ s.acc.onTime = m.on ∧ s.acc.offTime = m.off ∧
  ∃ k outs, CanRun song root cEnd s.core k outs ∧ k ≤ settleFuel ∧ itemsOf outs = m.rest

/-- **one tick**: while the list machine stays live, `ctTick` delivers the same events, advances
the play time by one (except in the very first call, when nothing is pending) and keeps the
relation -/
theorem ct_sim_tick (cEnd : Core) (s : PState) (m : LM) (h : Rel song root cEnd s m) (hl : (lmTick m).1.live) :
    ∃ s', ctTick song root s = some (s', (lmTick m).2) ∧ Rel song root cEnd s' (lmTick m).1 ∧
      s'.acc.playTime = s.acc.playTime + (if m.on + m.off > 0 then 1 else 0) := by
  obtain ⟨hen, hon, hoff, k, outs, hrun, hk, hit⟩ := h
  unfold ctTick
  -- the three ways to end in the fetch loop share this step
  have fetch : ∀ (s0 : PState) (w0 : List Event), s0.core = s.core → unsettledP s0 = true →
      ctDec s = (s0, w0) → lmTick m = ((lmFetch m.rest).1, w0 ++ (lmFetch m.rest).2) →
      ∃ s', (ctSettle song root settleFuel (ctDec s).1).map (fun r => (r.1, (ctDec s).2 ++ r.2)) = some (s', (lmTick m).2) ∧
        Rel song root cEnd s' (lmTick m).1 ∧ s'.acc.playTime = s0.acc.playTime := by
    intro s0 w0 hcore hun hd hlm
    rw [hlm] at hl ⊢
    rw [hd]
    simp only at hl ⊢
    rw [← hit] at hl ⊢
    obtain ⟨s', k', outs', hset, e2, e3, e4, e5, e6, e7, e8⟩ :=
      settle_fetch song root cEnd k outs settleFuel s0 (by rw [hcore]; exact hrun) hk hun hl
    exact ⟨s', by simp [hset], ⟨e5, e2, e3, k', outs', e6, by omega, e8⟩, e4⟩
  by_cases h1 : m.on > 0
  · by_cases h2 : m.on = 1 ∧ m.off = 0
    · obtain ⟨s', a, b, c⟩ := fetch (decOn s) [] rfl
        (by simp [unsettledP, hon, hoff, h2.1, h2.2, hen])
        (by simp [ctDec, hon, hoff, h2.1, h2.2])
        (by simp [lmTick, h2.1, h2.2])
      exact ⟨s', a, b, by rw [c]; simp [h2.1]⟩
    · have hd : ctDec s = (decOn s, if m.on = 1 then [restEvent] else []) := by
        simp only [ctDec, hon, hoff, h1, if_true]
        congr 1
        by_cases h3 : m.on = 1
        · have : m.off > 0 := by
            rcases Nat.eq_zero_or_pos m.off with h0 | h0
            · exact absurd ⟨h3, h0⟩ h2
            · exact h0
          simp [h3, this]
        · have : ¬ (m.on - 1 = 0) := by omega
          simp [h3, this]
      have hlm : lmTick m = (⟨m.on - 1, m.off, m.rest⟩, if m.on = 1 then [restEvent] else []) := by
        simp [lmTick, h1, h2]
      rw [hlm] at hl ⊢
      rw [hd]
      have hun : unsettledP (decOn s) = false := by
        simp only [unsettledP, decOn_on, decOn_off, hon, hoff]
        simp only [LM.live] at hl
        by_cases h0 : m.on - 1 = 0
        · have : m.off ≠ 0 := by omega
          simp [h0, this]
        · simp [h0]
      simp only
      rw [ctSettle_fix song root _ _ hun]
      refine ⟨decOn s, by simp, ⟨by simpa using hen, by simp [hon], by simp [hoff], k, outs, hrun, hk, hit⟩, ?_⟩
      have : m.on + m.off > 0 := by omega
      simp [this]
  · have hon0 : m.on = 0 := by omega
    by_cases h2 : m.off > 0
    · by_cases h3 : m.off = 1
      · obtain ⟨s', a, b, c⟩ := fetch (decOff s) [] rfl
          (by simp [unsettledP, hon, hoff, hon0, h3, hen])
          (by simp [ctDec, hon, hoff, hon0, h3])
          (by simp [lmTick, hon0, h3])
        exact ⟨s', a, b, by rw [c]; simp [h3]⟩
      · have hd : ctDec s = (decOff s, []) := by simp [ctDec, hon, hoff, hon0, h2]
        have hlm : lmTick m = (⟨0, m.off - 1, m.rest⟩, []) := by simp [lmTick, hon0, h2, h3]
        rw [hlm] at hl ⊢
        rw [hd]
        have hun : unsettledP (decOff s) = false := by
          have : m.off - 1 ≠ 0 := by omega
          simp [unsettledP, hon, hoff, hon0, this]
        simp only
        rw [ctSettle_fix song root _ _ hun]
        refine ⟨decOff s, by simp, ⟨by simpa using hen, by simp [hon, hon0], by simp [hoff], k, outs, hrun, hk, hit⟩, ?_⟩
        have : m.on + m.off > 0 := by omega
        simp [this]
    · have hoff0 : m.off = 0 := by omega
      obtain ⟨s', a, b, c⟩ := fetch s [] rfl
        (by simp [unsettledP, hon, hoff, hon0, hoff0, hen])
        (by simp [ctDec, hon, hoff, hon0, hoff0])
        (by simp [lmTick, hon0, hoff0])
      exact ⟨s', a, b, by rw [c]; simp [hon0, hoff0]⟩

/-- **n ticks** -/
theorem ct_sim_run (cEnd : Core) : ∀ (n : Nat) (s : PState) (m : LM), Rel song root cEnd s m →
    (∀ j, j < n → (lmAfter (j + 1) m).live) →
    ∃ s', ctRun song root n s = some (s', lmRun n m) ∧ Rel song root cEnd s' (lmAfter n m)
  | 0, s, m, h, _ => ⟨s, rfl, h⟩
  | n + 1, s, m, h, hl => by
    have h0 : (lmTick m).1.live := by simpa [lmAfter] using hl 0 (by omega)
    obtain ⟨s1, ht, hr, _⟩ := ct_sim_tick song root cEnd s m h h0
    obtain ⟨s2, hrun, hr2⟩ := ct_sim_run cEnd n s1 (lmTick m).1 hr
      (fun j hj => by simpa [lmAfter] using hl (j + 1) (by omega))
    exact ⟨s2, by simp [ctRun, ht, hrun, lmRun], by simpa [lmAfter] using hr2⟩

end
/-! ### `PlayerCh.playTickO` in the plain subset is `ctTick` -/
section
variable (song : Song) (root : List Event) (pd : Int → Bool)

/-- no hook ever sees a platform command or a drum-mode switch -/
def PlainHooks : Prop :=
  ∀ c c' v f, coreStep song root c = .ok (c', .hook v f) → v.type ≠ ev_PLATFORM ∧ v.type ≠ ev_DRUM_MODE

def drumOff (c : Chan) : Prop := getCh c ev_DRUM_MODE = 0

theorem getCh_setCh_ne (c : Chan) (t : Nat) (v : Int) (h : chIdx t ≠ chIdx ev_DRUM_MODE) :
    getCh (setCh c t v) ev_DRUM_MODE = getCh c ev_DRUM_MODE := by
  simp only [getCh, setCh]
  rw [List.getElem?_set_ne h]

theorem drum_set (c : Chan) (i : Nat) (v : Int) (hi : i ≠ chIdx ev_DRUM_MODE) (h : getCh c ev_DRUM_MODE = 0)
    (ln : Int) (m : List Nat) :
    getCh { lastNote := ln, trackState := c.trackState.set i v, mask := m } ev_DRUM_MODE = 0 := by
  simp only [getCh] at h ⊢
  rw [List.getElem?_set_ne hi]; exact h

theorem handleEvent_plain (s : PS) (e : Event) (hd : drumOff s.ch) (hp : e.type ≠ ev_PLATFORM)
    (hdm : e.type ≠ ev_DRUM_MODE) :
    (handleEvent song pd s e).2 = e ∧ (handleEvent song pd s e).1.core = s.core ∧
      (handleEvent song pd s e).1.acc = s.acc ∧ (handleEvent song pd s e).1.err = s.err ∧
      drumOff (handleEvent song pd s e).1.ch := by
  unfold drumOff at hd ⊢
  unfold handleEvent
  have i1 : chIdx ev_TRANSPOSE ≠ chIdx ev_DRUM_MODE := by decide
  have i2 : chIdx ev_VOL_FINE ≠ chIdx ev_DRUM_MODE := by decide
  have i3 : chIdx ev_TEMPO ≠ chIdx ev_DRUM_MODE := by decide
  by_cases hN : e.type = ev_NOTE
  · rw [if_pos hN]
    have : ¬ (getCh s.ch ev_DRUM_MODE ≠ 0) := by simp [hd]
    rw [if_neg this]
    exact ⟨rfl, rfl, rfl, rfl, hd⟩
  rw [if_neg hN, if_neg hp]
  by_cases h1 : e.type = ev_TRANSPOSE_REL
  · rw [if_pos h1]
    exact ⟨rfl, rfl, rfl, rfl, drum_set s.ch _ _ i1 hd _ _⟩
  rw [if_neg h1]
  by_cases h2 : e.type = ev_VOL
  · rw [if_pos h2]
    exact ⟨rfl, rfl, rfl, rfl, drum_set s.ch _ _ i2 hd _ _⟩
  rw [if_neg h2]
  by_cases h3 : e.type = ev_VOL_REL ∨ e.type = ev_VOL_FINE_REL
  · rw [if_pos h3]
    exact ⟨rfl, rfl, rfl, rfl, drum_set s.ch _ _ i2 hd _ _⟩
  rw [if_neg h3]
  by_cases h4 : e.type = ev_TEMPO_BPM
  · rw [if_pos h4]
    exact ⟨rfl, rfl, rfl, rfl, drum_set s.ch _ _ i3 hd _ _⟩
  rw [if_neg h4]
  by_cases h5 : e.type ≥ ev_CHANNEL_CMD ∧ e.type < ev_CMD_COUNT
  · have i4 : chIdx e.type ≠ chIdx ev_DRUM_MODE := by
      have h1 := h5.1; have h2 := h5.2
      simp only [chIdx, ev_CHANNEL_CMD, ev_CMD_COUNT, ev_DRUM_MODE] at *
      omega
    rw [if_pos h5]
    have hts : ∀ (c : Chan) (b : Prop) [Decidable b] (m : List Nat),
        (if b then ({ c with mask := m } : Chan) else c).trackState = c.trackState := by
      intro c b _ m; split <;> rfl
    refine ⟨rfl, rfl, rfl, rfl, ?_⟩
    simp only [getCh] at hd ⊢
    simp only [hts, setCh]
    split <;> (simp only []; rw [List.getElem?_set_ne i4]; exact hd)
  · rw [if_neg h5]
    exact ⟨rfl, rfl, rfl, rfl, hd⟩

/-- one `step_event` of the `Player` = one `step` of the control/time part -/
theorem pstep_ct (hpl : PlainHooks song root) (s : PS) (he : s.err = none) (hd : drumOff s.ch) :
    match step song root true ⟨s.core, s.acc⟩ with
    | .error e => (pstep song root pd false s).1.err = some e
    | .ok (bs, em) =>
      (pstep song root pd false s).2 = emitEvents em ∧ (pstep song root pd false s).1.core = bs.core ∧
        (pstep song root pd false s).1.acc = bs.acc ∧ (pstep song root pd false s).1.err = none ∧
        drumOff (pstep song root pd false s).1.ch := by
  unfold pstep
  simp only [he, Option.isSome_none, Bool.false_eq_true, if_false]
  cases hs : step song root true ⟨s.core, s.acc⟩ with
  | error e => simp
  | ok p =>
    obtain ⟨bs, em⟩ := p
    simp only
    cases em with
    | nothing => refine ⟨?_, ?_, ?_, ?_, ?_⟩ <;> first | rfl | exact he | exact hd
    | finish => refine ⟨?_, ?_, ?_, ?_, ?_⟩ <;> first | rfl | exact he | exact hd
    | event v =>
      -- the visible event comes from a hook of the control step
      have hv : v.type ≠ ev_PLATFORM ∧ v.type ≠ ev_DRUM_MODE := by
        unfold step at hs
        cases hc : coreStep song root s.core with
        | error e => rw [hc] at hs; simp at hs
        | ok q =>
          obtain ⟨c', o⟩ := q
          rw [hc] at hs
          simp only at hs
          cases o with
          | hook v' f =>
            have := hpl _ _ _ _ hc
            unfold accStep at hs
            simp only at hs
            split at hs <;>
              (simp only [Except.ok.injEq, Prod.mk.injEq, Emit.event.injEq] at hs; obtain ⟨_, rfl⟩ := hs; exact this)
          | ret f => simp [accStep] at hs
          | rootEnd f =>
            unfold accStep at hs
            simp only at hs
            split at hs <;> simp at hs
      have hh := handleEvent_plain song pd { core := bs.core, acc := bs.acc, ch := s.ch, err := none } v hd hv.1 hv.2
      obtain ⟨h1, h2, h3, h4, h5⟩ := hh
      have herr : (handleEvent song pd { core := bs.core, acc := bs.acc, ch := s.ch, err := none } v).1.err = none := h4
      simp only [herr, Option.isSome_none, Bool.false_eq_true, false_or, or_false, if_false]
      exact ⟨by simp [emitEvents, h1], h2, h3, trivial, h5⟩

theorem isSettled_ct (s : PS) (he : s.err = none) : isSettled s = !unsettledP ⟨s.core, s.acc⟩ := by
  simp only [isSettled, unsettledP, he, Option.isSome_none, Bool.or_false]
  cases s.acc.enabled <;> cases h1 : decide (s.acc.onTime > 0) <;> cases h2 : decide (s.acc.offTime > 0) <;>
    simp_all <;> omega

/-- the fetch loop -/
theorem settleO_ct (hpl : PlainHooks song root) : ∀ (f : Nat) (s : PS), s.err = none → drumOff s.ch →
    ∀ p w, ctSettle song root f ⟨s.core, s.acc⟩ = some (p, w) →
      (settleO song root pd false f s).2 = w ∧ (settleO song root pd false f s).1.core = p.core ∧
      (settleO song root pd false f s).1.acc = p.acc ∧ (settleO song root pd false f s).1.err = none ∧
      drumOff (settleO song root pd false f s).1.ch
  | 0, s, he, hd, p, w, h => by
    simp only [ctSettle] at h
    split at h
    · simp at h
    · rename_i hu
      simp only [Option.some.injEq, Prod.mk.injEq] at h
      obtain ⟨rfl, rfl⟩ := h
      have : isSettled s = true := by rw [isSettled_ct s he]; simpa using hu
      simp [settleO, this, he, hd]
  | f + 1, s, he, hd, p, w, h => by
    simp only [ctSettle] at h
    split at h
    · rename_i hu
      have hns : isSettled s = false := by rw [isSettled_ct s he]; simp [hu]
      have hp := pstep_ct song root pd hpl s he hd
      cases hs : step song root true ⟨s.core, s.acc⟩ with
      | error e => rw [hs] at h; simp at h
      | ok q =>
        obtain ⟨bs, em⟩ := q
        rw [hs] at h hp
        simp only at h hp
        obtain ⟨e1, e2, e3, e4, e5⟩ := hp
        cases hc : ctSettle song root f bs with
        | none => rw [hc] at h; simp at h
        | some r =>
          rw [hc] at h
          simp only [Option.map_some, Option.some.injEq, Prod.mk.injEq] at h
          obtain ⟨rfl, rfl⟩ := h
          have hbs : (⟨(pstep song root pd false s).1.core, (pstep song root pd false s).1.acc⟩ : PState) = bs := by
            cases bs; simp only [PState.mk.injEq]; exact ⟨e2, e3⟩
          have ih := settleO_ct hpl f (pstep song root pd false s).1 e4 e5 r.1 r.2 (by rw [hbs]; exact hc)
          simp only [settleO, hns, Bool.false_eq_true, if_false]
          obtain ⟨i1, i2, i3, i4, i5⟩ := ih
          exact ⟨by rw [i1, e1], i2, i3, i4, i5⟩
    · rename_i hu
      simp only [Option.some.injEq, Prod.mk.injEq] at h
      obtain ⟨rfl, rfl⟩ := h
      have : isSettled s = true := by rw [isSettled_ct s he]; simpa using hu
      simp [settleO, this, he, hd]

/-- `Player::play_tick` -/
theorem playTickO_ct (hpl : PlainHooks song root) (s : PS) (he : s.err = none) (hd : drumOff s.ch)
    (p : PState) (w : List Event) (h : ctTick song root ⟨s.core, s.acc⟩ = some (p, w)) :
    (playTickO song root pd s).2 = w ∧ (playTickO song root pd s).1.core = p.core ∧
      (playTickO song root pd s).1.acc = p.acc ∧ (playTickO song root pd s).1.err = none ∧
      drumOff (playTickO song root pd s).1.ch := by
  -- `play_tick` = decrement, then the fetch loop
  obtain ⟨s0, hs0⟩ : ∃ s0 : PS, s0 = { s with acc := (ctDec ⟨s.core, s.acc⟩).1.acc } := ⟨_, rfl⟩
  have hcore : (ctDec ⟨s.core, s.acc⟩).1.core = s.core := by
    unfold ctDec; split
    · rfl
    · split <;> rfl
  have hpt : playTickO song root pd s =
      ((settleO song root pd false settleFuel s0).1, (ctDec ⟨s.core, s.acc⟩).2 ++ (settleO song root pd false settleFuel s0).2) := by
    rw [hs0]
    unfold playTickO ctDec
    simp only [he, Option.isSome_none, Bool.false_eq_true, if_false]
    by_cases h1 : s.acc.onTime > 0
    · simp only [h1, if_true]; rfl
    · by_cases h2 : s.acc.offTime > 0
      · simp only [h1, h2, if_true, if_false]; rfl
      · simp only [h1, h2, if_false]
        cases s; simp only at he; subst he; rfl
  unfold ctTick at h
  cases hc : ctSettle song root settleFuel (ctDec ⟨s.core, s.acc⟩).1 with
  | none => rw [hc] at h; simp at h
  | some r =>
    rw [hc] at h
    simp only [Option.map_some, Option.some.injEq, Prod.mk.injEq] at h
    obtain ⟨rfl, rfl⟩ := h
    have hst : (⟨s0.core, s0.acc⟩ : PState) = (ctDec ⟨s.core, s.acc⟩).1 := by
      rw [hs0]
      cases hx : (ctDec ⟨s.core, s.acc⟩).1 with
      | mk c a => rw [hx] at hcore; simp only at hcore ⊢; rw [hcore]
    obtain ⟨i1, i2, i3, i4, i5⟩ := settleO_ct song root pd hpl settleFuel s0 (by rw [hs0]; exact he)
      (by rw [hs0]; exact hd) r.1 r.2 (by rw [hst]; exact hc)
    rw [hpt]
    exact ⟨by simp only []; rw [i1], i2, i3, i4, i5⟩

/-- the `write_event` calls of `n` ticks -/
def tickEvents : Nat → PS → List (List Event)
  | 0, _ => []
  | n + 1, s => (playTickO song root pd s).2 :: tickEvents n (playTickO song root pd s).1

theorem tickEvents_ct (hpl : PlainHooks song root) : ∀ (n : Nat) (s : PS), s.err = none → drumOff s.ch →
    ∀ p ws, ctRun song root n ⟨s.core, s.acc⟩ = some (p, ws) → tickEvents song root pd n s = ws
  | 0, s, _, _, p, ws, h => by simp [ctRun] at h; simp [tickEvents, h.2]
  | n + 1, s, he, hd, p, ws, h => by
    simp only [ctRun] at h
    cases ht : ctTick song root ⟨s.core, s.acc⟩ with
    | none => rw [ht] at h; simp at h
    | some r =>
      obtain ⟨s1, w⟩ := r
      rw [ht] at h
      simp only at h
      cases hr : ctRun song root n s1 with
      | none => rw [hr] at h; simp at h
      | some r2 =>
        rw [hr] at h
        simp only [Option.map_some, Option.some.injEq, Prod.mk.injEq] at h
        obtain ⟨_, rfl⟩ := h
        obtain ⟨i1, i2, i3, i4, i5⟩ := playTickO_ct song root pd hpl s he hd s1 w ht
        have hs1 : (⟨(playTickO song root pd s).1.core, (playTickO song root pd s).1.acc⟩ : PState) = s1 := by
          cases s1; simp only [PState.mk.injEq]; exact ⟨i2, i3⟩
        have ih := tickEvents_ct hpl n (playTickO song root pd s).1 i4 i5 r2.1 r2.2 (by rw [hs1]; exact hr)
        simp [tickEvents, i1, ih]

end
/-! ### from the syntactic condition and the master refinement -/
section
variable (song : Song) (root : List Event)

/-- no track contains a platform command or a drum-mode switch -/
def PlainCode : Prop :=
  ∀ tr e, e ∈ codeOf song root tr → e.type ≠ ev_PLATFORM ∧ e.type ≠ ev_DRUM_MODE

theorem plainHooks_of (h : PlainCode song root) : PlainHooks song root := by
  intro c c' v f hc
  have hend : endEvent.type ≠ ev_PLATFORM ∧ endEvent.type ≠ ev_DRUM_MODE := by decide
  have hfetch : ∀ tr pos, (fetch (codeOf song root tr) pos).type ≠ ev_PLATFORM ∧
      (fetch (codeOf song root tr) pos).type ≠ ev_DRUM_MODE := by
    intro tr pos
    unfold fetch
    cases hg : (codeOf song root tr)[pos]? with
    | none => exact hend
    | some e => exact h tr e (List.mem_of_getElem? hg)
  unfold coreStep at hc
  simp only [] at hc
  repeat' split at hc
  all_goals first
    | (simp at hc; done)
    | (simp only [Except.ok.injEq, Prod.mk.injEq, Out.hook.injEq] at hc
       obtain ⟨_, rfl, _⟩ := hc
       first
         | exact hfetch _ _
         | exact h _ _ (List.mem_of_getElem? (by assumption)))

/-- the start of a track is related to the list machine loaded with `perf` -/
theorem rel_init (hs : SongNoEnd song) (hr : NoEnd root) (items : List Item) (hperf : perf song root = .ok items)
    (hfuel : ∀ k outs, stepsCore song root k ⟨.root, 0, []⟩ = .ok (⟨.root, root.length, []⟩, outs) → k ≤ settleFuel) :
    Rel song root ⟨.root, root.length, []⟩ ⟨⟨.root, 0, []⟩, {}⟩ ⟨0, 0, items⟩ := by
  have hsim := perf_sim song root hs hr
  rw [hperf] at hsim
  obtain ⟨outs, ⟨k, hk, hno⟩, hit⟩ := hsim
  refine ⟨rfl, rfl, rfl, k, outs, ⟨hk, hno, ?_⟩, hfuel k outs hk, hit⟩
  exact stepsCore_outOK song root (codesNoEnd_of song root hs hr) k _ _ outs hk

end

/-! ### generic facts about what a hook can see -/
section
variable (song : Song) (root : List Event)

/-- a property of event types that holds for every event of every track (and for `END`) holds
for every event a hook sees -/
theorem hooks_of (P : Nat → Prop) (hend : P endEvent.type)
    (h : ∀ tr e, e ∈ codeOf song root tr → P e.type) :
    ∀ c c' v f, coreStep song root c = .ok (c', .hook v f) → P v.type := by
  intro c c' v f hc
  have hfetch : ∀ tr pos, P (fetch (codeOf song root tr) pos).type := by
    intro tr pos
    unfold fetch
    cases hg : (codeOf song root tr)[pos]? with
    | none => exact hend
    | some e => exact h tr e (List.mem_of_getElem? hg)
  unfold coreStep at hc
  simp only [] at hc
  repeat' split at hc
  all_goals first
    | (simp at hc; done)
    | (simp only [Except.ok.injEq, Prod.mk.injEq, Out.hook.injEq] at hc
       obtain ⟨_, rfl, _⟩ := hc
       first
         | exact hfetch _ _
         | exact h _ _ (List.mem_of_getElem? (by assumption)))

/-- an `event` report of `step` is a hook of the control step -/
theorem step_event_hook (s bs : PState) (v : Event) (hs : step song root true s = .ok (bs, .event v)) :
    ∃ c' f, coreStep song root s.core = .ok (c', .hook v f) := by
  unfold step at hs
  cases hc : coreStep song root s.core with
  | error e => rw [hc] at hs; simp at hs
  | ok q =>
    obtain ⟨c', o⟩ := q
    rw [hc] at hs
    simp only at hs
    cases o with
    | hook v' f =>
      unfold accStep at hs
      simp only at hs
      split at hs <;>
        (simp only [Except.ok.injEq, Prod.mk.injEq, Emit.event.injEq] at hs; obtain ⟨_, rfl⟩ := hs; exact ⟨c', f, rfl⟩)
    | ret f => simp [accStep] at hs
    | rootEnd f =>
      unfold accStep at hs
      simp only at hs
      split at hs <;> simp at hs

end

end Ctrmml.TickStream
