/-
  Helper lemmas for C17 (no property statements): the exact column of the two most frequent
  `parse_error` sites, as a function of the rest of the line behind the command letter
  (`suffix`, Proofs/ReaderCmd): "missing parameter" (`expect_parameter`, 25 commands) and
  "illegal duration" (`read_duration`).
-/
import Ctrmml.Proofs.ReaderCmd
import Ctrmml.Proofs.DiagLine
namespace Ctrmml.DiagCol
open Ctrmml.Lexer Ctrmml.Mml Ctrmml.TrackBuilder Ctrmml.Tables

/-- how far `get_num` has moved when it throws: over the blanks, and over a `$`/`x` prefix -/
def numSkip (l : List Nat) : Nat :=
  LineBuffer.countBlanks l +
    (match l.drop (LineBuffer.countBlanks l) with
     | c :: _ => if c = 36 ∨ c = 120 then 1 else 0
     | [] => 0)

theorem numSpan_none_skip (l : List Nat) (h : (numSpan l).1 = none) : (numSpan l).2 = numSkip l := by
  unfold numSpan at h ⊢
  unfold numSkip
  simp only [] at h ⊢
  cases hd : l.drop (LineBuffer.countBlanks l) with
  | nil => simp
  | cons c rest =>
    rw [hd] at h
    simp only [] at h ⊢
    by_cases hx : c = 36 ∨ c = 120
    · simp only [hx, if_true] at h ⊢
      by_cases hr : rest.isEmpty = true
      · simp [hr]
      · simp only [hr, Bool.false_eq_true, if_false] at h ⊢
        cases hst : strtol rest 16 with
        | none => simp [numOut]
        | some p => rw [hst] at h; simp [numOut] at h
    · simp only [hx, if_false] at h ⊢
      cases hst : strtol (c :: rest) 10 with
      | none => simp [numOut]
      | some p => rw [hst] at h; simp [numOut] at h

/-- `expect_parameter()` fails only with "missing parameter", raised where `get_num` gave up: at the
first non-blank character behind the command letter, or behind that character when it is `$`/`x` -/
theorem expectParameter_error (s s' : MmlState) (hs : Sane s) (e : Err) (h : expectParameter s = .err e s') :
    e = .input "missing parameter" { line := s.inp.line, column := s.inp.lb.column + numSkip (suffix s) } ∧
    (numSpan (suffix s)).1 = none := by
  unfold expectParameter at h
  rw [bind_ok (getNumC_spec s hs)] at h
  cases hv : (numSpan (suffix s)).1 with
  | some v => rw [hv] at h; cases h
  | none =>
    rw [hv] at h
    cases h
    rw [numSpan_none_skip _ hv]
    exact ⟨rfl, rfl⟩

theorem dotsLoop_total : ∀ (k : Nat) (d dot : Int) (s : MmlState), ∃ v s', dotsLoop k d dot s = .ok v s'
  | 0, d, dot, s => by
    obtain ⟨c, hc⟩ := getC_any s
    unfold dotsLoop
    rw [bind_ok hc, bind_ok (ungetC_zero s)]
    exact ⟨_, _, rfl⟩
  | k + 1, d, dot, s => by
    obtain ⟨c, hc⟩ := getC_any s
    unfold dotsLoop
    rw [bind_ok hc]
    exact dotsLoop_total k _ _ _

/-- the part of `read_duration` behind the number never throws -/
theorem readDuration_tail_ok (duration : Int) (s : MmlState) :
    ∃ v s', (do
      let s ← getS
      let r ← dotsLoop (countDots (s.inp.lb.buf.drop s.inp.lb.column)) duration (duration / 2)
      pure (wrapU32 r) : P Nat) s = .ok v s' := by
  rw [bind_ok (getS_run s)]
  obtain ⟨v, s', h⟩ := dotsLoop_total (countDots (s.inp.lb.buf.drop s.inp.lb.column)) duration (duration / 2) s
  rw [bind_ok h]
  exact ⟨_, _, rfl⟩

/-- `read_duration()` fails only with "illegal duration", raised directly behind the number it
read (a length below 1, or a negative `:`frame count) -/
theorem readDuration_error (s s' : MmlState) (hs : Sane s) (e : Err) (h : readDuration s = .err e s') :
    e = .input "illegal duration"
      { line := s.inp.line,
        column := s.inp.lb.column + (if (suffix s).head? = some 58 then 1 else 0) +
          (numSpan ((suffix s).drop (if (suffix s).head? = some 58 then 1 else 0))).2 } := by
  unfold readDuration at h
  cases hl : suffix s with
  | nil =>
    exfalso
    rw [bind_ok (getC_nil s hl)] at h
    have e0 : ((0 : Int) == 58) = false := by decide
    simp only [e0, Bool.false_eq_true, if_false] at h
    rw [bind_ok (ungetC_zero s), bind_ok (getNumC_spec s hs)] at h
    have hn : numSpan (suffix s) = (none, 0) := by rw [hl]; simp [numSpan, LineBuffer.countBlanks]
    simp only [hn] at h
    rw [bind_ok (run_pure _ _)] at h
    simp only [] at h
    rw [bind_ok (track_run _), bind_ok (run_pure _ _)] at h
    obtain ⟨v, s'', ht⟩ := readDuration_tail_ok ((getTrack (adv s 0)).getDuration.toNat : Int) (adv s 0)
    rw [ht] at h
    cases h
  | cons x r =>
    have hx : x < 256 := mem_suffix_byte s hs x (by rw [hl]; simp)
    rw [bind_ok (getC_cons s x r hl)] at h
    by_cases h58 : x = 58
    · subst h58
      have e1 : (schar 58 == 58) = true := by decide
      simp only [e1, if_true] at h
      have hs1 : Sane (adv s 1) := sane_adv s hs 1 (by rw [hl]; simp)
      have hsuf1 : suffix (adv s 1) = r := by rw [suffix_adv, hl]; rfl
      rw [bind_ok (getNumC_spec (adv s 1) hs1)] at h
      simp only [hsuf1] at h
      simp only [List.head?_cons, if_true, List.drop_succ_cons, List.drop_zero]
      cases hv : (numSpan r).1 with
      | none =>
        exfalso
        rw [hv] at h
        simp only [] at h
        rw [bind_ok (track_run _), bind_ok (run_pure _ _)] at h
        obtain ⟨v, s'', ht⟩ := readDuration_tail_ok _ _
        rw [ht] at h
        cases h
      | some v =>
        rw [hv] at h
        simp only [] at h
        by_cases hneg : v < 0
        · simp only [hneg, if_true] at h
          cases h
          simp [adv, setLb, LineInput.getReference, Nat.add_assoc]
        · exfalso
          simp only [hneg, if_false] at h
          rw [bind_ok (run_pure _ _)] at h
          obtain ⟨v', s'', ht⟩ := readDuration_tail_ok _ _
          rw [ht] at h
          cases h
    · have e1 : (schar x == 58) = false := by
        have := schar_eq_lit x hx 58 (by omega) h58
        simpa using this
      simp only [e1, Bool.false_eq_true, if_false] at h
      rw [bind_ok (ungetC_same s hs.bytes x r hl), bind_ok (getNumC_spec s hs)] at h
      have hh : ((x :: r).head? = some 58) = False := by simp [h58]
      simp only [hh, if_false, List.drop_zero, Nat.add_zero]
      rw [← hl]
      cases hv : (numSpan (suffix s)).1 with
      | none =>
        exfalso
        rw [hv] at h
        simp only [] at h
        rw [bind_ok (run_pure _ _)] at h
        simp only [] at h
        rw [bind_ok (track_run _), bind_ok (run_pure _ _)] at h
        obtain ⟨v, s'', ht⟩ := readDuration_tail_ok _ _
        rw [ht] at h
        cases h
      | some v =>
        rw [hv] at h
        simp only [] at h
        by_cases hlt : v < 1
        · simp only [hlt, if_true] at h
          cases h
          simp [adv, setLb, LineInput.getReference]
        · exfalso
          simp only [hlt, if_false] at h
          rw [bind_ok (track_run _), bind_ok (run_pure _ _)] at h
          simp only [] at h
          split at h
          · rename_i hd
            have : (0 : Int) ≤ ((getTrack (adv s (numSpan (suffix s)).2)).getMeasureLen.toNat : Int) / v :=
              Int.ediv_nonneg (by omega) (by omega)
            omega
          · rw [bind_ok (run_pure _ _)] at h
            obtain ⟨v', s'', ht⟩ := readDuration_tail_ok _ _
            rw [ht] at h
            cases h

/-- is this outcome the `InputError(msg, ref)`? (for the examples) -/
def errIs {α : Type} (x : Res α) (msg : String) (ref : Ref) : Bool :=
  match x with
  | .err (.input m r) _ => m == msg && r == ref
  | _ => false

theorem errIs_spec {α : Type} (x : Res α) (msg : String) (ref : Ref) (h : errIs x msg ref = true) :
    ∃ s', x = .err (.input msg ref) s' := by
  unfold errIs at h
  split at h
  · simp only [Bool.and_eq_true, beq_iff_eq] at h
    obtain ⟨rfl, rfl⟩ := h
    exact ⟨_, rfl⟩
  · cases h

end Ctrmml.DiagCol
