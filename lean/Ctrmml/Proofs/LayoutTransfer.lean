/-
  Helper lemmas for C06, round 4 (no property statements here):
  * the old ⇒ new transfer: on the round-2 command set `LCovered` every notion of round 3
    (`L2.lcmdTrack`, `L2.LCmdNums`, `L2.LCmdTail`, `L2.lcmdSkip`, `L2.runCmds`, `L2.CmdsOk`, `L2.ToksOk`,
    `L2.LineOk`, `L2.LinesOk`) is the one of round 2, so the `*2` theorems subsume the round-2 ones;
  * `L2.cmdTail_of_sep`: `cmdTail_of_sep` (a non-empty separator satisfies every look-ahead
    condition) replayed for the widened set; the echo `\` needs a written duration (behind a bare
    `\` a separator is read by `get_token`, the case `EchoHead` excludes).
-/
import Ctrmml.Proofs.LayoutLines2
namespace Ctrmml.Mml.L2
open Ctrmml.Tables Ctrmml.Lexer Ctrmml.TrackBuilder
open Ctrmml.MmlMeaning (Num Dur Acc Cmd)
open Ctrmml.Layout (Addr)

/-! ### old ⇒ new -/

/-- on a command of round 2 every definition of round 3 is the one of round 2 -/
theorem agree_of_old (c : Cmd) (h : Mml.LCovered c) :
    (∀ t, lcmdTrack t c = Mml.lcmdTrack t c) ∧ (∀ t, LCmdNums t c = Mml.LCmdNums t c) ∧
    (∀ tail, LCmdTail c tail = Mml.LCmdTail c tail) ∧ (∀ tail, lcmdSkip c tail = Mml.lcmdSkip c tail) := by
  cases c with
  | echo d => exact absurd h (by simp [Mml.LCovered, Covered])
  | simple sm n =>
    cases sm <;> cases n <;>
      first
      | exact ⟨fun _ => rfl, fun _ => rfl, fun _ => rfl, fun _ => rfl⟩
      | exact absurd h (by simp [Mml.LCovered, evClass, covSimple])
  | _ => exact ⟨fun _ => rfl, fun _ => rfl, fun _ => rfl, fun _ => rfl⟩

theorem lcmdTrack_of_old (t : Track) (c : Cmd) (h : Mml.LCovered c) : lcmdTrack t c = Mml.lcmdTrack t c := (agree_of_old c h).1 t
theorem lcmdNums_of_old (t : Track) (c : Cmd) (h : Mml.LCovered c) : LCmdNums t c = Mml.LCmdNums t c := (agree_of_old c h).2.1 t
theorem lcmdTail_of_old (c : Cmd) (tail : List Nat) (h : Mml.LCovered c) : LCmdTail c tail = Mml.LCmdTail c tail := (agree_of_old c h).2.2.1 tail
theorem lcmdSkip_of_old (c : Cmd) (tail : List Nat) (h : Mml.LCovered c) : lcmdSkip c tail = Mml.lcmdSkip c tail := (agree_of_old c h).2.2.2 tail

/-- the builder calls of a round-2 command list are the same in both rounds -/
theorem runCmds_of_old (cs : List Cmd) : ∀ (t : Track), (∀ c ∈ cs, Mml.LCovered c) → runCmds t cs = Mml.runCmds t cs := by
  induction cs with
  | nil => intro t _; rfl
  | cons c cs ih =>
    intro t h
    show runCmds (lcmdTrack t c) cs = Mml.runCmds (Mml.lcmdTrack t c) cs
    rw [lcmdTrack_of_old t c (h c (by simp))]
    exact ih _ (fun x hx => h x (by simp [hx]))

/-- `CmdsOk` ⇒ `L2.CmdsOk` -/
theorem cmdsOk_of_old (cs : List Cmd) : ∀ (t : Track), Mml.CmdsOk t cs → CmdsOk t cs := by
  induction cs with
  | nil => intro t _; trivial
  | cons c cs ih =>
    intro t h
    obtain ⟨h1, h2, h3⟩ := h
    refine ⟨lcovered_of_old c h1, ?_, ?_⟩
    · rw [lcmdNums_of_old t c h1]; exact h2
    · rw [lcmdTrack_of_old t c h1]; exact ih _ h3

/-- `ToksOk` ⇒ `L2.ToksOk` for tokens whose commands are those of round 2 -/
theorem toksOk_of_old (ts : List Tok) (e : List Nat) (h : Mml.ToksOk ts e) (hcov : ∀ c ∈ cmdsOf ts, Mml.LCovered c) : ToksOk ts e := by
  induction ts with
  | nil => trivial
  | cons t ts ih =>
    cases t with
    | blank b => exact ⟨h.1, ih h.2 hcov⟩
    | bar => exact ih h hcov
    | cmd c =>
      refine ⟨?_, ih h.2 (fun x hx => hcov x (by simp [cmdsOf, hx]))⟩
      rw [lcmdTail_of_old c _ (hcov c (by simp [cmdsOf]))]; exact h.1

/-- `LineOk` ⇒ `L2.LineOk` -/
theorem lineOk_of_old (ids : List Nat) (l : LLine) (h : Mml.LineOk ids l) (hcov : ∀ c ∈ l.cmds, Mml.LCovered c) : LineOk ids l := by
  cases l with
  | hdr as b ts e =>
    obtain ⟨h1, h2, h3, h4, h5, h6, h7⟩ := h
    exact ⟨h1, h2, h3, h4, toksOk_of_old ts e h5 hcov, h6, h7⟩
  | cont b ts e =>
    obtain ⟨h1, h2, h3, h4⟩ := h
    exact ⟨h1, toksOk_of_old ts e h2 hcov, h3, h4⟩
  | empty => trivial
  | comment _ => trivial

/-- `LinesOk` ⇒ `L2.LinesOk` -/
theorem linesOk_of_old (ids : List Nat) (ls : List LLine) : ∀ (r : Bool), Mml.LinesOk ids r ls → (∀ c ∈ layoutCmds ls, Mml.LCovered c) →
    LinesOk ids r ls := by
  induction ls with
  | nil => intro r _ _; trivial
  | cons l ls ih =>
    intro r h hcov
    obtain ⟨h1, h2, h3⟩ := h
    have hc : ∀ c, c ∈ l.cmds ∨ c ∈ layoutCmds ls → Mml.LCovered c := by
      intro c hc
      apply hcov c
      simp only [layoutCmds, List.flatMap_cons, List.mem_append]
      exact hc
    exact ⟨lineOk_of_old ids l h1 (fun c h => hc c (Or.inl h)), h2, ih _ h3 (fun c h => hc c (Or.inr h))⟩

/-- the hypotheses of a round-2 whole-line theorem give those of its round-3 form -/
theorem hyps_of_old (ids : List Nat) (ls : List LLine) (r : Bool) (s : MmlState) (hne : ids ≠ []) (hok : Mml.LinesOk ids r ls)
    (hcmds : ∀ id ∈ ids, Mml.CmdsOk (trackOf id s).strip (layoutCmds ls)) :
    (∀ c ∈ layoutCmds ls, Mml.LCovered c) ∧ LinesOk ids r ls ∧ (∀ id ∈ ids, CmdsOk (trackOf id s).strip (layoutCmds ls)) := by
  obtain ⟨id0, hid0⟩ : ∃ id0, id0 ∈ ids := by
    cases ids with
    | nil => exact absurd rfl hne
    | cons a _ => exact ⟨a, by simp⟩
  have hcov := Mml.cmdsOk_covered _ _ (hcmds id0 hid0)
  exact ⟨hcov, linesOk_of_old ids ls r hok hcov, fun id hid => cmdsOk_of_old _ _ (hcmds id hid)⟩

/-! ### a non-empty separator satisfies every look-ahead condition, round-3 set -/

theorem toks_sepHead (ts : List Tok) (e : List Nat) (hok : ToksOk ts e) (he : EndOk e)
    (hts : ∀ c ts', ts ≠ Tok.cmd c :: ts') : SepHead (toksText ts e) := by
  cases ts with
  | nil =>
    rcases he with rfl | ⟨r, rfl⟩
    · exact Or.inl rfl
    · exact Or.inr ⟨59, r, rfl, by omega⟩
  | cons t ts =>
    cases t with
    | blank b => exact Or.inr ⟨b, toksText ts e, rfl, by have := hok.1; omega⟩
    | bar => exact Or.inr ⟨124, toksText ts e, rfl, by omega⟩
    | cmd c => exact absurd rfl (hts c ts)

/-- a written duration starts with a byte that is neither a blank nor `=` -/
theorem echoHead_of_written (d : Dur) (hd : DurNums d) (hw : d ≠ .dflt 0) (tail : List Nat) : EchoHead (d.bytes ++ tail) := by
  cases d with
  | dflt k =>
    cases k with
    | zero => exact absurd rfl hw
    | succ k =>
      simp only [Dur.bytes, MmlMeaning.dotsBytes, List.replicate_succ, List.cons_append]
      exact ⟨by omega, by omega, by omega⟩
  | len n k =>
    obtain ⟨c, r, hcr, hc⟩ := num_bytes_head_nonneg n (by have := hd.2; omega)
    simp only [Dur.bytes, hcr, List.cons_append]
    exact ⟨by omega, by omega, by omega⟩
  | frames n k =>
    simp only [Dur.bytes, List.cons_append]
    exact ⟨by omega, by omega, by omega⟩

/-- behind any non-empty separator (or at the end of the line) the look-ahead condition of every
command holds; the echo `\` must carry a written duration -/
theorem cmdTail_of_sep (t : Track) (cmd : Cmd) (hn : LCmdNums t cmd) (ts : List Tok) (e : List Nat) (hok : ToksOk ts e)
    (hcov : ∀ c ∈ cmdsOf ts, LCovered c) (he : EndOk e) (hts : ∀ c ts', ts ≠ Tok.cmd c :: ts')
    (hecho : ∀ d, cmd = .echo d → d ≠ .dflt 0) :
    LCmdTail cmd (toksText ts e) := by
  have hsh := toks_sepHead ts e hok he hts
  have hb : ∀ n : Num, numBase n ≤ 16 := fun n => by unfold numBase; split <;> omega
  have h46 : (toksText ts e).head? ≠ some 46 := sepHead_head _ hsh 46 (by omega)
  have hdur : ∀ d : Dur, DurTail d (toksText ts e) := by
    intro d
    cases d with
    | dflt k =>
      cases k with
      | zero =>
        obtain ⟨bl, rest, h1, h2, h3, h4⟩ := toks_shape ts e hok hcov (stopEnd_of_endOk he)
        have hns := toks_numSpan ts e hok hcov (stopEnd_of_endOk he)
        refine ⟨by rw [hns], ?_, sepHead_head _ hsh 58 (by omega)⟩
        rw [hns, h1, ← h2]
        simp only [List.drop_left]
        rcases h4 with rfl | ⟨c, r, rfl, hc⟩
        · simp
        · have := (stop_props c hc).2.2.2.2.2.2.1
          simp; exact this
      | succ k => exact h46
    | len n k =>
      cases k with
      | zero => exact ⟨numEnd_sepHead _ (hb n) _ hsh, h46⟩
      | succ k => exact h46
    | frames n k =>
      cases k with
      | zero => exact ⟨numEnd_sepHead _ (hb n) _ hsh, h46⟩
      | succ k => exact h46
  have hhead : ∀ d : Dur, DurNums d →
      (d.bytes ++ toksText ts e).head? ≠ some 43 ∧ (d.bytes ++ toksText ts e).head? ≠ some 45 ∧ (d.bytes ++ toksText ts e).head? ≠ some 61 := by
    intro d hd
    cases d with
    | dflt k =>
      cases k with
      | zero =>
        simp only [Dur.bytes, MmlMeaning.dotsBytes, List.replicate_zero, List.nil_append]
        exact ⟨sepHead_head _ hsh 43 (by omega), sepHead_head _ hsh 45 (by omega), sepHead_head _ hsh 61 (by omega)⟩
      | succ k => simp [Dur.bytes, MmlMeaning.dotsBytes, List.replicate_succ]
    | len n k =>
      obtain ⟨c, r, hcr, hc⟩ := num_bytes_head_nonneg n (by have := hd.2; omega)
      simp only [Dur.bytes, hcr, List.cons_append, List.head?_cons, ne_eq, Option.some.injEq]
      omega
    | frames n k => simp [Dur.bytes]
  cases cmd with
  | note l a d => exact ⟨hdur d, fun _ => hhead d hn⟩
  | rest d => exact hdur d
  | tie d => exact hdur d
  | length d => exact hdur d
  | octave n => exact numEnd_sepHead _ (hb n) _ hsh
  | quantize n => exact numEnd_sepHead _ (hb n) _ hsh
  | early n => exact numEnd_sepHead _ (hb n) _ hsh
  | measure n => exact numEnd_sepHead _ (hb n) _ hsh
  | shuffle n => exact numEnd_sepHead _ (hb n) _ hsh
  | drum n => exact numEnd_sepHead _ (hb n) _ hsh
  | revRest d => exact hdur d
  | grace l a d => exact ⟨hdur d, fun _ => hhead d hn.1⟩
  | echo d => exact ⟨hdur d, echoHead_of_written d hn (hecho d rfl) _⟩
  | simple sm n =>
    cases n with
    | some n => exact numEnd_sepHead _ (hb n) _ hsh
    | none =>
      have hns := toks_numSpan ts e hok hcov (stopEnd_of_endOk he)
      cases sm <;> first | trivial | (show (numSpan (toksText ts e)).1 = none; rw [hns])
  | _ => trivial

/-- the hypothesis on `\` cannot be dropped from this formulation: behind a bare `\` a blank does
not satisfy `L2.LCmdTail` (there `get_token`, not `get_num`, skips the blanks) -/
theorem bare_echo_blank : ¬ LCmdTail (.echo (.dflt 0)) (toksText [.blank 32] []) := by
  intro h
  have := h.2
  simp [EchoHead, Dur.bytes, MmlMeaning.dotsBytes, toksText, Tok.bytes] at this

end Ctrmml.Mml.L2
