import Ctrmml.Model.MmlFix
import Ctrmml.Proofs.Reader
namespace Ctrmml.Reader2
open Ctrmml.Lexer Ctrmml.Mml Ctrmml.TrackBuilder Ctrmml.Tables

def NeverTrue (m : P Bool) : Prop := ∀ s s', m s ≠ .ok true s'

theorem nt_pure : NeverTrue (pure false : P Bool) := by
  intro s s' h; cases h

theorem nt_bind {α : Type} (m : P α) (f : α → P Bool) (h : ∀ a, NeverTrue (f a)) : NeverTrue (m >>= f) := by
  intro s s' hh
  change P.bind m f s = _ at hh
  unfold P.bind at hh
  split at hh
  · exact h _ _ _ hh
  · cases hh

theorem nt_ite {c : Prop} [Decidable c] (a b : P Bool) (ha : NeverTrue a) (hb : NeverTrue b) :
    NeverTrue (if c then a else b) := by
  split <;> assumption

macro "nt" : tactic => `(tactic| repeat' (first | exact nt_pure | (apply nt_bind; intro _) | apply nt_ite))

theorem ite_declines {c : Prop} [Decidable c] (a b : P Bool) (s s' : MmlState) (ha : NeverTrue a)
    (h : (if c then a else b) s = .ok true s') : b s = .ok true s' := by
  split at h
  · exact absurd h (ha _ _)
  · exact h

/-- a command parser declines: the character is put back -/
def declined : P Bool := do
  let c ← getTokenC
  ungetC c
  pure true

theorem mmlBasic_true (s s' : MmlState) (h : mmlBasic s = .ok true s') : declined s = .ok true s' := by
  unfold mmlBasic at h
  change P.bind getTokenC _ s = _ at h
  unfold declined
  change P.bind getTokenC _ s = _
  unfold P.bind at h ⊢
  cases hg : getTokenC s with
  | err e s1 => rw [hg] at h; cases h
  | ok c s1 =>
    rw [hg] at h
    simp only at h ⊢
    repeat (replace h := ite_declines _ _ _ _ (by nt) h)
    exact h


theorem mmlControl_true (s s' : MmlState) (h : mmlControl s = .ok true s') : declined s = .ok true s' := by
  unfold mmlControl at h
  change P.bind getTokenC _ s = _ at h
  unfold declined
  change P.bind getTokenC _ s = _
  unfold P.bind at h ⊢
  cases hg : getTokenC s with
  | err e s1 => rw [hg] at h; cases h
  | ok c s1 =>
    rw [hg] at h
    simp only at h ⊢
    repeat (replace h := ite_declines _ _ _ _ (by nt) h)
    exact h

theorem mmlEnvelope_true (s s' : MmlState) (h : mmlEnvelope s = .ok true s') : declined s = .ok true s' := by
  unfold mmlEnvelope at h
  change P.bind getTokenC _ s = _ at h
  unfold declined
  change P.bind getTokenC _ s = _
  unfold P.bind at h ⊢
  cases hg : getTokenC s with
  | err e s1 => rw [hg] at h; cases h
  | ok c s1 =>
    rw [hg] at h
    simp only at h ⊢
    repeat (replace h := ite_declines _ _ _ _ (by nt) h)
    exact h

/-- at a non-blank character inside the line, declining leaves the reader exactly where it was -/
theorem declined_at_command (s : MmlState) (hb : ∀ x ∈ s.inp.lb.buf, x < 256)
    (hk : s.inp.lb.column < s.inp.lb.buf.length)
    (hnb : isBlank (schar (s.inp.lb.buf[s.inp.lb.column]'hk)) = false) :
    declined s = .ok true s := by
  have hdrop : s.inp.lb.buf.drop s.inp.lb.column = s.inp.lb.buf[s.inp.lb.column]'hk :: s.inp.lb.buf.drop (s.inp.lb.column + 1) :=
    List.drop_eq_getElem_cons hk
  have hcb : LineBuffer.countBlanks (s.inp.lb.buf.drop s.inp.lb.column) = 0 := by
    rw [hdrop]; simp [LineBuffer.countBlanks, hnb]
  have hk' : s.inp.lb.column + LineBuffer.countBlanks (s.inp.lb.buf.drop s.inp.lb.column) < s.inp.lb.buf.length := by
    rw [hcb]; exact hk
  have hu := (Reader.getToken_unget s.inp.lb hb hk').1
  rw [hcb] at hu
  unfold declined
  change P.bind getTokenC (fun c => P.bind (ungetC c) (fun _ => P.pure true)) s = _
  simp only [P.bind, getTokenC, ungetC, P.pure]
  have hlb : (setLb s s.inp.lb.getToken.2).inp.lb = s.inp.lb.getToken.2 := rfl
  rw [hlb, hu]
  cases s with
  | mk inp song tagKey trackId trackOffset trackList lastCmd conditionalBlock warnings =>
    cases inp with
    | mk lb line =>
      cases lb
      rfl

end Ctrmml.Reader2
