/- C08 helper lemmas: reading header fields after stores (`setL`, `rdLe32`). No property statements. -/
import Ctrmml.Proofs.Vgm
namespace Ctrmml.Vgm
open Ctrmml Ctrmml.VgmSpec

/-- bytes of a header after a store of `bs` at `off` -/
def setL (l : Bytes) (off : Nat) (bs : Bytes) : Bytes := l.take off ++ bs ++ l.drop (off + bs.length)

theorem setL_length (l : Bytes) (off : Nat) (bs : Bytes) (h : off + bs.length ≤ l.length) :
    (setL l off bs).length = l.length := by
  unfold setL; simp; omega

theorem getElem?_setL (l : Bytes) (off : Nat) (bs : Bytes) (h : off + bs.length ≤ l.length) (i : Nat) :
    (setL l off bs)[i]? = if off ≤ i ∧ i < off + bs.length then bs[i - off]? else l[i]? := by
  unfold setL
  by_cases h1 : i < off
  · rw [List.append_assoc, List.getElem?_append_left (by simp; omega)]
    simp [h1]; omega
  · by_cases h2 : i < off + bs.length
    · rw [List.getElem?_append_left (by simp; omega), List.getElem?_append_right (by simp; omega)]
      simp [h2, Nat.min_eq_left (show off ≤ l.length by omega)]; omega
    · rw [List.getElem?_append_right (by simp; omega)]
      simp [Nat.min_eq_left (show off ≤ l.length by omega)]
      rw [if_neg (by omega)]
      congr 1; omega

theorem rdLe32_eq (d : Bytes) (pos : Nat) :
    rdLe32 d pos = (match d[pos]?, d[pos+1]?, d[pos+2]?, d[pos+3]? with
      | some a, some b, some c, some e => some (a.toNat + 256 * b.toNat + 65536 * c.toNat + 16777216 * e.toNat)
      | _, _, _, _ => none) := by
  have h0 : d[pos]? = (d.drop pos)[0]? := by simp
  have h1 : d[pos+1]? = (d.drop pos)[1]? := by simp
  have h2 : d[pos+2]? = (d.drop pos)[2]? := by simp
  have h3 : d[pos+3]? = (d.drop pos)[3]? := by simp
  rw [h0, h1, h2, h3]
  unfold rdLe32
  rcases d.drop pos with _ | ⟨a, _ | ⟨b, _ | ⟨c, _ | ⟨e, t⟩⟩⟩⟩ <;> simp

theorem rdLe32_congr (d d' : Bytes) (pos : Nat) (h : ∀ i, i < 4 → d[pos + i]? = d'[pos + i]?) :
    rdLe32 d pos = rdLe32 d' pos := by
  rw [rdLe32_eq, rdLe32_eq]
  have := h 0 (by omega); have := h 1 (by omega); have := h 2 (by omega); have := h 3 (by omega)
  simp_all

theorem rdLe32_setL_other (l : Bytes) (off : Nat) (bs : Bytes) (a : Nat) (h : off + bs.length ≤ l.length)
    (hd : a + 4 ≤ off ∨ off + bs.length ≤ a) : rdLe32 (setL l off bs) a = rdLe32 l a := by
  apply rdLe32_congr
  intro i hi
  rw [getElem?_setL l off bs h, if_neg (by omega)]

theorem rdLe32_append_left (l r : Bytes) (a : Nat) (h : a + 4 ≤ l.length) : rdLe32 (l ++ r) a = rdLe32 l a := by
  apply rdLe32_congr
  intro i hi
  rw [List.getElem?_append_left (by omega)]

theorem rdLe32_le32_mod (n : Nat) (pre rest : Bytes) :
    rdLe32 (pre ++ le32 n ++ rest) pre.length = some (n % 4294967296) := by
  simp [rdLe32, le32, byteOf_toNat]
  omega

theorem rdLe32_setL_same (l : Bytes) (off v : Nat) (h : off + 4 ≤ l.length) :
    rdLe32 (setL l off (le32 v)) off = some (v % 4294967296) := by
  unfold setL
  have := rdLe32_le32_mod v (l.take off) (l.drop (off + (le32 v).length))
  rw [List.length_take, Nat.min_eq_left (by omega)] at this
  exact this

theorem take4_setL (l : Bytes) (off : Nat) (bs : Bytes) (h : off + bs.length ≤ l.length) (h4 : 4 ≤ off) :
    (setL l off bs).take 4 = l.take 4 := by
  apply List.ext_getElem?
  intro i
  simp only [List.getElem?_take]
  split
  · rw [getElem?_setL l off bs h, if_neg (by omega)]
  · rfl

theorem rdLe32_replicate_zero (n a : Nat) (h : a + 4 ≤ n) : rdLe32 (List.replicate n (0 : UInt8)) a = some 0 := by
  rw [rdLe32_eq]
  simp [show a < n by omega, show a + 1 < n by omega, show a + 2 < n by omega, show a + 3 < n by omega]

end Ctrmml.Vgm
