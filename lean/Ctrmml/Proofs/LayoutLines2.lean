/-
  Helper lemmas for C06, round 3 (no property statements here): Proofs/LayoutLines replayed for
  the widened command set `L2.LCovered` (Proofs/LayoutCmd2, Proofs/LayoutLine2).  Lines (`LLine`),
  addresses, headers, `trackOf`, `Ready`, `layoutCmds` are those of Proofs/LayoutLines; what depends
  on the command set (`LineOk`, `LinesOk`, `readLines_layout`, …) is restated inside `Ctrmml.Mml.L2`.
-/
import Ctrmml.Proofs.LayoutLine2
import Ctrmml.Proofs.LayoutLines
namespace Ctrmml.Mml.L2
open Ctrmml.Tables Ctrmml.Lexer Ctrmml.TrackBuilder
open Ctrmml.MmlMeaning (Num Dur Acc Cmd)
open Ctrmml.Layout (Addr)

theorem parseMmlLoop_toks (ts : List Tok) (e : List Nat) (col : Nat) (he : EndOk e) (hok : ToksOk ts e) :
    ∀ (ids : List Nat) (i : Nat) (s : MmlState), Bytes s.inp.lb.buf → col ≤ s.inp.lb.buf.length →
    s.inp.lb.buf.drop col = toksText ts e → ids.Nodup → (∀ id ∈ ids, CmdsOk (trackOf id s).strip (cmdsOf ts)) →
    ∃ s', parseMmlLoop col i ids s = .ok () s' ∧ LoopKeeps s s' ∧
      (∀ id ∈ ids, (trackOf id s').strip = runCmds (trackOf id s).strip (cmdsOf ts)) ∧
      (∀ b, b ∉ ids → s'.song.tracks.lookup b = s.song.tracks.lookup b) := by
  intro ids
  induction ids with
  | nil => intro i s _ _ _ _ _; exact ⟨s, rfl, LoopKeeps.refl s, fun id h => by simp at h, fun _ _ => rfl⟩
  | cons id rest ih =>
    intro i s hbytes hcol hdrop hnd hcmds
    obtain ⟨s1, hs1⟩ : ∃ s1 : MmlState, s1 = { setLb s (s.inp.lb.seek col) with trackId := id, trackOffset := i % 65536, song := (setLb s (s.inp.lb.seek col)).song.makeTrack id, conditionalBlock := false } := ⟨_, rfl⟩
    have hsane1 : Sane s1 := by rw [hs1]; exact ⟨hbytes, hcol⟩
    have hsuf1 : suffix s1 = toksText ts e := by rw [hs1]; exact hdrop
    have hmk := makeTrack_lookup s.song id
    have hgt1 : getTrack s1 = trackOf id s := by
      rw [hs1]; unfold getTrack trackOf
      show (List.lookup id (s.song.makeTrack id).tracks).getD (Track.new (s.song.makeTrack id).ppqn) = _
      rw [hmk.1, hmk.2]; rfl
    have hfuel : (toksText ts e).length + 1 ≤ trackFuel s1 := by
      have h1 := suffix_length s1
      rw [hsuf1] at h1
      unfold trackFuel
      have := hsane1.inl
      omega
    obtain ⟨s2, hp, hmv, hres⟩ := parse_toks ts.length ts (Nat.le_refl _) e (trackFuel s1) s1 hsane1 he (by rw [hs1]) hsuf1 hok
      (by rw [hgt1]; exact hcmds id (by simp)) hfuel
    have hctl := hmv.ctl
    have hpt : parseMmlTrack s1 = .ok () s2 := by
      unfold parseMmlTrack; rw [bind_ok (getS_run s1)]; exact hp
    have hcond : s2.conditionalBlock = false := by rw [hctl.cond, hs1]
    have hid1 : s1.trackId = id := by rw [hs1]
    have hlk12 : ∀ b, b ≠ id → s2.song.tracks.lookup b = s.song.tracks.lookup b := by
      intro b hb
      rw [hctl.others b (by rw [hid1]; exact hb), hs1]
      exact lookup_makeTrack_ne b id s.song hb
    have hppqn2 : s2.song.ppqn = s.song.ppqn := by rw [hctl.ppqn, hs1]; exact hmk.2
    have hkeep2 : LoopKeeps s s2 := ⟨hctl.trackList.trans (by subst hs1; rfl), hctl.lastCmd.trans (by subst hs1; rfl), hppqn2,
      hctl.line.trans (by subst hs1; rfl), hctl.buf.trans (by subst hs1; rfl)⟩
    have hnd' := List.nodup_cons.mp hnd
    obtain ⟨s', hloop, hkeep, hall, hfr⟩ := ih (i + 1) s2 (by rw [hkeep2.buf]; exact hbytes) (by rw [hkeep2.buf]; exact hcol)
      (by rw [hkeep2.buf]; exact hdrop) hnd'.2
      (fun id' hid' => by
        have hne : id' ≠ id := fun e => hnd'.1 (e ▸ hid')
        rw [trackOf_congr id' s s2 (hlk12 id' hne) hppqn2]
        exact hcmds id' (by simp [hid']))
    refine ⟨s', ?_, hkeep2.trans hkeep, ?_, ?_⟩
    · rw [parseMmlLoop_cons, ← hs1, hpt]
      simp only [hcond, Bool.false_eq_true, if_false]
      exact hloop
    · intro x hx
      simp at hx
      rcases hx with rfl | hx
      · rw [trackOf_congr x s2 s' (hfr x hnd'.1) hkeep.ppqn]
        have : trackOf x s2 = getTrack s2 := by unfold trackOf getTrack; rw [hctl.trackId, hid1]
        rw [this, hres, hgt1]
      · have hne : x ≠ id := fun e => hnd'.1 (e ▸ hx)
        rw [hall x hx, trackOf_congr x s s2 (hlk12 x hne) hppqn2]
    · intro b hb
      simp at hb
      rw [hfr b hb.2, hlk12 b hb.1]


theorem countBlanks_shape (bl rest : List Nat) (hbl : ∀ b ∈ bl, b = 32 ∨ b = 9)
    (hr : rest = [] ∨ ∃ c r, rest = c :: r ∧ Stop c) : LineBuffer.countBlanks (bl ++ rest) = bl.length := by
  have hcb0 : LineBuffer.countBlanks rest = 0 := by
    rcases hr with rfl | ⟨c, r, rfl, hc⟩
    · rfl
    · simp [LineBuffer.countBlanks, not_blank_of_range c (stop_props c hc).1]
  rw [countBlanks_append bl rest (fun b hb => blank_isBlank b (hbl b hb)), hcb0]; rfl

/-- behind the header (or at the start of a continuation line) one blank is required; then the
blanks are skipped and, unless the line ends there, `parse_mml` runs from the first other byte -/
theorem lineTail_toks (s : MmlState) (hs : Sane s) (b : Nat) (hb : b = 32 ∨ b = 9) (ts : List Tok) (e : List Nat)
    (hok : ToksOk ts e) (hcov : ∀ c ∈ cmdsOf ts, LCovered c) (he : EndOk e)
    (hsuf : suffix s = b :: toksText ts e) (hl : s.lastCmd = .parseMml) :
    lineTail s =
      if toksText (ts.drop (leadBlanks ts)) e = [] then .ok () (adv s (1 + leadBlanks ts))
      else parseMmlLoop (s.inp.lb.column + (1 + leadBlanks ts)) 0 s.trackList (adv s (1 + leadBlanks ts)) := by
  obtain ⟨bl, rest, h1, h2, h3, h4⟩ := toks_shape ts e hok hcov (stopEnd_of_endOk he)
  have hrest : toksText (ts.drop (leadBlanks ts)) e = rest := by
    rw [← (toks_drop_lead ts e (leadBlanks ts) (Nat.le_refl _)).1, h1, ← h2]; simp
  have hs1 : Sane (adv s 1) := sane_adv s hs 1 (by rw [hsuf]; simp)
  have hsuf1 : suffix (adv s 1) = bl ++ rest := by rw [suffix_adv, hsuf, ← h1]; rfl
  have hs2 : Sane (adv (adv s 1) bl.length) := sane_adv _ hs1 _ (by rw [hsuf1]; simp)
  have hsuf2 : suffix (adv (adv s 1) bl.length) = rest := suffix_adv_append _ _ _ hsuf1
  unfold lineTail
  rw [bind_ok (getC_cons s b _ hsuf)]
  simp only [blank_isBlank b hb, if_true]
  rw [bind_apply, getTokenC_eq, hsuf1, countBlanks_shape bl rest h3 h4, hrest, ← h2]
  rcases h4 with rfl | ⟨c, r, rfl, hc⟩
  · rw [getC_nil _ hsuf2]
    simp only []
    rw [bind_ok (ungetC_zero _)]
    simp only [adv_adv]
    rfl
  · have hrg := (stop_props c hc).1
    rw [getC_cons _ c r hsuf2]
    simp only []
    rw [bind_ok (ungetC_same _ hs2.bytes c r hsuf2), schar_small c hrg.2]
    have hc0 : ((c : Int) == 0) = false := by
      have : ¬ ((c : Int) = 0) := by omega
      simpa using this
    simp only [hc0, Bool.false_eq_true, if_false, reduceCtorEq]
    unfold runLastCmd
    rw [bind_ok (getS_run _)]
    simp only [adv_adv]
    have hl2 : (adv s (1 + bl.length)).lastCmd = .parseMml := hl
    simp only [hl2]
    rfl


structure LineRes (ids : List Nat) (cmds : List Cmd) (s s' : MmlState) : Prop where
  tracks : ∀ id ∈ ids, (trackOf id s').strip = runCmds (trackOf id s).strip cmds
  others : ∀ b, b ∉ ids → s'.song.tracks.lookup b = s.song.tracks.lookup b
  ppqn : s'.song.ppqn = s.song.ppqn

theorem LineRes.trans {ids : List Nat} {c1 c2 : List Cmd} {s1 s2 s3 : MmlState}
    (h1 : LineRes ids c1 s1 s2) (h2 : LineRes ids c2 s2 s3) : LineRes ids (c1 ++ c2) s1 s3 :=
  ⟨fun id hid => by rw [h2.tracks id hid, h1.tracks id hid, runCmds_append],
   fun b hb => (h2.others b hb).trans (h1.others b hb), h2.ppqn.trans h1.ppqn⟩

/-- the state a continuation line needs: the remembered track list and command -/

theorem toksText_nil_cmds (ts : List Tok) (e : List Nat) (h : toksText ts e = []) (hcov : ∀ c ∈ cmdsOf ts, LCovered c) :
    cmdsOf ts = [] := by
  cases ts with
  | nil => rfl
  | cons t ts =>
    cases t with
    | blank b => simp [toksText, Tok.bytes] at h
    | bar => simp [toksText, Tok.bytes] at h
    | cmd c =>
      obtain ⟨ch, r, hcr, _⟩ := lcovered_head c (hcov c (by simp [cmdsOf]))
      simp [toksText, Tok.bytes, hcr] at h

/-- from the blank behind the header (or at the start of a continuation line) to the end of the line -/
theorem lineTail_run (ids : List Nat) (s : MmlState) (hs : Sane s) (b : Nat) (hb : b = 32 ∨ b = 9) (ts : List Tok) (e : List Nat)
    (hok : ToksOk ts e) (he : EndOk e) (hsuf : suffix s = b :: toksText ts e) (hready : Ready ids s) (hnd : ids.Nodup)
    (hcmds : ∀ id ∈ ids, CmdsOk (trackOf id s).strip (cmdsOf ts)) (hne : ids ≠ []) :
    ∃ s', lineTail s = .ok () s' ∧ LineRes ids (cmdsOf ts) s s' ∧ Ready ids s' := by
  obtain ⟨id0, hid0⟩ : ∃ id0, id0 ∈ ids := by
    cases ids with
    | nil => exact absurd rfl hne
    | cons a _ => exact ⟨a, by simp⟩
  have hcov : ∀ c ∈ cmdsOf ts, LCovered c := cmdsOk_covered _ _ (hcmds id0 hid0)
  obtain ⟨hdrop, hcd⟩ := toks_drop_lead ts e (leadBlanks ts) (Nat.le_refl _)
  rw [lineTail_toks s hs b hb ts e hok hcov he hsuf hready.2]
  by_cases hnil : toksText (ts.drop (leadBlanks ts)) e = []
  · simp only [hnil, if_true]
    have hc0 : cmdsOf ts = [] := by rw [← hcd]; exact toksText_nil_cmds _ e hnil (by rw [hcd]; exact hcov)
    refine ⟨_, rfl, ⟨fun id _ => by rw [hc0]; rfl, fun _ _ => rfl, rfl⟩, hready⟩
  · simp only [hnil, if_false]
    have hle := leadBlanks_le ts e
    have hs4 : Sane (adv s (1 + leadBlanks ts)) := sane_adv s hs _ (by rw [hsuf]; simp; omega)
    have hsuf4 : suffix (adv s (1 + leadBlanks ts)) = toksText (ts.drop (leadBlanks ts)) e := by
      rw [suffix_adv, hsuf, ← hdrop, Nat.add_comm]; rfl
    obtain ⟨s', hp, hkeep, hall, hfr⟩ := parseMmlLoop_toks (ts.drop (leadBlanks ts)) e (s.inp.lb.column + (1 + leadBlanks ts)) he
      (toksOk_drop ts e hok _) s.trackList 0 (adv s (1 + leadBlanks ts)) hs4.bytes hs4.inl hsuf4
      (by rw [hready.1]; exact hnd) (by rw [hready.1, hcd]; exact hcmds)
    rw [hready.1, hcd] at hall
    rw [hready.1] at hfr
    exact ⟨s', hp, ⟨hall, hfr, hkeep.ppqn⟩, ⟨hkeep.trackList.trans hready.1, hkeep.lastCmd.trans hready.2⟩⟩



/-- a well-formed line addressed to the tracks `ids` -/
def LineOk (ids : List Nat) : LLine → Prop
  | .hdr as b ts e => as ≠ [] ∧ HeaderOk as ∧ as.map Addr.id = ids ∧ (b = 32 ∨ b = 9) ∧ ToksOk ts e ∧ EndOk e ∧
      Bytes (headerBytes as ++ b :: toksText ts e)
  | .cont b ts e => (b = 32 ∨ b = 9) ∧ ToksOk ts e ∧ EndOk e ∧ Bytes (b :: toksText ts e)
  | .empty => True
  | .comment _ => True


theorem readLine_hdr (ids : List Nat) (as : List Addr) (b : Nat) (ts : List Tok) (e : List Nat) (n : Nat) (s : MmlState)
    (hok : LineOk ids (.hdr as b ts e)) (hnd : ids.Nodup) (hcmds : ∀ id ∈ ids, CmdsOk (trackOf id s).strip (cmdsOf ts)) :
    ∃ s', readLine (LLine.hdr as b ts e).text n s = .ok () s' ∧ LineRes ids (cmdsOf ts) s s' ∧ Ready ids s' := by
  obtain ⟨hne, hhdr, hids, hb, htoks, he, hbytes⟩ := hok
  obtain ⟨s0, hs0⟩ : ∃ s0 : MmlState, s0 = { s with inp := { lb := { buf := headerBytes as ++ b :: toksText ts e, column := 0 }, line := n } } := ⟨_, rfl⟩
  have hsane0 : Sane s0 := by rw [hs0]; exact ⟨hbytes, Nat.zero_le _⟩
  cases as with
  | nil => exact absurd rfl hne
  | cons a as' =>
    have hsuf0 : suffix s0 = addrBytes a ++ (headerBytes as' ++ b :: toksText ts e) := by
      rw [hs0, headerBytes_cons]; simp [suffix]
    have hget := getTrackId_addr s0 hsane0 a as' b _ hb hhdr hsuf0
    obtain ⟨s1, hs1⟩ : ∃ s1, s1 = adv s0 (addrBytes a).length := ⟨_, rfl⟩
    rw [← hs1] at hget
    have hsane1 : Sane s1 := by rw [hs1]; exact sane_adv s0 hsane0 _ (by rw [hsuf0]; simp)
    have hsuf1 : suffix s1 = headerBytes as' ++ b :: toksText ts e := by rw [hs1]; exact suffix_adv_append s0 _ _ hsuf0
    have hfuel : as'.length + 1 ≤ s1.inp.lb.buf.length + 2 := by
      have h1 := suffix_length s1
      rw [hsuf1] at h1
      have := headerBytes_length as'
      simp at h1; omega
    have hloop := trackListLoop_header as' (s1.inp.lb.buf.length + 2) (addrInt a) [] s1 hsane1 b _ hb hhdr.2.2 hsuf1 hfuel
    obtain ⟨s2, hs2⟩ : ∃ s2, s2 = adv s1 (headerBytes as').length := ⟨_, rfl⟩
    rw [← hs2] at hloop
    have hl : [] ++ [wrapU16 (addrInt a)] ++ as'.map Addr.id = ids := by
      rw [wrapU16_addrInt a hhdr.1, ← hids]; rfl
    rw [hl] at hloop
    obtain ⟨s3, hs3⟩ : ∃ s3 : MmlState, s3 = { s2 with trackList := ids, lastCmd := .parseMml } := ⟨_, rfl⟩
    have hpl : parseLine s0 = lineTail s3 := by rw [hs3]; exact parseLine_hdr s0 _ s1 ids s2 hget (addrInt_ne a) hloop
    have hsane2 : Sane s2 := by rw [hs2]; exact sane_adv s1 hsane1 _ (by rw [hsuf1]; simp)
    have hsuf2 : suffix s2 = b :: toksText ts e := by rw [hs2]; exact suffix_adv_append s1 _ _ hsuf1
    have hsane3 : Sane s3 := by rw [hs3]; exact ⟨hsane2.bytes, hsane2.inl⟩
    have hsuf3 : suffix s3 = b :: toksText ts e := by rw [hs3]; exact hsuf2
    have htr : ∀ id, trackOf id s3 = trackOf id s := by intro id; subst hs3 hs2 hs1 hs0; rfl
    have hne' : ids ≠ [] := by rw [← hids]; simp
    obtain ⟨s', hrun, hres, hready⟩ := lineTail_run ids s3 hsane3 b hb ts e htoks he hsuf3 (by rw [hs3]; exact ⟨rfl, rfl⟩) hnd
      (fun id hid => by rw [htr id]; exact hcmds id hid) hne'
    refine ⟨s', ?_, ⟨fun id hid => by rw [hres.tracks id hid, htr id], fun b' hb' => ?_, ?_⟩, hready⟩
    · show readLine (headerBytes (a :: as') ++ b :: toksText ts e) n s = _
      rw [readLine_start, ← hs0, hpl]; exact hrun
    · rw [hres.others b' hb']; subst hs3 hs2 hs1 hs0; rfl
    · rw [hres.ppqn]; subst hs3 hs2 hs1 hs0; rfl

theorem readLine_cont (ids : List Nat) (b : Nat) (ts : List Tok) (e : List Nat) (n : Nat) (s : MmlState)
    (hok : LineOk ids (.cont b ts e)) (hready : Ready ids s) (hnd : ids.Nodup) (hne : ids ≠ [])
    (hcmds : ∀ id ∈ ids, CmdsOk (trackOf id s).strip (cmdsOf ts)) :
    ∃ s', readLine (LLine.cont b ts e).text n s = .ok () s' ∧ LineRes ids (cmdsOf ts) s s' ∧ Ready ids s' := by
  obtain ⟨hb, htoks, he, hbytes⟩ := hok
  obtain ⟨s0, hs0⟩ : ∃ s0 : MmlState, s0 = { s with inp := { lb := { buf := b :: toksText ts e, column := 0 }, line := n } } := ⟨_, rfl⟩
  have hsane0 : Sane s0 := by rw [hs0]; exact ⟨hbytes, Nat.zero_le _⟩
  have hsuf0 : suffix s0 = b :: toksText ts e := by rw [hs0]; rfl
  have htr : ∀ id, trackOf id s0 = trackOf id s := by intro id; subst hs0; rfl
  obtain ⟨s', hrun, hres, hready'⟩ := lineTail_run ids s0 hsane0 b hb ts e htoks he hsuf0 (by rw [hs0]; exact hready) hnd
    (fun id hid => by rw [htr id]; exact hcmds id hid) hne
  refine ⟨s', ?_, ⟨fun id hid => by rw [hres.tracks id hid, htr id], fun b' hb' => ?_, ?_⟩, hready'⟩
  · show readLine (b :: toksText ts e) n s = _
    rw [readLine_start, ← hs0, parseLine_cont s0 hsane0 b _ hsuf0 hb]; exact hrun
  · rw [hres.others b' hb']; subst hs0; rfl
  · rw [hres.ppqn]; subst hs0; rfl



/-- every line is well formed for `ids`, and a continuation line comes only when the track list
and the command are remembered (`r`: they are at the start) -/
def LinesOk (ids : List Nat) : Bool → List LLine → Prop
  | _, [] => True
  | r, l :: ls => LineOk ids l ∧ (l.isCont = true → r = true) ∧ LinesOk ids (r || l.isHdr) ls

/-- a whole layout: every listed track receives the builder calls of the layout's commands, in
order; no other track changes -/
theorem readLines_layout (ids : List Nat) (hnd : ids.Nodup) (hne : ids ≠ []) : ∀ (ls : List LLine) (n : Nat) (s : MmlState) (r : Bool),
    LinesOk ids r ls → (r = true → Ready ids s) → (∀ id ∈ ids, CmdsOk (trackOf id s).strip (layoutCmds ls)) →
    ∃ s', readLines n (ls.map LLine.text) s = .ok () s' ∧ LineRes ids (layoutCmds ls) s s' := by
  intro ls
  induction ls with
  | nil => intro n s r _ _ _; exact ⟨s, rfl, ⟨fun _ _ => rfl, fun _ _ => rfl, rfl⟩⟩
  | cons l ls ih =>
    intro n s r hok hready hcmds
    obtain ⟨hline, hcont, hrest⟩ := hok
    have hsplit : ∀ id ∈ ids, CmdsOk (trackOf id s).strip l.cmds ∧ CmdsOk (runCmds (trackOf id s).strip l.cmds) (layoutCmds ls) := by
      intro id hid
      have := hcmds id hid
      simp only [layoutCmds, List.flatMap_cons] at this
      exact (cmdsOk_append _ _ _).mp this
    -- the line itself
    have hstep : ∃ s1, readLine l.text n s = .ok () s1 ∧ LineRes ids l.cmds s s1 ∧ ((r || l.isHdr) = true → Ready ids s1) := by
      cases l with
      | hdr as b ts e =>
        obtain ⟨s1, h1, h2, h3⟩ := readLine_hdr ids as b ts e n s hline hnd (fun id hid => (hsplit id hid).1)
        exact ⟨s1, h1, h2, fun _ => h3⟩
      | cont b ts e =>
        have hr : r = true := hcont rfl
        obtain ⟨s1, h1, h2, h3⟩ := readLine_cont ids b ts e n s hline (hready hr) hnd hne (fun id hid => (hsplit id hid).1)
        exact ⟨s1, h1, h2, fun _ => h3⟩
      | empty =>
        refine ⟨_, readLine_empty n s, ⟨fun _ _ => rfl, fun _ _ => rfl, rfl⟩, fun h => ?_⟩
        have hr : r = true := by simpa [LLine.isHdr] using h
        exact hready hr
      | comment c =>
        refine ⟨_, readLine_comment c n s, ⟨fun _ _ => rfl, fun _ _ => rfl, rfl⟩, fun h => ?_⟩
        have hr : r = true := by simpa [LLine.isHdr] using h
        exact hready hr
    obtain ⟨s1, h1, hres1, hready1⟩ := hstep
    obtain ⟨s', h2, hres2⟩ := ih (n + 1) s1 (r || l.isHdr) hrest hready1
      (fun id hid => by rw [hres1.tracks id hid]; exact (hsplit id hid).2)
    refine ⟨s', ?_, ?_⟩
    · show readLines n (l.text :: ls.map LLine.text) s = _
      rw [readLines_cons n _ _ s s1 h1]; exact h2
    · have := hres1.trans hres2
      simpa [layoutCmds] using this

end Ctrmml.Mml.L2
