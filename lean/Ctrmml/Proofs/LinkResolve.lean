/-
  Helper lemmas for C10: from the layout theorems of get_seq_data and the history invariant to the
  spec's executable per-song resolver `LinkSpec.songOk` (table entry, body outside the slots, every
  slot: pointer word, flag bit, data entry / PCM header, PCM region).  No property statements here.
-/
import Ctrmml.Proofs.LinkRead
import Ctrmml.Proofs.LinkStored
namespace Ctrmml.Linker
open Ctrmml Ctrmml.LinkSpec

/-! ### a linked data bank has fewer than 2^15 entries -/

def nonEmptyCount (es : List Bytes) : Nat := (es.filter fun e => !e.isEmpty).length

theorem nextOff_even (off : Nat) (e : Bytes) : nextOff off e % 2 = 0 := by
  unfold nextOff; split <;> omega

theorem layGen_grows (es : List Bytes) (off : Nat) (he : off % 2 = 0) :
    off + 2 * nonEmptyCount es ≤ (layGen es off).2.2 := by
  induction es generalizing off with
  | nil => simp [layGen, nonEmptyCount]
  | cons e es ih =>
    simp only [layGen]
    have := ih (nextOff off e) (nextOff_even off e)
    cases e with
    | nil =>
      have h1 : nonEmptyCount ([] :: es) = nonEmptyCount es := by simp [nonEmptyCount]
      have h2 : nextOff off [] = off := by unfold nextOff; simp; omega
      rw [h1, h2]; rw [h2] at this; exact this
    | cons x xs =>
      have h1 : nonEmptyCount ((x :: xs) :: es) = nonEmptyCount es + 1 := by simp [nonEmptyCount]
      have h2 : off + 2 ≤ nextOff off (x :: xs) := by unfold nextOff; simp only [List.length_cons]; split <;> omega
      omega

theorem nodup_length_le (es : List Bytes) (h : es.Nodup) :
    es.length ≤ nonEmptyCount es + (if [] ∈ es then 1 else 0) := by
  induction es with
  | nil => simp [nonEmptyCount]
  | cons e es ih =>
    have hn := (List.nodup_cons.mp h)
    have := ih hn.2
    cases e with
    | nil =>
      have h0 : ([] : Bytes) ∉ es := hn.1
      have h1 : nonEmptyCount ([] :: es) = nonEmptyCount es := by simp [nonEmptyCount]
      simp only [h0, if_false] at this
      simp only [List.length_cons, h1, List.mem_cons, true_or, if_true]
      omega
    | cons x xs =>
      have h1 : nonEmptyCount ((x :: xs) :: es) = nonEmptyCount es + 1 := by simp [nonEmptyCount]
      have h2 : (([] : Bytes) ∈ (x :: xs) :: es) ↔ ([] : Bytes) ∈ es := by simp
      simp only [List.length_cons, h1, h2]
      omega

theorem laid_bank_small {l : Linker} {bank : Bytes} (L : Laid l bank) (hnd : l.dataBank.Nodup) : l.dataBank.length < 32768 := by
  obtain ⟨offs, soffs, ds, off2, wt, h1, h2, h3, h4, h5, h6⟩ := L.ex
  by_cases hne : l.dataBank = []
  · rw [hne]; simp
  · have hlim := h5 hne
    have hg := layGen_grows l.dataBank (4 + 4 * l.songs.length) (by omega)
    have hl := nodup_length_le l.dataBank hnd
    have : (if ([] : Bytes) ∈ l.dataBank then 1 else 0) ≤ 1 := by split <;> omega
    omega

/-! ### reading words out of the bank -/

theorem nat32be_of_rd (bank : Bytes) (pos v : Nat) (hv : v < 4294967296) (h : rd bank pos 4 = be32 v) : nat32be bank pos = some v := by
  have h' : readAt bank pos 4 = be32 v := h
  unfold nat32be
  rw [h']
  simp only [be32, byteOf_toNat]
  congr 1; omega

theorem rd_prefix (bank : Bytes) (pos n k : Nat) (hk : k ≤ n) : (rd bank pos n).take k = rd bank pos k := by
  unfold rd; rw [List.take_take, Nat.min_eq_left hk]

theorem rd_shift (bank : Bytes) (pos n a k : Nat) (hk : a + k ≤ n) : ((rd bank pos n).drop a).take k = rd bank (pos + a) k := by
  unfold rd
  rw [List.drop_take, List.take_take, List.drop_drop, Nat.min_eq_left (by omega)]

/-- an 8-byte entry found in the bank: its two words read from the bank -/
theorem nat32be_entry (bank e : Bytes) (pos : Nat) (he : e.length = 8) (h : rd bank pos 8 = e) :
    nat32be bank pos = nat32be e 0 ∧ nat32be bank (pos + 4) = nat32be e 4 ∧ readAt bank pos 8 = e := by
  have h1 : readAt bank pos 4 = readAt e 0 4 := by
    have := rd_prefix bank pos 8 4 (by omega)
    rw [h] at this
    simp only [readAt, List.drop_zero]; exact this.symm
  have h2 : readAt bank (pos + 4) 4 = readAt e 4 4 := by
    have := rd_shift bank pos 8 4 4 (by omega)
    rw [h] at this
    simp only [readAt]; exact this.symm
  exact ⟨by unfold nat32be; rw [h1], by unfold nat32be; rw [h2], h⟩

/-- the two bytes the relocation wrote, read back as the 16-bit pointer -/
theorem nat16_word (d : Bytes) (a w : Nat) (hw : w < 65536)
    (h1 : d[a]? = some (byteOf (w / 256))) (h2 : d[a + 1]? = some (byteOf w)) : nat16 d a = some w := by
  have hla : a + 1 < d.length := by
    rcases Nat.lt_or_ge (a + 1) d.length with h | h
    · exact h
    · rw [List.getElem?_eq_none h] at h2; cases h2
  have e : readAt d a 2 = [byteOf (w / 256), byteOf w] := by
    unfold readAt
    apply List.ext_getElem?
    intro i
    rcases i with _ | _ | i
    · rw [List.getElem?_take_of_lt (by omega), List.getElem?_drop]; simpa using h1
    · rw [List.getElem?_take_of_lt (by omega), List.getElem?_drop]; simpa using h2
    · rw [List.getElem?_eq_none (by simp only [List.length_take, List.length_drop]; omega)]
      simp
  unfold nat16
  rw [e]
  simp only [byteOf_toNat]
  congr 1; omega

/-! ### one slot -/

theorem or_bit15 (idx : Nat) (h : idx < 32768) : idx ||| 32768 = idx + 32768 := by
  have h := Nat.two_pow_add_eq_or_of_lt (i := 15) (b := idx) (by omega) 1
  simp only [Nat.reducePow, Nat.mul_one] at h
  rw [Nat.or_comm, ← h]
  omega

/-- patch entry `q` serves slot `sl` of the spec reader through a data-bank index below 2^15 -/
def SlotServed (l : Linker) (q : Nat × Nat) (sl : Slot) : Prop :=
  q.1 = sl.addr ∧ ∃ idx e, idx < 32768 ∧ q.2 = idx + (if sl.flag then 32768 else 0) ∧ l.dataBank[idx]? = some e ∧
    match sl.want with
    | .data b => e = b
    | .pcm rate bytes => sl.flag = false ∧ PcmHeaderServes e (getPcmData l) l.wave.bankSize rate bytes

theorem carried_bytes (rd : SongRead) : ∀ c ∈ rd.carried,
    match c with
    | .pcm _ hdr b => b = readAt rd.pcmd (hdr.position + hdr.start) hdr.size
    | .data .. => True := by
  intro c hc
  simp only [SongRead.carried, List.mem_filterMap] at hc
  obtain ⟨ch, _, hch⟩ := hc
  unfold carriedOf at hch
  split at hch
  · split at hch
    · cases hch
    · simp only [Option.some.injEq] at hch; subst hch; trivial
  · split at hch
    · split at hch
      · simp only [Option.some.injEq] at hch; subst hch; rfl
      · cases hch
    · cases hch

theorem served_of_serves (l : Linker) (hlen : l.dataBank.length < 32768) (rd : SongRead) (q : Nat × Nat) (c : Carried)
    (hc : c ∈ rd.carried) (h : Serves l q c) : SlotServed l q (toSlot rd.pcmd c) := by
  have hb := carried_bytes rd c hc
  cases c with
  | data addr flag bytes =>
    obtain ⟨h1, idx, h2, h3⟩ := h
    have hidx : idx < l.dataBank.length := by
      rcases Nat.lt_or_ge idx l.dataBank.length with h | h
      · exact h
      · rw [List.getElem?_eq_none h] at h3; cases h3
    have hm : idx % 65536 = idx := Nat.mod_eq_of_lt (by omega)
    refine ⟨h1, idx, bytes, by omega, ?_, h3, rfl⟩
    simp only [toSlot]
    rw [h2, hm]
    cases flag with
    | true => simp only [if_true]; exact or_bit15 idx (by omega)
    | false => simp
  | pcm addr hdr bytes =>
    obtain ⟨h1, hl, idx, e, h2, h3, h4⟩ := h
    have hidx : idx < l.dataBank.length := by
      rcases Nat.lt_or_ge idx l.dataBank.length with h | h
      · exact h
      · rw [List.getElem?_eq_none h] at h3; cases h3
    have hm : idx % 65536 = idx := Nat.mod_eq_of_lt (by omega)
    refine ⟨h1, idx, e, by omega, ?_, h3, rfl, ?_⟩
    · simp only [toSlot]; rw [h2, hm]; simp
    · show PcmHeaderServes e (getPcmData l) l.wave.bankSize hdr.rate (readAt rd.pcmd (hdr.position + hdr.start) hdr.size)
      rw [← hb]; exact h4

theorem slotOk_of_served (l : Linker) (bank d : Bytes) (q : Nat × Nat) (sl : Slot) (t : Nat) (e' : Bytes)
    (hs : SlotServed l q sl) (ht : t < 32768) (he : l.dataBank[q.2 % 32768]? = some e')
    (h1 : d[q.1]? = some (byteOf ((t ||| (q.2 / 32768 % 2 * 32768)) / 256)))
    (h2 : d[q.1 + 1]? = some (byteOf (t ||| (q.2 / 32768 % 2 * 32768))))
    (h3 : rd bank (8 + t) e'.length = e') :
    ∃ b, slotOk bank (getPcmData l) d sl = .ok (t, b) ∧ (∀ x, sl.want = .data x → b = x) ∧
      (∀ r x, sl.want = .pcm r x → b = e') ∧ b = e' := by
  obtain ⟨ha, idx, e, hidx, hq, hbank, hwant⟩ := hs
  have hmod : q.2 % 32768 = idx := by rw [hq]; split <;> omega
  have hbit : q.2 / 32768 % 2 = if sl.flag then 1 else 0 := by rw [hq]; split <;> omega
  rw [hmod, hbank] at he
  have hee : e = e' := Option.some.inj he
  subst hee
  have hw : t ||| (q.2 / 32768 % 2 * 32768) = t + (if sl.flag then 32768 else 0) := by
    rw [hbit]
    cases sl.flag with
    | true => simp only [if_true, Nat.one_mul]; exact or_bit15 t ht
    | false => simp
  rw [hw] at h1 h2
  rw [ha] at h1 h2
  have h16 := nat16_word d sl.addr _ (by split <;> omega) h1 h2
  have hflag : (t + (if sl.flag then 32768 else 0) ≥ 32768) = (sl.flag = true) := by
    apply propext
    cases sl.flag with
    | true => simp
    | false => simp; omega
  have htm : (t + (if sl.flag then 32768 else 0)) % 32768 = t := by split <;> omega
  unfold slotOk
  rw [h16]
  simp only [hflag, ne_eq, not_true_eq_false, if_false, htm, ptrBase, Tables.link_ptrBase]
  cases hwt : sl.want with
  | data b =>
    rw [hwt] at hwant
    simp only at hwant
    subst hwant
    simp only
    have : readAt bank (8 + t) e.length = e := h3
    rw [this]
    simp only [if_true]
    exact ⟨e, rfl, fun x hx => (by cases hx; rfl), fun r x hx => (by cases hx), rfl⟩
  | pcm rate bytes =>
    rw [hwt] at hwant
    simp only at hwant
    obtain ⟨_, p, hl8, hf0, hp, hf4, hin, hread, _⟩ := hwant
    obtain ⟨n0, n4, n8⟩ := nat32be_entry bank e (8 + t) hl8 (by rw [hl8] at h3; exact h3)
    simp only
    rw [n0, n4, hf0, hf4]
    have hpo := pitchCode_range rate
    rw [← pitchCode_eq_pitchOf] at *
    have hd : (p + pitchCode rate * 16777216) / 16777216 = pitchCode rate := by omega
    have hmm : (p + pitchCode rate * 16777216) % 16777216 = p := by omega
    simp only [hd, hmm, ne_eq, not_true_eq_false, if_false, hread, n8]
    exact ⟨e, rfl, fun x hx => (by cases hx), fun _ _ _ => rfl, rfl⟩

/-! ### one song -/

theorem All2.mem_left {α β : Type} {R : α → β → Prop} {as : List α} {bs : List β} (h : All2 R as bs) :
    ∀ a ∈ as, ∃ b ∈ bs, R a b := by
  induction h with
  | nil => intro a ha; cases ha
  | cons hr _ ih =>
    intro a ha
    rcases List.mem_cons.mp ha with rfl | ha
    · exact ⟨_, List.mem_cons_self .., hr⟩
    · obtain ⟨b, hb, hrb⟩ := ih a ha
      exact ⟨b, List.mem_cons_of_mem _ hb, hrb⟩

theorem All2.mem_right {α β : Type} {R : α → β → Prop} {as : List α} {bs : List β} (h : All2 R as bs) :
    ∀ b ∈ bs, ∃ a ∈ as, R a b := by
  induction h with
  | nil => intro b hb; cases hb
  | cons hr _ ih =>
    intro b hb
    rcases List.mem_cons.mp hb with rfl | hb
    · exact ⟨_, List.mem_cons_self .., hr⟩
    · obtain ⟨a, ha, hra⟩ := ih b hb
      exact ⟨a, List.mem_cons_of_mem _ ha, hra⟩

theorem patchWf_of_slots (n : Nat) (P : List (Nat × Nat)) (slots : List Slot)
    (h : All2 (fun q sl => q.1 = sl.addr) P slots) (hb : ∀ sl ∈ slots, sl.addr + 2 ≤ n) (hd : disjointSlots slots = true) :
    PatchWf n P := by
  induction h with
  | nil => trivial
  | @cons q sl P slots hq hrest ih =>
    obtain ⟨a, v⟩ := q
    simp only [disjointSlots, Bool.and_eq_true, List.all_eq_true, Bool.or_eq_true, decide_eq_true_eq] at hd
    refine ⟨?_, ?_, ih (fun s hs => hb s (List.mem_cons_of_mem _ hs)) hd.2⟩
    · have := hb sl (List.mem_cons_self ..)
      simp only at hq; omega
    · intro q' hq'
      obtain ⟨sl', hsl', he⟩ := hrest.mem_left q' hq'
      have := hd.1 sl' hsl'
      simp only at hq
      omega

theorem mapM'_ok {α β : Type} (f : α → Except String β) (Q : β → Prop) (xs : List α) (h : ∀ x ∈ xs, ∃ r, f x = .ok r ∧ Q r) :
    ∃ rs, mapM' f xs = .ok rs ∧ ∀ r ∈ rs, Q r := by
  induction xs with
  | nil => exact ⟨[], rfl, by simp⟩
  | cons x xs ih =>
    obtain ⟨r, hr, hq⟩ := h x (List.mem_cons_self ..)
    obtain ⟨rs, hrs, hqs⟩ := ih (fun y hy => h y (List.mem_cons_of_mem _ hy))
    refine ⟨r :: rs, by simp only [mapM', hr, hrs], ?_⟩
    intro r' hr'
    rcases List.mem_cons.mp hr' with e | e
    · rw [e]; exact hq
    · exact hqs r' e

/-- song number `i + 1` of the linked bank passes the spec's per-song resolver -/
theorem songOk_of (l : Linker) (bank : Bytes) (h : getSeqData l = .ok bank) (hnd : l.dataBank.Nodup) (hbl : bank.length < 4294967296)
    (i : Nat) (sd : SeqData) (hs : l.songs[i]? = some sd) (s : SongIn) (hdata : sd.data = s.seq) (hseq0 : 0 < s.seq.length)
    (hA : All2 (SlotServed l) sd.patch s.slots) (hbounds : ∀ sl ∈ s.slots, 2 ≤ sl.addr ∧ sl.addr + 2 ≤ s.seq.length)
    (hdisj : disjointSlots s.slots = true) :
    ∃ o es, songOk bank (getPcmData l) i s = .ok (o, o + s.seq.length, es) ∧
      rd bank (12 + 4 * i) 4 = be32 o ∧ o + s.seq.length + 8 ≤ bank.length ∧
      (∀ e ∈ es, ∃ idx, entryOffset l idx = some e.1 ∧ l.dataBank[idx]? = some e.2) := by
  have hAddr : All2 (fun q sl => q.1 = sl.addr) sd.patch s.slots := hA.imp (fun _ _ h => h.1)
  have wf : PatchWf sd.data.length sd.patch :=
    patchWf_of_slots _ _ _ hAddr (fun sl hsl => by rw [hdata]; exact (hbounds sl hsl).2) hdisj
  have L := getSeqData_laid l bank h
  obtain ⟨o, d, offs, hoffs, hp, h1, h2, _, h4⟩ := laid_song L i sd hs
  obtain ⟨p1, p2, p3⟩ := patchSong_spec offs sd.patch sd.data d wf hp
  have hdl : d.length = s.seq.length := by rw [p1, hdata]
  have hrdlen : 8 + o + d.length ≤ bank.length := by
    have : (rd bank (8 + o) d.length).length = d.length := by rw [h4]
    simp only [rd, List.length_take, List.length_drop] at this
    omega
  have ho : nat32be bank (ptrBase + 4 * (i + 1)) = some o := by
    have e : ptrBase + 4 * (i + 1) = 12 + 4 * i := by simp only [ptrBase, Tables.link_ptrBase]; omega
    rw [e]
    exact nat32be_of_rd bank _ o (by omega) h1
  have hlinked : readAt bank (ptrBase + o) s.seq.length = d := by
    rw [← hdl]; simp only [ptrBase, Tables.link_ptrBase]; exact h4
  have hbody : bodySame s.slots s.seq d = true := by
    unfold bodySame
    simp only [Bool.and_eq_true, beq_iff_eq, List.all_eq_true, List.mem_range, Bool.or_eq_true]
    refine ⟨hdl.symm, ?_⟩
    intro p _
    by_cases hin : inSlot s.slots p = true
    · exact Or.inl hin
    · right
      have hnot : ∀ q ∈ sd.patch, p ≠ q.1 ∧ p ≠ q.1 + 1 := by
        intro q hq
        obtain ⟨sl, hsl, he⟩ := hAddr.mem_left q hq
        simp only [inSlot, List.any_eq_true, Bool.or_eq_true, decide_eq_true_eq, not_exists, not_and, not_or] at hin
        have := hin sl hsl
        rw [he]; exact this
      rw [← hdata, p2 p hnot]
  have hslots : ∀ sl ∈ s.slots, ∃ r, slotOk bank (getPcmData l) d sl = .ok r ∧
      ∃ idx, entryOffset l idx = some r.1 ∧ l.dataBank[idx]? = some r.2 := by
    intro sl hsl
    obtain ⟨q, hq, hserved⟩ := hA.mem_right sl hsl
    obtain ⟨t, ht, b1, b2⟩ := p3 q hq
    have hlen := (layGen_len l.dataBank (4 + 4 * l.songs.length)).2
    have hjl : q.2 % 32768 < l.dataBank.length := by
      rcases Nat.lt_or_ge (q.2 % 32768) l.dataBank.length with h | h
      · exact h
      · rw [hoffs, List.getElem?_eq_none (by omega)] at ht; cases ht
    obtain ⟨t', g1, g2, _, _, g5⟩ := laid_entry L (q.2 % 32768) _ (List.getElem?_eq_getElem hjl)
    rw [hoffs, g1] at ht
    have htt : t' = t := Option.some.inj ht
    subst htt
    obtain ⟨b, hb, _, _, hbe⟩ := slotOk_of_served l bank d q sl t' _ hserved g2 (List.getElem?_eq_getElem hjl) b1 b2 g5
    exact ⟨_, hb, q.2 % 32768, g1, by rw [hbe]; exact List.getElem?_eq_getElem hjl⟩
  obtain ⟨es, hes, hesq⟩ := mapM'_ok _ _ _ hslots
  unfold songOk
  rw [ho]
  simp only [hlinked]
  rw [if_neg (by omega)]
  simp only [hbody, Bool.not_true, Bool.false_eq_true, if_false, hes]
  exact ⟨o, es, rfl, h1, by omega, hesq⟩

theorem All2.map_right {α β γ : Type} {R : α → β → Prop} {S : α → γ → Prop} (f : β → γ) {as : List α} {bs : List β}
    (h : All2 R as bs) (g : ∀ a b, b ∈ bs → R a b → S a (f b)) : All2 S as (bs.map f) := by
  induction h with
  | nil => exact .nil
  | cons hr _ ih =>
    exact .cons (g _ _ (List.mem_cons_self ..) hr) (ih (fun a b hb => g a b (List.mem_cons_of_mem _ hb)))

end Ctrmml.Linker
