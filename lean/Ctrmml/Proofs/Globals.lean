/- Helper lemmas for C16 (no property statements): determinacy of every cell after `write_tag`,
   the table invariant of reachable globals. -/
import Ctrmml.Model.Globals
import Ctrmml.Proofs.Vgm
namespace Ctrmml.Globals
open Ctrmml Ctrmml.Vgm

/-- every cell determinate -/
def AllSome (m : List Cell) : Prop := ∃ bs : Bytes, m = bs.map some

theorem concretize_some (fill : Nat → UInt8) (bs : Bytes) : concretize fill (bs.map some) = bs := by
  unfold concretize
  apply List.ext_getElem
  · simp
  · intro i h1 h2
    simp

theorem cellsToBytes_some (bs : Bytes) : cellsToBytes (bs.map some) = .ok bs := by
  induction bs with
  | nil => rfl
  | cons b r ih => simp [cellsToBytes, ih, Except.map]

theorem steps_append (s : W) (a b : List Op) :
    steps s (a ++ b) = match steps s a with
      | .error e => .error e
      | .ok s' => steps s' b := by
  induction a generalizing s with
  | nil => rfl
  | cons o os ih =>
    simp only [List.cons_append, steps]
    cases step s o with
    | error e => rfl
    | ok s1 => exact ih s1

theorem put_allSome {s s' : W} {bs : Bytes} (h : AllSome s.mem) (hp : put s bs = .ok s') : AllSome s'.mem := by
  obtain ⟨b, hb⟩ := h
  unfold put at hp
  split at hp
  · cases hp; exact ⟨b ++ bs, by simp [hb]⟩
  · cases hp

theorem put_mem {s s' : W} {bs : Bytes} (hp : put s bs = .ok s') : s'.mem = s.mem ++ bs.map some := by
  unfold put at hp
  split at hp
  · cases hp; rfl
  · cases hp

theorem poke_allSome {s s' : W} {off : Nat} {bs : Bytes} (h : AllSome s.mem) (hp : poke s off bs = .ok s') : AllSome s'.mem := by
  obtain ⟨b, hb⟩ := h
  unfold poke at hp
  split at hp
  · rename_i hle
    cases hp
    refine ⟨b.take off ++ bs ++ b.drop (off + bs.length), ?_⟩
    show setCells s.mem off bs = _
    have hl : off + bs.length ≤ b.length := by
      have : s.pos = b.length := by unfold W.pos; rw [hb]; simp
      omega
    have := setCells_pre' b bs [] off hl
    simp only [List.append_nil] at this
    rw [hb, this]
  · cases hp

theorem addGd3All_mem (ts : List Bytes) {s s' : W} (h : addGd3All s ts = .ok s') : ∃ g : Bytes, s'.mem = s.mem ++ g.map some := by
  induction ts generalizing s with
  | nil => cases h; exact ⟨[], by simp⟩
  | cons t ts ih =>
    simp only [addGd3All] at h
    cases h1 : addGd3 s t with
    | error e => rw [h1] at h; cases h
    | ok s1 =>
      rw [h1] at h
      obtain ⟨g, hg⟩ := ih h
      unfold addGd3 at h1
      split at h1
      · cases h1
      · rename_i us _
        have := put_mem h1
        exact ⟨(unitsBytes (us.take gd3MaxUnits) ++ [0, 0]) ++ g, by rw [hg, this]; simp⟩

theorem skip_mem {s s' : W} {k : Nat} (h : skip s k = .ok s') : ∃ x : List Cell, x.length = k ∧ s'.mem = s.mem ++ x := by
  unfold skip at h
  split at h
  · cases h; exact ⟨_, by simp, rfl⟩
  · cases h

theorem setCells_mid (a : Bytes) (x g : List Cell) (bs : Bytes) (hx : x.length = bs.length) :
    setCells (a.map some ++ x ++ g) a.length bs = (a ++ bs).map some ++ g := by
  unfold setCells
  have h1 : (a.map some ++ x ++ g).take a.length = a.map some := by
    rw [List.append_assoc, List.take_append_of_le_length (by simp)]
    rw [List.take_of_length_le (by simp)]
  have h2 : (a.map some ++ x ++ g).drop (a.length + bs.length) = g := by
    have : a.length + bs.length = (a.map some ++ x).length := by simp [hx]
    rw [this, List.drop_left]
  rw [h1, h2]; simp

/-- `write_tag` leaves every cell determinate: the four skipped length cells are overwritten by
the final `poke32`, everything else is stored -/
theorem writeTag_allSome {s s' : W} (t : Tags) (h : AllSome s.mem) (hw : writeTag s t = .ok s') : AllSome s'.mem := by
  unfold writeTag at hw
  simp only [bind, Except.bind, poke32] at hw
  generalize hs0 : reserve s Tables.vgm_reserve_write_tag = s0 at hw
  have h0 : AllSome s0.mem := by rw [← hs0]; exact h
  cases h1 : poke s0 0x14 (le32 (s0.pos - 0x14)) with
  | error e => rw [h1] at hw; cases hw
  | ok s1 =>
    rw [h1] at hw
    simp only at hw
    have a1 := poke_allSome h0 h1
    cases h2 : put s1 gd3Magic with
    | error e => rw [h2] at hw; cases hw
    | ok s2 =>
      rw [h2] at hw
      simp only at hw
      obtain ⟨b2, hb2⟩ := put_allSome a1 h2
      cases h3 : skip s2 4 with
      | error e => rw [h3] at hw; cases hw
      | ok s3 =>
        rw [h3] at hw
        simp only at hw
        obtain ⟨x, hxl, hx⟩ := skip_mem h3
        cases h4 : addGd3All s3 t.toList with
        | error e => rw [h4] at hw; cases hw
        | ok s4 =>
          rw [h4] at hw
          simp only at hw
          obtain ⟨g, hg⟩ := addGd3All_mem _ h4
          unfold poke at hw
          split at hw
          · cases hw
            refine ⟨(b2 ++ le32 (s4.pos - s2.pos - 4)) ++ g, ?_⟩
            show setCells s4.mem s2.pos _ = _
            have hp2 : s2.pos = b2.length := by unfold W.pos; rw [hb2]; simp
            rw [hg, hx, hb2, hp2, setCells_mid b2 x (g.map some) _ (by simp [hxl])]
            simp
          · cases hw

theorem getCells_allSome {s : W} {cells : List Cell} (h : AllSome s.mem) (hg : getCells s = .ok cells) : AllSome cells := by
  unfold getCells at hg
  split at hg
  · unfold poke32 at hg
    cases hp : poke s 4 (le32 (s.pos - 4)) with
    | error e => rw [hp] at hg; cases hg
    | ok s1 => rw [hp] at hg; cases hg; exact poke_allSome h hp
  · cases hg; exact h

/-- `getCells` followed by reading the cells out under any fill is `getBuffer` when all cells are determinate -/
theorem getCells_getBuffer {s : W} (fill : Nat → UInt8) (h : AllSome s.mem) :
    (getCells s).map (concretize fill) = getBuffer s := by
  unfold getCells getBuffer
  split
  · simp only [bind, Except.bind]
    cases hp : poke32 s 4 (s.pos - 4) with
    | error e => rfl
    | ok s1 =>
      obtain ⟨b, hb⟩ := poke_allSome h hp
      simp only [Except.map, hb, concretize_some, cellsToBytes_some]
  · obtain ⟨b, hb⟩ := h
    simp only [bind, Except.bind, pure, Except.pure, Except.map, hb, concretize_some, cellsToBytes_some]

/-- header pokes inside the header keep the stream invariant -/
theorem pokes_inv (ps : List (Nat × Bytes)) {s s' : W} {pre : Bytes} (inv : StreamInv s pre [] [])
    (hb : ∀ p ∈ ps, p.1 + p.2.length ≤ pre.length)
    (h : steps s (ps.map fun p => Op.poke p.1 p.2) = .ok s') :
    ∃ pre', StreamInv s' pre' [] [] ∧ pre'.length = pre.length ∧ s'.pending = s.pending := by
  induction ps generalizing s pre with
  | nil => cases h; exact ⟨pre, inv, rfl, rfl⟩
  | cons p ps ih =>
    simp only [List.map_cons, steps, step] at h
    cases h1 : poke s p.1 p.2 with
    | error e => rw [h1] at h; cases h
    | ok s1 =>
      rw [h1] at h
      have hp := hb p (by simp)
      obtain ⟨inv1, pd, _⟩ := poke_inv inv p.1 p.2 hp h1
      have hl : (pre.take p.1 ++ p.2 ++ pre.drop (p.1 + p.2.length)).length = pre.length := by simp; omega
      obtain ⟨pre', inv', l', pd'⟩ := ih inv1 (fun q hq => by rw [hl]; exact hb q (by simp [hq])) h
      exact ⟨pre', inv', by rw [l', hl], by rw [pd', pd]⟩


/-! ### no writer operation fails with `indeterminate` (only `get_buffer`'s copy can) -/

def NI {β} (r : Except Err β) : Prop := r ≠ .error .indeterminate

theorem NI.bind {β γ} {r : Except Err β} {f : β → Except Err γ} (hr : NI r) (hf : ∀ s, NI (f s)) : NI (r >>= f) := by
  cases r with
  | error e =>
    intro h; apply hr
    have h' : (Except.error e : Except Err γ) = .error .indeterminate := h
    cases h'; rfl
  | ok s => exact hf s

theorem NI.ok {β} (s : β) : NI (Except.ok s : Except Err β) := by intro h; cases h
theorem NI.pure {β} (s : β) : NI (pure s : Except Err β) := by intro h; cases h

theorem put_ni (s : W) (bs : Bytes) : NI (put s bs) := by
  unfold put; split <;> (intro h; cases h)

theorem poke_ni (s : W) (off : Nat) (bs : Bytes) : NI (poke s off bs) := by
  unfold poke; split <;> (intro h; cases h)

theorem skip_ni (s : W) (k : Nat) : NI (skip s k) := by
  unfold skip; split <;> (intro h; cases h)

theorem addDelay_ni (s : W) : NI (addDelay s) := by
  unfold addDelay
  split
  · split
    · intro h; cases h
    · exact put_ni _ _
  · exact NI.ok _

theorem addGd3All_ni (ts : List Bytes) (s : W) : NI (addGd3All s ts) := by
  induction ts generalizing s with
  | nil => exact NI.ok _
  | cons t ts ih =>
    simp only [addGd3All]
    cases h1 : addGd3 s t with
    | error e =>
      intro h; cases h
      unfold addGd3 at h1
      split at h1
      · rename_i e' he; cases h1; have := utf8_err _ _ he; cases this
      · exact put_ni _ _ h1
    | ok s1 => exact ih s1

theorem step_ni (s : W) (o : Op) : NI (step s o) := by
  cases o with
  | write c p r d => exact NI.bind (addDelay_ni s) fun _ => put_ni _ _
  | dacSetup a b c d e => exact NI.bind (addDelay_ni s) fun _ => put_ni _ _
  | dacStart a b c d => exact NI.bind (addDelay_ni s) fun _ => put_ni _ _
  | dacStop a => exact NI.bind (addDelay_ni s) fun _ => put_ni _ _
  | setLoop => exact NI.bind (addDelay_ni s) fun _ => poke_ni _ _ _
  | datablock t p m f o => exact NI.bind (addDelay_ni s) fun _ => put_ni _ _
  | delay n => exact NI.ok _
  | stop =>
    refine NI.bind (addDelay_ni s) fun s1 => NI.bind (put_ni _ _) fun s2 => NI.bind (poke_ni _ _ _) fun s3 => ?_
    show NI (if s3.loopSet = true then _ else _)
    split
    · exact NI.bind (poke_ni _ _ _) fun _ => NI.pure _
    · exact NI.bind (NI.pure _) fun _ => NI.pure _
  | poke o bs => exact poke_ni _ _ _
  | writeTag t =>
    show NI (writeTag s t)
    unfold writeTag
    exact NI.bind (poke_ni _ _ _) fun s1 => NI.bind (put_ni _ _) fun s2 => NI.bind (skip_ni _ _) fun s3 =>
      NI.bind (addGd3All_ni _ _) fun s4 => poke_ni _ _ _

theorem steps_ni (ops : List Op) (s : W) : NI (steps s ops) := by
  induction ops generalizing s with
  | nil => exact NI.ok _
  | cons o os ih =>
    simp only [steps]
    cases h : step s o with
    | error e => intro hc; cases hc; exact step_ni s o h
    | ok s1 => exact ih s1

/-- after the operation sequence of `vgm_export` every cell is determinate -/
theorem export_allSome (xs : List XOp) (hv : ∀ x ∈ xs, x.valid) (ps : List (Nat × Bytes)) (t : Tags)
    {s0 s' : W} {pre : Bytes} (inv0 : StreamInv s0 pre [] [])
    (hb : ∀ p ∈ ps, p.1 + p.2.length ≤ pre.length)
    (h : steps s0 ((ps.map fun p => Op.poke p.1 p.2) ++ xs.map XOp.toOp ++ [.stop, .writeTag t]) = .ok s') :
    AllSome s'.mem := by
  rw [steps_append, steps_append] at h
  cases h1 : steps s0 (ps.map fun p => Op.poke p.1 p.2) with
  | error e => rw [h1] at h; cases h
  | ok s1 =>
    rw [h1] at h
    simp only at h
    obtain ⟨pre1, inv1, _, _⟩ := pokes_inv ps inv0 hb h1
    cases h2 : steps s1 (xs.map XOp.toOp) with
    | error e => rw [h2] at h; cases h
    | ok s2 =>
      rw [h2] at h
      simp only [steps, step] at h
      obtain ⟨pre2, body2, cs2, inv2, _, _⟩ := xsteps_inv xs hv inv1 h2
      cases h3 : stop s2 with
      | error e => rw [h3] at h; cases h
      | ok s3 =>
        rw [h3] at h
        simp only at h
        obtain ⟨pre3, body3, cs3, m3, _⟩ := stop_inv inv2 h3
        have a3 : AllSome s3.mem := ⟨pre3 ++ (body3 ++ [0x66]), by rw [m3]; simp⟩
        cases h4 : writeTag s3 t with
        | error e => rw [h4] at h; cases h
        | ok s4 =>
          rw [h4] at h
          cases h
          exact writeTag_allSome t a3 h4

/-! ### the table invariant -/


def TableOk (g : Globals) : Prop :=
  (g.tablesInitialized = false ∧ g.volTable = zeroTable) ∨ (g.tablesInitialized = true ∧ g.volTable = constVolTable)

theorem tableOk_initial : TableOk initial := Or.inl ⟨rfl, rfl⟩

theorem pcmCtor_table {g : Globals} (h : TableOk g) : (pcmCtor g).volTable = constVolTable ∧ (pcmCtor g).tablesInitialized = true := by
  unfold pcmCtor
  rcases h with ⟨h1, _⟩ | ⟨h1, h2⟩
  · simp [h1]
  · simp [h1, h2]

theorem pcmCtor_ok {g : Globals} (h : TableOk g) : TableOk (pcmCtor g) :=
  Or.inr ⟨(pcmCtor_table h).2, (pcmCtor_table h).1⟩

/-- the driver as a function producing exporter operations -/
abbrev XDriver (α : Type) := List (List Int) → α → List XOp

def XDriver.fn {α} (drv : XDriver α) : DriverFn α := fun t i => (drv t i).map XOp.toOp

theorem reachable_tableOk {α} {drv : DriverFn α} {g : Globals} (h : Reachable drv g) : TableOk g := by
  induction h with
  | init => exact tableOk_initial
  | vgm fill clk inp tags _ ih => exact pcmCtor_ok ih
  | mds song d vol _ ih => exact ih
  | tool name _ ih =>
    unfold getExtension
    split
    · exact ih
    · exact ih

/-- the export writes a header of `vgm_export_header_size` bytes that holds the pokes -/
theorem mdPokes_inside : ∀ p ∈ (Tables.md_vgm_pokes.map fun (w, off, v) =>
    (off, if w = 4 then le32 v else if w = 2 then le16 v else [byteOf v])), p.1 + p.2.length ≤ Tables.vgm_export_header_size := by
  decide

end Ctrmml.Globals
