/-
  C02/C03 helper: the chunk `MdsFile.construct` assembles provides what `SongTop` needs
  (`ChunkOK`, the position of every channel stream, the track table as `Seq.tracksOf` reads it) —
  from C09's layout theorems (`C09_track_table_exact`, `C09_slot_count`, `C09_index_fits_byte`,
  `C09_tracks_exact`) and `SongInv.construct_flat`.
-/
import Ctrmml.Proofs.SongTop
import Ctrmml.Properties.C09
namespace Ctrmml.SongTop
open Ctrmml Ctrmml.Player Ctrmml.Mds Ctrmml.WTrace Ctrmml.WFold Ctrmml.Expand Ctrmml.Tree Ctrmml.Codec Ctrmml.Seq
open Ctrmml.SongSem Ctrmml.SongSplit Ctrmml.SongInv Ctrmml.MdsFile Ctrmml.Refine Tables

theorem mapM_some_map {α β} (f : α → Option β) (g : α → β) : ∀ (l : List α), (∀ x ∈ l, f x = some (g x)) →
    l.mapM f = some (l.map g)
  | [], _ => rfl
  | a :: l, h => by
    rw [List.mapM_cons, h a (by simp), mapM_some_map f g l (fun x hx => h x (by simp [hx]))]
    rfl

theorem lookup_unique {β} : ∀ (L : List (Nat × β)) (k : Nat) (v : β), (k, v) ∈ L → (∀ p ∈ L, p.1 = k → p.2 = v) →
    L.lookup k = some v
  | [], _, _, h, _ => by simp at h
  | (a, b) :: L, k, v, h, hu => by
    by_cases hak : k = a
    · subst hak
      have := hu (k, b) (by simp) rfl
      simp only at this
      simp [List.lookup, this]
    · have hne : (k == a) = false := by simpa using hak
      simp only [List.lookup, hne]
      refine lookup_unique L k v ?_ (fun p hp => hu p (by simp [hp]))
      rcases List.mem_cons.mp h with h' | h'
      · simp only [Prod.mk.injEq] at h'; exact absurd h'.1 hak
      · exact h'

/-- the track table as the sequence interpreter reads it -/
theorem tracksOf_table (seq : List Nat) (n base : Nat) (h0 : rd16 seq 0 = some base) (h3 : rd seq 3 = some n)
    (ids offs : Nat → Nat) (hi : ∀ i, i < n → rd seq (4 + 4 * i) = some (ids i) ∧ rd16 seq (4 + 4 * i + 2) = some (offs i)) :
    tracksOf seq = some (base, (List.range n).map fun i => (ids i, base + offs i)) := by
  unfold tracksOf
  have hm : (List.range n).mapM (fun i =>
      (rd seq (4 + 4 * i)).bind fun id => (rd16 seq (4 + 4 * i + 2)).bind fun off => some (id, base + off)) =
      some ((List.range n).map fun i => (ids i, base + offs i)) := by
    apply mapM_some_map
    intro i hi'
    obtain ⟨a, b⟩ := hi i (List.mem_range.mp hi')
    simp [a, b]
  simp [h0, h3, hm]

theorem split_of_drop {l s r : List Nat} {p : Nat} (h : l.drop p = s ++ r) (hs : s ≠ []) :
    l = l.take p ++ s ++ r ∧ (l.take p).length = p := by
  have hl : (l.drop p).length = s.length + r.length := by rw [h]; simp
  have hpos : 0 < s.length := List.length_pos_iff.mpr hs
  simp at hl
  refine ⟨by rw [List.append_assoc, ← h]; exact (List.take_append_drop p l).symm, by simp; omega⟩

theorem convertTrack_term_ne_nil {nS nM : Nat} {es : List MEv} {ty : Nat} {stream : List Nat}
    (hty : ty = mds_JUMP ∨ ty = mds_FINISH) (h : convertTrack nS nM (es ++ [⟨ty, 0⟩]) = .ok stream) : stream ≠ [] := by
  obtain ⟨e', h1, rfl⟩ := convertTrack_ok h
  obtain ⟨e1, _, h3⟩ := encAll_append_ok h1
  have h4 := encAll_single_ok h3
  rcases hty with rfl | rfl
  · rw [encEv_jump] at h4
    simp only [Except.ok.injEq] at h4; subst h4; simp
  · rw [encEv_finish] at h4
    simp only [Except.ok.injEq] at h4; subst h4; simp

/-- **the chunk of a constructed song** provides what the song theorems need -/
theorem chunkOK_of_construct {song : Song} {d : DataInfo} (hpc : PlatformClean d) (hp : PlainSong song) {vol : Option String}
    {b : Built} (h : construct song d vol = .ok b) (hlen : b.seq.length < 65536) : ChunkOK song d b := by
  obtain ⟨hinv, _, hasm⟩ := construct_inv hpc h
  obtain ⟨hfl, _⟩ := construct_flat hpc hp.songNoEnd h
  obtain ⟨_, _, _, _, _, _, hsz, _⟩ := assemble_ok hasm
  unfold hdrSize at hsz
  have hfits := C09_index_fits_byte hasm
  obtain ⟨_, _, hsub, _, _⟩ := C09_slot_count hasm
  refine ⟨hfl, hinv.maps, hlen, by omega, by omega, by omega, ?_, ?_⟩
  · intro evs he ev hev
    obtain ⟨f1, _, f3, f4⟩ := hfits evs (List.mem_append_right _ he) ev hev
    refine ⟨fun ht => ?_, fun ht hne => ?_, fun ht hne => ?_⟩
    · have := f1 ht; omega
    · exact f4 ht hne
    · exact f3 ht hne
  · intro k hk
    obtain ⟨off, stream, rest, h1, h2, h3⟩ := hsub k hk
    refine ⟨off + (4 + 4 * b.trackList.length), stream, rest, ?_, (convertTrackChk_fits h2).2, ?_⟩
    · unfold slotTarget; rw [h1]; rfl
    · rw [Nat.add_comm]; exact h3

/-- **a channel track of a constructed song**: where the interpreter finds it, and what it plays -/
theorem song_plays {song : Song} {d : DataInfo} (hpc : PlatformClean d) (hp : PlainSong song) {vol : Option String}
    {b : Built} (h : construct song d vol = .ok b) (hlen : b.seq.length < 65536) (pf : Timeline.Platform)
    {id : Nat} {root : List Event} (hmem : (id, root) ∈ song.tracks) (hid : id < 16)
    (hP : PlatOK b.conv.subList.length b.conv.macroList.length pf d.platform) (hR : RoutinesOK song b)
    (hseg0 : Timeline.segnoAtDepth0 0 root = true) (hcnt : segCount root ≤ 1) (hloop : LoopDrumOK root)
    {t : List Tk} (hexp : Timeline.expected song pf root = .ok t) (mj : Nat) :
    ∃ ts stream pre, tracksOf b.seq = some (4 + 4 * b.trackList.length, ts) ∧ ts.lookup id = some pre.length ∧
      pre ++ stream <+: b.seq ∧ ChanResult b pre stream mj t := by
  have hc := chunkOK_of_construct hpc hp h hlen
  obtain ⟨_, hids, hasm⟩ := construct_inv hpc h
  obtain ⟨_, hchan⟩ := construct_flat hpc hp.songNoEnd h
  obtain ⟨h0, h3, htab⟩ := C09_track_table_exact hasm
  obtain ⟨_, _, hsorted⟩ := C09_tracks_exact h
  obtain ⟨hpw, hn16⟩ := hsorted hp.ids
  have hfits := C09_index_fits_byte hasm
  obtain ⟨n, hn⟩ : ∃ n, n = b.trackList.length := ⟨_, rfl⟩
  -- the index of the track
  have hidm : id ∈ b.trackList.map (·.1) := by
    rw [hids]; unfold channelIds
    exact List.mem_filter.mpr ⟨List.mem_map.mpr ⟨(id, root), hmem, rfl⟩, by simpa using hid⟩
  obtain ⟨i0, hi0, hget0⟩ := List.mem_iff_getElem.mp hidm
  have hi0' : i0 < b.trackList.length := by simpa using hi0
  have hg0 : b.trackList[i0].1 = id := by simpa using hget0
  -- the table
  obtain ⟨ids, hidsf⟩ : ∃ ids : Nat → Nat, ids = fun i => (rd b.seq (4 + 4 * i)).getD 0 := ⟨_, rfl⟩
  obtain ⟨offs, hoffsf⟩ : ∃ offs : Nat → Nat, offs = fun i => (rd16 b.seq (4 + 4 * i + 2)).getD 0 := ⟨_, rfl⟩
  have hrow : ∀ i (hi : i < b.trackList.length), rd b.seq (4 + 4 * i) = some (ids i) ∧ rd16 b.seq (4 + 4 * i + 2) = some (offs i) ∧
      ids i = b.trackList[i].1 % 256 := by
    intro i hi
    obtain ⟨off, stream, rest, a1, _, a3, _, _⟩ := htab i hi
    rw [hidsf, hoffsf]; simp [a1, a3]
  have hmod : b.trackList.length % 256 = b.trackList.length := by omega
  rw [hmod] at h3
  have htr := tracksOf_table b.seq b.trackList.length (4 + 4 * b.trackList.length) h0 h3 ids offs
    (fun i hi => ⟨(hrow i hi).1, (hrow i hi).2.1⟩)
  -- ids below 16, pairwise distinct
  have hlt16 : ∀ i (hi : i < b.trackList.length), b.trackList[i].1 < 16 := by
    intro i hi
    have : b.trackList[i].1 ∈ b.trackList.map (·.1) := List.mem_map.mpr ⟨_, List.getElem_mem hi, rfl⟩
    rw [hids] at this; unfold channelIds at this
    simpa using (List.mem_filter.mp this).2
  have hinj : ∀ i (hi : i < b.trackList.length), b.trackList[i].1 = id → i = i0 := by
    intro i hi he
    have hpw' : (b.trackList.map (·.1)).Pairwise (· < ·) := by rw [hids]; exact hpw
    have hnd : (b.trackList.map (·.1)).Nodup := hpw'.imp (fun h => Nat.ne_of_lt h)
    have e1 : (b.trackList.map (·.1))[i]'(by simpa using hi) = (b.trackList.map (·.1))[i0]'hi0 := by
      simp only [List.getElem_map]; rw [he, hg0]
    exact (List.getElem_inj hnd).mp e1
  -- the stream of the track
  obtain ⟨off, stream, rest, a1, _, a3, a4, a5⟩ := htab i0 hi0'
  have hoff : offs i0 = off := by rw [hoffsf]; simp [a3]
  have hch : ChanFlat song (ctxOf d b.conv) id b.trackList[i0].2 := by
    have := hchan b.trackList[i0] (List.getElem_mem hi0')
    rwa [hg0] at this
  have hfitT : ∀ ev ∈ b.trackList[i0].2, FitsEv b.conv.subList.length b.conv.macroList.length ev := by
    intro ev hev
    obtain ⟨f1, _, f3, f4⟩ := hfits b.trackList[i0].2 (List.mem_append_left _ (List.mem_map.mpr ⟨_, List.getElem_mem hi0', rfl⟩)) ev hev
    refine ⟨fun ht => ?_, fun ht hne => ?_, fun ht hne => ?_⟩
    · have := f1 ht; omega
    · exact f4 ht hne
    · exact f3 ht hne
  have hconv := (convertTrackChk_fits a4).2
  have hne : stream ≠ [] := by
    obtain ⟨items0, hperf0⟩ := perf_of_expected hexp
    obtain ⟨items, ms, r, g, _, _, _, hevs⟩ := hch root (hp.track_of_mem hmem) (hp.wf hmem hperf0)
    rw [hevs] at hconv
    refine convertTrack_term_ne_nil (es := ms ++ flushL r) ?_ hconv
    split
    · exact .inl rfl
    · exact .inr rfl
  obtain ⟨hsplit, hprel⟩ := split_of_drop a5 hne
  have hres := chan_plays pf hp hc hP hR hmem hch hfitT hconv hsplit hseg0 hcnt hloop hexp mj
  refine ⟨_, stream, b.seq.take (4 + 4 * b.trackList.length + off), htr, ?_, ?_, hres⟩
  · rw [hprel]
    apply lookup_unique
    · refine List.mem_map.mpr ⟨i0, List.mem_range.mpr hi0', ?_⟩
      rw [(hrow i0 hi0').2.2, hg0, hoff]
      congr 1; omega
    · intro p hp' hk
      obtain ⟨j, hj, rfl⟩ := List.mem_map.mp hp'
      have hj' := List.mem_range.mp hj
      simp only at hk ⊢
      rw [(hrow j hj').2.2] at hk
      have := hlt16 j hj'
      have hjj : j = i0 := hinj j hj' (by omega)
      subst hjj
      rw [hoff]
  · conv => rhs; rw [hsplit]
    exact List.prefix_append _ _

theorem inDomain_segno {song : Song} {root : List Event} (h : Timeline.inDomain song root = true) :
    Timeline.segnoAtDepth0 0 root = true := by
  unfold Timeline.inDomain at h
  simp only [Bool.and_eq_true] at h
  exact h.1.1

end Ctrmml.SongTop
