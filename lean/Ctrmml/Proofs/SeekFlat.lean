/-
  C12 round 3, part 2: a decidable syntactic class of tracks (`Flat`) on which the player never
  records an error, so the no-error hypothesis of the seek theorems is discharged.

  `Flat root`: every event of the root track is of control kind "other" (no LOOP_START /
  LOOP_BREAK / LOOP_END / SEGNO / JUMP / END) and is neither PLATFORM nor DRUM_MODE, and the
  track has fewer than 100000 events.  The length bound is needed: the inner fetch loop of the
  model carries a step budget of 100000 (`settleFuel`), and a run of 100000 or more zero-length
  events WOULD exhaust it and record the model-only error `fuel` (the C++ has no budget).  With
  the bound, every fetch loop ends within `length + 1 - position` steps: each step advances the
  position by one and the synthesised END past the last event stops the track (no loop point can
  have been set).
-/
import Ctrmml.Proofs.SeekFrom
namespace Ctrmml.PlayerCh
open Ctrmml Player Tables

def flatEv (e : Event) : Bool :=
  decide (e.kind = .other) && (e.type != ev_PLATFORM) && (e.type != ev_DRUM_MODE)

def Flat (root : List Event) : Prop := root.length < 100000 ∧ ∀ e ∈ root, flatEv e = true

instance (root : List Event) : Decidable (Flat root) := by unfold Flat; infer_instance

structure FlatInv (root : List Event) (s : PS) : Prop where
  track : s.core.track = .root
  stack : s.core.stack = []
  loopPos : s.acc.loopPosition = -1
  drum : getCh s.ch ev_DRUM_MODE = 0
  err : s.err = none
  past : s.core.position > root.length → s.acc.enabled = false

theorem getCh_setCh_ne (c : Chan) (t : Nat) (v : Int) (h : chIdx t ≠ chIdx ev_DRUM_MODE) :
    getCh (setCh c t v) ev_DRUM_MODE = getCh c ev_DRUM_MODE := by
  simp only [getCh, setCh]
  rw [List.getElem?_set_ne h]

theorem getCh_mask (c : Chan) (m : List Nat) (t : Nat) : getCh { c with mask := m } t = getCh c t := rfl

theorem flatEv_spec {e : Event} (h : flatEv e = true) :
    e.kind = .other ∧ e.type ≠ ev_PLATFORM ∧ e.type ≠ ev_DRUM_MODE := by
  simp only [flatEv, Bool.and_eq_true, decide_eq_true_eq, bne_iff_ne, ne_eq] at h
  exact ⟨h.1.1, h.1.2, h.2⟩

section
variable (song : Song) (root : List Event) (pd : Int → Bool)

theorem handleEvent_flat (s : PS) (e : Event) (hf : flatEv e = true) (hd : getCh s.ch ev_DRUM_MODE = 0) :
    (handleEvent song pd s e).1.core = s.core ∧ (handleEvent song pd s e).1.acc = s.acc ∧
    (handleEvent song pd s e).1.err = s.err ∧ getCh (handleEvent song pd s e).1.ch ev_DRUM_MODE = 0 := by
  obtain ⟨_, hp, hm⟩ := flatEv_spec hf
  have hnd : ¬ (getCh s.ch ev_DRUM_MODE ≠ 0) := by simp [hd]
  have i1 : chIdx ev_TRANSPOSE ≠ chIdx ev_DRUM_MODE := by decide
  have i2 : chIdx ev_VOL_FINE ≠ chIdx ev_DRUM_MODE := by decide
  have i3 : chIdx ev_TEMPO ≠ chIdx ev_DRUM_MODE := by decide
  have i4 : (e.type ≥ ev_CHANNEL_CMD ∧ e.type < ev_CMD_COUNT) → chIdx e.type ≠ chIdx ev_DRUM_MODE := by
    intro hr
    have h1 := hr.1
    simp only [ev_CHANNEL_CMD, ev_DRUM_MODE, chIdx, ge_iff_le] at h1 hm ⊢
    omega
  unfold handleEvent
  repeat' split
  all_goals first
    | exact absurd hd ‹_›
    | exact absurd ‹e.type = ev_PLATFORM› hp
    | exact ⟨rfl, rfl, rfl, hd⟩
    | (refine ⟨rfl, rfl, rfl, ?_⟩
       simp only [getCh, setCh] at hd ⊢
       first
         | (rw [List.getElem?_set_ne i1]; exact hd)
         | (rw [List.getElem?_set_ne i2]; exact hd)
         | (rw [List.getElem?_set_ne i3]; exact hd)
         | (rw [List.getElem?_set_ne (i4 ‹_›)]; exact hd))

theorem coreStep_other (c : Core) (ht : c.track = .root) (hk : (fetch root c.position).kind = .other) :
    coreStep song root c
      = .ok ({ c with position := c.position + 1 }, .hook (fetch root c.position) (fetch root c.position)) := by
  unfold coreStep
  simp only [ht, codeOf, hk]

theorem coreStep_fin (c : Core) (ht : c.track = .root) (hs : c.stack = [])
    (hk : (fetch root c.position).kind = .fin) :
    coreStep song root c = .ok ({ c with position := c.position + 1 }, .rootEnd (fetch root c.position)) := by
  unfold coreStep
  simp only [ht, codeOf, hk, hs]

theorem pstep_event (skip : Bool) (s : PS) (bs : PState) (v : Event) (herr : s.err.isSome = false)
    (h : step song root true ⟨s.core, s.acc⟩ = .ok (bs, .event v)) :
    (pstep song root pd skip s).1 = (handleEvent song pd { s with core := bs.core, acc := bs.acc } v).1 := by
  unfold pstep
  simp only [herr, Bool.false_eq_true, if_false, h]
  split <;> rfl

theorem pstep_finish (skip : Bool) (s : PS) (bs : PState) (herr : s.err.isSome = false)
    (h : step song root true ⟨s.core, s.acc⟩ = .ok (bs, .finish)) :
    (pstep song root pd skip s).1 = { s with core := bs.core, acc := bs.acc } := by
  unfold pstep
  simp only [herr, Bool.false_eq_true, if_false, h]

/-- one `step_event` on a flat track: the invariant is kept and the position advances by one -/
theorem pstep_flat (hfl : Flat root) (skip : Bool) (s : PS) (hi : FlatInv root s) :
    FlatInv root (pstep song root pd skip s).1 ∧
    (pstep song root pd skip s).1.core.position = s.core.position + 1 := by
  have herr : s.err.isSome = false := by simp [hi.err]
  by_cases hlt : s.core.position < root.length
  · have hfe : fetch root s.core.position = root[s.core.position] := by
      simp [fetch, List.getElem?_eq_getElem hlt]
    have hfv : flatEv (fetch root s.core.position) = true := by
      rw [hfe]; exact hfl.2 _ (List.getElem_mem hlt)
    obtain ⟨hk, _, _⟩ := flatEv_spec hfv
    have hns : ¬ ((fetch root s.core.position).kind = Kind.segno) := by rw [hk]; decide
    have hstep : ∃ a', step song root true ⟨s.core, s.acc⟩
        = .ok (⟨{ s.core with position := s.core.position + 1 }, a'⟩, .event (fetch root s.core.position)) ∧
          a'.loopPosition = s.acc.loopPosition := by
      unfold step
      simp only [coreStep_other song root s.core hi.track hk]
      simp only [accStep, Out.fetched, hns, if_false]
      exact ⟨_, rfl, rfl⟩
    obtain ⟨a', hst, hlp'⟩ := hstep
    rw [pstep_event song root pd skip s _ _ herr hst]
    obtain ⟨h1, h2, h3, h4⟩ := handleEvent_flat song pd
      { s with core := { s.core with position := s.core.position + 1 }, acc := a' }
      (fetch root s.core.position) hfv hi.drum
    refine ⟨⟨?_, ?_, ?_, h4, ?_, ?_⟩, ?_⟩
    · rw [h1]; exact hi.track
    · rw [h1]; exact hi.stack
    · rw [h2]; exact hlp'.trans hi.loopPos
    · rw [h3]; exact hi.err
    · rw [h1]; intro hp; exfalso; dsimp only at hp; omega
    · rw [h1]
  · have hfe : fetch root s.core.position = endEvent := by
      simp [fetch, List.getElem?_eq_none (Nat.le_of_not_lt hlt)]
    have hk : (fetch root s.core.position).kind = .fin := by rw [hfe]; decide
    have hstep : ∃ a', step song root true ⟨s.core, s.acc⟩
        = .ok (⟨{ s.core with position := s.core.position + 1 }, a'⟩, .finish) ∧
          a'.enabled = false ∧ a'.loopPosition = -1 := by
      unfold step
      simp only [coreStep_fin song root s.core hi.track hi.stack hk]
      simp only [accStep, Out.fetched]
      split
      · rename_i h; exact absurd hi.loopPos h.1
      · exact ⟨_, rfl, rfl, hi.loopPos⟩
    obtain ⟨a', hst, hen, hlp'⟩ := hstep
    rw [pstep_finish song root pd skip s _ herr hst]
    exact ⟨⟨hi.track, hi.stack, hlp', hi.drum, hi.err, fun _ => hen⟩, rfl⟩

theorem settleO_flat (hfl : Flat root) (skip : Bool) : ∀ (fuel : Nat) (s : PS), FlatInv root s →
    fuel + s.core.position > root.length → FlatInv root (settleO song root pd skip fuel s).1
  | 0, s, hi, hf => by
    have hd := hi.past (by omega)
    have hs : isSettled s = true := by simp [isSettled, hd]
    rw [settleO_fix song root pd skip 0 s hs]; exact hi
  | fuel + 1, s, hi, hf => by
    simp only [settleO]
    split
    · exact hi
    · obtain ⟨hi1, hp1⟩ := pstep_flat song root pd hfl skip s hi
      cases hp : pstep song root pd skip s with
      | mk s1 w =>
        rw [hp] at hi1 hp1
        dsimp only at hi1 hp1 ⊢
        have ih := settleO_flat hfl skip fuel s1 hi1 (by omega)
        cases hq : settleO song root pd skip fuel s1 with
        | mk s2 w2 => rw [hq] at ih; exact ih

theorem settle_flat (hfl : Flat root) (s : PS) (hi : FlatInv root s) : FlatInv root (settle song root pd s) := by
  unfold settle
  apply settleO_flat song root pd hfl false settleFuel s hi
  have := hfl.1
  rw [settleFuel_ge 0 (by omega)]
  omega

theorem playTickS_flat (hfl : Flat root) (s : PS) (hi : FlatInv root s) :
    FlatInv root (playTickS song root pd s) := by
  have herr : s.err.isSome = false := by simp [hi.err]
  unfold playTickS
  simp only [herr, Bool.false_eq_true, if_false]
  apply settle_flat song root pd hfl
  split
  · exact ⟨hi.track, hi.stack, hi.loopPos, hi.drum, hi.err, hi.past⟩
  · split
    · exact ⟨hi.track, hi.stack, hi.loopPos, hi.drum, hi.err, hi.past⟩
    · exact hi

theorem initPS_flat : FlatInv root initPS :=
  ⟨rfl, rfl, rfl, by decide, rfl, fun h => by simp [initPS] at h⟩

theorem iter_flat (hfl : Flat root) : ∀ (n : Nat) (s : PS), FlatInv root s →
    FlatInv root (iter (playTickS song root pd) n s)
  | 0, _, hi => hi
  | n + 1, s, hi => iter_flat hfl n _ (playTickS_flat song root pd hfl s hi)

end
end Ctrmml.PlayerCh
