/-
  C01, repair of defect D2 — the loop counts the optimiser writes.

  `apply_match` folds at most `max_loop_count = 255` repetitions into one loop (`capLoopLength`,
  `Proofs/OptSteps.lean`).  Here: which events the folded track consists of (`mem_foldedTrack`),
  the count of the inserted `LOOP_END` (`foldCount`, in 2..255 for the capped length:
  `OptSteps.foldCount_cap`), and the invariant "every `LOOP_END` of the song has a count in the
  documented domain 0..255" (`SongCounts`), which both kinds of pass keep.
-/
import Ctrmml.Proofs.OptTerm
namespace Ctrmml.OptSteps
open Ctrmml Ctrmml.Tree Ctrmml.Expand Ctrmml.Rewrite Ctrmml.Opt Tables

/-! ## the events of a folded track -/

theorem mem_ins {l : List Event} {p : Nat} {e x : Event} (h : x ∈ ins l p e) : x ∈ l ∨ x = e := by
  unfold ins at h
  rcases List.mem_append.1 h with h | h
  · rcases List.mem_append.1 h with h | h
    · exact Or.inl (List.mem_of_mem_take h)
    · exact Or.inr (by simpa using h)
  · exact Or.inl (List.mem_of_mem_drop h)

theorem mem_ins_self (l : List Event) (p : Nat) (e : Event) : e ∈ ins l p e := by
  unfold ins
  simp

theorem mem_ins_of_mem {l : List Event} {x : Event} (h : x ∈ l) (p : Nat) (e : Event) : x ∈ ins l p e := by
  unfold ins
  rw [← List.take_append_drop p l] at h
  rcases List.mem_append.1 h with h | h
  · exact List.mem_append_left _ (List.mem_append_left _ h)
  · exact List.mem_append_right _ h

/-- the repeat count of `foldedTrack` is `foldCount` -/
theorem foldedTrack_repeats (n L : Nat) :
    (if L % n ≠ 0 then L / n + 1 + 1 else L / n + 1) = foldCount n L := by
  unfold foldCount
  split <;> omega

/-- every event of the folded track is an event of the source track or one of the three inserted
events; the inserted `LOOP_END` carries `wrap16 (foldCount …)` and is there -/
theorem mem_foldedTrack {src : List Event} {p q L : Nat} :
    leEv (wrap16 (foldCount (q - p) L)) ∈ foldedTrack src p q L ∧
    ∀ x ∈ foldedTrack src p q L,
      x ∈ src ∨ x = lsEv ∨ x = lbEv ∨ x = leEv (wrap16 (foldCount (q - p) L)) := by
  unfold foldedTrack
  simp only
  rw [foldedTrack_repeats]
  have hbase : ∀ x ∈ src.take q ++ src.drop (q + L), x ∈ src := by
    intro x hx
    rcases List.mem_append.1 hx with h | h
    · exact List.mem_of_mem_take h
    · exact List.mem_of_mem_drop h
  constructor
  · apply mem_ins_of_mem
    split
    · exact mem_ins_of_mem (mem_ins_self _ _ _) _ _
    · exact mem_ins_self _ _ _
  · intro x hx
    rcases mem_ins hx with hx | hx
    · split at hx
      · rcases mem_ins hx with hx | hx
        · rcases mem_ins hx with hx | hx
          · exact Or.inl (hbase x hx)
          · exact Or.inr (Or.inr (Or.inr hx))
        · exact Or.inr (Or.inr (Or.inl hx))
      · rcases mem_ins hx with hx | hx
        · exact Or.inl (hbase x hx)
        · exact Or.inr (Or.inr (Or.inr hx))
    · exact Or.inr (Or.inl hx)

/-- the same for the capped length `apply_match` folds: the count is a number in 2..255 -/
theorem mem_foldedTrack_cap {src : List Event} {p q L : Nat} (hpq : p < q) (hL : 0 < L) :
    ∃ c : Nat, c = foldCount (q - p) (capLoopLength (q - p) L) ∧ 2 ≤ c ∧ c ≤ 255 ∧
      leEv (c : Int) ∈ foldedTrack src p q (capLoopLength (q - p) L) ∧
      ∀ x ∈ foldedTrack src p q (capLoopLength (q - p) L),
        x ∈ src ∨ x = lsEv ∨ x = lbEv ∨ x = leEv (c : Int) := by
  obtain ⟨h2, h255⟩ := foldCount_cap (n := q - p) (L := L) (by omega) hL
  obtain ⟨m1, m2⟩ := mem_foldedTrack (src := src) (p := p) (q := q) (L := capLoopLength (q - p) L)
  have hw : wrap16 ((foldCount (q - p) (capLoopLength (q - p) L) : Nat) : Int) =
      ((foldCount (q - p) (capLoopLength (q - p) L) : Nat) : Int) :=
    wrap16_small (by omega) (by omega)
  rw [hw] at m1 m2
  exact ⟨_, rfl, h2, h255, m1, m2⟩

/-! ## the invariant: every loop count of the song is in the documented domain 0..255 -/

/-- `[/]<0..255>` (mml_ref.md): the count of every `LOOP_END` fits the one-byte operand of the
MDSDRV loop-finish command -/
def CountOK (l : List Event) : Prop := ∀ e ∈ l, e.type = ev_LOOP_END → 0 ≤ e.param ∧ e.param ≤ 255

def SongCounts (S : Song) : Prop := ∀ p ∈ S.tracks, CountOK p.2

theorem countOK_take {l : List Event} (h : CountOK l) (n : Nat) : CountOK (l.take n) :=
  fun e he => h e (List.mem_of_mem_take he)

theorem countOK_drop {l : List Event} (h : CountOK l) (n : Nat) : CountOK (l.drop n) :=
  fun e he => h e (List.mem_of_mem_drop he)

/-- the capped loop fold keeps the counts in the domain -/
theorem countOK_foldedTrack_cap {src : List Event} (h : CountOK src) {p q L : Nat} (hpq : p < q) (hL : 0 < L) :
    CountOK (foldedTrack src p q (capLoopLength (q - p) L)) := by
  obtain ⟨c, _, h2, h255, _, hm⟩ := mem_foldedTrack_cap (src := src) hpq hL
  intro e he hty
  rcases hm e he with h1 | h1 | h1 | h1
  · exact h e h1 hty
  · rw [h1] at hty; exact absurd hty (by decide)
  · rw [h1] at hty; exact absurd hty (by decide)
  · rw [h1]
    show (0 : Int) ≤ (c : Int) ∧ (c : Int) ≤ 255
    omega

theorem songCounts_setTrack {S : Song} {id : Nat} {x evs : List Event} (hs : SongCounts S) (hx : S.track? id = some x)
    (he : CountOK evs) : SongCounts (setTrack S id evs) := by
  intro p hp
  rw [setTrack_tracks hx] at hp
  obtain ⟨q, hq, rfl⟩ := List.mem_map.1 hp
  split
  · exact he
  · exact hs q hq

/-- subroutine extraction: the new track is a segment of an old one, the other tracks get `JUMP`s -/
theorem songCounts_of_subInv {song s3 : Song} {Xl : List Event} {subId : Int} {subT : Nat}
    (hnd3 : (s3.tracks.map (·.1)).Nodup) (hinv : SubInv song Xl (jumpEvent subId) subT s3)
    (hs : SongCounts song) (hX : CountOK Xl) : SongCounts s3 := by
  intro p hp
  have hlk : s3.track? p.1 = some p.2 := lookup_of_mem_nodup hnd3 (by simpa using hp)
  by_cases hsub : p.1 = subT
  · rw [hsub, hinv.sub] at hlk
    cases hlk
    exact hX
  · rcases hinv.rel p.1 hsub with ⟨_, h2⟩ | ⟨evs, evs', h1, h2, h3, _⟩
    · rw [h2] at hlk; cases hlk
    · rw [h2] at hlk
      cases hlk
      intro e he
      rcases h3.mem e he with h | h
      · exact hs _ (mem_of_lookup h1) e h
      · intro hty
        rw [h] at hty
        exact absurd hty (by show ev_JUMP ≠ ev_LOOP_END; decide)

end Ctrmml.OptSteps
