/-
  Helper lemmas for C07: composition of the per-update channel theorems over the whole export
  of a song with ONE channel track (plus subroutine tracks).

  * `chUpdate_keys_run` — the per-update key theorem of Proofs/MdKeys stated against any run of
    `ctTick` (so that it applies on every pass of the track, through `lx_sim_run`).
  * `single_inv` — along `updRun` the one channel stays related to the looping list machine
    `lxAfter ticks m0`, where `ticks` is the driver's tick counter.
  * `single_update` — what update `k` writes is what `MD_Channel::update` writes for the ticks
    `ticks_k … ticks_{k+1} − 1` of that machine.
-/
import Ctrmml.Proofs.MdKeys
import Ctrmml.Proofs.MdUpd
import Ctrmml.Proofs.TickLoop
namespace Ctrmml.MdDriver
open Ctrmml Player PlayerCh Tables TickStream

/-- data bytes of the writes of a `Vgm.Op` list to register 0x28 -/
def keysV (ops : List Vgm.Op) : List Nat :=
  ops.filterMap fun o => match o with
    | .write _ _ r dat => if r = 0x28 then some dat else none
    | _ => none

theorem keysV_append (a b : List Vgm.Op) : keysV (a ++ b) = keysV a ++ keysV b := by
  simp [keysV, List.filterMap_append]

theorem keysV_toOps (o : List Wr) : keysV (o.flatMap Wr.toOps) = keys o := by
  induction o with
  | nil => rfl
  | cons w r ih =>
    have hw : keysV w.toOps = if w.reg = 0x28 then [w.data] else [] := by
      unfold Wr.toOps Wr.toOp keysV
      cases w.dac <;> (simp only [List.filterMap_cons, List.filterMap_nil]; split <;> simp_all)
    rw [List.flatMap_cons, keysV_append, ih, hw]
    unfold keys
    by_cases h : w.reg = 0x28 <;> simp [h]

/-! ### the per-update key theorem against any run of `ctTick` -/
section
variable (d : Data) (song : Song) (root : List Event) (bank id : Nat) (hid : id < 3) (hbank : bank < 2)

include hid hbank in
/-- `chUpdate_keys` with the tick events given by a run of `ctTick` instead of the first-pass
list machine -/
theorem chUpdate_keys_run (hpl : PlainHooks song root) (hns : NoSlurHooks song root)
    (n : Nat) (g : G) (c : Ch) (hc : ChOK root bank id c) (hg : g.err = none) (hkon : c.keyOn = false)
    (s' : PState) (ws : List (List Event)) (hrun : ctRun song root n ⟨c.ps.core, c.ps.acc⟩ = some (s', ws)) :
    (chUpdate d song n g c).1.err.isSome = true ∨
      ((chUpdate d song n g c).2.1.ps.core = s'.core ∧ (chUpdate d song n g c).2.1.ps.acc = s'.acc ∧
       ChOK root bank id (chUpdate d song n g c).2.1 ∧ (chUpdate d song n g c).2.1.keyOn = false ∧
       (∀ x ∈ keys (chUpdate d song n g c).2.2, x = koff bank id ∨ x = kon bank id) ∧
       ((∃ e ∈ ws.flatten, e.type = ev_NOTE ∨ e.type = ev_REST ∨ e.type = ev_END) → koff bank id ∈ keys (chUpdate d song n g c).2.2) ∧
       (koff bank id ∈ keys (chUpdate d song n g c).2.2 → ∃ e ∈ ws.flatten, e.type = ev_NOTE ∨ e.type = ev_TIE ∨ e.type = ev_REST ∨ e.type = ev_END) ∧
       ((∃ e ∈ ws.flatten, e.type = ev_NOTE) → (keys (chUpdate d song n g c).2.2).getLast? = some (kon bank id)) ∧
       (kon bank id ∈ keys (chUpdate d song n g c).2.2 → ∃ e ∈ ws.flatten, e.type = ev_NOTE ∨ e.type = ev_TIE)) := by
  have hf := chTicks_follows d song root bank id hid hpl hns n g c hc hg s' _ hrun
  have hne := koff_ne_kon bank id hid hbank
  unfold chUpdate
  cases ht : chTicks d song n g c with
  | mk g1 r1 =>
    obtain ⟨c1, o1⟩ := r1
    rw [ht] at hf
    simp only
    rcases hf with herr | ⟨a1, a2, a3, a4⟩
    · simp only at herr
      left
      simp [chAfter, herr]
    · simp only at a1 a2 a3 a4
      cases hg1 : g1.err with
      | some x => left; simp [chAfter, hg1]
      | none =>
        obtain ⟨k1, k2, k3, k4, k5, k6, _⟩ := chAfter_fm d bank id hid g1 c1 a3.kind hg1 a3.slur
        by_cases herr : (chAfter d g1 c1).1.err.isSome = true
        · exact Or.inl herr
        right
        refine ⟨by rw [k6]; exact a1, by rw [k6]; exact a2, ⟨k5.trans a3.root, k4.trans a3.kind, by rw [k6]; exact a3.err,
          by rw [k6]; exact a3.drum, k3⟩, k2, ?_, ?_, ?_, ?_, ?_⟩
        · intro x hx
          rw [keys_append, k1] at hx
          rcases List.mem_append.mp hx with h | h
          · exact Or.inl (a4.allOff x h)
          · split at h <;> simp at h
            exact Or.inr h
        · intro h
          rw [keys_append]
          exact List.mem_append.mpr (Or.inl (a4.hasOff h))
        · intro h
          rw [keys_append, k1] at h
          rcases List.mem_append.mp h with h | h
          · exact a4.offOnly (List.ne_nil_of_mem h)
          · split at h <;> simp at h
            exact absurd h hne
        · intro h
          have hon : c1.keyOn = true := a4.onSet h
          rw [keys_append, k1, hon]
          simp
        · intro h
          rw [keys_append, k1] at h
          rcases List.mem_append.mp h with h | h
          · exact absurd (a4.allOff _ h).symm hne
          · by_cases hon : c1.keyOn = true
            · rcases a4.onOnly hon with h' | h'
              · rw [hkon] at h'; exact absurd h' (by simp)
              · exact h'
            · have : c1.keyOn = false := by cases hh : c1.keyOn <;> simp_all
              rw [this] at h; simp at h

end

/-- the key-on write of FM channel `(bank, id)` -/
def konWr (bank id : Nat) : Wr := Wr.mk 0x52 0 0x28 (kon bank id) .none

section
variable (d : Data) (song : Song) (root : List Event) (bank id : Nat) (hid : id < 3)

include hid in
/-- the key-on is the LAST WRITE of the update: whatever the update writes to the frequency (or
any other) register of the channel, it writes before keying the note on -/
theorem chUpdate_kon_last_run (hpl : PlainHooks song root) (hns : NoSlurHooks song root)
    (n : Nat) (g : G) (c : Ch) (hc : ChOK root bank id c) (hg : g.err = none)
    (s' : PState) (ws : List (List Event)) (hrun : ctRun song root n ⟨c.ps.core, c.ps.acc⟩ = some (s', ws)) :
    (chUpdate d song n g c).1.err.isSome = true ∨
      ((∃ e ∈ ws.flatten, e.type = ev_NOTE) → (chUpdate d song n g c).2.2.getLast? = some (konWr bank id)) := by
  have hf := chTicks_follows d song root bank id hid hpl hns n g c hc hg s' _ hrun
  unfold chUpdate
  cases ht : chTicks d song n g c with
  | mk g1 r1 =>
    obtain ⟨c1, o1⟩ := r1
    rw [ht] at hf
    simp only
    rcases hf with herr | ⟨_, _, a3, a4⟩
    · simp only at herr
      left
      simp [chAfter, herr]
    · simp only at a3 a4
      cases hg1 : g1.err with
      | some x => left; simp [chAfter, hg1]
      | none =>
        right
        intro hN
        have hon : c1.keyOn = true := a4.onSet hN
        have hsl : c1.slur = false := a3.slur
        have hk : c1.kind = .fm bank id := a3.kind
        have hlast : (chKeyOn (chPitch (chEnv g1 c1).2.1).1).2 = [konWr bank id] := by
          have he : chEnv g1 c1 = (g1, c1, []) := by simp [chEnv, hk, isPsg]
          rw [he]
          unfold chKeyOn
          have h1 : (chPitch c1).1.keyOn = true := hon
          have h2 : (chPitch c1).1.slur = false := hsl
          have h3 : (chPitch c1).1.kind = .fm bank id := hk
          simp only [h1, h2, Bool.not_false, and_self, if_true, vKeyOn, h3]
          simp [ymW, konWr, kon]
        unfold chAfter
        simp only [hg1, Option.isSome_none, Bool.false_eq_true, if_false]
        rw [hlast]
        simp

end

/-! ### a song with one channel track -/
/-- one channel track `(id, root)` followed by subroutine tracks -/
def SingleTrack (song : Song) (id : Nat) (root : List Event) : Prop :=
  ∃ subs, song.tracks = (id, root) :: subs ∧ id < 16 ∧ ∀ t ∈ subs, ¬ t.1 < 16

theorem playSong_single (d : Data) (song : Song) (id : Nat) (root : List Event) (h : SingleTrack song id root) :
    (playSong d song).1.chans = [(mkCh d id root).1] ∧ (playSong d song).1.g.err = none ∧
    (playSong d song).1.g.loopTrigger = false ∧ (playSong d song).1.g.tempoDelta = md_initial_tempo_delta ∧
    (playSong d song).1.tempoCounter = 0 ∧ (playSong d song).1.ticks = 0 ∧
    (playSong d song).1.seqCounter = 0 ∧ (playSong d song).1.pcmCounter = 0 := by
  obtain ⟨subs, ht, hid, hs⟩ := h
  have hskip : ∀ (l : List (Nat × List Event)) (acc : List Ch × List Op), (∀ t ∈ l, ¬ t.1 < 16) →
      l.foldl (fun (acc : List Ch × List Op) (t : Nat × List Event) =>
        if t.1 < 16 then
          let (c, o) := mkCh d t.1 t.2
          (acc.1 ++ [c], acc.2 ++ o)
        else acc) acc = acc := by
    intro l
    induction l with
    | nil => intro acc _; rfl
    | cons t r ih =>
      intro acc hl
      simp only [List.foldl_cons]
      rw [if_neg (hl t (by simp))]
      exact ih acc (fun x hx => hl x (by simp [hx]))
  refine ⟨?_, rfl, rfl, rfl, rfl, rfl, rfl, rfl⟩
  unfold playSong
  simp only [ht, List.foldl_cons, if_pos hid]
  rw [hskip subs _ hs]
  rfl

theorem updateAll_single (d : Data) (song : Song) (n : Nat) (g : G) (c : Ch) :
    updateAll d song n g [c] =
      if c.enabled then ((chUpdate d song n g c).1, [(chUpdate d song n g c).2.1], (chUpdate d song n g c).2.2)
      else (g, [c], []) := by
  simp only [updateAll]
  split <;> simp

/-- the writes of the sequence update number `k` -/
def updWrs (d : Data) (song : Song) (s0 : Drv) (k : Nat) : List Wr := (seqUpdate d song (updRun d song k s0)).2

/-- the loop marker of update number `k` -/
def updMark (d : Data) (song : Song) (s0 : Drv) (k : Nat) : List Vgm.Op :=
  (stepLoop (seqUpdate d song (updRun d song k s0)).1).2

theorem updOps_eq (d : Data) (song : Song) (s0 : Drv) (k : Nat) :
    updOps d song s0 k = (updWrs d song s0 k).flatMap Wr.toOps ++ updMark d song s0 k := rfl

theorem stepLoop_g (s : Drv) : (stepLoop s).1.g.err = s.g.err ∧ (stepLoop s).1.g.tempoDelta = s.g.tempoDelta ∧
    (stepLoop s).1.tempoCounter = s.tempoCounter ∧ (stepLoop s).1.ticks = s.ticks := by
  unfold stepLoop; split <;> exact ⟨rfl, rfl, rfl, rfl⟩

theorem stepLoop_chans (s : Drv) : (stepLoop s).1.chans = s.chans ∨ (stepLoop s).1.chans = s.chans.map resetLoopCh := by
  unfold stepLoop; split
  · right; rfl
  · left; rfl

/-- number of ticks the sequence update number `k` plays -/
def updTicks (d : Data) (song : Song) (s0 : Drv) (k : Nat) : Nat :=
  (tempoStep (updRun d song k s0).tempoCounter (updRun d song k s0).g.tempoDelta).1

theorem updRun_ticks (d : Data) (song : Song) (s0 : Drv) (k : Nat) :
    (updRun d song (k + 1) s0).ticks = (updRun d song k s0).ticks + updTicks d song s0 k ∧
    (updRun d song (k + 1) s0).tempoCounter = (tempoStep (updRun d song k s0).tempoCounter (updRun d song k s0).g.tempoDelta).2 := by
  simp only [updRun, updStep, updTicks]
  rw [(stepLoop_g _).2.2.2, (stepLoop_g _).2.2.1]
  simp [seqUpdate]

theorem resetLoopCh_same (c : Ch) :
    (resetLoopCh c).kind = c.kind ∧ (resetLoopCh c).root = c.root ∧ (resetLoopCh c).ps.core = c.ps.core ∧
    (resetLoopCh c).ps.err = c.ps.err ∧ (resetLoopCh c).ps.ch = c.ps.ch ∧ (resetLoopCh c).slur = c.slur ∧
    (resetLoopCh c).keyOn = c.keyOn ∧ (resetLoopCh c).ps.acc.enabled = c.ps.acc.enabled ∧
    (resetLoopCh c).ps.acc.onTime = c.ps.acc.onTime ∧ (resetLoopCh c).ps.acc.offTime = c.ps.acc.offTime ∧
    (resetLoopCh c).ps.acc.playTime = c.ps.acc.playTime ∧ (resetLoopCh c).ps.acc.loopPlayTime = c.ps.acc.loopPlayTime ∧
    (resetLoopCh c).ps.acc.lastLoopJump = c.ps.acc.lastLoopJump ∧ (resetLoopCh c).ps.acc.loopPosition = c.ps.acc.loopPosition := by
  unfold resetLoopCh
  simp only
  split <;> exact ⟨rfl, rfl, rfl, rfl, rfl, rfl, rfl, rfl, rfl, rfl, rfl, rfl, rfl, rfl⟩

section
variable (d : Data) (song : Song) (root : List Event)

theorem relX_reset (cEnd : Core) (B : Nat) (c : Ch) (m : LX)
    (h : RelX song root cEnd B ⟨c.ps.core, c.ps.acc⟩ m) :
    RelX song root cEnd B ⟨(resetLoopCh c).ps.core, (resetLoopCh c).ps.acc⟩ m := by
  obtain ⟨r1, r2, r3, r4, r5, r6, r7, r8, r9, r10, r11, r12, r13, r14⟩ := resetLoopCh_same c
  obtain ⟨e1, e2, e3, e4, e5, e6, e7, e8, e9⟩ := h
  simp only at e1 e2 e3 e4 e5 e6 e7 e8
  exact ⟨r8.trans e1, r9.trans e2, r10.trans e3, r11.trans e4, r12.trans e5, r13.trans e6, by simp only; rw [r14]; exact e7,
    by simp only; rw [r3]; exact e8, e9⟩

/-- **The one channel along the updates.**  `CI` is any channel invariant that one
`MD_Channel::update` re-establishes (together with following the control/time state of `ctRun`)
and that does not depend on the loop counters.  Then, as long as no error has arisen, after `k`
updates the driver holds one channel that satisfies `CI` and is related to the looping list
machine `lxAfter ticks m0`. -/
theorem single_inv (id : Nat) (hsingle : SingleTrack song id root)
    (cEnd : Core) (B : Nat) (hend : EndOK song root cEnd) (hB : 2 * B + 2 ≤ settleFuel)
    (CI : Ch → Prop) (hreset : ∀ c, CI c → CI (resetLoopCh c))
    (hupd : ∀ n g c s' ws, CI c → g.err = none → ctRun song root n ⟨c.ps.core, c.ps.acc⟩ = some (s', ws) →
      (chUpdate d song n g c).1.err.isSome = true ∨
        ((chUpdate d song n g c).2.1.ps.core = s'.core ∧ (chUpdate d song n g c).2.1.ps.acc = s'.acc ∧ CI (chUpdate d song n g c).2.1))
    (hinit : CI (mkCh d id root).1) (m0 : LX)
    (hrel0 : RelX song root cEnd B ⟨(mkCh d id root).1.ps.core, (mkCh d id root).1.ps.acc⟩ m0) :
    ∀ k, (∀ j, j ≤ k → (updRun d song j (playSong d song).1).g.err = none) →
      ∃ c, (updRun d song k (playSong d song).1).chans = [c] ∧ CI c ∧
        RelX song root cEnd B ⟨c.ps.core, c.ps.acc⟩ (lxAfter (updRun d song k (playSong d song).1).ticks m0)
  | 0, _ => by
    obtain ⟨p1, _, _, _, _, p6, _, _⟩ := playSong_single d song id root hsingle
    refine ⟨(mkCh d id root).1, p1, hinit, ?_⟩
    simp only [updRun]; rw [p6]; exact hrel0
  | k + 1, herr => by
    obtain ⟨c, hc, hci, hrel⟩ := single_inv id hsingle cEnd B hend hB CI hreset hupd hinit m0 hrel0 k
      (fun j hj => herr j (by omega))
    obtain ⟨s0, hs0⟩ : ∃ s0, s0 = (playSong d song).1 := ⟨_, rfl⟩
    rw [← hs0] at hc hrel herr ⊢
    obtain ⟨s, hs⟩ : ∃ s, s = updRun d song k s0 := ⟨_, rfl⟩
    have hg : s.g.err = none := by rw [hs]; exact herr k (by omega)
    have hg' : (updStep d song s).1.g.err = none := by rw [hs]; exact herr (k + 1) (Nat.le_refl _)
    have hticks := (updRun_ticks d song s0 k).1
    rw [← hs] at hc hrel hticks
    have hrun1 : updRun d song (k + 1) s0 = (updStep d song s).1 := by rw [hs]; rfl
    rw [hrun1] at hticks ⊢
    rw [hticks, lxAfter_add]
    -- the sequence update
    obtain ⟨n, hn⟩ : ∃ n, n = updTicks d song s0 k := ⟨_, rfl⟩
    rw [← hn]
    have hn' : n = (tempoStep s.tempoCounter s.g.tempoDelta).1 := by rw [hn, hs]; rfl
    have hseq : (seqUpdate d song s).1.chans = (updateAll d song n s.g [c]).2.1 ∧
        (seqUpdate d song s).1.g = (updateAll d song n s.g [c]).1 := by
      simp [seqUpdate, hc, hn']
    have hg1 : (updateAll d song n s.g [c]).1.err = none := by
      rw [← hseq.2, ← (stepLoop_g _).1]; exact hg'
    -- the channel after the update, before the loop-marker test
    have hmid : ∃ c1, (updateAll d song n s.g [c]).2.1 = [c1] ∧ CI c1 ∧
        RelX song root cEnd B ⟨c1.ps.core, c1.ps.acc⟩ (lxAfter n (lxAfter s.ticks m0)) := by
      rw [updateAll_single] at hg1 ⊢
      by_cases hen : c.enabled = true
      · rw [if_pos hen] at hg1 ⊢
        obtain ⟨s', hrun, hrel'⟩ := lx_sim_run song root cEnd B hend hB n _ _ hrel
        rcases hupd n s.g c s' _ hci hg hrun with he | ⟨u1, u2, u3⟩
        · simp only at hg1; rw [hg1] at he; cases he
        · refine ⟨_, rfl, u3, ?_⟩
          have : (⟨(chUpdate d song n s.g c).2.1.ps.core, (chUpdate d song n s.g c).2.1.ps.acc⟩ : PState) = s' := by
            cases s'; simp only [PState.mk.injEq]; exact ⟨u1, u2⟩
          rw [this]; exact hrel'
      · rw [if_neg hen]
        refine ⟨c, rfl, hci, ?_⟩
        -- a stopped channel: the machine does not move any more
        have hdis : (lxAfter s.ticks m0).enabled = false := by
          have := hrel.1
          simp only [Ch.enabled] at hen
          simp only at this
          rw [← this]; cases h : c.ps.acc.enabled <;> simp_all
        have hfix : ∀ j m, m.enabled = false → lxAfter j m = m := by
          intro j
          induction j with
          | zero => intro m _; rfl
          | succ j ih =>
            intro m hm
            have : lxTick m = (m, []) := by simp [lxTick, hm]
            simp only [lxAfter, this]; exact ih m hm
        rw [hfix n _ hdis]; exact hrel
    obtain ⟨c1, hc1, hci1, hrel1⟩ := hmid
    have hch : (seqUpdate d song s).1.chans = [c1] := by rw [hseq.1, hc1]
    simp only [updStep]
    rcases stepLoop_chans (seqUpdate d song s).1 with h | h
    · exact ⟨c1, by rw [h, hch], hci1, hrel1⟩
    · exact ⟨resetLoopCh c1, by rw [h, hch]; rfl, hreset c1 hci1, relX_reset song root cEnd B c1 _ hrel1⟩

/-- **What update `k` writes.**  Under the hypotheses of `single_inv`, with a per-update property
`P` of the channel's writes against the tick events: update `k` of an export without error
plays `updTicks k` ticks; while the channel is enabled its writes satisfy `P` against the events
the looping list machine delivers in the ticks `ticks_k … ticks_k + updTicks k − 1`; a channel
that has ended writes nothing. -/
theorem single_update (id : Nat) (hsingle : SingleTrack song id root)
    (cEnd : Core) (B : Nat) (hend : EndOK song root cEnd) (hB : 2 * B + 2 ≤ settleFuel)
    (CI : Ch → Prop) (hreset : ∀ c, CI c → CI (resetLoopCh c)) (P : G → List (List Event) → G → List Wr → Prop)
    (hupd : ∀ n g c s' ws, CI c → g.err = none → ctRun song root n ⟨c.ps.core, c.ps.acc⟩ = some (s', ws) →
      (chUpdate d song n g c).1.err.isSome = true ∨
        ((chUpdate d song n g c).2.1.ps.core = s'.core ∧ (chUpdate d song n g c).2.1.ps.acc = s'.acc ∧ CI (chUpdate d song n g c).2.1 ∧
          P g ws (chUpdate d song n g c).1 (chUpdate d song n g c).2.2))
    (hinit : CI (mkCh d id root).1) (m0 : LX)
    (hrel0 : RelX song root cEnd B ⟨(mkCh d id root).1.ps.core, (mkCh d id root).1.ps.acc⟩ m0)
    (k : Nat) (herr : ∀ j, j ≤ k + 1 → (updRun d song j (playSong d song).1).g.err = none) :
    ((lxAfter (updRun d song k (playSong d song).1).ticks m0).enabled = true →
      P (updRun d song k (playSong d song).1).g
        (lxRun (updTicks d song (playSong d song).1 k) (lxAfter (updRun d song k (playSong d song).1).ticks m0))
        (seqUpdate d song (updRun d song k (playSong d song).1)).1.g (updWrs d song (playSong d song).1 k)) ∧
    ((lxAfter (updRun d song k (playSong d song).1).ticks m0).enabled = false →
      updWrs d song (playSong d song).1 k = [] ∧
      (seqUpdate d song (updRun d song k (playSong d song).1)).1.g = (updRun d song k (playSong d song).1).g) := by
  obtain ⟨c, hc, hci, hrel⟩ := single_inv d song root id hsingle cEnd B hend hB CI hreset
    (fun n g c s' ws a b cc => by
      rcases hupd n g c s' ws a b cc with h | ⟨h1, h2, h3, _⟩
      · exact Or.inl h
      · exact Or.inr ⟨h1, h2, h3⟩) hinit m0 hrel0 k (fun j hj => herr j (by omega))
  obtain ⟨s0, hs0⟩ : ∃ s0, s0 = (playSong d song).1 := ⟨_, rfl⟩
  rw [← hs0] at hc hrel herr ⊢
  obtain ⟨s, hs⟩ : ∃ s, s = updRun d song k s0 := ⟨_, rfl⟩
  have hg : s.g.err = none := by rw [hs]; exact herr k (by omega)
  have hg' : (updStep d song s).1.g.err = none := by rw [hs]; exact herr (k + 1) (Nat.le_refl _)
  have hw0 : updWrs d song s0 k = (seqUpdate d song s).2 := by rw [hs]; rfl
  have hnn : updTicks d song s0 k = (tempoStep s.tempoCounter s.g.tempoDelta).1 := by rw [hs]; rfl
  rw [← hs] at hc hrel ⊢
  obtain ⟨n, hn⟩ : ∃ n, n = updTicks d song s0 k := ⟨_, rfl⟩
  rw [← hn]
  have hn' : n = (tempoStep s.tempoCounter s.g.tempoDelta).1 := by rw [hn, hnn]
  have hseq : (seqUpdate d song s).2 = (updateAll d song n s.g [c]).2.2 ∧
      (seqUpdate d song s).1.g = (updateAll d song n s.g [c]).1 := by
    simp [seqUpdate, hc, hn']
  have hg1 : (updateAll d song n s.g [c]).1.err = none := by
    rw [← hseq.2, ← (stepLoop_g _).1]; exact hg'
  have hen : c.enabled = (lxAfter s.ticks m0).enabled := hrel.1
  rw [hw0, hseq.1, hseq.2]
  rw [updateAll_single] at hg1 ⊢
  constructor
  · intro h
    rw [← hen] at h
    rw [if_pos h] at hg1 ⊢
    obtain ⟨s', hrun, _⟩ := lx_sim_run song root cEnd B hend hB n _ _ hrel
    rcases hupd n s.g c s' _ hci hg hrun with he | ⟨_, _, _, u4⟩
    · simp only at hg1; rw [hg1] at he; cases he
    · exact u4
  · intro h
    rw [← hen] at h
    have : ¬ c.enabled = true := by rw [h]; simp
    rw [if_neg this]
    exact ⟨rfl, rfl⟩

end

/-! ### the schedule of the key register of one FM channel -/
/-- some event with property `p` is delivered by the list machine at a tick `τ` with `T ≤ τ < T'` -/
def DeliveredIn (m0 : LX) (T T' : Nat) (p : Event → Prop) : Prop :=
  ∃ τ, T ≤ τ ∧ τ < T' ∧ ∃ e ∈ lxEvents m0 τ, p e

/-- the writes `ks` of one update to the key register, for an update that plays the ticks
`T … T'−1` of the list machine `m0`: only key-off / key-on words of FM channel `(bank, id)`; a
key-off iff a note, a rest or the end of the track (or a tie, which re-keys when an instrument
change is pending) is delivered in these ticks; the key-on is the LAST key write iff a note (or
such a tie) is delivered in these ticks -/
structure FmKeySched (bank id : Nat) (m0 : LX) (T T' : Nat) (ks : List Nat) : Prop where
  own : ∀ x ∈ ks, x = koff bank id ∨ x = kon bank id
  offIf : DeliveredIn m0 T T' (fun e => e.type = ev_NOTE ∨ e.type = ev_REST ∨ e.type = ev_END) → koff bank id ∈ ks
  offOnly : koff bank id ∈ ks →
    DeliveredIn m0 T T' (fun e => e.type = ev_NOTE ∨ e.type = ev_TIE ∨ e.type = ev_REST ∨ e.type = ev_END)
  onIf : DeliveredIn m0 T T' (fun e => e.type = ev_NOTE) → ks.getLast? = some (kon bank id)
  onOnly : kon bank id ∈ ks → DeliveredIn m0 T T' (fun e => e.type = ev_NOTE ∨ e.type = ev_TIE)

theorem deliveredIn_iff (m0 : LX) (T n : Nat) (p : Event → Prop) :
    DeliveredIn m0 T (T + n) p ↔ ∃ e ∈ (lxRun n (lxAfter T m0)).flatten, p e := by
  constructor
  · rintro ⟨τ, h1, h2, e, he, hp⟩
    exact ⟨e, (mem_lxRun_after n T m0 e).mpr ⟨τ, h1, h2, he⟩, hp⟩
  · rintro ⟨e, he, hp⟩
    obtain ⟨τ, h1, h2, he'⟩ := (mem_lxRun_after n T m0 e).mp he
    exact ⟨τ, h1, h2, e, he', hp⟩

theorem keysV_updMark (d : Data) (song : Song) (s0 : Drv) (k : Nat) : keysV (updMark d song s0 k) = [] := by
  unfold updMark stepLoop
  split <;> rfl

section
variable (d : Data) (song : Song) (root : List Event)

/-- **The key register of the one FM channel, update by update** (composition of
`chUpdate_keys_run`, `lx_sim_run` and `single_update`). -/
theorem single_fm_keys (id : Nat) (hid : id < 6) (hsingle : SingleTrack song id root)
    (cEnd : Core) (B : Nat) (hend : EndOK song root cEnd) (hB : 2 * B + 2 ≤ settleFuel)
    (hpl : PlainHooks song root) (hns : NoSlurHooks song root) (m0 : LX)
    (hrel0 : RelX song root cEnd B ⟨⟨.root, 0, []⟩, {}⟩ m0)
    (k : Nat) (herr : ∀ j, j ≤ k + 1 → (updRun d song j (playSong d song).1).g.err = none) :
    FmKeySched (id / 3) (id % 3) m0 (updRun d song k (playSong d song).1).ticks
      (updRun d song (k + 1) (playSong d song).1).ticks (keysV (updOps d song (playSong d song).1 k)) := by
  have hcid : id % 3 < 3 := Nat.mod_lt _ (by decide)
  have hbank : id / 3 < 2 := by omega
  obtain ⟨P, hP⟩ : ∃ P : G → List (List Event) → G → List Wr → Prop, P = fun _ ws _ wrs =>
      (∀ x ∈ keys wrs, x = koff (id / 3) (id % 3) ∨ x = kon (id / 3) (id % 3)) ∧
      ((∃ e ∈ ws.flatten, e.type = ev_NOTE ∨ e.type = ev_REST ∨ e.type = ev_END) → koff (id / 3) (id % 3) ∈ keys wrs) ∧
      (koff (id / 3) (id % 3) ∈ keys wrs → ∃ e ∈ ws.flatten, e.type = ev_NOTE ∨ e.type = ev_TIE ∨ e.type = ev_REST ∨ e.type = ev_END) ∧
      ((∃ e ∈ ws.flatten, e.type = ev_NOTE) → (keys wrs).getLast? = some (kon (id / 3) (id % 3))) ∧
      (kon (id / 3) (id % 3) ∈ keys wrs → ∃ e ∈ ws.flatten, e.type = ev_NOTE ∨ e.type = ev_TIE) := ⟨_, rfl⟩
  have hmk : (mkCh d id root).1.kind = .fm (id / 3) (id % 3) ∧ (mkCh d id root).1.root = root ∧
      (mkCh d id root).1.ps.err = none ∧ (mkCh d id root).1.slur = false ∧ (mkCh d id root).1.keyOn = false ∧
      (mkCh d id root).1.ps.core = ⟨.root, 0, []⟩ ∧ (mkCh d id root).1.ps.acc = {} ∧ drumOff (mkCh d id root).1.ps.ch := by
    have hd : drumOff
        ({ trackState := ((List.replicate ev_CHANNEL_CMD_COUNT (0 : Int)).set (chIdx ev_VOL_FINE) md_initial_vol).set
            (chIdx ev_PAN) md_initial_pan, mask := [VOL_BIT] } : Chan) := by
      unfold drumOff; decide
    unfold mkCh
    rw [if_pos hid]
    exact ⟨rfl, rfl, rfl, rfl, rfl, rfl, rfl, hd⟩
  have hu := single_update d song root id hsingle cEnd B hend hB
    (fun c => ChOK root (id / 3) (id % 3) c ∧ c.keyOn = false)
    (fun c hc => by
      obtain ⟨r1, r2, r3, r4, r5, r6, r7, _⟩ := resetLoopCh_same c
      exact ⟨⟨r2.trans hc.1.root, r1.trans hc.1.kind, r4.trans hc.1.err, by rw [r5]; exact hc.1.drum, r6.trans hc.1.slur⟩,
        r7.trans hc.2⟩)
    P
    (fun n g c s' ws hc hg hrun => by
      rcases chUpdate_keys_run d song root (id / 3) (id % 3) hcid hbank hpl hns n g c hc.1 hg hc.2 s' ws hrun with h | h
      · exact Or.inl h
      · obtain ⟨a1, a2, a3, a4, a5, a6, a7, a8, a9⟩ := h
        refine Or.inr ⟨a1, a2, ⟨a3, a4⟩, ?_⟩
        rw [hP]; exact ⟨a5, a6, a7, a8, a9⟩)
    ⟨⟨hmk.2.1, hmk.1, hmk.2.2.1, hmk.2.2.2.2.2.2.2, hmk.2.2.2.1⟩, hmk.2.2.2.2.1⟩ m0
    (by rw [hmk.2.2.2.2.2.1, hmk.2.2.2.2.2.2.1]; exact hrel0) k herr
  obtain ⟨s0, hs0⟩ : ∃ s0, s0 = (playSong d song).1 := ⟨_, rfl⟩
  rw [← hs0] at hu herr ⊢
  have hT := (updRun_ticks d song s0 k).1
  rw [hT]
  have hkv : keysV (updOps d song s0 k) = keys (updWrs d song s0 k) := by
    rw [updOps_eq, keysV_append, keysV_toOps, keysV_updMark, List.append_nil]
  rw [hkv]
  have hfacts : P (updRun d song k s0).g (lxRun (updTicks d song s0 k) (lxAfter (updRun d song k s0).ticks m0))
      (seqUpdate d song (updRun d song k s0)).1.g (updWrs d song s0 k) := by
    cases hen : (lxAfter (updRun d song k s0).ticks m0).enabled with
    | true => exact hu.1 hen
    | false =>
      rw [(hu.2 hen).1, hP]
      have hnil := lxRun_disabled (updTicks d song s0 k) _ hen
      simp [hnil]
  rw [hP] at hfacts
  obtain ⟨f1, f2, f3, f4, f5⟩ := hfacts
  exact ⟨f1, fun h => f2 ((deliveredIn_iff _ _ _ _).mp h), fun h => (deliveredIn_iff _ _ _ _).mpr (f3 h),
    fun h => f4 ((deliveredIn_iff _ _ _ _).mp h), fun h => (deliveredIn_iff _ _ _ _).mpr (f5 h)⟩

/-- **The key-on is the last write of its update** (one FM channel, no slur): in every update in
whose ticks a note is delivered, the last register write is the key-on — the frequency word and
every other write of the update precede it. -/
theorem single_fm_kon_last (id : Nat) (hid : id < 6) (hsingle : SingleTrack song id root)
    (cEnd : Core) (B : Nat) (hend : EndOK song root cEnd) (hB : 2 * B + 2 ≤ settleFuel)
    (hpl : PlainHooks song root) (hns : NoSlurHooks song root) (m0 : LX)
    (hrel0 : RelX song root cEnd B ⟨⟨.root, 0, []⟩, {}⟩ m0)
    (k : Nat) (herr : ∀ j, j ≤ k + 1 → (updRun d song j (playSong d song).1).g.err = none)
    (hN : DeliveredIn m0 (updRun d song k (playSong d song).1).ticks (updRun d song (k + 1) (playSong d song).1).ticks
      (fun e => e.type = ev_NOTE)) :
    (updWrs d song (playSong d song).1 k).getLast? = some (konWr (id / 3) (id % 3)) := by
  have hcid : id % 3 < 3 := Nat.mod_lt _ (by decide)
  have hbank : id / 3 < 2 := by omega
  have hmk : (mkCh d id root).1.kind = .fm (id / 3) (id % 3) ∧ (mkCh d id root).1.root = root ∧
      (mkCh d id root).1.ps.err = none ∧ (mkCh d id root).1.slur = false ∧ (mkCh d id root).1.keyOn = false ∧
      (mkCh d id root).1.ps.core = ⟨.root, 0, []⟩ ∧ (mkCh d id root).1.ps.acc = {} ∧ drumOff (mkCh d id root).1.ps.ch := by
    have hd : drumOff
        ({ trackState := ((List.replicate ev_CHANNEL_CMD_COUNT (0 : Int)).set (chIdx ev_VOL_FINE) md_initial_vol).set
            (chIdx ev_PAN) md_initial_pan, mask := [VOL_BIT] } : Chan) := by
      unfold drumOff; decide
    unfold mkCh
    rw [if_pos hid]
    exact ⟨rfl, rfl, rfl, rfl, rfl, rfl, rfl, hd⟩
  have hu := single_update d song root id hsingle cEnd B hend hB
    (fun c => ChOK root (id / 3) (id % 3) c ∧ c.keyOn = false)
    (fun c hc => by
      obtain ⟨r1, r2, r3, r4, r5, r6, r7, _⟩ := resetLoopCh_same c
      exact ⟨⟨r2.trans hc.1.root, r1.trans hc.1.kind, r4.trans hc.1.err, by rw [r5]; exact hc.1.drum, r6.trans hc.1.slur⟩,
        r7.trans hc.2⟩)
    (fun _ ws _ wrs => (∃ e ∈ ws.flatten, e.type = ev_NOTE) → wrs.getLast? = some (konWr (id / 3) (id % 3)))
    (fun n g c s' ws hc hg hrun => by
      rcases chUpdate_keys_run d song root (id / 3) (id % 3) hcid hbank hpl hns n g c hc.1 hg hc.2 s' ws hrun with h | h
      · exact Or.inl h
      · obtain ⟨a1, a2, a3, a4, _⟩ := h
        rcases chUpdate_kon_last_run d song root (id / 3) (id % 3) hcid hpl hns n g c hc.1 hg s' ws hrun with h' | h'
        · exact Or.inl h'
        · exact Or.inr ⟨a1, a2, ⟨a3, a4⟩, h'⟩)
    ⟨⟨hmk.2.1, hmk.1, hmk.2.2.1, hmk.2.2.2.2.2.2.2, hmk.2.2.2.1⟩, hmk.2.2.2.2.1⟩ m0
    (by rw [hmk.2.2.2.2.2.1, hmk.2.2.2.2.2.2.1]; exact hrel0) k herr
  have hT := (updRun_ticks d song (playSong d song).1 k).1
  rw [hT] at hN
  have hN' := (deliveredIn_iff _ _ _ _).mp hN
  cases hen : (lxAfter (updRun d song k (playSong d song).1).ticks m0).enabled with
  | true => exact hu.1 hen hN'
  | false =>
    exfalso
    obtain ⟨e, he, _⟩ := hN'
    rw [lxRun_disabled _ _ hen] at he
    cases he

end

end Ctrmml.MdDriver
