/-
  Helper lemmas for C14 (no property statements here): arithmetic of `fit_sample`,
  `find_gap`, list surgery of `copy_n`, cover/total bookkeeping, the allocator invariant
  and its preservation by `add_sample`.
-/
import Ctrmml.Model.Wave
import Ctrmml.Spec.Alloc
namespace Ctrmml.Wave
open Ctrmml Ctrmml.Alloc

theorem u32_small {x : Nat} (h : x < 4294967296) : u32 x = x := Nat.mod_eq_of_lt h

/-! ### fit_sample -/

theorem fitStart_spec (bank size start : Nat) (hb : 0 < bank) (hbs : bank < 1073741824)
    (hst : start < 1073741824) (hsz : size < 1073741824) :
    start ≤ fitStart bank size start ∧ fitStart bank size start ≤ start + bank + 31 ∧
    (size ≤ bank → ∃ k, k * bank ≤ fitStart bank size start ∧ fitStart bank size start + size ≤ (k + 1) * bank) := by
  have hd1 := Nat.div_mul_le_self start bank
  have hd2 := Nat.lt_mul_div_succ start hb
  have hd4 := Nat.lt_mul_div_succ (start + size) hb
  have hle1 : start / bank ≤ start := Nat.div_le_self _ _
  have hle2 : (start + size) / bank ≤ start + size := Nat.div_le_self _ _
  have e1 : u32 (start + size) = start + size := u32_small (by omega)
  have e2 : u32 (start / bank) = start / bank := u32_small (by omega)
  have e3 : u32 ((start + size) / bank) = (start + size) / bank := u32_small (by omega)
  have hmul : (start / bank + 1) * bank = start / bank * bank + bank := by rw [Nat.add_mul, Nat.one_mul]
  have hmul' : bank * (start / bank + 1) = start / bank * bank + bank := by rw [Nat.mul_comm]; exact hmul
  have hmul2 : bank * ((start + size) / bank + 1) = (start + size) / bank * bank + bank := by
    rw [Nat.mul_comm, Nat.add_mul, Nat.one_mul]
  unfold fitStart
  simp only [e1, e2, e3, Tables.wave_align]
  split
  · rename_i c1
    have e4 : u32 (start + (32 - 1)) = start + 31 := u32_small (by omega)
    rw [e4]
    refine ⟨by omega, by omega, fun hle => by omega⟩
  · split
    · rename_i c1 c2
      have e6 : u32 ((start / bank + 1) * bank) = (start / bank + 1) * bank := u32_small (by omega)
      rw [e6]
      refine ⟨by omega, by omega, fun hle => ⟨start / bank + 1, Nat.le_refl _, ?_⟩⟩
      have : (start / bank + 1 + 1) * bank = (start / bank + 1) * bank + bank := by rw [Nat.add_mul _ 1, Nat.one_mul]
      omega
    · rename_i c1 c2
      refine ⟨Nat.le_refl _, by omega, fun hle => ⟨start / bank, hd1, ?_⟩⟩
      by_cases hsame : start / bank = (start + size) / bank
      · rw [← hsame] at hmul2 hd4; omega
      · have hz : start % bank = 0 := by
          rcases Nat.eq_zero_or_pos (start % bank) with hz | hz
          · exact hz
          · exact absurd ⟨hsame, by omega⟩ c2
        have := Nat.div_add_mod start bank
        rw [hz, Nat.mul_comm] at this
        omega

/-- result of `fit_sample` when it is not `NO_FIT` -/
theorem fit_spec (bank size start stop : Nat) (hb : 0 < bank) (hbs : bank < 1073741824)
    (hst : start ≤ stop) (hstop : stop < 1073741824) (hsz : size < 1073741824)
    (h : fitSample bank size start stop ≠ NO_FIT) :
    fitSample bank size start stop = fitStart bank size start ∧
    start ≤ fitSample bank size start stop ∧ fitSample bank size start stop + size ≤ stop ∧
    (size ≤ bank → ∃ k, k * bank ≤ fitSample bank size start stop ∧ fitSample bank size start stop + size ≤ (k + 1) * bank) := by
  obtain ⟨h1, h2, h3⟩ := fitStart_spec bank size start hb hbs (by omega) hsz
  have e : u32 (fitStart bank size start + size) = fitStart bank size start + size := u32_small (by omega)
  unfold fitSample at h ⊢
  rw [e] at h ⊢
  split at h
  · exact absurd rfl h
  · rename_i hgt
    rw [if_neg hgt]
    exact ⟨rfl, h1, by omega, h3⟩

/-- the three outcomes of the adjustment -/
theorem fitStart_cases (bank size start : Nat) (hb : 0 < bank) (hbs : bank < 1073741824)
    (hst : start < 1073741824) (hsz : size < 1073741824) :
    fitStart bank size start = start ∨
    (fitStart bank size start = (start + 31) / 32 * 32 ∧ size > bank) ∨
    (fitStart bank size start = (start / bank + 1) * bank ∧ size ≤ bank) := by
  have hle1 : start / bank ≤ start := Nat.div_le_self _ _
  have hle2 : (start + size) / bank ≤ start + size := Nat.div_le_self _ _
  have hd1 := Nat.div_mul_le_self start bank
  have hmul : (start / bank + 1) * bank = start / bank * bank + bank := by rw [Nat.add_mul, Nat.one_mul]
  have e1 : u32 (start + size) = start + size := u32_small (by omega)
  have e2 : u32 (start / bank) = start / bank := u32_small (by omega)
  have e3 : u32 ((start + size) / bank) = (start + size) / bank := u32_small (by omega)
  unfold fitStart
  simp only [e1, e2, e3, Tables.wave_align]
  split
  · rename_i c1
    have e4 : u32 (start + (32 - 1)) = start + 31 := u32_small (by omega)
    rw [e4]; exact Or.inr (Or.inl ⟨rfl, c1.2⟩)
  · split
    · rename_i c1 c2
      have e6 : u32 ((start / bank + 1) * bank) = (start / bank + 1) * bank := u32_small (by omega)
      rw [e6]; refine Or.inr (Or.inr ⟨rfl, ?_⟩)
      rcases Nat.lt_or_ge bank size with hgt | hle
      · exact absurd ⟨c2.1, hgt⟩ c1
      · exact hle
    · exact Or.inl rfl

/-- a position produced by the adjustment is left alone by it -/
theorem fitStart_idem (bank size start : Nat) (hb : 0 < bank) (hbs : bank < 1073741824)
    (hst : start < 1073741824) (hsz : size < 1073741824) :
    fitStart bank size (fitStart bank size start) = fitStart bank size start := by
  rcases fitStart_cases bank size start hb hbs hst hsz with h | ⟨h, hgt⟩ | ⟨h, hle⟩
  · rw [h, h]
  · rw [h]
    generalize hs : (start + 31) / 32 * 32 = s
    have hs32 : (s + 31) / 32 * 32 = s := by omega
    have hslt : s < 1073741824 + 32 := by omega
    have hle1 : s / bank ≤ s := Nat.div_le_self _ _
    have hle2 : (s + size) / bank ≤ s + size := Nat.div_le_self _ _
    have e1 : u32 (s + size) = s + size := u32_small (by omega)
    have e2 : u32 (s / bank) = s / bank := u32_small (by omega)
    have e3 : u32 ((s + size) / bank) = (s + size) / bank := u32_small (by omega)
    unfold fitStart
    simp only [e1, e2, e3, Tables.wave_align]
    split
    · have e4 : u32 (s + (32 - 1)) = s + 31 := u32_small (by omega)
      rw [e4]; exact hs32
    · split
      · rename_i c1 c2
        exact absurd ⟨c2.1, hgt⟩ c1
      · rfl
  · rw [h]
    have hmul : (start / bank + 1) * bank = start / bank * bank + bank := by rw [Nat.add_mul, Nat.one_mul]
    have hd1 := Nat.div_mul_le_self start bank
    generalize hs : (start / bank + 1) * bank = s at *
    have hmod : s % bank = 0 := by rw [← hs]; exact Nat.mul_mod_left _ _
    have hle1 : s / bank ≤ s := Nat.div_le_self _ _
    have hle2 : (s + size) / bank ≤ s + size := Nat.div_le_self _ _
    have e1 : u32 (s + size) = s + size := u32_small (by omega)
    have e2 : u32 (s / bank) = s / bank := u32_small (by omega)
    have e3 : u32 ((s + size) / bank) = (s + size) / bank := u32_small (by omega)
    unfold fitStart
    simp only [e1, e2, e3, Tables.wave_align]
    split
    · rename_i c1; omega
    · split
      · rename_i c1 c2; exact absurd hmod c2.2
      · rfl

/-! ### copy_n as list surgery -/

theorem writeAt_length (rom src : Bytes) (a n : Nat) (h1 : a + n ≤ rom.length) (h2 : n ≤ src.length) :
    (writeAt rom a src n).length = rom.length := by
  simp [writeAt]; omega

theorem writeAt_zero (rom src : Bytes) (a : Nat) : writeAt rom a src 0 = rom := by
  simp [writeAt]

theorem reads_writeAt_self (rom src : Bytes) (a n : Nat) (h1 : a + n ≤ rom.length) (h2 : n ≤ src.length) :
    Win.reads (writeAt rom a src n) ⟨a, n⟩ = src.take n := by
  have hl : (rom.take a).length = a := by simp; omega
  simp only [Win.reads, writeAt, List.append_assoc]
  rw [List.drop_append_of_le_length (by omega)]
  have : List.drop a (List.take a rom) = [] := by
    apply List.drop_eq_nil_of_le; omega
  rw [this, List.nil_append, List.take_append_of_le_length (by simp; omega)]
  apply List.take_of_length_le; simp; omega

theorem reads_writeAt_other (rom src : Bytes) (a n : Nat) (w : Win) (h1 : a + n ≤ rom.length) (h2 : n ≤ src.length)
    (hd : w.lo + w.len ≤ a ∨ a + n ≤ w.lo) : Win.reads (writeAt rom a src n) w = Win.reads rom w := by
  have hl : (rom.take a).length = a := by simp; omega
  have hm : (src.take n).length = n := by simp; omega
  simp only [Win.reads, writeAt]
  rcases hd with hd | hd
  · rw [List.append_assoc, List.drop_append_of_le_length (by omega),
        List.take_append_of_le_length (by simp; omega)]
    rw [List.drop_take, List.take_take]
    congr 1; omega
  · have hlen : (rom.take a ++ src.take n).length = a + n := by rw [List.length_append, hl, hm]
    have h3 : List.drop w.lo (rom.take a ++ src.take n ++ rom.drop (a + n)) = List.drop (w.lo - (a + n)) (rom.drop (a + n)) := by
      rw [List.drop_append, hlen, List.drop_eq_nil_of_le (by rw [hlen]; exact hd), List.nil_append]
    rw [h3, List.drop_drop]; congr 2; omega

theorem reads_sub (rom data : Bytes) (p st sz : Nat) (h : (rom.drop p).take data.length = data)
    (hs : st + sz ≤ data.length) : Win.reads rom ⟨p + st, sz⟩ = (data.drop st).take sz := by
  simp only [Win.reads]
  conv => rhs; rw [← h]
  rw [List.drop_take, List.take_take, List.drop_drop]
  congr 1; omega

/-! ### cover / total bookkeeping -/

theorem ite01 (c : Prop) [Decidable c] :
    (c ∧ (if c then 1 else 0 : Nat) = 1) ∨ (¬ c ∧ (if c then 1 else 0 : Nat) = 0) := by
  by_cases h : c <;> simp [h]

def ind (p : Win) (x : Nat) : Nat := if p.lo ≤ x ∧ x < p.lo + p.len then 1 else 0

theorem ind_val (lo len x : Nat) :
    (lo ≤ x ∧ x < lo + len ∧ ind ⟨lo, len⟩ x = 1) ∨ (¬ (lo ≤ x ∧ x < lo + len) ∧ ind ⟨lo, len⟩ x = 0) := by
  unfold ind
  by_cases h : lo ≤ x ∧ x < lo + len
  · exact Or.inl ⟨h.1, h.2, by simp [h]⟩
  · exact Or.inr ⟨h, by simp [h]⟩

theorem cover_eq (ps : List Win) (x : Nat) : cover ps x = (ps.map fun p => ind p x).sum := rfl

theorem cover_append (a c : List Win) (x : Nat) : cover (a ++ c) x = cover a x + cover c x := by
  simp [cover]

theorem total_append (a c : List Win) : total (a ++ c) = total a + total c := by
  simp [total]

theorem cover_single (p : Win) (x : Nat) : cover [p] x = ind p x := by simp [cover, ind]

theorem cover_mem (ps : List Win) (p : Win) (x : Nat) (hm : p ∈ ps) (hx : p.has x) : 1 ≤ cover ps x := by
  induction ps with
  | nil => cases hm
  | cons q qs ih =>
    simp only [cover, List.map_cons, List.sum_cons]
    rcases List.mem_cons.mp hm with rfl | hm
    · have := hx; simp only [Win.has] at this; simp [this]
    · have := ih hm; simp only [cover] at this; omega

theorem cover_set (ps : List Win) (i : Nat) (q : Win) (x : Nat) (hi : i < ps.length) :
    cover (ps.set i q) x + ind (ps[i]) x = cover ps x + ind q x := by
  induction ps generalizing i with
  | nil => cases hi
  | cons p ps ih =>
    cases i with
    | zero => simp [cover, ind]; omega
    | succ i =>
      have := ih i (by simpa using hi)
      simp only [cover, List.set_cons_succ, List.map_cons, List.sum_cons, List.getElem_cons_succ] at this ⊢
      omega

theorem total_set (ps : List Win) (i : Nat) (q : Win) (hi : i < ps.length) :
    total (ps.set i q) + (ps[i]).len = total ps + q.len := by
  induction ps generalizing i with
  | nil => cases hi
  | cons p ps ih =>
    cases i with
    | zero => simp [total]; omega
    | succ i =>
      have := ih i (by simpa using hi)
      simp only [total, List.set_cons_succ, List.map_cons, List.sum_cons, List.getElem_cons_succ] at this ⊢
      omega

/-! ### find_gap -/

theorem findGapGo_spec (bank size : Nat) (gs : List Gap) (i : Nat) (best : Option (Nat × Nat)) (bs j sp : Nat)
    (h : findGapGo bank size gs i best bs = some (j, sp)) :
    best = some (j, sp) ∨ (i ≤ j ∧ ∃ g, gs[j - i]? = some g ∧ sp = fitSample bank size (u32 g.start) (u32 g.stop) ∧ sp ≠ NO_FIT) := by
  induction gs generalizing i best bs with
  | nil => simp [findGapGo] at h; exact Or.inl h
  | cons g gs ih =>
    simp only [findGapGo] at h
    split at h
    · rename_i c
      rcases ih _ _ _ h with hb | ⟨hle, g', hg, hsp, hn⟩
      · simp only [Option.some.injEq, Prod.mk.injEq] at hb
        obtain ⟨rfl, rfl⟩ := hb
        exact Or.inr ⟨Nat.le_refl _, g, by simp, rfl, c.1⟩
      · refine Or.inr ⟨by omega, g', ?_, hsp, hn⟩
        have : j - i = (j - (i + 1)) + 1 := by omega
        rw [this, List.getElem?_cons_succ]; exact hg
    · rcases ih _ _ _ h with hb | ⟨hle, g', hg, hsp, hn⟩
      · exact Or.inl hb
      · refine Or.inr ⟨by omega, g', ?_, hsp, hn⟩
        have : j - i = (j - (i + 1)) + 1 := by omega
        rw [this, List.getElem?_cons_succ]; exact hg

theorem findGap_spec (b : Bank) (size j sp : Nat) (h : findGap b size = some (j, sp)) :
    ∃ g, b.gaps[j]? = some g ∧ sp = fitSample b.bankSize size (u32 g.start) (u32 g.stop) ∧ sp ≠ NO_FIT := by
  rcases findGapGo_spec _ _ _ _ _ _ _ _ h with hb | ⟨_, g, hg, hsp, hn⟩
  · cases hb
  · exact ⟨g, by simpa using hg, hsp, hn⟩

/-! ### the allocator invariant -/

def Gap.win (g : Gap) : Win := ⟨g.start, g.stop - g.start⟩
def Sample.win (s : Sample) : Win := ⟨s.position + s.start, s.size⟩

/-- invariant of a bank together with the (ghost) list of regions handed out by fresh placements -/
structure Inv (b : Bank) (rs : List Win) : Prop where
  romLen : b.rom.length = b.maxSize
  curLe : b.currentSize ≤ b.maxSize
  bankPos : 0 < b.bankSize
  small : b.maxSize < 1073741824 ∧ b.bankSize < 1073741824
  gapWf : ∀ g ∈ b.gaps, g.start ≤ g.stop ∧ g.stop ≤ b.currentSize
  regWf : ∀ r ∈ rs, r.lo + r.len ≤ b.currentSize
  tiles : Tiles (rs ++ b.gaps.map Gap.win) b.currentSize
  account : total rs + total (b.gaps.map Gap.win) = b.currentSize
  housed : ∀ s ∈ b.samples, ∃ r ∈ rs, r.lo ≤ s.position ∧ s.position + s.start + s.size ≤ r.lo + r.len
  placed : ∀ s ∈ b.samples, fitStart b.bankSize s.size (s.position + s.start) = s.position + s.start

/-- admissible addition: the data handed over is below 1 GiB (the range in which the 32-bit
arithmetic of wave.cpp is exact).  The bank argument is kept for the callers; since the repair
of D11 there is no condition on the start offset (a window outside the data is refused by
`add_sample` itself: `tooLong`). -/
structure Adm (_b : Bank) (_h : Sample) (data : Bytes) : Prop where
  small : data.length < 1073741824

theorem inv_new (m bk : Nat) (hm : 0 < m) (hm2 : m < 1073741824) (hb : bk < 1073741824) : Inv (Bank.new m bk) [] := by
  refine ⟨by simp [Bank.new], by simp [Bank.new], ?_, ?_, by simp [Bank.new], by simp, ?_, by simp [Bank.new, total], by simp [Bank.new], by simp [Bank.new]⟩
  · simp only [Bank.new]; split <;> omega
  · simp only [Bank.new]; split <;> omega
  · intro x; simp [Bank.new, cover]

theorem ind_le_one (p : Win) (x : Nat) : ind p x ≤ 1 := by unfold ind; split <;> omega

/-- what the placement decision guarantees -/
theorem placeFresh_spec (b : Bank) (rs : List Win) (size : Nat) (inv : Inv b rs) (hsz : size < 1073741824)
    (hfit : (placeFresh b size).2.1 ≠ NO_FIT) :
    let st := (placeFresh b size).1
    let sp := (placeFresh b size).2.1
    let gaps2 := if sp > st then (placeFresh b size).2.2 ++ [⟨st, sp⟩] else (placeFresh b size).2.2
    let cur' := if sp ≥ b.currentSize then u32 (sp + size) else b.currentSize
    fitStart b.bankSize size sp = sp ∧ b.currentSize ≤ cur' ∧ cur' ≤ b.maxSize ∧ sp + size ≤ cur' ∧
    (∀ g ∈ gaps2, g.start ≤ g.stop ∧ g.stop ≤ cur') ∧
    (∀ x, cover (gaps2.map Gap.win) x + ind ⟨sp, size⟩ x + (if x < b.currentSize then 1 else 0) =
          cover (b.gaps.map Gap.win) x + (if x < cur' then 1 else 0)) ∧
    (total (gaps2.map Gap.win) + size + b.currentSize = total (b.gaps.map Gap.win) + cur') ∧
    (∀ x, sp ≤ x → x < sp + size → cover rs x = 0) := by
  obtain ⟨hm, hbk⟩ := inv.small
  have hcur := inv.curLe
  have ecur : u32 b.currentSize = b.currentSize := u32_small (by omega)
  have emax : u32 b.maxSize = b.maxSize := u32_small (by omega)
  unfold placeFresh at hfit ⊢
  split at hfit
  · -- a gap is reused
    rename_i gid sp hg
    obtain ⟨g, hgg, hsp, hne⟩ := findGap_spec b size gid sp hg
    have hlt : gid < b.gaps.length := by
      rcases Nat.lt_or_ge gid b.gaps.length with h | h
      · exact h
      · rw [List.getElem?_eq_none h] at hgg; cases hgg
    have hgmem : g ∈ b.gaps := List.mem_of_getElem? hgg
    obtain ⟨hg1, hg2⟩ := inv.gapWf g hgmem
    have egs : u32 g.start = g.start := u32_small (by omega)
    have ege : u32 g.stop = g.stop := u32_small (by omega)
    rw [egs, ege] at hsp
    obtain ⟨f1, f2, f3, _⟩ := fit_spec b.bankSize size g.start g.stop inv.bankPos hbk hg1 (by omega) hsz (by rw [← hsp]; exact hne)
    rw [← hsp] at f1 f2 f3
    have hgd : b.gaps.getD gid ⟨0, 0⟩ = g := by
      rw [List.getD_eq_getElem?_getD, hgg]; rfl
    have hget : b.gaps[gid] = g := by
      have := List.getElem?_eq_getElem hlt; rw [this] at hgg; exact Option.some.inj hgg
    simp only [hg, hgd, egs]
    have esz : u32 (sp + size) = sp + size := u32_small (by omega)
    simp only [esz]
    have hcur' : (if sp ≥ b.currentSize then sp + size else b.currentSize) = b.currentSize := by
      split <;> omega
    rw [hcur']
    have hidem : fitStart b.bankSize size sp = sp := by
      rw [f1]; exact fitStart_idem _ _ _ inv.bankPos hbk (by omega) hsz
    -- the modified gap list
    have hmapset : (b.gaps.set gid { g with start := sp + size }).map Gap.win =
        (b.gaps.map Gap.win).set gid ⟨sp + size, g.stop - (sp + size)⟩ := by
      rw [List.map_set]; rfl
    have hlen' : gid < (b.gaps.map Gap.win).length := by simpa using hlt
    have hgetm : (b.gaps.map Gap.win)[gid] = ⟨g.start, g.stop - g.start⟩ := by
      simp [hget, Gap.win]
    refine ⟨hidem, Nat.le_refl _, hcur, by omega, ?_, ?_, ?_, ?_⟩
    · intro g' hg'
      have hin : g' ∈ b.gaps.set gid { g with start := sp + size } ∨ g' = ⟨g.start, sp⟩ := by
        by_cases hgt : sp > g.start
        · rw [if_pos hgt] at hg'
          rcases List.mem_append.mp hg' with h | h
          · exact Or.inl h
          · exact Or.inr (by simpa using h)
        · rw [if_neg hgt] at hg'; exact Or.inl hg'
      rcases hin with h | rfl
      · rcases List.mem_or_eq_of_mem_set h with h | rfl
        · exact inv.gapWf g' h
        · exact ⟨by simp; omega, hg2⟩
      · exact ⟨by simp; omega, by simp; omega⟩
    · intro x
      have hs := cover_set (b.gaps.map Gap.win) gid ⟨sp + size, g.stop - (sp + size)⟩ x hlen'
      rw [hgetm] at hs
      by_cases hgt : sp > g.start
      · rw [if_pos hgt, List.map_append, cover_append, hmapset, List.map_cons, List.map_nil, cover_single]
        simp only [Gap.win] at hs ⊢
        have b1 := ind_val g.start (g.stop - g.start) x
        have b2 := ind_val (sp + size) (g.stop - (sp + size)) x
        have b3 := ind_val g.start (sp - g.start) x
        have b4 := ind_val sp size x
        have a5 := ite01 (x < b.currentSize)
        omega
      · rw [if_neg hgt, hmapset]
        simp only [ind, Gap.win] at hs ⊢
        revert hs
        repeat' split
        all_goals (intro hs; omega)
    · have ht := total_set (b.gaps.map Gap.win) gid ⟨sp + size, g.stop - (sp + size)⟩ hlen'
      rw [hgetm] at ht
      by_cases hgt : sp > g.start
      · rw [if_pos hgt, List.map_append, total_append, hmapset]
        simp only [total, List.map_cons, List.map_nil, List.sum_cons, List.sum_nil, Gap.win] at ht ⊢
        omega
      · rw [if_neg hgt, hmapset]; simp only [total] at ht ⊢; omega
    · intro x hx1 hx2
      have ht := inv.tiles x
      rw [cover_append] at ht
      have hc : 1 ≤ cover (b.gaps.map Gap.win) x :=
        cover_mem _ (Gap.win g) x (List.mem_map_of_mem hgmem) (by simp [Win.has, Gap.win]; omega)
      split at ht <;> omega
  · -- appended at the end
    rename_i hg
    simp only [hg, ecur, emax] at hfit ⊢
    obtain ⟨f1, f2, f3, _⟩ := fit_spec b.bankSize size b.currentSize b.maxSize inv.bankPos hbk hcur hm hsz hfit
    generalize hspd : fitSample b.bankSize size b.currentSize b.maxSize = sp at *
    have esz : u32 (sp + size) = sp + size := u32_small (by omega)
    have hcur' : (if sp ≥ b.currentSize then u32 (sp + size) else b.currentSize) = sp + size := by
      rw [esz]; split <;> omega
    rw [hcur']
    have hidem : fitStart b.bankSize size sp = sp := by
      rw [f1]; exact fitStart_idem _ _ _ inv.bankPos hbk (by omega) hsz
    refine ⟨hidem, by omega, by omega, Nat.le_refl _, ?_, ?_, ?_, ?_⟩
    · intro g' hg'
      by_cases hgt : sp > b.currentSize
      · rw [if_pos hgt] at hg'
        rcases List.mem_append.mp hg' with h | h
        · have := inv.gapWf g' h; omega
        · have : g' = ⟨b.currentSize, sp⟩ := by simpa using h
          subst this; exact ⟨by simp; omega, by simp⟩
      · rw [if_neg hgt] at hg'
        have := inv.gapWf g' hg'; omega
    · intro x
      by_cases hgt : sp > b.currentSize
      · rw [if_pos hgt, List.map_append, cover_append, List.map_cons, List.map_nil, cover_single]
        simp only [Gap.win]
        have b1 := ind_val b.currentSize (sp - b.currentSize) x
        have b2 := ind_val sp size x
        have a3 := ite01 (x < b.currentSize)
        have a4 := ite01 (x < sp + size)
        omega
      · rw [if_neg hgt]
        simp only [ind]
        repeat' split
        all_goals omega
    · by_cases hgt : sp > b.currentSize
      · rw [if_pos hgt, List.map_append, total_append]
        simp only [total, List.map_cons, List.map_nil, List.sum_cons, List.sum_nil, Gap.win]
        omega
      · rw [if_neg hgt]; omega
    · intro x hx1 hx2
      have ht := inv.tiles x
      rw [cover_append] at ht
      split at ht <;> omega

/-- regions after one addition: a fresh placement hands out `[position, position+size)` -/
def stepRegions (b : Bank) (h : Sample) (data : Bytes) (rs : List Win) : List Win :=
  match findDuplicate b h data with
  | some _ => rs
  | none => rs ++ [⟨(placeFresh b h.size).2.1, h.size⟩]

theorem housed_bounds {b : Bank} {rs : List Win} (inv : Inv b rs) {s : Sample} (hs : s ∈ b.samples) :
    s.position + s.start + s.size ≤ b.currentSize := by
  obtain ⟨r, hr, _, h2⟩ := inv.housed s hs
  have := inv.regWf r hr; omega

/-- the "create a new entry" branch keeps the invariant, shows the requested bytes and leaves
every byte of every older region alone -/
theorem addFresh_step (b : Bank) (rs : List Win) (h : Sample) (data : Bytes) (b' : Bank) (idx : Nat)
    (inv : Inv b rs) (hfits : h.start + h.size ≤ data.length) (hsmall : data.length < 1073741824)
    (hr : addFresh b h data = .ok (b', idx)) :
    Inv b' (rs ++ [⟨(placeFresh b h.size).2.1, h.size⟩]) ∧
    idx = b.samples.length ∧ b'.samples = b.samples ++ [{ h with position := (placeFresh b h.size).2.1, start := 0 }] ∧
    Win.reads b'.rom ⟨(placeFresh b h.size).2.1, h.size⟩ = (data.drop h.start).take h.size ∧
    (∀ w : Win, (∃ r ∈ rs, r.lo ≤ w.lo ∧ w.lo + w.len ≤ r.lo + r.len) → w.reads b'.rom = w.reads b.rom) ∧
    b.currentSize ≤ b'.currentSize ∧ b'.maxSize = b.maxSize ∧ b'.bankSize = b.bankSize := by
  unfold addFresh at hr
  simp only [] at hr
  split at hr
  · cases hr
  · rename_i hfit
    split at hr
    · cases hr
    · rename_i hoob
      have hsz : h.size < 1073741824 := by omega
      obtain ⟨p1, p2, p3, p4, p5, p6, p7, p8⟩ := placeFresh_spec b rs h.size inv hsz hfit
      generalize hst : (placeFresh b h.size).1 = st at *
      generalize hsp : (placeFresh b h.size).2.1 = sp at *
      generalize hg1 : (placeFresh b h.size).2.2 = gaps1 at *
      simp only [Except.ok.injEq, Prod.mk.injEq] at hr
      obtain ⟨hb', hidx⟩ := hr
      subst hb'
      have hrl := inv.romLen
      have hw1 : sp + h.size ≤ b.rom.length := by omega
      have hw2 : h.size ≤ (data.drop h.start).length := by simp only [List.length_drop]; omega
      refine ⟨?_, hidx.symm, rfl, ?_, ?_, p2, rfl, rfl⟩
      · refine ⟨?_, p3, inv.bankPos, inv.small, p5, ?_, ?_, ?_, ?_, ?_⟩
        · simp only; rw [writeAt_length _ _ _ _ hw1 hw2]; exact hrl
        · intro r hr
          rcases List.mem_append.mp hr with hr | hr
          · have := inv.regWf r hr; simp only; omega
          · have : r = ⟨sp, h.size⟩ := by simpa using hr
            subst this; simp only; omega
        · intro x
          have ht := inv.tiles x
          have h6 := p6 x
          simp only [List.append_assoc, cover_append, cover_single] at ht h6 ⊢
          omega
        · have ha := inv.account
          simp only [total_append] at ha p7 ⊢
          simp only [total, List.map_cons, List.map_nil, List.sum_cons, List.sum_nil] at ha p7 ⊢
          omega
        · intro s hs
          rcases List.mem_append.mp hs with hs | hs
          · obtain ⟨r, hr, h1, h2⟩ := inv.housed s hs
            exact ⟨r, List.mem_append_left _ hr, h1, h2⟩
          · have : s = { h with position := sp, start := 0 } := by simpa using hs
            subst this
            exact ⟨⟨sp, h.size⟩, List.mem_append_right _ (by simp), Nat.le_refl _, by simp only; omega⟩
        · intro s hs
          rcases List.mem_append.mp hs with hs | hs
          · exact inv.placed s hs
          · have : s = { h with position := sp, start := 0 } := by simpa using hs
            subst this
            simp only [Nat.add_zero]; exact p1
      · exact reads_writeAt_self _ _ _ _ hw1 hw2
      · intro w ⟨r, hr, hw1', hw2'⟩
        simp only
        by_cases hz : h.size = 0
        · rw [hz, writeAt_zero]
        by_cases hwz : w.len = 0
        · simp [Win.reads, hwz]
        apply reads_writeAt_other _ _ _ _ _ hw1 hw2
        have c1 : ¬ (r.lo ≤ sp ∧ sp < r.lo + r.len) := by
          intro hc
          have := cover_mem rs r sp hr (by simp only [Win.has]; exact hc)
          have := p8 sp (Nat.le_refl _) (by omega); omega
        have c2 : ¬ (sp ≤ w.lo ∧ w.lo < sp + h.size) := by
          intro hc
          have := cover_mem rs r w.lo hr (by simp only [Win.has]; omega)
          have := p8 w.lo hc.1 hc.2; omega
        omega

/-- the result of one successful addition, as the client sees it -/
structure StepOut (b : Bank) (rs rs' : List Win) (h : Sample) (data : Bytes) (b' : Bank) (idx : Nat) : Prop where
  inv : Inv b' rs'
  entry : ∃ s, b'.samples[idx]? = some s ∧ s.win.reads b'.rom = (data.drop h.start).take h.size ∧
            s.start = (if (findDuplicate b h data).isSome then h.start else 0) ∧ s.size = h.size ∧ s.rate = h.rate
  stable : ∀ w : Win, (∃ r ∈ rs, r.lo ≤ w.lo ∧ w.lo + w.len ≤ r.lo + r.len) → w.reads b'.rom = w.reads b.rom
  grows : (idx < b.samples.length ∧ b'.samples = b.samples) ∨ (idx = b.samples.length ∧ ∃ s, b'.samples = b.samples ++ [s])
  same : b'.maxSize = b.maxSize ∧ b'.bankSize = b.bankSize

theorem addSample_step (b : Bank) (rs : List Win) (h : Sample) (data : Bytes) (b' : Bank) (idx : Nat)
    (inv : Inv b rs) (adm : Adm b h data) (hr : addSample b h data = .ok (b', idx)) :
    StepOut b rs (stepRegions b h data rs) h data b' idx := by
  unfold addSample at hr
  have hb0 : ¬ b.bankSize = 0 := by have := inv.bankPos; omega
  by_cases hsz0 : h.start + h.size > data.length
  · simp only [hsz0, if_true] at hr; cases hr
  have hfits : h.start + h.size ≤ data.length := by omega
  simp only [hb0, hsz0, if_false] at hr
  split at hr
  · -- shared data
    rename_i d hd
    have hsr : stepRegions b h data rs = rs := by simp [stepRegions, hd]
    rw [hsr]
    have hdS : (findDuplicate b h data).isSome = true := by rw [hd]; rfl
    unfold findDuplicate at hd
    obtain ⟨hlt, hp, _⟩ := List.findIdx?_eq_some_iff_getElem.mp hd
    have hgd : b.samples.getD d h = b.samples[d] := by
      rw [List.getD_eq_getElem?_getD, List.getElem?_eq_getElem hlt]; rfl
    rw [hgd] at hr
    generalize hi : b.samples[d] = i at *
    have him : i ∈ b.samples := by rw [← hi]; exact List.getElem_mem hlt
    simp only [dupTest, Bool.and_eq_true, decide_eq_true_eq] at hp
    obtain ⟨⟨⟨⟨t1, t2⟩, t3⟩, t4⟩, t5⟩ := hp
    obtain ⟨r, hrm, hr1, hr2⟩ := inv.housed i him
    have hrw := inv.regWf r hrm
    have hcur := inv.curLe
    obtain ⟨hm, hbk⟩ := inv.small
    have epos : u32 (i.position + h.start) = i.position + h.start := u32_small (by omega)
    have erl : u32 b.rom.length = b.rom.length := u32_small (by rw [inv.romLen]; omega)
    rw [epos, erl] at t4
    have hplaced : fitStart b.bankSize h.size (i.position + h.start) = i.position + h.start := by
      have hne : fitSample b.bankSize h.size (i.position + h.start) b.rom.length ≠ NO_FIT := by
        rw [t4]; simp only [NO_FIT, Tables.wave_NO_FIT]; omega
      have := (fit_spec b.bankSize h.size (i.position + h.start) b.rom.length inv.bankPos hbk
        (by rw [inv.romLen]; omega) (by rw [inv.romLen]; omega) (by omega) hne).1
      rw [t4] at this; exact this.symm
    have hcontent : Win.reads b.rom ⟨i.position + h.start, h.size⟩ = (data.drop h.start).take h.size :=
      reads_sub b.rom data i.position h.start h.size t5 hfits
    have hhoused : ∃ r ∈ rs, r.lo ≤ i.position ∧ i.position + h.start + h.size ≤ r.lo + r.len :=
      ⟨r, hrm, hr1, by omega⟩
    split at hr
    · -- an equal header exists: reuse it
      rename_i ri hri
      simp only [Except.ok.injEq, Prod.mk.injEq] at hr
      obtain ⟨rfl, rfl⟩ := hr
      obtain ⟨hlt2, hp2, _⟩ := List.findIdx?_eq_some_iff_getElem.mp hri
      simp only [sameHeader, decide_eq_true_eq] at hp2
      refine ⟨inv, ⟨b.samples[ri], List.getElem?_eq_getElem hlt2, ?_, ?_, ?_, ?_⟩, fun _ _ => rfl, Or.inl ⟨hlt2, rfl⟩, rfl, rfl⟩
      all_goals rw [hp2]
      · exact hcontent
      · simp only [hdS, if_true]
      all_goals rfl
    · simp only [Except.ok.injEq, Prod.mk.injEq] at hr
      obtain ⟨rfl, rfl⟩ := hr
      refine ⟨?_, ⟨{ h with position := i.position }, by simp, hcontent, by simp only [hdS, if_true], rfl, rfl⟩, fun _ _ => rfl, Or.inr ⟨rfl, _, rfl⟩, rfl, rfl⟩
      refine ⟨inv.romLen, inv.curLe, inv.bankPos, inv.small, inv.gapWf, inv.regWf, inv.tiles, inv.account, ?_, ?_⟩
      · intro s hs
        rcases List.mem_append.mp hs with hs | hs
        · exact inv.housed s hs
        · have : s = { h with position := i.position } := by simpa using hs
          subst this; exact hhoused
      · intro s hs
        rcases List.mem_append.mp hs with hs | hs
        · exact inv.placed s hs
        · have : s = { h with position := i.position } := by simpa using hs
          subst this; exact hplaced
  · -- fresh placement
    rename_i hd
    have hsr : stepRegions b h data rs = rs ++ [⟨(placeFresh b h.size).2.1, h.size⟩] := by simp [stepRegions, hd]
    rw [hsr]
    obtain ⟨q1, q2, q3, q4, q5, _, q7, q8⟩ := addFresh_step b rs h data b' idx inv hfits adm.small hr
    refine ⟨q1, ⟨{ h with position := (placeFresh b h.size).2.1, start := 0 }, ?_, ?_, by simp [hd], rfl, rfl⟩, q5, Or.inr ⟨q2, _, q3⟩, q7, q8⟩
    · rw [q3, q2]; simp
    · simpa only [Sample.win, Nat.add_zero] using q4

end Ctrmml.Wave
