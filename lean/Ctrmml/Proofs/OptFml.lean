/-
  C01, layer 2 — part C: specification of `find_match_length` (`Model/Optimizer.findMatchLength`).
-/
import Ctrmml.Proofs.OptScan
import Ctrmml.Model.Optimizer
namespace Ctrmml.OptSteps
open Ctrmml Ctrmml.Tree Ctrmml.Expand Ctrmml.Rewrite Ctrmml.Opt Tables

/-! ## `sameEvent` -/

/-- a `LOOP_BREAK` event carries no duration (true of every event the MML front end and the
optimiser create; `sameEvent` ignores the on/off time of a `LOOP_BREAK` as well as its param) -/
def BrkZero (l : List Event) : Prop := ∀ e ∈ l, e.type = ev_LOOP_BREAK → e.on = 0 ∧ e.off = 0

theorem sameEvent_type {a b : Event} (h : sameEvent a b = true) : a.type = b.type := by
  unfold sameEvent at h
  simp only [Bool.or_eq_true, Bool.and_eq_true, beq_iff_eq] at h
  rcases h with h | h
  · exact h.1.1.1
  · exact h.1

theorem sameEvent_norm {a b : Event} (h : sameEvent a b = true)
    (ha : a.type = ev_LOOP_BREAK → a.on = 0 ∧ a.off = 0) (hb : b.type = ev_LOOP_BREAK → b.on = 0 ∧ b.off = 0) :
    normE a = normE b := by
  unfold sameEvent at h
  simp only [Bool.or_eq_true, Bool.and_eq_true, beq_iff_eq] at h
  rcases h with h | h
  · obtain ⟨⟨⟨h1, h2⟩, h3⟩, h4⟩ := h
    have : a = b := by cases a; cases b; simp_all
    rw [this]
  · obtain ⟨h1, h2⟩ := h
    have h3 : b.type = ev_LOOP_BREAK := h1 ▸ h2
    obtain ⟨a1, a2⟩ := ha h2
    obtain ⟨b1, b2⟩ := hb h3
    unfold normE
    simp only [h2, h3, if_true]
    cases a; cases b; simp_all

/-! ## `find_match_length` -/

/-- what `find_match_length` guarantees about the two tracks -/
structure FMLSpec (src dst : List Event) (srcStart dstStart len loopLen : Nat) : Prop where
  /-- the matched events are pairwise `sameEvent`; no `SEGNO`, no `DRUM_MODE` among them -/
  same : ∀ i, i < len → ∃ s d, src[srcStart + i]? = some s ∧ dst[dstStart + i]? = some d ∧
    sameEvent s d = true ∧ d.type ≠ ev_SEGNO ∧ d.type ≠ ev_DRUM_MODE
  /-- the matched segment of `dst` ends at a depth-0 boundary and never meets a depth-0
  `LOOP_END`/`LOOP_BREAK` -/
  bal : scan ((dst.drop dstStart).take len) 0 = some 0
  le : loopLen ≤ len
  /-- so does its prefix of length `loopLen` -/
  lbal : scan ((dst.drop dstStart).take loopLen) 0 = some 0

theorem take_succ_of_get {l : List Event} {a j : Nat} {d : Event} (h : l[a + j]? = some d) :
    (l.drop a).take (j + 1) = (l.drop a).take j ++ [d] := by
  rw [List.take_add_one, List.getElem?_drop, h]
  rfl

theorem go_spec (src dst : List Event) (sa : SA) (srcStart dstStart : Nat) :
    ∀ (fuel se de : Nat) (depth : Int) (safe : Nat) (track : Bool) (loopLen : Nat) (j s dn : Nat),
    se = srcStart + j → de = dstStart + j → safe = dstStart + s → s ≤ j → depth = (dn : Int) →
    (∀ i, i < j → ∃ x y, src[srcStart + i]? = some x ∧ dst[dstStart + i]? = some y ∧
      sameEvent x y = true ∧ y.type ≠ ev_SEGNO ∧ y.type ≠ ev_DRUM_MODE) →
    scan ((dst.drop dstStart).take j) 0 = some dn →
    scan ((dst.drop dstStart).take s) 0 = some 0 →
    loopLen ≤ s → scan ((dst.drop dstStart).take loopLen) 0 = some 0 →
    ∀ r, findMatchLength.go dstStart src dst sa fuel se de depth safe track loopLen = .ok r →
      FMLSpec src dst srcStart dstStart r.1 r.2 := by
  intro fuel
  induction fuel with
  | zero =>
    intro se de depth safe track loopLen j s dn hse hde hsafe hsj hdep hsame hscan hsafe0 hll hlscan r hr
    simp only [findMatchLength.go, Except.ok.injEq] at hr
    subst hr
    have : safe - dstStart = s := by omega
    simp only [this]
    exact ⟨fun i hi => hsame i (by omega), hsafe0, hll, hlscan⟩
  | succ fuel ih =>
    intro se de depth safe track loopLen j s dn hse hde hsafe hsj hdep hsame hscan hsafe0 hll hlscan r hr
    have hstop : ∀ r, (Except.ok (safe - dstStart, loopLen) : Except OErr (Nat × Nat)) = .ok r →
        FMLSpec src dst srcStart dstStart r.1 r.2 := by
      intro r hr
      simp only [Except.ok.injEq] at hr
      subst hr
      have : safe - dstStart = s := by omega
      simp only [this]
      exact ⟨fun i hi => hsame i (by omega), hsafe0, hll, hlscan⟩
    unfold findMatchLength.go at hr
    split at hr
    · rename_i x y hx hy
      split at hr
      · simp at hr
      · rename_i u hu
        simp only at hr
        split at hr
        · exact hstop r hr
        split at hr
        · exact hstop r hr
        split at hr
        · exact hstop r hr
        rename_i hns hnb
        split at hr
        · rename_i hse'
          -- the event is accepted
          have hsame' : ∀ i, i < j + 1 → ∃ x y, src[srcStart + i]? = some x ∧ dst[dstStart + i]? = some y ∧
              sameEvent x y = true ∧ y.type ≠ ev_SEGNO ∧ y.type ≠ ev_DRUM_MODE := by
            intro i hi
            by_cases hij : i < j
            · exact hsame i hij
            · have : i = j := by omega
              subst this
              exact ⟨x, y, by rw [← hse]; exact hx, by rw [← hde]; exact hy, hse',
                fun h => hns (Or.inl h), fun h => hns (Or.inr h)⟩
          have hyj : dst[dstStart + j]? = some y := by rw [← hde]; exact hy
          -- the new depth
          obtain ⟨dn', hdn', hscan'⟩ : ∃ dn' : Nat,
              (if y.type = ev_LOOP_START then depth + 1 else if y.type = ev_LOOP_END then depth - 1 else depth)
                = (dn' : Int) ∧ scan ((dst.drop dstStart).take (j + 1)) 0 = some dn' := by
            rw [take_succ_of_get hyj, scan_append, hscan]
            simp only [Option.bind_some, scan_cons, scan_nil]
            by_cases h1 : y.type = ev_LOOP_START
            · exact ⟨dn + 1, by rw [if_pos h1, hdep]; rfl, by rw [if_pos h1]⟩
            · by_cases h2 : y.type = ev_LOOP_END
              · have hd0 : dn ≠ 0 := by
                  intro h0
                  apply hnb
                  exact ⟨Or.inl h2, by rw [hdep, h0]; rfl⟩
                refine ⟨dn - 1, ?_, by rw [if_neg h1, if_pos h2, if_neg hd0]⟩
                rw [if_neg h1, if_pos h2, hdep]
                omega
              · by_cases h3 : y.type = ev_LOOP_BREAK
                · have hd0 : dn ≠ 0 := by
                    intro h0
                    apply hnb
                    exact ⟨Or.inr h3, by rw [hdep, h0]; rfl⟩
                  exact ⟨dn, by rw [if_neg h1, if_neg h2, hdep], by rw [if_neg h1, if_neg h2, if_pos h3, if_neg hd0]⟩
                · exact ⟨dn, by rw [if_neg h1, if_neg h2, hdep], by rw [if_neg h1, if_neg h2, if_neg h3]⟩
          rw [hdn'] at hr
          split at hr
          · rename_i hd0
            have hz : dn' = 0 := by omega
            subst hz
            generalize (if u + sa.baseUsage ≥ maxLoopStack then false else track) = tr at hr
            refine ih _ _ _ _ _ _ (j + 1) (j + 1) 0 (by omega) (by omega) (by omega) (Nat.le_refl _) rfl
                hsame' hscan' hscan' ?_ ?_ r hr
            · split <;> omega
            · split
              · have : de + 1 - dstStart = j + 1 := by omega
                rw [this]; exact hscan'
              · exact hlscan
          · exact ih _ _ _ _ _ _ (j + 1) s dn' (by omega) (by omega) hsafe (by omega) rfl
              hsame' hscan' hsafe0 hll hlscan r hr
        · exact hstop r hr
    · exact hstop r hr

/-- **`find_match_length`, specification.**  A returned `(len, loopLen)` means: `len` events of
`src` from `srcStart` and of `dst` from `dstStart` are pairwise `sameEvent` (equal up to the
param of a `LOOP_BREAK`), none of them a `SEGNO` or `DRUM_MODE`; the `dst` segment never meets
a `LOOP_END`/`LOOP_BREAK` at depth 0 and ends at depth 0; and so does its prefix of length
`loopLen ≤ len`. -/
theorem findMatchLength_spec {song : Song} {m : SAMap} {srcT srcStart dstT dstStart : Nat} {wl : Bool}
    {len loopLen : Nat} (h : findMatchLength song m srcT srcStart dstT dstStart wl = .ok (len, loopLen)) :
    ∃ src dst, song.track? srcT = some src ∧ song.track? dstT = some dst ∧
      FMLSpec src dst srcStart dstStart len loopLen := by
  unfold findMatchLength at h
  split at h
  · rename_i src dst hs hd
    refine ⟨src, dst, hs, hd, ?_⟩
    exact go_spec src dst _ srcStart dstStart _ _ _ _ _ _ _ 0 0 0 rfl rfl rfl (Nat.le_refl _) rfl
      (fun i hi => absurd hi (Nat.not_lt_zero _)) rfl rfl (Nat.le_refl _) rfl _ h
  · simp at h

end Ctrmml.OptSteps
