/-
  Helper definitions and lemmas for Properties/C15, round 3: the export stages under PER-INPUT
  hypotheses.  `StageHyps` of Proofs/PipelineCompose quantified its three stage hypotheses over ALL
  inputs (`MdsBudgetOK`, `VgmNoUB`, `LinkOK`); as universal statements they are false (a song of 255³
  loop iterations exhausts the model's writer budget; an arbitrary `MdDriver.Data` holds an empty PSG
  envelope), so the composite was only as good as the reader's willingness to restrict them.  Here
  every remaining assumption is about the inputs the run of the given text actually hands to the stage
  (`ExportHyps`), and is a conjunction of named, separately explained conditions:

    * link: `LinkFileHyps` — what `exported_parses_partial` (Proofs/PipelineLinkParse) still needs to show
      that the strict reader accepts the converter's file; with it `linkStage_routed_of_parse`
      (Proofs/PipelineLinkRun) excludes every foreign `Linker.Err`;
    * vgm: `VgmDataHyps` — what `vgm_export_no_ub_partial` (Proofs/PipelineVgmWriter) still needs about the
      instrument data `read_song` built; the non-integer step needs nothing;
    * mds / link: the model's own writer budget on the converted song.
-/
import Ctrmml.Proofs.PipelineLinkPcm
import Ctrmml.Proofs.PipelineLinkRun
import Ctrmml.Proofs.PipelineVgmFinal
import Ctrmml.Proofs.PipelineVgmPsgInv
import Ctrmml.Proofs.PipelineStages
namespace Ctrmml.Pipeline
open Ctrmml

/-! ### link -/

/-- what is still assumed about ONE exported file to conclude that the link stage is routed -/
structure LinkFileHyps (inp : MdsFile.Input) (o : MdsFile.Output) : Prop where
  /-- RIFF format limit: every data vector of the container is shorter than 4 GiB -/
  small : TreeSmall o.built o.data.st.bank inp.group.toUTF8.toList (MdsFile.pcmOf o.data)
  /-- no raw `cmd` platform command injects an index-bearing opcode (PAT/INS/PCM/PEG/MTAB); used only
  for the numbering 0,1,2,… of `used_data_map` (`construct_inv`) -/
  clean : Mds.PlatformClean (MdsFile.dataInfoOf o.data.st inp.platform)
  /-- the `seq ` chunk is at most 64 KiB (the strict reader's bound; the converter bounds only the
  START of every stream: `exported_rejected_of_long_seq`) -/
  fits : SeqFits o
  /-- every side file is below 1 GiB (the bound of C14's allocator theorems, under which `read_song`'s
  `wave_rom` satisfies the allocator invariant and every stored header addresses a window inside `pcmd`) -/
  files : SideFilesSmall inp.files
  /-- every `used_data_map` key with the PCM tag selects a data-bank item that is the serialised header
  of a sample of `wave_rom` (true of `add_ins_pcm`'s items; the joint invariant of `read_song`'s maps and
  the writer's PCM hook is not proved) -/
  headers : PcmKeysAreHeaders o.built.conv o.data

/-- **The link stage on the converter's own file** (partial: `LinkFileHyps`): `add_song` accepts the
file or rejects it with an `InputError` (sample does not fit / malformed), `get_seq_data` returns or
reports "data too large", the headers are generated — no `Linker.Err` of the foreign kind
(`outOfRange`, `invalidArgument`, `oob`, `hang`, `divZero`). -/
theorem linkStage_routed_of_export {inp : MdsFile.Input} {o : MdsFile.Output}
    (h : MdsFile.exportMds MdsData.Arith.float inp = .ok o) (hl : LinkFileHyps inp o) :
    (linkStage o.file).routed := by
  obtain ⟨s, hs, _, _, hp⟩ := exported_parses_partial' h hl.small hl.clean hl.fits hl.files hl.headers
  exact linkStage_routed_of_parse o.file s hs hp

/-! ### vgm -/

/-- what is still assumed about the instrument data `read_song` built for ONE input -/
structure VgmDataHyps (inp : MdsFile.Input) (d : MdsFile.DState) : Prop where
  /-- every PSG-typed instrument's stored envelope is well formed (`EnvOK`: level bytes / sustain marks,
  then an end command `00` or a loop command `02 pp` pointing backwards) -/
  psg : PsgEnvsOK d
  /-- every side file is below 1 GiB (the bound of C14's / C08's bank theorems) -/
  files : FilesSmall inp.files

/-- the VGM export stage under per-input hypotheses -/
theorem exportVgmStage_routed3 (u : Residual) (hplay : ∀ inp d, (u.vgmPlay inp d).routed) (hgap : ∀ inp, (u.mdsGap inp).routed)
    (inp : MdsFile.Input) (tm : MdDriver.TagMap)
    (hv : ∀ d, MdsFile.readSong MdsData.Arith.float inp.files inp.tags = .ok d → VgmDataHyps inp d) :
    (exportVgmStage u inp tm).routed := by
  unfold exportVgmStage
  split
  · rename_i d hd
    have h := vgm_export_no_ub_partial2 inp d hd (hv d hd).psg (hv d hd).files tm vgmStamps
    split
    · exact hplay _ _
    split
    · trivial
    · simp [Out.routed]
    · exact hplay _ _
    · exact hplay _ _
    · rename_i he; rw [he] at h; exact h.elim
    · rename_i he; rw [he] at h; exact h.elim
    · rename_i he; rw [he] at h; exact h.elim
  · simp [Out.routed]
  · exact hgap inp

/-! ### the hypotheses of the composite, per input -/

/-- the songs the run of a parsed text can hand to the export stage: the parsed song, or with `-O`
a result of the optimise stage -/
def Reaches (st : Mml.MmlState) (opt : Bool) (song' : Song) : Prop :=
  if opt then ∃ steps passes, optimizeStage (songOf st) steps passes = .ok song' else song' = songOf st

/-- the converter's input for a parsed state and a song that reaches the export stage -/
def exportInput (st : Mml.MmlState) (files : List (String × Bytes)) (song' : Song) : MdsFile.Input :=
  { (mdsInputOf st files).1 with song := song' }

/-- what the composite still assumes, about THIS text with THESE side files only -/
structure ExportHyps (u : Residual) (files : List (String × Bytes)) (opt : Bool) (fmt : Format) (text : List Nat) : Prop where
  /-- the MODEL's writer budget (20 000 000 player steps per stream, depth 64) is not exhausted -/
  budget : fmt ≠ .vgm → ∀ st song', parseStage text = .ok st → Reaches st opt song' →
    match MdsFile.exportMds MdsData.Arith.float (exportInput st files song') with
    | .error e => ferrIsBudget e = false
    | .ok _ => True
  vgm : fmt = .vgm → ∀ st song' d, parseStage text = .ok st → Reaches st opt song' →
    MdsFile.readSong MdsData.Arith.float (exportInput st files song').files (exportInput st files song').tags = .ok d →
    VgmDataHyps (exportInput st files song') d
  link : fmt = .link → ∀ st song' o, parseStage text = .ok st → Reaches st opt song' →
    MdsFile.exportMds MdsData.Arith.float (exportInput st files song') = .ok o → LinkFileHyps (exportInput st files song') o
  vgmPlay : ∀ inp d, (u.vgmPlay inp d).routed
  mdsGap : ∀ inp, (u.mdsGap inp).routed

/-- the mds export stage under the per-input budget hypothesis (as `C15_mds_export_routed`) -/
theorem exportMdsStage_routed3 (u : Residual) (hg : ∀ inp, (u.mdsGap inp).routed) (inp : MdsFile.Input) (gap : Bool)
    (hb : match MdsFile.exportMds MdsData.Arith.float inp with | .error e => ferrIsBudget e = false | .ok _ => True) :
    (exportMdsStage u inp gap).routed := by
  unfold exportMdsStage
  split
  · exact hg inp
  · obtain ⟨h3, h4⟩ := exportMds_no_bank_no_at inp
    split
    · trivial
    · rename_i e he
      rw [he] at hb h3 h4
      obtain ⟨h1, h2⟩ := exportMds_err inp e he
      exact ferrOut_routed inp u.mdsGap e (fun _ => hg inp) hb h1 h2 (fun hb' => h3 (by rw [hb'])) (fun hi => h4 (by rw [hi]))

end Ctrmml.Pipeline
