/-
  Helper lemmas for C10: the linker's reading of a file (`readSong`: `RIFF(bytes)`, the two
  `at_end`/`get_chunk` loops of `add_song`) agrees with the spec's own strict reader
  (`LinkSpec.parseMds`) on every file the spec reader accepts.  No property statements here.
-/
import Ctrmml.Proofs.LinkHist
namespace Ctrmml.Linker
open Ctrmml Ctrmml.LinkSpec

/-! ### reading numbers -/

theorem nat32le_eq (b : Bytes) (p : Nat) : nat32le b p = rdLe32 b p := by
  unfold nat32le readAt rdLe32
  match b.drop p with
  | [] => rfl
  | [_] => rfl
  | [_, _] => rfl
  | [_, _, _] => rfl
  | x :: y :: z :: w :: r =>
    simp only [List.take_succ_cons, List.take_zero]
    congr 1; omega

theorem rdLe32_lt (d : Bytes) (p v : Nat) (h : rdLe32 d p = some v) : v < 4294967296 ∧ p + 4 ≤ d.length := by
  unfold rdLe32 at h
  split at h
  · rename_i b0 b1 b2 b3 t hd
    have hl : (d.drop p).length ≥ 4 := by rw [hd]; simp
    simp only [List.length_drop] at hl
    simp only [Option.some.injEq] at h
    have := b0.toNat_lt; have := b1.toNat_lt; have := b2.toNat_lt; have := b3.toNat_lt
    omega
  · cases h

theorem drop_append_add (pre b : Bytes) (k : Nat) : (pre ++ b).drop (pre.length + k) = b.drop k := by
  rw [List.drop_append, List.drop_eq_nil_of_le (by omega), List.nil_append]
  congr 1; omega

theorem rdLe32_append (pre b : Bytes) (k : Nat) : rdLe32 (pre ++ b) (pre.length + k) = rdLe32 b k := by
  unfold rdLe32
  rw [drop_append_add]

theorem rdLe32_drop (b : Bytes) (n k : Nat) : rdLe32 (b.drop n) k = rdLe32 b (n + k) := by
  unfold rdLe32
  rw [List.drop_drop]

/-! ### one child -/

/-- the chunk type of a four-character code as `RIFF(bytes)` reads it -/
def typeOf4 (t : Bytes) : Nat := (rdBe32 t 0).getD 0

/-- a child `(four-character code, body)` of the spec reader as the RIFF object the linker gets -/
def toRiff (c : Bytes × Bytes) : Riff.Riff :=
  { type := typeOf4 c.1, data := c.2, position := Riff.rewindPos (typeOf4 c.1) }

theorem ofBytes_chunk (t4 body : Bytes) (h4 : t4.length = 4) (hs : body.length < 4294967296) :
    Riff.ofBytes (t4 ++ le32 body.length ++ body) = .ok (toRiff (t4, body)) := by
  match t4, h4 with
  | [a, b, c, d], _ =>
    have h2 := rdLe32_le32 body.length hs [a, b, c, d] body
    simp only [List.length_cons, List.length_nil] at h2
    unfold Riff.ofBytes
    rw [if_neg (by simp)]
    rw [h2]
    simp only [rdBe32, List.drop_zero, List.cons_append, toRiff, typeOf4, Option.getD_some]
    simp [le32]

theorem getChunk_at (ty : Nat) (hl : Riff.isList ty = true) (pre b : Bytes) (pos size : Nat)
    (heven : pre.length % 2 = 0) (hpos : pos = pre.length ∨ (pos + 1 = pre.length ∧ pos % 2 = 1))
    (h4 : rdLe32 b 4 = some size) (hbody : 8 + size ≤ b.length) :
    Riff.getChunk { type := ty, data := pre ++ b, position := pos } =
      .ok (b.take 4 ++ le32 size ++ (b.drop 8).take size, { type := ty, data := pre ++ b, position := pre.length + 8 + size }) := by
  have hal : (if pos % 2 == 1 then pos + 1 else pos) = pre.length := by
    rcases hpos with h | ⟨h1, h2⟩
    · subst h; simp [heven]
    · simp [h2, h1]
  unfold Riff.getChunk
  simp only [hl, Bool.not_true, Bool.false_eq_true, if_false, hal]
  have h0 : (rdLe32 (pre ++ b) pre.length).isSome := rdLe32_isSome_of_long _ _ (by simp; omega)
  obtain ⟨v, hv⟩ := Option.isSome_iff_exists.mp h0
  rw [hv]
  simp only
  rw [rdLe32_append, h4]
  simp only
  have hlen : (pre ++ b).length - (pre.length + 8) = b.length - 8 := by simp; omega
  rw [hlen]
  have hc1 : ¬ (size > b.length - 8) := by omega
  have hc2 : ¬ (pre.length + 8 + size > (pre ++ b).length) := by simp only [List.length_append]; omega
  simp only [hc1, hc2, if_false]
  have e1 : (pre ++ b).drop pre.length = b := by simp
  have e2 : (pre ++ b).drop (pre.length + 8) = b.drop 8 := drop_append_add pre b 8
  rw [e1, e2]

/-! ### the children of a list -/

theorem chunks_len (fuel : Nat) (b : Bytes) (cs : List (Bytes × Bytes)) (h : chunks fuel b = some cs) :
    8 * cs.length ≤ b.length ∧ ∀ c ∈ cs, c.1.length = 4 ∧ c.2.length < 4294967296 := by
  induction fuel generalizing b cs with
  | zero => simp [chunks] at h
  | succ fuel ih =>
    cases b with
    | nil => simp only [chunks, Option.some.injEq] at h; subst h; simp
    | cons x xs =>
      obtain ⟨b, hb⟩ : ∃ b, b = x :: xs := ⟨_, rfl⟩
      simp only [chunks] at h
      rw [← hb] at h ⊢
      split at h
      · cases h
      · rename_i size hsz
        rw [nat32le_eq] at hsz
        obtain ⟨hlt, hlen4⟩ := rdLe32_lt _ _ _ hsz
        split at h
        · cases h
        · rename_i hbl
          have hbl' : (readAt b 8 size).length = size := by simpa using hbl
          have h8 : 8 + size ≤ b.length := by
            simp only [readAt, List.length_take, List.length_drop] at hbl'
            omega
          have hc : (b.take 4).length = 4 ∧ (readAt b 8 size).length < 4294967296 := by
            refine ⟨?_, by omega⟩
            simp only [List.length_take]; omega
          split at h
          · simp only [Option.some.injEq] at h
            subst h
            refine ⟨by simp only [List.length_singleton]; omega, ?_⟩
            intro c hcm
            simp only [List.mem_singleton] at hcm
            subst hcm; exact hc
          · split at h
            · cases h
            · rename_i hnext
              split at h
              · cases h
              · rename_i rest hrest
                simp only [Option.some.injEq] at h
                subst h
                obtain ⟨i1, i2⟩ := ih _ _ hrest
                simp only [List.length_drop] at i1
                refine ⟨by simp only [List.length_cons]; omega, ?_⟩
                intro c hcm
                rcases List.mem_cons.mp hcm with rfl | hcm
                · exact hc
                · exact i2 c hcm

theorem kids_end (fuel : Nat) (ty : Nat) (d : Bytes) (pos : Nat) (h : d.length ≤ pos ∨ (pos % 2 = 1 ∧ d.length ≤ pos + 1)) :
    kids (fuel + 1) { type := ty, data := d, position := pos } = ([], none) := by
  have : Riff.atEnd { type := ty, data := d, position := pos } = true := by
    unfold Riff.atEnd
    simp only
    rcases h with h | ⟨h1, h2⟩
    · simp [h]
    · by_cases hp : pos ≥ d.length
      · simp [hp]
      · simp only [hp, if_false, h1, beq_self_eq_true, Bool.true_and, decide_eq_true_eq]
        rw [if_pos (by omega)]
  simp only [kids, this, if_true]

theorem kids_chunks (fuel : Nat) (b : Bytes) (cs : List (Bytes × Bytes)) (h : chunks fuel b = some cs)
    (ty : Nat) (hl : Riff.isList ty = true) (pre : Bytes) (pos fuel' : Nat) (heven : pre.length % 2 = 0)
    (hpos : pos = pre.length ∨ (pos + 1 = pre.length ∧ pos % 2 = 1)) (hf : cs.length + 1 ≤ fuel') :
    kids fuel' { type := ty, data := pre ++ b, position := pos } = (cs.map toRiff, none) := by
  induction fuel generalizing b cs pre pos fuel' with
  | zero => simp [chunks] at h
  | succ fuel ih =>
    obtain ⟨fuel1, rfl⟩ : ∃ f, fuel' = f + 1 := ⟨fuel' - 1, by omega⟩
    cases b with
    | nil =>
      simp only [chunks, Option.some.injEq] at h; subst h
      simp only [List.append_nil, List.map_nil]
      apply kids_end
      rcases hpos with h | ⟨h1, h2⟩
      · exact Or.inl (by omega)
      · exact Or.inr ⟨h2, by omega⟩
    | cons x xs =>
      obtain ⟨b, hb⟩ : ∃ b, b = x :: xs := ⟨_, rfl⟩
      have hbne : 1 ≤ b.length := by rw [hb]; simp
      simp only [chunks] at h
      rw [← hb] at h ⊢
      split at h
      · cases h
      · rename_i size hsz
        rw [nat32le_eq] at hsz
        obtain ⟨hlt, hlen4⟩ := rdLe32_lt _ _ _ hsz
        split at h
        · cases h
        · rename_i hbl
          have hbl' : (readAt b 8 size).length = size := by simpa using hbl
          have h8 : 8 + size ≤ b.length := by
            simp only [readAt, List.length_take, List.length_drop] at hbl'
            omega
          -- the loop is not at its end, reads the child and rebuilds it
          have hne : Riff.atEnd { type := ty, data := pre ++ b, position := pos } = false := by
            unfold Riff.atEnd
            simp only [List.length_append]
            rcases hpos with h | ⟨h1, h2⟩
            · subst h
              rw [if_neg (by omega)]
              simp [heven]
            · rw [if_neg (by omega)]
              simp only [h2, beq_self_eq_true, Bool.true_and, decide_eq_true_eq]
              rw [if_neg (by omega)]
          have hg := getChunk_at ty hl pre b pos size heven hpos hsz h8
          have hob := ofBytes_chunk (b.take 4) (readAt b 8 size) (by simp only [List.length_take]; omega) (by omega)
          rw [hbl'] at hob
          simp only [readAt] at hob hbl'
          have hstep : ∀ f, kids (f + 1) { type := ty, data := pre ++ b, position := pos } =
              ((kids f { type := ty, data := pre ++ b, position := pre.length + 8 + size }).1.cons (toRiff (b.take 4, (b.drop 8).take size)),
               (kids f { type := ty, data := pre ++ b, position := pre.length + 8 + size }).2) := by
            intro f
            rw [kids]
            simp only [hne, Bool.false_eq_true, if_false, hg, hob]
          split at h
          · rename_i hexact
            simp only [Option.some.injEq] at h
            subst h
            simp only [List.length_singleton] at hf
            obtain ⟨fuel2, rfl⟩ : ∃ f, fuel1 = f + 1 := ⟨fuel1 - 1, by omega⟩
            rw [hstep, kids_end _ _ _ _ (Or.inl (by simp only [List.length_append]; omega))]
            simp [readAt]
          · split at h
            · cases h
            · rename_i hnext
              split at h
              · cases h
              · rename_i rest hrest
                simp only [Option.some.injEq] at h
                subst h
                simp only [List.length_cons] at hf
                have hdata : pre ++ b = (pre ++ b.take (8 + size + size % 2)) ++ b.drop (8 + size + size % 2) := by
                  rw [List.append_assoc, List.take_append_drop]
                have hprelen : (pre ++ b.take (8 + size + size % 2)).length = pre.length + (8 + size + size % 2) := by
                  simp only [List.length_append, List.length_take]; omega
                have hk := ih _ _ hrest (pre ++ b.take (8 + size + size % 2)) (pre.length + 8 + size) fuel1
                  (by rw [hprelen]; omega)
                  (by rw [hprelen]
                      rcases Nat.mod_two_eq_zero_or_one size with hs | hs
                      · exact Or.inl (by omega)
                      · exact Or.inr ⟨by omega, by omega⟩)
                  (by omega)
                rw [← hdata] at hk
                rw [hstep, hk]
                simp [readAt]

/-! ### four-character codes -/

theorem typeOf4_inj (s t : Bytes) (hs : s.length = 4) (ht : t.length = 4) (h : typeOf4 s = typeOf4 t) : s = t := by
  match s, hs, t, ht with
  | [a, b, c, d], _, [a', b', c', d'], _ =>
    simp only [typeOf4, rdBe32, List.drop_zero, Option.getD_some] at h
    have := a.toNat_lt; have := b.toNat_lt; have := c.toNat_lt; have := d.toNat_lt
    have := a'.toNat_lt; have := b'.toNat_lt; have := c'.toNat_lt; have := d'.toNat_lt
    have e1 : a = a' := UInt8.toNat_inj.mp (by omega)
    have e2 : b = b' := UInt8.toNat_inj.mp (by omega)
    have e3 : c = c' := UInt8.toNat_inj.mp (by omega)
    have e4 : d = d' := UInt8.toNat_inj.mp (by omega)
    rw [e1, e2, e3, e4]

theorem rdBe32_take4 (f : Bytes) (h : 4 ≤ f.length) : rdBe32 f 0 = some (typeOf4 (f.take 4)) := by
  match f, h with
  | a :: b :: c :: d :: r, _ => simp [rdBe32, typeOf4]

theorem type_iff (c : Bytes × Bytes) (h4 : c.1.length = 4) (name : Bytes) (hn : name.length = 4) (v : Nat) (hv : typeOf4 name = v) :
    (toRiff c).type = v ↔ c.1 = name := by
  constructor
  · intro h
    exact typeOf4_inj _ _ h4 hn (by rw [hv]; exact h)
  · intro h
    simp only [toRiff, h, hv]

/-! ### the first loop of add_song over the spec's children -/

/-- the body of the last child called `n`, or `d` when there is none -/
def lastOr : List (Bytes × Bytes) → Bytes → Bytes → Bytes
  | [], _, d => d
  | c :: cs, n, d => lastOr cs n (if c.1 = n then c.2 else d)

/-- the last `LIST` child as a RIFF object, or `d` -/
def lastList : List (Bytes × Bytes) → Riff.Riff → Riff.Riff
  | [], d => d
  | c :: cs, d => lastList cs (if c.1 = cc "LIST" then toRiff c else d)

theorem foldTop_spec (cs : List (Bytes × Bytes)) (p : Parts)
    (h4 : ∀ c ∈ cs, c.1.length = 4) (hlist : ∀ c ∈ cs, c.1 = cc "LIST" → c.2.take 4 = cc "dblk") :
    ∃ p', foldTop (cs.map toRiff) none p = .ok p' ∧
      p'.seq = lastOr cs (cc "seq ") p.seq ∧ p'.pcmd = lastOr cs (cc "pcmd") p.pcmd ∧
      p'.ver = lastOr cs (cc "ver ") p.ver ∧ p'.group = lastOr cs (cc "grp ") p.group ∧
      p'.dblk = lastList cs p.dblk := by
  induction cs generalizing p with
  | nil => exact ⟨p, rfl, rfl, rfl, rfl, rfl, rfl⟩
  | cons c cs ih =>
    have hc4 := h4 c (List.mem_cons_self ..)
    have tseq := type_iff c hc4 (cc "seq ") (by decide) Tables.link_cc_seq (by decide)
    have tpcmd := type_iff c hc4 (cc "pcmd") (by decide) Tables.link_cc_pcmd (by decide)
    have tlist := type_iff c hc4 (cc "LIST") (by decide) Riff.TYPE_LIST (by decide)
    have tver := type_iff c hc4 (cc "ver ") (by decide) Tables.link_cc_ver (by decide)
    have tgrp := type_iff c hc4 (cc "grp ") (by decide) Tables.link_cc_grp (by decide)
    have ih' := fun p1 => ih p1 (fun c hc => h4 c (List.mem_cons_of_mem _ hc)) (fun c hc => hlist c (List.mem_cons_of_mem _ hc))
    simp only [List.map_cons, foldTop, lastOr, lastList]
    by_cases h1 : c.1 = cc "seq "
    · have e : stepTop (toRiff c) p = .ok { p with seq := c.2 } := by
        unfold stepTop
        rw [if_pos (tseq.mpr h1)]; rfl
      rw [e]
      obtain ⟨p', g0, g1, g2, g3, g4, g5⟩ := ih' { p with seq := c.2 }
      refine ⟨p', g0, ?_, ?_, ?_, ?_, ?_⟩
      · rw [g1, if_pos h1]
      · rw [g2, if_neg (by rw [h1]; decide)]
      · rw [g3, if_neg (by rw [h1]; decide)]
      · rw [g4, if_neg (by rw [h1]; decide)]
      · rw [g5, if_neg (by rw [h1]; decide)]
    · by_cases h2 : c.1 = cc "pcmd"
      · have e : stepTop (toRiff c) p = .ok { p with pcmd := c.2 } := by
          unfold stepTop
          rw [if_neg (mt tseq.mp h1), if_pos (tpcmd.mpr h2)]; rfl
        rw [e]
        obtain ⟨p', g0, g1, g2, g3, g4, g5⟩ := ih' { p with pcmd := c.2 }
        refine ⟨p', g0, ?_, ?_, ?_, ?_, ?_⟩
        · rw [g1, if_neg h1]
        · rw [g2, if_pos h2]
        · rw [g3, if_neg (by rw [h2]; decide)]
        · rw [g4, if_neg (by rw [h2]; decide)]
        · rw [g5, if_neg (by rw [h2]; decide)]
      · by_cases h3 : c.1 = cc "LIST"
        · have hd := hlist c (List.mem_cons_self ..) h3
          have hlen : 4 ≤ c.2.length := by
            have : (c.2.take 4).length = 4 := by rw [hd]; decide
            simp only [List.length_take] at this; omega
          have hid : Riff.getId (toRiff c) = .ok Tables.link_cc_dblk := by
            have ht : (toRiff c).type = Riff.TYPE_LIST := tlist.mpr h3
            unfold Riff.getId
            rw [ht]
            simp only [show Riff.isList Riff.TYPE_LIST = true by decide, if_true]
            show (match rdBe32 c.2 0 with | some v => Except.ok v | none => Except.error Riff.Err.outOfRange) = _
            rw [rdBe32_take4 c.2 hlen, hd]
            rfl
          have e : stepTop (toRiff c) p = .ok { p with dblk := toRiff c } := by
            unfold stepTop
            rw [if_neg (mt tseq.mp h1), if_neg (mt tpcmd.mp h2), if_pos (tlist.mpr h3), hid]
            simp only [if_true]
          rw [e]
          obtain ⟨p', g0, g1, g2, g3, g4, g5⟩ := ih' { p with dblk := toRiff c }
          refine ⟨p', g0, ?_, ?_, ?_, ?_, ?_⟩
          · rw [g1, if_neg h1]
          · rw [g2, if_neg h2]
          · rw [g3, if_neg (by rw [h3]; decide)]
          · rw [g4, if_neg (by rw [h3]; decide)]
          · rw [g5, if_pos h3]
        · by_cases h5 : c.1 = cc "ver "
          · have e : stepTop (toRiff c) p = .ok { p with ver := c.2 } := by
              unfold stepTop
              rw [if_neg (mt tseq.mp h1), if_neg (mt tpcmd.mp h2), if_neg (mt tlist.mp h3), if_pos (tver.mpr h5)]; rfl
            rw [e]
            obtain ⟨p', g0, g1, g2, g3, g4, g5⟩ := ih' { p with ver := c.2 }
            refine ⟨p', g0, ?_, ?_, ?_, ?_, ?_⟩
            · rw [g1, if_neg h1]
            · rw [g2, if_neg h2]
            · rw [g3, if_pos h5]
            · rw [g4, if_neg (by rw [h5]; decide)]
            · rw [g5, if_neg h3]
          · by_cases h6 : c.1 = cc "grp "
            · have e : stepTop (toRiff c) p = .ok { p with group := c.2 } := by
                unfold stepTop
                rw [if_neg (mt tseq.mp h1), if_neg (mt tpcmd.mp h2), if_neg (mt tlist.mp h3), if_neg (mt tver.mp h5), if_pos (tgrp.mpr h6)]; rfl
              rw [e]
              obtain ⟨p', g0, g1, g2, g3, g4, g5⟩ := ih' { p with group := c.2 }
              refine ⟨p', g0, ?_, ?_, ?_, ?_, ?_⟩
              · rw [g1, if_neg h1]
              · rw [g2, if_neg h2]
              · rw [g3, if_neg h5]
              · rw [g4, if_pos h6]
              · rw [g5, if_neg h3]
            · have e : stepTop (toRiff c) p = .ok p := by
                unfold stepTop
                rw [if_neg (mt tseq.mp h1), if_neg (mt tpcmd.mp h2), if_neg (mt tlist.mp h3), if_neg (mt tver.mp h5), if_neg (mt tgrp.mp h6)]
              rw [e]
              obtain ⟨p', g0, g1, g2, g3, g4, g5⟩ := ih' p
              refine ⟨p', g0, ?_, ?_, ?_, ?_, ?_⟩
              · rw [g1, if_neg h1]
              · rw [g2, if_neg h2]
              · rw [g3, if_neg h5]
              · rw [g4, if_neg h6]
              · rw [g5, if_neg h3]

/-! ### `only` -/

theorem lastOr_none (cs : List (Bytes × Bytes)) (n d : Bytes) (h : cs.filter (·.1 == n) = []) : lastOr cs n d = d := by
  induction cs generalizing d with
  | nil => rfl
  | cons c cs ih =>
    simp only [List.filter_cons] at h
    by_cases hc : c.1 = n
    · simp [hc] at h
    · have hb : (c.1 == n) = false := by simpa using hc
      rw [hb] at h
      simp only [Bool.false_eq_true, if_false] at h
      simp only [lastOr, if_neg hc]
      exact ih d h

theorem only_lastOr (cs : List (Bytes × Bytes)) (n d x : Bytes) (h : only cs n = some x) : lastOr cs n d = x := by
  unfold only at h
  induction cs generalizing d with
  | nil => simp at h
  | cons c cs ih =>
    simp only [List.filter_cons] at h
    by_cases hc : c.1 = n
    · have hb : (c.1 == n) = true := by simpa using hc
      rw [hb] at h
      simp only [if_true] at h
      split at h
      · rename_i c0 heq
        simp only [List.cons.injEq] at heq
        obtain ⟨rfl, hnil⟩ := heq
        simp only [Option.some.injEq] at h
        simp only [lastOr, if_pos hc]
        rw [lastOr_none cs n _ hnil]; exact h
      · cases h
    · have hb : (c.1 == n) = false := by simpa using hc
      rw [hb] at h
      simp only [Bool.false_eq_true, if_false] at h
      simp only [lastOr, if_neg hc]
      exact ih d h

theorem only_unique (cs : List (Bytes × Bytes)) (n x : Bytes) (h : only cs n = some x) : ∀ c ∈ cs, c.1 = n → c.2 = x := by
  unfold only at h
  intro c hc hn
  have hm : c ∈ cs.filter (·.1 == n) := List.mem_filter.mpr ⟨hc, by simpa using hn⟩
  split at h
  · rename_i c0 heq
    rw [heq] at hm
    simp only [List.mem_singleton] at hm
    simp only [Option.some.injEq] at h
    rw [hm]; exact h
  · cases h

theorem lastList_none (cs : List (Bytes × Bytes)) (d : Riff.Riff) (h : cs.filter (·.1 == cc "LIST") = []) : lastList cs d = d := by
  induction cs generalizing d with
  | nil => rfl
  | cons c cs ih =>
    simp only [List.filter_cons] at h
    by_cases hc : c.1 = cc "LIST"
    · simp [hc] at h
    · have hb : (c.1 == cc "LIST") = false := by simpa using hc
      rw [hb] at h
      simp only [Bool.false_eq_true, if_false] at h
      simp only [lastList, if_neg hc]
      exact ih d h

theorem only_lastList (cs : List (Bytes × Bytes)) (d : Riff.Riff) (x : Bytes) (h : only cs (cc "LIST") = some x) :
    lastList cs d = toRiff (cc "LIST", x) := by
  unfold only at h
  induction cs generalizing d with
  | nil => simp at h
  | cons c cs ih =>
    simp only [List.filter_cons] at h
    by_cases hc : c.1 = cc "LIST"
    · have hb : (c.1 == cc "LIST") = true := by simpa using hc
      rw [hb] at h
      simp only [if_true] at h
      split at h
      · rename_i c0 heq
        simp only [List.cons.injEq] at heq
        obtain ⟨rfl, hnil⟩ := heq
        simp only [Option.some.injEq] at h
        simp only [lastList, if_pos hc]
        rw [lastList_none cs _ hnil]
        have hc' : c = (c.1, c.2) := rfl
        rw [hc', hc, h]
      · cases h
    · have hb : (c.1 == cc "LIST") = false := by simpa using hc
      rw [hb] at h
      simp only [Bool.false_eq_true, if_false] at h
      simp only [lastList, if_neg hc]
      exact ih d h

/-! ### the entries of the `dblk` list -/

/-- what the spec reader records for an entry, from what the linker read for it -/
def toSlot (pcmd : Bytes) : Carried → Slot
  | .data addr flag bytes => { addr, flag, want := .data bytes }
  | .pcm addr hdr _ =>
    { addr, flag := false, want := .pcm hdr.rate (readAt pcmd (hdr.position + hdr.start) hdr.size), start := hdr.start }

theorem fromBytes_of_len (b : Bytes) (h : 32 ≤ b.length) :
    ∃ hdr, Wave.Sample.fromBytes b = some hdr ∧ rdLe32 b 0 = some hdr.position ∧ rdLe32 b 4 = some hdr.start ∧
      rdLe32 b 8 = some hdr.size ∧ rdLe32 b 20 = some hdr.rate := by
  obtain ⟨v0, h0⟩ := Option.isSome_iff_exists.mp (rdLe32_isSome_of_long b 0 (by omega))
  obtain ⟨v4, h4⟩ := Option.isSome_iff_exists.mp (rdLe32_isSome_of_long b 4 (by omega))
  obtain ⟨v8, h8⟩ := Option.isSome_iff_exists.mp (rdLe32_isSome_of_long b 8 (by omega))
  obtain ⟨v12, h12⟩ := Option.isSome_iff_exists.mp (rdLe32_isSome_of_long b 12 (by omega))
  obtain ⟨v16, h16⟩ := Option.isSome_iff_exists.mp (rdLe32_isSome_of_long b 16 (by omega))
  obtain ⟨v20, h20⟩ := Option.isSome_iff_exists.mp (rdLe32_isSome_of_long b 20 (by omega))
  obtain ⟨v24, h24⟩ := Option.isSome_iff_exists.mp (rdLe32_isSome_of_long b 24 (by omega))
  obtain ⟨v28, h28⟩ := Option.isSome_iff_exists.mp (rdLe32_isSome_of_long b 28 (by omega))
  refine ⟨⟨v0, v4, v8, v12, v16, v20, v24, v28⟩, ?_, h0, h4, h8, h20⟩
  simp [Wave.Sample.fromBytes, h0, h4, h8, h12, h16, h20, h24, h28]

theorem slotAddr_small (sdata id : Nat) (hid : id < 4294967296) (hb : sdata + 2 * (id % 2147483648) + 2 ≤ 65536) :
    slotAddr sdata id = sdata + 2 * (id % 2147483648) := by
  unfold slotAddr Wave.u32
  omega

theorem carried_of_slot (sdata : Nat) (pcmd : Bytes) (e : Bytes × Bytes) (h4 : e.1.length = 4) (sl : Slot)
    (h : slotOf sdata pcmd e = some sl) (hb : sl.addr + 2 ≤ 65536) :
    ∃ cr, carriedOf sdata pcmd (toRiff e) = some cr ∧ toSlot pcmd cr = sl := by
  have tglob := type_iff e h4 (cc "glob") (by decide) Tables.link_cc_glob (by decide)
  have tpcmh := type_iff e h4 (cc "pcmh") (by decide) Tables.link_cc_pcmh (by decide)
  unfold slotOf at h
  split at h
  · cases h
  · rename_i id hid
    rw [nat32le_eq] at hid
    have hidlt := (rdLe32_lt _ _ _ hid).1
    have hdata : (toRiff e).data = e.2 := rfl
    simp only at h
    split at h
    · rename_i hg
      have hg' : e.1 = cc "glob" := by simpa using hg
      simp only [Option.some.injEq] at h
      subst h
      simp only at hb
      refine ⟨.data (slotAddr sdata id) (decide (id ≥ 2147483648)) (e.2.drop 4), ?_, ?_⟩
      · unfold carriedOf
        rw [if_pos (tglob.mpr hg'), hdata, hid]
      · simp only [toSlot, slotAddr_small sdata id hidlt hb]
    · rename_i hg
      have hg' : ¬ e.1 = cc "glob" := by simpa using hg
      split at h
      · rename_i hp
        have hp' : e.1 = cc "pcmh" := by simpa using hp
        split at h
        · cases h
        · rename_i hlen
          have hlen' : e.2.length = 36 := by simpa using hlen
          obtain ⟨hdr, f0, f1, f2, f3, f4⟩ := fromBytes_of_len (e.2.drop 4) (by simp only [List.length_drop]; omega)
          rw [rdLe32_drop] at f1 f2 f3 f4
          split at h
          · rename_i position start size rate e1 e2 e3 e4
            rw [nat32le_eq] at e1 e2 e3 e4
            rw [e1] at f1; rw [e2] at f2; rw [e3] at f3; rw [e4] at f4
            simp only [Option.some.injEq] at f1 f2 f3 f4
            split at h
            · cases h
            · simp only [Option.some.injEq] at h
              subst h
              simp only at hb
              refine ⟨.pcm (slotAddr sdata id) hdr (readAt pcmd (hdr.position + hdr.start) hdr.size), ?_, ?_⟩
              · unfold carriedOf
                rw [if_neg (mt tglob.mp hg'), if_pos (tpcmh.mpr hp'), hdata, hid, f0]
              · simp only [toSlot, slotAddr_small sdata id hidlt hb, ← f1, ← f2, ← f3, ← f4]
          · cases h
      · cases h

theorem carried_of_slots (sdata : Nat) (pcmd : Bytes) (es : List (Bytes × Bytes)) (slots : List Slot)
    (h4 : ∀ e ∈ es, e.1.length = 4) (h : allSome (es.map (slotOf sdata pcmd)) = some slots)
    (hb : ∀ s ∈ slots, s.addr + 2 ≤ 65536) :
    ((es.map toRiff).filterMap (carriedOf sdata pcmd)).map (toSlot pcmd) = slots := by
  induction es generalizing slots with
  | nil => simp only [List.map_nil, allSome, Option.some.injEq] at h; subst h; rfl
  | cons e es ih =>
    simp only [List.map_cons] at h
    cases hs : slotOf sdata pcmd e with
    | none => rw [hs] at h; simp [allSome] at h
    | some sl =>
      rw [hs] at h
      simp only [allSome] at h
      cases hr : allSome (es.map (slotOf sdata pcmd)) with
      | none => rw [hr] at h; cases h
      | some rest =>
        rw [hr] at h
        simp only [Option.map_some, Option.some.injEq] at h
        subst h
        obtain ⟨cr, c1, c2⟩ := carried_of_slot sdata pcmd e (h4 e (List.mem_cons_self ..)) sl hs (hb sl (List.mem_cons_self ..))
        have := ih rest (fun e he => h4 e (List.mem_cons_of_mem _ he)) hr (fun s hs => hb s (List.mem_cons_of_mem _ hs))
        simp only [List.map_cons, List.filterMap_cons, c1, c2, this]

/-! ### the whole file -/

theorem nat16_getD (seq : Bytes) (sdata : Nat) (h : nat16 seq 0 = some sdata) :
    sdata = (seq.getD 0 0).toNat * 256 + (seq.getD 1 0).toNat ∧ 2 ≤ seq.length ∧ sdata < 65536 := by
  unfold nat16 readAt at h
  match seq with
  | [] => simp at h
  | [_] => simp at h
  | x :: y :: r =>
    simp only [List.drop_zero, List.take_succ_cons, List.take_zero, Option.some.injEq] at h
    have := x.toNat_lt; have := y.toNat_lt
    refine ⟨by simp [← h], by simp, by omega⟩

theorem checkVersion_ok (major minor : Nat)
    (h : ¬(major ≠ Tables.MDSDRV_SEQ_VERSION_MAJOR ∨ minor < Tables.MDSDRV_MIN_SEQ_VERSION_MINOR ∨ minor > Tables.MDSDRV_SEQ_VERSION_MINOR)) :
    checkVersion major minor = true := by
  simp only [Tables.MDSDRV_SEQ_VERSION_MAJOR, Tables.MDSDRV_MIN_SEQ_VERSION_MINOR, Tables.MDSDRV_SEQ_VERSION_MINOR] at h
  have h1 : major = 0 := by omega
  subst h1
  simp only [checkVersion, Tables.MDSDRV_SEQ_VERSION_MAJOR, Tables.MDSDRV_MIN_SEQ_VERSION_MINOR, Tables.MDSDRV_SEQ_VERSION_MINOR,
    Tables.MDSDRV_MIN_SEQ_VERSION_MAJOR]
  simp
  omega

theorem readSong_build (f : Bytes) (size : Nat) (cs es : List (Bytes × Bytes)) (ver grp seq lst pcmd : Bytes) (fuel1 fuel2 : Nat)
    (h1 : f.take 4 = cc "RIFF") (h2 : readAt f 8 4 = cc "MDS0") (hsize : rdLe32 f 4 = some size)
    (hlen : size + size % 2 + 8 = f.length) (hs4 : 4 ≤ size)
    (hcs : chunks fuel1 (readAt f 12 (size - 4)) = some cs)
    (hver : only cs (cc "ver ") = some ver) (hgrp : only cs (cc "grp ") = some grp) (hseq : only cs (cc "seq ") = some seq)
    (hlst : only cs (cc "LIST") = some lst) (hpcmd : only cs (cc "pcmd") = some pcmd)
    (hvl : ver.length = 2) (hdb : lst.take 4 = cc "dblk")
    (hversion : ¬((ver.getD 0 0).toNat ≠ Tables.MDSDRV_SEQ_VERSION_MAJOR ∨ (ver.getD 1 0).toNat < Tables.MDSDRV_MIN_SEQ_VERSION_MINOR ∨
        (ver.getD 1 0).toNat > Tables.MDSDRV_SEQ_VERSION_MINOR))
    (hseq2 : 2 ≤ seq.length) (hes : chunks fuel2 (lst.drop 4) = some es) :
    readSong f = some { group := grp, seq := seq, pcmd := pcmd, chunks := es.map toRiff } := by
  obtain ⟨D, hD⟩ : ∃ D, D = (f.drop 8).take size := ⟨_, rfl⟩
  have hDlen : D.length = size := by rw [hD]; simp only [List.length_take, List.length_drop]; omega
  have hb0 : rdBe32 f 0 = some Riff.TYPE_RIFF := by
    rw [rdBe32_take4 f (by omega), h1]; exact congrArg some (by decide)
  have hofb : Riff.ofBytes f = .ok { type := Riff.TYPE_RIFF, data := D, position := Riff.rewindPos Riff.TYPE_RIFF } := by
    unfold Riff.ofBytes
    rw [if_neg (by omega), hb0, hsize]
    simp only
    rw [if_neg (by omega), hD]
  have hpos : Riff.rewindPos Riff.TYPE_RIFF = 4 := by decide
  have hD4 : D.take 4 = cc "MDS0" := by
    rw [hD, List.take_take, Nat.min_eq_left hs4]; exact h2
  have hid : Riff.getId { type := Riff.TYPE_RIFF, data := D, position := Riff.rewindPos Riff.TYPE_RIFF } = .ok Tables.link_cc_MDS0 := by
    unfold Riff.getId
    simp only [show Riff.isList Riff.TYPE_RIFF = true by decide, if_true]
    rw [rdBe32_take4 D (by omega), hD4]
    rfl
  have hDd : D.drop 4 = readAt f 12 (size - 4) := by
    rw [hD, List.drop_take, List.drop_drop]; rfl
  obtain ⟨k1, k2⟩ := chunks_len _ _ _ hcs
  have hkids : kids (D.length + 1) { type := Riff.TYPE_RIFF, data := D, position := Riff.rewindPos Riff.TYPE_RIFF } = (cs.map toRiff, none) := by
    have := kids_chunks fuel1 (D.drop 4) cs (by rw [hDd]; exact hcs) Riff.TYPE_RIFF (by decide) (D.take 4) 4 (D.length + 1)
      (by simp only [List.length_take]; omega) (Or.inl (by simp only [List.length_take]; omega))
      (by rw [← hDd] at k1; simp only [List.length_drop] at k1; omega)
    rw [List.take_append_drop] at this
    rw [hpos]; exact this
  have h4c : ∀ c ∈ cs, c.1.length = 4 := fun c hc => (k2 c hc).1
  have hlist : ∀ c ∈ cs, c.1 = cc "LIST" → c.2.take 4 = cc "dblk" := by
    intro c hc hn
    rw [only_unique cs _ _ hlst c hc hn]; exact hdb
  obtain ⟨p, hp0, hp1, hp2, hp3, hp4, hp5⟩ := foldTop_spec cs {} h4c hlist
  rw [only_lastOr cs _ _ _ hseq] at hp1
  rw [only_lastOr cs _ _ _ hpcmd] at hp2
  rw [only_lastOr cs _ _ _ hver] at hp3
  rw [only_lastOr cs _ _ _ hgrp] at hp4
  rw [only_lastList cs _ _ hlst] at hp5
  have hwalk : walkTop (D.length + 1) { type := Riff.TYPE_RIFF, data := D, position := Riff.rewindPos Riff.TYPE_RIFF } {} = .ok p := by
    rw [walkTop_fold, hkids]; exact hp0
  have hdt : p.dblk.type = Riff.TYPE_LIST := by
    rw [hp5]; show typeOf4 (cc "LIST") = Riff.TYPE_LIST; decide
  have hdd : p.dblk.data = lst := by rw [hp5]; rfl
  have hl4 : 4 ≤ lst.length := by
    have : (lst.take 4).length = 4 := by rw [hdb]; decide
    simp only [List.length_take] at this; omega
  obtain ⟨k3, _⟩ := chunks_len _ _ _ hes
  have hkids2 : kids (p.dblk.data.length + 1) { p.dblk with position := Riff.rewindPos p.dblk.type } = (es.map toRiff, none) := by
    have := kids_chunks fuel2 (lst.drop 4) es hes Riff.TYPE_LIST (by decide) (lst.take 4) 4 (lst.length + 1)
      (by simp only [List.length_take]; omega) (Or.inl (by simp only [List.length_take]; omega))
      (by simp only [List.length_drop] at k3; omega)
    rw [List.take_append_drop] at this
    rw [hdd, hdt, show Riff.rewindPos Riff.TYPE_LIST = 4 by decide]
    have e : ({ p.dblk with position := 4 } : Riff.Riff) = { type := Riff.TYPE_LIST, data := lst, position := 4 } := by
      rw [← hdt, ← hdd]
    rw [e]; exact this
  unfold readSong
  rw [hofb]
  simp only [ne_eq, not_true_eq_false, if_false, hid, hwalk]
  rw [if_neg (by rw [hp3, hp1, hdt, hvl]; omega)]
  rw [hp3, checkVersion_ok _ _ hversion]
  simp only [Bool.not_true, Bool.false_eq_true, if_false, hkids2, hp4, hp1, hp2]

theorem readSong_of_parseMds (f : Bytes) (s : SongIn) (h : parseMds f = some s) :
    ∃ rd, readSong f = some rd ∧ rd.seq = s.seq ∧ rd.group = s.group ∧ rd.carried.map (toSlot rd.pcmd) = s.slots ∧
      (∀ sl ∈ s.slots, 2 ≤ sl.addr ∧ sl.addr + 2 ≤ s.seq.length) ∧ disjointSlots s.slots = true ∧ s.seq.length ≤ 65536 ∧
      2 ≤ s.seq.length := by
  unfold parseMds at h
  split at h
  · cases h
  rename_i hhead
  split at h
  · cases h
  rename_i size hsize
  split at h
  · cases h
  rename_i hsz
  split at h
  · cases h
  rename_i cs hcs
  split at h
  · cases h
  rename_i hlen5
  split at h
  · rename_i ver grp seq lst pcmd hver hgrp hseq hlst hpcmd
    split at h
    · cases h
    rename_i hvl
    simp only at h
    split at h
    · cases h
    rename_i hversion
    split at h
    · rename_i sdata es hsdata hes
      split at h
      · cases h
      · rename_i slots hslots
        split at h
        · rename_i hfinal
          simp only [Option.some.injEq] at h
          subst h
          simp only [Bool.and_eq_true, decide_eq_true_eq, List.all_eq_true] at hfinal
          obtain ⟨⟨hall, hdisj⟩, hseqlen⟩ := hfinal
          rw [nat32le_eq] at hsize
          have hh1 : f.take 4 = cc "RIFF" := by
            rcases Decidable.em (f.take 4 = cc "RIFF") with e | e
            · exact e
            · exact absurd (Or.inl e) hhead
          have hh2 : readAt f 8 4 = cc "MDS0" := by
            rcases Decidable.em (readAt f 8 4 = cc "MDS0") with e | e
            · exact e
            · exact absurd (Or.inr e) hhead
          have hvl1 : ver.length = 2 := by
            rcases Decidable.em (ver.length = 2) with e | e
            · exact e
            · exact absurd (Or.inl e) hvl
          have hdb : lst.take 4 = cc "dblk" := by
            rcases Decidable.em (lst.take 4 = cc "dblk") with e | e
            · exact e
            · exact absurd (Or.inr e) hvl
          obtain ⟨hsd, hseq2, hsdlt⟩ := nat16_getD seq sdata hsdata
          have hrd := readSong_build f size cs es ver grp seq lst pcmd _ _ hh1 hh2 hsize (by omega) (by omega) hcs
            hver hgrp hseq hlst hpcmd hvl1 hdb hversion hseq2 hes
          obtain ⟨_, k2⟩ := chunks_len _ _ _ hes
          have hall' : ∀ sl ∈ slots, 2 ≤ sl.addr ∧ sl.addr + 2 ≤ seq.length := by
            intro sl hsl
            exact hall sl hsl
          refine ⟨_, hrd, rfl, rfl, ?_, hall', hdisj, hseqlen, hseq2⟩
          have hcar := carried_of_slots sdata pcmd es slots (fun e he => (k2 e he).1) hslots
            (fun sl hsl => by have := hall' sl hsl; omega)
          simp only [SongRead.carried, SongRead.sdata, ← hsd]
          exact hcar
        · cases h
    · cases h
  · cases h

end Ctrmml.Linker
