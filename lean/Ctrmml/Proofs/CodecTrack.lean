/-
  The general single-track theorems: bracket structure `ta`, loop point, bracket structure `tb`,
  loop-back jump — counted loops (with and without break, nested) on both sides of the loop point,
  the loop point itself at loop depth 0.
-/
import Ctrmml.Proofs.CodecWalkLoops
namespace Ctrmml.Codec
open Ctrmml.Mds Ctrmml.Seq Ctrmml.SeqWf Tables

/-- the bytes of a looping track, from the structured encodings of its two parts -/
def trackBytes (eB : Enc) : List Nat := eB.out ++ [mds_JUMP, jumpOff eB / 256, jumpOff eB % 256]

theorem track_convert (nS nM : Nat) (ta tb : List Node) (ha : linL ta = true) (hb : linL tb = true) (jarg : Nat)
    (eA eB : Enc) (hA : encL nS nM ta {} = .ok eA) (hB : encL nS nM tb (afterSegno eA) = .ok eB)
    (hlen : (trackBytes eB).length < 65536) :
    convertTrack nS nM (flatL ta ++ [⟨mds_SEGNO, 0⟩] ++ flatL tb ++ [⟨mds_JUMP, jarg⟩]) = .ok (trackBytes eB) := by
  obtain ⟨_, hB', pB, _, _⟩ := encL_total nS nM tb hb (afterSegno eA)
  rw [hB] at hB'; injection hB' with hB'; subst hB'
  have hlB : eB.out.length + 3 < 65536 := by simp [trackBytes] at hlen; omega
  have hlS : (afterSegno eA).out.length ≤ eB.out.length := pB.length_le
  have hlA : eA.out.length ≤ (afterSegno eA).out.length := (disambP_prefix eA).length_le
  have e1 := encL_eq nS nM ta ha {} eA hA (by omega)
  have e2 := encL_eq nS nM tb hb (afterSegno eA) eB hB (by omega)
  simp [convertTrack, encAll_append, e1, encAll, encEv_segno, e2, encEv_jump, Except.map, trackBytes]

/-- **C02, general single track**: loops with breaks on both sides of the loop point -/
theorem codec_roundtrip_track (nS nM : Nat) (ta tb : List Node) (ha : linL ta = true) (hb : linL tb = true)
    (jarg : Nat) :
    ∃ eA eB, encL nS nM ta {} = .ok eA ∧ encL nS nM tb (afterSegno eA) = .ok eB ∧
      ((trackBytes eB).length < 65536 →
        convertTrack nS nM (flatL ta ++ [⟨mds_SEGNO, 0⟩] ++ flatL tb ++ [⟨mds_JUMP, jarg⟩]) = .ok (trackBytes eB) ∧
        ∀ (base mj : Nat) (ln lr : Option Nat),
          Plays (trackBytes eB) base mj ln lr
            (expL nS nM ta ++ repeatL mj (expL nS nM tb ++ [Tk.loopMark]) ++ expL nS nM tb)) := by
  obtain ⟨eA, hA, semA⟩ := encL_sim nS nM ta ha {}
  obtain ⟨eB, hB, semB⟩ := encL_sim nS nM tb hb (afterSegno eA)
  obtain ⟨_, hB', pB, _, spB⟩ := encL_total nS nM tb hb (afterSegno eA)
  rw [hB] at hB'; injection hB' with hB'; subst hB'
  refine ⟨eA, eB, hA, hB, fun hlen => ⟨track_convert nS nM ta tb ha hb jarg eA eB hA hB hlen, ?_⟩⟩
  intro base mj ln lr
  have hpJ : eB.out ++ [mds_JUMP, jumpOff eB / 256, jumpOff eB % 256] <+: trackBytes eB := List.prefix_refl _
  have hpB : eB.out <+: trackBytes eB := List.prefix_append _ _
  have hpS : (afterSegno eA).out <+: trackBytes eB := pB.trans hpB
  obtain ⟨s1, r1, f1, g1⟩ := semA (trackBytes eB) base mj _ [] ((disambP_prefix eA).trans hpS) (good_init ln lr)
  obtain ⟨s2, r2, f2, g2⟩ := segno_good (base := base) (mj := mj) g1 hpS
  have hlenB : eB.out.length + 3 < 65536 := by simp [trackBytes] at hlen; omega
  have hlenS : (afterSegno eA).out.length ≤ eB.out.length := pB.length_le
  have hsp : eB.segnoPos = (afterSegno eA).out.length := by
    rw [spB]; show (disambP eA).out.length % 65536 = (disambP eA).out.length
    have : (disambP eA).out.length = (afterSegno eA).out.length := rfl
    omega
  have htgt : (eB.out.length + 3 + (jumpOff eB / 256 * 256 + jumpOff eB % 256)) % 65536 =
      (afterSegno eA).out.length := by
    simp only [jumpOff, hsp]; omega
  have hj2 : s2.jumps = 0 := by rw [f2.jumps, f1.jumps]
  obtain ⟨s', r', hfin, ho'⟩ := jump_passes (base := base) (mj := mj)
    (fun s O g => semB (trackBytes eB) base mj s O hpB g)
    (fun s hpc hd => good_at_segno eA s hpc hd) hpJ htgt mj s2 _ g2 (by omega) (by omega)
  refine ⟨s', r1.trans (r2.trans r'), hfin, ?_⟩
  rw [ho']; simp [List.reverse_append, List.append_assoc]

/-- **C03, general single track**: the walker accepts -/
theorem walk_accepts_track (nS nM : Nat) (ta tb : List Node) (ha : linL ta = true) (hb : linL tb = true)
    (jarg : Nat) :
    ∃ eA eB, encL nS nM ta {} = .ok eA ∧ encL nS nM tb (afterSegno eA) = .ok eB ∧
      ((trackBytes eB).length < 65536 →
        convertTrack nS nM (flatL ta ++ [⟨mds_SEGNO, 0⟩] ++ flatL tb ++ [⟨mds_JUMP, jarg⟩]) = .ok (trackBytes eB) ∧
        ∀ fuel, fuel ≥ (trackBytes eB).length →
          walk (trackBytes eB) 0 fuel { pc := 0 } = .ok (trackBytes eB).length) := by
  obtain ⟨eA, hA, _, _, _⟩ := encL_total nS nM ta ha {}
  obtain ⟨eB, hB, pB, _, spB⟩ := encL_total nS nM tb hb (afterSegno eA)
  refine ⟨eA, eB, hA, hB, fun hlen => ⟨track_convert nS nM ta tb ha hb jarg eA eB hA hB hlen, ?_⟩⟩
  intro fuel hf
  have hpJ : eB.out ++ [mds_JUMP, jumpOff eB / 256, jumpOff eB % 256] <+: trackBytes eB := List.prefix_refl _
  have hpB : eB.out <+: trackBytes eB := List.prefix_append _ _
  have hpS : (afterSegno eA).out <+: trackBytes eB := pB.trans hpB
  obtain ⟨w1, r1, g1, f1⟩ := wencL nS nM ta ha {} eA hA (trackBytes eB) 0 { pc := 0 }
    ((disambP_prefix eA).trans hpS) wgood_init
  obtain ⟨w2, l2, hpc2, _⟩ := wdisamb g1 hpS
  have g2 : WGood (afterSegno eA) w2 :=
    .inl ⟨by simp [afterSegno, needLenB, noteish, mds_SEGNO, mds_TIE], hpc2⟩
  obtain ⟨w3, r3, g3, f3⟩ := wencL nS nM tb hb _ eB hB (trackBytes eB) 0 w2 hpB g2
  obtain ⟨w4, l4, hpc4⟩ := wresolve g3 (b := mds_JUMP) (by decide) hpJ
  have hd2 : w2.depth = 0 := l2.frame.depth.trans f1.depth
  have f24 := f3.trans l4.frame
  have hd4 : w4.depth = 0 := f24.depth.trans hd2
  obtain ⟨k, hk, ek⟩ := (r1.trans (WR.ofLin (start := 0) l2)).trans (r3.trans (WR.ofLin (start := 0) l4))
  have hlenB : eB.out.length + 3 < 65536 := by simp [trackBytes] at hlen; omega
  have hlenS : (afterSegno eA).out.length ≤ eB.out.length := pB.length_le
  have hsp : eB.segnoPos = (afterSegno eA).out.length := by
    rw [spB]; show (disambP eA).out.length % 65536 = (disambP eA).out.length
    have : (disambP eA).out.length = (afterSegno eA).out.length := rfl
    omega
  have htgt0 : (eB.out.length + 3 + (jumpOff eB / 256 * 256 + jumpOff eB % 256)) % 65536 =
      (afterSegno eA).out.length := by
    clear hk ek hf r1 l2 r3 l4 g1 g2 g3 f24 f1 f3
    simp only [jumpOff, hsp]; omega
  have htgt : (w4.pc + 3 + (jumpOff eB / 256 * 256 + jumpOff eB % 256)) % 65536 = w2.pc := by
    rw [hpc4, hpc2]; exact htgt0
  have r0 : (trackBytes eB)[w4.pc]? = some mds_JUMP := by rw [hpc4]; exact rd_at hpJ
  have r1' : (trackBytes eB)[w4.pc + 1]? = some (jumpOff eB / 256) := by rw [hpc4]; exact rd_at1 hpJ
  have r2' : (trackBytes eB)[w4.pc + 1 + 1]? = some (jumpOff eB % 256) := by rw [hpc4]; exact rd_at2 hpJ
  have hbl : (trackBytes eB).length = eB.out.length + 3 := by simp [trackBytes]
  simp only at hk
  obtain ⟨f, rfl⟩ : ∃ f, fuel = f + 1 + k := ⟨fuel - 1 - k, by omega⟩
  rw [ek, walk_jump f r0 r1' r2' (by omega) hd4 (Nat.zero_le _) ?_, hpc4, hbl]
  rw [htgt]
  rcases f24.here hd2 with h | h
  · exact .inl h.symm
  · exact .inr h

end Ctrmml.Codec
