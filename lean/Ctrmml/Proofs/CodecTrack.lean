/-
  The general single-track theorems: bracket structure `ta`, loop point, bracket structure `tb`,
  terminator — counted loops (with any number of breaks, nested) and subroutine calls on both sides
  of the loop point, the loop point itself at loop depth 0.  Stated for a stream placed at ANY
  offset of a chunk (`pre ++ bytes <+: seq`, whole chunk below 64 KiB because the loop-back target
  is computed modulo 2^16), then specialised to a stream on its own.

  Three shapes, as `MDSDRV_Track_Writer::end_hook` produces them:
    (F)  `ta, FINISH`                       no loop point
    (J)  `ta, SEGNO, tb, JUMP`              loop point, loop section takes time
    (Z)  `ta, SEGNO, tb, FINISH`            loop point, but the loop section is empty in time
-/
import Ctrmml.Proofs.CodecWalkLoops
import Ctrmml.Proofs.CodecCall
import Ctrmml.Proofs.CodecConv
namespace Ctrmml.Codec
open Ctrmml.Mds Ctrmml.Seq Ctrmml.SeqWf Tables

/-- the bytes of a looping track, from the structured encodings of its two parts -/
def trackBytes (eB : Enc) : List Nat := eB.out ++ [mds_JUMP, jumpOff eB / 256, jumpOff eB % 256]

theorem track_convert (nS nM : Nat) (ta tb : List Node) (ha : linL ta = true) (hb : linL tb = true)
    (ka : brkOkL false ta = true) (kb : brkOkL false tb = true) (jarg : Nat)
    (eA eB : Enc) (hA : encL nS nM ta {} = .ok eA) (hB : encL nS nM tb (afterSegno eA) = .ok eB)
    (hlen : (trackBytes eB).length < 65536) :
    convertTrack nS nM (flatL ta ++ [⟨mds_SEGNO, 0⟩] ++ flatL tb ++ [⟨mds_JUMP, jarg⟩]) = .ok (trackBytes eB) := by
  obtain ⟨_, hB', pB, _, _⟩ := encL_total nS nM tb hb (afterSegno eA)
  rw [hB] at hB'; injection hB' with hB'; subst hB'
  have hlB : eB.out.length + 3 < 65536 := by simp [trackBytes] at hlen; omega
  have hlS : (afterSegno eA).out.length ≤ eB.out.length := pB.length_le
  have hlA : eA.out.length ≤ (afterSegno eA).out.length := (disambP_prefix eA).length_le
  have e1 := encL_eq nS nM ta false ha ka {} eA (fun h => by cases h) hA (by omega)
  have e2 := encL_eq nS nM tb false hb kb (afterSegno eA) eB (fun h => by cases h) hB (by omega)
  simp [convertTrack, encAll_append, e1, encAll, encEv_segno, e2, encEv_jump, Except.map, trackBytes]

/-- shape (Z): the loop point is there but the track ends with `FINISH` -/
theorem track_convert_z (nS nM : Nat) (ta tb : List Node) (ha : linL ta = true) (hb : linL tb = true)
    (ka : brkOkL false ta = true) (kb : brkOkL false tb = true) (farg : Nat)
    (eA eB : Enc) (hA : encL nS nM ta {} = .ok eA) (hB : encL nS nM tb (afterSegno eA) = .ok eB)
    (hlen : eB.out.length + 1 < 65536) :
    convertTrack nS nM (flatL ta ++ [⟨mds_SEGNO, 0⟩] ++ flatL tb ++ [⟨mds_FINISH, farg⟩]) = .ok (eB.out ++ [mds_FINISH]) := by
  obtain ⟨_, hB', pB, _, _⟩ := encL_total nS nM tb hb (afterSegno eA)
  rw [hB] at hB'; injection hB' with hB'; subst hB'
  have hlS : (afterSegno eA).out.length ≤ eB.out.length := pB.length_le
  have hlA : eA.out.length ≤ (afterSegno eA).out.length := (disambP_prefix eA).length_le
  have e1 := encL_eq nS nM ta false ha ka {} eA (fun h => by cases h) hA (by omega)
  have e2 := encL_eq nS nM tb false hb kb (afterSegno eA) eB (fun h => by cases h) hB (by omega)
  simp [convertTrack, encAll_append, e1, encAll, encEv_segno, e2, encEv_finish, Except.map]

/-- shape (F) -/
theorem track_convert_f (nS nM : Nat) (ta : List Node) (ha : linL ta = true) (ka : brkOkL false ta = true) (farg : Nat)
    (eA : Enc) (hA : encL nS nM ta {} = .ok eA) (hlen : eA.out.length + 1 < 65536) :
    convertTrack nS nM (flatL ta ++ [⟨mds_FINISH, farg⟩]) = .ok (eA.out ++ [mds_FINISH]) := by
  have e1 := encL_eq nS nM ta false ha ka {} eA (fun h => by cases h) hA (by omega)
  simp [convertTrack, encAll_append, e1, encAll, encEv_finish, Except.map]

/-- the two parts of a track, encoded by the structured encoder from nothing, decoded at offset
`pre.length` of a chunk: the encoder states shifted by `pre`.  The first part is entered in mode `M`
and left in mode `afterL M ta`, in which the second part is entered. -/
theorem two_parts_at (M : Mode) (nS nM : Nat) (ta tb : List Node) (ha : linL ta = true) (hb : linL tb = true)
    (ma : mokL M true ta = true) (mb : mokL (afterL M ta) true tb = true) :
    ∃ eA eB, encL nS nM ta {} = .ok eA ∧ encL nS nM tb (afterSegno eA) = .ok eB ∧
      (afterSegno eA).out <+: eB.out ∧ eB.segnoPos = (afterSegno eA).out.length % 65536 ∧
      ∀ (pre seq : List Nat) (base mj : Nat), M.Sound seq base mj → callsOkL M seq base mj ta →
        callsOkL (afterL M ta) seq base mj tb → pre ++ eB.out <+: seq →
        ∃ e0S e0B : Enc, e0S.out = pre ++ (afterSegno eA).out ∧ e0B.out = pre ++ eB.out ∧
          (∀ s : St, s.pc = pre.length → s.drum = M.dm →
            ∃ s1, Reach seq base mj s s1 ∧ FrameX s s1 ∧ Good (afterL M ta) e0S s1 ((expL M nS nM ta).reverse ++ s.out)) ∧
          (∀ (s : St) (O : List Tk), Good (afterL M ta) e0S s O →
            ∃ s1, Reach seq base mj s s1 ∧ FrameX s s1 ∧
              Good (afterL (afterL M ta) tb) e0B s1 ((expL (afterL M ta) nS nM tb).reverse ++ O)) ∧
          (∀ s : St, s.pc = e0S.out.length → s.drum = (afterL M ta).dm → Good (afterL M ta) e0S s s.out) := by
  obtain ⟨eA, hA, _, _, _⟩ := encL_total nS nM ta ha {}
  obtain ⟨eB, hB, pB, _, spB⟩ := encL_total nS nM tb hb (afterSegno eA)
  refine ⟨eA, eB, hA, hB, pB, spB, ?_⟩
  intro pre seq base mj hS hcA hcB hp
  obtain ⟨e0, he0⟩ : ∃ e0 : Enc, e0 = { out := pre } := ⟨_, rfl⟩
  have hsim : SimE {} e0 := by
    rw [he0]; exact ⟨rfl, rfl, rfl, fun hn => by simp [noteish, mds_REST, mds_TIE] at hn⟩
  obtain ⟨e0A, h0A, parA⟩ := encL_par nS nM ta ha {} e0 eA hsim hA
  have parD := disambP_par parA.sim
  have hsimS : SimE (afterSegno eA) (afterSegno e0A) :=
    ⟨rfl, rfl, rfl, fun hn => by simp [afterSegno, noteish, mds_SEGNO, mds_TIE] at hn⟩
  obtain ⟨e0B, h0B, parB⟩ := encL_par nS nM tb hb _ (afterSegno e0A) eB hsimS hB
  have hoA : e0A.out = pre ++ eA.out := by
    obtain ⟨B, a, b⟩ := parA.app
    rw [b, a, he0]; simp
  have hoS : (afterSegno e0A).out = pre ++ (afterSegno eA).out := by
    obtain ⟨B, a, b⟩ := parD.app
    show (disambP e0A).out = pre ++ (disambP eA).out
    rw [b, a, hoA, List.append_assoc]
  have hoB : e0B.out = pre ++ eB.out := by
    obtain ⟨B, a, b⟩ := parB.app
    rw [b, a, hoS, List.append_assoc]
  obtain ⟨_, h0B', p0B, _, _⟩ := encL_total nS nM tb hb (afterSegno e0A)
  rw [h0B] at h0B'; injection h0B' with h0B'; subst h0B'
  have hpB : e0B.out <+: seq := by rw [hoB]; exact hp
  have hpS : (afterSegno e0A).out <+: seq := p0B.trans hpB
  obtain ⟨x, hx, semA⟩ := encL_sim M true nS nM ta ha ma e0
  rw [h0A] at hx; injection hx with hx; subst hx
  obtain ⟨y, hy, semB⟩ := encL_sim (afterL M ta) true nS nM tb hb mb (afterSegno e0A)
  rw [h0B] at hy; injection hy with hy; subst hy
  have hS1 := afterL_sound hS ta
  refine ⟨afterSegno e0A, e0B, hoS, hoB, ?_, ?_, ?_⟩
  · intro s hpc hd
    have g0 : Good M e0 s s.out := by
      rw [he0]
      exact ⟨fun h => absurd rfl h, fun h => absurd rfl h, hd,
        .inl ⟨by simp [needLenB, noteish, mds_REST, mds_TIE], hpc, rfl⟩⟩
    obtain ⟨s1, r1, f1, g1⟩ := semA seq base mj s s.out hS hcA ((disambP_prefix e0A).trans hpS) g0
    obtain ⟨s2, r2, f2, g2⟩ := segno_good (base := base) (mj := mj) hS1 g1 hpS
    exact ⟨s2, r1.trans r2, f1.trans f2.x, g2⟩
  · intro s O g
    exact semB seq base mj s O hS1 hcB hpB g
  · intro s hpc hd
    exact good_at_segno _ e0A s hpc hd

/-- **shape (J) at an offset**: the interpreter, entered at the first byte of the stream with the
loop-back not yet followed, plays `ta`, then `tb` `mj + 1` times with a loop mark after each of
the first `mj`, and stops at the jump.  The loop section must end in the drum-mode state it
starts in (`hloop`; otherwise the replay is played in the other state: D27). -/
theorem track_j_at (M : Mode) (nS nM : Nat) (ta tb : List Node) (ha : linL ta = true) (hb : linL tb = true)
    (ma : mokL M true ta = true) (mb : mokL (afterL M ta) true tb = true)
    (hloop : (afterL (afterL M ta) tb).dm = (afterL M ta).dm) :
    ∃ eA eB, encL nS nM ta {} = .ok eA ∧ encL nS nM tb (afterSegno eA) = .ok eB ∧
      ∀ (pre seq : List Nat) (base mj : Nat) (s : St), M.Sound seq base mj → callsOkL M seq base mj ta →
        callsOkL (afterL M ta) seq base mj tb →
        pre ++ trackBytes eB <+: seq → (pre ++ trackBytes eB).length < 65536 →
        s.pc = pre.length → s.drum = M.dm → s.jumps = 0 →
        ∃ s', Reach seq base mj s s' ∧ step seq base mj s' = .error .finished ∧
          s'.out = (expL M nS nM ta ++ repeatL mj (expL (afterL M ta) nS nM tb ++ [Tk.loopMark]) ++
            expL (afterL M ta) nS nM tb).reverse ++ s.out := by
  obtain ⟨eA, eB, hA, hB, pB, spB, h⟩ := two_parts_at M nS nM ta tb ha hb ma mb
  refine ⟨eA, eB, hA, hB, ?_⟩
  intro pre seq base mj s hS hcA hcB hp hlen hpc hd hj
  have hpB : pre ++ eB.out <+: seq := by
    refine List.IsPrefix.trans ?_ hp
    simp only [trackBytes, ← List.append_assoc]
    exact List.prefix_append _ _
  obtain ⟨e0S, e0B, hoS, hoB, semA, semB, hSt⟩ := h pre seq base mj hS hcA hcB hpB
  rw [afterL_of_dm hloop] at semB
  obtain ⟨s1, r1, f1, g1⟩ := semA s hpc hd
  have hpJ : e0B.out ++ [mds_JUMP, jumpOff eB / 256, jumpOff eB % 256] <+: seq := by
    rw [hoB]; simpa [trackBytes, List.append_assoc] using hp
  have hlenB : pre.length + eB.out.length + 3 < 65536 := by simp [trackBytes] at hlen; omega
  have hlenS : (afterSegno eA).out.length ≤ eB.out.length := pB.length_le
  have hsp : eB.segnoPos = (afterSegno eA).out.length := by rw [spB]; omega
  have htgt : (e0B.out.length + 3 + (jumpOff eB / 256 * 256 + jumpOff eB % 256)) % 65536 = e0S.out.length := by
    rw [hoB, hoS]
    simp only [List.length_append, jumpOff, hsp]
    omega
  have hj1 : s1.jumps = 0 := by rw [f1.jumps, hj]
  obtain ⟨s', r', hfin, ho'⟩ := jump_passes (base := base) (mj := mj) (afterL_sound hS ta) semB hSt hpJ htgt mj s1 _ g1
    (by omega) (by omega)
  refine ⟨s', r1.trans r', hfin, ?_⟩
  rw [ho']; simp [List.reverse_append, List.append_assoc]

/-- **shape (Z) at an offset**: entered with an empty call stack, plays `ta` then `tb` and stops
at the terminator -/
theorem track_z_at (M : Mode) (nS nM : Nat) (ta tb : List Node) (ha : linL ta = true) (hb : linL tb = true)
    (ma : mokL M true ta = true) (mb : mokL (afterL M ta) true tb = true) :
    ∃ eA eB, encL nS nM ta {} = .ok eA ∧ encL nS nM tb (afterSegno eA) = .ok eB ∧
      ∀ (pre seq : List Nat) (base mj : Nat) (s : St), M.Sound seq base mj → callsOkL M seq base mj ta →
        callsOkL (afterL M ta) seq base mj tb →
        pre ++ (eB.out ++ [mds_FINISH]) <+: seq → s.pc = pre.length → s.drum = M.dm → s.calls = [] →
        ∃ s', Reach seq base mj s s' ∧ step seq base mj s' = .error .finished ∧
          s'.out = (expL M nS nM ta ++ expL (afterL M ta) nS nM tb).reverse ++ s.out := by
  obtain ⟨eA, eB, hA, hB, pB, spB, h⟩ := two_parts_at M nS nM ta tb ha hb ma mb
  refine ⟨eA, eB, hA, hB, ?_⟩
  intro pre seq base mj s hS hcA hcB hp hpc hd hcalls
  have hpB : pre ++ eB.out <+: seq := by
    refine List.IsPrefix.trans ?_ hp
    rw [← List.append_assoc]
    exact List.prefix_append _ _
  obtain ⟨e0S, e0B, hoS, hoB, semA, semB, hSt⟩ := h pre seq base mj hS hcA hcB hpB
  obtain ⟨s1, r1, f1, g1⟩ := semA s hpc hd
  obtain ⟨s2, r2, f2, g2⟩ := semB s1 _ g1
  have hpF : e0B.out ++ [mds_FINISH] <+: seq := by rw [hoB]; simpa [List.append_assoc] using hp
  obtain ⟨s3, r3, hfin, ho⟩ := finish_run (base := base) (mj := mj) (afterL_sound (afterL_sound hS ta) tb) g2
    (by rw [f2.calls, f1.calls, hcalls]) hpF
  refine ⟨s3, r1.trans (r2.trans r3), hfin, ?_⟩
  rw [ho]; simp [List.reverse_append, List.append_assoc]

/-- **shape (F) at an offset** -/
theorem track_f_at (M : Mode) (nS nM : Nat) (ta : List Node) (ha : linL ta = true) (ma : mokL M true ta = true) :
    ∃ eA, encL nS nM ta {} = .ok eA ∧
      ∀ (pre seq : List Nat) (base mj : Nat) (s : St), M.Sound seq base mj → callsOkL M seq base mj ta →
        pre ++ (eA.out ++ [mds_FINISH]) <+: seq → s.pc = pre.length → s.drum = M.dm → s.calls = [] →
        ∃ s', Reach seq base mj s s' ∧ step seq base mj s' = .error .finished ∧
          s'.out = (expL M nS nM ta).reverse ++ s.out := by
  obtain ⟨eA, hA, h⟩ := stream_top_at M true nS nM ta ha ma
  refine ⟨eA, hA, ?_⟩
  intro pre seq base mj s hS hcA hp hpc hd hcalls
  have hp' : pre ++ eA.out ++ mds_FINISH :: [] <+: seq := by simpa [List.append_assoc] using hp
  obtain ⟨s1, r1, f1, _, hpc1, ho⟩ := h pre seq base mj s hS hcA (b := mds_FINISH) (by decide) hp' hpc hd
  have hfin : seq[s1.pc]? = some mds_FINISH := by
    rw [hpc1]
    have : (pre ++ eA.out) ++ mds_FINISH :: [] <+: seq := hp'
    simpa using rd_at this
  exact ⟨s1, r1, step_finish hfin (f1.calls.trans hcalls), ho⟩

/-- **C02, general single track** (on its own, no calls): loops with breaks on both sides of the
loop point -/
theorem codec_roundtrip_track (nS nM : Nat) (ta tb : List Node) (ha : linL ta = true) (hb : linL tb = true)
    (ka : brkOkL false ta = true) (kb : brkOkL false tb = true) (na : noCallL ta = true) (nb : noCallL tb = true)
    (ma : mokL Mode.plain false ta = true) (mb : mokL Mode.plain false tb = true)
    (jarg : Nat) :
    ∃ eA eB, encL nS nM ta {} = .ok eA ∧ encL nS nM tb (afterSegno eA) = .ok eB ∧
      ((trackBytes eB).length < 65536 →
        convertTrack nS nM (flatL ta ++ [⟨mds_SEGNO, 0⟩] ++ flatL tb ++ [⟨mds_JUMP, jarg⟩]) = .ok (trackBytes eB) ∧
        ∀ (base mj : Nat) (ln lr : Option Nat),
          Plays (trackBytes eB) base mj ln lr
            (expL Mode.plain nS nM ta ++ repeatL mj (expL Mode.plain nS nM tb ++ [Tk.loopMark]) ++
              expL Mode.plain nS nM tb)) := by
  have e1 : afterL Mode.plain ta = Mode.plain := afterL_of_mok ma
  have ma' : mokL Mode.plain true ta = true := mokL_top ma
  have mb' : mokL (afterL Mode.plain ta) true tb = true := by rw [e1]; exact mokL_top mb
  obtain ⟨eA, eB, hA, hB, h⟩ := track_j_at Mode.plain nS nM ta tb ha hb ma' mb'
    (by rw [e1, afterL_of_mok mb])
  rw [e1] at h
  refine ⟨eA, eB, hA, hB, fun hlen => ⟨track_convert nS nM ta tb ha hb ka kb jarg eA eB hA hB hlen, ?_⟩⟩
  intro base mj ln lr
  obtain ⟨s', r', hfin, ho⟩ := h [] (trackBytes eB) base mj { pc := 0, lastNote := ln, lastRest := lr }
    (Mode.plain_sound _ _ _)
    (noCallL_callsOkL _ _ _ _ ta na) (noCallL_callsOkL _ _ _ _ tb nb) (by simp) (by simpa using hlen) rfl rfl rfl
  exact ⟨s', r', hfin, by simpa using ho⟩

/-! ### the walker on the three shapes, at an offset -/

/-- walker counterpart of `two_parts_at`: walking from the first byte of the stream at loop depth 0
reaches the end of `tb`'s bytes at depth 0, having recorded the loop point as a boundary -/
theorem walk_two_parts_at (nS nM : Nat) (ta tb : List Node) (ha : linL ta = true) (hb : linL tb = true)
    (eA eB : Enc) (hA : encL nS nM ta {} = .ok eA) (hB : encL nS nM tb (afterSegno eA) = .ok eB)
    (pre seq : List Nat) (start : Nat) (hp : pre ++ eB.out <+: seq) {b : Nat} {r : List Nat} (hbge : b ≥ 0x80)
    (hpb : pre ++ eB.out ++ b :: r <+: seq) :
    ∃ w4 : W, WR seq start { pc := pre.length } w4 ∧ w4.pc = pre.length + eB.out.length ∧ w4.depth = 0 ∧
      (w4.pc = pre.length + (afterSegno eA).out.length ∨ pre.length + (afterSegno eA).out.length ∈ w4.bounds0) := by
  obtain ⟨e0, he0⟩ : ∃ e0 : Enc, e0 = { out := pre } := ⟨_, rfl⟩
  have hsim : SimE {} e0 := by
    rw [he0]; exact ⟨rfl, rfl, rfl, fun hn => by simp [noteish, mds_REST, mds_TIE] at hn⟩
  obtain ⟨e0A, h0A, parA⟩ := encL_par nS nM ta ha {} e0 eA hsim hA
  have parD := disambP_par parA.sim
  have hsimS : SimE (afterSegno eA) (afterSegno e0A) :=
    ⟨rfl, rfl, rfl, fun hn => by simp [afterSegno, noteish, mds_SEGNO, mds_TIE] at hn⟩
  obtain ⟨e0B, h0B, parB⟩ := encL_par nS nM tb hb _ (afterSegno e0A) eB hsimS hB
  have hoA : e0A.out = pre ++ eA.out := by
    obtain ⟨B, a, b⟩ := parA.app
    rw [b, a, he0]; simp
  have hoS : (afterSegno e0A).out = pre ++ (afterSegno eA).out := by
    obtain ⟨B, a, b⟩ := parD.app
    show (disambP e0A).out = pre ++ (disambP eA).out
    rw [b, a, hoA, List.append_assoc]
  have hoB : e0B.out = pre ++ eB.out := by
    obtain ⟨B, a, b⟩ := parB.app
    rw [b, a, hoS, List.append_assoc]
  obtain ⟨_, h0B', p0B, _, _⟩ := encL_total nS nM tb hb (afterSegno e0A)
  rw [h0B] at h0B'; injection h0B' with h0B'; subst h0B'
  have hpB : e0B.out <+: seq := by rw [hoB]; exact hp
  have hpS : (afterSegno e0A).out <+: seq := p0B.trans hpB
  have g0 : WGood e0 ({ pc := pre.length } : W) := by
    rw [he0]; exact .inl ⟨by simp [needLenB, noteish, mds_REST, mds_TIE], rfl⟩
  obtain ⟨w1, r1, g1, f1⟩ := wencL nS nM ta ha e0 e0A h0A seq start { pc := pre.length }
    ((disambP_prefix e0A).trans hpS) g0
  obtain ⟨w2, l2, hpc2, _⟩ := wdisamb g1 hpS
  have g2 : WGood (afterSegno e0A) w2 :=
    .inl ⟨by simp [afterSegno, needLenB, noteish, mds_SEGNO, mds_TIE], hpc2⟩
  obtain ⟨w3, r3, g3, f3⟩ := wencL nS nM tb hb _ e0B h0B seq start w2 hpB g2
  have hpb' : e0B.out ++ b :: r <+: seq := by rw [hoB]; exact hpb
  obtain ⟨w4, l4, hpc4⟩ := wresolve g3 hbge hpb'
  have hd2 : w2.depth = 0 := l2.frame.depth.trans f1.depth
  have f24 := f3.trans l4.frame
  have hd4 : w4.depth = 0 := f24.depth.trans hd2
  refine ⟨w4, (r1.trans (WR.ofLin (start := start) l2)).trans (r3.trans (WR.ofLin (start := start) l4)),
    by rw [hpc4, hoB]; simp, hd4, ?_⟩
  have hS : w2.pc = pre.length + (afterSegno eA).out.length := by
    rw [hpc2, show (disambP e0A).out = (afterSegno e0A).out from rfl, hoS]; simp
  rw [← hS]
  exact f24.here hd2

/-- **shape (J), walker at an offset** -/
theorem walk_j_at (nS nM : Nat) (ta tb : List Node) (ha : linL ta = true) (hb : linL tb = true)
    (eA eB : Enc) (hA : encL nS nM ta {} = .ok eA) (hB : encL nS nM tb (afterSegno eA) = .ok eB)
    (pre seq : List Nat) (hp : pre ++ trackBytes eB <+: seq) (hlen : (pre ++ trackBytes eB).length < 65536) :
    ∀ fuel, fuel ≥ (trackBytes eB).length →
      walk seq pre.length fuel { pc := pre.length } = .ok (pre.length + (trackBytes eB).length) := by
  intro fuel hf
  obtain ⟨_, hB', pB, _, spB⟩ := encL_total nS nM tb hb (afterSegno eA)
  rw [hB] at hB'; injection hB' with hB'; subst hB'
  have hpJ : pre ++ eB.out ++ mds_JUMP :: [jumpOff eB / 256, jumpOff eB % 256] <+: seq := by
    simpa [trackBytes, List.append_assoc] using hp
  have hpB : pre ++ eB.out <+: seq := (List.prefix_append _ _).trans hpJ
  obtain ⟨w4, r4, hpc4, hd4, hb4⟩ := walk_two_parts_at nS nM ta tb ha hb eA eB hA hB pre seq pre.length hpB
    (b := mds_JUMP) (by decide) hpJ
  obtain ⟨k, hk, ek⟩ := r4
  have hlenB : pre.length + eB.out.length + 3 < 65536 := by simp [trackBytes] at hlen; omega
  have hlenS : (afterSegno eA).out.length ≤ eB.out.length := pB.length_le
  have hsp : eB.segnoPos = (afterSegno eA).out.length := by
    rw [spB]; show (disambP eA).out.length % 65536 = (disambP eA).out.length
    have : (disambP eA).out.length = (afterSegno eA).out.length := rfl
    omega
  have htgt : (w4.pc + 3 + (jumpOff eB / 256 * 256 + jumpOff eB % 256)) % 65536 =
      pre.length + (afterSegno eA).out.length := by
    rw [hpc4]
    clear hk ek hf hb4
    simp only [jumpOff, hsp]; omega
  have hpJ' : (pre ++ eB.out) ++ mds_JUMP :: [jumpOff eB / 256, jumpOff eB % 256] <+: seq := hpJ
  have hl4 : w4.pc = (pre ++ eB.out).length := by rw [hpc4]; simp
  have r0 : seq[w4.pc]? = some mds_JUMP := by rw [hl4]; exact rd_at hpJ'
  have r1' : seq[w4.pc + 1]? = some (jumpOff eB / 256) := by rw [hl4]; exact rd_at1 hpJ'
  have r2' : seq[w4.pc + 1 + 1]? = some (jumpOff eB % 256) := by rw [hl4]; exact rd_at2 hpJ'
  have hbl : (trackBytes eB).length = eB.out.length + 3 := by simp [trackBytes]
  have hsl : pre.length + eB.out.length + 3 ≤ seq.length := by
    have := hp.length_le; simp [trackBytes] at this; omega
  simp only at hk
  obtain ⟨f, rfl⟩ : ∃ f, fuel = f + 1 + k := ⟨fuel - 1 - k, by omega⟩
  rw [ek, walk_jump f r0 r1' r2' (by omega) hd4 (by rw [htgt]; omega) ?_, hpc4, hbl]
  · rw [Nat.add_assoc]
  · rw [htgt]
    rcases hb4 with h | h
    · exact .inl h.symm
    · exact .inr h

/-- **shape (Z), walker at an offset** -/
theorem walk_z_at (nS nM : Nat) (ta tb : List Node) (ha : linL ta = true) (hb : linL tb = true)
    (eA eB : Enc) (hA : encL nS nM ta {} = .ok eA) (hB : encL nS nM tb (afterSegno eA) = .ok eB)
    (pre seq : List Nat) (start : Nat) (hp : pre ++ (eB.out ++ [mds_FINISH]) <+: seq) :
    ∀ fuel, fuel ≥ eB.out.length + 1 →
      walk seq start fuel { pc := pre.length } = .ok (pre.length + eB.out.length + 1) := by
  intro fuel hf
  have hpF : pre ++ eB.out ++ mds_FINISH :: [] <+: seq := by simpa [List.append_assoc] using hp
  have hpB : pre ++ eB.out <+: seq := (List.prefix_append _ _).trans hpF
  obtain ⟨w4, r4, hpc4, hd4, _⟩ := walk_two_parts_at nS nM ta tb ha hb eA eB hA hB pre seq start hpB
    (b := mds_FINISH) (by decide) hpF
  obtain ⟨k, hk, ek⟩ := r4
  have hl4 : w4.pc = (pre ++ eB.out).length := by rw [hpc4]; simp
  have r0 : seq[w4.pc]? = some mds_FINISH := by rw [hl4]; exact rd_at hpF
  have hsl : pre.length + eB.out.length + 1 ≤ seq.length := by
    have := hp.length_le; simp at this; omega
  simp only at hk
  obtain ⟨f, rfl⟩ : ∃ f, fuel = f + 1 + k := ⟨fuel - 1 - k, by omega⟩
  rw [ek, walk_finish f r0 (by omega) hd4, hpc4]

/-- **shape (F) (and every subroutine stream), walker at an offset** -/
theorem walk_f_at (nS nM : Nat) (ta : List Node) (ha : linL ta = true)
    (eA : Enc) (hA : encL nS nM ta {} = .ok eA)
    (pre seq : List Nat) (start : Nat) (hp : pre ++ (eA.out ++ [mds_FINISH]) <+: seq) :
    ∀ fuel, fuel ≥ eA.out.length + 1 →
      walk seq start fuel { pc := pre.length } = .ok (pre.length + eA.out.length + 1) := by
  intro fuel hf
  obtain ⟨e0, he0⟩ : ∃ e0 : Enc, e0 = { out := pre } := ⟨_, rfl⟩
  have hsim : SimE {} e0 := by
    rw [he0]; exact ⟨rfl, rfl, rfl, fun hn => by simp [noteish, mds_REST, mds_TIE] at hn⟩
  obtain ⟨e0A, h0A, parA⟩ := encL_par nS nM ta ha {} e0 eA hsim hA
  have hoA : e0A.out = pre ++ eA.out := by
    obtain ⟨B, a, b⟩ := parA.app
    rw [b, a, he0]; simp
  have hpF : e0A.out ++ [mds_FINISH] <+: seq := by rw [hoA]; simpa [List.append_assoc] using hp
  have g0 : WGood e0 ({ pc := pre.length } : W) := by
    rw [he0]; exact .inl ⟨by simp [needLenB, noteish, mds_REST, mds_TIE], rfl⟩
  obtain ⟨w1, r1, g1, f1⟩ := wencL nS nM ta ha e0 e0A h0A seq start { pc := pre.length }
    ((List.prefix_append _ _).trans hpF) g0
  obtain ⟨w2, l2, hpc2⟩ := wresolve g1 (b := mds_FINISH) (by decide) hpF
  obtain ⟨k, hk, ek⟩ := r1.trans (WR.ofLin (start := start) l2)
  have hd : w2.depth = 0 := l2.frame.depth.trans f1.depth
  have r0 : seq[w2.pc]? = some mds_FINISH := by rw [hpc2]; exact rd_at hpF
  have hsl : pre.length + eA.out.length + 1 ≤ seq.length := by
    have := hp.length_le; simp at this; omega
  have hpc2' : w2.pc = pre.length + eA.out.length := by rw [hpc2, hoA]; simp
  simp only at hk
  obtain ⟨f, rfl⟩ : ∃ f, fuel = f + 1 + k := ⟨fuel - 1 - k, by omega⟩
  rw [ek, walk_finish f r0 (by omega) hd, hpc2']

/-- **C03, general single track** (on its own): the walker accepts -/
theorem walk_accepts_track (nS nM : Nat) (ta tb : List Node) (ha : linL ta = true) (hb : linL tb = true)
    (ka : brkOkL false ta = true) (kb : brkOkL false tb = true) (jarg : Nat) :
    ∃ eA eB, encL nS nM ta {} = .ok eA ∧ encL nS nM tb (afterSegno eA) = .ok eB ∧
      ((trackBytes eB).length < 65536 →
        convertTrack nS nM (flatL ta ++ [⟨mds_SEGNO, 0⟩] ++ flatL tb ++ [⟨mds_JUMP, jarg⟩]) = .ok (trackBytes eB) ∧
        ∀ fuel, fuel ≥ (trackBytes eB).length →
          walk (trackBytes eB) 0 fuel { pc := 0 } = .ok (trackBytes eB).length) := by
  obtain ⟨eA, hA, _, _, _⟩ := encL_total nS nM ta ha {}
  obtain ⟨eB, hB, _, _, _⟩ := encL_total nS nM tb hb (afterSegno eA)
  refine ⟨eA, eB, hA, hB, fun hlen => ⟨track_convert nS nM ta tb ha hb ka kb jarg eA eB hA hB hlen, ?_⟩⟩
  intro fuel hf
  have := walk_j_at nS nM ta tb ha hb eA eB hA hB [] (trackBytes eB) (by simp) (by simpa using hlen) fuel hf
  simpa using this

/-! ### the shapes from the real side: what `convert_track` emitted IS the structured encoding -/

theorem afterSegno_len (e : Enc) : e.out.length ≤ (afterSegno e).out.length := (disambP_prefix e).length_le

/-- **shape (J) from the real side** -/
theorem shape_j_conv (nS nM : Nat) (ta tb : List Node) (ha : linL ta = true) (hb : linL tb = true)
    (ka : brkOkL false ta = true) (kb : brkOkL false tb = true) (jarg : Nat) (bytes : List Nat)
    (h : convertTrack nS nM (flatL ta ++ [⟨mds_SEGNO, 0⟩] ++ flatL tb ++ [⟨mds_JUMP, jarg⟩]) = .ok bytes)
    (hlen : bytes.length < 65536) :
    ∃ eA eB, encL nS nM ta {} = .ok eA ∧ encL nS nM tb (afterSegno eA) = .ok eB ∧ bytes = trackBytes eB := by
  obtain ⟨e', h1, rfl⟩ := convertTrack_ok h
  obtain ⟨e3, h2, h3⟩ := encAll_append_ok h1
  obtain ⟨e2, h4, h5⟩ := encAll_append_ok h2
  obtain ⟨e1, h6, h7⟩ := encAll_append_ok h4
  have h8 := encAll_single_ok h7
  rw [encEv_segno] at h8
  simp only [Except.ok.injEq] at h8
  subst h8
  have h9 := encAll_single_ok h3
  rw [encEv_jump] at h9
  simp only [Except.ok.injEq] at h9
  subst h9
  simp only [List.length_append, List.length_cons, List.length_nil] at hlen
  have l1 := encAll_flatL_len nS nM tb hb _ _ h5
  have l2 := afterSegno_len e1
  have hA := encL_conv nS nM ta false ha ka {} e1 (fun h => by cases h) h6 (by omega)
  have hB := encL_conv nS nM tb false hb kb (afterSegno e1) e3 (fun h => by cases h) h5 (by omega)
  exact ⟨e1, e3, hA, hB, rfl⟩

/-- **shape (Z) from the real side** -/
theorem shape_z_conv (nS nM : Nat) (ta tb : List Node) (ha : linL ta = true) (hb : linL tb = true)
    (ka : brkOkL false ta = true) (kb : brkOkL false tb = true) (farg : Nat) (bytes : List Nat)
    (h : convertTrack nS nM (flatL ta ++ [⟨mds_SEGNO, 0⟩] ++ flatL tb ++ [⟨mds_FINISH, farg⟩]) = .ok bytes)
    (hlen : bytes.length < 65536) :
    ∃ eA eB, encL nS nM ta {} = .ok eA ∧ encL nS nM tb (afterSegno eA) = .ok eB ∧ bytes = eB.out ++ [mds_FINISH] := by
  obtain ⟨e', h1, rfl⟩ := convertTrack_ok h
  obtain ⟨e3, h2, h3⟩ := encAll_append_ok h1
  obtain ⟨e2, h4, h5⟩ := encAll_append_ok h2
  obtain ⟨e1, h6, h7⟩ := encAll_append_ok h4
  have h8 := encAll_single_ok h7
  rw [encEv_segno] at h8
  simp only [Except.ok.injEq] at h8
  subst h8
  have h9 := encAll_single_ok h3
  rw [encEv_finish] at h9
  simp only [Except.ok.injEq] at h9
  subst h9
  simp only [List.length_append, List.length_cons, List.length_nil] at hlen
  have l1 := encAll_flatL_len nS nM tb hb _ _ h5
  have l2 := afterSegno_len e1
  have hA := encL_conv nS nM ta false ha ka {} e1 (fun h => by cases h) h6 (by omega)
  have hB := encL_conv nS nM tb false hb kb (afterSegno e1) e3 (fun h => by cases h) h5 (by omega)
  exact ⟨e1, e3, hA, hB, rfl⟩

end Ctrmml.Codec
